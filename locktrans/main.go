// Command locktrans translates every function, method and closure of rpc/*.go (non-test)
// into a lock program of coq/Lock/LockCheck.v and writes coq/Gen/LockProgs.v.
//
// It FAILS CLOSED: any construct it does not understand inside a function, any callee it
// cannot classify, any outcome-split function used outside the supported `if` forms makes it
// exit non-zero with a message naming the function.  See docs/C09.md for the supported subset
// and contracts.txt for the per-function contracts and the classification tables.
package main

import (
	"crypto/sha256"
	"flag"
	"fmt"
	"go/ast"
	"go/importer"
	"go/parser"
	"go/token"
	"go/types"
	"os"
	"path/filepath"
	"regexp"
	"sort"
	"strings"
)

// ---------------------------------------------------------------- lock-program terms

type Stmt interface{}

type (
	sSkip     struct{}
	sAct      struct{ a string }
	sSeq      struct{ a, b Stmt }
	sChoice   struct{ a, b Stmt }
	sLoop     struct{ b Stmt }
	sBreak    struct{}
	sContinue struct{}
	sCall     struct {
		f       string
		ok, err Stmt
		line    int
	}
	sReturn struct{ o int }
	sSpawn  struct{ f string }
	sPanic  struct{}
)

func isSkip(s Stmt) bool { _, ok := s.(sSkip); return ok }

func seq(ss ...Stmt) Stmt {
	var res Stmt = sSkip{}
	for i := len(ss) - 1; i >= 0; i-- {
		s := ss[i]
		if s == nil || isSkip(s) {
			continue
		}
		if isSkip(res) {
			res = s
		} else if q, ok := s.(sSeq); ok {
			res = seq(q.a, seq(q.b, res))
		} else {
			res = sSeq{s, res}
		}
	}
	return res
}

func choice(a, b Stmt) Stmt {
	if isSkip(a) && isSkip(b) {
		return sSkip{}
	}
	return sChoice{a, b}
}

func choiceN(ss []Stmt) Stmt {
	if len(ss) == 0 {
		return sSkip{}
	}
	res := ss[len(ss)-1]
	for i := len(ss) - 2; i >= 0; i-- {
		res = choice(ss[i], res)
	}
	return res
}

// ---------------------------------------------------------------- contracts

type lstate struct {
	held   []int // mutex ids, sorted
	sender bool
}

func (l lstate) anyMutex() bool { return len(l.held) > 0 }

// mutexDef names one abstract mutex: the field <key> (pkgpath.Type.field); when varName is
// set, only the instance reached through a variable of that name (a second instance of the
// same class held at the same time, e.g. Promise.mu of `parent` in Promise.Join).
type mutexDef struct {
	name    string
	id      int
	key     string
	varName string
	before  string // name of a mutex that must not be held when this one is acquired
}

type pkgDef struct {
	path   string
	dir    string
	files  map[string]bool // nil: all non-test files
	prefix string
}

type exitC struct {
	out   int
	st    lstate
	tasks int
}

type caseC struct {
	entry lstate
	need  int
	exits []exitC
}

type contract struct {
	name      string
	api       bool
	apiSet    bool
	exclusive bool
	cases     []caseC
	used      bool
}

type tables struct {
	mutexes   []mutexDef
	pkgs      []pkgDef
	nilerr    map[string]bool
	fns       map[string]*contract
	params    map[string]*contract // "<fn>.<param>"
	extern    map[string]string
	iface     map[string]string
	funcval   map[string]string // "<expr>" or "<expr>@<fn>"
	pkg       map[string]string
	sensitive map[string]bool
	waitgroup map[string]string
	usedKeys  map[string]bool
}

var mutexNames = map[string]int{}

func parseLocks(s string) (lstate, error) {
	var l lstate
	if s == "-" {
		return l, nil
	}
	for _, p := range strings.Split(s, ",") {
		if p == "sender" {
			l.sender = true
			continue
		}
		id, ok := mutexNames[p]
		if !ok {
			return l, fmt.Errorf("unknown lock %q", p)
		}
		l.held = append(l.held, id)
	}
	sort.Ints(l.held)
	return l, nil
}

// case <entry> [need=N] -> ok:<locks>[+N] | err:<locks>[+N]
func parseCase(f []string) (caseC, error) {
	var c caseC
	var err error
	if len(f) < 3 {
		return c, fmt.Errorf("bad case line")
	}
	if c.entry, err = parseLocks(f[0]); err != nil {
		return c, err
	}
	i := 1
	if strings.HasPrefix(f[i], "need=") {
		fmt.Sscanf(f[i], "need=%d", &c.need)
		i++
	}
	if f[i] != "->" {
		return c, fmt.Errorf("expected ->")
	}
	for _, e := range strings.Split(strings.Join(f[i+1:], ""), "|") {
		p := strings.SplitN(e, ":", 2)
		if len(p) != 2 {
			return c, fmt.Errorf("bad exit %q", e)
		}
		var x exitC
		switch p[0] {
		case "ok":
			x.out = 0
		case "err":
			x.out = 1
		default:
			return c, fmt.Errorf("bad outcome %q", p[0])
		}
		q := strings.SplitN(p[1], "+", 2)
		if x.st, err = parseLocks(q[0]); err != nil {
			return c, err
		}
		if len(q) == 2 {
			fmt.Sscanf(q[1], "%d", &x.tasks)
		}
		c.exits = append(c.exits, x)
	}
	return c, nil
}

func readContracts(path string) (*tables, error) {
	b, err := os.ReadFile(path)
	if err != nil {
		return nil, err
	}
	t := &tables{fns: map[string]*contract{}, params: map[string]*contract{}, extern: map[string]string{},
		iface: map[string]string{}, funcval: map[string]string{}, pkg: map[string]string{},
		sensitive: map[string]bool{}, waitgroup: map[string]string{}, usedKeys: map[string]bool{}}
	t.nilerr = map[string]bool{}
	// first pass: mutex and package declarations (contracts refer to mutex names)
	for n, line := range strings.Split(string(b), "\n") {
		if i := strings.Index(line, "#"); i >= 0 {
			line = line[:i]
		}
		f := strings.Fields(line)
		if len(f) == 0 {
			continue
		}
		switch f[0] {
		case "mutex": // mutex <name> <id> <pkgpath.Type.field> [var=<ident>]
			if len(f) < 4 {
				return nil, fmt.Errorf("%s:%d: bad mutex line", path, n+1)
			}
			m := mutexDef{name: f[1], key: f[3]}
			fmt.Sscan(f[2], &m.id)
			for _, a := range f[4:] {
				if strings.HasPrefix(a, "var=") {
					m.varName = a[4:]
				} else if strings.HasPrefix(a, "before=") {
					m.before = a[7:]
				} else {
					return nil, fmt.Errorf("%s:%d: bad mutex attribute %q", path, n+1, a)
				}
			}
			t.mutexes = append(t.mutexes, m)
			mutexNames[m.name] = m.id
		case "package": // package <import path> <dir> <files|*> [prefix=<p>]
			if len(f) < 4 {
				return nil, fmt.Errorf("%s:%d: bad package line", path, n+1)
			}
			p := pkgDef{path: f[1], dir: f[2]}
			if f[3] != "*" {
				p.files = map[string]bool{}
				for _, x := range strings.Split(f[3], ",") {
					p.files[x] = true
				}
			}
			if len(f) > 4 && strings.HasPrefix(f[4], "prefix=") {
				p.prefix = f[4][7:]
			}
			t.pkgs = append(t.pkgs, p)
		}
	}
	var cur *contract
	for n, line := range strings.Split(string(b), "\n") {
		if i := strings.Index(line, "#"); i >= 0 {
			line = line[:i]
		}
		f := strings.Fields(line)
		if len(f) == 0 {
			continue
		}
		bad := func(e interface{}) error { return fmt.Errorf("%s:%d: %v", path, n+1, e) }
		switch f[0] {
		case "fn":
			cur = &contract{name: f[1]}
			for _, a := range f[2:] {
				switch a {
				case "api":
					cur.api, cur.apiSet = true, true
				case "internal":
					cur.api, cur.apiSet = false, true
				case "exclusive":
					cur.exclusive = true
				case "nilerr":
					// outcome by the returned pointer: literal nil = err, anything else = ok
					t.nilerr[f[1]] = true
				default:
					return nil, bad("unknown attribute " + a)
				}
			}
			t.fns[f[1]] = cur
		case "param":
			cur = &contract{name: f[1] + "." + f[2]}
			t.params[cur.name] = cur
		case "case":
			if cur == nil {
				return nil, bad("case outside fn/param")
			}
			c, err := parseCase(f[1:])
			if err != nil {
				return nil, bad(err)
			}
			cur.cases = append(cur.cases, c)
		case "extern":
			t.extern[f[1]] = f[2]
		case "iface":
			t.iface[f[1]] = f[2]
		case "funcval":
			key := f[1]
			if len(f) == 5 && f[3] == "in" {
				key += "@" + f[4]
			}
			t.funcval[key] = f[2]
		case "pkg":
			t.pkg[f[1]] = f[2]
		case "sensitive":
			t.sensitive[f[1]] = true
		case "waitgroup":
			t.waitgroup[f[1]] = f[2]
		case "mutex", "package":
		default:
			return nil, bad("unknown directive " + f[0])
		}
	}
	return t, nil
}

// ---------------------------------------------------------------- translation state

type fnOut struct {
	needsClean bool // (transitively) reaches tasks.Wait(): only callable by a thread that owns no task
	name     string
	api      bool
	cases    []caseC
	body     Stmt
	hasBody  bool
	explicit bool
	relevant bool
	split    bool
	pos      token.Position
	doc      string
}

type global struct {
	fset   *token.FileSet
	info   *types.Info
	pkg    *types.Package
	tab    *tables
	fns    map[string]*fnOut
	order  []string
	errs   []string
	params map[types.Object]string // parameter object -> "<fn>.<param>" when a param contract exists
	prefixes map[string]string     // import path of a translated package -> name prefix
	declared map[string]bool       // functions that get a lock program
}

// buildOK evaluates the few build constraints used in the repository (go1.x tags are true).
func buildOK(expr string) bool {
	expr = strings.TrimSpace(expr)
	if strings.HasPrefix(expr, "!") {
		return !buildOK(expr[1:])
	}
	if expr == "verif" {
		return false // the library is translated as built without the verification hooks
	}
	return strings.HasPrefix(expr, "go1.")
}

// inPkg: f belongs to a translated package and has a lock program.
func (g *global) inPkg(f *types.Func) bool {
	if f.Pkg() == nil {
		return false
	}
	if _, ok := g.prefixes[f.Pkg().Path()]; !ok {
		return false
	}
	return g.declared[g.fnName(f)]
}

func (g *global) failf(pos token.Pos, fn string, format string, a ...interface{}) {
	g.errs = append(g.errs, fmt.Sprintf("%s: function %s: %s", g.fset.Position(pos), fn, fmt.Sprintf(format, a...)))
}

type tr struct {
	g         *global
	out       *fnOut
	root      string // name of the enclosing top-level function (closure numbering)
	counter   *int
	defers    []Stmt
	depth     int // nesting depth of statement lists (defer only at 0)
	top       []ast.Stmt
	exclusive bool
	results   *ast.FieldList
	brk       []string // stack of break targets: "loop" | "loop:<label>" | "switch" | "switchloop"
	curList   []ast.Stmt
	pendLabel string
	inGoto    bool
}

func (t *tr) failf(pos token.Pos, format string, a ...interface{}) {
	t.g.failf(pos, t.out.name, format, a...)
}

func (t *tr) line(pos token.Pos) int { return t.g.fset.Position(pos).Line }

func (t *tr) mark(pos token.Pos) Stmt { return sAct{fmt.Sprintf("AMark %d", t.line(pos))} }

func (t *tr) act(pos token.Pos, a string) Stmt { return seq(t.mark(pos), sAct{a}) }

func unparen(e ast.Expr) ast.Expr {
	for {
		p, ok := e.(*ast.ParenExpr)
		if !ok {
			return e
		}
		e = p.X
	}
}

func exprText(e ast.Expr) string {
	switch e := unparen(e).(type) {
	case *ast.Ident:
		return e.Name
	case *ast.SelectorExpr:
		return exprText(e.X) + "." + e.Sel.Name
	case *ast.IndexExpr:
		return exprText(e.X) + "[]"
	case *ast.CallExpr:
		return exprText(e.Fun) + "()"
	case *ast.StarExpr:
		return "*" + exprText(e.X)
	}
	return "?"
}

func namedOf(t types.Type) *types.Named {
	for {
		switch x := t.(type) {
		case *types.Pointer:
			t = x.Elem()
		case *types.Named:
			return x
		default:
			return nil
		}
	}
}

func typeKey(t types.Type) string {
	n := namedOf(t)
	if n == nil {
		return ""
	}
	if n.Obj().Pkg() == nil {
		return n.Obj().Name()
	}
	return n.Obj().Pkg().Path() + "." + n.Obj().Name()
}

func (g *global) fnName(f *types.Func) string {
	pre := ""
	if f.Pkg() != nil {
		if p := g.prefixes[f.Pkg().Path()]; p != "" {
			pre = p + "."
		}
	}
	sig := f.Type().(*types.Signature)
	if r := sig.Recv(); r != nil {
		if n := namedOf(r.Type()); n != nil {
			return pre + n.Obj().Name() + "." + f.Name()
		}
	}
	return pre + f.Name()
}

func rootIdent(e ast.Expr) string {
	for {
		switch x := unparen(e).(type) {
		case *ast.Ident:
			return x.Name
		case *ast.SelectorExpr:
			e = x.X
		case *ast.StarExpr:
			e = x.X
		case *ast.IndexExpr:
			e = x.X
		case *ast.UnaryExpr:
			e = x.X
		default:
			return ""
		}
	}
}

// mutexID: the abstract mutex of field key reached through a variable named root.
func (g *global) mutexID(key, root string) (int, bool) {
	def := -1
	for _, m := range g.tab.mutexes {
		if m.key != key {
			continue
		}
		if m.varName != "" && m.varName == root {
			return m.id, true
		}
		if m.varName == "" {
			def = m.id
		}
	}
	return def, def >= 0
}

// rebindOf: assigning to the variable v re-targets the mutex named through it (classes with
// several instances only): returns the ids concerned.
func (g *global) rebindOf(v *ast.Ident) []int {
	obj := g.info.Uses[v]
	if obj == nil {
		obj = g.info.Defs[v]
	}
	if obj == nil {
		return nil
	}
	n := namedOf(obj.Type())
	if n == nil || n.Obj().Pkg() == nil {
		return nil
	}
	owner := n.Obj().Pkg().Path() + "." + n.Obj().Name()
	multi := false
	for _, m := range g.tab.mutexes {
		if strings.HasPrefix(m.key, owner+".") && m.varName != "" {
			multi = true
		}
	}
	if !multi {
		return nil
	}
	var ids []int
	for _, m := range g.tab.mutexes {
		if strings.HasPrefix(m.key, owner+".") {
			if id, ok := g.mutexID(m.key, v.Name); ok {
				ids = append(ids, id)
			}
			break
		}
	}
	return ids
}

func (g *global) classStmt(t *tr, pos token.Pos, class string) Stmt {
	var ss []Stmt
	for _, c := range strings.Split(class, "+") {
		switch c {
		case "benign", "report":
		case "callout":
			ss = append(ss, t.act(pos, "ACallout"))
		case "wait":
			ss = append(ss, t.act(pos, "AWait"))
		case "transport":
			if t.exclusive {
				ss = append(ss, t.act(pos, "ATransportX"))
			} else {
				ss = append(ss, t.act(pos, "ATransport"))
			}
		case "transportx":
			ss = append(ss, t.act(pos, "ATransportX"))
		default:
			t.failf(pos, "unknown class %q in contracts.txt", c)
		}
	}
	return seq(ss...)
}

// ---------------------------------------------------------------- closures

func (t *tr) closure(lit *ast.FuncLit, kind string, c *contract) string {
	*t.counter++
	name := fmt.Sprintf("%s$%d", t.root, *t.counter)
	out := &fnOut{name: name, hasBody: true, pos: t.g.fset.Position(lit.Pos())}
	t.g.fns[name] = out
	t.g.order = append(t.g.order, name)
	nt := &tr{g: t.g, out: out, root: t.root, counter: t.counter, results: lit.Type.Results}
	if ex := t.g.tab.fns[name]; ex != nil {
		c = ex
		kind = "explicit"
	}
	switch kind {
	case "explicit":
		ex := c
		ex.used = true
		out.cases, out.explicit, out.api, nt.exclusive = ex.cases, true, ex.api, ex.exclusive
		out.split = isSplit(ex.cases)
	case "param":
		c.used = true
		out.cases, out.explicit = c.cases, true
	case "spawn":
		need := 0
		if len(lit.Body.List) > 0 {
			if d, ok := lit.Body.List[0].(*ast.DeferStmt); ok && t.isTasksDone(d.Call) {
				need = 1
			}
		}
		out.api = true
		out.cases = []caseC{{need: need, exits: []exitC{{}}}}
	default: // escapes to a variable, a field, a result, a composite literal: called by anybody
		out.api = true
		out.cases = []caseC{{exits: []exitC{{}}}}
	}
	for _, p := range paramObjs(t.g.info, lit.Type) {
		if pc := t.g.tab.params[name+"."+p.Name()]; pc != nil {
			t.g.params[p] = name + "." + p.Name()
		}
	}
	out.body = nt.funcBody(lit.Body)
	return name
}

func paramObjs(info *types.Info, ft *ast.FuncType) []types.Object {
	var res []types.Object
	if ft.Params == nil {
		return nil
	}
	for _, f := range ft.Params.List {
		for _, n := range f.Names {
			if o := info.Defs[n]; o != nil {
				res = append(res, o)
			}
		}
	}
	return res
}

func isSplit(cs []caseC) bool {
	for _, c := range cs {
		outs := map[int]bool{}
		for _, e := range c.exits {
			outs[e.out] = true
		}
		if len(outs) > 1 {
			return true
		}
	}
	return false
}

func (t *tr) isTasksDone(call *ast.CallExpr) bool {
	sel, ok := unparen(call.Fun).(*ast.SelectorExpr)
	if !ok || sel.Sel.Name != "Done" {
		return false
	}
	f, ok := unparen(sel.X).(*ast.SelectorExpr)
	return ok && t.g.tab.waitgroup[f.Sel.Name] == "obligations"
}

// ---------------------------------------------------------------- function bodies

func (t *tr) funcBody(b *ast.BlockStmt) Stmt {
	t.top = b.List
	body := t.list(b.List, 0)
	// falling off the end: deferred calls, implicit return
	return seq(body, t.runDefers(), sReturn{0})
}

func (t *tr) runDefers() Stmt {
	var ss []Stmt
	for i := len(t.defers) - 1; i >= 0; i-- {
		ss = append(ss, t.defers[i])
	}
	return seq(ss...)
}

func (t *tr) list(ss []ast.Stmt, from int) Stmt {
	var out []Stmt
	ndefers := len(t.defers)
	saveList := t.curList
	t.curList = ss
	for i := from; i < len(ss); i++ {
		// X = f(..) ; if X ==|!= nil { A } else { B }   for an outcome-split function f
		if as, ok := ss[i].(*ast.AssignStmt); ok && len(as.Rhs) == 1 && len(as.Lhs) == 1 && i+1 < len(ss) {
			if call, name, ok := t.splitCall(as.Rhs[0]); ok {
				if ifs, ok := ss[i+1].(*ast.IfStmt); ok && ifs.Init == nil {
					if be, ok := unparen(ifs.Cond).(*ast.BinaryExpr); ok && (be.Op == token.EQL || be.Op == token.NEQ) &&
						exprText(be.X) == exprText(as.Lhs[0]) && exprText(be.Y) == "nil" {
						pre := t.callArgs(call)
						a := t.block(ifs.Body)
						var b Stmt = sSkip{}
						if ifs.Else != nil {
							t.depth++
							b = t.stmt(ifs.Else)
							t.depth--
						}
						// a runs when X == nil (EQL) / X != nil (NEQ)
						nilIsErr := t.g.tab.nilerr[name]
						var okS, errS Stmt
						if (be.Op == token.EQL) == nilIsErr {
							okS, errS = b, a
						} else {
							okS, errS = a, b
						}
						out = append(out, seq(pre, t.mark(call.Pos()), sCall{f: name, ok: okS, err: errS, line: t.line(call.Pos())}))
						i++
						continue
					}
				}
				t.failf(as.Pos(), "outcome of %s must be tested by the next statement `if x == nil`", name)
				continue
			}
		}
		out = append(out, t.stmt(ss[i]))
	}
	t.curList = saveList
	if t.depth > 0 && len(t.defers) > ndefers {
		// defers registered in a nested block: only accepted when the block ends in a return
		t.defers = t.defers[:ndefers]
	}
	return seq(out...)
}

func (t *tr) block(b *ast.BlockStmt) Stmt {
	if b == nil {
		return sSkip{}
	}
	t.depth++
	defer func() { t.depth-- }()
	return t.list(b.List, 0)
}

func hasBranch(n ast.Node, tok token.Token, crossLoops bool) bool {
	found := false
	var walk func(n ast.Node, inner bool)
	walk = func(n ast.Node, inner bool) {
		ast.Inspect(n, func(x ast.Node) bool {
			if x == nil || found {
				return false
			}
			switch s := x.(type) {
			case *ast.FuncLit:
				return false
			case *ast.BranchStmt:
				if s.Tok == tok && s.Label == nil {
					found = true
				}
			case *ast.ForStmt, *ast.RangeStmt:
				if x != n {
					// break/continue inside a nested loop target that loop
					return false
				}
			case *ast.SwitchStmt, *ast.TypeSwitchStmt, *ast.SelectStmt:
				if x != n && tok == token.BREAK {
					return false
				}
			}
			return true
		})
	}
	walk(n, false)
	return found
}

func (t *tr) stmt(s ast.Stmt) Stmt {
	switch s := s.(type) {
	case nil:
		return sSkip{}
	case *ast.EmptyStmt:
		return sSkip{}
	case *ast.ExprStmt:
		return t.expr(s.X)
	case *ast.DeclStmt:
		gd, ok := s.Decl.(*ast.GenDecl)
		if !ok {
			t.failf(s.Pos(), "unsupported declaration")
			return sSkip{}
		}
		var out []Stmt
		for _, sp := range gd.Specs {
			if vs, ok := sp.(*ast.ValueSpec); ok {
				for _, v := range vs.Values {
					out = append(out, t.expr(v))
				}
			}
		}
		return seq(out...)
	case *ast.AssignStmt:
		var out []Stmt
		for _, r := range s.Rhs {
			out = append(out, t.expr(r))
		}
		for _, l := range s.Lhs {
			out = append(out, t.lhs(l))
			if id, ok := unparen(l).(*ast.Ident); ok && s.Tok == token.ASSIGN {
				for _, m := range t.g.rebindOf(id) {
					out = append(out, t.act(s.Pos(), fmt.Sprintf("ARebind %d", m)))
				}
			}
		}
		// the sender lock is taken by  c.sendCond = make(chan struct{})
		if len(s.Lhs) == 1 && len(s.Rhs) == 1 {
			if sel, ok := unparen(s.Lhs[0]).(*ast.SelectorExpr); ok && sel.Sel.Name == "sendCond" {
				if c, ok := unparen(s.Rhs[0]).(*ast.CallExpr); ok && exprText(c.Fun) == "make" {
					out = append(out, t.act(s.Pos(), "AAcqSender"))
				} else if id, ok := unparen(s.Rhs[0]).(*ast.Ident); !ok || id.Name != "nil" {
					t.failf(s.Pos(), "unsupported assignment to sendCond")
				}
			}
		}
		return seq(out...)
	case *ast.IncDecStmt:
		return t.lhs(s.X)
	case *ast.SendStmt:
		return seq(t.expr(s.Chan), t.expr(s.Value), t.act(s.Pos(), "AWait"))
	case *ast.BlockStmt:
		return t.block(s)
	case *ast.LabeledStmt:
		t.pendLabel = s.Label.Name
		r := t.stmt(s.Stmt)
		t.pendLabel = ""
		return r
	case *ast.ReturnStmt:
		return t.returnStmt(s)
	case *ast.DeferStmt:
		if t.depth != 0 {
			// accepted only when the enclosing statement list ends in a return: the deferred
			// call is then pending exactly for the rest of that list
			last := t.curList[len(t.curList)-1]
			if _, ok := last.(*ast.ReturnStmt); !ok {
				t.failf(s.Pos(), "defer inside a nested block that does not end in a return is not supported")
				return sSkip{}
			}
		}
		var pre []Stmt
		for _, a := range s.Call.Args {
			pre = append(pre, t.expr(a))
		}
		if lit, ok := unparen(s.Call.Fun).(*ast.FuncLit); ok {
			_ = lit
			t.failf(s.Pos(), "defer of a function literal is not supported")
			return sSkip{}
		}
		t.defers = append(t.defers, t.callNoArgs(s.Call))
		return seq(pre...)
	case *ast.GoStmt:
		var pre []Stmt
		for _, a := range s.Call.Args {
			pre = append(pre, t.expr(a))
		}
		if lit, ok := unparen(s.Call.Fun).(*ast.FuncLit); ok {
			name := t.closure(lit, "spawn", nil)
			return seq(seq(pre...), t.mark(s.Pos()), sSpawn{name})
		}
		if f, ok := t.g.callee(s.Call.Fun).(*types.Func); ok && t.g.inPkg(f) {
			return seq(seq(pre...), t.mark(s.Pos()), sSpawn{t.g.fnName(f)})
		}
		// go <function value>(..): application code in a goroutine of its own, nothing of this
		// thread's state is involved
		if _, isFunc := t.g.callee(s.Call.Fun).(*types.Func); !isFunc {
			if cl, ok := t.g.tab.funcval[exprText(s.Call.Fun)]; ok && cl == "callout" {
				return seq(pre...)
			}
		}
		t.failf(s.Pos(), "go statement with an unsupported callee")
		return sSkip{}
	case *ast.IfStmt:
		return t.ifStmt(s)
	case *ast.ForStmt:
		init := t.stmt(s.Init)
		cond := sSkip{}
		var condS Stmt = cond
		if s.Cond != nil {
			condS = t.expr(s.Cond)
		}
		post := t.stmt(s.Post)
		if !isSkip(post) && hasBranch(s.Body, token.CONTINUE, false) {
			t.failf(s.Pos(), "continue in a loop whose post statement has lock effects")
		}
		t.brk = append(t.brk, "loop:"+t.pendLabel)
		t.pendLabel = ""
		body := t.block(s.Body)
		t.brk = t.brk[:len(t.brk)-1]
		return seq(init, sLoop{seq(condS, body, post)})
	case *ast.RangeStmt:
		x := t.expr(s.X)
		if tv, ok := t.g.info.Types[s.X]; ok {
			if _, isChan := tv.Type.Underlying().(*types.Chan); isChan {
				t.failf(s.Pos(), "range over a channel is not supported")
			}
		}
		t.brk = append(t.brk, "loop")
		body := t.block(s.Body)
		t.brk = t.brk[:len(t.brk)-1]
		return seq(x, sLoop{body})
	case *ast.SwitchStmt:
		pre := seq(t.stmt(s.Init), t.expr(s.Tag))
		return seq(pre, t.clauses(s, s.Body, false))
	case *ast.TypeSwitchStmt:
		pre := seq(t.stmt(s.Init), t.stmt(s.Assign))
		return seq(pre, t.clauses(s, s.Body, false))
	case *ast.SelectStmt:
		return t.clauses(s, s.Body, true)
	case *ast.BranchStmt:
		if s.Label != nil && s.Tok == token.BREAK {
			// break L where L labels the innermost enclosing loop, from inside switch/select
			// constructs that are encoded as plain choices
			for i := len(t.brk) - 1; i >= 0; i-- {
				if strings.HasPrefix(t.brk[i], "loop") {
					if t.brk[i] == "loop:"+s.Label.Name {
						return sBreak{}
					}
					break
				}
				if t.brk[i] == "switchloop" {
					break
				}
			}
			t.failf(s.Pos(), "labeled break that does not target the innermost loop through plain switch/select")
			return sSkip{}
		}
		if s.Label != nil && s.Tok != token.GOTO {
			t.failf(s.Pos(), "labeled continue is not supported")
			return sSkip{}
		}
		switch s.Tok {
		case token.BREAK:
			if len(t.brk) == 0 {
				t.failf(s.Pos(), "break outside loop/switch")
			}
			return sBreak{}
		case token.CONTINUE:
			for i := len(t.brk) - 1; i >= 0; i-- {
				if strings.HasPrefix(t.brk[i], "loop") {
					break
				}
				if t.brk[i] == "switchloop" {
					t.failf(s.Pos(), "continue inside a switch/select that also contains break")
				}
			}
			return sContinue{}
		case token.GOTO:
			// forward goto to a label of the function's top-level statement list:
			// the code from the label to the end of the function, then return
			for i, ts := range t.top {
				if ls, ok := ts.(*ast.LabeledStmt); ok && ls.Label.Name == s.Label.Name {
					if ls.Pos() < s.Pos() || t.inGoto {
						t.failf(s.Pos(), "backward or nested goto is not supported")
						return sSkip{}
					}
					t.inGoto = true
					saveDepth, saveBrk := t.depth, t.brk
					t.depth, t.brk = 0, nil
					rest := t.list(t.top, i)
					t.depth, t.brk = saveDepth, saveBrk
					t.inGoto = false
					return seq(rest, t.runDefers(), sReturn{0})
				}
			}
			t.failf(s.Pos(), "goto to a label that is not at the top level of the function")
			return sSkip{}
		default:
			t.failf(s.Pos(), "unsupported branch statement %v", s.Tok)
			return sSkip{}
		}
	}
	t.failf(s.Pos(), "unsupported statement %T", s)
	return sSkip{}
}

func (t *tr) lhs(e ast.Expr) Stmt {
	switch e := unparen(e).(type) {
	case *ast.Ident:
		return sSkip{}
	case *ast.SelectorExpr:
		return t.expr(e.X)
	case *ast.IndexExpr:
		return seq(t.expr(e.X), t.expr(e.Index))
	case *ast.StarExpr:
		return t.expr(e.X)
	}
	return t.expr(e)
}

// switch / type switch / select.  A `break` inside a clause leaves the construct: encoded as
// a one-iteration loop  SLoop (Choice ...; SBreak) ; this is only done when no clause contains
// a `continue` (which would be captured by that loop).
func (t *tr) clauses(node ast.Node, body *ast.BlockStmt, isSelect bool) Stmt {
	hasBrk := false
	hasCont := false
	for _, c := range body.List {
		if hasBranch(c, token.BREAK, false) {
			hasBrk = true
		}
		if hasBranch(c, token.CONTINUE, false) {
			hasCont = true
		}
	}
	if hasBrk && hasCont {
		t.failf(node.Pos(), "switch/select with both break and continue in its clauses")
	}
	kind := "switch"
	if hasBrk {
		kind = "switchloop"
	}
	t.brk = append(t.brk, kind)
	defer func() { t.brk = t.brk[:len(t.brk)-1] }()
	var pre []Stmt
	var alts []Stmt
	hasDefault := false
	t.depth++
	for ci, c := range body.List {
		switch c := c.(type) {
		case *ast.CaseClause:
			if c.List == nil {
				hasDefault = true
			}
			for _, e := range c.List {
				if _, isType := t.g.info.Types[e]; isType && t.g.info.Types[e].IsType() {
					continue
				}
				pre = append(pre, t.expr(e))
			}
			alts = append(alts, t.caseBody(body.List, ci))
		case *ast.CommClause:
			if c.Comm == nil {
				hasDefault = true
			} else {
				// the communication itself is covered by the select's wait
				switch cm := c.Comm.(type) {
				case *ast.ExprStmt:
					if u, ok := unparen(cm.X).(*ast.UnaryExpr); ok && u.Op == token.ARROW {
						pre = append(pre, t.expr(u.X))
					} else {
						t.failf(cm.Pos(), "unsupported select communication")
					}
				case *ast.AssignStmt:
					if u, ok := unparen(cm.Rhs[0]).(*ast.UnaryExpr); ok && u.Op == token.ARROW && len(cm.Rhs) == 1 {
						pre = append(pre, t.expr(u.X))
					} else {
						t.failf(cm.Pos(), "unsupported select communication")
					}
				case *ast.SendStmt:
					pre = append(pre, t.expr(cm.Chan), t.expr(cm.Value))
				}
			}
			alts = append(alts, t.list(c.Body, 0))
		}
	}
	t.depth--
	if isSelect && !hasDefault {
		pre = append(pre, t.act(node.Pos(), "AWait"))
	}
	if !isSelect && !hasDefault {
		alts = append(alts, sSkip{})
	}
	res := choiceN(alts)
	if hasBrk {
		res = sLoop{seq(res, sBreak{})}
	}
	return seq(seq(pre...), res)
}

// caseBody: the body of clause i, followed by the next clause's body when it ends in fallthrough.
func (t *tr) caseBody(clauses []ast.Stmt, i int) Stmt {
	c := clauses[i].(*ast.CaseClause)
	body := c.Body
	if n := len(body); n > 0 {
		if b, ok := body[n-1].(*ast.BranchStmt); ok && b.Tok == token.FALLTHROUGH {
			if i+1 >= len(clauses) {
				t.failf(b.Pos(), "fallthrough in the last clause")
				return sSkip{}
			}
			return seq(t.list(body[:n-1], 0), t.caseBody(clauses, i+1))
		}
	}
	return t.list(body, 0)
}

// ---------------------------------------------------------------- if / outcome split

// splitCall recognises a call to an in-package function whose contract has several outcomes.
func (t *tr) splitCall(e ast.Expr) (*ast.CallExpr, string, bool) {
	c, ok := unparen(e).(*ast.CallExpr)
	if !ok {
		return nil, "", false
	}
	f, ok := t.g.callee(c.Fun).(*types.Func)
	if !ok || !t.g.inPkg(f) {
		return nil, "", false
	}
	name := t.g.fnName(f)
	ct := t.g.tab.fns[name]
	if ct == nil || !isSplit(ct.cases) {
		return nil, "", false
	}
	return c, name, true
}

func (t *tr) ifStmt(s *ast.IfStmt) Stmt {
	thenS := func() Stmt { return t.block(s.Body) }
	elseS := func() Stmt {
		if s.Else == nil {
			return sSkip{}
		}
		t.depth++
		defer func() { t.depth-- }()
		return t.stmt(s.Else)
	}
	// if err := CALL; err != nil { A } else { B }
	if as, ok := s.Init.(*ast.AssignStmt); ok && len(as.Rhs) == 1 && len(as.Lhs) == 1 {
		if call, name, ok := t.splitCall(as.Rhs[0]); ok {
			be, ok := unparen(s.Cond).(*ast.BinaryExpr)
			lhs, _ := unparen(as.Lhs[0]).(*ast.Ident)
			if ok && lhs != nil {
				x, _ := unparen(be.X).(*ast.Ident)
				y, _ := unparen(be.Y).(*ast.Ident)
				if x != nil && y != nil && x.Name == lhs.Name && y.Name == "nil" && (be.Op == token.NEQ || be.Op == token.EQL) {
					pre := t.callArgs(call)
					a, b := thenS(), elseS()
					if be.Op == token.EQL {
						a, b = b, a
					}
					return seq(pre, t.mark(call.Pos()), sCall{f: name, ok: b, err: a, line: t.line(call.Pos())})
				}
			}
			t.failf(s.Pos(), "outcome of %s must be tested as `if err := f(); err != nil`", name)
			return sSkip{}
		}
	}
	// if CALL { A } else { B }   /   if !CALL { A } else { B }
	if s.Init == nil {
		cond := unparen(s.Cond)
		neg := false
		if u, ok := cond.(*ast.UnaryExpr); ok && u.Op == token.NOT {
			neg = true
			cond = unparen(u.X)
		}
		if call, name, ok := t.splitCall(cond); ok {
			pre := t.callArgs(call)
			a, b := thenS(), elseS()
			if neg {
				a, b = b, a
			}
			return seq(pre, t.mark(call.Pos()), sCall{f: name, ok: a, err: b, line: t.line(call.Pos())})
		}
	}
	init := t.stmt(s.Init)
	cond := t.expr(s.Cond)
	return seq(init, cond, choice(thenS(), elseS()))
}

func (t *tr) returnStmt(s *ast.ReturnStmt) Stmt {
	var pre []Stmt
	for _, r := range s.Results {
		pre = append(pre, t.expr(r))
	}
	o := 0
	if t.out.split {
		if len(s.Results) == 0 {
			t.failf(s.Pos(), "bare return in an outcome-split function")
		} else {
			last := unparen(s.Results[len(s.Results)-1])
			tv := t.g.info.Types[last]
			isBool := false
			if b, ok := tv.Type.Underlying().(*types.Basic); ok && b.Info()&types.IsBoolean != 0 {
				isBool = true
			}
			id, isIdent := last.(*ast.Ident)
			if t.g.tab.nilerr[t.out.name] {
				// outcome by the returned pointer: literal nil = err, anything else = ok
				o = 0
				if isIdent && id.Name == "nil" {
					o = 1
				}
				return seq(seq(pre...), t.runDefers(), t.mark(s.Pos()), sReturn{o})
			}
			switch {
			case isIdent && (id.Name == "nil" || id.Name == "true"):
				o = 0
			case isIdent && id.Name == "false":
				o = 1
			case isBool:
				t.failf(s.Pos(), "outcome-split function returns a computed bool")
			case isIdent:
				t.failf(s.Pos(), "outcome-split function returns a variable: outcome unknown")
			default:
				o = 1 // a freshly built error value
			}
		}
	}
	return seq(seq(pre...), t.runDefers(), t.mark(s.Pos()), sReturn{o})
}

// ---------------------------------------------------------------- expressions

func (t *tr) expr(e ast.Expr) Stmt {
	switch e := e.(type) {
	case nil:
		return sSkip{}
	case *ast.BasicLit, *ast.Ident:
		return sSkip{}
	case *ast.FuncLit:
		t.closure(e, "escape", nil)
		return sSkip{}
	case *ast.CompositeLit:
		var out []Stmt
		for _, el := range e.Elts {
			out = append(out, t.expr(el))
		}
		return seq(out...)
	case *ast.KeyValueExpr:
		return t.expr(e.Value)
	case *ast.ParenExpr:
		return t.expr(e.X)
	case *ast.SelectorExpr:
		return t.expr(e.X)
	case *ast.IndexExpr:
		return seq(t.expr(e.X), t.expr(e.Index))
	case *ast.SliceExpr:
		return seq(t.expr(e.X), t.expr(e.Low), t.expr(e.High), t.expr(e.Max))
	case *ast.StarExpr:
		return t.expr(e.X)
	case *ast.TypeAssertExpr:
		return t.expr(e.X)
	case *ast.UnaryExpr:
		x := t.expr(e.X)
		if e.Op == token.ARROW {
			return seq(x, t.act(e.Pos(), "AWait"))
		}
		return x
	case *ast.BinaryExpr:
		x, y := t.expr(e.X), t.expr(e.Y)
		if e.Op == token.LAND || e.Op == token.LOR {
			return seq(x, choice(sSkip{}, y))
		}
		return seq(x, y)
	case *ast.CallExpr:
		return t.call(e)
	case *ast.ArrayType, *ast.MapType, *ast.ChanType, *ast.FuncType, *ast.InterfaceType, *ast.StructType:
		return sSkip{}
	}
	t.failf(e.Pos(), "unsupported expression %T", e)
	return sSkip{}
}

func (g *global) callee(fun ast.Expr) types.Object {
	switch f := unparen(fun).(type) {
	case *ast.Ident:
		return g.info.Uses[f]
	case *ast.SelectorExpr:
		if sel, ok := g.info.Selections[f]; ok {
			return sel.Obj()
		}
		return g.info.Uses[f.Sel]
	}
	return nil
}

// callArgs: effects of the receiver expression and of the arguments (closures passed to an
// in-package function get the contract of that parameter).
func (t *tr) callArgs(c *ast.CallExpr) Stmt {
	var out []Stmt
	if sel, ok := unparen(c.Fun).(*ast.SelectorExpr); ok {
		out = append(out, t.expr(sel.X))
	}
	var calleeName string
	var sig *types.Signature
	if f, ok := t.g.callee(c.Fun).(*types.Func); ok && t.g.inPkg(f) {
		calleeName = t.g.fnName(f)
		sig = f.Type().(*types.Signature)
	}
	for i, a := range c.Args {
		if lit, ok := unparen(a).(*ast.FuncLit); ok && sig != nil && i < sig.Params().Len() {
			key := calleeName + "." + sig.Params().At(i).Name()
			if pc := t.g.tab.params[key]; pc != nil {
				t.closure(lit, "param", pc)
				continue
			}
			t.failf(a.Pos(), "function literal passed to %s: no `param %s %s` contract", calleeName, calleeName, sig.Params().At(i).Name())
			continue
		}
		out = append(out, t.expr(a))
	}
	return seq(out...)
}

func (t *tr) call(c *ast.CallExpr) Stmt {
	if tv, ok := t.g.info.Types[c.Fun]; ok && tv.IsType() {
		var out []Stmt
		for _, a := range c.Args {
			out = append(out, t.expr(a))
		}
		return seq(out...)
	}
	if _, ok := unparen(c.Fun).(*ast.FuncLit); ok {
		t.failf(c.Pos(), "immediately invoked function literal is not supported")
		return sSkip{}
	}
	if _, name, ok := t.splitCall(c); ok {
		t.failf(c.Pos(), "outcome of %s is not tested in a supported `if` form", name)
		return sSkip{}
	}
	return seq(t.callArgs(c), t.give(c), t.callNoArgs(c))
}

// give: a call that hands a capnp.Recv whose Returner is an *answer to the application
// transfers one task obligation (answer.Return will call c.tasks.Done()).
func (t *tr) give(c *ast.CallExpr) Stmt {
	for _, a := range c.Args {
		cl, ok := unparen(a).(*ast.CompositeLit)
		if !ok || typeKey(t.g.info.Types[cl].Type) != "capnproto.org/go/capnp/v3.Recv" {
			continue
		}
		for _, el := range cl.Elts {
			kv, ok := el.(*ast.KeyValueExpr)
			if !ok {
				continue
			}
			if k, ok := kv.Key.(*ast.Ident); ok && k.Name == "Returner" {
				if n := namedOf(t.g.info.Types[kv.Value].Type); n != nil && n.Obj().Pkg() == t.g.pkg && n.Obj().Name() == "answer" {
					return t.act(c.Pos(), "ATasksGive")
				}
			}
		}
	}
	return sSkip{}
}

// callNoArgs: the effect of the call itself.
func (t *tr) callNoArgs(c *ast.CallExpr) Stmt {
	g := t.g
	pos := c.Pos()
	obj := g.callee(c.Fun)
	switch o := obj.(type) {
	case *types.Builtin:
		switch o.Name() {
		case "close":
			if sel, ok := unparen(c.Args[0]).(*ast.SelectorExpr); ok && sel.Sel.Name == "sendCond" {
				return t.act(pos, "ARelSender")
			}
			return sSkip{}
		case "panic":
			return seq(t.mark(pos), sPanic{})
		case "make", "len", "cap", "append", "copy", "delete", "new":
			return sSkip{}
		}
		t.failf(pos, "unsupported builtin %s", o.Name())
		return sSkip{}
	case *types.Func:
		sig := o.Type().(*types.Signature)
		var recvT types.Type
		isIface := false
		if sel, ok := unparen(c.Fun).(*ast.SelectorExpr); ok {
			if s, ok := g.info.Selections[sel]; ok {
				recvT = s.Recv()
				if _, ok := recvT.Underlying().(*types.Interface); ok {
					isIface = true
				}
			}
		}
		if !isIface && sig.Recv() != nil {
			// method of an interface embedded in a struct
			if _, ok := sig.Recv().Type().Underlying().(*types.Interface); ok {
				isIface, recvT = true, sig.Recv().Type()
			}
		}
		if isIface {
			key := typeKey(recvT)
			if key == "" {
				key = "interface" // anonymous interface (SetReadDeadline probes, Timeout)
			}
			if cl, ok := g.tab.iface[key+"."+o.Name()]; ok {
				g.tab.usedKeys["iface "+key+"."+o.Name()] = true
				return g.classStmt(t, pos, cl)
			}
			if cl, ok := g.tab.iface[key+".*"]; ok {
				g.tab.usedKeys["iface "+key+".*"] = true
				return g.classStmt(t, pos, cl)
			}
			t.failf(pos, "call of interface method %s.%s is not classified (add `iface` to contracts.txt)", key, o.Name())
			return sSkip{}
		}
		// sync primitives
		if o.Pkg() != nil && o.Pkg().Path() == "sync" && sig.Recv() != nil {
			rk := typeKey(sig.Recv().Type())
			sel := unparen(c.Fun).(*ast.SelectorExpr)
			field := ""
			var owner string
			if fs, ok := unparen(sel.X).(*ast.SelectorExpr); ok {
				field = fs.Sel.Name
				if s, ok := g.info.Selections[fs]; ok {
					owner = typeKey(s.Recv())
				}
			}
			switch rk {
			case "sync.Mutex":
				if id, ok := g.mutexID(owner+"."+field, rootIdent(sel.X)); ok {
					switch o.Name() {
					case "Lock":
						for _, m := range g.tab.mutexes {
							if m.id == id && m.before != "" {
								b, ok := mutexNames[m.before]
								if !ok {
									t.failf(pos, "mutex %s: unknown mutex %q in before=", m.name, m.before)
								}
								return seq(t.act(pos, fmt.Sprintf("AOrder %d", b)), sAct{fmt.Sprintf("ALock %d", id)})
							}
						}
						return t.act(pos, fmt.Sprintf("ALock %d", id))
					case "Unlock":
						return t.act(pos, fmt.Sprintf("AUnlock %d", id))
					}
				}
				t.failf(pos, "mutex operation %s on %s (%s.%s) is not supported (add `mutex` to the contracts file)", o.Name(), exprText(sel.X), owner, field)
				return sSkip{}
			case "sync.WaitGroup":
				kind := g.tab.waitgroup[field]
				switch {
				case kind == "obligations" && o.Name() == "Add":
					if lit, ok := unparen(c.Args[0]).(*ast.BasicLit); !ok || lit.Value != "1" {
						t.failf(pos, "tasks.Add with an argument other than 1")
					}
					return t.act(pos, "ATasksAdd")
				case kind == "obligations" && o.Name() == "Done":
					return t.act(pos, "ATasksDone")
				case kind == "plain" && (o.Name() == "Add" || o.Name() == "Done"):
					return sSkip{}
				case kind == "obligations" && o.Name() == "Wait":
					// waits for every task: the waiting thread must own none itself
					return t.act(pos, "AWaitTasks")
				case kind != "" && o.Name() == "Wait":
					return t.act(pos, "AWait")
				}
				t.failf(pos, "WaitGroup operation %s on %s is not classified", o.Name(), exprText(sel.X))
				return sSkip{}
			}
		}
		if g.inPkg(o) {
			return seq(t.mark(pos), sCall{f: g.fnName(o), ok: sSkip{}, err: sSkip{}, line: t.line(pos)})
		}
		// other packages
		key := ""
		path := ""
		if o.Pkg() != nil {
			path = o.Pkg().Path()
		}
		sensitive := false
		if sig.Recv() != nil {
			rk := typeKey(sig.Recv().Type())
			key = rk + "." + o.Name()
			sensitive = g.tab.sensitive[rk]
		} else {
			key = path + "." + o.Name()
		}
		if cl, ok := g.tab.extern[key]; ok {
			g.tab.usedKeys["extern "+key] = true
			return g.classStmt(t, pos, cl)
		}
		if sensitive {
			t.failf(pos, "method %s wraps application code and is not classified (add `extern` to contracts.txt)", key)
			return sSkip{}
		}
		if cl, ok := g.tab.pkg[path]; ok {
			return g.classStmt(t, pos, cl)
		}
		t.failf(pos, "call into package %q is not classified (add `pkg` or `extern` to contracts.txt)", path)
		return sSkip{}
	case *types.Var, nil:
		// call through a function value
		tv := g.info.Types[c.Fun]
		if tv.Type != nil && typeKey(tv.Type) == "context.CancelFunc" {
			return sSkip{}
		}
		if o != nil {
			if key, ok := g.params[o]; ok {
				return seq(t.mark(pos), sCall{f: key, ok: sSkip{}, err: sSkip{}, line: t.line(pos)})
			}
		}
		txt := exprText(c.Fun)
		if cl, ok := g.tab.funcval[txt+"@"+t.out.name]; ok {
			g.tab.usedKeys["funcval "+txt+"@"+t.out.name] = true
			return g.classStmt(t, pos, cl)
		}
		if cl, ok := g.tab.funcval[txt]; ok {
			g.tab.usedKeys["funcval "+txt] = true
			return g.classStmt(t, pos, cl)
		}
		t.failf(pos, "call through function value %s is not classified (add `funcval` to contracts.txt)", txt)
		return sSkip{}
	}
	t.failf(pos, "unsupported callee %T", obj)
	return sSkip{}
}

// ---------------------------------------------------------------- driver

var docHolding = regexp.MustCompile(`(?i)must\s+be\s+holding(\s+onto)?\s+(\w+\.)*mu\b`)
var docNotHolding = regexp.MustCompile(`(?i)must\s+not\s+be\s+holding(\s+onto)?\s+(\w+\.)*mu\b`)

func main() {
	repo := flag.String("repo", "../../repo", "repository root")
	ctr := flag.String("contracts", "contracts.txt", "contracts file")
	outPath := flag.String("out", "", "output .v file (default stdout)")
	defName := flag.String("name", "generated_prog", "name of the generated definition")
	flag.Parse()

	tab, err := readContracts(*ctr)
	if err != nil {
		fmt.Fprintln(os.Stderr, "locktrans:", err)
		os.Exit(2)
	}
	fset := token.NewFileSet()
	if len(tab.pkgs) == 0 {
		tab.pkgs = []pkgDef{{path: "capnproto.org/go/capnp/v3/rpc", dir: "rpc"}}
	}
	abs, _ := filepath.Abs(*outPath)
	if err := os.Chdir(*repo); err != nil {
		fmt.Fprintln(os.Stderr, "locktrans:", err)
		os.Exit(2)
	}
	g := &global{fset: fset, tab: tab, fns: map[string]*fnOut{}, params: map[types.Object]string{},
		prefixes: map[string]string{}, declared: map[string]bool{}}
	for _, p := range tab.pkgs {
		g.prefixes[p.path] = p.prefix
	}
	var hashes []string
	type loaded struct {
		def   pkgDef
		files []*ast.File
		info  *types.Info
		pkg   *types.Package
	}
	var pkgs []loaded
	verifTag := regexp.MustCompile(`(?m)^//\s*(?:go:build|\+build) .*\bverif\b`)
	for _, p := range tab.pkgs {
		ents, err := os.ReadDir(p.dir)
		if err != nil {
			fmt.Fprintln(os.Stderr, "locktrans:", err)
			os.Exit(2)
		}
		var files []*ast.File
		for _, e := range ents {
			n := e.Name()
			if e.IsDir() || !strings.HasSuffix(n, ".go") || strings.HasSuffix(n, "_test.go") {
				continue
			}
			src, err := os.ReadFile(filepath.Join(p.dir, n))
			if err != nil {
				fmt.Fprintln(os.Stderr, "locktrans:", err)
				os.Exit(2)
			}
			if verifTag.Match(src) && !regexp.MustCompile(`(?m)^//\s*(?:go:build|\+build) !verif\s*$`).Match(src) {
				continue // verification hooks are not part of the library (their !verif stubs are)
			}
			if m := regexp.MustCompile(`(?m)^//\s*(?:go:build|\+build) (.*)$`).FindSubmatch(src); m != nil && !buildOK(string(m[1])) {
				continue
			}
			f, err := parser.ParseFile(fset, filepath.Join(p.dir, n), src, parser.ParseComments)
			if err != nil {
				fmt.Fprintln(os.Stderr, "locktrans:", err)
				os.Exit(2)
			}
			files = append(files, f)
			if p.files == nil || p.files[n] {
				hashes = append(hashes, fmt.Sprintf("%s %x", filepath.Join(p.dir, n), sha256.Sum256(src)))
			}
		}
		info := &types.Info{Uses: map[*ast.Ident]types.Object{}, Defs: map[*ast.Ident]types.Object{},
			Types: map[ast.Expr]types.TypeAndValue{}, Selections: map[*ast.SelectorExpr]*types.Selection{}}
		conf := types.Config{Importer: importer.ForCompiler(fset, "source", nil)}
		pkg, err := conf.Check(p.path, fset, files, info)
		if err != nil {
			fmt.Fprintln(os.Stderr, "locktrans: type check failed:", err)
			os.Exit(2)
		}
		pkgs = append(pkgs, loaded{p, files, info, pkg})
	}
	selected := func(l loaded, f *ast.File) bool {
		return l.def.files == nil || l.def.files[filepath.Base(fset.Position(f.Pos()).Filename)]
	}
	// every function that will get a lock program (calls to the others are classified by the tables)
	for _, l := range pkgs {
		g.info, g.pkg = l.info, l.pkg
		for _, f := range l.files {
			if !selected(l, f) {
				continue
			}
			for _, d := range f.Decls {
				if fd, ok := d.(*ast.FuncDecl); ok && fd.Body != nil {
					g.declared[g.fnName(l.info.Defs[fd.Name].(*types.Func))] = true
				}
			}
		}
	}

	// contract-only functions for parameters
	var pnames []string
	for k := range tab.params {
		pnames = append(pnames, k)
	}
	sort.Strings(pnames)
	for _, k := range pnames {
		g.fns[k] = &fnOut{name: k, cases: tab.params[k].cases, explicit: true}
		g.order = append(g.order, k)
	}

	for _, l := range pkgs {
		info := l.info
		g.info, g.pkg = l.info, l.pkg
		for _, f := range l.files {
			if !selected(l, f) {
				continue
			}
			for _, d := range f.Decls {
				fd, ok := d.(*ast.FuncDecl)
				if !ok || fd.Body == nil {
					continue
				}
				obj := info.Defs[fd.Name].(*types.Func)
				name := g.fnName(obj)
				out := &fnOut{name: name, hasBody: true, pos: fset.Position(fd.Pos())}
				if fd.Doc != nil {
					out.doc = fd.Doc.Text()
				}
				if _, dup := g.fns[name]; dup {
					g.failf(fd.Pos(), name, "duplicate function name")
					continue
				}
				g.fns[name] = out
				g.order = append(g.order, name)
				exported := ast.IsExported(fd.Name.Name)
				out.api = exported || strings.HasPrefix(fd.Name.Name, "handle") || fd.Name.Name == "receive"
				out.cases = []caseC{{exits: []exitC{{}}}}
				counter := 0
				t := &tr{g: g, out: out, root: name, counter: &counter, results: fd.Type.Results}
				if ct := tab.fns[name]; ct != nil {
					ct.used = true
					out.cases, out.explicit = ct.cases, true
					if ct.apiSet {
						out.api = ct.api
					}
					out.split = isSplit(ct.cases)
					t.exclusive = ct.exclusive
				}
				for _, p := range paramObjs(info, fd.Type) {
					if tab.params[name+"."+p.Name()] != nil {
						g.params[p] = name + "." + p.Name()
					}
				}
				out.body = t.funcBody(fd.Body)
			}
		}
	}
	for name, ct := range tab.fns {
		if !ct.used {
			g.errs = append(g.errs, fmt.Sprintf("contracts.txt: contract for unknown function %s", name))
		}
	}

	// relevance: a function matters if it has a contract, contains an action or a spawn, or
	// calls a function that matters; calls to the others are dropped (they cannot touch a lock)
	for _, f := range g.fns {
		f.relevant = f.explicit || directlyRelevant(f.body)
	}
	for changed := true; changed; {
		changed = false
		for _, f := range g.fns {
			if !f.relevant && callsRelevant(g, f.body) {
				f.relevant, changed = true, true
			}
		}
	}
	for _, f := range g.fns {
		if f.body != nil {
			f.body = prune(g, f, f.body)
		}
	}
	// functions that (transitively, through calls) reach Conn.tasks.Wait(): they only get the
	// "clean" contract cases (entered by a thread none of whose frames owns a task obligation);
	// every other function gets each case twice, clean and not clean
	for _, f := range g.fns {
		if f.body != nil {
			walk(f.body, func(x Stmt) {
				if a, ok := x.(sAct); ok && a.a == "AWaitTasks" {
					f.needsClean = true
				}
			})
		}
	}
	for changed := true; changed; {
		changed = false
		for _, f := range g.fns {
			if f.needsClean || f.body == nil {
				continue
			}
			walk(f.body, func(x Stmt) {
				if c, ok := x.(sCall); ok {
					if cf := g.fns[c.f]; cf != nil && cf.needsClean && !f.needsClean {
						f.needsClean, changed = true, true
					}
				}
			})
		}
	}
	// doc-comment cross-check
	for _, f := range g.fns {
		if !f.relevant || f.doc == "" {
			continue
		}
		doc := strings.Join(strings.Fields(f.doc), " ")
		says, saysNot := docHolding.MatchString(doc), docNotHolding.MatchString(doc)
		for _, c := range f.cases {
			if says && !saysNot && !c.entry.anyMutex() {
				g.errs = append(g.errs, fmt.Sprintf("%s: function %s: the doc comment says the caller holds a mutex but the contract entry has none", f.pos, f.name))
			}
			if saysNot && c.entry.anyMutex() {
				g.errs = append(g.errs, fmt.Sprintf("%s: function %s: the doc comment says the caller must not hold the mutex but the contract entry has one", f.pos, f.name))
			}
		}
	}
	if len(g.errs) > 0 {
		sort.Strings(g.errs)
		for _, e := range g.errs {
			fmt.Fprintln(os.Stderr, "locktrans: UNSUPPORTED:", e)
		}
		os.Exit(1)
	}

	text := emit(g, hashes, *defName)
	if *outPath == "" {
		fmt.Print(text)
		return
	}
	if old, err := os.ReadFile(abs); err == nil && string(old) == text {
		return
	}
	os.MkdirAll(filepath.Dir(abs), 0o755)
	if err := os.WriteFile(abs, []byte(text), 0o644); err != nil {
		fmt.Fprintln(os.Stderr, "locktrans:", err)
		os.Exit(2)
	}
}

func walk(s Stmt, f func(Stmt)) {
	f(s)
	switch s := s.(type) {
	case sSeq:
		walk(s.a, f)
		walk(s.b, f)
	case sChoice:
		walk(s.a, f)
		walk(s.b, f)
	case sLoop:
		walk(s.b, f)
	case sCall:
		walk(s.ok, f)
		walk(s.err, f)
	}
}

func directlyRelevant(s Stmt) bool {
	if s == nil {
		return false
	}
	r := false
	walk(s, func(x Stmt) {
		switch a := x.(type) {
		case sAct:
			if !strings.HasPrefix(a.a, "AMark") {
				r = true
			}
		case sSpawn:
			r = true
		}
	})
	return r
}

func callsRelevant(g *global, s Stmt) bool {
	if s == nil {
		return false
	}
	r := false
	walk(s, func(x Stmt) {
		if c, ok := x.(sCall); ok {
			if f := g.fns[c.f]; f != nil && f.relevant {
				r = true
			}
		}
	})
	return r
}

func prune(g *global, owner *fnOut, s Stmt) Stmt {
	switch s := s.(type) {
	case sSeq:
		return seq(prune(g, owner, s.a), prune(g, owner, s.b))
	case sChoice:
		return choice(prune(g, owner, s.a), prune(g, owner, s.b))
	case sLoop:
		return sLoop{prune(g, owner, s.b)}
	case sCall:
		f := g.fns[s.f]
		if f == nil {
			g.errs = append(g.errs, fmt.Sprintf("function %s: call of unknown function %s (line %d)", owner.name, s.f, s.line))
			return sSkip{}
		}
		if !f.relevant {
			return sSkip{}
		}
		return sCall{f: s.f, ok: prune(g, owner, s.ok), err: prune(g, owner, s.err), line: s.line}
	}
	return s
}

// drop marks that are not followed by anything interesting
func tidy(s Stmt) Stmt {
	switch s := s.(type) {
	case sSeq:
		a, b := tidy(s.a), tidy(s.b)
		if m, ok := a.(sAct); ok && strings.HasPrefix(m.a, "AMark") {
			switch nb := b.(type) {
			case sSkip:
				return sSkip{}
			case sSeq:
				if m2, ok := nb.a.(sAct); ok && strings.HasPrefix(m2.a, "AMark") {
					return b
				}
			case sAct:
				if strings.HasPrefix(nb.a, "AMark") {
					return sSkip{}
				}
			}
		}
		return seq(a, b)
	case sChoice:
		return choice(tidy(s.a), tidy(s.b))
	case sLoop:
		return sLoop{tidy(s.b)}
	case sCall:
		return sCall{f: s.f, ok: tidy(s.ok), err: tidy(s.err), line: s.line}
	case sAct:
		return s
	}
	return s
}

func locksCoq(l lstate) string {
	var ids []string
	for _, id := range l.held {
		ids = append(ids, fmt.Sprint(id))
	}
	return fmt.Sprintf("[%s] %v", strings.Join(ids, "; "), l.sender)
}

func emit(g *global, hashes []string, defName string) string {
	names := append([]string(nil), g.order...)
	sort.Strings(names)
	id := map[string]int{}
	for i, n := range names {
		id[n] = i
	}
	var b strings.Builder
	b.WriteString("(* GENERATED by locktrans from rpc/*.go -- do not edit.\n   Lock programs (coq/Lock/LockCheck.v) of every function, method and closure.\n   sources:\n")
	for _, h := range hashes {
		b.WriteString("     " + h + "\n")
	}
	b.WriteString("   functions whose body cannot touch a lock (calls to them are dropped):\n")
	var irr []string
	for _, n := range names {
		if !g.fns[n].relevant {
			irr = append(irr, n)
		}
	}
	b.WriteString("     " + strings.Join(irr, " ") + "\n*)\n")
	b.WriteString("From Coq Require Import List String.\nFrom CV Require Import Lock.LockCheck.\nImport ListNotations.\nLocal Open Scope string_scope.\n\n")
	var pr func(s Stmt) string
	pr = func(s Stmt) string {
		switch s := s.(type) {
		case sSkip:
			return "SSkip"
		case sAct:
			return "(SAct (" + s.a + "))"
		case sSeq:
			return "(SSeq " + pr(s.a) + " " + pr(s.b) + ")"
		case sChoice:
			return "(SChoice " + pr(s.a) + " " + pr(s.b) + ")"
		case sLoop:
			return "(SLoop " + pr(s.b) + ")"
		case sBreak:
			return "SBreak"
		case sContinue:
			return "SContinue"
		case sCall:
			return fmt.Sprintf("(SCall %d (* %s *) %s %s)", id[s.f], s.f, pr(s.ok), pr(s.err))
		case sReturn:
			return fmt.Sprintf("(SReturn %d)", s.o)
		case sSpawn:
			return fmt.Sprintf("(SSpawn %d (* %s *))", id[s.f], s.f)
		case sPanic:
			return "SPanic"
		}
		panic("stmt")
	}
	for i, n := range names {
		f := g.fns[n]
		if f.hasBody {
			fmt.Fprintf(&b, "(* %s  %s:%d *)\nDefinition %s_body_%d : stmt :=\n  %s.\n\n", n, f.pos.Filename, f.pos.Line, defName, i, pr(tidy(f.body)))
		}
	}
	fmt.Fprintf(&b, "Definition %s : prog := [\n", defName)
	for i, n := range names {
		f := g.fns[n]
		var cs []string
		for _, c := range f.cases {
			var es []string
			for _, e := range c.exits {
				es = append(es, fmt.Sprintf("mkE %d %s %d", e.out, locksCoq(e.st), e.tasks))
			}
			cs = append(cs, fmt.Sprintf("mkC %s %d [%s]", locksCoq(c.entry), c.need, strings.Join(es, "; ")))
			if !f.needsClean {
				cs = append(cs, fmt.Sprintf("mkCn %s %d [%s]", locksCoq(c.entry), c.need, strings.Join(es, "; ")))
			}
		}
		body := "None"
		if f.hasBody {
			body = fmt.Sprintf("(Some %s_body_%d)", defName, i)
		}
		sep := ";"
		if i == len(names)-1 {
			sep = ""
		}
		fmt.Fprintf(&b, "  (* %d *) mkF %q %v [%s] %s%s\n", i, n, f.api, strings.Join(cs, "; "), body, sep)
	}
	b.WriteString("].\n")
	return b.String()
}
