module locktrans

go 1.21
