// gotrans translates a configured list of pure fixed-width integer functions of the Go package
// in ../repo into Gallina (coq/Gen/GoArith.v). See docs/gotrans.md for the supported subset.
// Anything outside the subset inside a target function makes the translator fail closed
// (exit status 1, message naming the function).
package main

import (
	"crypto/sha256"
	"flag"
	"fmt"
	"go/ast"
	"go/build"
	"go/constant"
	"go/importer"
	"go/parser"
	"go/token"
	"go/types"
	"io"
	"os"
	"os/exec"
	"path/filepath"
	"runtime"
	"sort"
	"strings"
)

type failure struct{ msg string }

type translator struct {
	fset *token.FileSet
	imp  types.Importer
	pkgs map[string]*pkgInfo // by directory relative to the repo root ("" = root package)
	// the package of the function being translated:
	info    *types.Info
	pkg     *types.Package
	decls   map[string]*ast.FuncDecl // "Recv.Name" or ".Name"
	files   map[string]string        // decl key -> file base name
	funcs   map[string]*target       // (*types.Func).FullName() -> target
	pan     map[*target]bool
	hasLoop map[*target]bool
	cur     *target
	order   []*target
}

type pkgInfo struct {
	dir   string
	info  *types.Info
	pkg   *types.Package
	decls map[string]*ast.FuncDecl
	files map[string]string
}

var rootPath string // import path of the repository's root package

func (tr *translator) use(p *pkgInfo) {
	tr.info, tr.pkg, tr.decls, tr.files = p.info, p.pkg, p.decls, p.files
}

func (tr *translator) useTarget(t *target) { tr.cur = t; tr.use(tr.pkgs[t.Pkg]) }

func key(recv, name string) string { return recv + "." + name }

// exprKey: printed expressions are compared modulo spaces
func exprKey(s string) string { return strings.ReplaceAll(s, " ", "") }

func main() {
	repo := flag.String("repo", "../repo", "path of the Go repository (package in its root)")
	out := flag.String("out", "coq/Gen/GoArith.v", "generated Coq file")
	sigs := flag.String("sigs", "coq/Gen/GoArith.sigs", "generated signature table (for the validation harness)")
	out2 := flag.String("out2", "coq/Gen/GoArith2.v", "generated Coq file of the second group")
	sigs2 := flag.String("sigs2", "coq/Gen/GoArith2.sigs", "signature table of the second group")
	flag.Parse()
	code := run(*repo, []string{*out, *out2}, []string{*sigs, *sigs2})
	os.Exit(code)
}

func run(repo string, outs, sigss []string) (code int) {
	tr := &translator{}
	defer func() {
		if e := recover(); e != nil {
			if f, ok := e.(failure); ok {
				name := "(setup)"
				if tr.cur != nil {
					name = filepath.Join(tr.cur.Pkg, tr.cur.File) + ":" + key(tr.cur.Recv, tr.cur.Name)
				}
				fmt.Fprintf(os.Stderr, "gotrans: FAIL function %s: %s\n", name, f.msg)
				code = 1
				return
			}
			panic(e)
		}
	}()
	abs, err := filepath.Abs(repo)
	if err != nil {
		fail("%v", err)
	}
	tr.load(abs)
	tr.computePanics()
	type outFile struct{ path, text string }
	var files []outFile
	for g := range outs {
		vtext, stext := tr.generate(abs, g)
		files = append(files, outFile{outs[g], vtext}, outFile{sigss[g], stext})
	}
	for _, w := range files {
		old, err := os.ReadFile(w.path)
		if err == nil && string(old) == w.text {
			fmt.Printf("gotrans: %s unchanged\n", w.path)
			continue
		}
		if err := os.MkdirAll(filepath.Dir(w.path), 0o755); err != nil {
			fail("%v", err)
		}
		if err := os.WriteFile(w.path, []byte(w.text), 0o644); err != nil {
			fail("%v", err)
		}
		fmt.Printf("gotrans: %s written\n", w.path)
	}
	return 0
}

func fail(format string, a ...interface{}) { panic(failure{fmt.Sprintf(format, a...)}) }

func (tr *translator) failAt(n ast.Node, format string, a ...interface{}) {
	pos := tr.fset.Position(n.Pos())
	panic(failure{fmt.Sprintf("%s:%d:%d: %s", filepath.Base(pos.Filename), pos.Line, pos.Column, fmt.Sprintf(format, a...))})
}

// ---------------------------------------------------------------- loading

func (tr *translator) loadPkg(repo, dir string) *pkgInfo {
	full := filepath.Join(repo, dir)
	bp, err := build.Default.ImportDir(full, 0)
	if err != nil {
		fail("cannot list package in %s: %v", full, err)
	}
	p := &pkgInfo{dir: dir, decls: map[string]*ast.FuncDecl{}, files: map[string]string{}}
	var files []*ast.File
	names := append([]string(nil), bp.GoFiles...)
	sort.Strings(names)
	for _, n := range names {
		f, err := parser.ParseFile(tr.fset, filepath.Join(full, n), nil, parser.ParseComments)
		if err != nil {
			fail("parse %s: %v", n, err)
		}
		files = append(files, f)
		for _, d := range f.Decls {
			fd, ok := d.(*ast.FuncDecl)
			if !ok {
				continue
			}
			recv := ""
			if fd.Recv != nil && len(fd.Recv.List) == 1 {
				t := fd.Recv.List[0].Type
				if s, ok := t.(*ast.StarExpr); ok {
					t = s.X
				}
				if id, ok := t.(*ast.Ident); ok {
					recv = id.Name
				}
			}
			p.decls[key(recv, fd.Name.Name)] = fd
			p.files[key(recv, fd.Name.Name)] = n
		}
	}
	p.info = &types.Info{
		Types:      map[ast.Expr]types.TypeAndValue{},
		Defs:       map[*ast.Ident]types.Object{},
		Uses:       map[*ast.Ident]types.Object{},
		Selections: map[*ast.SelectorExpr]*types.Selection{},
	}
	conf := types.Config{Importer: tr.imp,
		Sizes: &types.StdSizes{WordSize: 8, MaxAlign: 8}}
	path := rootPath
	if dir != "" {
		path = rootPath + "/" + filepath.ToSlash(dir)
	}
	if bp.Name == "main" {
		path = "main"
	}
	p.pkg, err = conf.Check(path, tr.fset, files, p.info)
	if err != nil {
		fail("type check of %s failed: %v", full, err)
	}
	return p
}

// exportImporter resolves imports through the compiler's export data: one `go list -export -deps`
// over the target packages (compiles what is not in the build cache) instead of type-checking
// every dependency from source.
func (tr *translator) exportImporter(repo string, dirs []string) types.Importer {
	goCmd := os.Getenv("VERIF_GO")
	if goCmd == "" {
		goCmd = filepath.Join(runtime.GOROOT(), "bin", "go")
	}
	args := []string{"list", "-export", "-deps", "-f", "{{.ImportPath}}\t{{.Export}}"}
	for _, d := range dirs {
		args = append(args, "./"+filepath.ToSlash(d))
	}
	cmd := exec.Command(goCmd, args...)
	cmd.Dir = repo
	cmd.Stderr = os.Stderr
	out, err := cmd.Output()
	if err != nil {
		fail("go list -export failed: %v", err)
	}
	exports := map[string]string{}
	for _, line := range strings.Split(string(out), "\n") {
		if f := strings.Split(line, "\t"); len(f) == 2 && f[1] != "" {
			exports[f[0]] = f[1]
		}
	}
	return importer.ForCompiler(tr.fset, "gc", func(path string) (io.ReadCloser, error) {
		f, ok := exports[path]
		if !ok {
			return nil, fmt.Errorf("no export data for %s", path)
		}
		return os.Open(f)
	})
}

func (tr *translator) load(repo string) {
	build.Default.Dir = repo
	bp, err := build.Default.ImportDir(repo, 0)
	if err != nil {
		fail("cannot list package in %s: %v", repo, err)
	}
	rootPath = bp.ImportPath
	if gm, err := os.ReadFile(filepath.Join(repo, "go.mod")); err == nil {
		for _, line := range strings.Split(string(gm), "\n") {
			if f := strings.Fields(line); len(f) == 2 && f[0] == "module" {
				rootPath = f[1]
			}
		}
	}
	tr.fset = token.NewFileSet()
	tr.pkgs = map[string]*pkgInfo{}
	dirs := []string{"."}
	seenDir := map[string]bool{"": true}
	for i := range targets {
		if !seenDir[targets[i].Pkg] {
			seenDir[targets[i].Pkg] = true
			dirs = append(dirs, targets[i].Pkg)
		}
	}
	tr.imp = tr.exportImporter(repo, dirs)
	tr.pkgs[""] = tr.loadPkg(repo, "")
	for i := range targets {
		if _, ok := tr.pkgs[targets[i].Pkg]; !ok {
			tr.pkgs[targets[i].Pkg] = tr.loadPkg(repo, targets[i].Pkg)
		}
	}
	// bind targets
	tr.funcs = map[string]*target{}
	seenCoq := map[string]bool{}
	for i := range targets {
		t := &targets[i]
		tr.useTarget(t)
		k := key(t.Recv, t.Name)
		fd := tr.decls[k]
		if fd == nil {
			fail("declaration not found in package")
		}
		if tr.files[k] != t.File {
			fail("declaration moved: expected in %s, found in %s", t.File, tr.files[k])
		}
		if fd.Body == nil {
			fail("no body")
		}
		if seenCoq[t.Coq] {
			fail("duplicate Coq name %s", t.Coq)
		}
		seenCoq[t.Coq] = true
		obj, _ := tr.info.Defs[fd.Name].(*types.Func)
		if obj == nil {
			fail("no type information")
		}
		tr.funcs[obj.FullName()] = t
	}
	tr.cur = nil
	tr.use(tr.pkgs[""])
	pkg := tr.pkg
	// check the struct mappings
	for name, sm := range structs {
		obj := pkg.Scope().Lookup(name)
		if obj == nil {
			fail("struct type %s not found", name)
		}
		st, ok := obj.Type().Underlying().(*types.Struct)
		if !ok {
			fail("%s is not a struct", name)
		}
		if st.NumFields() != len(sm.Fields) {
			fail("struct %s has %d fields, the Coq record %s has %d", name, st.NumFields(), sm.Ctor, len(sm.Fields))
		}
		for i, f := range sm.Fields {
			if st.Field(i).Name() != f.Name || !types.Identical(st.Field(i).Type(), tr.lookupType(f.Type)) {
				fail("struct %s field %d is %s %s, expected %s %s", name, i, st.Field(i).Name(), st.Field(i).Type(), f.Name, f.Type)
			}
			if _, ok := intType(st.Field(i).Type()); !ok {
				fail("struct %s field %s is not an integer", name, f.Name)
			}
		}
	}
}

func (tr *translator) lookupType(name string) types.Type {
	if i := strings.IndexByte(name, '.'); i >= 0 {
		for _, imp := range tr.pkg.Imports() {
			if imp.Name() == name[:i] {
				if tn, ok := imp.Scope().Lookup(name[i+1:]).(*types.TypeName); ok {
					return tn.Type()
				}
			}
		}
		fail("unknown type %s", name)
	}
	if o := tr.pkg.Scope().Lookup(name); o != nil {
		if tn, ok := o.(*types.TypeName); ok {
			return tn.Type()
		}
	}
	if o := types.Universe.Lookup(name); o != nil {
		if tn, ok := o.(*types.TypeName); ok {
			return tn.Type()
		}
	}
	fail("unknown type %s", name)
	return nil
}

// ---------------------------------------------------------------- types

type ity struct {
	bits   int
	signed bool
}

func (t ity) String() string {
	if t.signed {
		return fmt.Sprintf("s%d", t.bits)
	}
	return fmt.Sprintf("u%d", t.bits)
}

// intType: Go integer types; int, uint and uintptr are 64-bit (trusted base: 64-bit platforms).
func intType(t types.Type) (ity, bool) {
	b, ok := t.Underlying().(*types.Basic)
	if !ok {
		return ity{}, false
	}
	switch b.Kind() {
	case types.Int8:
		return ity{8, true}, true
	case types.Int16:
		return ity{16, true}, true
	case types.Int32:
		return ity{32, true}, true
	case types.Int64, types.Int:
		return ity{64, true}, true
	case types.Uint8:
		return ity{8, false}, true
	case types.Uint16:
		return ity{16, false}, true
	case types.Uint32:
		return ity{32, false}, true
	case types.Uint64, types.Uint, types.Uintptr:
		return ity{64, false}, true
	}
	return ity{}, false
}

var errorType = types.Universe.Lookup("error").Type()

func isError(t types.Type) bool { return t != nil && types.Identical(t, errorType) }

// error constructors: the value is only observed as "non-nil"
var errorCtors = map[string]bool{"errorf": true, "errors.New": true, "fmt.Errorf": true, "errors.Errorf": true, "fmt.Errorf ": true}

func isBool(t types.Type) bool {
	b, ok := t.Underlying().(*types.Basic)
	return ok && b.Info()&types.IsBoolean != 0
}

func structName(t types.Type) (string, bool) {
	n, ok := t.(*types.Named)
	if !ok {
		return "", false
	}
	if _, ok := t.Underlying().(*types.Struct); !ok {
		return "", false
	}
	if n.Obj().Pkg() == nil || n.Obj().Pkg().Path() != rootPath {
		return "", false
	}
	if _, ok := structs[n.Obj().Name()]; !ok {
		return "", false
	}
	return n.Obj().Name(), true
}

// includes: every value of a is a value of b
func includes(b, a ity) bool {
	if a.signed == b.signed {
		return a.bits <= b.bits
	}
	if !a.signed && b.signed {
		return a.bits < b.bits
	}
	return false
}

func wrap(t ity, term string) string { return fmt.Sprintf("(wrap_%s %s)", t, term) }

// coqType / sigType of a value type
func (tr *translator) valType(n ast.Node, t types.Type) (coq string, sig string) {
	if it, ok := intType(t); ok {
		return "Z", it.String()
	}
	if isBool(t) {
		return "bool", "bool"
	}
	if isError(t) {
		return "bool", "err" // true = a non-nil error
	}
	if s, ok := structName(t); ok {
		return s, "struct:" + s
	}
	tr.failAt(n, "unsupported type %s", t)
	return "", ""
}

func (tr *translator) zero(n ast.Node, t types.Type) string {
	if _, ok := intType(t); ok {
		return "0"
	}
	if isBool(t) || isError(t) {
		return "false"
	}
	if s, ok := structName(t); ok {
		sm := structs[s]
		return "(" + sm.Ctor + strings.Repeat(" 0", len(sm.Fields)) + ")"
	}
	tr.failAt(n, "unsupported type %s", t)
	return ""
}

// ---------------------------------------------------------------- per function

type bind struct{ name, term string }

type fn struct {
	tr      *translator
	t       *target
	decl    *ast.FuncDecl
	names   map[types.Object]string
	used    map[string]bool
	panics  bool
	pending []bind
	abs     map[string]absParam
	dropped map[types.Object]bool // dropped receiver/parameters: only usable inside the configured abstractions
	params  map[types.Object]bool // the function's own parameters
	results *types.Tuple
	nfresh  int
	loops   bool // the function contains a for loop: extra parameter fuel, result in loopres
	nloops  int
	pre     []string // auxiliary definitions (loop Fixpoints) emitted before the function
	fuel    string
}

func (fx *fn) panicTerm() string {
	if fx.loops {
		return "Done None"
	}
	return "None"
}

type absParam struct {
	coq string
	typ types.Type
}

var reserved = map[string]bool{}

func init() {
	for _, w := range strings.Fields(`as at cofix else end exists exists2 fix for forall fun if IF in let match mod
		return then using where with Prop Set Type SProp by Definition Lemma Theorem Proof Qed
		Z bool nat list option Some None true false negb andb orb tt pair fst snd xorb
		mkOS DataSize PointerCount ObjectSize eqb id fuel Done OutOfFuel loopres go_index_bytes`) {
		reserved[w] = true
	}
}

func (fx *fn) name(obj types.Object, goName string) string {
	if obj != nil {
		if n, ok := fx.names[obj]; ok {
			return n
		}
	}
	base := goName
	if base == "_" || base == "" {
		base = "unused"
	}
	if reserved[base] || strings.HasPrefix(base, "go_") || strings.HasPrefix(base, "wrap_") || strings.HasPrefix(base, "call") {
		base += "_"
	}
	n := base
	for i := 2; fx.used[n]; i++ {
		n = fmt.Sprintf("%s_%d", base, i)
	}
	fx.used[n] = true
	if obj != nil {
		fx.names[obj] = n
	}
	return n
}

func (fx *fn) fresh() string {
	for {
		fx.nfresh++
		n := fmt.Sprintf("call%d", fx.nfresh)
		if !fx.used[n] {
			fx.used[n] = true
			return n
		}
	}
}

// flush wraps body in the matches of the pending (hoisted) panicking calls.
func (fx *fn) flush(from int, body string) string {
	for i := len(fx.pending) - 1; i >= from; i-- {
		b := fx.pending[i]
		body = fmt.Sprintf("match %s with None => %s | Some %s =>\n%s\nend", b.term, fx.panicTerm(), b.name, body)
	}
	fx.pending = fx.pending[:from]
	return body
}

// ---------------------------------------------------------------- expressions

func constTerm(v constant.Value) (string, bool) {
	switch v.Kind() {
	case constant.Bool:
		if constant.BoolVal(v) {
			return "true", true
		}
		return "false", true
	case constant.Int:
		s := v.ExactString()
		if strings.HasPrefix(s, "-") {
			return "(" + s + ")", true
		}
		return s, true
	case constant.Float:
		if i := constant.ToInt(v); i.Kind() == constant.Int {
			return constTerm(i)
		}
	}
	return "", false
}

func (fx *fn) expr(e ast.Expr) string {
	tr := fx.tr
	if fx.abs != nil {
		if a, ok := fx.abs[exprKey(types.ExprString(e))]; ok {
			if et := tr.info.TypeOf(e); !types.Identical(et, a.typ) && !(isBool(a.typ) && et == types.Typ[types.UntypedBool]) {
				tr.failAt(e, "abstracted expression %s has type %s, configured %s", types.ExprString(e), tr.info.TypeOf(e), a.typ)
			}
			// every variable mentioned by the abstracted expression must be the receiver
			ast.Inspect(e, func(n ast.Node) bool {
				if id, ok := n.(*ast.Ident); ok {
					if v, ok := tr.info.Uses[id].(*types.Var); ok && !v.IsField() && !fx.dropped[v] && !fx.params[v] &&
						!(v.Parent() != nil && v.Parent().Parent() == types.Universe) { // package-level variables are allowed
						tr.failAt(id, "abstracted expression %s mentions %s, which is neither dropped nor a parameter", types.ExprString(e), id.Name)
					}
				}
				return true
			})
			return a.coq
		}
	}
	tv, ok := tr.info.Types[e]
	if ok && tv.Value != nil {
		_, isInt := intType(tv.Type)
		untypedNum := false
		if b, ok := tv.Type.(*types.Basic); ok && b.Info()&types.IsUntyped != 0 && b.Info()&(types.IsInteger|types.IsBoolean) != 0 {
			untypedNum = true
		}
		if isInt || isBool(tv.Type) || untypedNum {
			if s, ok := constTerm(tv.Value); ok {
				return s
			}
		}
		tr.failAt(e, "unsupported constant %s of type %s", tv.Value, tv.Type)
	}
	if ok && tv.IsNil() {
		// only meaningful as the nil error; any other use fails at the consumer
		return "false"
	}
	switch e := e.(type) {
	case *ast.ParenExpr:
		return fx.expr(e.X)
	case *ast.IndexExpr:
		// indexing a constant string: panics when out of range
		xv := tr.info.Types[e.X]
		if xv.Value == nil || xv.Value.Kind() != constant.String {
			tr.failAt(e, "index expression on something that is not a constant string")
		}
		fx.intTypeOf(e.Index)
		str := constant.StringVal(xv.Value)
		elems := make([]string, len(str))
		for i := 0; i < len(str); i++ {
			elems[i] = fmt.Sprint(str[i])
		}
		idx := fx.expr(e.Index)
		n := fx.fresh()
		fx.pending = append(fx.pending, bind{n, "(go_index_bytes [" + strings.Join(elems, "; ") + "] " + idx + ")"})
		return n
	case *ast.Ident:
		obj := tr.info.Uses[e]
		v, ok := obj.(*types.Var)
		if !ok || v.IsField() {
			tr.failAt(e, "unsupported identifier %s", e.Name)
		}
		if fx.dropped[v] {
			tr.failAt(e, "use of the dropped receiver/parameter %s outside the configured abstractions", e.Name)
		}
		if v.Parent() == tr.pkg.Scope() || v.Pkg() != tr.pkg {
			tr.failAt(e, "package-level variable %s", e.Name)
		}
		n, ok := fx.names[obj]
		if !ok {
			tr.failAt(e, "variable %s is not a parameter or an assigned local (named results are not supported)", e.Name)
		}
		fx.valTypeCheck(e)
		return n
	case *ast.UnaryExpr:
		switch e.Op {
		case token.NOT:
			return "(negb " + fx.expr(e.X) + ")"
		case token.ADD:
			fx.intTypeOf(e)
			return fx.expr(e.X)
		case token.SUB:
			return wrap(fx.intTypeOf(e), "(- "+fx.expr(e.X)+")")
		case token.XOR:
			return wrap(fx.intTypeOf(e), "(Z.lnot "+fx.expr(e.X)+")")
		}
		tr.failAt(e, "unsupported unary operator %s", e.Op)
	case *ast.BinaryExpr:
		return fx.binary(e)
	case *ast.CallExpr:
		return fx.call(e)
	case *ast.SelectorExpr:
		sel := tr.info.Selections[e]
		if sel == nil || sel.Kind() != types.FieldVal {
			tr.failAt(e, "unsupported selector %s", types.ExprString(e))
		}
		sn, ok := structName(tr.info.TypeOf(e.X))
		if !ok || len(sel.Index()) != 1 {
			tr.failAt(e, "field selection on unsupported type %s", tr.info.TypeOf(e.X))
		}
		fx.valTypeCheck(e)
		return "(" + structs[sn].Fields[sel.Index()[0]].Name + " " + fx.expr(e.X) + ")"
	case *ast.CompositeLit:
		sn, ok := structName(tr.info.TypeOf(e))
		if !ok {
			tr.failAt(e, "composite literal of unsupported type %s", tr.info.TypeOf(e))
		}
		sm := structs[sn]
		vals := make([]string, len(sm.Fields))
		for i := range vals {
			vals[i] = "0"
		}
		for i, el := range e.Elts {
			if kv, ok := el.(*ast.KeyValueExpr); ok {
				id, ok := kv.Key.(*ast.Ident)
				idx := -1
				if ok {
					for j, f := range sm.Fields {
						if f.Name == id.Name {
							idx = j
						}
					}
				}
				if idx < 0 {
					tr.failAt(el, "unknown field in composite literal")
				}
				vals[idx] = fx.expr(kv.Value)
			} else {
				if i >= len(vals) {
					tr.failAt(el, "too many values in composite literal")
				}
				vals[i] = fx.expr(el)
			}
		}
		return "(" + sm.Ctor + " " + strings.Join(vals, " ") + ")"
	}
	tr.failAt(e, "unsupported expression %s (%T)", types.ExprString(e), e)
	return ""
}

func (fx *fn) valTypeCheck(e ast.Expr) { fx.tr.valType(e, fx.tr.info.TypeOf(e)) }

func (fx *fn) intTypeOf(e ast.Expr) ity {
	t, ok := intType(fx.tr.info.TypeOf(e))
	if !ok {
		fx.tr.failAt(e, "expression %s has non-integer type %s", types.ExprString(e), fx.tr.info.TypeOf(e))
	}
	return t
}

func (fx *fn) constOf(e ast.Expr) constant.Value {
	if fx.abs != nil {
		if _, ok := fx.abs[exprKey(types.ExprString(e))]; ok {
			return nil
		}
	}
	if tv, ok := fx.tr.info.Types[e]; ok {
		return tv.Value
	}
	return nil
}

func (fx *fn) binary(e *ast.BinaryExpr) string {
	tr := fx.tr
	switch e.Op {
	case token.EQL, token.NEQ:
		tx, ty := tr.info.TypeOf(e.X), tr.info.TypeOf(e.Y)
		if isError(tx) || isError(ty) {
			var v string
			switch {
			case tr.info.Types[e.Y].IsNil():
				v = fx.expr(e.X)
			case tr.info.Types[e.X].IsNil():
				v = fx.expr(e.Y)
			default:
				tr.failAt(e, "comparison of two error values")
			}
			if e.Op == token.NEQ {
				return v
			}
			return "(negb " + v + ")"
		}
	}
	switch e.Op {
	case token.LAND, token.LOR:
		x := fx.expr(e.X)
		n := len(fx.pending)
		y := fx.expr(e.Y)
		if len(fx.pending) != n {
			tr.failAt(e.Y, "call that may panic in the right operand of %s (short-circuit evaluation)", e.Op)
		}
		if e.Op == token.LAND {
			return "(" + x + " && " + y + ")"
		}
		return "(" + x + " || " + y + ")"
	case token.EQL, token.NEQ, token.LSS, token.LEQ, token.GTR, token.GEQ:
		tx, ty := tr.info.TypeOf(e.X), tr.info.TypeOf(e.Y)
		x, y := fx.expr(e.X), fx.expr(e.Y)
		_, xi := intType(tx)
		_, yi := intType(ty)
		// one side may be an untyped constant
		if b, ok := tx.(*types.Basic); ok && b.Info()&types.IsUntyped != 0 && b.Info()&types.IsInteger != 0 {
			xi = true
		}
		if b, ok := ty.(*types.Basic); ok && b.Info()&types.IsUntyped != 0 && b.Info()&types.IsInteger != 0 {
			yi = true
		}
		if xi && yi {
			op := map[token.Token]string{token.EQL: "=?", token.LSS: "<?", token.LEQ: "<=?", token.GTR: ">?", token.GEQ: ">=?"}
			if e.Op == token.NEQ {
				return "(negb (" + x + " =? " + y + "))"
			}
			return "(" + x + " " + op[e.Op] + " " + y + ")"
		}
		if isBool(tx) && isBool(ty) && (e.Op == token.EQL || e.Op == token.NEQ) {
			if e.Op == token.NEQ {
				return "(negb (Bool.eqb " + x + " " + y + "))"
			}
			return "(Bool.eqb " + x + " " + y + ")"
		}
		tr.failAt(e, "comparison of unsupported types %s, %s", tx, ty)
	}
	return fx.arith(e, e.Op, tr.info.TypeOf(e), e.X, e.Y)
}

// arith translates x op y of result type rt (also used for x op= y).
func (fx *fn) arith(e ast.Node, eop token.Token, rt types.Type, eX, eY ast.Expr) string {
	tr := fx.tr
	resT := func() ity {
		t, ok := intType(rt)
		if !ok {
			tr.failAt(e, "operation %s on non-integer type %s", eop, rt)
		}
		return t
	}
	switch eop {
	case token.SHL, token.SHR:
		t := resT()
		x := fx.expr(eX)
		var s string
		if c := fx.constOf(eY); c != nil {
			n, ok := constant.Int64Val(constant.ToInt(c))
			if !ok || n < 0 || n > 4096 {
				tr.failAt(eY, "unsupported shift count %s", c)
			}
			if eop == token.SHR {
				return fmt.Sprintf("(Z.shiftr %s %d)", x, n)
			}
			p := constant.Shift(constant.MakeInt64(1), token.SHL, uint(n))
			return wrap(t, "("+x+" * "+p.ExactString()+")")
		}
		st, ok := intType(tr.info.TypeOf(eY))
		if !ok || st.signed {
			tr.failAt(eY, "non-constant shift count of signed or non-integer type %s (panics when negative)", tr.info.TypeOf(eY))
		}
		s = fx.expr(eY)
		if eop == token.SHR {
			return "(Z.shiftr " + x + " " + s + ")"
		}
		return wrap(t, "("+x+" * 2 ^ "+s+")")
	case token.ADD, token.SUB, token.MUL:
		t := resT()
		fx.intTypeOf(eX)
		fx.intTypeOf(eY)
		return wrap(t, "("+fx.expr(eX)+" "+eop.String()+" "+fx.expr(eY)+")")
	case token.QUO, token.REM:
		t := resT()
		c := fx.constOf(eY)
		if c == nil {
			tr.failAt(eY, "divisor is not a constant (division by zero panics)")
		}
		if constant.Sign(c) == 0 {
			tr.failAt(eY, "constant zero divisor")
		}
		x, y := fx.expr(eX), fx.expr(eY)
		if eop == token.REM {
			return "(Z.rem " + x + " " + y + ")"
		}
		q := "(Z.quot " + x + " " + y + ")"
		if t.signed && constant.Compare(c, token.EQL, constant.MakeInt64(-1)) {
			return wrap(t, q)
		}
		return q
	case token.AND, token.OR, token.XOR, token.AND_NOT:
		resT()
		op := map[token.Token]string{token.AND: "Z.land", token.OR: "Z.lor", token.XOR: "Z.lxor", token.AND_NOT: "Z.ldiff"}
		return "(" + op[eop] + " " + fx.expr(eX) + " " + fx.expr(eY) + ")"
	}
	tr.failAt(e, "unsupported binary operator %s", eop)
	return ""
}

// errorCtor reports whether e calls one of the configured error constructors.
func (fx *fn) errorCtor(e *ast.CallExpr) (string, bool) {
	var obj types.Object
	switch f := e.Fun.(type) {
	case *ast.Ident:
		obj = fx.tr.info.Uses[f]
	case *ast.SelectorExpr:
		obj = fx.tr.info.Uses[f.Sel]
	}
	fn, ok := obj.(*types.Func)
	if !ok || fn.Pkg() == nil {
		return "", false
	}
	name := fn.Name()
	if fn.Pkg() != fx.tr.pkg {
		name = fn.Pkg().Name() + "." + name
	}
	return name, errorCtors[name]
}

// callee resolves the target of a call expression and the receiver expression (or nil).
func (fx *fn) callee(e *ast.CallExpr) (*target, ast.Expr) {
	tr := fx.tr
	switch f := e.Fun.(type) {
	case *ast.Ident:
		if obj, ok := tr.info.Uses[f].(*types.Func); ok {
			if t := tr.funcs[obj.FullName()]; t != nil {
				return t, nil
			}
			tr.failAt(e, "call of %s, which is not in the list of translated functions", f.Name)
		}
	case *ast.SelectorExpr:
		sel := tr.info.Selections[f]
		if sel != nil && sel.Kind() == types.MethodVal {
			obj := sel.Obj().(*types.Func)
			t := tr.funcs[obj.FullName()]
			if t == nil {
				tr.failAt(e, "call of method %s, which is not in the list of translated functions", types.ExprString(f))
			}
			sig := obj.Type().(*types.Signature)
			if !types.Identical(sig.Recv().Type(), tr.info.TypeOf(f.X)) {
				tr.failAt(e, "method call with implicit address/dereference of the receiver")
			}
			return t, f.X
		}
	}
	tr.failAt(e, "unsupported call %s", types.ExprString(e))
	return nil, nil
}

func (fx *fn) call(e *ast.CallExpr) string {
	tr := fx.tr
	if tv, ok := tr.info.Types[e.Fun]; ok && tv.IsType() {
		// conversion T(x)
		if len(e.Args) != 1 {
			tr.failAt(e, "malformed conversion")
		}
		dst, ok := intType(tv.Type)
		if !ok {
			tr.failAt(e, "conversion to non-integer type %s", tv.Type)
		}
		src, ok := intType(tr.info.TypeOf(e.Args[0]))
		if !ok {
			tr.failAt(e, "conversion from non-integer type %s", tr.info.TypeOf(e.Args[0]))
		}
		x := fx.expr(e.Args[0])
		if includes(dst, src) {
			return x
		}
		return wrap(dst, x)
	}
	if isError(tr.info.TypeOf(e)) {
		if name, ok := fx.errorCtor(e); ok {
			for _, a := range e.Args {
				ast.Inspect(a, func(n ast.Node) bool {
					if c, ok := n.(*ast.CallExpr); ok {
						if tv, ok := tr.info.Types[c.Fun]; !ok || !tv.IsType() {
							tr.failAt(c, "call inside the arguments of the error constructor %s", name)
						}
					}
					return true
				})
			}
			return "true"
		}
	}
	t, recv := fx.callee(e)
	if tr.hasLoop[t] {
		tr.failAt(e, "call of %s, which contains a loop (fuel)", t.Name)
	}
	if t.Abstract != nil || t.CASLoop {
		tr.failAt(e, "call of %s, which is translated under abstraction", t.Name)
	}
	if e.Ellipsis.IsValid() {
		tr.failAt(e, "variadic call")
	}
	args := []string{}
	if recv != nil {
		args = append(args, fx.expr(recv))
	}
	for _, a := range e.Args {
		if _, isTuple := tr.info.TypeOf(a).(*types.Tuple); isTuple {
			tr.failAt(a, "tuple-valued argument")
		}
		args = append(args, fx.expr(a))
	}
	term := "(" + t.Coq + " " + strings.Join(args, " ") + ")"
	if tr.pan[t] {
		n := fx.fresh()
		fx.pending = append(fx.pending, bind{n, term})
		return n
	}
	return term
}

// ---------------------------------------------------------------- statements

func isPanicCall(info *types.Info, s ast.Stmt) (*ast.CallExpr, bool) {
	es, ok := s.(*ast.ExprStmt)
	if !ok {
		return nil, false
	}
	c, ok := es.X.(*ast.CallExpr)
	if !ok {
		return nil, false
	}
	id, ok := c.Fun.(*ast.Ident)
	if !ok {
		return nil, false
	}
	b, ok := info.Uses[id].(*types.Builtin)
	return c, ok && b.Name() == "panic"
}

func (fx *fn) lhsName(id *ast.Ident) string {
	if id.Name == "_" {
		return "_"
	}
	obj := fx.tr.info.Defs[id]
	if obj == nil {
		obj = fx.tr.info.Uses[id]
	}
	v, ok := obj.(*types.Var)
	if !ok || v.IsField() || v.Parent() == fx.tr.pkg.Scope() {
		fx.tr.failAt(id, "assignment to %s, which is not a local variable", id.Name)
	}
	if fx.dropped[v] {
		fx.tr.failAt(id, "assignment to a dropped receiver/parameter")
	}
	fx.tr.valType(id, v.Type())
	return fx.name(obj, id.Name)
}

func (fx *fn) block(stmts []ast.Stmt, rest func() string) string {
	tr := fx.tr
	if len(stmts) == 0 {
		return rest()
	}
	s := stmts[0]
	tail := func() string { return fx.block(stmts[1:], rest) }
	base := len(fx.pending)
	switch s := s.(type) {
	case *ast.EmptyStmt:
		return tail()
	case *ast.BlockStmt:
		return fx.block(s.List, tail)
	case *ast.ReturnStmt:
		return fx.ret(s, base)
	case *ast.ExprStmt:
		if c, ok := isPanicCall(tr.info, s); ok {
			if len(c.Args) != 1 || fx.constOf(c.Args[0]) == nil {
				tr.failAt(s, "panic with a non-constant argument")
			}
			return fx.panicTerm()
		}
		tr.failAt(s, "unsupported expression statement")
	case *ast.DeclStmt:
		gd, ok := s.Decl.(*ast.GenDecl)
		if ok && gd.Tok == token.CONST {
			return tail() // constants are folded where they are used
		}
		if !ok || gd.Tok != token.VAR {
			tr.failAt(s, "unsupported declaration")
		}
		type lb struct{ n, v string }
		var lets []lb
		for _, sp := range gd.Specs {
			vs := sp.(*ast.ValueSpec)
			if len(vs.Values) != 0 && len(vs.Values) != len(vs.Names) {
				tr.failAt(s, "unsupported var declaration")
			}
			for i, id := range vs.Names {
				var v string
				if len(vs.Values) == 0 {
					v = tr.zero(id, tr.info.Defs[id].Type())
				} else {
					v = fx.expr(vs.Values[i])
				}
				lets = append(lets, lb{"", v})
				lets[len(lets)-1].n = fx.lhsName(id)
			}
		}
		var b strings.Builder
		for _, l := range lets {
			fmt.Fprintf(&b, "let %s := %s in\n", l.n, l.v)
		}
		return fx.flush(base, b.String()+tail())
	case *ast.AssignStmt:
		if op, ok := opAssign[s.Tok]; ok {
			id, isId := s.Lhs[0].(*ast.Ident)
			if !isId || len(s.Lhs) != 1 || len(s.Rhs) != 1 {
				tr.failAt(s, "unsupported operator assignment")
			}
			v := fx.arith(s, op, tr.info.TypeOf(id), id, s.Rhs[0])
			n := fx.lhsName(id)
			return fx.flush(base, fmt.Sprintf("let %s := %s in\n%s", n, v, tail()))
		}
		if s.Tok != token.DEFINE && s.Tok != token.ASSIGN {
			tr.failAt(s, "unsupported assignment operator %s", s.Tok)
		}
		for _, l := range s.Lhs {
			if _, ok := l.(*ast.Ident); !ok {
				tr.failAt(l, "assignment to a non-identifier")
			}
		}
		if len(s.Rhs) == 1 && len(s.Lhs) == 1 {
			v := fx.expr(s.Rhs[0])
			n := fx.lhsName(s.Lhs[0].(*ast.Ident))
			return fx.flush(base, fmt.Sprintf("let %s := %s in\n%s", n, v, tail()))
		}
		if len(s.Rhs) == 1 && len(s.Lhs) > 1 {
			c, ok := s.Rhs[0].(*ast.CallExpr)
			if !ok {
				tr.failAt(s, "unsupported tuple assignment")
			}
			v := fx.call(c)
			ns := make([]string, len(s.Lhs))
			for i, l := range s.Lhs {
				ns[i] = fx.lhsName(l.(*ast.Ident))
			}
			return fx.flush(base, fmt.Sprintf("let '(%s) := %s in\n%s", strings.Join(ns, ", "), v, tail()))
		}
		tr.failAt(s, "parallel assignment is not supported")
	case *ast.IncDecStmt:
		id, isId := s.X.(*ast.Ident)
		t, isInt := intType(tr.info.TypeOf(s.X))
		if !isId || !isInt {
			tr.failAt(s, "unsupported increment/decrement")
		}
		op := "+"
		if s.Tok == token.DEC {
			op = "-"
		}
		v := wrap(t, "("+fx.expr(id)+" "+op+" 1)")
		n := fx.lhsName(id)
		return fmt.Sprintf("let %s := %s in\n%s", n, v, tail())
	case *ast.ForStmt:
		return fx.forLoop(s, tail)
	case *ast.IfStmt:
		if s.Init != nil {
			s2 := *s
			s2.Init = nil
			return fx.block([]ast.Stmt{s.Init, &s2}, tail)
		}
		c := fx.expr(s.Cond)
		th := fx.block(s.Body.List, tail)
		var el string
		switch e := s.Else.(type) {
		case nil:
			el = tail()
		case *ast.BlockStmt:
			el = fx.block(e.List, tail)
		case *ast.IfStmt:
			el = fx.block([]ast.Stmt{e}, tail)
		default:
			tr.failAt(s, "unsupported else")
		}
		return fx.flush(base, fmt.Sprintf("if %s then (\n%s\n) else (\n%s\n)", c, th, el))
	case *ast.SwitchStmt:
		if s.Init != nil {
			s2 := *s
			s2.Init = nil
			return fx.block([]ast.Stmt{s.Init, &s2}, tail)
		}
		tagName := ""
		tagBool := false
		head := ""
		if s.Tag != nil {
			tt := tr.info.TypeOf(s.Tag)
			if _, ok := intType(tt); !ok && !isBool(tt) {
				tr.failAt(s.Tag, "switch on unsupported type %s", tt)
			}
			tagBool = isBool(tt)
			v := fx.expr(s.Tag)
			tagName = fx.name(nil, "tag")
			head = fmt.Sprintf("let %s := %s in\n", tagName, v)
		}
		type arm struct{ cond, body string }
		var arms []arm
		var deflt *ast.CaseClause
		for _, cs := range s.Body.List {
			cc := cs.(*ast.CaseClause)
			for _, b := range cc.Body {
				if _, ok := b.(*ast.BranchStmt); ok {
					tr.failAt(b, "break/fallthrough/goto in switch")
				}
			}
			if cc.List == nil {
				deflt = cc
				continue
			}
			var conds []string
			for _, ce := range cc.List {
				n := len(fx.pending)
				var c string
				if s.Tag == nil {
					c = fx.expr(ce)
				} else {
					if fx.constOf(ce) == nil {
						tr.failAt(ce, "non-constant case expression")
					}
					if tagBool {
						c = "(Bool.eqb " + tagName + " " + fx.expr(ce) + ")"
					} else {
						c = "(" + tagName + " =? " + fx.expr(ce) + ")"
					}
				}
				if len(fx.pending) != n {
					tr.failAt(ce, "call that may panic in a case expression")
				}
				conds = append(conds, c)
			}
			arms = append(arms, arm{strings.Join(conds, " || "), fx.block(cc.Body, tail)})
		}
		var last string
		if deflt != nil {
			last = fx.block(deflt.Body, tail)
		} else {
			last = tail()
		}
		var b strings.Builder
		b.WriteString(head)
		for _, a := range arms {
			fmt.Fprintf(&b, "if %s then (\n%s\n) else ", a.cond, a.body)
		}
		fmt.Fprintf(&b, "(\n%s\n)", last)
		return fx.flush(base, b.String())
	}
	tr.failAt(s, "unsupported statement (%T)", s)
	return ""
}

func (fx *fn) some(term string) string {
	if fx.panics {
		term = "Some " + term
	}
	if fx.loops {
		return "Done (" + term + ")"
	}
	return term
}

var opAssign = map[token.Token]token.Token{
	token.ADD_ASSIGN: token.ADD, token.SUB_ASSIGN: token.SUB, token.MUL_ASSIGN: token.MUL,
	token.QUO_ASSIGN: token.QUO, token.REM_ASSIGN: token.REM, token.AND_ASSIGN: token.AND,
	token.OR_ASSIGN: token.OR, token.XOR_ASSIGN: token.XOR, token.SHL_ASSIGN: token.SHL,
	token.SHR_ASSIGN: token.SHR, token.AND_NOT_ASSIGN: token.AND_NOT,
}

// forLoop translates `for [init;] cond [; post] { body }` into a fuelled Fixpoint over the
// variables assigned in the loop (declared before it); running out of fuel is the distinct
// outcome OutOfFuel of the enclosing function. The body must not return, break, continue,
// panic or call a function that may panic.
func (fx *fn) forLoop(s *ast.ForStmt, tail func() string) string {
	tr := fx.tr
	if s.Init != nil {
		s2 := *s
		s2.Init = nil
		return fx.block([]ast.Stmt{s.Init, &s2}, tail)
	}
	if s.Cond == nil {
		tr.failAt(s, "for loop without a condition")
	}
	body := append([]ast.Stmt(nil), s.Body.List...)
	if s.Post != nil {
		body = append(body, s.Post)
	}
	var state, free []types.Object
	seen := map[types.Object]bool{}
	isState := map[types.Object]bool{}
	assigned := func(id *ast.Ident) {
		obj := tr.info.Uses[id]
		if obj == nil {
			return // defined inside the loop
		}
		if _, known := fx.names[obj]; known && !isState[obj] {
			isState[obj] = true
			state = append(state, obj)
		}
	}
	for _, b := range body {
		ast.Inspect(b, func(n ast.Node) bool {
			switch n := n.(type) {
			case *ast.ReturnStmt, *ast.BranchStmt, *ast.GoStmt, *ast.DeferStmt, *ast.RangeStmt, *ast.ForStmt, *ast.LabeledStmt:
				tr.failAt(n, "unsupported statement inside a for loop")
			case *ast.ExprStmt:
				tr.failAt(n, "unsupported statement inside a for loop (panic or call)")
			case *ast.AssignStmt:
				for _, l := range n.Lhs {
					if id, ok := l.(*ast.Ident); ok {
						assigned(id)
					}
				}
			case *ast.IncDecStmt:
				if id, ok := n.X.(*ast.Ident); ok {
					assigned(id)
				}
			}
			return true
		})
	}
	if len(state) == 0 {
		tr.failAt(s, "for loop that assigns no variable declared outside it")
	}
	collect := func(n ast.Node) {
		ast.Inspect(n, func(n ast.Node) bool {
			if id, ok := n.(*ast.Ident); ok {
				if obj := tr.info.Uses[id]; obj != nil {
					if _, known := fx.names[obj]; known && !isState[obj] && !seen[obj] {
						seen[obj] = true
						free = append(free, obj)
					}
				}
			}
			return true
		})
	}
	collect(s.Cond)
	for _, b := range body {
		collect(b)
	}
	fx.nloops++
	name := fmt.Sprintf("%s_loop%d", fx.t.Coq, fx.nloops)
	var params, args []string
	for _, o := range append(append([]types.Object(nil), free...), state...) {
		c, _ := tr.valType(s, o.Type())
		params = append(params, fmt.Sprintf("(%s : %s)", fx.names[o], c))
		args = append(args, fx.names[o])
	}
	var stNames, stTypes []string
	for _, o := range state {
		c, _ := tr.valType(s, o.Type())
		stNames = append(stNames, fx.names[o])
		stTypes = append(stTypes, c)
	}
	tuple := strings.Join(stNames, ", ")
	if len(stNames) > 1 {
		tuple = "(" + tuple + ")"
	}
	base := len(fx.pending)
	cond := fx.expr(s.Cond)
	rec := func() string { return "(" + name + " " + fx.fuel + "' " + strings.Join(args, " ") + ")" }
	btxt := fx.block(body, rec)
	if len(fx.pending) != base {
		tr.failAt(s, "call that may panic inside a for loop")
	}
	def := fmt.Sprintf("Fixpoint %s (%s : nat) %s {struct %s} : option (%s) :=\n%s.\n", name, fx.fuel, strings.Join(params, " "),
		fx.fuel, strings.Join(stTypes, " * "),
		indent(fmt.Sprintf("match %s with\n| O => None\n| S %s' =>\nif %s then (\n%s\n) else (\nSome %s\n)\nend", fx.fuel, fx.fuel, cond, btxt, tuple)))
	fx.pre = append(fx.pre, def)
	pat := tuple
	if len(stNames) > 1 {
		pat = "(" + strings.Join(stNames, ", ") + ")"
	}
	return fmt.Sprintf("match (%s %s %s) with None => OutOfFuel | Some %s =>\n%s\nend", name, fx.fuel, strings.Join(args, " "), pat, tail())
}

func (fx *fn) ret(s *ast.ReturnStmt, base int) string {
	tr := fx.tr
	n := fx.results.Len()
	var term string
	switch {
	case n == 0 && len(s.Results) == 0:
		term = "tt"
	case len(s.Results) == n:
		parts := make([]string, n)
		for i, r := range s.Results {
			parts[i] = fx.expr(r)
		}
		if n == 1 {
			term = parts[0]
		} else {
			term = "(" + strings.Join(parts, ", ") + ")"
		}
	case len(s.Results) == 1 && n > 1:
		c, ok := s.Results[0].(*ast.CallExpr)
		if !ok {
			tr.failAt(s, "unsupported return")
		}
		term = fx.call(c)
	default:
		tr.failAt(s, "bare return with named results is not supported")
	}
	return fx.flush(base, fx.some(term))
}

// ---------------------------------------------------------------- panics analysis

func (tr *translator) computePanics() {
	tr.pan = map[*target]bool{}
	tr.hasLoop = map[*target]bool{}
	calls := map[*target][]*target{}
	for i := range targets {
		t := &targets[i]
		tr.useTarget(t)
		fd := tr.decls[key(t.Recv, t.Name)]
		ast.Inspect(fd.Body, func(n ast.Node) bool {
			switch n := n.(type) {
			case *ast.ForStmt:
				if !t.CASLoop {
					tr.hasLoop[t] = true
				}
			case *ast.IndexExpr:
				tr.pan[t] = true // index out of range
			case *ast.ExprStmt:
				if _, ok := isPanicCall(tr.info, n); ok {
					tr.pan[t] = true
				}
			case *ast.CallExpr:
				var obj types.Object
				switch f := n.Fun.(type) {
				case *ast.Ident:
					obj = tr.info.Uses[f]
				case *ast.SelectorExpr:
					if sel := tr.info.Selections[f]; sel != nil {
						obj = sel.Obj()
					}
				}
				if f, ok := obj.(*types.Func); ok {
					if c := tr.funcs[f.FullName()]; c != nil {
						if c.Group > t.Group {
							tr.cur = t
							fail("calls %s, which is in a later group", c.Name)
						}
						calls[t] = append(calls[t], c)
					}
				}
			}
			return true
		})
	}
	for changed := true; changed; {
		changed = false
		for i := range targets {
			t := &targets[i]
			if tr.pan[t] {
				continue
			}
			for _, c := range calls[t] {
				if tr.pan[c] {
					tr.pan[t] = true
					changed = true
				}
			}
		}
	}
	// order: callees first, otherwise configuration order; recursion fails closed
	tr.order = nil
	state := map[*target]int{}
	var visit func(t *target)
	visit = func(t *target) {
		switch state[t] {
		case 1:
			tr.cur = t
			fail("recursive call chain")
		case 2:
			return
		}
		state[t] = 1
		for _, c := range calls[t] {
			visit(c)
		}
		state[t] = 2
		tr.order = append(tr.order, t)
	}
	for i := range targets {
		visit(&targets[i])
	}
}

// ---------------------------------------------------------------- output

type sigInfo struct {
	args, res []string
}

func (tr *translator) translate(t *target) (def string, sig sigInfo) {
	tr.useTarget(t)
	fd := tr.decls[key(t.Recv, t.Name)]
	obj := tr.info.Defs[fd.Name].(*types.Func)
	gsig := obj.Type().(*types.Signature)
	if gsig.Variadic() || gsig.TypeParams() != nil {
		tr.failAt(fd, "variadic or generic function")
	}
	fx := &fn{tr: tr, t: t, decl: fd, names: map[types.Object]string{}, used: map[string]bool{}, panics: tr.pan[t], results: gsig.Results(),
		dropped: map[types.Object]bool{}, params: map[types.Object]bool{}, loops: tr.hasLoop[t]}
	type param struct{ name, coq string }
	var params []param
	if fx.loops {
		fx.fuel = "fuel"
		fx.used["fuel"] = true
		fx.used["fuel'"] = true
		params = append(params, param{"fuel", "nat"})
	}
	addParam := func(n ast.Node, obj types.Object, goName string, ty types.Type) {
		c, s := tr.valType(n, ty)
		params = append(params, param{fx.name(obj, goName), c})
		sig.args = append(sig.args, s)
	}
	abstracted := t.Abstract != nil || t.CASLoop
	if gsig.Recv() != nil {
		if abstracted {
			fx.dropped[gsig.Recv()] = true
		} else {
			if _, ok := gsig.Recv().Type().(*types.Pointer); ok {
				tr.failAt(fd, "pointer receiver")
			}
			addParam(fd, gsig.Recv(), gsig.Recv().Name(), gsig.Recv().Type())
		}
	} else if abstracted && len(t.Drop) == 0 {
		tr.failAt(fd, "abstraction configured for a plain function without dropped parameters")
	}
	if t.Abstract != nil {
		fx.abs = map[string]absParam{}
		for _, a := range t.Abstract {
			ty := tr.lookupType(a.Type)
			c, s := tr.valType(fd, ty)
			n := fx.name(nil, a.Param)
			params = append(params, param{n, c})
			if a.NonNeg {
				if s != "s64" || !(strings.HasPrefix(a.Expr, "len(") || strings.HasPrefix(a.Expr, "cap(")) {
					tr.failAt(fd, "NonNeg abstraction must be a len(...) or cap(...) of type int")
				}
				s = "len64"
			}
			sig.args = append(sig.args, s)
			fx.abs[exprKey(a.Expr)] = absParam{n, ty}
		}
	}
	body := fd.Body.List
	var casCurr *ast.Ident
	var casNew, casRet ast.Expr
	if t.CASLoop {
		body, casCurr, casNew, casRet = tr.casLoop(fd)
		addParam(casCurr, tr.info.Defs[casCurr], casCurr.Name, tr.info.Defs[casCurr].Type())
	}
	ndrop := 0
	for i := 0; i < gsig.Params().Len(); i++ {
		p := gsig.Params().At(i)
		fx.params[p] = true
		drop := false
		for _, d := range t.Drop {
			drop = drop || d == p.Name()
		}
		if drop {
			fx.dropped[p] = true
			ndrop++
			continue
		}
		addParam(fd, p, p.Name(), p.Type())
	}
	if ndrop != len(t.Drop) {
		tr.failAt(fd, "configured dropped parameters %v not all found", t.Drop)
	}
	var resCoq []string
	if t.CASLoop {
		for _, e := range []ast.Expr{casNew, casRet} {
			c, s := tr.valType(e, tr.info.TypeOf(e))
			resCoq = append(resCoq, c)
			sig.res = append(sig.res, s)
		}
	} else {
		for i := 0; i < gsig.Results().Len(); i++ {
			c, s := tr.valType(fd, gsig.Results().At(i).Type())
			resCoq = append(resCoq, c)
			sig.res = append(sig.res, s)
		}
	}
	resType := "unit"
	if len(resCoq) > 0 {
		resType = strings.Join(resCoq, " * ")
	}
	if fx.panics {
		if len(resCoq) > 1 {
			resType = "(" + resType + ")"
		}
		resType = "option " + resType
	}
	if fx.loops {
		resType = "loopres (" + resType + ")"
	}
	end := func() string {
		if t.CASLoop {
			base := len(fx.pending)
			a, b := fx.expr(casNew), fx.expr(casRet)
			return fx.flush(base, fx.some("("+a+", "+b+")"))
		}
		if gsig.Results().Len() == 0 {
			return fx.some("tt")
		}
		tr.failAt(fd.Body, "control reaches the end of the function without a return")
		return ""
	}
	term := fx.block(body, end)
	if len(fx.pending) != 0 {
		tr.failAt(fd, "internal error: unflushed calls")
	}
	var b strings.Builder
	recv := ""
	if gsig.Recv() != nil {
		recv = "(" + gsig.Recv().Name() + " " + types.TypeString(gsig.Recv().Type(), types.RelativeTo(tr.pkg)) + ") "
	}
	for _, d := range fx.pre {
		fmt.Fprintf(&b, "(* loop of %s (fuelled; None = out of fuel) *)\n%s\n", t.Coq, d)
	}
	fmt.Fprintf(&b, "(* %s: func %s%s%s", filepath.ToSlash(filepath.Join(t.Pkg, t.File)), recv, fd.Name.Name, strings.TrimPrefix(types.TypeString(gsig, types.RelativeTo(tr.pkg)), "func"))
	if t.Abstract != nil {
		b.WriteString("\n   abstracted:")
		for _, a := range t.Abstract {
			fmt.Fprintf(&b, " %s := (%s : %s)", a.Param, a.Expr, a.Type)
		}
	}
	if t.CASLoop {
		b.WriteString("\n   the pure step of the compare-and-swap loop: (value loaded, parameters) -> (value stored, result returned)")
	}
	fmt.Fprintf(&b, "\n   signature: %s -> %s%s *)\n", strings.Join(sig.args, " "), strings.Join(sig.res, " "), map[bool]string{true: " (may panic)", false: ""}[fx.panics]+map[bool]string{true: " (loops: first parameter fuel, OutOfFuel when exhausted)", false: ""}[fx.loops])
	fmt.Fprintf(&b, "Definition %s", t.Coq)
	for _, p := range params {
		fmt.Fprintf(&b, " (%s : %s)", p.name, p.coq)
	}
	fmt.Fprintf(&b, " : %s :=\n%s.\n", resType, indent(term))
	return b.String(), sig
}

// casLoop matches the shape described at target.CASLoop and returns the loop body between the
// load and the compare-and-swap, the loaded variable, the stored expression and the returned one.
func (tr *translator) casLoop(fd *ast.FuncDecl) ([]ast.Stmt, *ast.Ident, ast.Expr, ast.Expr) {
	stmts := fd.Body.List
	i := 0
	for ; i < len(stmts); i++ {
		es, ok := stmts[i].(*ast.ExprStmt)
		if !ok {
			break
		}
		c, ok := es.X.(*ast.CallExpr)
		if !ok {
			break
		}
		sel, ok := c.Fun.(*ast.SelectorExpr)
		if !ok || sel.Sel.Name != "Do" || tr.info.TypeOf(sel.X).String() != "sync.Once" {
			tr.failAt(es, "unsupported statement before the loop")
		}
	}
	if i != len(stmts)-1 {
		tr.failAt(fd, "compare-and-swap loop shape not recognised (statements around the loop)")
	}
	loop, ok := stmts[i].(*ast.ForStmt)
	if !ok || loop.Init != nil || loop.Cond != nil || loop.Post != nil || len(loop.Body.List) < 2 {
		tr.failAt(stmts[i], "compare-and-swap loop shape not recognised (for)")
	}
	atomicCall := func(e ast.Expr, name string, nargs int) *ast.CallExpr {
		c, ok := e.(*ast.CallExpr)
		if !ok || len(c.Args) != nargs {
			return nil
		}
		sel, ok := c.Fun.(*ast.SelectorExpr)
		if !ok {
			return nil
		}
		f, ok := tr.info.Uses[sel.Sel].(*types.Func)
		if !ok || f.Pkg() == nil || f.Pkg().Path() != "sync/atomic" || f.Name() != name {
			return nil
		}
		return c
	}
	first, ok := loop.Body.List[0].(*ast.AssignStmt)
	if !ok || first.Tok != token.DEFINE || len(first.Lhs) != 1 || len(first.Rhs) != 1 {
		tr.failAt(loop, "compare-and-swap loop shape not recognised (load)")
	}
	ld := atomicCall(first.Rhs[0], "LoadUint64", 1)
	curr, ok := first.Lhs[0].(*ast.Ident)
	if ld == nil || !ok {
		tr.failAt(first, "compare-and-swap loop shape not recognised (load)")
	}
	last, ok := loop.Body.List[len(loop.Body.List)-1].(*ast.IfStmt)
	if !ok || last.Init != nil || last.Else != nil || len(last.Body.List) != 1 {
		tr.failAt(loop, "compare-and-swap loop shape not recognised (cas)")
	}
	cas := atomicCall(last.Cond, "CompareAndSwapUint64", 3)
	if cas == nil || types.ExprString(cas.Args[0]) != types.ExprString(ld.Args[0]) {
		tr.failAt(last, "compare-and-swap loop shape not recognised (cas address)")
	}
	old, ok := cas.Args[1].(*ast.Ident)
	if !ok || tr.info.Uses[old] != tr.info.Defs[curr] {
		tr.failAt(last, "compare-and-swap loop shape not recognised (cas old value)")
	}
	ret, ok := last.Body.List[0].(*ast.ReturnStmt)
	if !ok || len(ret.Results) != 1 {
		tr.failAt(last, "compare-and-swap loop shape not recognised (return)")
	}
	mid := loop.Body.List[1 : len(loop.Body.List)-1]
	// the loaded variable must not be reassigned, and there must be no return/branch inside
	for _, s := range mid {
		ast.Inspect(s, func(n ast.Node) bool {
			switch n := n.(type) {
			case *ast.ReturnStmt, *ast.BranchStmt, *ast.ForStmt, *ast.RangeStmt, *ast.GoStmt, *ast.DeferStmt:
				tr.failAt(n, "unsupported statement inside the compare-and-swap loop")
			case *ast.AssignStmt:
				for _, l := range n.Lhs {
					if id, ok := l.(*ast.Ident); ok && tr.info.Uses[id] == tr.info.Defs[curr] {
						tr.failAt(n, "the loaded value is reassigned")
					}
				}
			}
			return true
		})
	}
	return mid, curr, cas.Args[2], ret.Results[0]
}

func indent(s string) string {
	lines := strings.Split(s, "\n")
	depth := 1
	var b strings.Builder
	for i, l := range lines {
		l = strings.TrimSpace(l)
		d := depth
		if strings.HasPrefix(l, ")") || l == "end" {
			depth--
			d = depth
		}
		if strings.HasSuffix(l, "(") || strings.HasSuffix(l, "=>") {
			depth++
		}
		if i > 0 {
			b.WriteString("\n")
		}
		b.WriteString(strings.Repeat("  ", d))
		b.WriteString(l)
	}
	return b.String()
}

func (tr *translator) generate(repo string, group int) (string, string) {
	var v, s strings.Builder
	v.WriteString("(* GENERATED by gotrans from the Go source in ../repo -- DO NOT EDIT.\n")
	v.WriteString("   Regenerated (write-if-changed) on every run; GoArithAgree.v is re-checked against it.\n")
	v.WriteString("   Every operation carries the semantics of its static Go type: wrap_<u|s><bits> at + - * <<,\n")
	v.WriteString("   unary - ^ and narrowing conversions; Z.quot/Z.rem for / %; Z.shiftr on the signed value for >>\n")
	v.WriteString("   (arithmetic for signed, logical for unsigned operands); constants are the exact values computed\n")
	v.WriteString("   by go/types; int, uint and uintptr are 64 bits wide. A function that can panic is option-valued.\n")
	v.WriteString("   Source files (SHA-256):\n")
	seen := map[string]bool{}
	var fnames []string
	for i := range targets {
		f := filepath.ToSlash(filepath.Join(targets[i].Pkg, targets[i].File))
		if targets[i].Group == group && !seen[f] {
			seen[f] = true
			fnames = append(fnames, f)
		}
	}
	sort.Strings(fnames)
	for _, f := range fnames {
		data, err := os.ReadFile(filepath.Join(repo, f))
		if err != nil {
			fail("%v", err)
		}
		h := fmt.Sprintf("%x", sha256.Sum256(data))
		fmt.Fprintf(&v, "     %s %s\n", h, f)
		fmt.Fprintf(&s, "# %s %s\n", h, f)
	}
	v.WriteString("*)\n")
	if group > 0 {
		v.WriteString("From Coq Require Import ZArith Bool List.\nImport ListNotations.\nFrom CV Require Import Base.GoSem Core.Arith Gen.GoArith.\n")
	} else {
		v.WriteString("From Coq Require Import ZArith Bool.\nFrom CV Require Import Base.GoSem Core.Arith.\n")
	}
	v.WriteString("Open Scope Z_scope.\nOpen Scope bool_scope.\n\n")
	var snames []string
	for n := range structs {
		snames = append(snames, n)
	}
	sort.Strings(snames)
	for _, n := range snames {
		sm := structs[n]
		fmt.Fprintf(&v, "(* Go struct %s {", n)
		for i, f := range sm.Fields {
			if i > 0 {
				v.WriteString("; ")
			}
			fmt.Fprintf(&v, "%s %s", f.Name, f.Type)
		}
		fmt.Fprintf(&v, "} is represented by the record %s (constructor %s) of Core/Arith.v; checked against the Go declaration. *)\n", n, sm.Ctor)
	}
	v.WriteString("\n")
	for _, n := range snames {
		sm := structs[n]
		fmt.Fprintf(&s, "struct %s %s", n, sm.Ctor)
		st := tr.pkgs[""].pkg.Scope().Lookup(n).Type().Underlying().(*types.Struct)
		for i, f := range sm.Fields {
			it, _ := intType(st.Field(i).Type())
			fmt.Fprintf(&s, " %s:%s", f.Name, it)
		}
		s.WriteString("\n")
	}
	for _, t := range tr.order {
		if t.Group != group {
			continue
		}
		def, sig := tr.translate(t)
		v.WriteString(def)
		v.WriteString("\n")
		p := "total"
		if tr.pan[t] {
			p = "panics"
		}
		if tr.hasLoop[t] {
			p += ",fuel"
		}
		fmt.Fprintf(&s, "%s %s %s %s : %s -> %s : %s\n", t.Coq, filepath.ToSlash(filepath.Join(t.Pkg, t.File)), orDash(t.Recv), t.Name, strings.Join(sig.args, " "), strings.Join(sig.res, " "), p)
	}
	tr.cur = nil
	return v.String(), s.String()
}

func orDash(s string) string {
	if s == "" {
		return "-"
	}
	return s
}
