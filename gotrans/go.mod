module gotrans

go 1.21
