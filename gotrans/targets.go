package main

// The configured list of Go functions that are translated into coq/Gen/GoArith.v.
// Every function called from a target must itself be a target (else the translator fails closed).

// abstraction replaces one Go expression (compared by its printed form) inside a method of a
// non-arithmetic receiver (*Segment, Struct, *Message) by a fresh parameter of the stated type,
// so that the method becomes a pure function of those quantities. The translator checks that
// the replaced expression has exactly the stated Go type.
type abstraction struct {
	Expr  string // printed form of the Go expression, e.g. "len(s.data)"
	Param string // name of the new parameter
	Type  string // Go type of the expression: a type name of package capnp or a universe type
	// NonNeg: the expression is a len(...): the validation harness only generates values >= 0
	// (recorded as type "len64" in the signature table; the Coq parameter is an ordinary int).
	NonNeg bool
}

type target struct {
	Pkg  string // package directory relative to the repo root, "" for the root package
	File string // file (in that directory) that must contain the declaration
	Recv string // receiver type name without '*', "" for plain functions
	Name string // Go name
	Coq  string // name of the generated definition
	// Abstract != nil: the receiver itself is dropped (any use of it outside the listed
	// expressions makes the translator fail) and the listed expressions become parameters,
	// placed before the ordinary parameters in this order.
	Abstract []abstraction
	// Group: 0 = coq/Gen/GoArith.v (the L0 arithmetic of Core/Arith.v), 1 = coq/Gen/GoArith2.v
	// (integer logic restated by the other models). A function may only call functions of its own
	// or an earlier group.
	Group int
	// Drop: names of parameters that are dropped like an abstracted receiver (slices, capnp
	// structs, ...): they may only be mentioned inside the Abstract expressions.
	Drop []string
	// CASLoop: the body must have the shape
	//   [calls of the form x.y.Do(...)]; for { curr := atomic.LoadUint64(&R); S...; if atomic.CompareAndSwapUint64(&R, curr, new) { return e } }
	// and the translated function is the pure step  (curr, params) -> (new, e).
	CASLoop bool
}

var targets = []target{
	// ---- address.go
	{File: "address.go", Recv: "address", Name: "addSize", Coq: "go_addSize"},
	{File: "address.go", Recv: "address", Name: "addSizeUnchecked", Coq: "go_addSizeUnchecked"},
	{File: "address.go", Recv: "address", Name: "element", Coq: "go_element"},
	{File: "address.go", Recv: "address", Name: "addOffset", Coq: "go_addOffset"},
	{File: "address.go", Recv: "Size", Name: "times", Coq: "go_times"},
	{File: "address.go", Recv: "Size", Name: "timesUnchecked", Coq: "go_timesUnchecked"},
	{File: "address.go", Recv: "Size", Name: "padToWord", Coq: "go_padToWord"},
	{File: "address.go", Recv: "ObjectSize", Name: "isZero", Coq: "go_isZero"},
	{File: "address.go", Recv: "ObjectSize", Name: "isOneByte", Coq: "go_isOneByte"},
	{File: "address.go", Recv: "ObjectSize", Name: "isValid", Coq: "go_isValid"},
	{File: "address.go", Recv: "ObjectSize", Name: "pointerSize", Coq: "go_pointerSize"},
	{File: "address.go", Recv: "ObjectSize", Name: "totalSize", Coq: "go_totalSize"},
	{File: "address.go", Recv: "ObjectSize", Name: "dataWordCount", Coq: "go_dataWordCount"},
	{File: "address.go", Recv: "ObjectSize", Name: "totalWordCount", Coq: "go_totalWordCount"},
	{File: "address.go", Recv: "BitOffset", Name: "offset", Coq: "go_BitOffset_offset"},
	{File: "address.go", Recv: "BitOffset", Name: "mask", Coq: "go_BitOffset_mask"},
	// ---- list.go
	{File: "list.go", Recv: "", Name: "bitListSize", Coq: "go_bitListSize"},
	// ---- rawpointer.go
	{File: "rawpointer.go", Recv: "pointerOffset", Name: "resolve", Coq: "go_resolve"},
	{File: "rawpointer.go", Recv: "", Name: "nearPointerOffset", Coq: "go_nearPointerOffset"},
	{File: "rawpointer.go", Recv: "", Name: "rawStructPointer", Coq: "go_rawStructPointer"},
	{File: "rawpointer.go", Recv: "", Name: "rawListPointer", Coq: "go_rawListPointer"},
	{File: "rawpointer.go", Recv: "", Name: "rawInterfacePointer", Coq: "go_rawInterfacePointer"},
	{File: "rawpointer.go", Recv: "", Name: "rawFarPointer", Coq: "go_rawFarPointer"},
	{File: "rawpointer.go", Recv: "", Name: "rawDoubleFarPointer", Coq: "go_rawDoubleFarPointer"},
	{File: "rawpointer.go", Recv: "", Name: "landingPadNearPointer", Coq: "go_landingPadNearPointer"},
	{File: "rawpointer.go", Recv: "rawPointer", Name: "pointerType", Coq: "go_pointerType"},
	{File: "rawpointer.go", Recv: "rawPointer", Name: "structSize", Coq: "go_structSize"},
	{File: "rawpointer.go", Recv: "rawPointer", Name: "listType", Coq: "go_listType"},
	{File: "rawpointer.go", Recv: "rawPointer", Name: "numListElements", Coq: "go_numListElements"},
	{File: "rawpointer.go", Recv: "rawPointer", Name: "elementSize", Coq: "go_elementSize"},
	{File: "rawpointer.go", Recv: "rawPointer", Name: "totalListSize", Coq: "go_totalListSize"},
	{File: "rawpointer.go", Recv: "rawPointer", Name: "offset", Coq: "go_rawPointer_offset"},
	{File: "rawpointer.go", Recv: "rawPointer", Name: "withOffset", Coq: "go_withOffset"},
	{File: "rawpointer.go", Recv: "rawPointer", Name: "farAddress", Coq: "go_farAddress"},
	{File: "rawpointer.go", Recv: "rawPointer", Name: "farSegment", Coq: "go_farSegment"},
	{File: "rawpointer.go", Recv: "rawPointer", Name: "otherPointerType", Coq: "go_otherPointerType"},
	{File: "rawpointer.go", Recv: "rawPointer", Name: "capabilityIndex", Coq: "go_capabilityIndex"},
	// ---- segment.go: functions of len(s.data)
	{File: "segment.go", Recv: "Segment", Name: "inBounds", Coq: "go_inBounds",
		Abstract: []abstraction{{Expr: "len(s.data)", Param: "len_data", Type: "int", NonNeg: true}}},
	{File: "segment.go", Recv: "Segment", Name: "regionInBounds", Coq: "go_regionInBounds",
		Abstract: []abstraction{{Expr: "len(s.data)", Param: "len_data", Type: "int", NonNeg: true}}},
	// ---- struct.go: functions of (p.seg != nil, p.off, p.size)
	{File: "struct.go", Recv: "Struct", Name: "pointerAddress", Coq: "go_pointerAddress",
		Abstract: []abstraction{{Expr: "p.off", Param: "p_off", Type: "address"}, {Expr: "p.size", Param: "p_size", Type: "ObjectSize"}}},
	{File: "struct.go", Recv: "Struct", Name: "bitInData", Coq: "go_bitInData",
		Abstract: []abstraction{{Expr: "p.seg != nil", Param: "seg_ok", Type: "bool"}, {Expr: "p.size", Param: "p_size", Type: "ObjectSize"}}},
	{File: "struct.go", Recv: "Struct", Name: "dataAddress", Coq: "go_dataAddress",
		Abstract: []abstraction{{Expr: "p.seg == nil", Param: "seg_nil", Type: "bool"}, {Expr: "p.off", Param: "p_off", Type: "address"}, {Expr: "p.size", Param: "p_size", Type: "ObjectSize"}}},
	// ---- message.go: the pure step of canRead's compare-and-swap loop
	{File: "message.go", Recv: "Message", Name: "canRead", Coq: "go_canRead_step", CASLoop: true},

	// ================= group 1 (coq/Gen/GoArith2.v): integer logic restated by the other models
	// ---- message.go (Core/Builder.v, Frame/Frame.v)
	{Group: 1, File: "address.go", Recv: "", Name: "maxAllocSize", Coq: "go_maxAllocSize"},
	{Group: 1, File: "message.go", Recv: "", Name: "nextAlloc", Coq: "go_nextAlloc"},
	{Group: 1, File: "message.go", Recv: "", Name: "hasCapacity", Coq: "go_hasCapacity", Drop: []string{"b"},
		Abstract: []abstraction{{Expr: "cap(b)", Param: "cap_b", Type: "int", NonNeg: true}, {Expr: "len(b)", Param: "len_b", Type: "int", NonNeg: true}}},
	{Group: 1, File: "message.go", Recv: "", Name: "streamHeaderSize", Coq: "go_streamHeaderSize"},
	{Group: 1, File: "message.go", Recv: "streamHeader", Name: "segmentSize", Coq: "go_segmentSize",
		Abstract: []abstraction{{Expr: "binary.LittleEndian.Uint32(h.b[4+i*4:])", Param: "word", Type: "uint32"}}},
	// ---- internal/strquote (Text/Strquote.v)
	{Group: 1, Pkg: "internal/strquote", File: "strquote.go", Recv: "", Name: "needsEscape", Coq: "go_needsEscape"},
	{Group: 1, Pkg: "internal/strquote", File: "strquote.go", Recv: "", Name: "hexDigit", Coq: "go_hexDigit"},
	// ---- internal/packed
	{Group: 1, Pkg: "internal/packed", File: "packed.go", Recv: "", Name: "min", Coq: "go_packed_min"},
	// ---- pogs (Pogs/PogsM.v)
	{Group: 1, Pkg: "pogs", File: "insert.go", Recv: "", Name: "isFieldInBounds", Coq: "go_isFieldInBounds", Drop: []string{"t"},
		Abstract: []abstraction{{Expr: "t.Which()", Param: "which", Type: "schema.Type_Which"}}},
	// ---- capnpc-go (Layout/Layout.v)
	{Group: 1, Pkg: "capnpc-go", File: "templateparams.go", Recv: "structUintFieldParams", Name: "Offset", Coq: "go_gen_Offset",
		Abstract: []abstraction{{Expr: "p.Field.Slot().Offset()", Param: "slot_off", Type: "uint32"}, {Expr: "p.Bits", Param: "bits", Type: "uint"}}},
	{Group: 1, Pkg: "capnpc-go", File: "capnpc-go.go", Recv: "", Name: "intbits", Coq: "go_intbits"},
	{Group: 1, Pkg: "capnpc-go", File: "capnpc-go.go", Recv: "", Name: "intFieldDefaultMask", Coq: "go_intFieldDefaultMask", Drop: []string{"v"},
		Abstract: []abstraction{{Expr: "v.IsValid()", Param: "valid", Type: "bool"}, {Expr: "v.Which()", Param: "which", Type: "schema.Value_Which"},
			{Expr: "intValue(v)", Param: "ival", Type: "int64"}}},
}

// structs maps the Go struct types that may occur in target functions to the Coq record that
// represents them (declared in coq/Core/Arith.v). The translator checks that the Go declaration
// has exactly these fields with these types, in this order.
type structMap struct {
	Ctor   string
	Fields []struct{ Name, Type string }
}

var structs = map[string]structMap{
	"ObjectSize": {Ctor: "mkOS", Fields: []struct{ Name, Type string }{{"DataSize", "Size"}, {"PointerCount", "uint16"}}},
}
