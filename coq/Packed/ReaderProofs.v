(* The streaming decoder (Reader.ReadWord) agrees with the one-shot decoder for every
   fast/slow-path oracle. *)
From CV Require Import Packed.Packed Packed.PackSpec Packed.PackedProofs.
From Coq Require Import ZifyBool ZifyNat.
Open Scope Z_scope.
Ltac Zify.zify_post_hook ::= Z.div_mod_to_equations.

Lemma word_choice fast tag s :
  (if fast && (8 <=? length s)%nat
   then (let '(w, i) := fast_bits 8 tag s 0 in Some (w, skipn i s))
   else take_bits 8 tag s) = take_bits 8 tag s.
Proof.
  destruct (fast && (8 <=? length s)%nat) eqn:E; [|reflexivity].
  apply andb_prop in E. destruct E as [_ E].
  change s with (skipn 0 s) at 3.
  rewrite (fast_bits_take_bits 8 tag s 0) by lia.
  destruct (fast_bits 8 tag s 0). reflexivity.
Qed.

(* what remains to be produced from reader state [st] and remaining input [inp] *)
Definition expected (st : rstate) (inp : list Z) : option (list Z) :=
  let k := (8 * Z.to_nat (r_literal st))%nat in
  if (length inp <? k)%nat then None
  else option_map (fun r => zeros (8 * Z.to_nat (r_zeroes st)) ++ firstn k inp ++ r)
                  (unpack_s true (skipn k inp)).

Definition agrees (res : option (list Z * rerr)) (exp : option (list Z)) : Prop :=
  match exp with
  | Some out => res = Some (out, EOF)
  | None => exists o, res = Some (o, UnexpectedEOF)
  end.

Lemma agrees_cons w res exp :
  agrees res exp ->
  agrees (match res with Some (out, e) => Some (w ++ out, e) | None => None end)
         (option_map (fun r => w ++ r) exp).
Proof.
  unfold agrees. destruct exp as [out|]; simpl.
  - intros ->. reflexivity.
  - intros [o ->]. eexists; reflexivity.
Qed.

Lemma firstn_add {A} (l : list A) a b : firstn (a + b) l = firstn a l ++ firstn b (skipn a l).
Proof.
  revert l; induction a as [|a IH]; intros l; [reflexivity|].
  destruct l as [|x l]; [now rewrite skipn_nil, !firstn_nil|].
  simpl. now rewrite IH.
Qed.

Theorem read_words_agree : forall fuel orc k st inp,
  r_err st = None -> 0 <= r_zeroes st < 256 -> 0 <= r_literal st < 256 -> bytes_ok inp ->
  (256 * length inp + Z.to_nat (r_zeroes st) + Z.to_nat (r_literal st) + 2 <= fuel)%nat ->
  agrees (read_words true fuel orc k st inp) (expected st inp).
Proof.
  induction fuel as [|fuel IH]; intros orc k [z l e] inp He Hz Hl Hb Hf; simpl in He, Hz, Hl, Hf; [lia|].
  subst e. cbn [read_words]. unfold read_word. cbn [r_err r_zeroes r_literal].
  destruct (0 <? z) eqn:Ez.
  { (* a pending zero word *)
    specialize (IH orc (S k) (mkR (z - 1) l None) inp eq_refl).
    cbn [r_zeroes r_literal] in IH.
    assert (A : agrees (read_words true fuel orc (S k) (mkR (z - 1) l None) inp)
                       (expected (mkR (z - 1) l None) inp)) by (apply IH; (assumption || lia)).
    apply (agrees_cons (zeros 8)) in A.
    replace (expected (mkR z l None) inp)
      with (option_map (fun r => zeros 8 ++ r) (expected (mkR (z - 1) l None) inp)); [exact A|].
    unfold expected. cbn [r_zeroes r_literal].
    destruct (length inp <? 8 * Z.to_nat l)%nat; [reflexivity|].
    destruct (unpack_s true (skipn (8 * Z.to_nat l) inp)); [|reflexivity].
    cbn [option_map]. f_equal. rewrite app_assoc, zeros_app. f_equal. f_equal. lia. }
  destruct (0 <? l) eqn:El.
  { (* inside a literal run *)
    assert (z = 0) by lia. subst z.
    destruct (8 <=? length inp)%nat eqn:E8.
    - specialize (IH orc (S k) (mkR 0 (l - 1) None) (skipn 8 inp) eq_refl).
      cbn [r_zeroes r_literal] in IH.
      assert (A : agrees (read_words true fuel orc (S k) (mkR 0 (l - 1) None) (skipn 8 inp))
                         (expected (mkR 0 (l - 1) None) (skipn 8 inp))).
      { apply IH; try lia; [now apply bytes_ok_skipn|rewrite skipn_length; lia]. }
      apply (agrees_cons (firstn 8 inp)) in A.
      replace (expected (mkR 0 l None) inp)
        with (option_map (fun r => firstn 8 inp ++ r) (expected (mkR 0 (l - 1) None) (skipn 8 inp)));
        [exact A|].
      unfold expected. cbn [r_zeroes r_literal]. rewrite skipn_length.
      replace (8 * Z.to_nat l)%nat with (8 + 8 * Z.to_nat (l - 1))%nat by lia.
      destruct (length inp <? 8 + 8 * Z.to_nat (l - 1))%nat eqn:E1.
      + replace (length inp - 8 <? 8 * Z.to_nat (l - 1))%nat with true by lia. reflexivity.
      + replace (length inp - 8 <? 8 * Z.to_nat (l - 1))%nat with false by lia.
        rewrite skipn_skipn'. rewrite (Nat.add_comm (8 * Z.to_nat (l - 1)) 8).
        destruct (unpack_s true (skipn (8 + 8 * Z.to_nat (l - 1)) inp)); [|reflexivity].
        cbn [option_map]. f_equal. change (zeros (8 * Z.to_nat 0)) with (@nil Z). cbn [app].
        rewrite firstn_add, app_assoc. reflexivity.
    - assert (X : expected (mkR 0 l None) inp = None).
      { unfold expected. cbn [r_literal]. replace (length inp <? 8 * Z.to_nat l)%nat with true by lia.
        reflexivity. }
      rewrite X. destruct inp; eexists; reflexivity. }
  (* between items *)
  assert (z = 0) by lia. assert (l = 0) by lia. subst z l.
  assert (X0 : forall s, expected (mkR 0 0 None) s = unpack_s true s).
  { intros s. unfold expected. cbn [r_zeroes r_literal]. change (8 * Z.to_nat 0)%nat with O.
    cbn [Nat.ltb Nat.leb skipn firstn zeros repeat app]. destruct (unpack_s true s); reflexivity. }
  destruct inp as [|tag s].
  { rewrite X0. reflexivity. }
  rewrite word_choice. rewrite X0, unpack_s_cons.
  inversion Hb as [|? ? Htag Hs]; subst. cbn [length] in Hf.
  destruct (take_bits 8 tag s) as [[w s1]|] eqn:E; [|eexists; reflexivity].
  apply take_bits_length in E. destruct E as (Hw & Hle & pre & Hpre & Hpl).
  assert (Hs1 : bytes_ok s1) by (subst s; eapply bytes_ok_suffix; eassumption).
  destruct (tag =? 0).
  { destruct s1 as [|n s2].
    - (* count byte missing: the word is handed out, the error on the next call *)
      destruct fuel as [|fuel]; [lia|]. eexists. reflexivity.
    - inversion Hs1 as [|? ? Hn Hs2]; subst. unfold byte_ok in Hn. cbn [length] in Hle.
      specialize (IH orc (S k) (mkR n 0 None) s2 eq_refl). cbn [r_zeroes r_literal] in IH.
      assert (A : agrees (read_words true fuel orc (S k) (mkR n 0 None) s2)
                         (expected (mkR n 0 None) s2)) by (apply IH; (assumption || lia)).
      apply (agrees_cons w) in A.
      replace (option_map (fun r => w ++ zeros (8 * Z.to_nat n) ++ r) (unpack_s true s2))
        with (option_map (fun r => w ++ r) (expected (mkR n 0 None) s2)); [exact A|].
      unfold expected. cbn [r_zeroes r_literal]. change (8 * Z.to_nat 0)%nat with O.
      cbn [Nat.ltb Nat.leb skipn firstn app]. destruct (unpack_s true s2); reflexivity. }
  destruct (tag =? 255).
  { destruct s1 as [|n s2].
    - destruct fuel as [|fuel]; [lia|]. eexists. reflexivity.
    - inversion Hs1 as [|? ? Hn Hs2]; subst. unfold byte_ok in Hn. cbn [length] in Hle.
      specialize (IH orc (S k) (mkR 0 n None) s2 eq_refl). cbn [r_zeroes r_literal] in IH.
      assert (A : agrees (read_words true fuel orc (S k) (mkR 0 n None) s2)
                         (expected (mkR 0 n None) s2)) by (apply IH; (assumption || lia)).
      apply (agrees_cons w) in A. cbv zeta. rewrite andb_true_l.
      match goal with |- agrees _ ?e =>
        replace e with (option_map (fun r => w ++ r) (expected (mkR 0 n None) s2)); [exact A|] end.
      unfold expected. cbn [r_zeroes r_literal].
      destruct (length s2 <? 8 * Z.to_nat n)%nat eqn:E2; [reflexivity|].
      destruct (unpack_s true (skipn (8 * Z.to_nat n) s2)); [|reflexivity].
      cbn [option_map]. replace (8 * Z.to_nat n - length s2)%nat with O by lia.
      change (zeros (8 * Z.to_nat 0)) with (@nil Z). reflexivity. }
  specialize (IH orc (S k) (mkR 0 0 None) s1 eq_refl). cbn [r_zeroes r_literal] in IH.
  assert (A : agrees (read_words true fuel orc (S k) (mkR 0 0 None) s1)
                     (expected (mkR 0 0 None) s1)) by (apply IH; (assumption || lia)).
  apply (agrees_cons w) in A. rewrite X0 in A. exact A.
Qed.

(* for every path oracle the streaming decoder returns exactly the one-shot output with a
   clean end of stream when the one-shot decoder accepts, and an unexpected-EOF error
   when it rejects *)
Theorem stream_agrees orc inp : bytes_ok inp ->
  match unpack inp with
  | Some out => stream_unpack true orc inp = Some (out, EOF)
  | None => exists o, stream_unpack true orc inp = Some (o, UnexpectedEOF)
  end.
Proof.
  intros Hb. pose proof (read_words_agree (reader_fuel inp) orc 0%nat r_init inp eq_refl) as H.
  cbn [r_init r_zeroes r_literal] in H.
  assert (A : agrees (read_words true (reader_fuel inp) orc 0 r_init inp) (expected r_init inp)).
  { apply H; try lia; [assumption|]. unfold reader_fuel. lia. }
  unfold expected in A. cbn [r_init r_zeroes r_literal] in A. change (8 * Z.to_nat 0)%nat with O in A.
  cbn [Nat.ltb Nat.leb skipn firstn zeros repeat app] in A.
  unfold stream_unpack, unpack. fold (unpack_s true inp).
  destruct (unpack_s true inp); exact A.
Qed.

(* F08 as found: a literal run cut at a word boundary ends the stream with a clean EOF *)
Example reader_prefix_refuted :
  exists p, unpack p = None /\ stream_unpack false (fun _ => false) p = Some (repeat 1 8, EOF).
Proof. exists [255;1;1;1;1;1;1;1;1;1]. split; vm_compute; reflexivity. Qed.
