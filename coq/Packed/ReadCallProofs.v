(* Reader.Read (the byte-granular interface over ReadWord) agrees with the one-shot decoder:
   for every sequence of request sizes (each >= 1), every fast-path oracle and every
   short-read oracle, the concatenation of what the Read calls return and the final error
   equal the output / verdict of [unpack].

   Route: [read_word_spec] (one ReadWord step against the denotation [expected'] of the
   reader state, with a strictly decreasing measure), [read_loop_spec] / [read_call_spec]
   (one Read call against the denotation [D] of the byte-level state), then induction on
   the fuel with the measure [bmeasure] = 9 * reader measure + pending bytes of the word
   buffer. *)
From CV Require Import Packed.Packed Packed.PackSpec Packed.PackedProofs Packed.ReaderProofs.
From Coq Require Import ZifyBool ZifyNat.
Open Scope Z_scope.
Ltac Zify.zify_post_hook ::= Z.div_mod_to_equations.

(* ------------------------------------------------------------ generic *)

(* [intros [= <- ...]] would normalise [firstn 8 inp] etc.; split tuples by hand *)
Ltac inj3 :=
  let H := fresh "H" in
  intros H; apply pair_equal_spec in H; destruct H as [H <-];
  apply pair_equal_spec in H; destruct H as [<- <-].
Ltac inj5 :=
  let H := fresh "H" in
  intros H; apply pair_equal_spec in H; destruct H as [H <-];
  apply pair_equal_spec in H; destruct H as [H <-];
  apply pair_equal_spec in H; destruct H as [H <-];
  apply pair_equal_spec in H; destruct H as [<- <-].

Lemma option_map_app_nil (x : option (list Z)) : option_map (app []) x = x.
Proof. destruct x; reflexivity. Qed.

Lemma option_map_app_app (a b : list Z) x :
  option_map (app a) (option_map (app b) x) = option_map (app (a ++ b)) x.
Proof. destruct x; cbn [option_map]; [rewrite app_assoc|]; reflexivity. Qed.

Lemma skipn_firstn_length {A} n (l : list A) : skipn (length (firstn n l)) l = skipn n l.
Proof.
  rewrite firstn_length. destruct (Nat.le_ge_cases n (length l)) as [H|H].
  - now rewrite Nat.min_l.
  - rewrite Nat.min_r by assumption. now rewrite !skipn_all2 by lia.
Qed.

(* ------------------------------------------------------------ one ReadWord step *)

(* reader states that can arise: counters are bytes; only UnexpectedEOF is ever parked *)
Definition rvalid (st : rstate) : Prop :=
  0 <= r_zeroes st < 256 /\ 0 <= r_literal st < 256 /\
  (forall e, r_err st = Some e -> e = UnexpectedEOF).

(* what remains to be produced; a parked error means "the stream is invalid" *)
Definition expected' (st : rstate) (inp : list Z) : option (list Z) :=
  match r_err st with Some _ => None | None => expected st inp end.

Definition rmeasure (st : rstate) (inp : list Z) : nat :=
  (256 * length inp + Z.to_nat (r_zeroes st) + Z.to_nat (r_literal st)
   + match r_err st with Some _ => 1 | None => 0 end)%nat.

Lemma expected_idle s : expected (mkR 0 0 None) s = unpack_s true s.
Proof.
  unfold expected. cbn [r_zeroes r_literal]. change (8 * Z.to_nat 0)%nat with O.
  cbn [Nat.ltb Nat.leb skipn firstn zeros repeat app]. destruct (unpack_s true s); reflexivity.
Qed.

Lemma expected_zero z l inp : 0 < z ->
  expected (mkR z l None) inp = option_map (app (zeros 8)) (expected (mkR (z - 1) l None) inp).
Proof.
  intros Hz. unfold expected. cbn [r_zeroes r_literal].
  destruct (length inp <? 8 * Z.to_nat l)%nat; [reflexivity|].
  destruct (unpack_s true (skipn (8 * Z.to_nat l) inp)); [|reflexivity].
  cbn [option_map]. f_equal. symmetry. rewrite app_assoc, zeros_app. f_equal. f_equal. lia.
Qed.

Lemma expected_lit l inp : 0 < l -> (8 <= length inp)%nat ->
  expected (mkR 0 l None) inp =
  option_map (app (firstn 8 inp)) (expected (mkR 0 (l - 1) None) (skipn 8 inp)).
Proof.
  intros Hl H8. unfold expected. cbn [r_zeroes r_literal]. rewrite skipn_length.
  replace (8 * Z.to_nat l)%nat with (8 + 8 * Z.to_nat (l - 1))%nat by lia.
  destruct (length inp <? 8 + 8 * Z.to_nat (l - 1))%nat eqn:E1.
  - replace (length inp - 8 <? 8 * Z.to_nat (l - 1))%nat with true by lia. reflexivity.
  - replace (length inp - 8 <? 8 * Z.to_nat (l - 1))%nat with false by lia.
    rewrite skipn_skipn'. rewrite (Nat.add_comm (8 * Z.to_nat (l - 1)) 8).
    destruct (unpack_s true (skipn (8 + 8 * Z.to_nat (l - 1)) inp)); [|reflexivity].
    cbn [option_map]. f_equal. change (zeros (8 * Z.to_nat 0)) with (@nil Z). cbn [app].
    rewrite firstn_add, app_assoc. reflexivity.
Qed.

Lemma expected_lit_short z l inp : 0 < l -> (length inp < 8)%nat ->
  expected (mkR z l None) inp = None.
Proof.
  intros Hl H8. unfold expected. cbn [r_literal].
  replace (length inp <? 8 * Z.to_nat l)%nat with true by lia. reflexivity.
Qed.

(* One ReadWord call (repaired code) from a valid state:
   - a word: it is the next 8 bytes of the denotation, the new state is valid (it may carry a
     parked error) and the measure went down;
   - an error: EOF exactly when the denotation is the empty output, UnexpectedEOF exactly
     when the remaining stream is invalid. *)
Lemma read_word_spec fast st inp st' inp' out :
  rvalid st -> bytes_ok inp ->
  read_word true fast st inp = (st', inp', out) ->
  match out with
  | RWord w =>
      length w = 8%nat /\ rvalid st' /\ bytes_ok inp' /\
      expected' st inp = option_map (app w) (expected' st' inp') /\
      (rmeasure st' inp' < rmeasure st inp)%nat
  | RErr e =>
      match expected' st inp with
      | Some o => o = [] /\ e = EOF
      | None => e = UnexpectedEOF
      end
  end.
Proof.
  destruct st as [z l e]. unfold rvalid. cbn [r_zeroes r_literal r_err].
  intros (Hz & Hl & He) Hb. unfold read_word. cbn [r_err r_zeroes r_literal].
  destruct e as [e|].
  { inj3. unfold expected'. cbn [r_err]. now apply He. }
  destruct (0 <? z) eqn:Ez.
  { inj3. unfold expected', rvalid, rmeasure. cbn [r_err r_zeroes r_literal].
    split; [apply length_zeros|]. split; [repeat split; try lia; discriminate|].
    split; [assumption|]. split; [apply expected_zero; lia|lia]. }
  assert (z = 0) by lia. subst z.
  destruct (0 <? l) eqn:El.
  { destruct (8 <=? length inp)%nat eqn:E8.
    - inj3. unfold expected', rvalid, rmeasure. cbn [r_err r_zeroes r_literal].
      split; [rewrite firstn_length; lia|]. split; [repeat split; try lia; discriminate|].
      split; [now apply bytes_ok_skipn|]. split; [apply expected_lit; lia|].
      rewrite skipn_length. lia.
    - assert (X : expected' (mkR 0 l None) inp = None).
      { unfold expected'. cbn [r_err]. apply expected_lit_short; lia. }
      destruct inp; inj3; rewrite X; reflexivity. }
  assert (l = 0) by lia. subst l.
  destruct inp as [|tag s].
  { inj3. unfold expected'. cbn [r_err]. rewrite expected_idle, unpack_s_nil.
    split; reflexivity. }
  rewrite word_choice.
  assert (X : expected' (mkR 0 0 None) (tag :: s) = unpack_s true (tag :: s)).
  { unfold expected'. cbn [r_err]. apply expected_idle. }
  rewrite X, unpack_s_cons. clear X.
  inversion Hb as [|? ? Htag Hs]; subst.
  destruct (take_bits 8 tag s) as [[w s1]|] eqn:E; [|inj3; reflexivity].
  apply take_bits_length in E. destruct E as (Hw & Hle & pre & Hpre & Hpl).
  assert (Hs1 : bytes_ok s1) by (subst s; eapply bytes_ok_suffix; eassumption).
  destruct (tag =? 0).
  { destruct s1 as [|n s2]; inj3.
    - (* count byte missing: the word is handed out, the error is parked *)
      unfold expected', rvalid, rmeasure. cbn [r_err r_zeroes r_literal length].
      split; [assumption|]. split; [repeat split; try lia; now intros ? [= <-]|].
      split; [constructor|]. split; [reflexivity|lia].
    - inversion Hs1 as [|? ? Hn Hs2]; subst. unfold byte_ok in Hn. cbn [length] in Hle.
      unfold expected', rvalid, rmeasure. cbn [r_err r_zeroes r_literal length].
      split; [assumption|]. split; [repeat split; try lia; discriminate|].
      split; [assumption|]. split; [|lia].
      unfold expected. cbn [r_zeroes r_literal]. change (8 * Z.to_nat 0)%nat with O.
      cbn [Nat.ltb Nat.leb skipn firstn app]. destruct (unpack_s true s2); reflexivity. }
  destruct (tag =? 255).
  { destruct s1 as [|n s2]; inj3.
    - unfold expected', rvalid, rmeasure. cbn [r_err r_zeroes r_literal length].
      split; [assumption|]. split; [repeat split; try lia; now intros ? [= <-]|].
      split; [constructor|]. split; [reflexivity|lia].
    - inversion Hs1 as [|? ? Hn Hs2]; subst. unfold byte_ok in Hn. cbn [length] in Hle.
      unfold expected', rvalid, rmeasure. cbn [r_err r_zeroes r_literal length].
      split; [assumption|]. split; [repeat split; try lia; discriminate|].
      split; [assumption|]. split; [|lia].
      cbv zeta. rewrite andb_true_l. unfold expected. cbn [r_zeroes r_literal].
      destruct (length s2 <? 8 * Z.to_nat n)%nat eqn:E2; [reflexivity|].
      destruct (unpack_s true (skipn (8 * Z.to_nat n) s2)); [|reflexivity].
      cbn [option_map]. replace (8 * Z.to_nat n - length s2)%nat with O by lia.
      change (zeros (8 * Z.to_nat 0)) with (@nil Z). reflexivity. }
  inj3.
  unfold expected', rvalid, rmeasure. cbn [r_err r_zeroes r_literal length].
  split; [assumption|]. split; [repeat split; try lia; discriminate|].
  split; [assumption|]. split; [|lia].
  rewrite expected_idle. reflexivity.
Qed.

(* ------------------------------------------------------------ one Read call *)

Definition bvalid (b : bstate) : Prop :=
  rvalid (b_r b) /\ length (b_word b) = 8%nat /\ (b_idx b <= 8)%nat.

(* denotation of the byte-level state: the unread tail of the word buffer, then whatever the
   word reader still has to produce *)
Definition D (b : bstate) (inp : list Z) : option (list Z) :=
  option_map (app (skipn (b_idx b) (b_word b))) (expected' (b_r b) inp).

Definition bmeasure (b : bstate) (inp : list Z) : nat :=
  (9 * rmeasure (b_r b) inp + (8 - b_idx b))%nat.

Lemma D_idx8 b inp : bvalid b -> b_idx b = 8%nat -> D b inp = expected' (b_r b) inp.
Proof.
  intros (_ & Hw & _) Hi. unfold D. rewrite Hi, skipn_all2 by lia. apply option_map_app_nil.
Qed.

Lemma read_loop_spec : forall fuel orc k st inp want got k' st' inp' got' oe,
  bvalid st -> ((0 < want)%nat -> b_idx st = 8%nat) -> bytes_ok inp -> (want < fuel)%nat ->
  read_loop true fuel orc k st inp want got = (k', st', inp', got', oe) ->
  exists g, got' = got ++ g /\
  match oe with
  | None =>
      bvalid st' /\ bytes_ok inp' /\
      D st inp = option_map (app g) (D st' inp') /\
      (bmeasure st' inp' <= bmeasure st inp)%nat /\
      (g <> [] -> (bmeasure st' inp' < bmeasure st inp)%nat) /\
      ((0 < want)%nat \/ got <> [] -> got' <> [])
  | Some e =>
      match D st inp with
      | Some o => o = g /\ e = EOF
      | None => e = UnexpectedEOF
      end
  end.
Proof.
  induction fuel as [|fuel IH]; intros orc k st inp want got k' st' inp' got' oe Hv Hi Hb Hf;
    [lia|].
  cbn [read_loop].
  destruct (want =? 0)%nat eqn:Ew.
  { inj5. exists []. rewrite app_nil_r. split; [reflexivity|].
    split; [assumption|]. split; [assumption|]. split; [now rewrite option_map_app_nil|].
    split; [lia|]. split; [congruence|]. intros [H|H]; [lia|assumption]. }
  destruct (snd (orc k) && negb (length got =? 0)%nat) eqn:Es.
  { inj5. exists []. rewrite app_nil_r. split; [reflexivity|].
    split; [assumption|]. split; [assumption|]. split; [now rewrite option_map_app_nil|].
    split; [lia|]. split; [congruence|]. intros _ ->. cbn [length] in Es.
    rewrite andb_false_r in Es. discriminate. }
  assert (Hi8 : b_idx st = 8%nat) by (apply Hi; lia).
  pose proof Hv as (Hvr & Hvw & _).
  rewrite (D_idx8 st inp Hv Hi8).
  destruct (read_word true (fst (orc k)) (b_r st) inp) as [[r' i'] [w|e]] eqn:Er;
    apply read_word_spec in Er; try assumption.
  2:{ (* ReadWord failed *)
    inj5. exists []. rewrite app_nil_r. split; [reflexivity|]. exact Er. }
  destruct Er as (Hw & Hv' & Hb' & He & Hm).
  assert (Hvn : bvalid (mkB r' (b_word st) 8)).
  { unfold bvalid. cbn [b_r b_word b_idx]. split; [assumption|]. split; [assumption|lia]. }
  assert (Hmn : (bmeasure (mkB r' (b_word st) 8) i' + 9 <= bmeasure st inp)%nat).
  { unfold bmeasure. cbn [b_r b_idx]. lia. }
  destruct (8 <=? want)%nat eqn:E8.
  - (* whole word copied to the caller, continue *)
    intros H. apply IH in H; try assumption; [|reflexivity|lia].
    destruct H as (g & Hg & H). exists (w ++ g). split; [now rewrite Hg, app_assoc|].
    rewrite (D_idx8 _ i' Hvn eq_refl) in H. cbn [b_r] in H. rewrite He.
    destruct oe as [e|].
    + destruct (expected' r' i') as [o|]; cbn [option_map]; [|exact H].
      destruct H as (-> & ->). split; reflexivity.
    + destruct H as (Hv'' & Hb'' & HD & Hle & _ & Hne).
      split; [assumption|]. split; [assumption|].
      split; [rewrite HD; apply option_map_app_app|].
      split; [lia|]. split; [intros _; lia|].
      intros _. apply Hne. right. destruct w; [discriminate Hw|].
      destruct got; discriminate.
  - (* partial word: the rest stays in the word buffer *)
    inj5. exists (firstn want w). split; [reflexivity|].
    assert (Hvp : bvalid (mkB r' w want)).
    { unfold bvalid. cbn [b_r b_word b_idx]. split; [assumption|]. split; [assumption|lia]. }
    split; [assumption|]. split; [assumption|].
    split.
    { rewrite He. unfold D. cbn [b_r b_word b_idx]. rewrite option_map_app_app, firstn_skipn.
      reflexivity. }
    assert (Hlt : (bmeasure (mkB r' w want) i' < bmeasure st inp)%nat).
    { unfold bmeasure in *. cbn [b_r b_idx] in *. lia. }
    split; [lia|]. split; [intros _; exact Hlt|].
    intros _ Hnil. apply (f_equal (@length Z)) in Hnil.
    rewrite app_length, firstn_length in Hnil. cbn [length] in Hnil. lia.
Qed.

(* One Read(p) call with len(p) = n >= 1 from a valid state:
   - no error: at least one byte is returned, the bytes are the next bytes of the denotation,
     the measure went down;
   - an error: the bytes returned with it complete the denotation and the error is EOF, or
     the remaining stream is invalid and the error is UnexpectedEOF. *)
Lemma read_call_spec orc k st inp n k' st' inp' got oe :
  bvalid st -> bytes_ok inp -> (0 < n)%nat ->
  read_call true orc k st inp n = (k', st', inp', got, oe) ->
  match oe with
  | None =>
      got <> [] /\ bvalid st' /\ bytes_ok inp' /\
      D st inp = option_map (app got) (D st' inp') /\
      (bmeasure st' inp' < bmeasure st inp)%nat
  | Some e =>
      match D st inp with
      | Some o => o = got /\ e = EOF
      | None => e = UnexpectedEOF
      end
  end.
Proof.
  intros Hv Hb Hn. pose proof Hv as (Hvr & Hvw & Hvi). unfold read_call.
  set (tail := skipn (b_idx st) (b_word st)).
  set (pre := firstn n tail).
  set (st1 := mkB (b_r st) (b_word st) (b_idx st + length pre)).
  assert (Htl : length tail = (8 - b_idx st)%nat) by (unfold tail; rewrite skipn_length; lia).
  assert (Hpl : length pre = Nat.min n (8 - b_idx st)) by (unfold pre; rewrite firstn_length; lia).
  assert (Hv1 : bvalid st1).
  { unfold bvalid, st1. cbn [b_r b_word b_idx]. split; [assumption|]. split; [assumption|lia]. }
  assert (HD1 : D st inp = option_map (app pre) (D st1 inp)).
  { unfold D, st1. cbn [b_r b_word b_idx]. rewrite option_map_app_app. f_equal. f_equal.
    fold tail. rewrite Nat.add_comm, <- skipn_skipn'. fold tail. unfold pre.
    rewrite skipn_firstn_length, firstn_skipn. reflexivity. }
  assert (Hm1 : (bmeasure st1 inp + length pre = bmeasure st inp)%nat).
  { unfold bmeasure, st1. cbn [b_r b_idx]. lia. }
  intros H. apply read_loop_spec in H; try assumption; [| |lia].
  2:{ intros Hw. unfold st1. cbn [b_idx]. lia. }
  destruct H as (g & -> & H). rewrite HD1.
  destruct oe as [e|].
  - destruct (D st1 inp) as [o|]; cbn [option_map]; [|exact H].
    destruct H as (-> & ->). split; reflexivity.
  - destruct H as (Hv' & Hb' & HD & Hle & Hlt & Hne).
    split.
    { apply Hne. destruct (Nat.eq_dec (length pre) 0) as [E|E]; [left; lia|].
      right. intros ->. apply E. reflexivity. }
    split; [assumption|]. split; [assumption|].
    split; [rewrite HD; apply option_map_app_app|].
    destruct (Nat.eq_dec (length pre) 0) as [E|E]; [|lia].
    assert (Hg : g <> []).
    { intros ->. destruct pre; [|discriminate E].
      assert (X : (0 < n - length (@nil Z))%nat \/ @nil Z <> []) by (left; cbn [length]; lia).
      apply Hne in X. apply X. reflexivity. }
    apply Hlt in Hg. lia.
Qed.

(* ------------------------------------------------------------ all Read calls *)

Theorem read_calls_spec : forall fuel orc k st inp sizes j,
  bvalid st -> bytes_ok inp -> (bmeasure st inp < fuel)%nat ->
  agrees (read_calls true fuel orc k st inp sizes j) (D st inp).
Proof.
  induction fuel as [|fuel IH]; intros orc k st inp sizes j Hv Hb Hf; [lia|].
  cbn [read_calls].
  destruct (read_call true orc k st inp (S (sizes j))) as [[[[k' st'] inp'] got] [e|]] eqn:Ec;
    apply read_call_spec in Ec; try assumption; try lia.
  - unfold agrees. destruct (D st inp) as [o|].
    + destruct Ec as (-> & ->). reflexivity.
    + subst e. eexists. reflexivity.
  - destruct Ec as (_ & Hv' & Hb' & HD & Hm).
    assert (A : agrees (read_calls true fuel orc k' st' inp' sizes (S j)) (D st' inp'))
      by (apply IH; (assumption || lia)).
    apply (agrees_cons got) in A. rewrite HD. exact A.
Qed.

(* enough fuel for any run of Read calls: 9 * 256 per input byte *)
Definition read_fuel (inp : list Z) : nat := (2304 * length inp + 1)%nat.

Lemma D_init inp : D b_init inp = unpack inp.
Proof.
  unfold D, b_init, expected'. cbn [b_r b_word b_idx r_init r_err].
  fold r_init. change r_init with (mkR 0 0 None). rewrite expected_idle.
  change (skipn 8 (zeros 8)) with (@nil Z). apply option_map_app_nil.
Qed.

(* For every sequence of request sizes (each request is S (sizes j) >= 1 bytes), every
   fast-path oracle and every short-read oracle: the concatenation of the bytes returned by
   the Read calls and the final error are the one-shot decoder's output and verdict. *)
Theorem read_calls_agree : forall orc sizes inp, bytes_ok inp ->
  forall fuel, (2304 * length inp + 1 <= fuel)%nat ->
  match unpack inp with
  | Some out => read_calls true fuel orc 0 b_init inp sizes 0 = Some (out, EOF)
  | None => exists o, read_calls true fuel orc 0 b_init inp sizes 0 = Some (o, UnexpectedEOF)
  end.
Proof.
  intros orc sizes inp Hb fuel Hf.
  assert (A : agrees (read_calls true fuel orc 0 b_init inp sizes 0) (D b_init inp)).
  { apply read_calls_spec; [|assumption|].
    - unfold bvalid, rvalid, b_init, r_init. cbn [b_r b_word b_idx r_zeroes r_literal r_err].
      split; [repeat split; try lia; discriminate|]. split; [reflexivity|lia].
    - unfold bmeasure, rmeasure, b_init, r_init. cbn [b_r b_idx r_zeroes r_literal r_err]. lia. }
  rewrite D_init in A. exact A.
Qed.

Corollary read_calls_agree_fuel orc sizes inp : bytes_ok inp ->
  match unpack inp with
  | Some out => read_calls true (read_fuel inp) orc 0 b_init inp sizes 0 = Some (out, EOF)
  | None => exists o, read_calls true (read_fuel inp) orc 0 b_init inp sizes 0
                      = Some (o, UnexpectedEOF)
  end.
Proof. intros Hb. apply read_calls_agree; [assumption|]. unfold read_fuel. lia. Qed.

(* ------------------------------------------------------------ non-vacuity *)

(* request sizes 1,3,8,9 cycling (read_calls asks for S (sizes j) bytes); both oracles vary *)
Definition ex_sizes (j : nat) : nat := nth (j mod 4) [0; 2; 7; 8]%nat 0%nat.
Definition ex_orc (k : nat) : bool * bool := (Nat.even k, Nat.even (k / 2)).

(* a one-byte word, a zero run of 3 words, a literal run of 2 words, a 3-byte word *)
Definition ex_inp : list Z :=
  [16; 5;  0; 2;  255; 1; 2; 3; 4; 5; 6; 7; 8; 2;
   9; 9; 9; 9; 0; 0; 9; 9;  7; 7; 7; 7; 7; 7; 7; 7;  7; 1; 2; 3].

Example read_calls_example :
  bytes_ok ex_inp /\
  unpack ex_inp = Some ([0; 0; 0; 0; 5; 0; 0; 0] ++ zeros 24 ++ [1; 2; 3; 4; 5; 6; 7; 8] ++
                        [9; 9; 9; 9; 0; 0; 9; 9] ++ repeat 7 8 ++ [1; 2; 3; 0; 0; 0; 0; 0]) /\
  read_calls true (read_fuel ex_inp) ex_orc 0 b_init ex_inp ex_sizes 0
  = Some ([0; 0; 0; 0; 5; 0; 0; 0] ++ zeros 24 ++ [1; 2; 3; 4; 5; 6; 7; 8] ++
          [9; 9; 9; 9; 0; 0; 9; 9] ++ repeat 7 8 ++ [1; 2; 3; 0; 0; 0; 0; 0], EOF).
Proof.
  split; [unfold bytes_ok, byte_ok, ex_inp; repeat constructor; lia|].
  split; vm_compute; reflexivity.
Qed.

(* the same input cut inside the literal run: both decoders reject *)
Example read_calls_example_truncated :
  unpack (firstn 20 ex_inp) = None /\
  exists o, read_calls true (read_fuel (firstn 20 ex_inp)) ex_orc 0 b_init (firstn 20 ex_inp)
                       ex_sizes 0 = Some (o, UnexpectedEOF).
Proof. split; [vm_compute; reflexivity|]. eexists. vm_compute. reflexivity. Qed.

(* F08 as found (strict = false) at the byte interface: a literal run cut at a word boundary
   makes Read report a clean EOF although the packed stream is invalid *)
Example read_prefix_refuted :
  exists p, unpack p = None /\
    read_calls false (read_fuel p) ex_orc 0 b_init p ex_sizes 0 = Some (repeat 1 8, EOF).
Proof. exists [255; 1; 1; 1; 1; 1; 1; 1; 1; 1]. split; vm_compute; reflexivity. Qed.
