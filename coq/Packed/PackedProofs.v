From CV Require Import Packed.Packed Packed.PackSpec.
From Coq Require Import ZifyBool ZifyNat.
Open Scope Z_scope.
Ltac Zify.zify_post_hook ::= Z.div_mod_to_equations.

(* ------------------------------------------------------------ generic *)

Lemma skipn_nth_cons {A} (d : A) : forall (l : list A) i, (i < length l)%nat ->
  skipn i l = nth i l d :: skipn (S i) l.
Proof.
  induction l as [|x l IH]; intros i Hi; simpl in Hi; [lia|].
  destruct i as [|i]; [reflexivity|]. apply (IH i). lia.
Qed.

Lemma skipn_skipn' {A} : forall (l : list A) a b, skipn a (skipn b l) = skipn (a + b) l.
Proof.
  induction l as [|x l IH]; intros a b.
  - now rewrite !skipn_nil.
  - destruct b as [|b].
    + now rewrite Nat.add_0_r.
    + rewrite Nat.add_succ_r. simpl. apply IH.
Qed.

Lemma length_zeros n : length (zeros n) = n.
Proof. apply repeat_length. Qed.

(* ------------------------------------------------------------ take_bits *)

Lemma take_bits_length : forall n tag src w s',
  take_bits n tag src = Some (w, s') ->
  length w = n /\ (length s' <= length src)%nat /\ exists pre, src = pre ++ s' /\ (length pre <= n)%nat.
Proof.
  induction n as [|n IH]; intros tag src w s' H; simpl in H.
  - inversion H; subst. split; [reflexivity|]. split; [lia|]. exists []. split; [reflexivity|simpl; lia].
  - destruct (Z.odd tag).
    + destruct src as [|b s]; [discriminate|].
      destruct (take_bits n (tag / 2) s) as [[w0 s0]|] eqn:E; [|discriminate].
      inversion H; subst. apply IH in E. destruct E as (E1 & E2 & pre & E3 & E4).
      split; [simpl; lia|]. split; [simpl; lia|].
      exists (b :: pre). subst s. split; [reflexivity|simpl; lia].
    + destruct (take_bits n (tag / 2) src) as [[w0 s0]|] eqn:E; [|discriminate].
      inversion H; subst. apply IH in E. destruct E as (E1 & E2 & pre & E3 & E4).
      split; [simpl; lia|]. split; [lia|]. exists pre. split; [assumption|lia].
Qed.

Lemma fast_bits_take_bits : forall n tag src i, (i + n <= length src)%nat ->
  take_bits n tag (skipn i src) =
  (let '(w, i') := fast_bits n tag src i in Some (w, skipn i' src)).
Proof.
  induction n as [|n IH]; intros tag src i Hi; simpl.
  - reflexivity.
  - destruct (Z.odd tag).
    + rewrite (skipn_nth_cons 0 src i) by lia.
      rewrite (IH (tag / 2) src (S i)) by lia.
      destruct (fast_bits n (tag / 2) src (S i)) as [w i']. reflexivity.
    + rewrite (IH (tag / 2) src i) by lia.
      destruct (fast_bits n (tag / 2) src i) as [w i']. reflexivity.
Qed.

Lemma unpack_word_eq tag src : unpack_word tag src = take_bits 8 tag src.
Proof.
  unfold unpack_word. destruct (8 <=? length src)%nat eqn:E; [|reflexivity].
  change src with (skipn 0 src) at 3.
  rewrite (fast_bits_take_bits 8 tag src 0) by lia.
  destruct (fast_bits 8 tag src 0). reflexivity.
Qed.

Lemma spec_word_eq : forall n tag src, spec_word n tag src = take_bits n tag src.
Proof.
  induction n as [|n IH]; intros tag src; cbn [spec_word take_bits]; [reflexivity|].
  rewrite Z.bit0_odd, Z.shiftr_div_pow2 by lia. change (2 ^ 1) with 2.
  destruct (Z.odd tag).
  - destruct src as [|b s]; [reflexivity|]. now rewrite IH.
  - now rewrite IH.
Qed.

(* ------------------------------------------------------------ fuel *)

Lemma unpack_f_fuel strict : forall f1 f2 src,
  (length src <= f1)%nat -> (length src <= f2)%nat ->
  unpack_f strict f1 src = unpack_f strict f2 src.
Proof.
  induction f1 as [|f1 IH]; intros f2 src H1 H2.
  - destruct src; [destruct f2; reflexivity|simpl in H1; lia].
  - destruct src as [|tag s]; [destruct f2; reflexivity|].
    destruct f2 as [|f2]; [simpl in H2; lia|].
    simpl in H1, H2. cbn [unpack_f]. rewrite unpack_word_eq.
    destruct (take_bits 8 tag s) as [[w s1]|] eqn:E; [|reflexivity].
    apply take_bits_length in E. destruct E as (_ & E & _).
    destruct (tag =? 0).
    { destruct s1 as [|n s2]; [reflexivity|]. simpl in E. rewrite (IH f2 s2) by lia. reflexivity. }
    destruct (tag =? 255).
    { destruct s1 as [|n s2]; [reflexivity|]. simpl in E.
      destruct (strict && (length s2 <? 8 * Z.to_nat n)%nat); [reflexivity|].
      rewrite (IH f2 (skipn (8 * Z.to_nat n) s2)); [reflexivity| |]; rewrite skipn_length; lia. }
    rewrite (IH f2 s1) by lia. reflexivity.
Qed.

(* the unfolding equation of [unpack_f] at canonical fuel: fuel disappears *)
Definition unpack_s (strict : bool) (src : list Z) := unpack_f strict (length src) src.

Lemma unpack_s_nil strict : unpack_s strict [] = Some [].
Proof. reflexivity. Qed.

Lemma unpack_s_cons strict tag s :
  unpack_s strict (tag :: s) =
  match take_bits 8 tag s with
  | None => None
  | Some (w, s1) =>
    if tag =? 0 then
      match s1 with
      | [] => None
      | n :: s2 => option_map (fun r => w ++ zeros (8 * Z.to_nat n) ++ r) (unpack_s strict s2)
      end
    else if tag =? 255 then
      match s1 with
      | [] => None
      | n :: s2 =>
        let k := (8 * Z.to_nat n)%nat in
        if strict && (length s2 <? k)%nat then None
        else option_map (fun r => w ++ firstn k s2 ++ zeros (k - length s2) ++ r)
                        (unpack_s strict (skipn k s2))
      end
    else option_map (fun r => w ++ r) (unpack_s strict s1)
  end.
Proof.
  unfold unpack_s. cbn [length unpack_f]. rewrite unpack_word_eq.
  destruct (take_bits 8 tag s) as [[w s1]|] eqn:E; [|reflexivity].
  apply take_bits_length in E. destruct E as (_ & E & _).
  destruct (tag =? 0).
  { destruct s1 as [|n s2]; [reflexivity|]. simpl in E.
    rewrite (unpack_f_fuel strict (length s) (length s2) s2) by lia. reflexivity. }
  destruct (tag =? 255).
  { destruct s1 as [|n s2]; [reflexivity|]. simpl in E. cbv zeta.
    destruct (strict && (length s2 <? 8 * Z.to_nat n)%nat); [reflexivity|].
    rewrite (unpack_f_fuel strict (length s) (length (skipn (8 * Z.to_nat n) s2)));
      [reflexivity| |]; rewrite ?skipn_length; lia. }
  rewrite (unpack_f_fuel strict (length s) (length s1) s1) by lia. reflexivity.
Qed.

Lemma spec_unpack_f_fuel : forall f1 f2 src,
  (length src <= f1)%nat -> (length src <= f2)%nat ->
  spec_unpack_f f1 src = spec_unpack_f f2 src.
Proof.
  induction f1 as [|f1 IH]; intros f2 src H1 H2.
  - destruct src; [destruct f2; reflexivity|simpl in H1; lia].
  - destruct src as [|tag s]; [destruct f2; reflexivity|].
    destruct f2 as [|f2]; [simpl in H2; lia|].
    simpl in H1, H2. cbn [spec_unpack_f]. rewrite spec_word_eq.
    destruct (take_bits 8 tag s) as [[w s1]|] eqn:E; [|reflexivity].
    apply take_bits_length in E. destruct E as (_ & E & _).
    destruct (tag =? 0).
    { destruct s1 as [|n s2]; [reflexivity|]. simpl in E. rewrite (IH f2 s2) by lia. reflexivity. }
    destruct (tag =? 255).
    { destruct s1 as [|n s2]; [reflexivity|]. simpl in E.
      destruct (length s2 <? 8 * Z.to_nat n)%nat; [reflexivity|].
      rewrite (IH f2 (skipn (8 * Z.to_nat n) s2)); [reflexivity| |]; rewrite skipn_length; lia. }
    rewrite (IH f2 s1) by lia. reflexivity.
Qed.

(* ------------------------------------------------------------ model = spec *)

Lemma unpack_f_spec : forall f src, unpack_f true f src = spec_unpack_f f src.
Proof.
  induction f as [|f IH]; intros src.
  - destruct src; reflexivity.
  - destruct src as [|tag s]; [reflexivity|].
    cbn [unpack_f spec_unpack_f]. rewrite unpack_word_eq, spec_word_eq.
    destruct (take_bits 8 tag s) as [[w s1]|]; [|reflexivity].
    destruct (tag =? 0).
    { destruct s1 as [|n s2]; [reflexivity|]. rewrite IH. destruct (spec_unpack_f f s2); reflexivity. }
    destruct (tag =? 255).
    { destruct s1 as [|n s2]; [reflexivity|]. cbv zeta. rewrite andb_true_l.
      destruct (length s2 <? 8 * Z.to_nat n)%nat eqn:E; [reflexivity|].
      rewrite IH. destruct (spec_unpack_f f (skipn (8 * Z.to_nat n) s2)); [|reflexivity].
      cbn [option_map]. replace (8 * Z.to_nat n - length s2)%nat with O by lia. reflexivity. }
    rewrite IH. destruct (spec_unpack_f f s1); reflexivity.
Qed.

Lemma unpack_eq_spec src : unpack src = spec_unpack src.
Proof. apply unpack_f_spec. Qed.

(* ------------------------------------------------------------ pack / unpack *)

Lemma tag_of_take_bits : forall w rest, bytes_ok w ->
  take_bits (length w) (tag_of w) (nonzero w ++ rest) = Some (w, rest).
Proof.
  induction w as [|b w IH]; intros rest Hw; [reflexivity|].
  inversion Hw as [|? ? Hb Hw']; subst. specialize (IH rest Hw').
  cbn [length take_bits tag_of nonzero filter].
  destruct (b =? 0) eqn:E.
  - replace (Z.odd (0 + 2 * tag_of w)) with false by (rewrite Z.add_0_l, Z.odd_mul; reflexivity).
    replace ((0 + 2 * tag_of w) / 2) with (tag_of w) by lia.
    cbn [negb]. fold (nonzero w). rewrite IH. f_equal. f_equal. f_equal. lia.
  - replace (Z.odd (1 + 2 * tag_of w)) with true
      by (rewrite Z.odd_add, Z.odd_mul; reflexivity).
    replace ((1 + 2 * tag_of w) / 2) with (tag_of w)
      by lia.
    cbn [negb app]. fold (nonzero w). rewrite IH. reflexivity.
Qed.

Lemma tag_of_range : forall w, 0 <= tag_of w < 2 ^ Z.of_nat (length w).
Proof.
  induction w as [|b w IH]; [simpl; lia|].
  cbn [tag_of length]. rewrite Nat2Z.inj_succ, Z.pow_succ_r by lia.
  destruct (b =? 0); lia.
Qed.

Lemma tag_of_zero : forall w, bytes_ok w -> tag_of w = 0 -> w = zeros (length w).
Proof.
  induction w as [|b w IH]; intros Hw H; [reflexivity|].
  inversion Hw as [|? ? Hb Hw']; subst. cbn [tag_of] in H.
  pose proof (tag_of_range w) as R.
  destruct (b =? 0) eqn:E; [|lia].
  change (zeros (length (b :: w))) with (0 :: zeros (length w)).
  rewrite <- IH by (assumption || lia). f_equal. lia.
Qed.

Lemma tag_of_full : forall w, tag_of w = 2 ^ Z.of_nat (length w) - 1 -> nonzero w = w.
Proof.
  induction w as [|b w IH]; intros H; [reflexivity|].
  cbn [tag_of length] in H. rewrite Nat2Z.inj_succ, Z.pow_succ_r in H by lia.
  pose proof (tag_of_range w) as R.
  cbn [nonzero filter]. destruct (b =? 0) eqn:E; [lia|].
  cbn [negb]. fold (nonzero w). rewrite IH by lia. reflexivity.
Qed.

Lemma is_zero_word_zeros w : is_zero_word w = true -> w = zeros (length w).
Proof.
  induction w as [|b w IH]; intros H; [reflexivity|]. simpl in H.
  apply andb_prop in H. destruct H as [H1 H2].
  change (zeros (length (b :: w))) with (0 :: zeros (length w)).
  rewrite <- IH by assumption. f_equal. lia.
Qed.

Lemma zeros_app a b : zeros a ++ zeros b = zeros (a + b).
Proof. unfold zeros. now rewrite repeat_app. Qed.

Lemma num_zero_words_concat : forall ws z, words_ok ws -> (z <= num_zero_words ws)%nat ->
  concat (firstn z ws) = zeros (8 * z).
Proof.
  induction ws as [|w ws IH]; intros z Hws Hz.
  - simpl in Hz. replace z with O by lia. reflexivity.
  - destruct z as [|z]; [reflexivity|]. inversion Hws as [|? ? Hw Hws']; subst.
    cbn [num_zero_words] in Hz. destruct (is_zero_word w) eqn:E; [|lia].
    cbn [firstn concat]. rewrite (IH z) by (assumption || lia).
    rewrite (is_zero_word_zeros w E). destruct Hw as [Hl _]. rewrite Hl.
    rewrite zeros_app. f_equal. lia.
Qed.

Lemma num_zero_words_le ws : (num_zero_words ws <= length ws)%nat.
Proof. induction ws as [|w ws IH]; simpl; [lia|]. destruct (is_zero_word w); simpl; lia. Qed.

Lemma lit_run_le : forall n ws, (lit_run n ws <= n)%nat /\ (lit_run n ws <= length ws)%nat.
Proof.
  induction n as [|n IH]; intros ws; [simpl; lia|].
  destruct ws as [|w ws]; [simpl; lia|]. cbn [lit_run].
  destruct (count_zeros w <=? 1)%nat; simpl; [|lia]. specialize (IH ws). lia.
Qed.

Lemma concat_words_length : forall ws, words_ok ws -> length (concat ws) = (8 * length ws)%nat.
Proof.
  induction ws as [|w ws IH]; intros H; [reflexivity|]. inversion H as [|? ? Hw H']; subst.
  simpl. rewrite app_length, IH by assumption. destruct Hw as [Hl _]. lia.
Qed.

Lemma words_ok_firstn n ws : words_ok ws -> words_ok (firstn n ws).
Proof. unfold words_ok. revert ws; induction n; intros [|w ws] H; simpl; auto. inversion H; subst. constructor; auto. Qed.
Lemma words_ok_skipn n ws : words_ok ws -> words_ok (skipn n ws).
Proof. unfold words_ok. revert ws; induction n; intros [|w ws] H; simpl; auto. inversion H; subst. auto. Qed.

Lemma concat_firstn_skipn {A} n (ws : list (list A)) :
  concat ws = concat (firstn n ws) ++ concat (skipn n ws).
Proof. rewrite <- concat_app, firstn_skipn. reflexivity. Qed.

Lemma firstn_app_exact {A} (a b : list A) : firstn (length a) (a ++ b) = a.
Proof. rewrite firstn_app, Nat.sub_diag, firstn_all. simpl. apply app_nil_r. Qed.
Lemma skipn_app_exact {A} (a b : list A) : skipn (length a) (a ++ b) = b.
Proof. rewrite skipn_app, Nat.sub_diag, skipn_all. reflexivity. Qed.

Lemma pack_f_fuel : forall f1 f2 ws, (length ws <= f1)%nat -> (length ws <= f2)%nat ->
  pack_f f1 ws = pack_f f2 ws.
Proof.
  induction f1 as [|f1 IH]; intros f2 ws H1 H2.
  - destruct ws; [destruct f2; reflexivity|simpl in H1; lia].
  - destruct ws as [|w r]; [destruct f2; reflexivity|].
    destruct f2 as [|f2]; [simpl in H2; lia|]. simpl in H1, H2.
    cbn [pack_f]. cbv zeta.
    destruct (tag_of w =? 0).
    { rewrite (IH f2) by (rewrite skipn_length; lia). reflexivity. }
    destruct (tag_of w =? 255).
    { rewrite (IH f2) by (rewrite skipn_length; lia). reflexivity. }
    rewrite (IH f2) by lia. reflexivity.
Qed.

Theorem unpack_s_pack_f strict : forall f ws, words_ok ws -> (length ws <= f)%nat ->
  unpack_s strict (pack_f f ws) = Some (concat ws).
Proof.
  induction f as [|f IH]; intros ws Hws Hf.
  - destruct ws; [reflexivity|simpl in Hf; lia].
  - destruct ws as [|w r]; [reflexivity|].
    inversion Hws as [|? ? Hw Hr]; subst. destruct Hw as [Hl Hb]. simpl in Hf.
    cbn [pack_f]. cbv zeta. pose proof (tag_of_range w) as TR. rewrite Hl in TR.
    change (2 ^ Z.of_nat 8) with 256 in TR.
    destruct (tag_of w =? 0) eqn:E0.
    { assert (Hz : tag_of w = 0) by lia.
      pose proof (tag_of_zero w Hb Hz) as Hwz. rewrite Hl in Hwz.
      cbn [app]. rewrite unpack_s_cons.
      replace (nonzero w) with (@nil Z) by (rewrite Hwz; reflexivity).
      cbn [app]. rewrite Hz. change (take_bits 8 0 ?s) with (Some (zeros 8, s)).
      cbn [Z.eqb]. rewrite Nat2Z.id.
      set (z := Nat.min (num_zero_words r) 255).
      rewrite IH; [| apply words_ok_skipn; assumption | rewrite skipn_length; lia].
      cbn [option_map concat]. f_equal. rewrite Hwz. f_equal.
      rewrite (concat_firstn_skipn z r). f_equal.
      symmetry. apply num_zero_words_concat; [assumption|]. unfold z. lia. }
    destruct (tag_of w =? 255) eqn:E1.
    { assert (Hz : tag_of w = 255) by lia.
      assert (Hnz : nonzero w = w) by (apply tag_of_full; rewrite Hl; exact Hz).
      rewrite Hnz. cbn [app]. rewrite unpack_s_cons.
      set (i := lit_run 255 r).
      pose proof (tag_of_take_bits w (Z.of_nat i :: concat (firstn i r) ++ pack_f f (skipn i r)) Hb) as T.
      rewrite Hl, Hnz in T. rewrite T. rewrite E0, E1. cbv zeta. rewrite Nat2Z.id.
      assert (Hlen : length (concat (firstn i r)) = (8 * i)%nat).
      { rewrite concat_words_length by (apply words_ok_firstn; assumption).
        rewrite firstn_length. pose proof (lit_run_le 255 r). fold i in H. lia. }
      replace ((length (concat (firstn i r) ++ pack_f f (skipn i r)) <? 8 * i)%nat) with false
        by (rewrite app_length; lia).
      rewrite andb_false_r. rewrite <- Hlen. rewrite firstn_app_exact, skipn_app_exact.
      rewrite IH; [| apply words_ok_skipn; assumption | rewrite skipn_length; lia].
      cbn [option_map concat]. f_equal. f_equal.
      replace (length (concat (firstn i r)) - length (concat (firstn i r) ++ pack_f f (skipn i r)))%nat
        with O by (rewrite app_length; lia).
      cbn [zeros repeat app]. rewrite (concat_firstn_skipn i r). reflexivity. }
    rewrite <- app_comm_cons. rewrite unpack_s_cons.
    pose proof (tag_of_take_bits w (pack_f f r) Hb) as T. rewrite Hl in T. rewrite T.
    rewrite E0, E1. rewrite IH by (assumption || lia). reflexivity.
Qed.

Theorem unpack_pack ws : words_ok ws -> unpack (pack ws) = Some (concat ws).
Proof. intros H. apply (unpack_s_pack_f true); [assumption|lia]. Qed.

Theorem spec_unpack_pack ws : words_ok ws -> spec_unpack (pack ws) = Some (concat ws).
Proof. intros H. rewrite <- unpack_eq_spec. now apply unpack_pack. Qed.

(* the defective decoder (F07) also round-trips: the defect is invisible to
   round-trip tests, it only shows on truncated input *)
Theorem unpack_prefix_pack ws : words_ok ws -> unpack_prefix (pack ws) = Some (concat ws).
Proof. intros H. apply (unpack_s_pack_f false); [assumption|lia]. Qed.

(* ------------------------------------------------------------ chunk8 *)

Lemma chunk8_concat : forall ws f, words_ok ws -> (length (concat ws) <= f)%nat ->
  chunk8 f (concat ws) = Some ws.
Proof.
  induction ws as [|w ws IH]; intros f H Hf; [destruct f; reflexivity|].
  inversion H as [|? ? Hw H']; subst. destruct Hw as [Hl Hb].
  cbn [concat] in *. rewrite app_length in Hf.
  destruct w as [|b w]; [discriminate|].
  destruct f as [|f]; [simpl in Hf; lia|].
  cbn [chunk8 app].
  replace (length (b :: w ++ concat ws) <? 8)%nat with false by (simpl; rewrite app_length; simpl in Hl; lia).
  rewrite app_comm_cons.
  replace (firstn 8 ((b :: w) ++ concat ws)) with (b :: w)
    by (rewrite <- Hl; symmetry; apply firstn_app_exact).
  replace (skipn 8 ((b :: w) ++ concat ws)) with (concat ws)
    by (rewrite <- Hl; symmetry; apply skipn_app_exact).
  rewrite IH; [reflexivity|assumption|simpl in Hf; simpl in Hl; lia].
Qed.

Lemma bytes_ok_suffix pre s : bytes_ok (pre ++ s) -> bytes_ok s.
Proof. unfold bytes_ok. rewrite Forall_app. tauto. Qed.

Lemma bytes_ok_skipn n s : bytes_ok s -> bytes_ok (skipn n s).
Proof. intros H. rewrite <- (firstn_skipn n s) in H. now apply bytes_ok_suffix in H. Qed.

Lemma chunk8_sound : forall f l ws, chunk8 f l = Some ws -> bytes_ok l -> words_ok ws /\ concat ws = l.
Proof.
  induction f as [|f IH]; intros l ws H Hb.
  - destruct l; simpl in H; [|discriminate]. inversion H; subst. split; [constructor|reflexivity].
  - destruct l as [|b l]; [simpl in H; inversion H; subst; split; [constructor|reflexivity]|].
    cbn [chunk8] in H. destruct (length (b :: l) <? 8)%nat eqn:E; [discriminate|].
    assert (Hfl : length (firstn 8 (b :: l)) = 8%nat) by (rewrite firstn_length; lia).
    assert (Hfb : bytes_ok (firstn 8 (b :: l))).
    { unfold bytes_ok in *. apply Forall_forall. intros x Hx. rewrite Forall_forall in Hb. apply Hb.
      rewrite <- (firstn_skipn 8 (b :: l)). apply in_or_app. now left. }
    assert (Hsb : bytes_ok (skipn 8 (b :: l))) by (now apply bytes_ok_skipn).
    pose proof (firstn_skipn 8 (b :: l)) as Hfs.
    remember (firstn 8 (b :: l)) as h8. remember (skipn 8 (b :: l)) as t8.
    destruct (chunk8 f t8) as [r|] eqn:E2; [|discriminate].
    inversion H; subst ws. apply IH in E2; [|assumption].
    destruct E2 as [E2 E3]. split.
    + constructor; [|assumption]. split; assumption.
    + cbn [concat]. rewrite E3. exact Hfs.
Qed.

Lemma chunk8_total : forall n bs, (length bs mod 8 = 0)%nat -> (length bs <= n)%nat ->
  exists ws, chunk8 n bs = Some ws.
Proof.
  induction n as [|n IH]; intros bs Hm Hle.
  - destruct bs; [eexists; reflexivity|simpl in Hle; lia].
  - destruct bs as [|b l]; [eexists; reflexivity|]. cbn [chunk8].
    destruct (length (b :: l) <? 8)%nat eqn:E.
    + exfalso. cbn [length] in *. lia.
    + destruct (IH (skipn 8 (b :: l))) as [r Hr].
      * rewrite skipn_length. lia.
      * rewrite skipn_length. cbn [length] in *. lia.
      * rewrite Hr. eexists; reflexivity.
Qed.

Theorem unpack_pack_bytes bs : bytes_ok bs -> (length bs mod 8 = 0)%nat ->
  exists p, pack_bytes bs = Some p /\ unpack p = Some bs /\ spec_unpack p = Some bs.
Proof.
  intros Hb Hm. unfold pack_bytes.
  destruct (chunk8_total (length bs) bs Hm (le_n _)) as [ws E].
  rewrite E. exists (pack ws).
  destruct (chunk8_sound _ _ _ E Hb) as [Hws Hc]. subst bs.
  split; [reflexivity|]. split; [now apply unpack_pack|now apply spec_unpack_pack].
Qed.

(* ------------------------------------------------------------ growth bound *)

Theorem unpack_growth strict : forall n src out, (length src <= n)%nat -> bytes_ok src ->
  unpack_s strict src = Some out -> (length out <= 1024 * length src)%nat.
Proof.
  induction n as [|n IH]; intros src out Hn Hb H.
  - destruct src; [|simpl in Hn; lia]. inversion H; subst. simpl; lia.
  - destruct src as [|tag s]; [inversion H; subst; simpl; lia|].
    rewrite unpack_s_cons in H. simpl in Hn.
    inversion Hb as [|? ? Htag Hs]; subst.
    destruct (take_bits 8 tag s) as [[w s1]|] eqn:E; [|discriminate].
    apply take_bits_length in E. destruct E as (Hw & Hle & pre & Hpre & Hpl).
    assert (Hs1 : bytes_ok s1) by (subst s; eapply bytes_ok_suffix; eassumption).
    destruct (tag =? 0).
    { destruct s1 as [|c s2]; [discriminate|].
      inversion Hs1 as [|? ? Hc Hs2]; subst.
      destruct (unpack_s strict s2) as [r|] eqn:E2; [|discriminate]. inversion H; subst.
      apply IH in E2; [| simpl in Hle; lia | assumption].
      rewrite !app_length, length_zeros. cbn [length] in *. unfold byte_ok in Hc. lia. }
    destruct (tag =? 255).
    { destruct s1 as [|c s2]; [discriminate|].
      inversion Hs1 as [|? ? Hc Hs2]; subst. cbv zeta in H.
      destruct (strict && (length s2 <? 8 * Z.to_nat c)%nat); [discriminate|].
      destruct (unpack_s strict (skipn (8 * Z.to_nat c) s2)) as [r|] eqn:E2; [|discriminate].
      inversion H; subst.
      apply IH in E2; [| rewrite skipn_length; simpl in Hle; lia | now apply bytes_ok_skipn].
      rewrite skipn_length in E2.
      rewrite !app_length, length_zeros, firstn_length. cbn [length] in *. unfold byte_ok in Hc. lia. }
    destruct (unpack_s strict s1) as [r|] eqn:E2; [|discriminate]. inversion H; subst.
    apply IH in E2; [|lia|assumption]. rewrite app_length. cbn [length]. lia.
Qed.

(* truncation: the strict decoder accepts exactly the grammar; in particular an input
   cut inside a literal run is rejected; the pre-fix decoder is refuted by a witness *)
Example unpack_prefix_refuted :
  exists p, spec_unpack p = None /\ unpack_prefix p = Some (repeat 1 8 ++ repeat 0 8).
Proof. exists [255;1;1;1;1;1;1;1;1;1]. split; vm_compute; reflexivity. Qed.
