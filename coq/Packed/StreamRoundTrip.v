(* Round trip through the streaming Reader as ONE statement: packing a word-aligned byte string
   and reading the packed form back through Reader.Read, with any request sizes and any
   fast-path / short-read choices, returns the string and a clean EOF.  Composition of
   Frame.FramePackedProofs.pack_bytes_props (pack is total on word-aligned bytes, its output is
   bytes, unpack inverts it) with ReadCallProofs.read_calls_agree. *)
From CV Require Import Packed.Packed Packed.PackSpec Packed.PackedProofs Packed.ReaderProofs
  Packed.ReadCallProofs Packed.ReadCallProofs2 Frame.FramePackedProofs.
Open Scope Z_scope.

Lemma stream_roundtrip : forall bs orc sizes fuel, bytes_ok bs -> (length bs mod 8 = 0)%nat ->
  exists p, pack_bytes bs = Some p /\
   ((2304 * length p + 1 <= fuel)%nat -> read_calls true fuel orc 0 b_init p sizes 0 = Some (bs, EOF)).
Proof.
  intros bs orc sizes fuel Hb Hm.
  destruct (pack_bytes_props bs Hb Hm) as [p [Hp [Hu Hok]]].
  exists p. split; [exact Hp|]. intros Hf.
  pose proof (read_calls_agree orc sizes p Hok fuel Hf) as H. rewrite Hu in H. exact H.
Qed.

Lemma growth_le : forall src out, bytes_ok src ->
  unpack src = Some out -> (length out <= 1024 * length src)%nat.
Proof. intros src out Hb H. exact (unpack_growth true (length src) src out (le_n _) Hb H). Qed.

Lemma growth_tight : unpack [0; 255] = Some (repeat 0 2048).
Proof. vm_compute. reflexivity. Qed.
