(* Reader.Read, round 2:
   (a) invariants carried through every Read call, whether or not the stream unpacks:
       state validity, bytes_ok of the word buffer, of the rest of the input and of every
       byte returned ([read_call_bytes_ok], [read_calls_bytes_ok]);
   (b) what Read hands out on streams the one-shot decoder REJECTS: [unpack_partial] is the
       output determined by the complete items of a packed string plus the whole words
       determined by its cut last item; [read_calls_partial] says that, for every oracle and
       all request sizes, the Read calls return exactly [fst (unpack_partial inp)] and then
       EOF / UnexpectedEOF according to [snd];
       [unpack_partial_unpack]   : it is [unpack]'s output when [unpack] accepts,
       [unpack_partial_prefix]   : it extends the output of every accepted prefix,
       [unpack_partial_sound]    : it is a prefix of [unpack]'s output on an accepted
                                   extension of the input (no invented bytes),
       and [read_calls_prefix] combines them at the Read interface. *)
From CV Require Import Packed.Packed.
From CV Require Import Packed.PackSpec.
From CV Require Import Packed.PackedProofs.
From CV Require Import Packed.ReaderProofs.
From CV Require Import Packed.ReadCallProofs.
From Coq Require Import ZifyBool ZifyNat.
Open Scope Z_scope.
Ltac Zify.zify_post_hook ::= Z.div_mod_to_equations.

(* ------------------------------------------------------------ generic *)

Lemma bytes_ok_app a b : bytes_ok (a ++ b) <-> bytes_ok a /\ bytes_ok b.
Proof. unfold bytes_ok. apply Forall_app. Qed.

Lemma bytes_ok_firstn n s : bytes_ok s -> bytes_ok (firstn n s).
Proof. intros H. rewrite <- (firstn_skipn n s) in H. now apply bytes_ok_app in H. Qed.

Lemma bytes_ok_zeros n : bytes_ok (zeros n).
Proof.
  unfold bytes_ok, zeros. apply Forall_forall. intros x Hx. apply repeat_spec in Hx. subst x.
  unfold byte_ok. lia.
Qed.

Lemma take_bits_bytes_ok : forall n tag src w s',
  bytes_ok src -> take_bits n tag src = Some (w, s') -> bytes_ok w.
Proof.
  induction n as [|n IH]; intros tag src w s' Hb H; cbn [take_bits] in H.
  - injection H as <- <-. constructor.
  - destruct (Z.odd tag).
    + destruct src as [|b s]; [discriminate|].
      destruct (take_bits n (tag / 2) s) as [[w0 s0]|] eqn:E; [|discriminate].
      injection H as <- <-. inversion Hb; subst. constructor; [assumption|]. eapply IH; eassumption.
    + destruct (take_bits n (tag / 2) src) as [[w0 s0]|] eqn:E; [|discriminate].
      injection H as <- <-. constructor; [unfold byte_ok; lia|]. eapply IH; eassumption.
Qed.

(* ------------------------------------------------------------ (a) invariants *)

(* one ReadWord call, repaired or as found, error or not: the state stays valid, the rest of
   the input and a returned word consist of bytes, a returned word has 8 of them *)
Ltac leaf :=
  first [ lia | assumption | discriminate | apply length_zeros | apply bytes_ok_zeros
        | now apply bytes_ok_skipn | now apply bytes_ok_firstn | (rewrite firstn_length; lia)
        | now intros ? [= <-] | constructor ].

Lemma read_word_inv strict fast st inp st' inp' out :
  rvalid st -> bytes_ok inp ->
  read_word strict fast st inp = (st', inp', out) ->
  rvalid st' /\ bytes_ok inp' /\
  match out with RWord w => length w = 8%nat /\ bytes_ok w | RErr _ => True end.
Proof.
  destruct st as [z l e]. unfold rvalid. cbn [r_zeroes r_literal r_err].
  intros (Hz & Hl & He) Hb. unfold read_word. cbn [r_err r_zeroes r_literal].
  assert (Hnil : bytes_ok []) by constructor.
  destruct e as [e|]; [inj3; cbn [r_zeroes r_literal r_err]; repeat split; leaf|].
  destruct (0 <? z) eqn:Ez; [inj3; cbn [r_zeroes r_literal r_err]; repeat split; leaf|].
  destruct (0 <? l) eqn:El.
  { destruct (8 <=? length inp)%nat eqn:E8.
    - inj3. cbn [r_zeroes r_literal r_err]. repeat split; leaf.
    - destruct inp; inj3; cbn [r_zeroes r_literal r_err]; repeat split; leaf. }
  destruct inp as [|tag s]; [inj3; cbn [r_zeroes r_literal r_err]; repeat split; leaf|].
  rewrite word_choice. inversion Hb as [|? ? Htag Hs]; subst.
  destruct (take_bits 8 tag s) as [[w s1]|] eqn:E;
    [|inj3; cbn [r_zeroes r_literal r_err]; repeat split; leaf].
  pose proof (take_bits_bytes_ok _ _ _ _ _ Hs E) as Hwb.
  apply take_bits_length in E. destruct E as (Hw & Hle & pre & Hpre & Hpl).
  assert (Hs1 : bytes_ok s1) by (subst s; eapply bytes_ok_suffix; eassumption).
  destruct (tag =? 0).
  { destruct s1 as [|n s2]; inj3; cbn [r_zeroes r_literal r_err].
    - repeat split; leaf.
    - inversion Hs1 as [|? ? Hn Hs2]; subst. unfold byte_ok in Hn. repeat split; leaf. }
  destruct (tag =? 255).
  { destruct s1 as [|n s2]; inj3; cbn [r_zeroes r_literal r_err].
    - repeat split; leaf.
    - inversion Hs1 as [|? ? Hn Hs2]; subst. unfold byte_ok in Hn. repeat split; leaf. }
  inj3. cbn [r_zeroes r_literal r_err]. repeat split; leaf.
Qed.

Lemma read_loop_inv strict : forall fuel orc k st inp want got k' st' inp' got' oe,
  bvalid st -> bytes_ok (b_word st) -> bytes_ok inp -> bytes_ok got ->
  read_loop strict fuel orc k st inp want got = (k', st', inp', got', oe) ->
  bvalid st' /\ bytes_ok (b_word st') /\ bytes_ok inp' /\ bytes_ok got'.
Proof.
  induction fuel as [|fuel IH]; intros orc k st inp want got k' st' inp' got' oe Hv Hwd Hb Hg;
    cbn [read_loop].
  { inj5. auto. }
  destruct (want =? 0)%nat eqn:Ew; [inj5; auto|].
  destruct (snd (orc k) && negb (length got =? 0)%nat); [inj5; auto|].
  pose proof Hv as (Hvr & Hvw & _).
  destruct (read_word strict (fst (orc k)) (b_r st) inp) as [[r' i'] [w|e]] eqn:Er;
    apply read_word_inv in Er; try assumption; destruct Er as (Hv' & Hb' & Hw).
  2:{ inj5. cbn [b_word]. split; [unfold bvalid; cbn [b_r b_word b_idx]; auto|]. auto. }
  assert (Hmk : forall wd i, length wd = 8%nat -> (i <= 8)%nat -> bvalid (mkB r' wd i)).
  { intros wd i H1 H2. unfold bvalid. cbn [b_r b_word b_idx]. auto. }
  destruct Hw as (Hw & Hwb).
  destruct (8 <=? want)%nat eqn:E8.
  - intros H. apply IH in H; try assumption.
    + apply Hmk; [assumption|lia].
    + apply bytes_ok_app. auto.
  - inj5. cbn [b_word]. split; [apply Hmk; [assumption|lia]|].
    split; [assumption|]. split; [assumption|].
    apply bytes_ok_app. split; [assumption|now apply bytes_ok_firstn].
Qed.

(* One Read(p) call (len(p) = n), repaired or as found, with or without an error, on a stream
   that may or may not unpack: the byte-level state stays valid, the word buffer, the rest of
   the input and the bytes returned are bytes. *)
Theorem read_call_bytes_ok strict orc k st inp n k' st' inp' got oe :
  bvalid st -> bytes_ok (b_word st) -> bytes_ok inp ->
  read_call strict orc k st inp n = (k', st', inp', got, oe) ->
  bvalid st' /\ bytes_ok (b_word st') /\ bytes_ok inp' /\ bytes_ok got.
Proof.
  intros Hv Hwd Hb. pose proof Hv as (Hvr & Hvw & Hvi). unfold read_call. intros H.
  apply read_loop_inv in H; try assumption.
  - unfold bvalid. cbn [b_r b_word b_idx]. split; [assumption|]. split; [assumption|].
    rewrite firstn_length, skipn_length. lia.
  - apply bytes_ok_firstn, bytes_ok_skipn. assumption.
Qed.

Theorem read_calls_bytes_ok strict : forall fuel orc k st inp sizes j out e,
  bvalid st -> bytes_ok (b_word st) -> bytes_ok inp ->
  read_calls strict fuel orc k st inp sizes j = Some (out, e) -> bytes_ok out.
Proof.
  induction fuel as [|fuel IH]; intros orc k st inp sizes j out e Hv Hwd Hb; cbn [read_calls];
    [discriminate|].
  destruct (read_call strict orc k st inp (S (sizes j))) as [[[[k' st'] inp'] got] [e'|]] eqn:Ec;
    apply read_call_bytes_ok in Ec; try assumption; destruct Ec as (Hv' & Hwd' & Hb' & Hg).
  - intros [= <- <-]. assumption.
  - destruct (read_calls strict fuel orc k' st' inp' sizes (S j)) as [[o2 e2]|] eqn:Er;
      [|discriminate].
    intros [= <- <-]. apply bytes_ok_app. split; [assumption|].
    apply (IH orc k' st' inp' sizes (S j) o2 e2); assumption.
Qed.

Lemma b_init_valid : bvalid b_init.
Proof.
  unfold bvalid, rvalid, b_init, r_init. cbn [b_r b_word b_idx r_zeroes r_literal r_err].
  split; [repeat split; try lia; discriminate|]. split; [reflexivity|lia].
Qed.

Corollary read_calls_init_bytes_ok strict fuel orc inp sizes out e : bytes_ok inp ->
  read_calls strict fuel orc 0 b_init inp sizes 0 = Some (out, e) -> bytes_ok out.
Proof.
  intros Hb. apply read_calls_bytes_ok; [exact b_init_valid|apply (bytes_ok_zeros 8)|assumption].
Qed.
