(* Reader.Read, round 2:
   (a) invariants carried through every Read call, whether or not the stream unpacks:
       state validity, bytes_ok of the word buffer, of the rest of the input and of every
       byte returned ([read_call_bytes_ok], [read_calls_bytes_ok]);
   (b) what Read hands out on streams the one-shot decoder REJECTS: [unpack_partial] is the
       output determined by the complete items of a packed string plus the whole words
       determined by its cut last item; [read_calls_partial] says that, for every oracle and
       all request sizes, the Read calls return exactly [fst (unpack_partial inp)] and then
       EOF / UnexpectedEOF according to [snd];
       [unpack_partial_unpack]   : it is [unpack]'s output when [unpack] accepts,
       [unpack_partial_prefix]   : it extends the output of every accepted prefix,
       [unpack_partial_sound]    : it is a prefix of [unpack]'s output on an accepted
                                   extension of the input (no invented bytes),
       and [read_calls_prefix] combines them at the Read interface. *)
From CV Require Import Packed.Packed.
From CV Require Import Packed.PackSpec.
From CV Require Import Packed.PackedProofs.
From CV Require Import Packed.ReaderProofs.
From CV Require Import Packed.ReadCallProofs.
From Coq Require Import ZifyBool ZifyNat.
Open Scope Z_scope.
Ltac Zify.zify_post_hook ::= Z.div_mod_to_equations.

(* ------------------------------------------------------------ generic *)

Lemma bytes_ok_app a b : bytes_ok (a ++ b) <-> bytes_ok a /\ bytes_ok b.
Proof. unfold bytes_ok. apply Forall_app. Qed.

Lemma bytes_ok_firstn n s : bytes_ok s -> bytes_ok (firstn n s).
Proof. intros H. rewrite <- (firstn_skipn n s) in H. now apply bytes_ok_app in H. Qed.

Lemma bytes_ok_zeros n : bytes_ok (zeros n).
Proof.
  unfold bytes_ok, zeros. apply Forall_forall. intros x Hx. apply repeat_spec in Hx. subst x.
  unfold byte_ok. lia.
Qed.

Lemma take_bits_bytes_ok : forall n tag src w s',
  bytes_ok src -> take_bits n tag src = Some (w, s') -> bytes_ok w.
Proof.
  induction n as [|n IH]; intros tag src w s' Hb H; cbn [take_bits] in H.
  - injection H as <- <-. constructor.
  - destruct (Z.odd tag).
    + destruct src as [|b s]; [discriminate|].
      destruct (take_bits n (tag / 2) s) as [[w0 s0]|] eqn:E; [|discriminate].
      injection H as <- <-. inversion Hb; subst. constructor; [assumption|]. eapply IH; eassumption.
    + destruct (take_bits n (tag / 2) src) as [[w0 s0]|] eqn:E; [|discriminate].
      injection H as <- <-. constructor; [unfold byte_ok; lia|]. eapply IH; eassumption.
Qed.

(* ------------------------------------------------------------ (a) invariants *)

(* one ReadWord call, repaired or as found, error or not: the state stays valid, the rest of
   the input and a returned word consist of bytes, a returned word has 8 of them *)
Ltac leaf :=
  first [ lia | assumption | discriminate | apply length_zeros | apply bytes_ok_zeros
        | now apply bytes_ok_skipn | now apply bytes_ok_firstn | (rewrite firstn_length; lia)
        | now intros ? [= <-] | constructor ].

Lemma read_word_inv strict fast st inp st' inp' out :
  rvalid st -> bytes_ok inp ->
  read_word strict fast st inp = (st', inp', out) ->
  rvalid st' /\ bytes_ok inp' /\
  match out with RWord w => length w = 8%nat /\ bytes_ok w | RErr _ => True end.
Proof.
  destruct st as [z l e]. unfold rvalid. cbn [r_zeroes r_literal r_err].
  intros (Hz & Hl & He) Hb. unfold read_word. cbn [r_err r_zeroes r_literal].
  assert (Hnil : bytes_ok []) by constructor.
  destruct e as [e|]; [inj3; cbn [r_zeroes r_literal r_err]; repeat split; leaf|].
  destruct (0 <? z) eqn:Ez; [inj3; cbn [r_zeroes r_literal r_err]; repeat split; leaf|].
  destruct (0 <? l) eqn:El.
  { destruct (8 <=? length inp)%nat eqn:E8.
    - inj3. cbn [r_zeroes r_literal r_err]. repeat split; leaf.
    - destruct inp; inj3; cbn [r_zeroes r_literal r_err]; repeat split; leaf. }
  destruct inp as [|tag s]; [inj3; cbn [r_zeroes r_literal r_err]; repeat split; leaf|].
  rewrite word_choice. inversion Hb as [|? ? Htag Hs]; subst.
  destruct (take_bits 8 tag s) as [[w s1]|] eqn:E;
    [|inj3; cbn [r_zeroes r_literal r_err]; repeat split; leaf].
  pose proof (take_bits_bytes_ok _ _ _ _ _ Hs E) as Hwb.
  apply take_bits_length in E. destruct E as (Hw & Hle & pre & Hpre & Hpl).
  assert (Hs1 : bytes_ok s1) by (subst s; eapply bytes_ok_suffix; eassumption).
  destruct (tag =? 0).
  { destruct s1 as [|n s2]; inj3; cbn [r_zeroes r_literal r_err].
    - repeat split; leaf.
    - inversion Hs1 as [|? ? Hn Hs2]; subst. unfold byte_ok in Hn. repeat split; leaf. }
  destruct (tag =? 255).
  { destruct s1 as [|n s2]; inj3; cbn [r_zeroes r_literal r_err].
    - repeat split; leaf.
    - inversion Hs1 as [|? ? Hn Hs2]; subst. unfold byte_ok in Hn. repeat split; leaf. }
  inj3. cbn [r_zeroes r_literal r_err]. repeat split; leaf.
Qed.

Lemma read_loop_inv strict : forall fuel orc k st inp want got k' st' inp' got' oe,
  bvalid st -> bytes_ok (b_word st) -> bytes_ok inp -> bytes_ok got ->
  read_loop strict fuel orc k st inp want got = (k', st', inp', got', oe) ->
  bvalid st' /\ bytes_ok (b_word st') /\ bytes_ok inp' /\ bytes_ok got'.
Proof.
  induction fuel as [|fuel IH]; intros orc k st inp want got k' st' inp' got' oe Hv Hwd Hb Hg;
    cbn [read_loop].
  { inj5. auto. }
  destruct (want =? 0)%nat eqn:Ew; [inj5; auto|].
  destruct (snd (orc k) && negb (length got =? 0)%nat); [inj5; auto|].
  pose proof Hv as (Hvr & Hvw & _).
  destruct (read_word strict (fst (orc k)) (b_r st) inp) as [[r' i'] [w|e]] eqn:Er;
    apply read_word_inv in Er; try assumption; destruct Er as (Hv' & Hb' & Hw).
  2:{ inj5. cbn [b_word]. split; [unfold bvalid; cbn [b_r b_word b_idx]; auto|]. auto. }
  assert (Hmk : forall wd i, length wd = 8%nat -> (i <= 8)%nat -> bvalid (mkB r' wd i)).
  { intros wd i H1 H2. unfold bvalid. cbn [b_r b_word b_idx]. auto. }
  destruct Hw as (Hw & Hwb).
  destruct (8 <=? want)%nat eqn:E8.
  - intros H. apply IH in H; try assumption.
    + apply Hmk; [assumption|lia].
    + apply bytes_ok_app. auto.
  - inj5. cbn [b_word]. split; [apply Hmk; [assumption|lia]|].
    split; [assumption|]. split; [assumption|].
    apply bytes_ok_app. split; [assumption|now apply bytes_ok_firstn].
Qed.

(* One Read(p) call (len(p) = n), repaired or as found, with or without an error, on a stream
   that may or may not unpack: the byte-level state stays valid, the word buffer, the rest of
   the input and the bytes returned are bytes. *)
Theorem read_call_bytes_ok strict orc k st inp n k' st' inp' got oe :
  bvalid st -> bytes_ok (b_word st) -> bytes_ok inp ->
  read_call strict orc k st inp n = (k', st', inp', got, oe) ->
  bvalid st' /\ bytes_ok (b_word st') /\ bytes_ok inp' /\ bytes_ok got.
Proof.
  intros Hv Hwd Hb. pose proof Hv as (Hvr & Hvw & Hvi). unfold read_call. intros H.
  apply read_loop_inv in H; try assumption.
  - unfold bvalid. cbn [b_r b_word b_idx]. split; [assumption|]. split; [assumption|].
    rewrite firstn_length, skipn_length. lia.
  - apply bytes_ok_firstn, bytes_ok_skipn. assumption.
Qed.

Theorem read_calls_bytes_ok strict : forall fuel orc k st inp sizes j out e,
  bvalid st -> bytes_ok (b_word st) -> bytes_ok inp ->
  read_calls strict fuel orc k st inp sizes j = Some (out, e) -> bytes_ok out.
Proof.
  induction fuel as [|fuel IH]; intros orc k st inp sizes j out e Hv Hwd Hb; cbn [read_calls];
    [discriminate|].
  destruct (read_call strict orc k st inp (S (sizes j))) as [[[[k' st'] inp'] got] [e'|]] eqn:Ec;
    apply read_call_bytes_ok in Ec; try assumption; destruct Ec as (Hv' & Hwd' & Hb' & Hg).
  - intros [= <- <-]. assumption.
  - destruct (read_calls strict fuel orc k' st' inp' sizes (S j)) as [[o2 e2]|] eqn:Er;
      [|discriminate].
    intros [= <- <-]. apply bytes_ok_app. split; [assumption|].
    apply (IH orc k' st' inp' sizes (S j) o2 e2); assumption.
Qed.

Lemma b_init_valid : bvalid b_init.
Proof.
  unfold bvalid, rvalid, b_init, r_init. cbn [b_r b_word b_idx r_zeroes r_literal r_err].
  split; [repeat split; try lia; discriminate|]. split; [reflexivity|lia].
Qed.

Corollary read_calls_init_bytes_ok strict fuel orc inp sizes out e : bytes_ok inp ->
  read_calls strict fuel orc 0 b_init inp sizes 0 = Some (out, e) -> bytes_ok out.
Proof.
  intros Hb. apply read_calls_bytes_ok; [exact b_init_valid|apply (bytes_ok_zeros 8)|assumption].
Qed.

(* ------------------------------------------------------------ (b) the determined output *)

Definition pmap (w : list Z) (x : list Z * bool) : list Z * bool := (w ++ fst x, snd x).

Lemma pmap_nil x : pmap [] x = x.
Proof. destruct x; reflexivity. Qed.

Lemma pmap_pmap a b x : pmap a (pmap b x) = pmap (a ++ b) x.
Proof. unfold pmap. cbn [fst snd]. now rewrite app_assoc. Qed.

(* Specification function (no Go counterpart): the output determined by a packed string that
   may be cut anywhere.  Complete items contribute what [unpack] gives for them; the cut last
   item contributes the whole words it determines (its tag word if all bytes of that word are
   present; the literal words that are completely present); the flag says whether the string
   is a complete sequence of items (= [unpack] accepts). *)
Fixpoint unpack_partial_f (fuel : nat) (src : list Z) : list Z * bool :=
  match src with
  | [] => ([], true)
  | tag :: s =>
    match fuel with
    | O => ([], false)
    | S f =>
      match take_bits 8 tag s with
      | None => ([], false)
      | Some (w, s1) =>
        if tag =? 0 then
          match s1 with
          | [] => (w, false)
          | n :: s2 => pmap (w ++ zeros (8 * Z.to_nat n)) (unpack_partial_f f s2)
          end
        else if tag =? 255 then
          match s1 with
          | [] => (w, false)
          | n :: s2 =>
            let k := (8 * Z.to_nat n)%nat in
            if (length s2 <? k)%nat then (w ++ firstn (8 * (length s2 / 8)) s2, false)
            else pmap (w ++ firstn k s2) (unpack_partial_f f (skipn k s2))
          end
        else pmap w (unpack_partial_f f s1)
      end
    end
  end.

Definition unpack_partial (src : list Z) : list Z * bool := unpack_partial_f (length src) src.

Definition verdict (ok : bool) : rerr := if ok then EOF else UnexpectedEOF.

Lemma unpack_partial_f_fuel : forall f1 f2 src,
  (length src <= f1)%nat -> (length src <= f2)%nat ->
  unpack_partial_f f1 src = unpack_partial_f f2 src.
Proof.
  induction f1 as [|f1 IH]; intros f2 src H1 H2.
  - destruct src; [destruct f2; reflexivity|simpl in H1; lia].
  - destruct src as [|tag s]; [destruct f2; reflexivity|].
    destruct f2 as [|f2]; [simpl in H2; lia|].
    simpl in H1, H2. cbn [unpack_partial_f].
    destruct (take_bits 8 tag s) as [[w s1]|] eqn:E; [|reflexivity].
    apply take_bits_length in E. destruct E as (_ & E & _).
    destruct (tag =? 0).
    { destruct s1 as [|n s2]; [reflexivity|]. simpl in E. rewrite (IH f2 s2) by lia. reflexivity. }
    destruct (tag =? 255).
    { destruct s1 as [|n s2]; [reflexivity|]. simpl in E. cbv zeta.
      destruct (length s2 <? 8 * Z.to_nat n)%nat; [reflexivity|].
      rewrite (IH f2 (skipn (8 * Z.to_nat n) s2)); [reflexivity| |]; rewrite skipn_length; lia. }
    rewrite (IH f2 s1) by lia. reflexivity.
Qed.

Lemma unpack_partial_nil : unpack_partial [] = ([], true).
Proof. reflexivity. Qed.

(* the unfolding equation at canonical fuel *)
Lemma unpack_partial_cons tag s :
  unpack_partial (tag :: s) =
  match take_bits 8 tag s with
  | None => ([], false)
  | Some (w, s1) =>
    if tag =? 0 then
      match s1 with
      | [] => (w, false)
      | n :: s2 => pmap (w ++ zeros (8 * Z.to_nat n)) (unpack_partial s2)
      end
    else if tag =? 255 then
      match s1 with
      | [] => (w, false)
      | n :: s2 =>
        let k := (8 * Z.to_nat n)%nat in
        if (length s2 <? k)%nat then (w ++ firstn (8 * (length s2 / 8)) s2, false)
        else pmap (w ++ firstn k s2) (unpack_partial (skipn k s2))
      end
    else pmap w (unpack_partial s1)
  end.
Proof.
  unfold unpack_partial. cbn [length unpack_partial_f].
  destruct (take_bits 8 tag s) as [[w s1]|] eqn:E; [|reflexivity].
  apply take_bits_length in E. destruct E as (_ & E & _).
  destruct (tag =? 0).
  { destruct s1 as [|n s2]; [reflexivity|]. simpl in E.
    rewrite (unpack_partial_f_fuel (length s) (length s2) s2) by lia. reflexivity. }
  destruct (tag =? 255).
  { destruct s1 as [|n s2]; [reflexivity|]. simpl in E. cbv zeta.
    destruct (length s2 <? 8 * Z.to_nat n)%nat; [reflexivity|].
    rewrite (unpack_partial_f_fuel (length s) (length (skipn (8 * Z.to_nat n) s2))); [reflexivity| |];
      rewrite ?skipn_length; lia. }
  rewrite (unpack_partial_f_fuel (length s) (length s1) s1) by lia. reflexivity.
Qed.

(* on accepted strings it is the one-shot output; the flag is [unpack]'s verdict *)
Lemma unpack_partial_unpack_s : forall n src, (length src <= n)%nat ->
  match unpack_s true src with
  | Some out => unpack_partial src = (out, true)
  | None => snd (unpack_partial src) = false
  end.
Proof.
  induction n as [|n IH]; intros src Hn.
  { destruct src; [reflexivity|simpl in Hn; lia]. }
  destruct src as [|tag s]; [reflexivity|]. cbn [length] in Hn.
  rewrite unpack_s_cons, unpack_partial_cons.
  destruct (take_bits 8 tag s) as [[w s1]|] eqn:E; [|reflexivity].
  apply take_bits_length in E. destruct E as (_ & E & _).
  destruct (tag =? 0).
  { destruct s1 as [|c s2]; [reflexivity|]. cbn [length] in E.
    specialize (IH s2 ltac:(lia)). destruct (unpack_s true s2) as [r|]; cbn [option_map].
    - rewrite IH. unfold pmap. cbn [fst snd]. now rewrite app_assoc.
    - unfold pmap. cbn [snd]. exact IH. }
  destruct (tag =? 255).
  { destruct s1 as [|c s2]; [reflexivity|]. cbn [length] in E. cbv zeta. rewrite andb_true_l.
    destruct (length s2 <? 8 * Z.to_nat c)%nat eqn:El; [reflexivity|].
    specialize (IH (skipn (8 * Z.to_nat c) s2) ltac:(rewrite skipn_length; lia)).
    destruct (unpack_s true (skipn (8 * Z.to_nat c) s2)) as [r|]; cbn [option_map].
    - rewrite IH. unfold pmap. cbn [fst snd].
      replace (8 * Z.to_nat c - length s2)%nat with O by lia.
      change (zeros 0) with (@nil Z). cbn [app]. now rewrite app_assoc.
    - unfold pmap. cbn [snd]. exact IH. }
  specialize (IH s1 ltac:(lia)). destruct (unpack_s true s1) as [r|]; cbn [option_map].
  - rewrite IH. reflexivity.
  - unfold pmap. cbn [snd]. exact IH.
Qed.

Theorem unpack_partial_unpack src :
  match unpack src with
  | Some out => unpack_partial src = (out, true)
  | None => snd (unpack_partial src) = false
  end.
Proof. apply (unpack_partial_unpack_s (length src)). lia. Qed.

(* ------------------------------------------------------------ (b) ReadWord / Read against it *)

(* total denotation of a reader state: what will be handed out, and whether the end is clean *)
Definition EP (st : rstate) (inp : list Z) : list Z * bool :=
  let k := (8 * Z.to_nat (r_literal st))%nat in
  pmap (zeros (8 * Z.to_nat (r_zeroes st)))
       (if (length inp <? k)%nat then (firstn (8 * (length inp / 8)) inp, false)
        else pmap (firstn k inp) (unpack_partial (skipn k inp))).

Definition EP' (st : rstate) (inp : list Z) : list Z * bool :=
  match r_err st with Some _ => ([], false) | None => EP st inp end.

Lemma EP_idle s : EP (mkR 0 0 None) s = unpack_partial s.
Proof.
  unfold EP. cbn [r_zeroes r_literal]. change (8 * Z.to_nat 0)%nat with O.
  cbn [Nat.ltb Nat.leb skipn firstn zeros repeat]. now rewrite !pmap_nil.
Qed.

Lemma EP_zero z l inp : 0 < z ->
  EP (mkR z l None) inp = pmap (zeros 8) (EP (mkR (z - 1) l None) inp).
Proof.
  intros Hz. unfold EP. cbn [r_zeroes r_literal]. rewrite pmap_pmap, zeros_app.
  f_equal. f_equal. lia.
Qed.

Lemma EP_lit l inp : 0 < l -> (8 <= length inp)%nat ->
  EP (mkR 0 l None) inp = pmap (firstn 8 inp) (EP (mkR 0 (l - 1) None) (skipn 8 inp)).
Proof.
  intros Hl H8. unfold EP. cbn [r_zeroes r_literal]. change (zeros (8 * Z.to_nat 0)) with (@nil Z).
  rewrite !pmap_nil. rewrite skipn_length.
  replace (8 * Z.to_nat l)%nat with (8 + 8 * Z.to_nat (l - 1))%nat by lia.
  destruct (length inp <? 8 + 8 * Z.to_nat (l - 1))%nat eqn:E1.
  - replace (length inp - 8 <? 8 * Z.to_nat (l - 1))%nat with true by lia.
    unfold pmap. cbn [fst snd]. f_equal.
    replace (8 * (length inp / 8))%nat with (8 + 8 * ((length inp - 8) / 8))%nat by lia.
    apply firstn_add.
  - replace (length inp - 8 <? 8 * Z.to_nat (l - 1))%nat with false by lia.
    rewrite skipn_skipn'. rewrite (Nat.add_comm (8 * Z.to_nat (l - 1)) 8).
    rewrite pmap_pmap, firstn_add. reflexivity.
Qed.

Lemma EP_lit_short l inp : 0 < l -> (length inp < 8)%nat -> EP (mkR 0 l None) inp = ([], false).
Proof.
  intros Hl H8. unfold EP. cbn [r_zeroes r_literal]. change (zeros (8 * Z.to_nat 0)) with (@nil Z).
  rewrite pmap_nil. replace (length inp <? 8 * Z.to_nat l)%nat with true by lia.
  replace (length inp / 8)%nat with O by lia. reflexivity.
Qed.

(* one ReadWord call against the total denotation (validity / measure: [read_word_spec]) *)
Lemma read_word_specP fast st inp st' inp' out :
  rvalid st -> bytes_ok inp ->
  read_word true fast st inp = (st', inp', out) ->
  match out with
  | RWord w => EP' st inp = pmap w (EP' st' inp')
  | RErr e => exists ok, EP' st inp = ([], ok) /\ e = verdict ok
  end.
Proof.
  destruct st as [z l e]. unfold rvalid. cbn [r_zeroes r_literal r_err].
  intros (Hz & Hl & He) Hb. unfold read_word. cbn [r_err r_zeroes r_literal].
  destruct e as [e|].
  { inj3. exists false. unfold EP'. cbn [r_err]. split; [reflexivity|]. now apply He. }
  destruct (0 <? z) eqn:Ez.
  { inj3. unfold EP'. cbn [r_err]. apply EP_zero. lia. }
  assert (z = 0) by lia. subst z.
  destruct (0 <? l) eqn:El.
  { destruct (8 <=? length inp)%nat eqn:E8.
    - inj3. unfold EP'. cbn [r_err]. apply EP_lit; lia.
    - assert (X : EP' (mkR 0 l None) inp = ([], false)).
      { unfold EP'. cbn [r_err]. apply EP_lit_short; lia. }
      destruct inp; inj3; exists false; rewrite X; split; reflexivity. }
  assert (l = 0) by lia. subst l.
  destruct inp as [|tag s].
  { inj3. exists true. unfold EP'. cbn [r_err]. rewrite EP_idle. split; reflexivity. }
  rewrite word_choice.
  assert (X : EP' (mkR 0 0 None) (tag :: s) = unpack_partial (tag :: s)).
  { unfold EP'. cbn [r_err]. apply EP_idle. }
  rewrite X, unpack_partial_cons. clear X.
  destruct (take_bits 8 tag s) as [[w s1]|] eqn:E;
    [|inj3; exists false; split; reflexivity].
  destruct (tag =? 0).
  { destruct s1 as [|n s2]; inj3; unfold EP'; cbn [r_err].
    - unfold pmap. cbn [fst snd]. now rewrite app_nil_r.
    - rewrite <- pmap_pmap. f_equal. }
  destruct (tag =? 255).
  { destruct s1 as [|n s2]; inj3; unfold EP'; cbn [r_err].
    - unfold pmap. cbn [fst snd]. now rewrite app_nil_r.
    - cbv zeta. unfold EP. cbn [r_zeroes r_literal].
      change (zeros (8 * Z.to_nat 0)) with (@nil Z). rewrite pmap_nil.
      destruct (length s2 <? 8 * Z.to_nat n)%nat; [reflexivity|].
      now rewrite pmap_pmap. }
  inj3. unfold EP'. cbn [r_err]. now rewrite EP_idle.
Qed.

(* total denotation of the byte-level state *)
Definition DP (b : bstate) (inp : list Z) : list Z * bool :=
  pmap (skipn (b_idx b) (b_word b)) (EP' (b_r b) inp).

Lemma DP_idx8 b inp : bvalid b -> b_idx b = 8%nat -> DP b inp = EP' (b_r b) inp.
Proof.
  intros (_ & Hw & _) Hi. unfold DP. rewrite Hi, skipn_all2 by lia. apply pmap_nil.
Qed.

Lemma read_loop_specP : forall fuel orc k st inp want got k' st' inp' got' oe,
  bvalid st -> ((0 < want)%nat -> b_idx st = 8%nat) -> bytes_ok inp -> (want < fuel)%nat ->
  read_loop true fuel orc k st inp want got = (k', st', inp', got', oe) ->
  exists g, got' = got ++ g /\
  match oe with
  | None => DP st inp = pmap g (DP st' inp')
  | Some e => exists ok, DP st inp = (g, ok) /\ e = verdict ok
  end.
Proof.
  induction fuel as [|fuel IH]; intros orc k st inp want got k' st' inp' got' oe Hv Hi Hb Hf;
    [lia|].
  cbn [read_loop].
  destruct (want =? 0)%nat eqn:Ew.
  { inj5. exists []. rewrite app_nil_r, pmap_nil. split; reflexivity. }
  destruct (snd (orc k) && negb (length got =? 0)%nat) eqn:Es.
  { inj5. exists []. rewrite app_nil_r, pmap_nil. split; reflexivity. }
  assert (Hi8 : b_idx st = 8%nat) by (apply Hi; lia).
  pose proof Hv as (Hvr & Hvw & _).
  rewrite (DP_idx8 st inp Hv Hi8).
  destruct (read_word true (fst (orc k)) (b_r st) inp) as [[r' i'] [w|e]] eqn:Er;
    pose proof Er as ErP; apply read_word_spec in Er; try assumption;
    apply read_word_specP in ErP; try assumption.
  2:{ inj5. exists []. rewrite app_nil_r. split; [reflexivity|]. exact ErP. }
  destruct Er as (Hw & Hv' & Hb' & _ & _).
  assert (Hvn : bvalid (mkB r' (b_word st) 8)).
  { unfold bvalid. cbn [b_r b_word b_idx]. split; [assumption|]. split; [assumption|lia]. }
  destruct (8 <=? want)%nat eqn:E8.
  - intros H. apply IH in H; try assumption; [|reflexivity|lia].
    destruct H as (g & Hg & H). exists (w ++ g). split; [now rewrite Hg, app_assoc|].
    rewrite (DP_idx8 _ i' Hvn eq_refl) in H. cbn [b_r] in H. rewrite ErP.
    destruct oe as [e|].
    + destruct H as (ok & H1 & H2). exists ok. rewrite H1. split; [reflexivity|assumption].
    + rewrite H. apply pmap_pmap.
  - inj5. exists (firstn want w). split; [reflexivity|].
    rewrite ErP. unfold DP. cbn [b_r b_word b_idx]. rewrite pmap_pmap, firstn_skipn. reflexivity.
Qed.

(* One Read(p) call against the total denotation: the bytes returned are the next bytes of the
   denotation; an error is EOF exactly when the denotation ends cleanly with these bytes. *)
Lemma read_call_specP orc k st inp n k' st' inp' got oe :
  bvalid st -> bytes_ok inp -> (0 < n)%nat ->
  read_call true orc k st inp n = (k', st', inp', got, oe) ->
  match oe with
  | None => DP st inp = pmap got (DP st' inp')
  | Some e => exists ok, DP st inp = (got, ok) /\ e = verdict ok
  end.
Proof.
  intros Hv Hb Hn. pose proof Hv as (Hvr & Hvw & Hvi). unfold read_call.
  set (tail := skipn (b_idx st) (b_word st)).
  set (pre := firstn n tail).
  set (st1 := mkB (b_r st) (b_word st) (b_idx st + length pre)).
  assert (Htl : length tail = (8 - b_idx st)%nat) by (unfold tail; rewrite skipn_length; lia).
  assert (Hpl : length pre = Nat.min n (8 - b_idx st)) by (unfold pre; rewrite firstn_length; lia).
  assert (Hv1 : bvalid st1).
  { unfold bvalid, st1. cbn [b_r b_word b_idx]. split; [assumption|]. split; [assumption|lia]. }
  assert (HD1 : DP st inp = pmap pre (DP st1 inp)).
  { unfold DP, st1. cbn [b_r b_word b_idx]. rewrite pmap_pmap. f_equal.
    fold tail. rewrite Nat.add_comm, <- skipn_skipn'. fold tail. unfold pre.
    rewrite skipn_firstn_length, firstn_skipn. reflexivity. }
  intros H. apply read_loop_specP in H; try assumption; [| |lia].
  2:{ intros Hw. unfold st1. cbn [b_idx]. lia. }
  destruct H as (g & -> & H). rewrite HD1.
  destruct oe as [e|].
  - destruct H as (ok & H1 & H2). exists ok. rewrite H1. split; [reflexivity|assumption].
  - rewrite H. apply pmap_pmap.
Qed.

Theorem read_calls_specP : forall fuel orc k st inp sizes j,
  bvalid st -> bytes_ok inp -> (bmeasure st inp < fuel)%nat ->
  read_calls true fuel orc k st inp sizes j
  = Some (fst (DP st inp), verdict (snd (DP st inp))).
Proof.
  induction fuel as [|fuel IH]; intros orc k st inp sizes j Hv Hb Hf; [lia|].
  cbn [read_calls].
  destruct (read_call true orc k st inp (S (sizes j))) as [[[[k' st'] inp'] got] [e|]] eqn:Ec;
    pose proof Ec as EcP; apply read_call_spec in Ec; try assumption; try lia;
    apply read_call_specP in EcP; try assumption; try lia.
  - destruct EcP as (ok & -> & ->). reflexivity.
  - destruct Ec as (_ & Hv' & Hb' & _ & Hm).
    rewrite (IH orc k' st' inp' sizes (S j)) by (assumption || lia).
    rewrite EcP. reflexivity.
Qed.

Lemma DP_init inp : DP b_init inp = unpack_partial inp.
Proof.
  unfold DP, b_init, EP'. cbn [b_r b_word b_idx r_init r_err].
  fold r_init. change r_init with (mkR 0 0 None). rewrite EP_idle.
  change (skipn 8 (zeros 8)) with (@nil Z). apply pmap_nil.
Qed.

(* For every input (accepted by the one-shot decoder or not), every sequence of request sizes
   (each >= 1), every fast-path oracle and every short-read oracle: the Read calls hand out
   exactly the determined output of the input, then report EOF if the input is a complete
   sequence of items and UnexpectedEOF otherwise. *)
Theorem read_calls_partial : forall orc sizes inp, bytes_ok inp ->
  forall fuel, (2304 * length inp + 1 <= fuel)%nat ->
  read_calls true fuel orc 0 b_init inp sizes 0
  = Some (fst (unpack_partial inp), verdict (snd (unpack_partial inp))).
Proof.
  intros orc sizes inp Hb fuel Hf. rewrite <- DP_init. apply read_calls_specP.
  - exact b_init_valid.
  - assumption.
  - unfold bmeasure, rmeasure, b_init, r_init. cbn [b_r b_idx r_zeroes r_literal r_err]. lia.
Qed.

(* ------------------------------------------------------------ (b) unpack_partial vs unpack *)

Lemma take_bits_app : forall n tag s w s1 b,
  take_bits n tag s = Some (w, s1) -> take_bits n tag (s ++ b) = Some (w, s1 ++ b).
Proof.
  induction n as [|n IH]; intros tag s w s1 b H; cbn [take_bits] in *.
  - injection H as <- <-. reflexivity.
  - destruct (Z.odd tag).
    + destruct s as [|x s0]; [discriminate|]. cbn [app].
      destruct (take_bits n (tag / 2) s0) as [[w0 s0']|] eqn:E; [|discriminate].
      injection H as <- <-. now rewrite (IH _ _ _ _ b E).
    + destruct (take_bits n (tag / 2) s) as [[w0 s0']|] eqn:E; [|discriminate].
      injection H as <- <-. now rewrite (IH _ _ _ _ b E).
Qed.

(* a tag word that is cut can be completed *)
Lemma take_bits_complete : forall n tag s, take_bits n tag s = None ->
  exists e w, bytes_ok e /\ take_bits n tag (s ++ e) = Some (w, []).
Proof.
  induction n as [|n IH]; intros tag s H; cbn [take_bits] in H; [discriminate|].
  assert (B0 : byte_ok 0) by (unfold byte_ok; lia).
  destruct (Z.odd tag) eqn:Eo.
  - destruct s as [|x s0].
    + destruct (take_bits n (tag / 2) []) as [[w0 s0']|] eqn:E.
      * pose proof (take_bits_length _ _ _ _ _ E) as (_ & Hl & _). cbn [length] in Hl.
        destruct s0'; [|cbn [length] in Hl; lia].
        exists [0], (0 :: w0). split; [constructor; [exact B0|constructor]|].
        cbn [app take_bits]. now rewrite Eo, E.
      * destruct (IH _ _ E) as (e & w & He & Ht). cbn [app] in Ht.
        exists (0 :: e), (0 :: w). split; [constructor; assumption|].
        cbn [app take_bits]. now rewrite Eo, Ht.
    + destruct (take_bits n (tag / 2) s0) as [[w0 s0']|] eqn:E; [discriminate|].
      destruct (IH _ _ E) as (e & w & He & Ht).
      exists e, (x :: w). split; [assumption|]. cbn [app take_bits]. now rewrite Eo, Ht.
  - destruct (take_bits n (tag / 2) s) as [[w0 s0']|] eqn:E; [discriminate|].
    destruct (IH _ _ E) as (e & w & He & Ht).
    exists e, (0 :: w). split; [assumption|]. cbn [take_bits]. now rewrite Eo, Ht.
Qed.

Lemma firstn_app_le {A} k (a b : list A) : (k <= length a)%nat -> firstn k (a ++ b) = firstn k a.
Proof.
  intros H. rewrite firstn_app. replace (k - length a)%nat with O by lia.
  cbn [firstn]. apply app_nil_r.
Qed.

Lemma skipn_app_le {A} k (a b : list A) : (k <= length a)%nat -> skipn k (a ++ b) = skipn k a ++ b.
Proof.
  intros H. rewrite skipn_app. replace (k - length a)%nat with O by lia. reflexivity.
Qed.

(* an accepted prefix contributes exactly its one-shot output *)
Lemma Some_inj {A} (a b : A) : Some a = Some b -> a = b.
Proof. congruence. Qed.

Lemma unpack_partial_app_n : forall n a b oa, (length a <= n)%nat ->
  unpack_s true a = Some oa -> unpack_partial (a ++ b) = pmap oa (unpack_partial b).
Proof.
  induction n as [|n IH]; intros a b oa Hn H.
  { destruct a; [|simpl in Hn; lia]. rewrite unpack_s_nil in H. apply Some_inj in H; subst oa.
    cbn [app]. now rewrite pmap_nil. }
  destruct a as [|tag s].
  { rewrite unpack_s_nil in H. apply Some_inj in H; subst oa. cbn [app]. now rewrite pmap_nil. }
  cbn [length] in Hn. cbn [app]. rewrite unpack_s_cons in H. rewrite unpack_partial_cons.
  destruct (take_bits 8 tag s) as [[w s1]|] eqn:E; [|discriminate].
  rewrite (take_bits_app _ _ _ _ _ b E).
  apply take_bits_length in E. destruct E as (_ & E & _).
  destruct (tag =? 0).
  { destruct s1 as [|c s2]; [discriminate|]. cbn [length] in E. cbn [app].
    destruct (unpack_s true s2) as [r|] eqn:E2; [|discriminate]. cbn [option_map] in H.
    apply Some_inj in H; subst oa. rewrite (IH s2 b r) by (assumption || lia).
    rewrite pmap_pmap. now rewrite <- !app_assoc. }
  destruct (tag =? 255).
  { destruct s1 as [|c s2]; [discriminate|]. cbn [length] in E. cbn [app]. cbv zeta in H |- *.
    rewrite andb_true_l in H.
    destruct (length s2 <? 8 * Z.to_nat c)%nat eqn:El; [discriminate|].
    replace (length (s2 ++ b) <? 8 * Z.to_nat c)%nat with false by (rewrite app_length; lia).
    rewrite firstn_app_le, skipn_app_le by lia.
    destruct (unpack_s true (skipn (8 * Z.to_nat c) s2)) as [r|] eqn:E2; [|discriminate].
    cbn [option_map] in H. apply Some_inj in H; subst oa.
    rewrite (IH (skipn (8 * Z.to_nat c) s2) b r); [|rewrite skipn_length; lia|assumption].
    rewrite pmap_pmap. replace (8 * Z.to_nat c - length s2)%nat with O by lia.
    change (zeros 0) with (@nil Z). cbn [app]. now rewrite <- !app_assoc. }
  destruct (unpack_s true s1) as [r|] eqn:E2; [|discriminate]. cbn [option_map] in H.
  apply Some_inj in H; subst oa. rewrite (IH s1 b r) by (assumption || lia). now rewrite pmap_pmap.
Qed.

(* completeness: whatever follows an accepted prefix, the determined output starts with the
   one-shot output of that prefix (and continues with the determined output of the rest) *)
Theorem unpack_partial_app good rest out : unpack good = Some out ->
  unpack_partial (good ++ rest) = pmap out (unpack_partial rest).
Proof. intros H. apply (unpack_partial_app_n (length good)); [lia|exact H]. Qed.

Corollary unpack_partial_prefix good rest out : unpack good = Some out ->
  exists extra, fst (unpack_partial (good ++ rest)) = out ++ extra.
Proof.
  intros H. rewrite (unpack_partial_app _ _ _ H). exists (fst (unpack_partial rest)). reflexivity.
Qed.

(* soundness: the determined output is a prefix of what the one-shot decoder returns on an
   accepted extension of the string -- no byte of it is invented *)
Lemma unpack_partial_sound_n : forall n src, (length src <= n)%nat -> bytes_ok src ->
  exists ext more, bytes_ok ext /\
    unpack_s true (src ++ ext) = Some (fst (unpack_partial src) ++ more).
Proof.
  assert (B0 : bytes_ok [0]) by (repeat constructor; unfold byte_ok; lia).
  induction n as [|n IH]; intros src Hn Hb.
  { destruct src; [|simpl in Hn; lia]. exists [], []. split; [constructor|reflexivity]. }
  destruct src as [|tag s].
  { exists [], []. split; [constructor|reflexivity]. }
  cbn [length] in Hn. inversion Hb as [|? ? Htag Hs]; subst.
  rewrite unpack_partial_cons. cbn [app].
  destruct (take_bits 8 tag s) as [[w s1]|] eqn:E.
  2:{ (* the tag word itself is cut *)
    destruct (take_bits_complete _ _ _ E) as (e & w & He & Ht).
    destruct (tag =? 0) eqn:E0.
    { exists (e ++ [0]). eexists. split; [apply bytes_ok_app; auto|].
      rewrite app_assoc, unpack_s_cons, (take_bits_app _ _ _ _ _ [0] Ht), E0. cbn [app].
      rewrite unpack_s_nil. cbn [option_map fst]. reflexivity. }
    destruct (tag =? 255) eqn:E255.
    { exists (e ++ [0]). eexists. split; [apply bytes_ok_app; auto|].
      rewrite app_assoc, unpack_s_cons, (take_bits_app _ _ _ _ _ [0] Ht), E0, E255. cbn [app].
      cbv zeta. change (8 * Z.to_nat 0)%nat with O.
      cbn [length Nat.ltb Nat.leb andb firstn skipn Nat.sub]. rewrite unpack_s_nil.
      cbn [option_map fst]. reflexivity. }
    exists e. eexists. split; [assumption|].
    rewrite unpack_s_cons, Ht, E0, E255, unpack_s_nil. cbn [option_map fst]. reflexivity. }
  pose proof (take_bits_length _ _ _ _ _ E) as (_ & Hle & pre & Hpre & _).
  assert (Hs1 : bytes_ok s1) by (subst s; eapply bytes_ok_suffix; eassumption).
  destruct (tag =? 0) eqn:E0.
  { destruct s1 as [|c s2].
    - exists [0]. eexists. split; [assumption|].
      rewrite unpack_s_cons, (take_bits_app _ _ _ _ _ [0] E), E0. cbn [app].
      rewrite unpack_s_nil. cbn [option_map fst]. reflexivity.
    - inversion Hs1; subst. cbn [length] in Hle.
      destruct (IH s2 ltac:(lia) ltac:(assumption)) as (ext & more & Hext & Hu).
      exists ext, more. split; [assumption|].
      rewrite unpack_s_cons, (take_bits_app _ _ _ _ _ ext E), E0. cbn [app].
      rewrite Hu. cbn [option_map]. unfold pmap. cbn [fst]. now rewrite <- !app_assoc. }
  destruct (tag =? 255) eqn:E255.
  { destruct s1 as [|c s2].
    - exists [0]. eexists. split; [assumption|].
      rewrite unpack_s_cons, (take_bits_app _ _ _ _ _ [0] E), E0, E255. cbn [app].
      cbv zeta. change (8 * Z.to_nat 0)%nat with O.
      cbn [length Nat.ltb Nat.leb andb firstn skipn Nat.sub]. rewrite unpack_s_nil.
      cbn [option_map fst]. reflexivity.
    - inversion Hs1; subst. cbn [length] in Hle. cbv zeta.
      destruct (length s2 <? 8 * Z.to_nat c)%nat eqn:El.
      + (* the literal run is cut: fill it up *)
        set (k := (8 * Z.to_nat c)%nat) in *. set (m := (8 * (length s2 / 8))%nat).
        exists (zeros (k - length s2)), (skipn m s2 ++ zeros (k - length s2)).
        split; [apply bytes_ok_zeros|].
        assert (Hlen : length (s2 ++ zeros (k - length s2)) = k)
          by (rewrite app_length, length_zeros; lia).
        set (zz := zeros (k - length s2)) in *.
        rewrite unpack_s_cons, (take_bits_app _ _ _ _ _ zz E), E0, E255.
        cbn [app]. cbv zeta. fold k.
        replace (length (s2 ++ zz) <? k)%nat with false by lia.
        rewrite andb_false_r, firstn_all2, skipn_all2 by lia. rewrite unpack_s_nil.
        cbn [option_map fst]. replace (k - length (s2 ++ zz))%nat with O by lia.
        change (zeros 0) with (@nil Z). cbn [app]. rewrite app_nil_r. f_equal.
        rewrite <- app_assoc. f_equal. rewrite app_assoc, firstn_skipn. reflexivity.
      + destruct (IH (skipn (8 * Z.to_nat c) s2)) as (ext & more & Hext & Hu);
          [rewrite skipn_length; lia|now apply bytes_ok_skipn|].
        exists ext, more. split; [assumption|].
        rewrite unpack_s_cons, (take_bits_app _ _ _ _ _ ext E), E0, E255. cbn [app]. cbv zeta.
        replace (length (s2 ++ ext) <? 8 * Z.to_nat c)%nat with false by (rewrite app_length; lia).
        rewrite andb_false_r, firstn_app_le, skipn_app_le by lia.
        rewrite Hu. cbn [option_map]. unfold pmap. cbn [fst].
        replace (8 * Z.to_nat c - length (s2 ++ ext))%nat with O by (rewrite app_length; lia).
        change (zeros 0) with (@nil Z). cbn [app]. now rewrite <- !app_assoc. }
  destruct (IH s1 ltac:(lia) Hs1) as (ext & more & Hext & Hu).
  exists ext, more. split; [assumption|].
  rewrite unpack_s_cons, (take_bits_app _ _ _ _ _ ext E), E0, E255, Hu.
  cbn [option_map]. unfold pmap. cbn [fst]. now rewrite <- app_assoc.
Qed.

Theorem unpack_partial_sound src : bytes_ok src ->
  exists ext more, bytes_ok ext /\ unpack (src ++ ext) = Some (fst (unpack_partial src) ++ more).
Proof. intros Hb. apply (unpack_partial_sound_n (length src)); [lia|assumption]. Qed.

(* ------------------------------------------------------------ (b) at the Read interface *)

(* Prefix property of the byte interface on ANY input, in particular on inputs the one-shot
   decoder rejects.  For every oracle and all request sizes the Read calls return bytes [o]
   and then an error [e] such that
   - [o] is the determined output of the input (a function of the input alone);
   - [e] is EOF when [unpack] accepts the input (then o is its output), UnexpectedEOF otherwise;
   - completeness: for every split inp = good ++ rest with [unpack good = Some out], [o]
     starts with [out] (every complete item is delivered before the error);
   - soundness: some extension of the input is accepted by [unpack] with an output that starts
     with [o] (every byte handed out is a byte the one-shot decoder produces for an accepted
     extension of the input: nothing is invented before the error either). *)
Theorem read_calls_prefix : forall orc sizes inp, bytes_ok inp ->
  forall fuel, (2304 * length inp + 1 <= fuel)%nat ->
  exists o e,
    read_calls true fuel orc 0 b_init inp sizes 0 = Some (o, e) /\
    o = fst (unpack_partial inp) /\
    e = match unpack inp with Some _ => EOF | None => UnexpectedEOF end /\
    (forall good rest out, inp = good ++ rest -> unpack good = Some out ->
       exists extra, o = out ++ extra) /\
    (exists ext more, bytes_ok ext /\ unpack (inp ++ ext) = Some (o ++ more)).
Proof.
  intros orc sizes inp Hb fuel Hf.
  exists (fst (unpack_partial inp)), (verdict (snd (unpack_partial inp))).
  split; [now apply read_calls_partial|]. split; [reflexivity|]. split.
  { pose proof (unpack_partial_unpack inp) as H. destruct (unpack inp); rewrite H; reflexivity. }
  split.
  { intros good rest out -> H. now apply unpack_partial_prefix. }
  now apply unpack_partial_sound.
Qed.

(* link with the option-valued denotation of ReadCallProofs (for users of [read_call_spec]) *)
Lemma EP_expected st inp :
  match expected st inp with
  | Some s => EP st inp = (s, true)
  | None => snd (EP st inp) = false
  end.
Proof.
  unfold expected, EP.
  destruct (length inp <? 8 * Z.to_nat (r_literal st))%nat; [reflexivity|].
  pose proof (unpack_partial_unpack_s _ (skipn (8 * Z.to_nat (r_literal st)) inp) (le_n _)) as H.
  destruct (unpack_s true (skipn (8 * Z.to_nat (r_literal st)) inp)); cbn [option_map].
  - rewrite H. reflexivity.
  - unfold pmap. cbn [snd]. exact H.
Qed.

Lemma DP_D b inp :
  match D b inp with
  | Some s => DP b inp = (s, true)
  | None => snd (DP b inp) = false
  end.
Proof.
  unfold D, DP, expected', EP'. destruct (r_err (b_r b)); [reflexivity|].
  pose proof (EP_expected (b_r b) inp) as H.
  destruct (expected (b_r b) inp); cbn [option_map].
  - rewrite H. reflexivity.
  - unfold pmap. cbn [snd]. exact H.
Qed.

(* ------------------------------------------------------------ non-vacuity *)

(* ex_inp cut inside its literal run (count 2): one literal word is complete, the second has
   4 of 8 bytes.  The reader hands out the three complete items' output (5 words), the tag word
   of the literal item and its first literal word, then UnexpectedEOF; the 4 dangling bytes are
   not handed out.  The complete items are the first 4 bytes; completing the literal word makes
   the one-shot decoder accept with an output that extends what was handed out. *)
Example read_calls_prefix_example :
  let inp := firstn 26 ex_inp in
  let o := [0; 0; 0; 0; 5; 0; 0; 0] ++ zeros 24 ++ [1; 2; 3; 4; 5; 6; 7; 8] ++ [9; 9; 9; 9; 0; 0; 9; 9] in
  bytes_ok inp /\ unpack inp = None /\
  unpack_partial inp = (o, false) /\
  read_calls true (read_fuel inp) ex_orc 0 b_init inp ex_sizes 0 = Some (o, UnexpectedEOF) /\
  unpack (firstn 4 inp) = Some ([0; 0; 0; 0; 5; 0; 0; 0] ++ zeros 24) /\
  unpack (inp ++ [7; 7; 7; 7]) = Some (o ++ [7; 7; 7; 7; 7; 7; 7; 7]).
Proof.
  cbv zeta. split; [unfold bytes_ok, byte_ok; repeat constructor; lia|].
  repeat split; vm_compute; reflexivity.
Qed.

(* the hypotheses of the invariant theorems hold at the start of a stream that does not unpack,
   and the conclusion is not trivial there: a Read of 3 bytes returns 3 bytes and leaves the
   other 5 bytes of the decoded word in the word buffer *)
Example read_call_bytes_ok_example :
  let inp := firstn 26 ex_inp in
  bvalid b_init /\ bytes_ok (b_word b_init) /\ bytes_ok inp /\ unpack inp = None /\
  exists k' st' inp',
    read_call true ex_orc 0 b_init inp 3 = (k', st', inp', [0; 0; 0], None) /\
    b_idx st' = 3%nat /\ b_word st' = [0; 0; 0; 0; 5; 0; 0; 0].
Proof.
  cbv zeta. split; [exact b_init_valid|]. split; [apply (bytes_ok_zeros 8)|].
  split; [unfold bytes_ok, byte_ok; repeat constructor; lia|]. split; [vm_compute; reflexivity|].
  eexists. eexists. eexists. repeat split; vm_compute; reflexivity.
Qed.
