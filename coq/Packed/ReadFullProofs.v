(* (1) [read_call_err_not_full]: a Read call that returns an error returned strictly fewer
       bytes than requested -- for EVERY state, input, oracle, repaired or as-found code.  So
       io.ReadFull never sees an error together with a full buffer, i.e. never drops one.
   (2) [readfull_agrees]: a consumer that reads with io.ReadFull (any request sizes >= 1, any
       oracle) gets the one-shot decoder's output and verdict.
   (3) [readfull_eager_refuted]: with the Read variant that returns a parked error together
       with the data (seeded change C13-r4-1) the same consumer accepts a truncated input. *)
From CV Require Import Packed.Packed.
From CV Require Import Packed.PackSpec.
From CV Require Import Packed.PackedProofs.
From CV Require Import Packed.ReaderProofs.
From CV Require Import Packed.ReadCallProofs.
From CV Require Import Packed.ReadCallProofs2.
From CV Require Import Packed.ReadFull.
From Coq Require Import ZifyBool ZifyNat.
Open Scope Z_scope.
Ltac Zify.zify_post_hook ::= Z.div_mod_to_equations.

(* ------------------------------------------------------------ (1) lengths *)

Lemma RWord_inj a b : RWord a = RWord b -> a = b.
Proof. congruence. Qed.

(* a word returned by ReadWord has 8 bytes: any state, any input *)
Lemma read_word_len strict fast st inp st' inp' w :
  read_word strict fast st inp = (st', inp', RWord w) -> length w = 8%nat.
Proof.
  unfold read_word.
  assert (T : forall (a : rstate * list Z) x, (a, x) = (st', inp', RWord w) -> x = RWord w).
  { intros a x H. apply pair_equal_spec in H. apply H. }
  destruct (r_err st); [intros H; apply T in H; discriminate|].
  destruct (0 <? r_zeroes st).
  { intros H; apply T, RWord_inj in H. subst w. apply length_zeros. }
  destruct (0 <? r_literal st).
  { destruct (8 <=? length inp)%nat eqn:E8.
    - intros H; apply T, RWord_inj in H. subst w. rewrite firstn_length. lia.
    - destruct inp; intros H; apply T in H; discriminate. }
  destruct inp as [|tag s]; [intros H; apply T in H; discriminate|].
  rewrite word_choice.
  destruct (take_bits 8 tag s) as [[w0 s1]|] eqn:E; [|intros H; apply T in H; discriminate].
  apply take_bits_length in E. destruct E as (Hw & _).
  destruct (tag =? 0).
  { destruct s1; intros H; apply T, RWord_inj in H; subst w; exact Hw. }
  destruct (tag =? 255).
  { destruct s1; intros H; apply T, RWord_inj in H; subst w; exact Hw. }
  intros H; apply T, RWord_inj in H; subst w; exact Hw.
Qed.

Lemma read_loop_len strict : forall fuel orc k st inp want got k' st' inp' got' oe,
  read_loop strict fuel orc k st inp want got = (k', st', inp', got', oe) ->
  (length got' <= length got + want)%nat /\
  (oe <> None -> (length got' < length got + want)%nat).
Proof.
  induction fuel as [|fuel IH]; intros orc k st inp want got k' st' inp' got' oe; cbn [read_loop].
  { inj5. split; [lia|congruence]. }
  destruct (want =? 0)%nat eqn:Ew; [inj5; split; [lia|congruence]|].
  destruct (snd (orc k) && negb (length got =? 0)%nat); [inj5; split; [lia|congruence]|].
  destruct (read_word strict (fst (orc k)) (b_r st) inp) as [[r' i'] [w|e]] eqn:Er.
  2:{ inj5. split; [lia|intros _; lia]. }
  apply read_word_len in Er.
  destruct (8 <=? want)%nat eqn:E8.
  - intros H. apply IH in H. rewrite app_length in H. destruct H as [H1 H2].
    split; [lia|]. intros X. specialize (H2 X). lia.
  - inj5. rewrite app_length, firstn_length. split; [lia|congruence].
Qed.

(* Read(p) never returns more than len(p) bytes ... *)
Theorem read_call_len_le strict orc k st inp n k' st' inp' got oe :
  read_call strict orc k st inp n = (k', st', inp', got, oe) -> (length got <= n)%nat.
Proof.
  unfold read_call. intros H. apply read_loop_len in H. rewrite firstn_length in H. lia.
Qed.

(* ... and strictly fewer when it returns an error (EOF or UnexpectedEOF): any state, any
   input, any oracle, repaired or as-found code, any request size *)
Theorem read_call_err_not_full strict orc k st inp n k' st' inp' got e :
  read_call strict orc k st inp n = (k', st', inp', got, Some e) -> (length got < n)%nat.
Proof.
  unfold read_call. intros H. apply read_loop_len in H. rewrite firstn_length in H.
  destruct H as [_ H]. specialize (H ltac:(discriminate)). lia.
Qed.

(* ------------------------------------------------------------ (2) the ReadFull consumer *)

(* One io.ReadFull of [need] >= 1 bytes from a valid state (repaired code):
   - no error: exactly [need] bytes, the next bytes of the denotation; valid state; measure down;
   - an error: fewer than [need] bytes; they complete the denotation and the error is EOF when
     there are none, UnexpectedEOF when there are some (ReadAtLeast's mapping); or the rest of
     the stream is invalid and the error is UnexpectedEOF. *)
Lemma readfull_loop_spec : forall fuel orc k st inp need any,
  bvalid st -> bytes_ok inp -> (0 < need <= fuel)%nat ->
  exists k' st' inp' g oe,
    readfull_loop (read_rd true orc) fuel k st inp need any = Some (k', st', inp', g, oe) /\
    match oe with
    | None =>
        length g = need /\ bvalid st' /\ bytes_ok inp' /\
        D st inp = option_map (app g) (D st' inp') /\
        (bmeasure st' inp' < bmeasure st inp)%nat
    | Some e =>
        (length g < need)%nat /\
        match D st inp with
        | Some o => o = g /\
                    e = (if any || negb (length g =? 0)%nat then UnexpectedEOF else EOF)
        | None => e = UnexpectedEOF
        end
    end.
Proof.
  induction fuel as [|fuel IH]; intros orc k st inp need any Hv Hb Hn; [lia|].
  cbn [readfull_loop]. unfold read_rd at 1.
  destruct (read_call true orc k st inp need) as [[[[k1 st1] inp1] g] oe] eqn:Ec.
  pose proof (read_call_len_le _ _ _ _ _ _ _ _ _ _ _ Ec) as Hle.
  pose proof Ec as Es. apply read_call_spec in Es; try assumption; [|lia].
  destruct oe as [e|].
  - (* Read failed: fewer bytes than asked for, so nothing is dropped *)
    apply read_call_err_not_full in Ec.
    replace (need <=? length g)%nat with false by lia.
    eexists _, _, _, _, _. split; [reflexivity|]. cbv beta iota. split; [assumption|].
    destruct (D st inp) as [o|].
    + destruct Es as (-> & ->). split; reflexivity.
    + subst e. reflexivity.
  - destruct Es as (Hg & Hv1 & Hb1 & HD & Hm).
    assert (Hgl : (0 < length g)%nat) by (destruct g; [congruence|cbn [length]; lia]).
    destruct (need <=? length g)%nat eqn:Ef.
    + eexists _, _, _, _, _. split; [reflexivity|]. cbv beta iota.
      split; [lia|]. auto.
    + replace (any || negb (length g =? 0)%nat) with true by lia.
      destruct (IH orc k1 st1 inp1 (need - length g)%nat true Hv1 Hb1 ltac:(lia))
        as (k2 & st2 & inp2 & r & oe2 & Hr & Hs).
      rewrite Hr. eexists _, _, _, _, _. split; [reflexivity|].
      destruct oe2 as [e2|].
      * destruct Hs as (Hrl & Hs). split; [rewrite app_length; lia|]. rewrite HD.
        destruct (D st1 inp1) as [o1|]; cbn [option_map]; [|exact Hs].
        destruct Hs as (-> & ->). split; [reflexivity|].
        rewrite app_length. replace (any || negb (length g + length r =? 0)%nat) with true by lia.
        reflexivity.
      * destruct Hs as (Hrl & Hv2 & Hb2 & HD2 & Hm2).
        split; [rewrite app_length; lia|]. split; [assumption|]. split; [assumption|].
        split; [rewrite HD, HD2; apply option_map_app_app|lia].
Qed.

(* the error a ReadFull consumer ends with on a stream whose unpacked form has [len] bytes left
   before request j: a clean EOF exactly when the data ends on a request boundary (this is
   io.ReadFull's contract, not a property of the packed layer) *)
Fixpoint rf_verdict (fuel : nat) (sizes : nat -> nat) (j : nat) (len : nat) : rerr :=
  match fuel with
  | O => EOF
  | S f =>
    if (len =? 0)%nat then EOF
    else if (len <? S (sizes j))%nat then UnexpectedEOF
    else rf_verdict f sizes (S j) (len - S (sizes j))
  end.

Theorem readfull_all_spec : forall fuel orc k st inp sizes j,
  bvalid st -> bytes_ok inp -> (bmeasure st inp < fuel)%nat ->
  match D st inp with
  | Some s => forall F, (length s <= F)%nat ->
      readfull_all (read_rd true orc) fuel k st inp sizes j
      = Some (s, rf_verdict F sizes j (length s))
  | None => exists o, readfull_all (read_rd true orc) fuel k st inp sizes j
                      = Some (o, UnexpectedEOF)
  end.
Proof.
  induction fuel as [|fuel IH]; intros orc k st inp sizes j Hv Hb Hf; [lia|].
  cbn [readfull_all]. unfold readfull_call.
  replace (S (sizes j) =? 0)%nat with false by lia.
  destruct (readfull_loop_spec (S (S (sizes j))) orc k st inp (S (sizes j)) false Hv Hb ltac:(lia))
    as (k' & st' & inp' & g & oe & Hr & Hs).
  rewrite Hr. destruct oe as [e|].
  - destruct Hs as (Hgl & Hs). destruct (D st inp) as [s|].
    + destruct Hs as (-> & ->). intros F HF. f_equal. f_equal.
      rewrite orb_false_l. destruct F as [|F].
      * replace (length g =? 0)%nat with true by lia. reflexivity.
      * cbn [rf_verdict]. destruct (length g =? 0)%nat eqn:E0; [reflexivity|].
        cbn [negb]. replace (length g <? S (sizes j))%nat with true by lia. reflexivity.
    + subst e. eexists. reflexivity.
  - destruct Hs as (Hgl & Hv' & Hb' & HD & Hm).
    specialize (IH orc k' st' inp' sizes (S j) Hv' Hb' ltac:(lia)). rewrite HD.
    destruct (D st' inp') as [s'|]; cbn [option_map].
    + intros F HF. rewrite app_length in HF. destruct F as [|F]; [lia|].
      rewrite (IH F) by lia. f_equal. f_equal. cbn [rf_verdict]. rewrite app_length.
      replace (length g + length s' =? 0)%nat with false by lia.
      replace (length g + length s' <? S (sizes j))%nat with false by lia.
      f_equal. lia.
    + destruct IH as (o & ->). eexists. reflexivity.
Qed.

(* For every input, every sequence of request sizes (ReadFull j asks for S (sizes j) >= 1
   bytes), every fast-path oracle and every short-read oracle, any fuel above the bound: the
   concatenation of what the io.ReadFull calls return is the one-shot decoder's output, and the
   final error is io.ReadFull's verdict on that output (EOF iff it ends on a request boundary);
   an input the one-shot decoder rejects ends with UnexpectedEOF -- never with a clean EOF. *)
Theorem readfull_agrees : forall orc sizes inp, bytes_ok inp ->
  forall fuel, (2304 * length inp + 1 <= fuel)%nat ->
  match unpack inp with
  | Some out => readfull_all (read_rd true orc) fuel 0 b_init inp sizes 0
                = Some (out, rf_verdict (length out) sizes 0 (length out))
  | None => exists o, readfull_all (read_rd true orc) fuel 0 b_init inp sizes 0
                      = Some (o, UnexpectedEOF)
  end.
Proof.
  intros orc sizes inp Hb fuel Hf.
  pose proof (readfull_all_spec fuel orc 0%nat b_init inp sizes 0%nat b_init_valid Hb) as H.
  rewrite D_init in H.
  assert (Hm : (bmeasure b_init inp < fuel)%nat).
  { unfold bmeasure, rmeasure, b_init, r_init. cbn [b_r b_idx r_zeroes r_literal r_err]. lia. }
  specialize (H Hm). destruct (unpack inp) as [out|]; [apply H; lia|exact H].
Qed.

(* the verdict is a clean EOF when the consumer asks for one byte at a time ... *)
Lemma rf_verdict_bytes : forall F j len, rf_verdict F (fun _ => 0%nat) j len = EOF.
Proof.
  induction F as [|F IH]; intros j len; cbn [rf_verdict]; [reflexivity|].
  destruct (len =? 0)%nat eqn:E0; [reflexivity|].
  replace (len <? 1)%nat with false by lia. apply IH.
Qed.

(* ... so for that consumer the statement has exactly the shape of [read_calls_agree] *)
Corollary readfull_agrees_bytes orc inp : bytes_ok inp ->
  match unpack inp with
  | Some out => readfull_all (read_rd true orc) (read_fuel inp) 0 b_init inp (fun _ => 0%nat) 0
                = Some (out, EOF)
  | None => exists o, readfull_all (read_rd true orc) (read_fuel inp) 0 b_init inp
                                   (fun _ => 0%nat) 0 = Some (o, UnexpectedEOF)
  end.
Proof.
  intros Hb. pose proof (readfull_agrees orc (fun _ => 0%nat) inp Hb (read_fuel inp)) as H.
  unfold read_fuel in *. specialize (H ltac:(lia)).
  destruct (unpack inp); [now rewrite rf_verdict_bytes in H|exact H].
Qed.

(* ------------------------------------------------------------ non-vacuity / refutation *)

(* ex_inp unpacks to 64 bytes.  ReadFull with 16-byte buffers: 4 full reads, then a clean EOF;
   request sizes 1,3,8,9 cycling (both oracles varying): 64 = 3*21 + 1 ends on a boundary, EOF;
   with 10-byte buffers the data ends inside the 7th request -> UnexpectedEOF, which is
   ReadFull's contract; all 64 bytes are delivered in every case. *)
Example readfull_example :
  exists out, unpack ex_inp = Some out /\ length out = 64%nat /\
    readfull_all (read_rd true ex_orc) (read_fuel ex_inp) 0 b_init ex_inp (fun _ => 15%nat) 0
    = Some (out, EOF) /\
    readfull_all (read_rd true ex_orc) (read_fuel ex_inp) 0 b_init ex_inp ex_sizes 0
    = Some (out, EOF) /\
    readfull_all (read_rd true ex_orc) (read_fuel ex_inp) 0 b_init ex_inp (fun _ => 9%nat) 0
    = Some (out, UnexpectedEOF) /\
    rf_verdict 64 (fun _ => 9%nat) 0 64 = UnexpectedEOF.
Proof. eexists. split; [vm_compute; reflexivity|]. repeat split; vm_compute; reflexivity. Qed.

(* A stream cut between a zero-tag word and its run-count byte: [1;7] is the word 7,0,..,0;
   [0] is the tag of an all-zero word whose count byte is missing.  The one-shot decoder
   rejects it.  With Reader.Read as it is, a ReadFull of 16 bytes returns the 16 bytes and the
   NEXT ReadFull reports UnexpectedEOF (the parked error).  With the variant that returns the
   parked error together with the 16 bytes and clears it, ReadFull drops the error (buffer
   full) and the next ReadFull reports a clean EOF: the truncated stream is accepted. *)
Example readfull_eager_refuted :
  let p := [1; 7; 0] in
  let orc := fun _ : nat => (false, false) in
  let sizes := fun _ : nat => 15%nat in
  unpack p = None /\
  readfull_all (read_rd true orc) (read_fuel p) 0 b_init p sizes 0
  = Some ([7; 0; 0; 0; 0; 0; 0; 0] ++ zeros 8, UnexpectedEOF) /\
  readfull_all (read_call_eager true orc) (read_fuel p) 0 b_init p sizes 0
  = Some ([7; 0; 0; 0; 0; 0; 0; 0] ++ zeros 8, EOF) /\
  (* the variant violates (1): an error together with a full buffer *)
  (exists k' st' inp' got e,
     read_call_eager true orc 0%nat b_init p 16%nat = (k', st', inp', got, Some e) /\ length got = 16%nat) /\
  (* a plain Read loop over the variant still sees the error *)
  (exists k' st' inp',
     read_call_eager true orc 0%nat b_init p 16%nat
     = (k', st', inp', [7; 0; 0; 0; 0; 0; 0; 0] ++ zeros 8, Some UnexpectedEOF)).
Proof.
  cbv zeta. split; [vm_compute; reflexivity|]. split; [vm_compute; reflexivity|].
  split; [vm_compute; reflexivity|]. split.
  - eexists _, _, _, _, _. split; vm_compute; reflexivity.
  - eexists _, _, _. vm_compute. reflexivity.
Qed.
