(* An io.ReadFull-style consumer of packed.Reader.Read (this is how capnp.Decoder reads a
   packed stream: io.ReadFull(d.r, buf)), and a variant of Read used for a refutation.
   Definitions only; proofs are in ReadFullProofs.v.

   io.ReadFull(r, buf) = io.ReadAtLeast(r, buf, len(buf)):
       for n < min && err == nil { nn, err = r.Read(buf[n:]); n += nn }
       if n >= min { err = nil } else if n > 0 && err == io.EOF { err = io.ErrUnexpectedEOF }
       return
   Note the first branch: an error that arrives together with the bytes that fill the buffer is
   DROPPED. *)
From CV Require Import Packed.Packed.
Open Scope Z_scope.

(* one Read call: step counter, state, rest of the input, len(p) -> new counter, state, rest,
   bytes returned, error *)
Definition read_fn : Type :=
  nat -> bstate -> list Z -> nat -> nat * bstate * list Z * list Z * option rerr.

(* the ReadAtLeast loop with min = len(buf) = need, entered with need > 0.  [any]: n > 0 so far.
   Fuel exhaustion ([None]) is a distinct outcome; every Read that returns no error returns at
   least one byte, so [need] iterations are enough. *)
Fixpoint readfull_loop (rd : read_fn) (fuel : nat) (k : nat) (st : bstate) (inp : list Z)
         (need : nat) (any : bool)
  : option (nat * bstate * list Z * list Z * option rerr) :=
  match fuel with
  | O => None
  | S f =>
    match rd k st inp need with
    | (k', st', inp', g, oe) =>
      let any' := any || negb (length g =? 0)%nat in
      if (need <=? length g)%nat then Some (k', st', inp', g, None)        (* n >= min: err = nil *)
      else
        match oe with
        | Some e =>
          Some (k', st', inp', g,
                Some (match e with
                      | EOF => if any' then UnexpectedEOF else EOF
                      | UnexpectedEOF => UnexpectedEOF
                      end))
        | None =>
          match readfull_loop rd f k' st' inp' (need - length g) any' with
          | Some (k2, st2, inp2, r, oe2) => Some (k2, st2, inp2, g ++ r, oe2)
          | None => None
          end
        end
    end
  end.

(* io.ReadFull(r, buf) with len(buf) = need *)
Definition readfull_call (rd : read_fn) (k : nat) (st : bstate) (inp : list Z) (need : nat)
  : option (nat * bstate * list Z * list Z * option rerr) :=
  if (need =? 0)%nat then Some (k, st, inp, [], None)
  else readfull_loop rd (S need) k st inp need false.

(* a consumer that calls ReadFull with buffers of S (sizes j) >= 1 bytes until the first error *)
Fixpoint readfull_all (rd : read_fn) (fuel : nat) (k : nat) (st : bstate) (inp : list Z)
         (sizes : nat -> nat) (j : nat) : option (list Z * rerr) :=
  match fuel with
  | O => None
  | S f =>
    match readfull_call rd k st inp (S (sizes j)) with
    | None => None
    | Some (_, _, _, got, Some e) => Some (got, e)
    | Some (k', st', inp', got, None) =>
      match readfull_all rd f k' st' inp' sizes (S j) with
      | Some (out, e) => Some (got ++ out, e)
      | None => None
      end
    end
  end.

(* the code that exists: Reader.Read *)
Definition read_rd (strict : bool) (orc : nat -> bool * bool) : read_fn := read_call strict orc.

(* REFUTED VARIANT (seeded change C13-r4-1, not the code in the repository): the final
   "return n, nil" of Read became "err, r.err = r.err, nil; return n, err", i.e. an error parked
   by ReadWord is handed back together with the data of the same call, and cleared.  (Read's
   other "return n, nil", the short-read exit inside the loop, was not changed; this tiny variant
   does not distinguish the two exits, so it is the seeded change exactly for oracles whose
   short-read component is constantly false.) *)
Definition read_call_eager (strict : bool) (orc : nat -> bool * bool) : read_fn :=
  fun k st inp n =>
    match read_call strict orc k st inp n with
    | (k', st', inp', got, None) =>
      match r_err (b_r st') with
      | Some e =>
        (k', mkB (mkR (r_zeroes (b_r st')) (r_literal (b_r st')) None) (b_word st') (b_idx st'),
         inp', got, Some e)
      | None => (k', st', inp', got, None)
      end
    | x => x
    end.
