(* L2: the packing grammar of https://capnproto.org/encoding.html#packing, written
   without reference to the Go code.  A packed stream is a sequence of items:
     tag byte; one byte for every 1 bit of the tag (LSB first), giving one word;
     if tag = 0x00 : a count byte n, standing for n further zero words;
     if tag = 0xff : a count byte n, followed by n literal words (8n bytes).
   The decoder is strict: an item that is not complete makes the stream invalid. *)
From Coq Require Export List ZArith Bool Lia.
Export ListNotations.
Open Scope Z_scope.

(* the i-th bit (LSB first) of the tag selects whether a byte is present *)
Fixpoint spec_word (n : nat) (tag : Z) (src : list Z) : option (list Z * list Z) :=
  match n with
  | O => Some ([], src)
  | S n' =>
    if Z.testbit tag 0 then
      match src with
      | [] => None
      | b :: s => match spec_word n' (Z.shiftr tag 1) s with
                  | Some (w, s') => Some (b :: w, s') | None => None end
      end
    else match spec_word n' (Z.shiftr tag 1) src with
         | Some (w, s') => Some (0 :: w, s') | None => None end
  end.

Fixpoint spec_unpack_f (fuel : nat) (src : list Z) : option (list Z) :=
  match src with
  | [] => Some []
  | tag :: s =>
    match fuel with
    | O => None
    | S f =>
      match spec_word 8 tag s with
      | None => None
      | Some (w, s1) =>
        if tag =? 0 then
          match s1 with
          | [] => None
          | n :: s2 =>
            match spec_unpack_f f s2 with
            | Some r => Some (w ++ repeat 0 (8 * Z.to_nat n) ++ r)
            | None => None end
          end
        else if tag =? 255 then
          match s1 with
          | [] => None
          | n :: s2 =>
            let k := (8 * Z.to_nat n)%nat in
            if (length s2 <? k)%nat then None
            else match spec_unpack_f f (skipn k s2) with
                 | Some r => Some (w ++ firstn k s2 ++ r)
                 | None => None end
          end
        else match spec_unpack_f f s1 with
             | Some r => Some (w ++ r)
             | None => None end
      end
    end
  end.

Definition spec_unpack (src : list Z) : option (list Z) := spec_unpack_f (length src) src.
