(* L1 model of /repo/internal/packed/packed.go : Pack, Unpack, Reader.ReadWord, Reader.Read.
   Bytes are Z in [0,256).  A payload is a list of words, a word a list of 8 bytes.
   No proofs in this file (the model must still run when a proof breaks). *)
From Coq Require Export List ZArith Bool Lia.
Export ListNotations.
Open Scope Z_scope.

Definition byte_ok (b : Z) : Prop := 0 <= b < 256.
Definition bytes_ok (l : list Z) : Prop := Forall byte_ok l.
Definition word_ok (w : list Z) : Prop := length w = 8%nat /\ bytes_ok w.
Definition words_ok (ws : list (list Z)) : Prop := Forall word_ok ws.

Definition zeros (n : nat) : list Z := repeat 0 n.

(* chunk a byte string into 8-byte words; None when the length is not a multiple of 8
   (Pack panics there: "len(src) must be a multiple of 8"). *)
Fixpoint chunk8 (fuel : nat) (l : list Z) : option (list (list Z)) :=
  match l with
  | [] => Some []
  | _ =>
    match fuel with
    | O => None
    | S f =>
      if (length l <? 8)%nat then None
      else match chunk8 f (skipn 8 l) with
           | Some r => Some (firstn 8 l :: r)
           | None => None
           end
    end
  end.

(* ---------------------------------------------------------------- Pack *)

(* hdr |= 1<<i for every non-zero byte i of the word *)
Fixpoint tag_of (w : list Z) : Z :=
  match w with
  | [] => 0
  | b :: r => (if b =? 0 then 0 else 1) + 2 * tag_of r
  end.

Definition nonzero (w : list Z) : list Z := filter (fun b => negb (b =? 0)) w.

Definition is_zero_word (w : list Z) : bool := forallb (fun b => b =? 0) w.

(* numZeroWords: number of leading all-zero words *)
Fixpoint num_zero_words (ws : list (list Z)) : nat :=
  match ws with
  | w :: r => if is_zero_word w then S (num_zero_words r) else O
  | [] => O
  end.

Definition count_zeros (w : list Z) : nat := length (filter (fun b => b =? 0) w).

(* the unpackedTag loop: leading words with at most one zero byte, at most n of them *)
Fixpoint lit_run (n : nat) (ws : list (list Z)) : nat :=
  match n, ws with
  | S n', w :: r => if (count_zeros w <=? 1)%nat then S (lit_run n' r) else O
  | _, _ => O
  end.

Fixpoint pack_f (fuel : nat) (ws : list (list Z)) : list Z :=
  match fuel with
  | O => []
  | S f =>
    match ws with
    | [] => []
    | w :: r =>
      let hdr := tag_of w in
      let out := hdr :: nonzero w in
      if hdr =? 0 then
        let z := Nat.min (num_zero_words r) 255 in
        out ++ Z.of_nat z :: pack_f f (skipn z r)
      else if hdr =? 255 then
        let i := lit_run 255 r in
        out ++ Z.of_nat i :: concat (firstn i r) ++ pack_f f (skipn i r)
      else out ++ pack_f f r
    end
  end.

Definition pack (ws : list (list Z)) : list Z := pack_f (length ws) ws.

Definition pack_bytes (bs : list Z) : option (list Z) :=
  match chunk8 (length bs) bs with
  | Some ws => Some (pack ws)
  | None => None            (* Go: panic *)
  end.

(* -------------------------------------------------------------- Unpack *)

(* slow path of Unpack / ReadWord: one input byte per set tag bit *)
Fixpoint take_bits (n : nat) (tag : Z) (src : list Z) : option (list Z * list Z) :=
  match n with
  | O => Some ([], src)
  | S n' =>
    if Z.odd tag then
      match src with
      | [] => None
      | b :: s =>
        match take_bits n' (tag / 2) s with
        | Some (w, s') => Some (b :: w, s')
        | None => None
        end
      end
    else
      match take_bits n' (tag / 2) src with
      | Some (w, s') => Some (0 :: w, s')
      | None => None
      end
  end.

(* fast path (needs len(src) >= 8): p[k] = src[i] & -nz ; i += nz.
   [nth i src 0] is only evaluated with i < 8 <= length src. *)
Fixpoint fast_bits (n : nat) (tag : Z) (src : list Z) (i : nat) : list Z * nat :=
  match n with
  | O => ([], i)
  | S n' =>
    let nz := Z.odd tag in
    let b := if nz then nth i src 0 else 0 in
    let '(w, i') := fast_bits n' (tag / 2) src (if nz then S i else i) in
    (b :: w, i')
  end.

Definition unpack_word (tag : Z) (src : list Z) : option (list Z * list Z) :=
  if (8 <=? length src)%nat then
    let '(w, i) := fast_bits 8 tag src 0 in Some (w, skipn i src)
  else take_bits 8 tag src.

(* [strict] = true : the repaired code (a literal run that is cut short is an error);
   [strict] = false: the code as found (defect F07: the missing tail is zero-filled). *)
Fixpoint unpack_f (strict : bool) (fuel : nat) (src : list Z) : option (list Z) :=
  match src with
  | [] => Some []
  | tag :: s =>
    match fuel with
    | O => None
    | S f =>
      match unpack_word tag s with
      | None => None
      | Some (w, s1) =>
        if tag =? 0 then
          match s1 with
          | [] => None
          | n :: s2 => option_map (fun r => w ++ zeros (8 * Z.to_nat n) ++ r) (unpack_f strict f s2)
          end
        else if tag =? 255 then
          match s1 with
          | [] => None
          | n :: s2 =>
            let k := (8 * Z.to_nat n)%nat in
            if strict && (length s2 <? k)%nat then None
            else option_map (fun r => w ++ firstn k s2 ++ zeros (k - length s2) ++ r)
                            (unpack_f strict f (skipn k s2))
          end
        else option_map (fun r => w ++ r) (unpack_f strict f s1)
      end
    end
  end.

Definition unpack (src : list Z) : option (list Z) := unpack_f true (length src) src.
Definition unpack_prefix (src : list Z) : option (list Z) := unpack_f false (length src) src.

(* ------------------------------------------------- streaming Reader *)

Inductive rerr := EOF | UnexpectedEOF.

Record rstate := mkR { r_zeroes : Z; r_literal : Z; r_err : option rerr }.
Definition r_init : rstate := mkR 0 0 None.

Inductive rw_out := RWord (w : list Z) | RErr (e : rerr).

(* ReadWord.  [fast] is the oracle for "r.rd.Buffered() >= 9"; it can only be honoured
   when 9 bytes remain.  [strict] as above (defect F08: io.ReadFull's clean io.EOF
   inside a literal run is passed through). *)
Definition read_word (strict fast : bool) (st : rstate) (inp : list Z)
  : rstate * list Z * rw_out :=
  match r_err st with
  | Some e => (mkR (r_zeroes st) (r_literal st) None, inp, RErr e)
  | None =>
    if 0 <? r_zeroes st then
      (mkR (r_zeroes st - 1) (r_literal st) None, inp, RWord (zeros 8))
    else if 0 <? r_literal st then
      let st' := mkR (r_zeroes st) (r_literal st - 1) None in
      if (8 <=? length inp)%nat then (st', skipn 8 inp, RWord (firstn 8 inp))
      else match inp with
           | [] => (st', [], RErr (if strict then UnexpectedEOF else EOF))
           | _ => (st', [], RErr UnexpectedEOF)
           end
    else
      match inp with
      | [] => (st, [], RErr EOF)
      | tag :: s =>
        let r :=
          if fast && (8 <=? length s)%nat
          then (let '(w, i) := fast_bits 8 tag s 0 in Some (w, skipn i s))
          else take_bits 8 tag s in
        match r with
        | None => (st, [], RErr UnexpectedEOF)
        | Some (w, s1) =>
          if tag =? 0 then
            match s1 with
            | [] => (mkR (r_zeroes st) (r_literal st) (Some UnexpectedEOF), [], RWord w)
            | n :: s2 => (mkR n (r_literal st) None, s2, RWord w)
            end
          else if tag =? 255 then
            match s1 with
            | [] => (mkR (r_zeroes st) (r_literal st) (Some UnexpectedEOF), [], RWord w)
            | n :: s2 => (mkR (r_zeroes st) n None, s2, RWord w)
            end
          else (st, s1, RWord w)
        end
      end
  end.

(* drive ReadWord until it reports an error; the oracle is a function of the step number *)
Fixpoint read_words (strict : bool) (fuel : nat) (orc : nat -> bool) (k : nat)
         (st : rstate) (inp : list Z) : option (list Z * rerr) :=
  match fuel with
  | O => None
  | S f =>
    match read_word strict (orc k) st inp with
    | (_, _, RErr e) => Some ([], e)
    | (st', inp', RWord w) =>
      match read_words strict f orc (S k) st' inp' with
      | Some (out, e) => Some (w ++ out, e)
      | None => None
      end
    end
  end.

(* enough fuel for any run: every step either consumes input, or decrements a counter
   bounded by 255, or clears the pending error *)
Definition reader_fuel (inp : list Z) : nat := (258 * (length inp + 2))%nat.

Definition stream_unpack (strict : bool) (orc : nat -> bool) (inp : list Z)
  : option (list Z * rerr) :=
  read_words strict (reader_fuel inp) orc 0 r_init inp.

(* ---- Reader.Read (byte-granular interface over ReadWord) ---- *)

Record bstate := mkB { b_r : rstate; b_word : list Z; b_idx : nat }.
Definition b_init : bstate := mkB r_init (zeros 8) 8.

(* one call Read(p) with len(p) = n.  [orc k] = (fast-path oracle, short-read oracle):
   the second component models "r.rd.Buffered() < 9 && n > 0 -> return n, nil"
   (Buffered() depends on how the underlying reader chunks its data, so both
   components are free oracles; the theorems quantify over all of them). *)
Fixpoint read_loop (strict : bool) (fuel : nat) (orc : nat -> bool * bool) (k : nat)
         (st : bstate) (inp : list Z) (want : nat) (got : list Z)
  : nat * bstate * list Z * list Z * option rerr :=
  match fuel with
  | O => (k, st, inp, got, None)
  | S f =>
    if (want =? 0)%nat then (k, st, inp, got, None)
    else if snd (orc k) && negb (length got =? 0)%nat
    then (S k, st, inp, got, None)
    else
      match read_word strict (fst (orc k)) (b_r st) inp with
      | (r', inp', RErr e) => (S k, mkB r' (b_word st) 8, inp', got, Some e)
      | (r', inp', RWord w) =>
        if (8 <=? want)%nat then
          read_loop strict f orc (S k) (mkB r' (b_word st) 8) inp' (want - 8) (got ++ w)
        else
          (S k, mkB r' w want, inp', got ++ firstn want w, None)
      end
  end.

Definition read_call (strict : bool) (orc : nat -> bool * bool) (k : nat)
           (st : bstate) (inp : list Z) (n : nat)
  : nat * bstate * list Z * list Z * option rerr :=
  let pre := firstn n (skipn (b_idx st) (b_word st)) in
  let st1 := mkB (b_r st) (b_word st) (b_idx st + length pre) in
  read_loop strict (S n) orc k st1 inp (n - length pre) pre.

(* Read until error with the given request sizes (cycled through [sizes]; a size 0
   request is skipped by the caller) *)
Fixpoint read_calls (strict : bool) (fuel : nat) (orc : nat -> bool * bool) (k : nat)
         (st : bstate) (inp : list Z) (sizes : nat -> nat) (j : nat)
  : option (list Z * rerr) :=
  match fuel with
  | O => None
  | S f =>
    match read_call strict orc k st inp (S (sizes j)) with
    | (_, _, _, got, Some e) => Some (got, e)
    | (k', st', inp', got, None) =>
      match read_calls strict f orc k' st' inp' sizes (S j) with
      | Some (out, e) => Some (got ++ out, e)
      | None => None
      end
    end
  end.
