(* pogs.Extract composed with the reader model: [extract_r] follows pogs/extract.go
   (extractStruct / extractField / extractList) like PogsM.extract_struct does, but every read of
   the message goes through the accessors of Core/Reader.v over ARBITRARY segment bytes, with the
   traversal budget threaded through and a depth limit in every pointer.  The schema / field map
   is PogsM's (mapped nodes).  Scalars are their unsigned little-endian value (Z), XOR = Z.lxor.

   State threaded through ([xst]): the remaining traversal budget, and two ghost counters:
   the number of successful dereferences of a non-null pointer (Struct.Ptr / PointerList.At that
   returned a valid pointer) and the number of slice cells allocated by reflect.MakeSlice
   (the sum of List.Len() over every list extracted).
   Outcomes ([xres]): value | error | Go panic | out of fuel | XDefault.
   XDefault: extraction would continue inside the SCHEMA message (a struct / list / AnyPointer
   field whose pointer is null or of the wrong kind and whose schema default is non-null):
   that part reads trusted schema bytes, not the hostile message, and is covered by the C19
   theorems over abstract contents; schemas with such defaults are excluded by [rschema_ok].
   Not modelled: Interface.Client() (capability table lookup; the field is abstracted to the
   interface pointer), mapStruct errors (statically determined by the Go type: the field map).
   No proofs in this file. *)
From CV Require Export Core.ReadOps.
From CV Require Pogs.PogsM.
Open Scope Z_scope.

Inductive xres (A : Type) : Type :=
| XOk (a : A) | XErr | XPanic | XFuel | XDefault.
Arguments XOk {A} a. Arguments XErr {A}. Arguments XPanic {A}. Arguments XFuel {A}. Arguments XDefault {A}.

Record xst := mkX { x_rl : Z; x_nd : Z; x_cells : Z }.

Definition M (A : Type) := xst -> xres A * xst.
Definition ret {A} (a : A) : M A := fun s => (XOk a, s).
Definition fail {A} (r : xres A) : M A := fun s => (r, s).
Definition bindM {A B} (x : M A) (f : A -> M B) : M B :=
  fun s => match x s with
           | (XOk a, s') => f a s'
           | (XErr, s') => (XErr, s')
           | (XPanic, s') => (XPanic, s')
           | (XFuel, s') => (XFuel, s')
           | (XDefault, s') => (XDefault, s')
           end.
Notation "'bd' x <~ r ;; k" := (bindM r (fun x => k)) (at level 200, x name, r at level 100, k at level 200).

(* an accessor without budget effect *)
Definition lift {A} (r : res A) : M A :=
  fun s => (match r with Ok a => XOk a | Err => XErr | Panic => XPanic end, s).

(* a dereference: Struct.Ptr / PointerList.At, charged against the budget *)
Definition lift_ptr (f : Z -> res Ptr * Z) : M Ptr :=
  fun s => let x := f (x_rl s) in
           match fst x with
           | Ok p => (XOk p, mkX (snd x) (x_nd s + (if p_valid p then 1 else 0)) (x_cells s))
           | Err => (XErr, mkX (snd x) (x_nd s) (x_cells s))
           | Panic => (XPanic, mkX (snd x) (x_nd s) (x_cells s))
           end.

(* reflect.MakeSlice(vt, n, n): panics for n < 0 *)
Definition make_slice (n : Z) : M unit :=
  fun s => if n <? 0 then (XPanic, s) else (XOk tt, mkX (x_rl s) (x_nd s) (x_cells s + n)).

Fixpoint iterM {A} (n : nat) (i : Z) (f : Z -> M A) : M (list A) :=
  match n with
  | O => ret []
  | S n' => bd a <~ f i ;; bd r <~ iterM n' (i + 1) f ;; ret (a :: r)
  end.

(* ------------------------------------------------------------------ Go values *)
Inductive rval : Type :=
| RNone
| RBool (b : bool)
| RInt (w : nat) (v : Z)                  (* intN / uintN / enum / floatN: raw bits as unsigned *)
| RBytes (o : option (list Z))            (* string (never None) / []byte *)
| RList (o : option (list rval))
| RStruct (o : option (Z * list rval))    (* Which (or -1), fields by ordinal *)
| RPtr (p : Ptr).                         (* capnp.Ptr / Struct / List / the interface pointer *)

Definition is_iface_ptr (p : Ptr) : Ptr := if is_iface p then p else nullPtr.

Definition go_text (bytes : bool) (o : option (list Z)) : rval :=
  if bytes then RBytes o else RBytes (Some (match o with Some b => b | None => [] end)).

Definition dflt_z (d : PogsM.dflt) (w : nat) : Z := PogsM.z_of_bits (PogsM.dflt_bits d w).
Definition dflt_bit (d : PogsM.dflt) : bool :=
  match PogsM.dflt_bits d 1 with x :: _ => x | [] => false end.

Section ExtractR.
  Variable c : config.
  Variable fx : fixes.
  Variable m : segs.
  Variable sch : PogsM.schema.
  Variable rec_ext : Z -> Ptr -> M rval.     (* extractStruct into a struct value, one fuel less *)

  (* s.Ptr(uint16(f.Slot().Offset())) *)
  Definition sptr (sp : Ptr) (off : Z) : M Ptr :=
    lift_ptr (fun rl => struct_ptr c m rl sp (off mod 65536)).

  Definition plat (l : Ptr) (i : Z) : M Ptr :=
    lift_ptr (fun rl => ptrlist_at c (fx_upgrade fx) m rl l i).

  (* extractStruct for a Go field of type T or *T *)
  Definition extract_struct_into (isptr : bool) (id : Z) (sp : Ptr) : M rval :=
    if isptr && negb (p_valid sp) then ret (RStruct None) else rec_ext id sp.

  (* extractList on a valid list; [e] is the element type *)
  Fixpoint extract_list (e : PogsM.ftype) (l : Ptr) {struct e} : M rval :=
    let n := list_len l in
    match e with
    | PogsM.TVoid => fail XErr               (* isTypeMatch fails before MakeSlice *)
    | _ =>
      bd _ <~ make_slice n ;;
      let cnt := Z.to_nat n in
      match e with
      | PogsM.TVoid => fail XErr
      | PogsM.TBool =>
        bd vs <~ iterM cnt 0 (fun i => bd b <~ lift (bitlist_at (fx_bit fx) m l i) ;; ret (RBool b)) ;;
        ret (RList (Some vs))
      | PogsM.TInt w =>
        bd vs <~ iterM cnt 0 (fun i => bd v <~ lift (list_uint_at (fx_upgrade fx) m l i (PogsM.wbytes w)) ;; ret (RInt w v)) ;;
        ret (RList (Some vs))
      | PogsM.TText bytes =>
        bd vs <~ iterM cnt 0 (fun i => bd p <~ plat l i ;; bd o <~ lift (ptr_text m p) ;; ret (go_text bytes o)) ;;
        ret (RList (Some vs))
      | PogsM.TData =>
        bd vs <~ iterM cnt 0 (fun i => bd p <~ plat l i ;; bd o <~ lift (ptr_data m p) ;; ret (RBytes o)) ;;
        ret (RList (Some vs))
      | PogsM.TList e' =>
        bd vs <~ iterM cnt 0 (fun i => bd p <~ plat l i ;;
                                    let l' := as_list p in
                                    if negb (p_valid l') then ret (RList None) else extract_list e' l') ;;
        ret (RList (Some vs))
      | PogsM.TStruct _ id =>
        bd vs <~ iterM cnt 0 (fun i => bd q <~ lift (list_struct (fx_depth fx) l i) ;; rec_ext id q) ;;
        ret (RList (Some vs))
      | PogsM.TIface =>
        bd vs <~ iterM cnt 0 (fun i => bd p <~ plat l i ;; ret (RPtr (is_iface_ptr p))) ;;
        ret (RList (Some vs))
      | PogsM.TAnyPtr => fail XErr           (* "List(AnyPointer) not allowed", after MakeSlice *)
      end
    end.

  (* extractField *)
  Definition extract_field_body (sp : Ptr) (off : Z) (t : PogsM.ftype) (d : PogsM.dflt) : M rval :=
    match t with
    | PogsM.TVoid => fail XErr
    | PogsM.TBool =>
      bd b <~ lift (struct_bit m sp (u32 off)) ;; ret (RBool (xorb b (dflt_bit d)))
    | PogsM.TInt w =>
      bd v <~ lift (struct_uint m sp (u32 (off * PogsM.wbytes w)) (PogsM.wbytes w)) ;;
      ret (RInt w (Z.lxor v (dflt_z d w)))
    | PogsM.TText bytes =>
      bd p <~ sptr sp off ;;
      bd o <~ lift (ptr_text m p) ;;
      ret (go_text bytes (match o with Some b => Some b | None => PogsM.ptr_text (PogsM.dflt_ptr d) end))
    | PogsM.TData =>
      bd p <~ sptr sp off ;;
      bd o <~ lift (ptr_data m p) ;;
      ret (RBytes (match o with Some b => Some b | None => PogsM.ptr_data (PogsM.dflt_ptr d) end))
    | PogsM.TStruct isptr id =>
      bd p <~ sptr sp off ;;
      let ss := as_struct p in
      if p_valid ss then extract_struct_into isptr id ss
      else match PogsM.ptr_struct (PogsM.dflt_ptr d) with
           | None => extract_struct_into isptr id nullPtr
           | Some _ => fail XDefault
           end
    | PogsM.TList e =>
      if negb (PogsM.mappable e) then fail XErr else
      bd p <~ sptr sp off ;;
      let l := as_list p in
      if p_valid l then extract_list e l
      else match PogsM.ptr_list (PogsM.dflt_ptr d) with
           | None => ret (RList None)
           | Some _ => fail XDefault
           end
    | PogsM.TIface =>
      bd p <~ sptr sp off ;; ret (RPtr (is_iface_ptr p))
    | PogsM.TAnyPtr =>
      bd p <~ sptr sp off ;;
      if p_valid p then ret (RPtr p)
      else if PogsM.ptr_valid (PogsM.dflt_ptr d) then fail XDefault else ret (RPtr nullPtr)
    end.

  Definition extract_field (sp : Ptr) (off : Z) (t : PogsM.ftype) (d : PogsM.dflt) : M rval :=
    match d with
    | PogsM.DBad => fail XErr
    | _ => extract_field_body sp off t d
    end.

  Fixpoint extract_fields (hasWhich : bool) (disc : list bool) (sp : Ptr) (fs : list PogsM.field)
    : M (list rval) :=
    match fs with
    | [] => ret []
    | f :: fs' =>
      match PogsM.field_action hasWhich disc f with
      | PogsM.Skip => bd r <~ extract_fields hasWhich disc sp fs' ;; ret (RNone :: r)
      | PogsM.Fail => fail XErr
      | PogsM.Do =>
        bd v <~ match f with
             | PogsM.FSlot _ _ off t d => extract_field sp off t d
             | PogsM.FGroup _ _ gid => rec_ext gid sp
             end ;;
        bd r <~ extract_fields hasWhich disc sp fs' ;; ret (v :: r)
      end
    end.

  (* extractStruct into an addressable struct value *)
  Definition extract_struct_body (id : Z) (sp : Ptr) : M rval :=
    match PogsM.find_node sch id with
    | None => fail XErr
    | Some n =>
      match PogsM.n_disc n with
      | None => bd vs <~ extract_fields false [] sp (PogsM.n_fields n) ;; ret (RStruct (Some (-1, vs)))
      | Some doff =>
        bd dz <~ lift (struct_uint m sp (u32 (doff * 2)) 2) ;;
        let disc := PogsM.bits_of_z 16 dz in
        match PogsM.n_which n with
        | PogsM.WField => bd vs <~ extract_fields true disc sp (PogsM.n_fields n) ;; ret (RStruct (Some (dz, vs)))
        | PogsM.WFixed z =>
          if PogsM.eqb_bits disc z
          then bd vs <~ extract_fields true disc sp (PogsM.n_fields n) ;; ret (RStruct (Some (-1, vs)))
          else fail XErr
        | PogsM.WNone => bd vs <~ extract_fields false disc sp (PogsM.n_fields n) ;; ret (RStruct (Some (-1, vs)))
        end
      end
    end.
End ExtractR.

Fixpoint extract_r (fuel : nat) (c : config) (fx : fixes) (m : segs) (sch : PogsM.schema) (id : Z) (sp : Ptr)
  : M rval :=
  match fuel with
  | O => fail XFuel
  | S f => extract_struct_body c fx m sch (extract_r f c fx m sch) id sp
  end.

(* msg.Root() then pogs.Extract(&v, id, root.Struct()) *)
Inductive top (A : Type) := TRootErr | TRootPanic | TRes (r : xres A).
Arguments TRootErr {A}. Arguments TRootPanic {A}. Arguments TRes {A} r.

Definition extract_msg (fuel : nat) (c : config) (fx : fixes) (m : segs) (sch : PogsM.schema) (id : Z)
  : top rval * xst :=
  let x := root c m (init_rlimit c) in
  match fst x with
  | Err => (TRootErr, mkX (snd x) 0 0)
  | Panic => (TRootPanic, mkX (snd x) 0 0)
  | Ok p =>
    let r := extract_r fuel c fx m sch id (as_struct p) (mkX (snd x) (if p_valid p then 1 else 0) 0) in
    (TRes (fst r), snd r)
  end.

(* ------------------------------------------------------------------ schema well-formedness
   (decidable; what the theorems of PogsReadProofs.v assume about the mapped schema) *)

(* offsets in the documented domain of the accessors, no struct / list / AnyPointer default *)
Definition rslot_ok (f : PogsM.field) : bool :=
  match f with
  | PogsM.FSlot _ _ off t d =>
    (0 <=? off) &&
    match t with
    | PogsM.TVoid => true
    | PogsM.TBool => off <? 4294967296
    | PogsM.TInt w => ((w =? 8) || (w =? 16) || (w =? 32) || (w =? 64))%nat && (off * PogsM.wbytes w <? 524288)
    | PogsM.TStruct _ _ =>
      (off <? 65536) && match PogsM.ptr_struct (PogsM.dflt_ptr d) with None => true | Some _ => false end
    | PogsM.TList _ =>
      (off <? 65536) && match PogsM.ptr_list (PogsM.dflt_ptr d) with None => true | Some _ => false end
    | PogsM.TAnyPtr => (off <? 65536) && negb (PogsM.ptr_valid (PogsM.dflt_ptr d))
    | _ => off <? 65536
    end
  | PogsM.FGroup _ _ _ => true
  end.

Definition rnode_ok (n : PogsM.snode) : bool :=
  match PogsM.n_disc n with Some doff => (0 <=? doff) && (doff * 2 <? 524288) | None => true end &&
  forallb (fun f => if PogsM.f_present f then rslot_ok f else true) (PogsM.n_fields n).

(* by-value nesting (groups and struct fields of Go type T, which extractStruct enters without a
   dereference that lowers the depth limit) below node [id] is less than [g] levels deep.  Go types
   are finite, so a mapped schema always has such a g. *)
Fixpoint nest_ok (g : nat) (sch : PogsM.schema) (id : Z) : bool :=
  match g with
  | O => false
  | S g' =>
    match PogsM.find_node sch id with
    | None => true
    | Some n =>
      forallb (fun f => match f with
                        | PogsM.FGroup true _ gid => nest_ok g' sch gid
                        | PogsM.FSlot true _ _ (PogsM.TStruct false id') _ => nest_ok g' sch id'
                        | _ => true
                        end) (PogsM.n_fields n)
    end
  end.

Definition rschema_ok (g : nat) (sch : PogsM.schema) : bool :=
  forallb (fun p => rnode_ok (snd p) && nest_ok g sch (fst p)) sch.

(* ------------------------------------------------------------------ observation (driver) *)
Definition outcome_code {A} (r : xres A) : Z :=
  match r with XOk _ => 0 | XErr => 1 | XPanic => 2 | XFuel => 3 | XDefault => 4 end.
