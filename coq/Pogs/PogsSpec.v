(* Specification-level definitions for C19: the equivalence on Go values modulo which the
   insert/extract round trip is the identity, and the frame predicates.  No proofs. *)
From CV Require Import Pogs.PogsM.
Open Scope Z_scope.

(* nil and empty byte slices / strings are the same value *)
Definition norm_bytes (o : option (list Z)) : option (list Z) :=
  match o with Some (x :: r) => Some (x :: r) | _ => None end.
Definition is_empty_list (o : option (list gval)) : bool :=
  match o with Some (_ :: _) => false | _ => true end.

Definition field_type (f : field) : ftype :=
  match f with FSlot _ _ _ t _ => t | FGroup _ _ gid => TStruct false gid end.
Definition has_which (n : snode) : bool :=
  match n_disc n, n_which n with
  | Some _, WField | Some _, WFixed _ => true
  | _, _ => false
  end.
Definition eff_disc (n : snode) (w : list bool) : list bool :=
  match n_which n with WField => w | WFixed z => z | WNone => [] end.

(* [veq sch t v v']: v and v' are the same value of a Go field mapped to schema type t, modulo
     - nil = empty for string/[]byte (Text, Data) and for slices (List),
     - fields that are not live: no Go field for the ordinal, or a union member other than
       the one selected by Which (such members are not represented in a message),
     - the Which component of a struct that has no Which field. *)
Inductive veq (sch : schema) : ftype -> gval -> gval -> Prop :=
| VE_bool b : veq sch TBool (GBool b) (GBool b)
| VE_bits w bs : veq sch (TInt w) (GBits bs) (GBits bs)
| VE_text k a b : norm_bytes a = norm_bytes b -> veq sch (TText k) (GBytes a) (GBytes b)
| VE_data a b : norm_bytes a = norm_bytes b -> veq sch TData (GBytes a) (GBytes b)
| VE_list_empty e a b : is_empty_list a = true -> is_empty_list b = true ->
    veq sch (TList e) (GList a) (GList b)
| VE_list e l1 l2 : Forall2 (veq sch e) l1 l2 -> veq sch (TList e) (GList (Some l1)) (GList (Some l2))
| VE_nil id : veq sch (TStruct true id) (GStruct None) (GStruct None)
| VE_struct b id n w1 w2 vs1 vs2 :
    find_node sch id = Some n ->
    (n_which n = WField -> w1 = w2) ->
    veq_fields sch (has_which n) (eff_disc n w1) (n_fields n) vs1 vs2 ->
    veq sch (TStruct b id) (GStruct (Some (w1, vs1))) (GStruct (Some (w2, vs2)))
| VE_iface p : veq sch TIface (GPtr p) (GPtr p)
| VE_anyptr p : veq sch TAnyPtr (GPtr p) (GPtr p)
with veq_fields (sch : schema) : bool -> list bool -> list field -> list gval -> list gval -> Prop :=
| VF_nil hw d : veq_fields sch hw d [] [] []
| VF_cons hw d f fs v1 v2 r1 r2 :
    (field_action hw d f = Do -> veq sch (field_type f) v1 v2) ->
    veq_fields sch hw d fs r1 r2 ->
    veq_fields sch hw d (f :: fs) (v1 :: r1) (v2 :: r2).

(* s and s' have the same sizes and the same contents at the locations F / outside F *)
Definition agree_on (F : list loc) (s s' : strct) : Prop :=
  s_dbytes s = s_dbytes s' /\ s_pcount s = s_pcount s' /\
  (forall i, in_data F i = true -> s_data s i = s_data s' i) /\
  (forall j, in_ptr F j = true -> s_ptrs s j = s_ptrs s' j).
Definition same_outside (F : list loc) (s s' : strct) : Prop :=
  s_dbytes s = s_dbytes s' /\ s_pcount s = s_pcount s' /\
  (forall i, in_data F i = false -> s_data s i = s_data s' i) /\
  (forall j, in_ptr F j = false -> s_ptrs s j = s_ptrs s' j).

(* two value lists that agree on every field the loop acts on *)
Inductive same_active (hw : bool) (disc : list bool) : list field -> list gval -> list gval -> Prop :=
| SA_nil : same_active hw disc [] [] []
| SA_cons f fs v v' r r' :
    (field_action hw disc f = Do -> v = v') -> same_active hw disc fs r r' ->
    same_active hw disc (f :: fs) (v :: r) (v' :: r').

(* locations the field loop acts on *)
Fixpoint touched (tbl : fptable) (hw : bool) (disc : list bool) (fs : list field) : list loc :=
  match fs with
  | [] => []
  | f :: r =>
    match field_action hw disc f with
    | Do => field_fp tbl f ++ touched tbl hw disc r
    | _ => touched tbl hw disc r
    end
  end.
