(* Non-vacuity of the hypotheses of PogsReadProofs / PogsReadFuel, on the cyclic message of
   Core/LimitProofs.v (struct -> composite list -> element -> the same list) and a recursive
   mapped schema: the extraction stops with an error at the depth limit; with too little fuel
   the distinct outcome XFuel is produced (so "never XFuel" is not vacuous). *)
From CV Require Import Core.SafetyProofs Core.LimitProofs Pogs.PogsRead.
From CV Require Pogs.PogsM.
Open Scope Z_scope.

Definition ex_sch : PogsM.schema :=
  [(1, PogsM.MkNode 1 1 None PogsM.WNone
         [PogsM.FSlot true None 0 (PogsM.TInt 16) PogsM.DAbsent;
          PogsM.FSlot true None 0 (PogsM.TList (PogsM.TStruct false 1)) PogsM.DAbsent])].
Definition ex_cfg := mkCfg 1000 4 true true.
Definition ex_fx := mkFix true true true.

Example pogsread_hypotheses_satisfiable :
  msg_ok cyc_msg /\ cfg_strict ex_cfg = true /\ cfg_root ex_cfg = true /\ fx_bit ex_fx = true /\
  fx_depth ex_fx = true /\ rschema_ok 1 ex_sch = true /\ 1 <= depth_limit ex_cfg /\
  (depth_limit ex_cfg + 1) * Z.of_nat 1 <= Z.of_nat 5.
Proof.
  split; [repeat constructor; cbn; try lia; unfold maxSegmentSize; lia|].
  vm_compute. repeat split; discriminate.
Qed.

Example pogsread_cyclic_stops :
  extract_msg 5 ex_cfg ex_fx cyc_msg ex_sch 1 = (TRes XErr, mkX 976 3 2).
Proof. vm_compute. reflexivity. Qed.

Example pogsread_fuel_distinct :
  fst (extract_msg 1 ex_cfg ex_fx cyc_msg ex_sch 1) = TRes XFuel.
Proof. vm_compute. reflexivity. Qed.
