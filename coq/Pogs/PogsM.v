(* L1 model of /repo/pogs (insert.go, extract.go; fields.go only as the resulting field map)
   and a second model, [gen_getter]/[gen_struct], of reading the same fields through the accessors
   capnpc-go generates.  [gen_struct]'s walk is deliberately the same as Extract's; the per-field
   leaf [gen_getter] is written from the templates and pointer.go, and is proved equal to C15's
   emitted-accessor semantics (coq/Layout: spec_get / run_getter (gen_accessor f)) for scalar, Bool
   and - as far as C15's token model of pointer slots goes - pointer fields in PogsLayoutBridge.v.

   Representation (defined here without coq/Layout; related to it by PogsLayoutBridge.to_strukt):
   * a struct is its data section (size in bytes + the bits, bit i = bit (i mod 8) of byte
     (i / 8): a little-endian integer of width w at byte offset o is exactly the bit range
     [8*o, 8*o+w), least significant bit first) and its pointer slots holding ABSTRACT
     pointer values (null / byte list / bit list / primitive list / pointer list /
     composite list / struct / capability).  Far pointers, segments, allocation and the read
     limit are not part of this model (they belong to C01-C05).
   * scalar Go values (ints, uints, enums, floats) are their raw bits, LSB first; XOR with the
     schema default is bitwise xorb.
   * the schema is a list of "mapped nodes": a struct/group node of the compiled schema
     together with the result of pogs.mapStruct for the Go type it is mapped to (which
     ordinals have a Go field, whether there is a Which field or a fixed discriminant,
     whether a struct field is a Go pointer, whether a Text field is a string or []byte).
   No proofs in this file. *)
From Coq Require Export List ZArith Bool Lia.
Export ListNotations.
Open Scope Z_scope.

(* ------------------------------------------------------------------ results *)
Inductive res (A : Type) : Type :=
| Ok (a : A)
| Err              (* pogs returns an error *)
| Panic            (* Go would panic *)
| Unmodelled       (* unused since the composite-list pointer read is modelled (see ptrlist_elems) *)
| OutOfFuel.
Arguments Ok {A} a. Arguments Err {A}. Arguments Panic {A}. Arguments Unmodelled {A}.
Arguments OutOfFuel {A}.

Definition bind {A B} (r : res A) (k : A -> res B) : res B :=
  match r with
  | Ok a => k a | Err => Err | Panic => Panic | Unmodelled => Unmodelled | OutOfFuel => OutOfFuel
  end.
Notation "'do' x <- r ; k" := (bind r (fun x => k)) (at level 200, x name, r at level 100, k at level 200).

Fixpoint mapM {A B} (f : A -> res B) (l : list A) : res (list B) :=
  match l with
  | [] => Ok []
  | a :: r => do b <- f a; do bs <- mapM f r; Ok (b :: bs)
  end.

(* ------------------------------------------------------------------ message side *)
Inductive ptrval : Type :=
| PNull
| PBytes (bs : list Z)                      (* non-composite list of 1-byte elements: Text, Data, List(U/Int8) *)
| PBits (bs : list bool)                    (* bit list *)
| PPrims (w : nat) (es : list (list bool))  (* non-composite list, element width w = 0 (void), 16, 32, 64 bits *)
| PPtrs (ps : list ptrval)                  (* pointer list *)
| PStructs (ss : list strct)                (* composite list *)
| PStruct (s : strct)
| PCap (id : Z)
with strct : Type :=
| Strct (dbytes : Z) (data : Z -> bool) (pcount : Z) (ptrs : Z -> ptrval).

Definition s_dbytes (s : strct) := let 'Strct d _ _ _ := s in d.
Definition s_data (s : strct) := let 'Strct _ d _ _ := s in d.
Definition s_pcount (s : strct) := let 'Strct _ _ p _ := s in p.
Definition s_ptrs (s : strct) := let 'Strct _ _ _ p := s in p.

(* capnp.Struct{} (invalid) reads as the empty struct; NewStruct gives a zeroed one *)
Definition zero_struct (dbytes pcount : Z) : strct :=
  Strct dbytes (fun _ => false) pcount (fun _ => PNull).
Definition empty_struct : strct := zero_struct 0 0.

(* ------------------------------------------------------------------ Go side *)
Inductive gval : Type :=
| GNone                                   (* no Go field for this ordinal / field left untouched *)
| GBool (b : bool)
| GBits (bs : list bool)                  (* intN, uintN, enum (uint16), floatN: raw bits *)
| GBytes (o : option (list Z))            (* string (never None) or []byte (None = nil) *)
| GList (o : option (list gval))          (* slice, None = nil *)
| GStruct (o : option (list bool * list gval))  (* None = nil *T; Which bits, fields by schema ordinal *)
| GPtr (p : ptrval).                      (* capnp.Ptr / *capnp.Client: opaque *)

(* ------------------------------------------------------------------ schema + field map *)
Inductive ftype : Type :=
| TVoid | TBool
| TInt (w : nat)                 (* 8,16,32,64: int/uint/enum/float *)
| TText (bytes : bool)           (* Go side: string (false) or []byte (true) *)
| TData
| TList (e : ftype)
| TStruct (isptr : bool) (id : Z)   (* Go side *T / T; id of the mapped node *)
| TIface | TAnyPtr.

Inductive dflt : Type :=
| DAbsent                        (* Slot.defaultValue is a null pointer *)
| DBits (bs : list bool)         (* scalar default (Bool: one bit) *)
| DPtr (p : ptrval)              (* Text/Data/List/Struct/AnyPointer default, PNull when none *)
| DBad.                          (* default's Which differs from the type's Which *)

Inductive field : Type :=
| FSlot (present : bool) (dv : option (list bool)) (off : Z) (t : ftype) (d : dflt)
| FGroup (present : bool) (dv : option (list bool)) (gid : Z).

Inductive whichkind : Type :=
| WNone                       (* no Which field and no union member mapped *)
| WField                      (* a uint16 Which field *)
| WFixed (v : list bool).     (* exactly one union member mapped: fixedWhich *)

Record snode : Type := MkNode {
  n_dwords : Z;               (* StructNode.dataWordCount *)
  n_pcount : Z;               (* StructNode.pointerCount *)
  n_disc : option Z;          (* Some discriminantOffset when discriminantCount > 0 *)
  n_which : whichkind;
  n_fields : list field
}.

Definition schema := list (Z * snode).

Fixpoint find_node (sch : schema) (id : Z) : option snode :=
  match sch with
  | [] => None
  | (i, n) :: r => if i =? id then Some n else find_node r id
  end.

(* ------------------------------------------------------------------ bits *)
Definition zeros (w : nat) : list bool := repeat false w.

Fixpoint xor_bits (a b : list bool) : list bool :=
  match a, b with
  | x :: a', y :: b' => xorb x y :: xor_bits a' b'
  | _, [] => a
  | [], _ => []
  end.

Fixpoint eqb_bits (a b : list bool) : bool :=
  match a, b with
  | [], [] => true
  | x :: a', y :: b' => Bool.eqb x y && eqb_bits a' b'
  | _, _ => false
  end.

(* bits [start, start+w) of the data section *)
Definition get_range (d : Z -> bool) (start : Z) (w : nat) : list bool :=
  map (fun k => d (start + Z.of_nat k)) (seq 0 w).

Definition set_range (d : Z -> bool) (start : Z) (bs : list bool) : Z -> bool :=
  fun i => if (start <=? i) && (i <? start + Z.of_nat (length bs))
           then nth (Z.to_nat (i - start)) bs false else d i.

Definition wbytes (w : nat) : Z := Z.of_nat w / 8.

(* Struct.Uint8/16/32/64(off*wb): zero when Size(off)+sz > DataSize.  w = 8,16,32,64 *)
Definition read_int (s : strct) (off : Z) (w : nat) : list bool :=
  if off * wbytes w + wbytes w <=? s_dbytes s then get_range (s_data s) (off * Z.of_nat w) w
  else zeros w.

(* Struct.Bit(n): false when n >= DataSize*8 *)
Definition read_bit (s : strct) (n : Z) : bool :=
  if n <? s_dbytes s * 8 then s_data s n else false.

(* Struct.SetUintN / SetBit: panic outside the data section *)
Definition write_int (s : strct) (off : Z) (bs : list bool) : res strct :=
  let w := length bs in
  if off * wbytes w + wbytes w <=? s_dbytes s
  then Ok (Strct (s_dbytes s) (set_range (s_data s) (off * Z.of_nat w) bs) (s_pcount s) (s_ptrs s))
  else Panic.

Definition write_bit (s : strct) (n : Z) (b : bool) : res strct :=
  if n <? s_dbytes s * 8
  then Ok (Strct (s_dbytes s) (set_range (s_data s) n [b]) (s_pcount s) (s_ptrs s))
  else Panic.

(* Struct.Ptr(i): null outside the pointer section *)
Definition read_ptr (s : strct) (i : Z) : ptrval :=
  if i <? s_pcount s then s_ptrs s i else PNull.

(* Struct.SetPtr(i, p): panics outside the pointer section *)
Definition write_ptr (s : strct) (i : Z) (p : ptrval) : res strct :=
  if i <? s_pcount s
  then Ok (Strct (s_dbytes s) (s_data s) (s_pcount s) (fun j => if j =? i then p else s_ptrs s j))
  else Panic.

(* ------------------------------------------------------------------ pointer views *)
Definition ptr_valid (p : ptrval) : bool := match p with PNull => false | _ => true end.

Fixpoint last_is_zero (bs : list Z) : bool :=
  match bs with
  | [] => false
  | [b] => b =? 0
  | _ :: r => last_is_zero r
  end.

(* Ptr.text(): a one-byte list whose last byte is NUL; the NUL is stripped *)
Definition ptr_text (p : ptrval) : option (list Z) :=
  match p with
  | PBytes bs => if last_is_zero bs then Some (removelast bs) else None
  | _ => None
  end.

(* Ptr.Data(): nil unless a one-byte list *)
Definition ptr_data (p : ptrval) : option (list Z) :=
  match p with PBytes bs => Some bs | _ => None end.

(* Ptr.Struct(): invalid unless a struct pointer *)
Definition ptr_struct (p : ptrval) : option strct :=
  match p with PStruct s => Some s | _ => None end.

(* Ptr.List(): invalid unless a list pointer *)
Definition ptr_list (p : ptrval) : option ptrval :=
  match p with
  | PBytes _ | PBits _ | PPrims _ _ | PPtrs _ | PStructs _ => Some p
  | _ => None
  end.

Definition list_len (l : ptrval) : nat :=
  match l with
  | PBytes bs => length bs | PBits bs => length bs | PPrims _ es => length es
  | PPtrs ps => length ps | PStructs ss => length ss | _ => O
  end.

Definition dflt_bits (d : dflt) (w : nat) : list bool :=
  match d with DBits bs => bs | _ => zeros w end.
Definition dflt_ptr (d : dflt) : ptrval :=
  match d with DPtr p => p | _ => PNull end.

(* isEmptyValue(dv) of insert.go for a pointer-typed slot *)
Definition is_empty_value (t : ftype) (d : dflt) : bool :=
  match d with
  | DPtr p =>
    match t with
    | TText _ => match ptr_text p with Some (_ :: _) => false | _ => true end
    | TData => match ptr_data p with Some (_ :: _) => false | _ => true end
    | TList _ => match ptr_list p with Some l => (list_len l =? 0)%nat | None => true end
    | _ => false
    end
  | _ => false
  end.

(* bytes <-> bits for List(Int8/UInt8) elements *)
Fixpoint z_of_bits (bs : list bool) : Z :=
  match bs with
  | [] => 0
  | b :: r => (if b then 1 else 0) + 2 * z_of_bits r
  end.
Fixpoint bits_of_z (w : nat) (z : Z) : list bool :=
  match w with
  | O => []
  | S w' => Z.odd z :: bits_of_z w' (z / 2)
  end.

(* ------------------------------------------------------------------ typed list element reads
   (the code shared by pogs and the generated accessors: BitList.At, UIntNList.At via
   primitiveElem, TextList.At, DataList.At, PointerList.At, List.Struct) *)

(* BitList.At: false unless a bit list *)
Definition bitlist_elems (l : ptrval) : list bool :=
  match l with
  | PBits bs => bs
  | _ => repeat false (list_len l)
  end.

(* UIntNList.At(i) with expected element size w/8 bytes, no pointers: 0 on size mismatch;
   a composite list with a large enough data section is read at the start of the element *)
Definition primlist_elems (w : nat) (l : ptrval) : list (list bool) :=
  match l with
  | PBytes bs => if (w =? 8)%nat then map (bits_of_z 8) bs else repeat (zeros w) (length bs)
  | PPrims w' es => if (w' =? w)%nat then es else repeat (zeros w) (length es)
  | PStructs ss =>
    map (fun s => if wbytes w <=? s_dbytes s then get_range (s_data s) 0 w else zeros w) ss
  | _ => repeat (zeros w) (list_len l)
  end.

(* PointerList.At / TextList.At / DataList.At: primitiveElem(i, {PointerCount: 1}).
   List upgrade: a composite list whose elements have a pointer section is read as a pointer list
   through the FIRST pointer of every element (repo fix of the former defect F05; before it the
   first data word was decoded as a pointer, which this model could not express: the outcome
   Unmodelled is no longer produced by any definition). *)
Definition ptrlist_elems (l : ptrval) : res (list ptrval) :=
  match l with
  | PPtrs ps => Ok ps
  | PStructs ss =>
    match ss with
    | [] => Ok []
    | s :: _ => if 1 <=? s_pcount s then Ok (map (fun e => read_ptr e 0) ss) else Err
    end
  | _ => match list_len l with O => Ok [] | _ => Err end
  end.

(* List.Struct(i) *)
Definition structlist_elems (l : ptrval) : list (option strct) :=
  match l with
  | PStructs ss => map Some ss
  | PBits bs => map (fun _ => None) bs
  | PBytes bs => map (fun b => Some (Strct 1 (fun i => nth (Z.to_nat i) (bits_of_z 8 b) false) 0 (fun _ => PNull))) bs
  | PPrims w es => map (fun e => Some (Strct (wbytes w) (fun i => nth (Z.to_nat i) e false) 0 (fun _ => PNull))) es
  | PPtrs ps => map (fun p => Some (Strct 0 (fun _ => false) 1 (fun _ => p))) ps
  | _ => []
  end.

(* ------------------------------------------------------------------ isFieldInBounds *)
Definition is_ptr_type (t : ftype) : bool :=
  match t with TText _ | TData | TList _ | TStruct _ _ | TIface | TAnyPtr => true | _ => false end.

Definition is_field_in_bounds (s : strct) (off : Z) (t : ftype) : bool :=
  match t with
  | TVoid => true
  | TBool => off / 8 + 1 <=? s_dbytes s
  | TInt w => (off + 1) * wbytes w <=? s_dbytes s
  | _ => off + 1 <=? s_pcount s
  end.

(* no Go type matches Void (typeMap has no entry), so neither does a slice type match List(Void) *)
Fixpoint mappable (t : ftype) : bool :=
  match t with TVoid => false | TList e => mappable e | _ => true end.

(* isTypeMatch, on values (Go's static typing of the mapped field) *)
Fixpoint vmatch (t : ftype) (v : gval) {struct t} : bool :=
  match t, v with
  | TBool, GBool _ => true
  | TInt w, GBits bs => (length bs =? w)%nat
  | TText false, GBytes (Some _) => true
  | TText true, GBytes _ => true
  | TData, GBytes _ => true
  | TList e, GList None => mappable e
  | TList e, GList (Some vs) => mappable e && forallb (vmatch e) vs
  | TStruct true _, GStruct _ => true
  | TStruct false _, GStruct (Some _) => true
  | TIface, GPtr (PCap _) => true
  | TIface, GPtr PNull => true
  | TAnyPtr, GPtr _ => true
  | _, _ => false
  end.

(* ------------------------------------------------------------------ the field loop decision
   (same test in insertStruct and extractStruct) *)
Inductive action := Skip | Do | Fail.

Definition f_present (f : field) : bool :=
  match f with FSlot p _ _ _ _ => p | FGroup p _ _ => p end.
Definition f_dv (f : field) : option (list bool) :=
  match f with FSlot _ dv _ _ _ => dv | FGroup _ dv _ => dv end.

Definition field_action (hasWhich : bool) (disc : list bool) (f : field) : action :=
  if negb (f_present f) then Skip
  else match f_dv f with
       | None => Do
       | Some dv => if hasWhich then (if eqb_bits dv disc then Do else Skip) else Fail
       end.

(* ------------------------------------------------------------------ insert *)
Section Insert.
  Variable sch : schema.
  (* insertStruct at one level less fuel *)
  Variable rec_ins : Z -> strct -> gval -> res strct.

  Definition node_size (id : Z) : res (Z * Z) :=
    match find_node sch id with
    | Some n => Ok (n_dwords n * 8, n_pcount n)
    | None => Err
    end.

  (* ins.newList + ins.insertList: the list built for a slice value *)
  Fixpoint insert_list (e : ftype) (vs : list gval) {struct e} : res ptrval :=
    match e with
    | TVoid => Ok (PPrims 0 (map (fun _ => []) vs))
    | TBool =>
      do bs <- mapM (fun v => match v with GBool b => Ok b | _ => Err end) vs; Ok (PBits bs)
    | TInt w =>
      do es <- mapM (fun v => match v with GBits bs => Ok bs | _ => Err end) vs;
      if (w =? 8)%nat then Ok (PBytes (map z_of_bits es)) else Ok (PPrims w es)
    | TText false =>
      (* TextList.Set: null for "" *)
      do ps <- mapM (fun v => match v with
                              | GBytes (Some []) => Ok PNull
                              | GBytes (Some bs) => Ok (PBytes (bs ++ [0]))
                              | _ => Err end) vs;
      Ok (PPtrs ps)
    | TText true =>
      (* []byte elements: the null written for an empty element is overwritten (no continue) *)
      do ps <- mapM (fun v => match v with
                              | GBytes (Some bs) => Ok (PBytes (bs ++ [0]))
                              | GBytes None => Ok (PBytes [0])
                              | _ => Err end) vs;
      Ok (PPtrs ps)
    | TData =>
      (* DataList.Set: null for len 0 *)
      do ps <- mapM (fun v => match v with
                              | GBytes None | GBytes (Some []) => Ok PNull
                              | GBytes (Some bs) => Ok (PBytes bs)
                              | _ => Err end) vs;
      Ok (PPtrs ps)
    | TList e' =>
      do ps <- mapM (fun v => match v with
                              | GList None => Ok PNull
                              | GList (Some vs') => insert_list e' vs'
                              | _ => Err end) vs;
      Ok (PPtrs ps)
    | TStruct _ id =>
      do sz <- node_size id;
      do ss <- mapM (fun v => rec_ins id (zero_struct (fst sz) (snd sz)) v) vs;
      Ok (PStructs ss)
    | TIface =>
      do ps <- mapM (fun v => match v with GPtr (PCap c) => Ok (PCap c) | GPtr PNull => Ok PNull | _ => Err end) vs;
      Ok (PPtrs ps)
    | TAnyPtr => Err
    end.

  (* insertField *)
  Definition insert_field_body (s : strct) (off : Z) (t : ftype) (d : dflt) (v : gval) : res strct :=
      if negb (vmatch t v) then Err
      else if negb (is_field_in_bounds s off t) then Err
      else
        match t, v with
        | TBool, GBool b =>
          write_bit s off (xorb b (match dflt_bits d 1 with x :: _ => x | [] => false end))
        | TInt w, GBits bs => write_int s off (xor_bits bs (dflt_bits d w))
        | TText _, GBytes o =>
          match o with
          | None | Some [] =>
            if negb (is_empty_value t d) then write_ptr s off (PBytes [0]) else write_ptr s off PNull
          | Some bs => write_ptr s off (PBytes (bs ++ [0]))
          end
        | TData, GBytes o =>
          match o with
          | None => if negb (is_empty_value t d) then write_ptr s off (PBytes []) else write_ptr s off PNull
          | Some bs => write_ptr s off (PBytes bs)
          end
        | TStruct _ id, GStruct o =>
          match o with
          | None => write_ptr s off PNull
          | Some _ =>
            do sz <- node_size id;
            do ss <- rec_ins id (zero_struct (fst sz) (snd sz)) v;
            write_ptr s off (PStruct ss)
          end
        | TList e, GList o =>
          match o with
          | None =>
            if is_empty_value t d then write_ptr s off PNull
            else do l <- insert_list e []; write_ptr s off l
          | Some vs => do l <- insert_list e vs; write_ptr s off l
          end
        | TIface, GPtr p => write_ptr s off p
        | TAnyPtr, GPtr p => write_ptr s off p
        | _, _ => Err
        end.

  Definition insert_field (s : strct) (off : Z) (t : ftype) (d : dflt) (v : gval) : res strct :=
    match d with
    | DBad => Err         (* default value of another type than the field *)
    | _ => insert_field_body s off t d v
    end.

  Fixpoint insert_fields (hasWhich : bool) (disc : list bool) (s : strct)
           (fs : list field) (vs : list gval) {struct fs} : res strct :=
    match fs, vs with
    | [], [] => Ok s
    | f :: fs', v :: vs' =>
      match field_action hasWhich disc f with
      | Skip => insert_fields hasWhich disc s fs' vs'
      | Fail => Err
      | Do =>
        do s1 <- match f with
                 | FSlot _ _ off t d => insert_field s off t d v
                 | FGroup _ _ gid => rec_ins gid s v
                 end;
        insert_fields hasWhich disc s1 fs' vs'
      end
    | _, _ => Err
    end.

  (* insertStruct: val must be a non-nil struct; the discriminant is written first *)
  Definition insert_struct_body (id : Z) (s : strct) (v : gval) : res strct :=
    match v with
    | GStruct (Some (which, vals)) =>
      match find_node sch id with
      | None => Err
      | Some n =>
        let wd := match n_which n with
                  | WNone => None
                  | WField => Some which
                  | WFixed z => Some z
                  end in
        do s0 <- match n_disc n, wd with
                 | Some doff, Some w =>
                   if negb (length w =? 16)%nat then Err
                   else if s_dbytes s <? doff * 2 + 2 then Err
                   else write_int s doff w
                 | _, _ => Ok s
                 end;
        let hasWhich := match n_disc n, wd with Some _, Some _ => true | _, _ => false end in
        let disc := match wd with Some w => w | None => [] end in
        insert_fields hasWhich disc s0 (n_fields n) vals
      end
    | _ => Err
    end.
End Insert.

Fixpoint insert_struct (fuel : nat) (sch : schema) (id : Z) (s : strct) (v : gval) : res strct :=
  match fuel with
  | O => OutOfFuel
  | S f => insert_struct_body sch (insert_struct f sch) id s v
  end.

(* ------------------------------------------------------------------ extract *)
(* [fixed]: true = the repaired extractField (a Text/Data pointer that is not a text/data
   list falls back to the schema default, as the generated accessors do);
   false = the code before the fix (the default is used only for a null pointer). *)
Section Extract.
  Variable fixed : bool.
  Variable sch : schema.
  Variable rec_ext : Z -> strct -> res gval.   (* extractStruct into a struct value *)

  (* extractStruct for a (possibly invalid) struct into a Go field of type T or *T *)
  Definition extract_struct_into (isptr : bool) (id : Z) (os : option strct) : res gval :=
    match os with
    | None => if isptr then Ok (GStruct None) else rec_ext id empty_struct
    | Some s => rec_ext id s
    end.

  Definition text_of (p : ptrval) (d : dflt) : option (list Z) :=
    if fixed then
      match ptr_text p with Some b => Some b | None => ptr_text (dflt_ptr d) end
    else
      if ptr_valid p then ptr_text p else ptr_text (dflt_ptr d).

  Definition data_of (p : ptrval) (d : dflt) : option (list Z) :=
    if fixed then
      match ptr_data p with Some b => Some b | None => ptr_data (dflt_ptr d) end
    else
      if ptr_valid p then ptr_data p else ptr_data (dflt_ptr d).

  Definition go_text (bytes : bool) (o : option (list Z)) : gval :=
    if bytes then GBytes o else GBytes (Some (match o with Some b => b | None => [] end)).

  (* extractList on a valid list *)
  Fixpoint extract_list (e : ftype) (l : ptrval) {struct e} : res gval :=
    match e with
    | TBool => Ok (GList (Some (map GBool (bitlist_elems l))))
    | TInt w => Ok (GList (Some (map GBits (primlist_elems w l))))
    | TText bytes =>
      do ps <- ptrlist_elems l;
      Ok (GList (Some (map (fun p => go_text bytes (ptr_text p)) ps)))
    | TData =>
      do ps <- ptrlist_elems l;
      Ok (GList (Some (map (fun p => GBytes (ptr_data p)) ps)))
    | TList e' =>
      do ps <- ptrlist_elems l;
      do vs <- mapM (fun p => match ptr_list p with
                              | None => Ok (GList None)
                              | Some l' => extract_list e' l'
                              end) ps;
      Ok (GList (Some vs))
    | TStruct _ id =>
      do vs <- mapM (fun os => extract_struct_into false id os) (structlist_elems l);
      Ok (GList (Some vs))
    | TIface =>
      do ps <- ptrlist_elems l;
      Ok (GList (Some (map (fun p => match p with PCap c => GPtr (PCap c) | _ => GPtr PNull end) ps)))
    | TAnyPtr => Err
    | TVoid => Err
    end.

  (* extractField *)
  Definition extract_field_body (s : strct) (off : Z) (t : ftype) (d : dflt) : res gval :=
      match t with
      | TVoid => Err                       (* isTypeMatch fails for every Go type *)
      | TBool => Ok (GBool (xorb (read_bit s off) (match dflt_bits d 1 with x :: _ => x | [] => false end)))
      | TInt w => Ok (GBits (xor_bits (read_int s off w) (dflt_bits d w)))
      | TText bytes => Ok (go_text bytes (text_of (read_ptr s off) d))
      | TData => Ok (GBytes (data_of (read_ptr s off) d))
      | TStruct isptr id =>
        let os := match ptr_struct (read_ptr s off) with
                  | Some ss => Some ss
                  | None => ptr_struct (dflt_ptr d)
                  end in
        extract_struct_into isptr id os
      | TList e =>
        let ol := match ptr_list (read_ptr s off) with
                  | Some l => Some l
                  | None => ptr_list (dflt_ptr d)
                  end in
        match ol with
        | None => Ok (GList None)
        | Some l => extract_list e l
        end
      | TIface => Ok (match read_ptr s off with PCap c => GPtr (PCap c) | _ => GPtr PNull end)
      | TAnyPtr =>
        let p := read_ptr s off in
        Ok (GPtr (if ptr_valid p then p else dflt_ptr d))
      end.

  Definition extract_field (s : strct) (off : Z) (t : ftype) (d : dflt) : res gval :=
    match d with
    | DBad => Err
    | _ => extract_field_body s off t d
    end.

  Fixpoint extract_fields (hasWhich : bool) (disc : list bool) (s : strct) (fs : list field)
    : res (list gval) :=
    match fs with
    | [] => Ok []
    | f :: fs' =>
      match field_action hasWhich disc f with
      | Skip => do r <- extract_fields hasWhich disc s fs'; Ok (GNone :: r)
      | Fail => Err
      | Do =>
        do v <- match f with
                | FSlot _ _ off t d => extract_field s off t d
                | FGroup _ _ gid => rec_ext gid s
                end;
        do r <- extract_fields hasWhich disc s fs'; Ok (v :: r)
      end
    end.

  (* extractStruct into an addressable struct value *)
  Definition extract_struct_body (id : Z) (s : strct) : res gval :=
    match find_node sch id with
    | None => Err
    | Some n =>
      match n_disc n with
      | None => do vs <- extract_fields false [] s (n_fields n); Ok (GStruct (Some ([], vs)))
      | Some doff =>
        let disc := read_int s doff 16 in
        match n_which n with
        | WField => do vs <- extract_fields true disc s (n_fields n); Ok (GStruct (Some (disc, vs)))
        | WFixed z =>
          if eqb_bits disc z
          then do vs <- extract_fields true disc s (n_fields n); Ok (GStruct (Some ([], vs)))
          else Err
        | WNone => do vs <- extract_fields false disc s (n_fields n); Ok (GStruct (Some ([], vs)))
        end
      end
    end.
End Extract.

Fixpoint extract_struct (fixed : bool) (fuel : nat) (sch : schema) (id : Z) (s : strct) : res gval :=
  match fuel with
  | O => OutOfFuel
  | S f => extract_struct_body fixed sch (extract_struct fixed f sch) id s
  end.

(* ------------------------------------------------------------------ generated accessors
   Independent definition of what capnpc-go emits for one field (templates structBoolField,
   structUintField, structTextField, structDataField, structStructField, structListField, ...):
     if the field is a union member: panic unless Uint16(discriminantOffset*2) == its value;
     scalars: read at the offset, XOR the default;
     Text: p.TextDefault(def); Data: p.DataDefault(def); struct: p.StructDefault(def);
     list: p.ListDefault(def); interface: p.Interface(); AnyPointer: the pointer itself. *)
Inductive genval : Type :=
| VBool (b : bool)
| VBits (bs : list bool)
| VText (bs : list Z)                (* string; TextBytes returns the same bytes *)
| VData (o : option (list Z))
| VStruct (o : option strct)         (* None = invalid struct (HasX false and no default) *)
| VList (o : option ptrval)          (* None = invalid list *)
| VPtr (p : ptrval).

Definition gen_check_which (n : snode) (s : strct) (dv : option (list bool)) : bool :=
  match dv with
  | None => true
  | Some v =>
    match n_disc n with
    | Some doff => eqb_bits v (read_int s doff 16)
    | None => false
    end
  end.

Definition gen_getter (n : snode) (s : strct) (dv : option (list bool)) (off : Z) (t : ftype) (d : dflt)
  : res genval :=
  if negb (gen_check_which n s dv) then Panic
  else match t with
       | TVoid => Err   (* no getter is generated *)
       | TBool => Ok (VBool (xorb (read_bit s off) (match dflt_bits d 1 with x :: _ => x | [] => false end)))
       | TInt w => Ok (VBits (xor_bits (read_int s off w) (dflt_bits d w)))
       | TText _ =>
         Ok (VText (match ptr_text (read_ptr s off) with
                    | Some b => b
                    | None => match ptr_text (dflt_ptr d) with Some b => b | None => [] end
                    end))
       | TData =>
         Ok (VData (match ptr_data (read_ptr s off) with
                    | Some b => Some b
                    | None => ptr_data (dflt_ptr d)
                    end))
       | TStruct _ _ =>
         Ok (VStruct (match ptr_struct (read_ptr s off) with
                      | Some ss => Some ss
                      | None => ptr_struct (dflt_ptr d)
                      end))
       | TList _ =>
         Ok (VList (match ptr_list (read_ptr s off) with
                    | Some l => Some l
                    | None => ptr_list (dflt_ptr d)
                    end))
       | TIface => Ok (VPtr (match read_ptr s off with PCap c => PCap c | _ => PNull end))
       | TAnyPtr => Ok (VPtr (read_ptr s off))
       end.

(* Reading a whole struct through the generated accessors, shaped like the Go type pogs
   extracts into (same present fields, same pointer-ness), so that the two can be compared:
   Which := s.Which(); members of the union other than Which() are not called (they panic). *)
Section GenRead.
  Variable sch : schema.
  Variable rec_gen : Z -> strct -> res gval.

  Definition gen_struct_into (isptr : bool) (id : Z) (os : option strct) : res gval :=
    match os with
    | None => if isptr then Ok (GStruct None) else rec_gen id empty_struct
    | Some s => rec_gen id s
    end.

  Fixpoint gen_list (e : ftype) (l : ptrval) {struct e} : res gval :=
    match e with
    | TBool => Ok (GList (Some (map GBool (bitlist_elems l))))
    | TInt w => Ok (GList (Some (map GBits (primlist_elems w l))))
    | TText bytes =>
      do ps <- ptrlist_elems l;
      Ok (GList (Some (map (fun p => go_text bytes (ptr_text p)) ps)))
    | TData =>
      do ps <- ptrlist_elems l;
      Ok (GList (Some (map (fun p => GBytes (ptr_data p)) ps)))
    | TList e' =>
      do ps <- ptrlist_elems l;
      do vs <- mapM (fun p => match ptr_list p with
                              | None => Ok (GList None)
                              | Some l' => gen_list e' l'
                              end) ps;
      Ok (GList (Some vs))
    | TStruct _ id =>
      do vs <- mapM (fun os => gen_struct_into false id os) (structlist_elems l);
      Ok (GList (Some vs))
    | TIface =>
      do ps <- ptrlist_elems l;
      Ok (GList (Some (map (fun p => match p with PCap c => GPtr (PCap c) | _ => GPtr PNull end) ps)))
    | TAnyPtr => Err
    | TVoid => Err
    end.

  Definition gen_field (n : snode) (s : strct) (dv : option (list bool)) (off : Z) (t : ftype) (d : dflt)
    : res gval :=
    match d with
    | DBad => Err
    | _ =>
      do g <- gen_getter n s dv off t d;
      match t, g with
      | TBool, VBool b => Ok (GBool b)
      | TInt _, VBits bs => Ok (GBits bs)
      | TText bytes, VText b =>
        (* a []byte Go field is compared with HasX()/default-aware TextBytes: nil iff neither the
           pointer nor the default is a text *)
        Ok (if bytes
            then GBytes (match ptr_text (read_ptr s off) with
                         | Some b => Some b
                         | None => ptr_text (dflt_ptr d)
                         end)
            else GBytes (Some b))
      | TData, VData o => Ok (GBytes o)
      | TStruct isptr id, VStruct os => gen_struct_into isptr id os
      | TList e, VList None => Ok (GList None)
      | TList e, VList (Some l) => gen_list e l
      | TIface, VPtr p => Ok (GPtr p)
      | TAnyPtr, VPtr p => Ok (GPtr (if ptr_valid p then p else dflt_ptr d))
      | _, _ => Err
      end
    end.

  Fixpoint gen_fields (n : snode) (hasWhich : bool) (disc : list bool) (s : strct) (fs : list field)
    : res (list gval) :=
    match fs with
    | [] => Ok []
    | f :: fs' =>
      match field_action hasWhich disc f with
      | Skip => do r <- gen_fields n hasWhich disc s fs'; Ok (GNone :: r)
      | Fail => Err
      | Do =>
        do v <- match f with
                | FSlot _ dv off t d => gen_field n s dv off t d
                | FGroup _ _ gid => rec_gen gid s        (* s.Grp() is the same struct *)
                end;
        do r <- gen_fields n hasWhich disc s fs'; Ok (v :: r)
      end
    end.

  Definition gen_struct_body (id : Z) (s : strct) : res gval :=
    match find_node sch id with
    | None => Err
    | Some n =>
      match n_disc n with
      | None => do vs <- gen_fields n false [] s (n_fields n); Ok (GStruct (Some ([], vs)))
      | Some doff =>
        let disc := read_int s doff 16 in      (* s.Which() *)
        match n_which n with
        | WField => do vs <- gen_fields n true disc s (n_fields n); Ok (GStruct (Some (disc, vs)))
        | WFixed z =>
          if eqb_bits disc z
          then do vs <- gen_fields n true disc s (n_fields n); Ok (GStruct (Some ([], vs)))
          else Err
        | WNone => do vs <- gen_fields n false disc s (n_fields n); Ok (GStruct (Some ([], vs)))
        end
      end
    end.
End GenRead.

Fixpoint gen_struct (fuel : nat) (sch : schema) (id : Z) (s : strct) : res gval :=
  match fuel with
  | O => OutOfFuel
  | S f => gen_struct_body sch (gen_struct f sch) id s
  end.

(* ------------------------------------------------------------------ schema layout check
   Footprint of a field: the data bits and pointer slots it (or, for a group, any field
   nested in it, and the group's discriminant) can touch. *)
Inductive loc : Type :=
| LData (start len : Z)
| LPtr (i : Z).

Definition in_data (F : list loc) (i : Z) : bool :=
  existsb (fun l => match l with LData st n => (st <=? i) && (i <? st + n) | LPtr _ => false end) F.
Definition in_ptr (F : list loc) (j : Z) : bool :=
  existsb (fun l => match l with LPtr k => k =? j | LData _ _ => false end) F.

Definition loc_disjoint (a b : loc) : bool :=
  match a, b with
  | LData s1 n1, LData s2 n2 => (s1 + n1 <=? s2) || (s2 + n2 <=? s1) || (n1 <=? 0) || (n2 <=? 0)
  | LPtr i, LPtr j => negb (i =? j)
  | _, _ => true
  end.
Definition locs_disjoint (F G : list loc) : bool :=
  forallb (fun a => forallb (loc_disjoint a) G) F.

Definition slot_loc (off : Z) (t : ftype) : list loc :=
  match t with
  | TVoid => []
  | TBool => [LData off 1]
  | TInt w => [LData (off * Z.of_nat w) (Z.of_nat w)]
  | _ => [LPtr off]
  end.

Definition disc_loc (n : snode) : list loc :=
  match n_disc n with Some doff => [LData (doff * 16) 16] | None => [] end.

Fixpoint node_fp (fuel : nat) (sch : schema) (id : Z) : option (list loc) :=
  match fuel with
  | O => None
  | S f =>
    match find_node sch id with
    | None => None
    | Some n =>
      (fix go (fs : list field) : option (list loc) :=
         match fs with
         | [] => Some (disc_loc n)
         | FSlot true _ off t _ :: r =>
           match go r with Some F => Some (slot_loc off t ++ F) | None => None end
         | FGroup true _ gid :: r =>
           match node_fp f sch gid, go r with
           | Some G, Some F => Some (G ++ F)
           | _, _ => None
           end
         | _ :: r => go r       (* no Go field: never touched *)
         end) (n_fields n)
    end
  end.

(* The layout check.  A footprint table (node id -> locations) is computed with [node_fp] and then
   VERIFIED locally: every mapped field's footprint lies inside its node's footprint, and fields
   that can be live together (and the discriminant) have disjoint footprints. *)
Definition fptable := list (Z * list loc).

Fixpoint fp_of (tbl : fptable) (id : Z) : list loc :=
  match tbl with
  | [] => []
  | (i, F) :: r => if i =? id then F else fp_of r id
  end.

Definition field_fp (tbl : fptable) (f : field) : list loc :=
  match f with
  | FSlot _ _ off t _ => slot_loc off t
  | FGroup _ _ gid => fp_of tbl gid
  end.

Definition loc_eqb (a b : loc) : bool :=
  match a, b with
  | LData s1 n1, LData s2 n2 => (s1 =? s2) && (n1 =? n2)
  | LPtr i, LPtr j => i =? j
  | _, _ => false
  end.
Definition locs_incl (A B : list loc) : bool :=
  forallb (fun a => existsb (loc_eqb a) B) A.

(* two fields may be live together unless both are union members with different values *)
Definition may_coexist (f g : field) : bool :=
  match f_dv f, f_dv g with
  | Some a, Some b => eqb_bits a b
  | _, _ => true
  end.

Definition slot_ok (f : field) : bool :=
  match f with
  | FSlot _ dv off t d =>
    (0 <=? off) &&
    match t with
    | TBool => match d with DBits [_] | DAbsent => true | _ => false end
    | TInt w => match d with DBits bs => (length bs =? w)%nat | DAbsent => true | _ => false end
                && ((w =? 8) || (w =? 16) || (w =? 32) || (w =? 64))%nat
    | TStruct _ _ => match ptr_struct (dflt_ptr d) with None => true | Some _ => false end
    | TAnyPtr => negb (ptr_valid (dflt_ptr d))
    | TList _ => match ptr_list (dflt_ptr d) with Some l => negb (list_len l =? 0)%nat | None => true end
    | _ => true
    end
  | FGroup _ dv _ => true
  end.

(* fields without a Go counterpart are never inserted or extracted: they are not constrained *)
Fixpoint fields_ok (tbl : fptable) (N D : list loc) (fs : list field) : bool :=
  match fs with
  | [] => true
  | f :: r =>
    (if f_present f then
       slot_ok f && locs_incl (field_fp tbl f) N && locs_disjoint (field_fp tbl f) D &&
       forallb (fun g => if f_present g && may_coexist f g
                         then locs_disjoint (field_fp tbl f) (field_fp tbl g) else true) r
     else true) && fields_ok tbl N D r
  end.

Definition node_ok (tbl : fptable) (id : Z) (n : snode) : bool :=
  (* a Which field / fixed discriminant exists only for a node with a union (mapStruct) *)
  match n_disc n, n_which n with Some doff, _ => 0 <=? doff | None, WNone => true | None, _ => false end &&
  locs_incl (disc_loc n) (fp_of tbl id) &&
  fields_ok tbl (fp_of tbl id) (disc_loc n) (n_fields n).

Definition fp_table (fuel : nat) (sch : schema) : fptable :=
  map (fun p => (fst p, match node_fp fuel sch (fst p) with Some F => F | None => [] end)) sch.

Definition table_ok (tbl : fptable) (sch : schema) : bool :=
  forallb (fun p => node_ok tbl (fst p) (snd p)) sch.

(* every node of the schema has a conflict-free layout (groups nested at most [fuel] deep) *)
Definition schema_ok (fuel : nat) (sch : schema) : bool :=
  table_ok (fp_table fuel sch) sch.

(* ------------------------------------------------------------------ observation helpers (driver) *)
Definition struct_bytes (s : strct) : list Z :=
  map (fun k => z_of_bits (get_range (s_data s) (8 * Z.of_nat k) 8)) (seq 0 (Z.to_nat (s_dbytes s))).
Definition struct_ptrs (s : strct) : list ptrval :=
  map (fun k => s_ptrs s (Z.of_nat k)) (seq 0 (Z.to_nat (s_pcount s))).
Definition mk_struct (bytes : list Z) (ps : list ptrval) : strct :=
  Strct (Z.of_nat (length bytes))
        (fun i => if i <? 0 then false else Z.testbit (nth (Z.to_nat (i / 8)) bytes 0) (i mod 8))
        (Z.of_nat (length ps))
        (fun j => if j <? 0 then PNull else nth (Z.to_nat j) ps PNull).
