(* C02 for pogs.Extract over the reader model: with fuel >= (D + 2) * G, where D is the depth
   limit and G bounds the by-value nesting of the mapped schema (rschema_ok G), [extract_r]
   never runs out of fuel: on ANY segment bytes, cyclic messages included.  Every pointer
   dereference lowers the depth limit carried by the pointer (C02_depth_bound's lemmas
   struct_ptr_depth / ptrlist_at_depth / list_struct_depth); between two dereferences
   extractStruct can only enter groups and by-value struct fields, at most G levels. *)
From CV Require Import Core.SafetyProofs Core.LimitProofs Pogs.PogsRead Pogs.PogsReadProofs.
From CV Require Pogs.PogsM.
From Coq Require Import ZifyBool.
Open Scope Z_scope.

Definition nfM {A} (x : M A) (P : A -> Prop) : Prop :=
  forall s, match fst (x s) with XOk a => P a | XFuel => False | _ => True end.

Lemma nf_ret {A} (a : A) (P : A -> Prop) : P a -> nfM (ret a) P.
Proof. intros H s. exact H. Qed.
Lemma nf_fail {A} (r : xres A) (P : A -> Prop) :
  match r with XOk a => P a | XFuel => False | _ => True end -> nfM (fail r) P.
Proof. intros H s. exact H. Qed.
Lemma nf_bind {A B} (x : M A) (f : A -> M B) (Q : A -> Prop) (P : B -> Prop) :
  nfM x Q -> (forall a, Q a -> nfM (f a) P) -> nfM (bindM x f) P.
Proof.
  intros Hx Hf s. unfold bindM. specialize (Hx s).
  destruct (x s) as [r s']. cbn [fst] in Hx. destruct r; cbn [fst]; try exact I; try exact Hx.
  apply Hf. exact Hx.
Qed.
Lemma nf_lift {A} (r : res A) : nfM (lift r) top_.
Proof. intros s. unfold lift. destruct r; exact I. Qed.
Lemma nf_lift_eq {A} (r : res A) : nfM (lift r) (fun a => r = Ok a).
Proof. intros s. unfold lift. destruct r; cbn; auto. Qed.
Lemma nf_lift_ptr (f : Z -> res Ptr * Z) (P : Ptr -> Prop) :
  (forall rl q, fst (f rl) = Ok q -> P q) -> nfM (lift_ptr f) P.
Proof.
  intros H s. unfold lift_ptr. specialize (H (x_rl s)).
  destruct (fst (f (x_rl s))); cbn; auto.
Qed.
Lemma nf_make_slice n : nfM (make_slice n) top_.
Proof. intros s. unfold make_slice. destruct (n <? 0); exact I. Qed.
Lemma nf_iterM {A} (f : Z -> M A) : (forall i, nfM (f i) top_) -> forall n lo, nfM (iterM n lo f) top_.
Proof.
  intros H. induction n as [|n IH]; intros lo.
  - apply nf_ret. exact I.
  - cbn [iterM]. eapply nf_bind; [apply H|]. intros a _.
    eapply nf_bind; [apply IH|]. intros r _. apply nf_ret. exact I.
Qed.

(* levels of dereference still available below sp *)
Definition dep (sp : Ptr) : Z := if p_valid sp then p_depth sp + 1 else 0.

Lemma dep_nonneg sp : (p_valid sp = true -> 0 <= p_depth sp) -> 0 <= dep sp.
Proof. intros H. unfold dep. destruct (p_valid sp); [specialize (H eq_refl)|]; lia. Qed.

Section Fuel.
  Variable c : config.
  Variable fx : fixes.
  Variable m : segs.
  Variable sch : PogsM.schema.
  Variable rec_ext : Z -> Ptr -> M rval.
  Variable Gn : nat.
  Variable F : Z.
  Let G := Z.of_nat Gn.
  Hypothesis Hfd : fx_depth fx = true.
  Hypothesis Hall : forall id, nest_ok Gn sch id = true.
  Hypothesis Hrec : forall id sp g, nest_ok g sch id = true -> (p_valid sp = true -> 0 <= p_depth sp) ->
    dep sp * G + Z.of_nat g <= F -> nfM (rec_ext id sp) top_.

  Definition below (sp q : Ptr) : Prop :=
    p_valid q = true -> 0 <= p_depth q /\ p_valid sp = true /\ p_depth q <= p_depth sp - 1.

  Lemma sptr_nf sp off : (p_valid sp = true -> 0 <= p_depth sp) -> nfM (sptr c m sp off) (below sp).
  Proof.
    intros Hd. apply nf_lift_ptr. intros rl q E V.
    destruct (p_valid sp) eqn:Vs.
    - destruct (struct_ptr_depth c m rl sp (off mod 65536) q (Hd eq_refl) E V) as (_ & H1 & H2).
      repeat split; try lia.
    - unfold struct_ptr in E. rewrite Vs in E. cbn in E. inversion E. subst q. cbn in V. discriminate.
  Qed.

  Lemma plat_nf l i : (p_valid l = true -> 0 <= p_depth l) -> nfM (plat c fx m l i) (below l).
  Proof.
    intros Hd. apply nf_lift_ptr. intros rl q E V.
    destruct (p_valid l) eqn:Vs.
    - destruct (ptrlist_at_depth c (fx_upgrade fx) m rl l i q (Hd eq_refl) E V) as (_ & H1 & H2).
      repeat split; try lia.
    - unfold ptrlist_at, primitiveElem in E. rewrite Vs in E. cbn in E. discriminate.
  Qed.

  Lemma G_nonneg : 0 <= G.
  Proof. unfold G. lia. Qed.

  (* extractList below a valid list l *)
  Lemma extract_list_nf : forall e l, p_valid l = true -> 0 <= p_depth l ->
    (p_depth l + 1) * G + G <= F -> nfM (extract_list c fx m rec_ext e l) top_.
  Proof.
    pose proof G_nonneg as HG.
    induction e as [| |w|bytes| |e IH|isptr id| |]; intros l V Hd HF; cbn [extract_list].
    - apply nf_fail. exact I.
    - eapply nf_bind; [apply nf_make_slice|]. intros _ _.
      eapply nf_bind; [|intros; apply nf_ret; exact I]. apply nf_iterM. intros i.
      eapply nf_bind; [apply nf_lift|intros; apply nf_ret; exact I].
    - eapply nf_bind; [apply nf_make_slice|]. intros _ _.
      eapply nf_bind; [|intros; apply nf_ret; exact I]. apply nf_iterM. intros i.
      eapply nf_bind; [apply nf_lift|intros; apply nf_ret; exact I].
    - eapply nf_bind; [apply nf_make_slice|]. intros _ _.
      eapply nf_bind; [|intros; apply nf_ret; exact I]. apply nf_iterM. intros i.
      eapply nf_bind; [apply plat_nf; intros; assumption|]. intros p _.
      eapply nf_bind; [apply nf_lift|intros; apply nf_ret; exact I].
    - eapply nf_bind; [apply nf_make_slice|]. intros _ _.
      eapply nf_bind; [|intros; apply nf_ret; exact I]. apply nf_iterM. intros i.
      eapply nf_bind; [apply plat_nf; intros; assumption|]. intros p _.
      eapply nf_bind; [apply nf_lift|intros; apply nf_ret; exact I].
    - eapply nf_bind; [apply nf_make_slice|]. intros _ _.
      eapply nf_bind; [|intros; apply nf_ret; exact I]. apply nf_iterM. intros i.
      eapply nf_bind; [apply plat_nf; intros; assumption|]. intros p Hp. cbv zeta.
      destruct (p_valid (as_list p)) eqn:Vl; cbn [negb]; [|apply nf_ret; exact I].
      destruct (as_list_valid p Vl) as [El Vp]. rewrite El. destruct (Hp Vp) as (H0 & _ & H1).
      apply IH; try assumption. nia.
    - eapply nf_bind; [apply nf_make_slice|]. intros _ _.
      eapply nf_bind; [|intros; apply nf_ret; exact I]. apply nf_iterM. intros i.
      eapply nf_bind; [apply nf_lift_eq|]. intros q Eq. rewrite Hfd in Eq.
      apply Hrec with (g := Gn); [apply Hall| |].
      + intros Vq. destruct (list_struct_depth l i q Hd Eq Vq) as (_ & H0 & _). assumption.
      + unfold dep. destruct (p_valid q) eqn:Vq.
        * destruct (list_struct_depth l i q Hd Eq Vq) as (_ & H0 & H1). fold G. nia.
        * fold G. nia.
    - eapply nf_bind; [apply nf_make_slice|]. intros _ _.
      eapply nf_bind; [|intros; apply nf_ret; exact I]. apply nf_iterM. intros i.
      eapply nf_bind; [apply plat_nf; intros; assumption|]. intros; apply nf_ret; exact I.
    - eapply nf_bind; [apply nf_make_slice|]. intros _ _. apply nf_fail. exact I.
  Qed.

  Definition nestcond (g' : nat) (f : PogsM.field) : bool :=
    match f with
    | PogsM.FGroup true _ gid => nest_ok g' sch gid
    | PogsM.FSlot true _ _ (PogsM.TStruct false id') _ => nest_ok g' sch id'
    | _ => true
    end.

  Lemma extract_field_nf sp dv off t d g' : (p_valid sp = true -> 0 <= p_depth sp) ->
    nestcond g' (PogsM.FSlot true dv off t d) = true ->
    dep sp * G + Z.of_nat g' <= F ->
    nfM (extract_field c fx m rec_ext sp off t d) top_.
  Proof.
    intros Hd Hn HF. pose proof G_nonneg as HG. pose proof (dep_nonneg sp Hd) as Hdp.
    unfold extract_field.
    assert (nfM (extract_field_body c fx m rec_ext sp off t d) top_) as Hb.
    { unfold extract_field_body. destruct t as [| |w|bytes| |e|isptr id| |].
      - apply nf_fail. exact I.
      - eapply nf_bind; [apply nf_lift|intros; apply nf_ret; exact I].
      - eapply nf_bind; [apply nf_lift|intros; apply nf_ret; exact I].
      - eapply nf_bind; [apply sptr_nf; assumption|]. intros p _.
        eapply nf_bind; [apply nf_lift|intros; apply nf_ret; exact I].
      - eapply nf_bind; [apply sptr_nf; assumption|]. intros p _.
        eapply nf_bind; [apply nf_lift|intros; apply nf_ret; exact I].
      - destruct (negb (PogsM.mappable e)); [apply nf_fail; exact I|].
        eapply nf_bind; [apply sptr_nf; assumption|]. intros p Hp. cbv zeta.
        destruct (p_valid (as_list p)) eqn:Vl.
        + destruct (as_list_valid p Vl) as [El Vp]. rewrite El. destruct (Hp Vp) as (H0 & Vs & H1).
          apply extract_list_nf; try assumption. unfold dep in HF. rewrite Vs in HF. nia.
        + destruct (PogsM.ptr_list _); [apply nf_fail; exact I|apply nf_ret; exact I].
      - eapply nf_bind; [apply sptr_nf; assumption|]. intros p Hp. cbv zeta.
        destruct (p_valid (as_struct p)) eqn:Vs.
        + destruct (as_struct_valid p Vs) as [Es Vp]. rewrite Es. destruct (Hp Vp) as (H0 & Vsp & H1).
          unfold extract_struct_into. rewrite Vp. rewrite andb_false_r.
          apply Hrec with (g := Gn); [apply Hall|intros; assumption|].
          unfold dep in *. rewrite Vp. rewrite Vsp in HF. fold G. nia.
        + destruct (PogsM.ptr_struct _); [apply nf_fail; exact I|].
          unfold extract_struct_into. destruct isptr; cbn [andb negb p_valid nullPtr]; [apply nf_ret; exact I|].
          apply Hrec with (g := g'); [exact Hn|cbn; discriminate|]. unfold dep at 1. cbn [p_valid nullPtr]. lia.
      - eapply nf_bind; [apply sptr_nf; assumption|]. intros; apply nf_ret; exact I.
      - eapply nf_bind; [apply sptr_nf; assumption|]. intros p _.
        destruct (p_valid p); [apply nf_ret; exact I|].
        destruct (PogsM.ptr_valid _); [apply nf_fail; exact I|apply nf_ret; exact I]. }
    destruct d; try exact Hb. apply nf_fail. exact I.
  Qed.

  Lemma extract_fields_nf hw disc sp g' : (p_valid sp = true -> 0 <= p_depth sp) ->
    dep sp * G + Z.of_nat g' <= F -> forall fs,
    forallb (nestcond g') fs = true ->
    nfM (extract_fields c fx m rec_ext hw disc sp fs) top_.
  Proof.
    intros Hd HF. induction fs as [|f fs IH]; intros Hok; cbn [extract_fields].
    - apply nf_ret. exact I.
    - cbn [forallb] in Hok. apply andb_prop in Hok. destruct Hok as [Hf Hfs]. specialize (IH Hfs).
      unfold PogsM.field_action. destruct (PogsM.f_present f) eqn:Pf; cbn [negb].
      + assert (nfM (match f with
                     | PogsM.FSlot _ _ off t d => extract_field c fx m rec_ext sp off t d
                     | PogsM.FGroup _ _ gid => rec_ext gid sp
                     end) top_) as Hone.
        { destruct f as [pr dv off t d|pr dv gid]; cbn [PogsM.f_present] in Pf; subst pr.
          - eapply extract_field_nf; eassumption.
          - apply Hrec with (g := g'); assumption. }
        destruct (PogsM.f_dv f) as [dv|].
        * destruct hw; [|apply nf_fail; exact I].
          destruct (PogsM.eqb_bits dv disc).
          -- eapply nf_bind; [exact Hone|]. intros v0 _.
             eapply nf_bind; [exact IH|]. intros; apply nf_ret; exact I.
          -- eapply nf_bind; [exact IH|]. intros; apply nf_ret; exact I.
        * eapply nf_bind; [exact Hone|]. intros v0 _.
          eapply nf_bind; [exact IH|]. intros; apply nf_ret; exact I.
      + eapply nf_bind; [exact IH|]. intros; apply nf_ret; exact I.
  Qed.

  Lemma extract_struct_body_nf id sp g' : (p_valid sp = true -> 0 <= p_depth sp) ->
    nest_ok (S g') sch id = true -> dep sp * G + Z.of_nat g' <= F ->
    nfM (extract_struct_body c fx m sch rec_ext id sp) top_.
  Proof.
    intros Hd Hn HF. unfold extract_struct_body. cbn [nest_ok] in Hn.
    destruct (PogsM.find_node sch id) as [n|] eqn:En; [|apply nf_fail; exact I].
    pose proof (fun hw disc => extract_fields_nf hw disc sp g' Hd HF (PogsM.n_fields n) Hn) as HFs.
    destruct (PogsM.n_disc n) as [doff|].
    - eapply nf_bind; [apply nf_lift|]. intros dz _. cbv zeta. destruct (PogsM.n_which n).
      + eapply nf_bind; [apply HFs|]. intros; apply nf_ret; exact I.
      + eapply nf_bind; [apply HFs|]. intros; apply nf_ret; exact I.
      + destruct (PogsM.eqb_bits _ _); [|apply nf_fail; exact I].
        eapply nf_bind; [apply HFs|]. intros; apply nf_ret; exact I.
    - eapply nf_bind; [apply HFs|]. intros; apply nf_ret; exact I.
  Qed.
End Fuel.

Lemma nest_ok_all g sch : (1 <= g)%nat -> rschema_ok g sch = true -> forall id, nest_ok g sch id = true.
Proof.
  intros Hg Hs id. destruct (PogsM.find_node sch id) as [n|] eqn:En.
  - eapply rschema_node_ok; eassumption.
  - destruct g as [|g']; [lia|]. cbn [nest_ok]. rewrite En. reflexivity.
Qed.

(* (b): fuel >= dep sp * G + g suffices, whatever the bytes *)
Theorem extract_r_nf c fx m sch Gn : fx_depth fx = true -> (1 <= Gn)%nat -> rschema_ok Gn sch = true ->
  forall fuel id sp g, nest_ok g sch id = true -> (p_valid sp = true -> 0 <= p_depth sp) ->
  dep sp * Z.of_nat Gn + Z.of_nat g <= Z.of_nat fuel ->
  nfM (extract_r fuel c fx m sch id sp) top_.
Proof.
  intros Hfd HG Hok. pose proof (nest_ok_all Gn sch HG Hok) as Hall.
  induction fuel as [|f IH]; intros id sp g Hn Hd HF.
  - destruct g as [|g']; [cbn in Hn; discriminate|].
    pose proof (dep_nonneg sp Hd). nia.
  - destruct g as [|g']; [cbn in Hn; discriminate|]. cbn [extract_r].
    eapply extract_struct_body_nf with (Gn := Gn) (F := Z.of_nat f) (g' := g'); try eassumption. lia.
Qed.

Theorem extract_msg_fuel_sufficient c fx m sch Gn fuel id : fx_depth fx = true -> (1 <= Gn)%nat ->
  rschema_ok Gn sch = true -> 1 <= depth_limit c ->
  (depth_limit c + 1) * Z.of_nat Gn <= Z.of_nat fuel ->
  fst (extract_msg fuel c fx m sch id) <> TRes XFuel.
Proof.
  intros Hfd HG Hok HD HF. unfold extract_msg.
  destruct (fst (root c m (init_rlimit c))) as [p| |] eqn:Er; cbn [fst]; try discriminate.
  intros E. inversion E as [E']. clear E.
  assert (p_valid (as_struct p) = true -> 0 <= p_depth (as_struct p) <= depth_limit c - 1) as Hdp.
  { intros V. destruct (as_struct_valid p V) as [Es Vp]. rewrite Es.
    destruct (root_depth c m (init_rlimit c) p HD Er Vp) as [H1 H2]. lia. }
  pose proof (extract_r_nf c fx m sch Gn Hfd HG Hok fuel id (as_struct p) Gn
                (nest_ok_all Gn sch HG Hok id) (fun V => proj1 (Hdp V))) as H.
  assert (dep (as_struct p) * Z.of_nat Gn + Z.of_nat Gn <= Z.of_nat fuel) as Hle.
  { unfold dep. destruct (p_valid (as_struct p)) eqn:V; [specialize (Hdp eq_refl)|]; nia. }
  specialize (H Hle). unfold nfM in H.
  match type of E' with fst (_ ?s) = _ => specialize (H s) end. rewrite E' in H. exact H.
Qed.
