(* Totality of the extract model on ALL struct contents: it never panics (every fuel, every
   schema, every struct, both the fixed and the pre-fix variant), and a result other than
   OutOfFuel is final: more fuel returns the same result. *)
From CV Require Import Pogs.PogsM Pogs.PogsProofs.
Open Scope Z_scope.

Lemma bind_np {A B} (r : res A) (k : A -> res B) :
  r <> Panic -> (forall a, k a <> Panic) -> bind r k <> Panic.
Proof. destruct r; cbn; intros H K; auto; try discriminate. Qed.

Lemma mapM_np {A B} (f : A -> res B) : (forall a, f a <> Panic) -> forall l, mapM f l <> Panic.
Proof.
  intros H. induction l as [|a l IH]; cbn [mapM]; [discriminate|].
  apply bind_np; [apply H|]. intros b. apply bind_np; [exact IH|]. discriminate.
Qed.

Section NoPanic.
  Variable fixed : bool.
  Variable sch : schema.
  Variable rec_ext : Z -> strct -> res gval.
  Hypothesis rec_np : forall id s, rec_ext id s <> Panic.

  Lemma into_np isptr id os : extract_struct_into rec_ext isptr id os <> Panic.
  Proof. destruct os; cbn; [apply rec_np|]. destruct isptr; [discriminate|apply rec_np]. Qed.

  Lemma ptrlist_np l : ptrlist_elems l <> Panic.
  Proof.
    destruct l; cbn; try discriminate.
    all: try (match goal with |- context [match ?x with _ => _ end] => destruct x end; discriminate).
    destruct ss; [discriminate|]. destruct (1 <=? s_pcount s); discriminate.
  Qed.

  Lemma list_np e : forall l, extract_list rec_ext e l <> Panic.
  Proof.
    induction e; intros l; cbn [extract_list]; try discriminate.
    - apply bind_np; [apply ptrlist_np|discriminate].
    - apply bind_np; [apply ptrlist_np|discriminate].
    - apply bind_np; [apply ptrlist_np|]. intros ps. apply bind_np; [|discriminate].
      apply mapM_np. intros p. destruct (ptr_list p); [apply IHe|discriminate].
    - apply bind_np; [|discriminate]. apply mapM_np. intros os. apply into_np.
    - apply bind_np; [apply ptrlist_np|discriminate].
  Qed.

  Lemma field_np s off t d : extract_field fixed rec_ext s off t d <> Panic.
  Proof.
    unfold extract_field. assert (H : extract_field_body fixed rec_ext s off t d <> Panic).
    { unfold extract_field_body. destruct t; try discriminate.
      - match goal with |- match ?x with _ => _ end <> _ => destruct x end; [apply list_np|discriminate].
      - apply into_np. }
    destruct d; auto; discriminate.
  Qed.

  Lemma fields_np hw disc s : forall fs, extract_fields fixed rec_ext hw disc s fs <> Panic.
  Proof.
    induction fs as [|f fs IH]; cbn [extract_fields]; [discriminate|].
    destruct (field_action hw disc f); try discriminate.
    - apply bind_np; [exact IH|discriminate].
    - apply bind_np.
      + destruct f; [apply field_np|apply rec_np].
      + intros v. apply bind_np; [exact IH|discriminate].
  Qed.

  Lemma body_np id s : extract_struct_body fixed sch rec_ext id s <> Panic.
  Proof.
    unfold extract_struct_body. destruct (find_node sch id) as [n|]; [|discriminate].
    destruct (n_disc n).
    - destruct (n_which n).
      + apply bind_np; [apply fields_np|discriminate].
      + apply bind_np; [apply fields_np|discriminate].
      + destruct (eqb_bits _ _); [|discriminate]. apply bind_np; [apply fields_np|discriminate].
    - apply bind_np; [apply fields_np|discriminate].
  Qed.
End NoPanic.

Theorem extract_never_panics : forall fixed fuel sch id s,
  extract_struct fixed fuel sch id s <> Panic.
Proof.
  induction fuel as [|f IH]; intros; cbn [extract_struct]; [discriminate|].
  apply body_np. intros; apply IH.
Qed.

(* the whole-struct read through the generated accessors does not panic either: it calls the
   getter of a union member only when Which() selects it *)
Corollary gen_struct_never_panics : forall fuel sch id s, gen_struct fuel sch id s <> Panic.
Proof. intros. rewrite <- extract_agrees_with_generated. apply extract_never_panics. Qed.

(* ------------------------------------------------------------------ fuel stability *)
Definition fle {A} (r1 r2 : res A) : Prop := r1 <> OutOfFuel -> r2 = r1.

Lemma fle_refl {A} (r : res A) : fle r r.
Proof. intros _. reflexivity. Qed.

Lemma bind_fle {A B} (r1 r2 : res A) (k1 k2 : A -> res B) :
  fle r1 r2 -> (forall a, fle (k1 a) (k2 a)) -> fle (bind r1 k1) (bind r2 k2).
Proof.
  unfold fle. intros H K N. destruct r1; cbn in *; try (rewrite H by discriminate; reflexivity).
  - rewrite H by discriminate. cbn. apply K. exact N.
  - contradiction.
Qed.

Lemma mapM_fle {A B} (f g : A -> res B) : (forall a, fle (f a) (g a)) -> forall l, fle (mapM f l) (mapM g l).
Proof.
  intros H. induction l as [|a l IH]; cbn [mapM]; [apply fle_refl|].
  apply bind_fle; [apply H|]. intros b. apply bind_fle; [exact IH|]. intros; apply fle_refl.
Qed.

Section Stable.
  Variable fixed : bool.
  Variable sch : schema.
  Variables rec1 rec2 : Z -> strct -> res gval.
  Hypothesis rec_le : forall id s, fle (rec1 id s) (rec2 id s).

  Lemma into_fle isptr id os : fle (extract_struct_into rec1 isptr id os) (extract_struct_into rec2 isptr id os).
  Proof. destruct os; cbn; [apply rec_le|]. destruct isptr; [apply fle_refl|apply rec_le]. Qed.

  Lemma list_fle e : forall l, fle (extract_list rec1 e l) (extract_list rec2 e l).
  Proof.
    induction e; intros l; cbn [extract_list]; try apply fle_refl.
    - apply bind_fle; [apply fle_refl|]. intros ps. apply bind_fle; [|intros; apply fle_refl].
      apply mapM_fle. intros p. destruct (ptr_list p); [apply IHe|apply fle_refl].
    - apply bind_fle; [|intros; apply fle_refl]. apply mapM_fle. intros os. apply into_fle.
  Qed.

  Lemma field_fle s off t d : fle (extract_field fixed rec1 s off t d) (extract_field fixed rec2 s off t d).
  Proof.
    unfold extract_field.
    assert (H : fle (extract_field_body fixed rec1 s off t d) (extract_field_body fixed rec2 s off t d)).
    { unfold extract_field_body. destruct t; try apply fle_refl.
      - match goal with |- fle (match ?x with _ => _ end) _ => destruct x end; [apply list_fle|apply fle_refl].
      - apply into_fle. }
    destruct d; auto; apply fle_refl.
  Qed.

  Lemma fields_fle hw disc s : forall fs,
    fle (extract_fields fixed rec1 hw disc s fs) (extract_fields fixed rec2 hw disc s fs).
  Proof.
    induction fs as [|f fs IH]; cbn [extract_fields]; [apply fle_refl|].
    destruct (field_action hw disc f); try apply fle_refl.
    - apply bind_fle; [exact IH|intros; apply fle_refl].
    - apply bind_fle.
      + destruct f; [apply field_fle|apply rec_le].
      + intros v. apply bind_fle; [exact IH|intros; apply fle_refl].
  Qed.

  Lemma body_fle id s : fle (extract_struct_body fixed sch rec1 id s) (extract_struct_body fixed sch rec2 id s).
  Proof.
    unfold extract_struct_body. destruct (find_node sch id) as [n|]; [|apply fle_refl].
    destruct (n_disc n).
    - destruct (n_which n).
      + apply bind_fle; [apply fields_fle|intros; apply fle_refl].
      + apply bind_fle; [apply fields_fle|intros; apply fle_refl].
      + destruct (eqb_bits _ _); [|apply fle_refl]. apply bind_fle; [apply fields_fle|intros; apply fle_refl].
    - apply bind_fle; [apply fields_fle|intros; apply fle_refl].
  Qed.
End Stable.

Lemma extract_fuel_step : forall fixed fuel sch id s,
  fle (extract_struct fixed fuel sch id s) (extract_struct fixed (S fuel) sch id s).
Proof.
  induction fuel as [|f IH]; intros sch id s.
  - intros N. exfalso. apply N. reflexivity.
  - change (fle (extract_struct_body fixed sch (extract_struct fixed f sch) id s)
                (extract_struct_body fixed sch (extract_struct fixed (S f) sch) id s)).
    apply body_fle. intros; apply IH.
Qed.

(* a result other than OutOfFuel is the result for every larger fuel *)
Theorem extract_fuel_stable : forall fixed fuel k sch id s,
  extract_struct fixed fuel sch id s <> OutOfFuel ->
  extract_struct fixed (k + fuel) sch id s = extract_struct fixed fuel sch id s.
Proof.
  induction k as [|k IH]; intros sch id s N; [reflexivity|].
  cbn [plus]. rewrite <- (IH sch id s N).
  apply extract_fuel_step. rewrite IH; assumption.
Qed.

(* the outcome of Extract on arbitrary contents is one of: a value, an error, Unmodelled, OutOfFuel *)
Theorem extract_total : forall fixed fuel sch id s,
  (exists v, extract_struct fixed fuel sch id s = Ok v) \/
  extract_struct fixed fuel sch id s = Err \/
  extract_struct fixed fuel sch id s = Unmodelled \/
  extract_struct fixed fuel sch id s = OutOfFuel.
Proof.
  intros. pose proof (extract_never_panics fixed fuel sch id s) as H.
  destruct (extract_struct fixed fuel sch id s); eauto. contradiction.
Qed.
