(* Bridge between the accessor model of this group ([gen_getter], PogsM.v) and C15's model of the
   accessors capnpc-go EMITS (coq/Layout: [spec_get] = the schema's bit-range semantics, proved
   equal to [run_getter (gen_accessor f)] in LayoutMain.gen_getter_value; [gen_accessor f] is what
   genir regenerates from the emitted code on every run, Gen/GenAccessors.v + GenCheck).
   The two struct models are related by [to_strukt]: data section = [struct_bytes], pointer
   slots = tokens [tok p] (0 for null). *)
From CV Require Import Pogs.PogsM Pogs.PogsFrame.
From CV Require Layout.Layout Layout.LayoutMain.
From Coq Require Import ZifyBool ZifyNat.
Open Scope Z_scope.

(* ------------------------------------------------------------------ bits *)
Lemma zob_cons b l : z_of_bits (b :: l) = 2 * z_of_bits l + Z.b2z b.
Proof. cbn [z_of_bits]. destruct b; cbn [Z.b2z]; lia. Qed.

Lemma z_of_bits_range l : 0 <= z_of_bits l < 2 ^ Z.of_nat (length l).
Proof.
  induction l as [|b l IH]; [cbn; lia|]. rewrite zob_cons. cbn [length]. rewrite Nat2Z.inj_succ, Z.pow_succ_r by lia.
  destruct b; cbn [Z.b2z]; lia.
Qed.

Lemma testbit_z_of_bits l : forall j, Z.testbit (z_of_bits l) (Z.of_nat j) = nth j l false.
Proof.
  induction l as [|b l IH]; intros j.
  - cbn [z_of_bits]. rewrite Z.testbit_0_l. destruct j; reflexivity.
  - rewrite zob_cons. destruct j.
    + cbn [Z.of_nat nth]. apply Z.testbit_0_r.
    + rewrite Nat2Z.inj_succ, Z.testbit_succ_r by lia. cbn [nth]. apply IH.
Qed.

Lemma z_of_bits_inj a : forall b, length a = length b -> z_of_bits a = z_of_bits b -> a = b.
Proof.
  induction a as [|x a IH]; destruct b as [|y b]; cbn [length]; intros Hl H; try discriminate; [reflexivity|].
  rewrite !zob_cons in H. assert (x = y /\ z_of_bits a = z_of_bits b) as [-> Hz] by (destruct x, y; cbn [Z.b2z] in H; (split; [reflexivity|lia]) || lia).
  f_equal. apply IH; [lia|exact Hz].
Qed.

Lemma lxor_z_of_bits a : forall b, length a = length b ->
  Z.lxor (z_of_bits a) (z_of_bits b) = z_of_bits (xor_bits a b).
Proof.
  induction a as [|x a IH]; destruct b as [|y b]; cbn [length]; intros Hl; try discriminate; [reflexivity|].
  cbn [xor_bits]. rewrite !zob_cons, <- IH by lia.
  apply Z.bits_inj'. intros n Hn. rewrite Z.lxor_spec.
  destruct (Z.eq_dec n 0) as [->|Hn0].
  - rewrite !Z.testbit_0_r. reflexivity.
  - replace n with (Z.succ (n - 1)) by lia. rewrite !Z.testbit_succ_r by lia. rewrite Z.lxor_spec. reflexivity.
Qed.

Lemma z_of_bits_zeros w : z_of_bits (zeros w) = 0.
Proof. unfold zeros. induction w; [reflexivity|]. cbn [repeat]. rewrite zob_cons, IHw. reflexivity. Qed.

Lemma get_range_length d st w : length (get_range d st w) = w.
Proof. unfold get_range. rewrite map_length, seq_length. reflexivity. Qed.

Lemma get_range_S d st w : get_range d st (S w) = d st :: get_range d (st + 1) w.
Proof.
  unfold get_range. cbn [seq map]. f_equal; [f_equal; lia|].
  rewrite <- seq_shift, map_map. apply map_ext. intros k. f_equal. lia.
Qed.

(* ------------------------------------------------------------------ the two struct models *)
Definition to_strukt (tok : ptrval -> Z) (s : strct) : Layout.strukt :=
  Layout.mkS (struct_bytes s) (map tok (struct_ptrs s)).

Lemma struct_bytes_length s : length (struct_bytes s) = Z.to_nat (s_dbytes s).
Proof. unfold struct_bytes. rewrite map_length, seq_length. reflexivity. Qed.

Lemma struct_bytes_bit s i : 0 <= i < 8 * s_dbytes s -> Layout.data_bit (struct_bytes s) i = s_data s i.
Proof.
  intros Hi. unfold Layout.data_bit, struct_bytes.
  set (f := fun k : nat => z_of_bits (get_range (s_data s) (8 * Z.of_nat k) 8)).
  assert (Hq : (Z.to_nat (i / 8) < Z.to_nat (s_dbytes s))%nat).
  { assert (0 <= i / 8 < s_dbytes s) by (split; [apply Z.div_pos; lia|apply Z.div_lt_upper_bound; lia]). lia. }
  rewrite (nth_indep _ 0 (f 0%nat)) by (rewrite map_length, seq_length; exact Hq).
  rewrite map_nth, seq_nth by exact Hq. cbn [plus]. unfold f.
  assert (Hm : 0 <= i mod 8 < 8) by (apply Z.mod_pos_bound; lia).
  replace (i mod 8) with (Z.of_nat (Z.to_nat (i mod 8))) by lia.
  rewrite testbit_z_of_bits. unfold get_range. rewrite nth_map_seq by lia.
  f_equal. rewrite Z2Nat.id by (apply Z.div_pos; lia). pose proof (Z.div_mod i 8). lia.
Qed.

Lemma bits_val_eq s : forall n lo, 0 <= lo -> lo + Z.of_nat n <= 8 * s_dbytes s ->
  Layout.bits_val (struct_bytes s) lo n = z_of_bits (get_range (s_data s) lo n).
Proof.
  induction n as [|n IH]; intros lo H0 H1; [reflexivity|].
  cbn [Layout.bits_val]. rewrite struct_bytes_bit by lia. rewrite IH by lia.
  rewrite get_range_S, zob_cons. lia.
Qed.

Lemma bits_in_eq s lo len : 0 <= s_dbytes s ->
  Layout.bits_in (struct_bytes s) lo len = (0 <=? lo) && (lo + len <=? 8 * s_dbytes s).
Proof. intros H. unfold Layout.bits_in. rewrite struct_bytes_length. rewrite Z2Nat.id by lia. reflexivity. Qed.

Lemma nth_map_seq_gen {A} (f : nat -> A) n k d : (k < n)%nat -> nth k (map f (seq 0 n)) d = f k.
Proof.
  intros H. rewrite (nth_indep _ d (f 0%nat)) by (rewrite map_length, seq_length; lia).
  rewrite map_nth, seq_nth by lia. reflexivity.
Qed.

Lemma s_ptr_eq tok s i : 0 <= i -> 0 <= s_pcount s -> tok PNull = 0 ->
  Layout.s_ptr (to_strukt tok s) i = tok (read_ptr s i).
Proof.
  intros Hi Hp Ht. unfold Layout.s_ptr, Layout.pcount, to_strukt, read_ptr, struct_ptrs. cbn [Layout.sptrs].
  rewrite !map_length, seq_length, Z2Nat.id by lia.
  destruct (i <? s_pcount s) eqn:E.
  - replace ((0 <=? i) && true) with true by lia.
    rewrite (nth_indep _ 0 (tok PNull)) by (rewrite !map_length, seq_length; lia).
    rewrite map_nth. f_equal.
    rewrite nth_map_seq_gen by lia. f_equal. lia.
  - replace ((0 <=? i) && false) with false by lia. symmetry. exact Ht.
Qed.

(* ------------------------------------------------------------------ discriminant *)
Definition disc_of (dv : option (list bool)) : Z :=
  match dv with None => 65535 | Some v => z_of_bits v end.
Definition dv_ok (dv : option (list bool)) : Prop :=
  match dv with None => True | Some v => length v = 16%nat /\ z_of_bits v <> 65535 end.

(* the node's discriminant offset and the field's discriminant value, as C15's field_desc has them *)
Definition desc_matches (n : snode) (dv : option (list bool)) (f : Layout.field_desc) : Prop :=
  Layout.fd_disc f = disc_of dv /\ dv_ok dv /\
  (dv <> None -> n_disc n = Some (Layout.fd_discoff f) /\ 0 <= Layout.fd_discoff f).

Lemma read_int16 s doff : 0 <= doff -> 0 <= s_dbytes s ->
  z_of_bits (read_int s doff 16) =
  (if Layout.bits_in (struct_bytes s) (doff * 16) 16 then Layout.bits_val (struct_bytes s) (doff * 16) 16 else 0)
  /\ length (read_int s doff 16) = 16%nat.
Proof.
  intros Hd Hb. unfold read_int. rewrite bits_in_eq by lia.
  change (wbytes 16) with 2. change (Z.of_nat 16) with 16.
  destruct (doff * 2 + 2 <=? s_dbytes s) eqn:E.
  - replace ((0 <=? doff * 16) && (doff * 16 + 16 <=? 8 * s_dbytes s)) with true by lia.
    rewrite bits_val_eq by lia. split; [reflexivity|apply get_range_length].
  - replace ((0 <=? doff * 16) && (doff * 16 + 16 <=? 8 * s_dbytes s)) with false by lia.
    split; [apply z_of_bits_zeros|apply repeat_length].
Qed.

Lemma active_eq tok n s dv f : desc_matches n dv f -> 0 <= s_dbytes s ->
  Layout.spec_active f (to_strukt tok s) = gen_check_which n s dv.
Proof.
  intros (Hd & Hok & Hn) Hb. unfold Layout.spec_active, Layout.has_disc, gen_check_which. rewrite Hd.
  destruct dv as [v|]; cbn [disc_of]; [|reflexivity].
  destruct Hok as [Hl Hne]. destruct (Hn ltac:(discriminate)) as [Hnd Hdo]. rewrite Hnd.
  replace (z_of_bits v =? 65535) with false by lia. cbn [negb orb].
  unfold Layout.spec_which, Layout.disc_lo, to_strukt. cbn [Layout.sdata].
  destruct (read_int16 s (Layout.fd_discoff f) Hdo Hb) as [Hr Hlen]. rewrite <- Hr.
  destruct (eqb_bits v (read_int s (Layout.fd_discoff f) 16)) eqn:E.
  - apply eqb_bits_eq in E. rewrite <- E. lia.
  - destruct (z_of_bits (read_int s (Layout.fd_discoff f) 16) =? z_of_bits v) eqn:E2; [|reflexivity].
    exfalso. assert (v = read_int s (Layout.fd_discoff f) 16) by (apply z_of_bits_inj; lia).
    subst v. assert (eqb_bits (read_int s (Layout.fd_discoff f) 16) (read_int s (Layout.fd_discoff f) 16) = true)
      by (apply eqb_bits_eq; reflexivity). congruence.
Qed.

(* ------------------------------------------------------------------ scalar fields *)
Definition scalar_kind (k : Layout.kind) (w : nat) : Prop :=
  match k with
  | Layout.KInt x | Layout.KUint x => Layout.wbits x = Z.of_nat w
  | Layout.KFloat32 => w = 32%nat | Layout.KFloat64 => w = 64%nat | Layout.KEnum => w = 16%nat
  | _ => False
  end.

Lemma scalar_kind_w k w : scalar_kind k w -> (w = 8 \/ w = 16 \/ w = 32 \/ w = 64)%nat /\ Layout.kind_bits k = Z.of_nat w.
Proof. destruct k; cbn; try tauto; try (intros ->; cbn; lia); destruct w0; cbn; lia. Qed.

(* every integer / enum / float field: the bit range the schema assigns (C15's spec_get), XOR the
   default, with the discriminant test, is what gen_getter computes *)
Theorem gen_getter_scalar_is_layout_spec : forall tok n s dv off w d f,
  desc_matches n dv f -> 0 <= s_dbytes s -> 0 <= off ->
  scalar_kind (Layout.fd_kind f) w -> Layout.fd_off f = off ->
  length (dflt_bits d w) = w -> Layout.default_raw f = z_of_bits (dflt_bits d w) ->
  Layout.spec_get f (to_strukt tok s) =
  match gen_getter n s dv off (TInt w) d with
  | Ok (VBits bs) => Layout.Ok (Layout.decode (Layout.fd_kind f) (z_of_bits bs))
  | _ => Layout.Panic
  end.
Proof.
  intros tok n s dv off w d f Hm Hb Hoff Hk Hfo Hdl Hdr.
  destruct (scalar_kind_w _ _ Hk) as [Hw Hkb].
  unfold Layout.spec_get, gen_getter. rewrite (active_eq tok n s dv f Hm Hb).
  assert (Hg : Layout.kind_eqb_group (Layout.fd_kind f) = false) by (destruct (Layout.fd_kind f); cbn in Hk; try tauto; reflexivity).
  rewrite Hg. destruct (gen_check_which n s dv); cbn [negb]; [|reflexivity].
  assert (Hr : Layout.field_range f = Layout.RBits (off * Z.of_nat w) (Z.of_nat w)).
  { unfold Layout.field_range. rewrite Hfo. destruct (Layout.fd_kind f); cbn in Hk; try tauto; rewrite <- Hkb; reflexivity. }
  rewrite Hr. f_equal. f_equal. rewrite Hdr.
  rewrite <- lxor_z_of_bits.
  2:{ rewrite Hdl. unfold read_int. destruct (_ <=? _); [apply get_range_length|apply repeat_length]. }
  f_equal. unfold to_strukt. cbn [Layout.sdata]. rewrite bits_in_eq by lia. unfold read_int.
  rewrite Nat2Z.id.
  assert (Hwb : wbytes w * 8 = Z.of_nat w).
  { unfold wbytes. destruct Hw as [Hw|[Hw|[Hw|Hw]]]; subst w; reflexivity. }
  destruct (off * wbytes w + wbytes w <=? s_dbytes s) eqn:E.
  - replace ((0 <=? off * Z.of_nat w) && (off * Z.of_nat w + Z.of_nat w <=? 8 * s_dbytes s)) with true by nia.
    apply bits_val_eq; nia.
  - replace ((0 <=? off * Z.of_nat w) && (off * Z.of_nat w + Z.of_nat w <=? 8 * s_dbytes s)) with false by nia.
    symmetry. apply z_of_bits_zeros.
Qed.

(* Bool fields *)
Theorem gen_getter_bool_is_layout_spec : forall tok n s dv off d f,
  desc_matches n dv f -> 0 <= s_dbytes s -> 0 <= off ->
  Layout.fd_kind f = Layout.KBool -> Layout.fd_off f = off ->
  Layout.default_raw f = Z.b2z (match dflt_bits d 1 with x :: _ => x | [] => false end) ->
  Layout.spec_get f (to_strukt tok s) =
  match gen_getter n s dv off TBool d with
  | Ok (VBool b) => Layout.Ok (Z.b2z b)
  | _ => Layout.Panic
  end.
Proof.
  intros tok n s dv off d f Hm Hb Hoff Hk Hfo Hdr.
  unfold Layout.spec_get, gen_getter. rewrite (active_eq tok n s dv f Hm Hb). rewrite Hk. cbn [Layout.kind_eqb_group].
  destruct (gen_check_which n s dv); cbn [negb]; [|reflexivity].
  unfold Layout.field_range. rewrite Hk, Hfo. cbn [Layout.kind_bits Layout.decode]. rewrite Hdr. f_equal.
  unfold to_strukt. cbn [Layout.sdata]. rewrite bits_in_eq by lia. unfold read_bit.
  change (Z.to_nat 1) with 1%nat. cbn [Layout.bits_val].
  destruct (off <? s_dbytes s * 8) eqn:E.
  - replace ((0 <=? off * 1) && (off * 1 + 1 <=? 8 * s_dbytes s)) with true by lia.
    rewrite struct_bytes_bit by lia. replace (off * 1) with off by lia.
    destruct (s_data s off), (match dflt_bits d 1 with x :: _ => x | [] => false end); reflexivity.
  - replace ((0 <=? off * 1) && (off * 1 + 1 <=? 8 * s_dbytes s)) with false by lia.
    destruct (match dflt_bits d 1 with x :: _ => x | [] => false end); reflexivity.
Qed.

(* pointer fields: C15's struct model holds opaque tokens in the pointer slots (0 = null), so its
   getter says: test the discriminant, read slot [off], substitute the default iff the slot is null.
   gen_getter tests the same discriminant and inspects the same slot; what it adds, and what the
   token model CANNOT express, is the kind test of pointer.go (TextDefault / DataDefault /
   StructDefault / ListDefault fall back to the default also for a non-null pointer of another kind). *)
Definition ptr_kind_of (t : ftype) : option Layout.kind :=
  match t with
  | TText _ => Some Layout.KText | TData => Some Layout.KData | TList _ => Some Layout.KList
  | TStruct _ _ => Some Layout.KStruct | TIface => Some Layout.KInterface | TAnyPtr => Some Layout.KAnyPtr
  | _ => None
  end.

Theorem gen_getter_ptr_slot_is_layout_spec : forall tok n s dv off t d f k,
  desc_matches n dv f -> 0 <= s_dbytes s -> 0 <= s_pcount s -> 0 <= off -> tok PNull = 0 ->
  ptr_kind_of t = Some k -> Layout.fd_kind f = k -> Layout.fd_off f = off ->
  (* same discriminant outcome *)
  (Layout.spec_get f (to_strukt tok s) = Layout.Panic <-> gen_getter n s dv off t d = Panic) /\
  (* when the member is live: the slot C15 reads is the pointer gen_getter inspects *)
  (gen_check_which n s dv = true ->
   Layout.spec_get f (to_strukt tok s) =
   Layout.Ok (Layout.ptr_value k (Layout.fd_default f) (tok (read_ptr s off)))).
Proof.
  intros tok n s dv off t d f k Hm Hb Hp Hoff Ht Hk Hfk Hfo.
  unfold Layout.spec_get, gen_getter. rewrite (active_eq tok n s dv f Hm Hb).
  assert (Hg : Layout.kind_eqb_group (Layout.fd_kind f) = false) by (rewrite Hfk; destruct t; inversion Hk; reflexivity).
  assert (Hr : Layout.field_range f = Layout.RPtr off).
  { unfold Layout.field_range. rewrite Hfk, Hfo. destruct t; inversion Hk; reflexivity. }
  rewrite Hg, Hr, Hfk. rewrite s_ptr_eq by assumption.
  destruct (gen_check_which n s dv); cbn [negb]; split; try (intros; reflexivity); try discriminate.
  - split; [discriminate|]. destruct t; inversion Hk; discriminate.
  - split; reflexivity.
Qed.

(* gen_getter on a null slot returns the view of the schema default (the case C15 has), and on a
   pointer of the field's kind the pointer itself *)
Lemma gen_getter_null_slot : forall n s dv off d, gen_check_which n s dv = true -> read_ptr s off = PNull ->
  (forall b, gen_getter n s dv off (TText b) d =
             Ok (VText (match ptr_text (dflt_ptr d) with Some x => x | None => [] end))) /\
  gen_getter n s dv off TData d = Ok (VData (ptr_data (dflt_ptr d))) /\
  (forall b id, gen_getter n s dv off (TStruct b id) d = Ok (VStruct (ptr_struct (dflt_ptr d)))) /\
  (forall e, gen_getter n s dv off (TList e) d = Ok (VList (ptr_list (dflt_ptr d)))).
Proof. intros n s dv off d Hc Hp. unfold gen_getter. rewrite Hc, Hp. cbn. repeat split. Qed.

Lemma gen_getter_kinded_slot : forall n s dv off d, gen_check_which n s dv = true ->
  (forall b x, ptr_text (read_ptr s off) = Some x -> gen_getter n s dv off (TText b) d = Ok (VText x)) /\
  (forall x, ptr_data (read_ptr s off) = Some x -> gen_getter n s dv off TData d = Ok (VData (Some x))) /\
  (forall b id x, ptr_struct (read_ptr s off) = Some x -> gen_getter n s dv off (TStruct b id) d = Ok (VStruct (Some x))) /\
  (forall e x, ptr_list (read_ptr s off) = Some x -> gen_getter n s dv off (TList e) d = Ok (VList (Some x))).
Proof.
  intros n s dv off d Hc. unfold gen_getter. rewrite Hc. cbn [negb].
  repeat split; intros; match goal with H : _ = Some _ |- _ => rewrite H end; reflexivity.
Qed.

(* ------------------------------------------------------------------ down to the emitted accessor IR *)
Lemma to_strukt_ok tok s : 0 <= s_dbytes s -> s_dbytes s * 8 < 2 ^ 32 -> Layout.strukt_ok (to_strukt tok s).
Proof.
  intros H0 H1. split.
  - unfold Layout.bytes_ok, to_strukt, struct_bytes. cbn [Layout.sdata]. apply Forall_forall.
    intros b Hb. apply in_map_iff in Hb as (k & <- & _). unfold Layout.byte_ok.
    pose proof (z_of_bits_range (get_range (s_data s) (8 * Z.of_nat k) 8)) as R.
    rewrite get_range_length in R. exact R.
  - unfold Layout.dsz, to_strukt. cbn [Layout.sdata]. rewrite struct_bytes_length. lia.
Qed.

(* the getter capnpc-go emits for a well-formed scalar field descriptor (gen_accessor = the IR
   that genir regenerates from the emitted code, C15_emitted_is_model) computes gen_getter *)
Theorem gen_getter_scalar_is_emitted_getter : forall tok n s dv off w d f g,
  Layout.field_wf f -> Layout.a_get (Layout.gen_accessor f) = Some g ->
  desc_matches n dv f -> 0 <= s_dbytes s -> s_dbytes s * 8 < 2 ^ 32 -> 0 <= off ->
  scalar_kind (Layout.fd_kind f) w -> Layout.fd_off f = off ->
  length (dflt_bits d w) = w -> Layout.default_raw f = z_of_bits (dflt_bits d w) ->
  Layout.run_getter g (Layout.fd_default f) (to_strukt tok s) =
  match gen_getter n s dv off (TInt w) d with
  | Ok (VBits bs) => Layout.Ok (Layout.decode (Layout.fd_kind f) (z_of_bits bs))
  | _ => Layout.Panic
  end.
Proof.
  intros. rewrite (LayoutMain.gen_getter_value f g); [|assumption|apply to_strukt_ok; assumption|assumption].
  apply gen_getter_scalar_is_layout_spec; assumption.
Qed.

Theorem gen_getter_bool_is_emitted_getter : forall tok n s dv off d f g,
  Layout.field_wf f -> Layout.a_get (Layout.gen_accessor f) = Some g ->
  desc_matches n dv f -> 0 <= s_dbytes s -> s_dbytes s * 8 < 2 ^ 32 -> 0 <= off ->
  Layout.fd_kind f = Layout.KBool -> Layout.fd_off f = off ->
  Layout.default_raw f = Z.b2z (match dflt_bits d 1 with x :: _ => x | [] => false end) ->
  Layout.run_getter g (Layout.fd_default f) (to_strukt tok s) =
  match gen_getter n s dv off TBool d with
  | Ok (VBool b) => Layout.Ok (Z.b2z b)
  | _ => Layout.Panic
  end.
Proof.
  intros. rewrite (LayoutMain.gen_getter_value f g); [|assumption|apply to_strukt_ok; assumption|assumption].
  apply gen_getter_bool_is_layout_spec; assumption.
Qed.

Theorem gen_getter_ptr_is_emitted_getter : forall tok n s dv off t d f k g,
  Layout.field_wf f -> Layout.a_get (Layout.gen_accessor f) = Some g ->
  desc_matches n dv f -> 0 <= s_dbytes s -> s_dbytes s * 8 < 2 ^ 32 -> 0 <= s_pcount s -> 0 <= off ->
  tok PNull = 0 -> ptr_kind_of t = Some k -> Layout.fd_kind f = k -> Layout.fd_off f = off ->
  (Layout.run_getter g (Layout.fd_default f) (to_strukt tok s) = Layout.Panic <-> gen_getter n s dv off t d = Panic) /\
  (gen_check_which n s dv = true ->
   Layout.run_getter g (Layout.fd_default f) (to_strukt tok s) =
   Layout.Ok (Layout.ptr_value k (Layout.fd_default f) (tok (read_ptr s off)))).
Proof.
  intros. rewrite (LayoutMain.gen_getter_value f g); [|assumption|apply to_strukt_ok; assumption|assumption].
  eapply gen_getter_ptr_slot_is_layout_spec; eassumption.
Qed.

(* ------------------------------------------------------------------ non-vacuity *)
(* Defaults.int @3 :Int32 = -123 (offset 1 in 32-bit units), and a union member UInt16 with
   discriminant value 2 at discriminant offset 0 *)
Definition ex_fd_int : Layout.field_desc := Layout.mkF (Layout.KInt Layout.W32) 1 (-123) 65535 0.
Definition ex_fd_u16 : Layout.field_desc := Layout.mkF (Layout.KUint Layout.W16) 1 7 2 0.
Definition ex_tok (p : ptrval) : Z := match p with PNull => 0 | _ => 1 end.
Definition ex_struct : strct := mk_struct [2; 0; 5; 1; 255; 255; 255; 255] [].
Definition ex_node : snode := MkNode 1 0 (Some 0) WField [].

Example bridge_premises_int :
  Layout.field_wf ex_fd_int /\ desc_matches ex_node None ex_fd_int /\
  scalar_kind (Layout.fd_kind ex_fd_int) 32 /\
  Layout.default_raw ex_fd_int = z_of_bits (dflt_bits (DBits (bits_of_z 32 (2 ^ 32 - 123))) 32).
Proof.
  split; [apply LayoutMain.field_wfb_ok; vm_compute; reflexivity|].
  split; [repeat split; intros X; congruence|]. split; vm_compute; reflexivity.
Qed.

Example bridge_premises_u16 :
  Layout.field_wf ex_fd_u16 /\ desc_matches ex_node (Some (bits_of_z 16 2)) ex_fd_u16 /\
  scalar_kind (Layout.fd_kind ex_fd_u16) 16.
Proof.
  split; [apply LayoutMain.field_wfb_ok; vm_compute; reflexivity|].
  split; [|vm_compute; reflexivity].
  split; [vm_compute; reflexivity|]. split; [split; [reflexivity|vm_compute; discriminate]|].
  intros _. split; [reflexivity|vm_compute; discriminate].
Qed.

(* both sides computed on a concrete struct: int32 at bytes 4..7 = 0xffffffff, xor default -123 = 122;
   the union member u16 at bytes 2..3 = 0x0105, xor 7 = 0x0102, live because Which() = 2 *)
Example bridge_values :
  Layout.get_of ex_fd_int (to_strukt ex_tok ex_struct) = Layout.Ok 122 /\
  gen_getter ex_node ex_struct None 1 (TInt 32) (DBits (bits_of_z 32 (2 ^ 32 - 123))) = Ok (VBits (bits_of_z 32 122)) /\
  Layout.get_of ex_fd_u16 (to_strukt ex_tok ex_struct) = Layout.Ok 258 /\
  gen_getter ex_node ex_struct (Some (bits_of_z 16 2)) 1 (TInt 16) (DBits (bits_of_z 16 7)) = Ok (VBits (bits_of_z 16 258)) /\
  gen_getter ex_node ex_struct (Some (bits_of_z 16 3)) 1 (TInt 16) (DBits (bits_of_z 16 7)) = Panic.
Proof. vm_compute. repeat split. Qed.
