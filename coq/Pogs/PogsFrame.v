(* Frame lemmas for the struct model: what a write changes, what a read depends on;
   and T2: the field loops ignore fields that are not live. *)
From CV Require Import Pogs.PogsM Pogs.PogsSpec.
From Coq Require Import ZifyBool ZifyNat.
Open Scope Z_scope.

Lemma eqb_bits_eq a : forall b, eqb_bits a b = true <-> a = b.
Proof.
  induction a as [|x a IH]; destruct b as [|y b]; cbn; split; intros H; try discriminate; try reflexivity.
  - apply andb_true_iff in H as [H1 H2]. apply eqb_prop in H1. apply IH in H2. congruence.
  - inversion H; subst. rewrite eqb_reflx. apply IH. reflexivity.
Qed.

Lemma xor_bits_inv a : forall d, length d = length a -> xor_bits (xor_bits a d) d = a.
Proof.
  induction a as [|x a IH]; destruct d as [|y d]; cbn; intros H; try discriminate; try reflexivity.
  rewrite IH by lia. destruct x, y; reflexivity.
Qed.
Lemma xor_bits_length a : forall d, length d = length a -> length (xor_bits a d) = length a.
Proof.
  induction a as [|x a IH]; destruct d as [|y d]; cbn; intros H; try discriminate; try reflexivity.
  rewrite IH by lia. reflexivity.
Qed.

Lemma in_data_app F G i : in_data (F ++ G) i = in_data F i || in_data G i.
Proof. unfold in_data. apply existsb_app. Qed.
Lemma in_ptr_app F G i : in_ptr (F ++ G) i = in_ptr F i || in_ptr G i.
Proof. unfold in_ptr. apply existsb_app. Qed.

Lemma agree_on_refl F s : agree_on F s s.
Proof. repeat split. Qed.
Lemma same_outside_refl F s : same_outside F s s.
Proof. repeat split. Qed.

Lemma same_outside_trans F G s1 s2 s3 :
  same_outside F s1 s2 -> same_outside G s2 s3 -> same_outside (F ++ G) s1 s3.
Proof.
  intros (a1 & a2 & a3 & a4) (b1 & b2 & b3 & b4). repeat split; try congruence.
  - intros i H. rewrite in_data_app in H. apply orb_false_iff in H as [H1 H2].
    rewrite a3, b3; auto.
  - intros i H. rewrite in_ptr_app in H. apply orb_false_iff in H as [H1 H2].
    rewrite a4, b4; auto.
Qed.

Lemma same_outside_mono F N s1 s2 :
  (forall i, in_data F i = true -> in_data N i = true) ->
  (forall j, in_ptr F j = true -> in_ptr N j = true) ->
  same_outside F s1 s2 -> same_outside N s1 s2.
Proof.
  intros H1 H2 (a1 & a2 & a3 & a4). repeat split; auto.
  - intros i Hi. apply a3. destruct (in_data F i) eqn:E; [|reflexivity]. rewrite H1 in Hi; auto.
  - intros i Hi. apply a4. destruct (in_ptr F i) eqn:E; [|reflexivity]. rewrite H2 in Hi; auto.
Qed.

Lemma agree_on_mono F N s1 s2 :
  (forall i, in_data F i = true -> in_data N i = true) ->
  (forall j, in_ptr F j = true -> in_ptr N j = true) ->
  agree_on N s1 s2 -> agree_on F s1 s2.
Proof. intros H1 H2 (a1 & a2 & a3 & a4). repeat split; auto. Qed.

(* s1 -> s2 changed only inside G, F and G disjoint, s2 agrees with s3 on F: so does s1 *)
Lemma agree_on_before F G s1 s2 s3 :
  (forall i, in_data F i = true -> in_data G i = false) ->
  (forall j, in_ptr F j = true -> in_ptr G j = false) ->
  same_outside G s1 s2 -> agree_on F s2 s3 -> agree_on F s1 s3.
Proof.
  intros H1 H2 (a1 & a2 & a3 & a4) (b1 & b2 & b3 & b4). repeat split; try congruence.
  - intros i Hi. rewrite a3, b3; auto.
  - intros i Hi. rewrite a4, b4; auto.
Qed.

(* ------------------------------------------------------------------ disjointness / inclusion checks *)
Lemma loc_disjoint_data a b i :
  loc_disjoint a b = true -> in_data [a] i = true -> in_data [b] i = false.
Proof.
  unfold in_data; cbn. destruct a, b; cbn; intros; try reflexivity; try discriminate; lia.
Qed.
Lemma loc_disjoint_ptr a b i :
  loc_disjoint a b = true -> in_ptr [a] i = true -> in_ptr [b] i = false.
Proof.
  unfold in_ptr; cbn. destruct a, b; cbn; intros; try reflexivity; try discriminate; lia.
Qed.

Lemma locs_disjoint_data F G i :
  locs_disjoint F G = true -> in_data F i = true -> in_data G i = false.
Proof.
  unfold locs_disjoint. intros H Hi.
  unfold in_data in Hi. apply existsb_exists in Hi as (a & Ha & Hai).
  rewrite forallb_forall in H. specialize (H a Ha). rewrite forallb_forall in H.
  destruct (in_data G i) eqn:E; [|reflexivity].
  unfold in_data in E. apply existsb_exists in E as (b & Hb & Hbi).
  specialize (H b Hb).
  pose proof (loc_disjoint_data a b i H) as X. unfold in_data in X; cbn in X.
  rewrite Hai, Hbi in X. cbn in X. specialize (X eq_refl). discriminate.
Qed.
Lemma locs_disjoint_ptr F G i :
  locs_disjoint F G = true -> in_ptr F i = true -> in_ptr G i = false.
Proof.
  unfold locs_disjoint. intros H Hi.
  unfold in_ptr in Hi. apply existsb_exists in Hi as (a & Ha & Hai).
  rewrite forallb_forall in H. specialize (H a Ha). rewrite forallb_forall in H.
  destruct (in_ptr G i) eqn:E; [|reflexivity].
  unfold in_ptr in E. apply existsb_exists in E as (b & Hb & Hbi).
  specialize (H b Hb).
  pose proof (loc_disjoint_ptr a b i H) as X. unfold in_ptr in X; cbn in X.
  rewrite Hai, Hbi in X. cbn in X. specialize (X eq_refl). discriminate.
Qed.

Lemma loc_eqb_eq a b : loc_eqb a b = true -> a = b.
Proof. destruct a, b; cbn; intros H; try discriminate; f_equal; lia. Qed.

Lemma locs_incl_data A B i : locs_incl A B = true -> in_data A i = true -> in_data B i = true.
Proof.
  unfold locs_incl, in_data. intros H Hi. apply existsb_exists in Hi as (a & Ha & Hai).
  rewrite forallb_forall in H. specialize (H a Ha). apply existsb_exists in H as (b & Hb & Hab).
  apply loc_eqb_eq in Hab. subst b. apply existsb_exists. exists a; auto.
Qed.
Lemma locs_incl_ptr A B i : locs_incl A B = true -> in_ptr A i = true -> in_ptr B i = true.
Proof.
  unfold locs_incl, in_ptr. intros H Hi. apply existsb_exists in Hi as (a & Ha & Hai).
  rewrite forallb_forall in H. specialize (H a Ha). apply existsb_exists in H as (b & Hb & Hab).
  apply loc_eqb_eq in Hab. subst b. apply existsb_exists. exists a; auto.
Qed.

(* ------------------------------------------------------------------ reads and writes *)
Lemma get_range_eq d d' st w :
  (forall i, st <= i < st + Z.of_nat w -> d i = d' i) -> get_range d st w = get_range d' st w.
Proof.
  intros H. unfold get_range. apply map_ext_in. intros k Hk. apply in_seq in Hk. apply H. lia.
Qed.

Lemma nth_map_seq (f : nat -> bool) n k : (k < n)%nat -> nth k (map f (seq 0 n)) false = f k.
Proof.
  intros. rewrite (nth_indep _ false (f 0%nat)) by (rewrite map_length, seq_length; lia).
  rewrite map_nth, seq_nth by lia. reflexivity.
Qed.

Lemma get_set_same d st bs : get_range (set_range d st bs) st (length bs) = bs.
Proof.
  unfold get_range.
  apply nth_ext with (d := false) (d' := false).
  { rewrite map_length, seq_length. reflexivity. }
  intros k Hk. rewrite map_length, seq_length in Hk.
  rewrite nth_map_seq by lia. unfold set_range.
  destruct ((st <=? st + Z.of_nat k) && (st + Z.of_nat k <? st + Z.of_nat (length bs))) eqn:E; [|lia].
  replace (Z.to_nat (st + Z.of_nat k - st)) with k by lia. reflexivity.
Qed.

Lemma write_int_spec s off bs s1 :
  write_int s off bs = Ok s1 ->
  let L := [LData (off * Z.of_nat (length bs)) (Z.of_nat (length bs))] in
  same_outside L s s1 /\
  forall s2, agree_on L s1 s2 -> read_int s2 off (length bs) = bs.
Proof.
  unfold write_int. destruct (off * wbytes (length bs) + wbytes (length bs) <=? s_dbytes s) eqn:Eb; [|discriminate].
  intros H; inversion H; subst s1; clear H. cbn zeta. split.
  - repeat split; cbn.
    intros i Hi. unfold in_data in Hi; cbn in Hi. unfold set_range.
    destruct ((off * Z.of_nat (length bs) <=? i) && (i <? off * Z.of_nat (length bs) + Z.of_nat (length bs))) eqn:E; [lia|reflexivity].
  - intros s2 (a1 & a2 & a3 & a4). cbn in a1. unfold read_int. rewrite <- a1, Eb.
    transitivity (get_range (set_range (s_data s) (off * Z.of_nat (length bs)) bs)
                            (off * Z.of_nat (length bs)) (length bs)); [|apply get_set_same].
    apply get_range_eq. intros i Hi. symmetry. apply a3. unfold in_data; cbn. lia.
Qed.

Lemma write_bit_spec s n b s1 :
  write_bit s n b = Ok s1 -> 0 <= n ->
  same_outside [LData n 1] s s1 /\
  forall s2, agree_on [LData n 1] s1 s2 -> read_bit s2 n = b.
Proof.
  unfold write_bit. destruct (n <? s_dbytes s * 8) eqn:Eb; [|discriminate].
  intros H Hn; inversion H; subst s1; clear H. split.
  - repeat split; cbn.
    intros i Hi. unfold in_data in Hi; cbn in Hi. unfold set_range. cbn [length].
    destruct ((n <=? i) && (i <? n + Z.of_nat 1)) eqn:E; [lia|reflexivity].
  - intros s2 (a1 & a2 & a3 & a4). cbn in a1. unfold read_bit. rewrite <- a1, Eb.
    rewrite <- a3 by (unfold in_data; cbn; lia). cbn. unfold set_range. cbn [length].
    destruct ((n <=? n) && (n <? n + Z.of_nat 1)) eqn:E; [|lia].
    replace (Z.to_nat (n - n)) with 0%nat by lia. reflexivity.
Qed.

Lemma write_ptr_spec s i p s1 :
  write_ptr s i p = Ok s1 ->
  same_outside [LPtr i] s s1 /\
  forall s2, agree_on [LPtr i] s1 s2 -> read_ptr s2 i = p.
Proof.
  unfold write_ptr. destruct (i <? s_pcount s) eqn:Eb; [|discriminate].
  intros H; inversion H; subst s1; clear H. split.
  - repeat split; cbn. intros j Hj. unfold in_ptr in Hj; cbn in Hj.
    destruct (j =? i) eqn:E; [lia|reflexivity].
  - intros s2 (a1 & a2 & a3 & a4). cbn in a2. unfold read_ptr. rewrite <- a2, Eb.
    rewrite <- a4 by (unfold in_ptr; cbn; lia). cbn. rewrite Z.eqb_refl. reflexivity.
Qed.

(* ------------------------------------------------------------------ T2: fields that are not live *)
(* insert: the values of fields the loop skips (no Go field, or a union member other than the
   one selected by Which) are irrelevant: nothing is written for them *)
Lemma insert_fields_ignores_inactive sch rec hw disc : forall fs vs vs' s,
  same_active hw disc fs vs vs' ->
  insert_fields sch rec hw disc s fs vs = insert_fields sch rec hw disc s fs vs'.
Proof.
  intros fs vs vs' s H. revert s. induction H; intros s; [reflexivity|].
  cbn [insert_fields]. destruct (field_action hw disc f) eqn:Ha.
  - apply IHsame_active.
  - rewrite (H eq_refl). destruct f; (match goal with |- bind ?x _ = _ => destruct x end); cbn [bind]; auto.
  - reflexivity.
Qed.

(* extract: skipped fields are left untouched (GNone) *)
Lemma extract_fields_skips_inactive fixed rec hw disc s : forall fs vs,
  extract_fields fixed rec hw disc s fs = Ok vs ->
  Forall2 (fun f v => field_action hw disc f <> Do -> v = GNone) fs vs.
Proof.
  induction fs as [|f fs IH]; intros vs H; cbn [extract_fields] in H.
  - inversion H. constructor.
  - destruct (field_action hw disc f) eqn:Ha.
    + destruct (extract_fields fixed rec hw disc s fs) eqn:E; cbn [bind] in H; try discriminate.
      inversion H; subst. constructor; auto.
    + match type of H with bind ?x _ = _ => destruct x end; cbn [bind] in H; try discriminate.
      destruct (extract_fields fixed rec hw disc s fs) eqn:E; cbn [bind] in H; try discriminate.
      inversion H; subst. constructor; auto. intros X; contradiction.
    + discriminate.
Qed.
