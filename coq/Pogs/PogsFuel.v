(* The stated fuel: extract_struct does not run out of fuel when fuel >= need, where
     need id s = sdepth s * (R + 1) + rank id + 1
   (sdepth = pointer nesting depth of the struct tree; rank = nesting rank of groups and of
   struct-valued (non-pointer) Go fields, which is finite for every Go type; R bounds rank). *)
From CV Require Import Pogs.PogsM Pogs.PogsTotal.
From Coq Require Import ZifyBool ZifyNat.
Open Scope Z_scope.

Fixpoint pdepth (p : ptrval) : nat :=
  match p with
  | PNull => 0
  | PStruct s => S (sdepth s)
  | PStructs ss => S (list_max (map sdepth ss))
  | PPtrs ps => S (list_max (map pdepth ps))
  | _ => 1
  end
with sdepth (s : strct) : nat :=
  match s with
  | Strct _ _ pc ptrs => list_max (map (fun k => pdepth (ptrs (Z.of_nat k))) (seq 0 (Z.to_nat pc)))
  end.

Lemma list_max_in' {A} (f : A -> nat) l a : In a l -> (f a <= list_max (map f l))%nat.
Proof.
  induction l as [|b l IH]; intros H; [contradiction|]. cbn [map].
  change (list_max (f b :: map f l)) with (Nat.max (f b) (list_max (map f l))).
  destruct H as [->|H]; [apply Nat.le_max_l|].
  etransitivity; [apply IH; exact H|apply Nat.le_max_r].
Qed.
Lemma list_max_in (f : nat -> nat) l k : In k l -> (f k <= list_max (map f l))%nat.
Proof. apply list_max_in'. Qed.

Lemma read_ptr_depth s off : 0 <= off -> (pdepth (read_ptr s off) <= sdepth s)%nat.
Proof.
  intros H. unfold read_ptr. destruct s as [db d pc ptrs]. cbn [s_pcount s_ptrs].
  destruct (off <? pc) eqn:E; [|cbn; lia].
  cbn [sdepth]. replace off with (Z.of_nat (Z.to_nat off)) at 1 by lia.
  apply (list_max_in (fun k => pdepth (ptrs (Z.of_nat k)))). apply in_seq. lia.
Qed.

Lemma ptr_struct_depth p ss : ptr_struct p = Some ss -> pdepth p = S (sdepth ss).
Proof. destruct p; cbn; intros H; inversion H; reflexivity. Qed.
Lemma ptr_list_eq p l : ptr_list p = Some l -> l = p.
Proof. destruct p; cbn; intros H; inversion H; reflexivity. Qed.

Lemma ptrlist_depth l ps p : ptrlist_elems l = Ok ps -> In p ps -> (pdepth p < pdepth l)%nat.
Proof.
  destruct l; cbn; intros H Hin; try (inversion H; subst; contradiction).
  - destruct (length bs); inversion H; subst; contradiction.
  - destruct (length bs); inversion H; subst; contradiction.
  - destruct (length es); inversion H; subst; contradiction.
  - inversion H; subst. change (pdepth p < S (list_max (map pdepth ps)))%nat.
    pose proof (list_max_in' pdepth ps p Hin). lia.
  - destruct ss as [|s0 ss']; [inversion H; subst; contradiction|].
    destruct (1 <=? s_pcount s0); [|discriminate]. inversion H; subst.
    change (In p (map (fun e : strct => read_ptr e 0) (s0 :: ss'))) in Hin.
    apply in_map_iff in Hin as (e & <- & He).
    change (pdepth (read_ptr e 0) < S (list_max (map sdepth (s0 :: ss'))))%nat.
    pose proof (read_ptr_depth e 0 ltac:(lia)). pose proof (list_max_in' sdepth (s0 :: ss') e He). lia.
Qed.

Lemma sdepth_nop db d pf : sdepth (Strct db d 0 pf) = 0%nat.
Proof. reflexivity. Qed.
Lemma sdepth_one db d p : sdepth (Strct db d 1 (fun _ => p)) = Nat.max (pdepth p) 0.
Proof. reflexivity. Qed.
Lemma pdepth_ptrs ps : pdepth (PPtrs ps) = S (list_max (map pdepth ps)).
Proof. reflexivity. Qed.
Lemma pdepth_structs ss : pdepth (PStructs ss) = S (list_max (map sdepth ss)).
Proof. reflexivity. Qed.

Lemma structlist_depth l ss : In (Some ss) (structlist_elems l) -> (sdepth ss < pdepth l)%nat.
Proof.
  destruct l; cbn [structlist_elems]; intros H; try contradiction.
  - apply in_map_iff in H as (b & Hb & _). inversion Hb; subst. rewrite sdepth_nop. cbn; lia.
  - apply in_map_iff in H as (b & Hb & _). discriminate.
  - apply in_map_iff in H as (b & Hb & _). inversion Hb; subst. rewrite sdepth_nop. cbn; lia.
  - apply in_map_iff in H as (p & Hb & Hin). inversion Hb; subst. rewrite sdepth_one, pdepth_ptrs.
    pose proof (list_max_in' pdepth ps p Hin). lia.
  - apply in_map_iff in H as (b & Hb & Hin). inversion Hb; subst. rewrite pdepth_structs.
    pose proof (list_max_in' sdepth ss0 ss Hin). lia.
Qed.

Lemma bind_nf {A B} (r : res A) (k : A -> res B) :
  r <> OutOfFuel -> (forall a, r = Ok a -> k a <> OutOfFuel) -> bind r k <> OutOfFuel.
Proof. destruct r; cbn; intros H K; auto; try discriminate. Qed.

Lemma mapM_nf {A B} (f : A -> res B) l : (forall a, In a l -> f a <> OutOfFuel) -> mapM f l <> OutOfFuel.
Proof.
  induction l as [|a l IH]; cbn [mapM]; intros H; [discriminate|].
  apply bind_nf; [apply H; left; reflexivity|]. intros b _. apply bind_nf; [|discriminate].
  apply IH. intros; apply H; right; assumption.
Qed.

(* schema conditions: ranks decrease along groups and struct-valued Go fields; struct- and
   list-typed slots have no default; offsets are non-negative *)
Definition field_rank_ok (rank : Z -> nat) (id : Z) (f : field) : Prop :=
  match f with
  | FGroup _ _ gid => (rank gid < rank id)%nat
  | FSlot _ _ off t d =>
    0 <= off /\
    match t with
    | TStruct false id' => (rank id' < rank id)%nat /\ ptr_struct (dflt_ptr d) = None
    | TStruct true _ => ptr_struct (dflt_ptr d) = None
    | TList _ => ptr_list (dflt_ptr d) = None
    | _ => True
    end
  end.
Definition ranked (sch : schema) (rank : Z -> nat) (R : nat) : Prop :=
  (forall id, (rank id <= R)%nat) /\
  forall id n, find_node sch id = Some n -> Forall (field_rank_ok rank id) (n_fields n).

Definition need (rank : Z -> nat) (R : nat) (id : Z) (s : strct) : nat :=
  (sdepth s * S R + rank id + 1)%nat.

Section Fuel.
  Variable fixed : bool.
  Variable sch : schema.
  Variable rank : Z -> nat.
  Variable R : nat.
  Hypothesis HR : forall id, (rank id <= R)%nat.
  Variable rec_ext : Z -> strct -> res gval.

  Lemma need_deeper id id' s s' : (sdepth s' < sdepth s)%nat -> (need rank R id' s' < need rank R id s)%nat.
  Proof. intros H. unfold need. pose proof (HR id'). nia. Qed.

  Lemma ptrlist_nf l : ptrlist_elems l <> OutOfFuel.
  Proof.
    destruct l; cbn; try discriminate.
    all: try (match goal with |- context [match ?x with _ => _ end] => destruct x end; discriminate).
    destruct ss; [discriminate|]. destruct (1 <=? s_pcount s); discriminate.
  Qed.

  (* list elements are structs strictly below the list *)
  Lemma list_nf e : forall l,
    (forall id' s', (sdepth s' < pdepth l)%nat -> rec_ext id' s' <> OutOfFuel) ->
    ptr_list l = Some l ->
    extract_list rec_ext e l <> OutOfFuel.
  Proof.
    induction e; intros l Hrec Hl; cbn [extract_list]; try discriminate.
    - apply bind_nf; [apply ptrlist_nf|discriminate].
    - apply bind_nf; [apply ptrlist_nf|discriminate].
    - apply bind_nf; [apply ptrlist_nf|].
      intros ps Hps. apply bind_nf; [|discriminate].
      apply mapM_nf. intros p Hin. destruct (ptr_list p) as [l'|] eqn:El; [|discriminate].
      pose proof (ptr_list_eq _ _ El). subst l'. apply (IHe p); [|exact El].
      intros id' s' Hd. apply Hrec. pose proof (ptrlist_depth l ps p Hps Hin). lia.
    - apply bind_nf; [|discriminate]. apply mapM_nf. intros os Hin.
      destruct os as [ss|]; cbn [extract_struct_into].
      + apply Hrec. apply structlist_depth. exact Hin.
      + apply Hrec. destruct l; cbn in Hl; try discriminate; cbn; lia.
    - apply bind_nf; [apply ptrlist_nf|discriminate].
  Qed.

  Lemma field_nf id s off t d :
    field_rank_ok rank id (FSlot true None off t d) ->
    (forall id' s', (need rank R id' s' < need rank R id s)%nat -> rec_ext id' s' <> OutOfFuel) ->
    extract_field fixed rec_ext s off t d <> OutOfFuel.
  Proof.
    intros [Hoff Ht] Hrec. unfold extract_field.
    assert (H : extract_field_body fixed rec_ext s off t d <> OutOfFuel).
    { unfold extract_field_body. pose proof (read_ptr_depth s off Hoff) as Hd.
      destruct t; try discriminate.
      - (* list *)
        destruct (ptr_list (read_ptr s off)) as [l|] eqn:El.
        + pose proof (ptr_list_eq _ _ El). subst l. apply list_nf; [|exact El].
          intros id' s' Hs. apply Hrec. apply need_deeper. lia.
        + rewrite Ht. discriminate.
      - (* struct *)
        destruct (ptr_struct (read_ptr s off)) as [ss|] eqn:Es.
        + cbn [extract_struct_into]. apply Hrec. apply ptr_struct_depth in Es. apply need_deeper. lia.
        + destruct isptr.
          * rewrite Ht. cbn. discriminate.
          * destruct Ht as [Hr Hn]. rewrite Hn. cbn [extract_struct_into]. apply Hrec.
            unfold need. cbn. lia. }
    destruct d; auto; discriminate.
  Qed.

  Lemma fields_nf id hw disc s : forall fs,
    Forall (field_rank_ok rank id) fs ->
    (forall id' s', (need rank R id' s' < need rank R id s)%nat -> rec_ext id' s' <> OutOfFuel) ->
    extract_fields fixed rec_ext hw disc s fs <> OutOfFuel.
  Proof.
    induction fs as [|f fs IH]; intros Hf Hrec; cbn [extract_fields]; [discriminate|].
    inversion Hf; subst.
    destruct (field_action hw disc f); try discriminate.
    - apply bind_nf; [apply IH; assumption|discriminate].
    - apply bind_nf.
      + destruct f as [p dv off t d|p dv gid].
        * apply (field_nf id); assumption.
        * apply Hrec. cbn in H1. unfold need. lia.
      + intros v _. apply bind_nf; [apply IH; assumption|discriminate].
  Qed.

  Hypothesis Hfields : forall id n, find_node sch id = Some n -> Forall (field_rank_ok rank id) (n_fields n).

  Lemma body_nf id s :
    (forall id' s', (need rank R id' s' < need rank R id s)%nat -> rec_ext id' s' <> OutOfFuel) ->
    extract_struct_body fixed sch rec_ext id s <> OutOfFuel.
  Proof.
    intros Hrec. unfold extract_struct_body. destruct (find_node sch id) as [n|] eqn:Hn; [|discriminate].
    pose proof (Hfields _ _ Hn) as Hf.
    destruct (n_disc n).
    - destruct (n_which n).
      + apply bind_nf; [apply (fields_nf id); assumption|discriminate].
      + apply bind_nf; [apply (fields_nf id); assumption|discriminate].
      + destruct (eqb_bits _ _); [|discriminate]. apply bind_nf; [apply (fields_nf id); assumption|discriminate].
    - apply bind_nf; [apply (fields_nf id); assumption|discriminate].
  Qed.
End Fuel.

(* the stated fuel suffices: for every struct contents *)
Theorem extract_fuel_sufficient : forall fixed sch rank R, ranked sch rank R ->
  forall fuel id s, (need rank R id s <= fuel)%nat ->
  extract_struct fixed fuel sch id s <> OutOfFuel.
Proof.
  intros fixed sch rank R [HR Hf]. induction fuel as [|f IH]; intros id s Hn.
  - unfold need in Hn. lia.
  - cbn [extract_struct]. apply (body_nf fixed sch rank R HR); [exact Hf|].
    intros id' s' Hlt. apply IH. lia.
Qed.

(* hence: with that fuel Extract returns a value or an error on arbitrary contents (never
   Panic, never OutOfFuel), except for the Unmodelled composite-list pointer decode *)
Corollary extract_terminates : forall fixed sch rank R, ranked sch rank R ->
  forall fuel id s, (need rank R id s <= fuel)%nat ->
  (exists v, extract_struct fixed fuel sch id s = Ok v) \/
  extract_struct fixed fuel sch id s = Err \/
  extract_struct fixed fuel sch id s = Unmodelled.
Proof.
  intros fixed sch rank R Hr fuel id s Hn.
  pose proof (extract_fuel_sufficient fixed sch rank R Hr fuel id s Hn) as H1.
  destruct (extract_total fixed fuel sch id s) as [H|[H|[H|H]]]; auto. contradiction.
Qed.

(* non-vacuity: the example schema (a group, a recursive List(Ex)) is ranked *)
From CV Require Import Pogs.PogsExamples.
Definition ex_rank (id : Z) : nat := if id =? 1 then 1%nat else 0%nat.
Example ex_ranked : ranked ex_schema ex_rank 1.
Proof.
  split.
  - intros id. unfold ex_rank. destruct (id =? 1); lia.
  - intros id n H. unfold ex_schema in H. cbn [find_node] in H. destruct (1 =? id) eqn:E1.
    + injection H as <-. assert (id = 1) by lia. subst id.
      repeat constructor; cbn; try lia; try reflexivity.
    + destruct (2 =? id) eqn:E2; [|discriminate]. injection H as <-. assert (id = 2) by lia. subst id.
      repeat constructor; cbn; try lia; try reflexivity.
Qed.
Example ex_fuel : forall s, extract_struct true (sdepth s * 2 + 2) ex_schema 1 s <> OutOfFuel.
Proof.
  intros s. apply (extract_fuel_sufficient true ex_schema ex_rank 1 ex_ranked).
  unfold need, ex_rank. cbn. lia.
Qed.
