(* T3: extract (insert v) = v modulo [veq], for every mapped schema with a conflict-free layout. *)
From CV Require Import Pogs.PogsM Pogs.PogsSpec Pogs.PogsFrame.
From Coq Require Import ZifyBool ZifyNat.
Open Scope Z_scope.

Lemma mapM_inv {A B} (f : A -> res B) : forall l r,
  mapM f l = Ok r -> Forall2 (fun a b => f a = Ok b) l r.
Proof.
  induction l as [|a l IH]; intros r H; cbn [mapM] in H.
  - inversion H. constructor.
  - destruct (f a) eqn:Ea; cbn [bind] in H; try discriminate.
    destruct (mapM f l) eqn:El; cbn [bind] in H; try discriminate.
    inversion H; subst. constructor; auto.
Qed.

Lemma mapM_intro {A B} (g : A -> res B) : forall l r,
  Forall2 (fun a b => g a = Ok b) l r -> mapM g l = Ok r.
Proof.
  induction 1; cbn [mapM]; [reflexivity|]. rewrite H, IHForall2. reflexivity.
Qed.

Lemma last_is_zero_snoc bs : last_is_zero (bs ++ [0]) = true.
Proof. induction bs as [|b bs IH]; [reflexivity|]. cbn [app last_is_zero]. destruct (bs ++ [0]) eqn:E; [destruct bs; discriminate|exact IH]. Qed.

Lemma ptr_text_snoc bs : ptr_text (PBytes (bs ++ [0])) = Some bs.
Proof. cbn. rewrite last_is_zero_snoc, removelast_last. reflexivity. Qed.

Lemma bits_of_z_of_bits e : bits_of_z (length e) (z_of_bits e) = e.
Proof.
  induction e as [|b e IH]; [reflexivity|]. cbn [length bits_of_z z_of_bits]. f_equal.
  - rewrite Z.odd_add_mul_2. destruct b; reflexivity.
  - replace (((if b then 1 else 0) + 2 * z_of_bits e) / 2) with (z_of_bits e); [exact IH|].
    destruct b; lia.
Qed.

Section RT.
  Variable sch : schema.
  Variable tbl : fptable.
  Variable rec_ins : Z -> strct -> gval -> res strct.
  Variable rec_ext : Z -> strct -> res gval.
  Hypothesis IH : forall id s v s1, rec_ins id s v = Ok s1 ->
    same_outside (fp_of tbl id) s s1 /\
    forall s2, agree_on (fp_of tbl id) s1 s2 ->
      exists v', rec_ext id s2 = Ok v' /\ veq sch (TStruct false id) v v'.

  Lemma IH_self id s v s1 : rec_ins id s v = Ok s1 ->
    exists v', rec_ext id s1 = Ok v' /\ veq sch (TStruct false id) v v'.
  Proof. intros H. apply (proj2 (IH _ _ _ _ H)). apply agree_on_refl. Qed.

  (* element-wise helper *)
  Lemma F2_map {A} (P : gval -> gval -> Prop) (f : gval -> res A) (g : A -> gval) : forall vs ps,
    Forall2 (fun a b => f a = Ok b) vs ps ->
    (forall a b, In a vs -> f a = Ok b -> P a (g b)) ->
    Forall2 P vs (map g ps).
  Proof.
    induction 1; intros HP; cbn; constructor.
    - apply HP; [left; reflexivity|assumption].
    - apply IHForall2. intros; apply HP; [right|]; assumption.
  Qed.

  Lemma list_rt e : forall vs p,
    mappable e = true -> forallb (vmatch e) vs = true ->
    insert_list sch rec_ins e vs = Ok p ->
    ptr_list p = Some p /\
    exists vs', extract_list rec_ext e p = Ok (GList (Some vs')) /\ Forall2 (veq sch e) vs vs'.
  Proof.
    induction e; intros vs p Hm Hv H; cbn [insert_list] in H; try discriminate.
    - (* bool *)
      destruct (mapM _ vs) as [bs| | | |] eqn:E; cbn [bind] in H; try discriminate. inversion H; subst p.
      split; [reflexivity|]. eexists; split; [reflexivity|]. cbn [bitlist_elems].
      apply mapM_inv in E. eapply F2_map; [exact E|]. intros a b _ Hab; cbv beta. destruct a; try discriminate.
      inversion Hab; subst. constructor.
    - (* int *)
      destruct (mapM _ vs) as [es| | | |] eqn:E; cbn [bind] in H; try discriminate.
      apply mapM_inv in E.
      assert (Hes : Forall2 (fun a b => a = GBits b /\ length b = w) vs es).
      { rewrite forallb_forall in Hv. clear H. induction E; constructor.
        - specialize (Hv x (or_introl eq_refl)). destruct x; try discriminate. inversion H; subst.
          cbn in Hv. split; [reflexivity|lia].
        - apply IHE. intros; apply Hv; right; assumption. }
      assert (Hout : forall es', es' = es -> Forall2 (veq sch (TInt w)) vs (map GBits es')).
      { intros es' ->. clear -Hes. induction Hes; cbn; constructor; auto. destruct H as [-> _]. constructor. }
      destruct (w =? 8)%nat eqn:Ew; inversion H; subst p; (split; [reflexivity|]); eexists; (split; [reflexivity|]);
        apply Hout; cbn [primlist_elems].
      + rewrite Ew. rewrite map_map. clear -Hes Ew. induction Hes; cbn [map]; [reflexivity|]. f_equal; [|assumption].
        destruct H as [_ Hl]. replace 8%nat with (length y) by lia. apply bits_of_z_of_bits.
      + rewrite Nat.eqb_refl. reflexivity.
    - (* text *)
      destruct bytes; cbv iota in H.
      + destruct (mapM _ vs) as [ps| | | |] eqn:E; cbn [bind] in H; try discriminate. inversion H; subst p.
        split; [reflexivity|]. eexists; split; [reflexivity|].
        apply mapM_inv in E. eapply F2_map; [exact E|]. intros a b _ Hab; cbv beta.
        destruct a as [| | |[bs|]| | |]; try discriminate; inversion Hab; subst.
        * rewrite ptr_text_snoc. constructor. reflexivity.
        * cbn. constructor. reflexivity.
      + destruct (mapM _ vs) as [ps| | | |] eqn:E; cbn [bind] in H; try discriminate. inversion H; subst p.
        split; [reflexivity|]. eexists; split; [reflexivity|].
        apply mapM_inv in E. eapply F2_map; [exact E|]. intros a b _ Hab; cbv beta.
        destruct a as [| | |[[|x bs]|]| | |]; try discriminate; inversion Hab; subst.
        * cbn. constructor. reflexivity.
        * change (x :: bs ++ [0]) with ((x :: bs) ++ [0]). rewrite ptr_text_snoc. constructor. reflexivity.
    - (* data *)
      destruct (mapM _ vs) as [ps| | | |] eqn:E; cbn [bind] in H; try discriminate. inversion H; subst p.
      split; [reflexivity|]. eexists; split; [reflexivity|].
      apply mapM_inv in E. eapply F2_map; [exact E|]. intros a b _ Hab; cbv beta.
      destruct a as [| | |[[|x bs]|]| | |]; try discriminate; inversion Hab; subst; cbn; constructor; reflexivity.
    - (* list of lists *)
      destruct (mapM _ vs) as [ps| | | |] eqn:E; cbn [bind] in H; try discriminate. inversion H; subst p.
      split; [reflexivity|]. cbn [extract_list ptrlist_elems bind].
      apply mapM_inv in E. cbn [mappable] in Hm.
      assert (X : exists vs', Forall2 (fun p v' => match ptr_list p with
                                                  | None => Ok (GList None)
                                                  | Some l' => extract_list rec_ext e l' end = Ok v') ps vs'
                              /\ Forall2 (veq sch (TList e)) vs vs').
      { rewrite forallb_forall in Hv. clear H. induction E.
        - exists []. split; constructor.
        - destruct IHE as (vs' & A & B); [intros; apply Hv; right; assumption|].
          specialize (Hv x (or_introl eq_refl)).
          destruct x as [| | | |[lx|]| |]; try discriminate.
          + cbn [vmatch] in Hv. apply andb_true_iff in Hv as [_ Hv].
            destruct (IHe lx y Hm Hv H) as (Hp & lx' & He & Hl).
            exists (GList (Some lx') :: vs'). split; constructor; auto.
            * rewrite Hp. exact He.
            * apply VE_list. exact Hl.
          + inversion H; subst y. exists (GList None :: vs'). split; constructor; auto.
            constructor; reflexivity. }
      destruct X as (vs' & A & B). apply mapM_intro in A. rewrite A. cbn [bind].
      eexists; split; [reflexivity|exact B].
    - (* list of structs *)
      destruct (node_size sch id) as [sz| | | |]; cbn [bind] in H; try discriminate.
      destruct (mapM _ vs) as [ss| | | |] eqn:E; cbn [bind] in H; try discriminate. inversion H; subst p.
      split; [reflexivity|]. cbn [extract_list structlist_elems]. apply mapM_inv in E.
      assert (X : exists vs', Forall2 (fun os v' => extract_struct_into rec_ext false id os = Ok v') (map Some ss) vs'
                              /\ Forall2 (veq sch (TStruct isptr id)) vs vs').
      { clear H Hv. induction E.
        - exists []. split; constructor.
        - destruct IHE as (vs' & A & B). destruct (IH_self _ _ _ _ H) as (v' & Hx & Hq).
          exists (v' :: vs'). split; constructor; auto.
          inversion Hq; subst. econstructor; eassumption. }
      destruct X as (vs' & A & B). apply mapM_intro in A.
      change (mapM (extract_struct_into rec_ext false id) (map Some ss))
        with (mapM (fun os => extract_struct_into rec_ext false id os) (map Some ss)) in A.
      rewrite A. cbn [bind].
      eexists; split; [reflexivity|exact B].
    - (* interfaces *)
      destruct (mapM _ vs) as [ps| | | |] eqn:E; cbn [bind] in H; try discriminate. inversion H; subst p.
      split; [reflexivity|]. eexists; split; [reflexivity|].
      apply mapM_inv in E. eapply F2_map; [exact E|]. intros a b _ Hab; cbv beta.
      destruct a as [| | | | | |[]]; try discriminate; inversion Hab; subst; constructor.
  Qed.

  Lemma veq_struct_flag b b' id v v' :
    veq sch (TStruct b id) v v' -> (exists x, v = GStruct (Some x)) -> veq sch (TStruct b' id) v v'.
  Proof. intros H (x & ->). inversion H; subst. econstructor; eassumption. Qed.

  Lemma dflt_len p dv off w d : slot_ok (FSlot p dv off (TInt w) d) = true -> length (dflt_bits d w) = w.
  Proof.
    cbn. intros H. destruct d; cbn; try (unfold zeros; apply repeat_length); try lia.
    all: exfalso; lia.
  Qed.

  Ltac ptr_case Hw He :=
    let A := fresh "A" in let B := fresh "B" in
    destruct (write_ptr_spec _ _ _ _ Hw) as [A B]; split; [exact A|];
    let s2 := fresh "s2" in let Hag := fresh "Hag" in
    intros s2 Hag; rewrite He; unfold extract_field_body; rewrite (B s2 Hag).

  Lemma slot_rt p dv s off t d v s1 :
    slot_ok (FSlot p dv off t d) = true ->
    insert_field sch rec_ins s off t d v = Ok s1 ->
    same_outside (slot_loc off t) s s1 /\
    forall s2, agree_on (slot_loc off t) s1 s2 ->
      exists v', extract_field true rec_ext s2 off t d = Ok v' /\ veq sch t v v'.
  Proof.
    intros Hok H.
    assert (Hd : insert_field_body sch rec_ins s off t d v = Ok s1 /\
                 extract_field true rec_ext = fun s2 off t d' => extract_field true rec_ext s2 off t d').
    { split; [|reflexivity]. destruct d; try exact H. discriminate. }
    destruct Hd as [Hb _].
    assert (He : forall s2, extract_field true rec_ext s2 off t d = extract_field_body true rec_ext s2 off t d).
    { intros. destruct d; try reflexivity. discriminate. }
    clear H. unfold insert_field_body in Hb.
    destruct (vmatch t v) eqn:Hvm; cbn [negb] in Hb; [|discriminate].
    destruct (is_field_in_bounds s off t) eqn:Hib; cbn [negb] in Hb; [|discriminate].
    destruct t; destruct v; try discriminate; cbn [slot_loc].
    - (* bool *)
      assert (0 <= off) by (cbn in Hok; lia).
      destruct (write_bit_spec _ _ _ _ Hb H) as [A B]. split; [exact A|].
      intros s2 Hag. rewrite He. unfold extract_field_body. rewrite (B s2 Hag).
      eexists; split; [reflexivity|].
      match goal with |- veq _ _ _ (GBool (xorb (xorb _ ?x) _)) => destruct b, x; constructor end.
    - (* int *)
      cbn [vmatch] in Hvm. assert (Hl : length bs = w) by lia.
      pose proof (dflt_len _ _ _ _ _ Hok) as Hdl.
      assert (Hx : length (xor_bits bs (dflt_bits d w)) = w) by (rewrite xor_bits_length; lia).
      destruct (write_int_spec _ _ _ _ Hb) as [A B]. cbn zeta in A, B. rewrite Hx in A, B.
      split; [exact A|]. intros s2 Hag. rewrite He. unfold extract_field_body. rewrite (B s2 Hag).
      rewrite xor_bits_inv by lia. eexists; split; [reflexivity|constructor].
    - (* text *)
      destruct o as [[|x bs]|].
      + destruct (is_empty_value (TText bytes) d) eqn:Hev; cbn [negb] in Hb.
        * ptr_case Hb He.
          unfold is_empty_value in Hev. destruct d; try discriminate. cbn [text_of ptr_text dflt_ptr].
          destruct (ptr_text p0) as [[|y r]|]; try discriminate;
            (eexists; split; [reflexivity|]); destruct bytes; constructor; reflexivity.
        * ptr_case Hb He.
          eexists; split; [reflexivity|]. destruct bytes; constructor; reflexivity.
      + ptr_case Hb He.
        change (x :: bs ++ [0]) with ((x :: bs) ++ [0]). unfold text_of. rewrite ptr_text_snoc.
        eexists; split; [reflexivity|]. destruct bytes; constructor; reflexivity.
      + destruct (is_empty_value (TText bytes) d) eqn:Hev; cbn [negb] in Hb.
        * ptr_case Hb He.
          unfold is_empty_value in Hev. destruct d; try discriminate. cbn [text_of ptr_text dflt_ptr].
          destruct (ptr_text p0) as [[|y r]|]; try discriminate;
            (eexists; split; [reflexivity|]); destruct bytes; constructor; reflexivity.
        * ptr_case Hb He.
          eexists; split; [reflexivity|]. destruct bytes; constructor; reflexivity.
    - (* data *)
      destruct o as [bs|].
      + ptr_case Hb He.
        eexists; split; [reflexivity|]. constructor; reflexivity.
      + destruct (is_empty_value TData d) eqn:Hev; cbn [negb] in Hb.
        * ptr_case Hb He.
          unfold is_empty_value in Hev. destruct d; try discriminate. cbn [data_of ptr_data dflt_ptr].
          destruct (ptr_data p0) as [[|y r]|]; try discriminate;
            (eexists; split; [reflexivity|]); constructor; reflexivity.
        * ptr_case Hb He.
          eexists; split; [reflexivity|]. constructor; reflexivity.
    - (* list *)
      cbn [vmatch] in Hvm.
      destruct o as [vs|].
      + apply andb_true_iff in Hvm as [Hm Hv].
        destruct (insert_list sch rec_ins t vs) as [l| | | |] eqn:El; cbn [bind] in Hb; try discriminate.
        destruct (list_rt t vs l Hm Hv El) as (Hpl & vs' & Hx & Hq).
        ptr_case Hb He. rewrite Hpl, Hx.
        eexists; split; [reflexivity|]. apply VE_list. exact Hq.
      + destruct (is_empty_value (TList t) d) eqn:Hev.
        * ptr_case Hb He.
          cbn [ptr_list]. unfold is_empty_value in Hev. destruct d; try discriminate. cbn [dflt_ptr] in *.
          cbn in Hok. destruct (ptr_list p0) as [l|].
          { exfalso. lia. }
          eexists; split; [reflexivity|]. apply VE_list_empty; reflexivity.
        * destruct (insert_list sch rec_ins t []) as [l| | | |] eqn:El; cbn [bind] in Hb; try discriminate.
          destruct (list_rt t [] l Hvm eq_refl El) as (Hpl & vs' & Hx & Hq).
          ptr_case Hb He. rewrite Hpl, Hx.
          inversion Hq; subst. eexists; split; [reflexivity|]. apply VE_list_empty; reflexivity.
    - (* struct *)
      destruct o as [x|].
      + destruct (node_size sch id) as [sz| | | |]; cbn [bind] in Hb; try discriminate.
        destruct (rec_ins id (zero_struct (fst sz) (snd sz)) (GStruct (Some x))) as [ss| | | |] eqn:Er;
          cbn [bind] in Hb; try discriminate.
        destruct (IH_self _ _ _ _ Er) as (v' & Hx & Hq).
        ptr_case Hb He. cbn [ptr_struct extract_struct_into].
        rewrite Hx. eexists; split; [reflexivity|]. eapply veq_struct_flag; [exact Hq|eauto].
      + ptr_case Hb He. cbn [ptr_struct].
        cbn in Hok. destruct (ptr_struct (dflt_ptr d)); [lia|].
        destruct isptr; [|discriminate]. cbn. eexists; split; [reflexivity|constructor].
    - (* interface *)
      ptr_case Hb He.
      destruct p0; try discriminate; (eexists; split; [reflexivity|constructor]).
    - (* any pointer *)
      ptr_case Hb He. cbn zeta.
      cbn in Hok. destruct p0; cbn [ptr_valid]; try (eexists; split; [reflexivity|constructor]).
      destruct (dflt_ptr d); cbn in Hok; try lia. eexists; split; [reflexivity|constructor].
  Qed.

  (* ---------------------------------------------------------------- the field loop *)
  Lemma action_present hw disc f : field_action hw disc f = Do -> f_present f = true.
  Proof. unfold field_action. destruct (f_present f); [reflexivity|discriminate]. Qed.

  Lemma active_coexist hw disc f g :
    field_action hw disc f = Do -> field_action hw disc g = Do -> may_coexist f g = true.
  Proof.
    unfold field_action, may_coexist.
    destruct (negb (f_present f)); [discriminate|]. destruct (negb (f_present g)); [discriminate|].
    destruct (f_dv f) as [a|], (f_dv g) as [b|]; auto.
    destruct hw; [|discriminate].
    destruct (eqb_bits a disc) eqn:Ea; [|discriminate]. destruct (eqb_bits b disc) eqn:Eb; [|discriminate].
    intros _ _. apply eqb_bits_eq in Ea, Eb. subst. apply eqb_bits_eq. reflexivity.
  Qed.

  Lemma action_false_irrel d1 d2 f : field_action false d1 f = field_action false d2 f.
  Proof. unfold field_action. destruct (negb (f_present f)); [reflexivity|]. destruct (f_dv f); reflexivity. Qed.

  Lemma ext_false_irrel d1 d2 s : forall fs,
    extract_fields true rec_ext false d1 s fs = extract_fields true rec_ext false d2 s fs.
  Proof.
    induction fs as [|f fs IHf]; [reflexivity|]. cbn [extract_fields].
    rewrite (action_false_irrel d1 d2 f), IHf. reflexivity.
  Qed.

  Lemma veq_false_irrel d1 d2 fs vs vs' :
    veq_fields sch false d1 fs vs vs' -> veq_fields sch false d2 fs vs vs'.
  Proof.
    revert vs vs'. induction fs as [|f fs IHf]; intros vs vs' H; inversion H; subst; constructor; auto;
      try (rewrite (action_false_irrel d2 d1 f); assumption).
  Qed.

  Lemma touched_disjoint hw disc f : forall fs,
    field_action hw disc f = Do ->
    forallb (fun g => if f_present g && may_coexist f g
                      then locs_disjoint (field_fp tbl f) (field_fp tbl g) else true) fs = true ->
    (forall i, in_data (field_fp tbl f) i = true -> in_data (touched tbl hw disc fs) i = false) /\
    (forall j, in_ptr (field_fp tbl f) j = true -> in_ptr (touched tbl hw disc fs) j = false).
  Proof.
    induction fs as [|g fs IHf]; intros Ha H; cbn [touched forallb] in *.
    - split; reflexivity.
    - apply andb_true_iff in H as [H1 H2]. destruct (IHf Ha H2) as [I1 I2].
      destruct (field_action hw disc g) eqn:Eg; auto.
      rewrite (action_present _ _ _ Eg), (active_coexist _ _ _ _ Ha Eg) in H1. cbn [andb] in H1.
      split; intros i Hi.
      + rewrite in_data_app. apply orb_false_iff. split; [eapply locs_disjoint_data; eauto|auto].
      + rewrite in_ptr_app. apply orb_false_iff. split; [eapply locs_disjoint_ptr; eauto|auto].
  Qed.

  Lemma touched_incl hw disc N D : forall fs,
    fields_ok tbl N D fs = true ->
    (forall i, in_data (touched tbl hw disc fs) i = true -> in_data N i = true /\ in_data D i = false) /\
    (forall j, in_ptr (touched tbl hw disc fs) j = true -> in_ptr N j = true /\ in_ptr D j = false).
  Proof.
    induction fs as [|f fs IHf]; intros H; cbn [touched fields_ok] in *.
    - split; intros i Hi; discriminate.
    - apply andb_true_iff in H as [H1 H2]. destruct (IHf H2) as [I1 I2].
      destruct (field_action hw disc f) eqn:Ef; auto.
      rewrite (action_present _ _ _ Ef) in H1.
      apply andb_true_iff in H1 as [H1 _]. apply andb_true_iff in H1 as [H1 Hd].
      apply andb_true_iff in H1 as [_ Hi].
      split; intros i Hx.
      + rewrite in_data_app in Hx. apply orb_true_iff in Hx as [Hx|Hx]; [|auto].
        split; [eapply locs_incl_data; eauto|eapply locs_disjoint_data; eauto].
      + rewrite in_ptr_app in Hx. apply orb_true_iff in Hx as [Hx|Hx]; [|auto].
        split; [eapply locs_incl_ptr; eauto|eapply locs_disjoint_ptr; eauto].
  Qed.

  Definition one_ins (f : field) (s : strct) (v : gval) : res strct :=
    match f with
    | FSlot _ _ off t d => insert_field sch rec_ins s off t d v
    | FGroup _ _ gid => rec_ins gid s v
    end.
  Definition one_ext (f : field) (s : strct) : res gval :=
    match f with
    | FSlot _ _ off t d => extract_field true rec_ext s off t d
    | FGroup _ _ gid => rec_ext gid s
    end.

  Lemma one_rt f s v s1 :
    slot_ok f = true -> one_ins f s v = Ok s1 ->
    same_outside (field_fp tbl f) s s1 /\
    forall s2, agree_on (field_fp tbl f) s1 s2 ->
      exists v', one_ext f s2 = Ok v' /\ veq sch (field_type f) v v'.
  Proof.
    destruct f as [p dv off t d|p dv gid]; cbn [one_ins one_ext field_fp field_type]; intros Hok H.
    - eapply slot_rt; eauto.
    - apply IH; assumption.
  Qed.

  Lemma fields_rt hw disc N D : forall fs vs s s1,
    fields_ok tbl N D fs = true ->
    insert_fields sch rec_ins hw disc s fs vs = Ok s1 ->
    same_outside (touched tbl hw disc fs) s s1 /\
    forall s2, agree_on (touched tbl hw disc fs) s1 s2 ->
      exists vs', extract_fields true rec_ext hw disc s2 fs = Ok vs' /\ veq_fields sch hw disc fs vs vs'.
  Proof.
    induction fs as [|f fs IHf]; intros vs s s1 Hok H; destruct vs as [|v vs]; cbn [insert_fields] in H;
      try discriminate.
    - inversion H; subst. split; [apply same_outside_refl|]. intros s2 _. exists []. split; [reflexivity|constructor].
    - cbn [fields_ok] in Hok. apply andb_true_iff in Hok as [Hf Hok].
      cbn [touched extract_fields]. destruct (field_action hw disc f) eqn:Ha; try discriminate.
      + destruct (IHf _ _ _ Hok H) as [A B]. split; [exact A|]. intros s2 Hag.
        destruct (B s2 Hag) as (vs' & E & Q). rewrite E. cbn [bind]. eexists; split; [reflexivity|].
        constructor; [intros X; rewrite Ha in X; discriminate|exact Q].
      + rewrite (action_present _ _ _ Ha) in Hf.
        apply andb_true_iff in Hf as [Hf Hdis]. apply andb_true_iff in Hf as [Hf _].
        apply andb_true_iff in Hf as [Hs _].
        assert (Ho : exists sa, one_ins f s v = Ok sa /\ insert_fields sch rec_ins hw disc sa fs vs = Ok s1).
        { destruct f; cbn [one_ins];
            (match type of H with bind ?x _ = _ => destruct x eqn:Ex end); cbn [bind] in H; try discriminate;
            (eexists; split; [reflexivity|exact H]). }
        destruct Ho as (sa & Ho & Hr).
        destruct (one_rt f s v sa Hs Ho) as [A1 B1].
        destruct (IHf _ _ _ Hok Hr) as [A2 B2].
        destruct (touched_disjoint hw disc f fs Ha Hdis) as [D1 D2].
        split; [eapply same_outside_trans; eassumption|].
        intros s2 Hag.
        assert (Hf2 : agree_on (field_fp tbl f) s1 s2).
        { eapply agree_on_mono; [| |exact Hag]; intros i Hi; [rewrite in_data_app|rewrite in_ptr_app]; rewrite Hi; reflexivity. }
        assert (Hr2 : agree_on (touched tbl hw disc fs) s1 s2).
        { eapply agree_on_mono; [| |exact Hag]; intros i Hi; [rewrite in_data_app|rewrite in_ptr_app]; rewrite Hi;
            apply orb_true_r. }
        assert (Hfa : agree_on (field_fp tbl f) sa s2) by (eapply agree_on_before; eassumption).
        destruct (B1 s2 Hfa) as (v' & E1 & Q1). destruct (B2 s2 Hr2) as (vs' & E2 & Q2).
        exists (v' :: vs'). split.
        * destruct f; cbn [one_ext] in E1; rewrite E1; cbn [bind]; rewrite E2; reflexivity.
        * constructor; [intros _; exact Q1|exact Q2].
  Qed.

  (* ---------------------------------------------------------------- one struct *)
  Hypothesis nodes_ok : forall id n, find_node sch id = Some n -> node_ok tbl id n = true.

  Lemma same_outside_into N F G s1 s2 s3 :
    (forall i, in_data F i = true -> in_data N i = true) -> (forall j, in_ptr F j = true -> in_ptr N j = true) ->
    (forall i, in_data G i = true -> in_data N i = true) -> (forall j, in_ptr G j = true -> in_ptr N j = true) ->
    same_outside F s1 s2 -> same_outside G s2 s3 -> same_outside N s1 s3.
  Proof.
    intros. eapply same_outside_mono; [| |eapply same_outside_trans; eassumption].
    - intros i Hi. rewrite in_data_app in Hi. apply orb_true_iff in Hi as [|]; auto.
    - intros i Hi. rewrite in_ptr_app in Hi. apply orb_true_iff in Hi as [|]; auto.
  Qed.

  Lemma body_rt id s v s1 :
    insert_struct_body sch rec_ins id s v = Ok s1 ->
    same_outside (fp_of tbl id) s s1 /\
    forall s2, agree_on (fp_of tbl id) s1 s2 ->
      exists v', extract_struct_body true sch rec_ext id s2 = Ok v' /\ veq sch (TStruct false id) v v'.
  Proof.
    unfold insert_struct_body, extract_struct_body. intros H.
    destruct v as [| | | | |[[which vals]|]|]; try discriminate.
    destruct (find_node sch id) as [n|] eqn:Hn; [|discriminate].
    pose proof (nodes_ok _ _ Hn) as Hok. unfold node_ok in Hok.
    apply andb_true_iff in Hok as [Hok Hfs]. apply andb_true_iff in Hok as [Hdoff Hdi].
    set (N := fp_of tbl id) in *.
    destruct (n_disc n) as [doff|] eqn:Hd.
    - (* the node has a union *)
      assert (HD : disc_loc n = [LData (doff * 16) 16]) by (unfold disc_loc; rewrite Hd; reflexivity).
      destruct (n_which n) as [| |z] eqn:Hw.
      + (* no Which, no member mapped *)
        cbn [bind] in H.
        destruct (fields_rt false [] N (disc_loc n) _ _ _ _ Hfs H) as [A B].
        destruct (touched_incl false [] N (disc_loc n) _ Hfs) as [T1 T2].
        split.
        * eapply same_outside_mono; [| |exact A]; intros i Hi; [apply T1|apply T2]; assumption.
        * intros s2 Hag.
          assert (Hag' : agree_on (touched tbl false [] (n_fields n)) s1 s2).
          { eapply agree_on_mono; [| |exact Hag]; intros i Hi; [apply T1|apply T2]; assumption. }
          destruct (B s2 Hag') as (vs' & E & Q).
          rewrite (ext_false_irrel _ []), E. cbn [bind]. eexists; split; [reflexivity|].
          eapply VE_struct; [exact Hn|rewrite Hw; discriminate|].
          unfold has_which, eff_disc. rewrite Hd, Hw. exact Q.
      + (* Which field *)
        destruct (negb (length which =? 16)%nat) eqn:Hl; [discriminate|].
        destruct (s_dbytes s <? doff * 2 + 2) eqn:Hb; [discriminate|].
        destruct (write_int s doff which) as [s0| | | |] eqn:Hwr; cbn [bind] in H; try discriminate.
        assert (Hlen : length which = 16%nat) by lia.
        destruct (write_int_spec _ _ _ _ Hwr) as [A0 B0]. cbn zeta in A0, B0. rewrite Hlen in A0, B0.
        change (Z.of_nat 16) with 16 in A0, B0. rewrite <- HD in A0, B0.
        destruct (fields_rt true which N (disc_loc n) _ _ _ _ Hfs H) as [A B].
        destruct (touched_incl true which N (disc_loc n) _ Hfs) as [T1 T2].
        split.
        * eapply same_outside_into; [| | | |exact A0|exact A].
          -- intros i Hi. eapply locs_incl_data; eauto.
          -- intros i Hi. eapply locs_incl_ptr; eauto.
          -- intros i Hi. apply T1; assumption.
          -- intros i Hi. apply T2; assumption.
        * intros s2 Hag.
          assert (Hag' : agree_on (touched tbl true which (n_fields n)) s1 s2).
          { eapply agree_on_mono; [| |exact Hag]; intros i Hi; [apply T1|apply T2]; assumption. }
          assert (HagD : agree_on (disc_loc n) s0 s2).
          { eapply agree_on_before; [| |exact A|].
            - intros i Hi. destruct (in_data (touched tbl true which (n_fields n)) i) eqn:E; [|reflexivity].
              destruct (T1 i E) as [_ X]. rewrite X in Hi. discriminate.
            - intros i Hi. destruct (in_ptr (touched tbl true which (n_fields n)) i) eqn:E; [|reflexivity].
              destruct (T2 i E) as [_ X]. rewrite X in Hi. discriminate.
            - eapply agree_on_mono; [| |exact Hag]; intros i Hi;
                [eapply locs_incl_data; eauto|eapply locs_incl_ptr; eauto]. }
          rewrite (B0 s2 HagD).
          destruct (B s2 Hag') as (vs' & E & Q). rewrite E. cbn [bind]. eexists; split; [reflexivity|].
          eapply VE_struct; [exact Hn|reflexivity|].
          unfold has_which, eff_disc. rewrite Hd, Hw. exact Q.
      + (* fixed discriminant *)
        destruct (negb (length z =? 16)%nat) eqn:Hl; [discriminate|].
        destruct (s_dbytes s <? doff * 2 + 2) eqn:Hb; [discriminate|].
        destruct (write_int s doff z) as [s0| | | |] eqn:Hwr; cbn [bind] in H; try discriminate.
        assert (Hlen : length z = 16%nat) by lia.
        destruct (write_int_spec _ _ _ _ Hwr) as [A0 B0]. cbn zeta in A0, B0. rewrite Hlen in A0, B0.
        change (Z.of_nat 16) with 16 in A0, B0. rewrite <- HD in A0, B0.
        destruct (fields_rt true z N (disc_loc n) _ _ _ _ Hfs H) as [A B].
        destruct (touched_incl true z N (disc_loc n) _ Hfs) as [T1 T2].
        split.
        * eapply same_outside_into; [| | | |exact A0|exact A].
          -- intros i Hi. eapply locs_incl_data; eauto.
          -- intros i Hi. eapply locs_incl_ptr; eauto.
          -- intros i Hi. apply T1; assumption.
          -- intros i Hi. apply T2; assumption.
        * intros s2 Hag.
          assert (Hag' : agree_on (touched tbl true z (n_fields n)) s1 s2).
          { eapply agree_on_mono; [| |exact Hag]; intros i Hi; [apply T1|apply T2]; assumption. }
          assert (HagD : agree_on (disc_loc n) s0 s2).
          { eapply agree_on_before; [| |exact A|].
            - intros i Hi. destruct (in_data (touched tbl true z (n_fields n)) i) eqn:E; [|reflexivity].
              destruct (T1 i E) as [_ X]. rewrite X in Hi. discriminate.
            - intros i Hi. destruct (in_ptr (touched tbl true z (n_fields n)) i) eqn:E; [|reflexivity].
              destruct (T2 i E) as [_ X]. rewrite X in Hi. discriminate.
            - eapply agree_on_mono; [| |exact Hag]; intros i Hi;
                [eapply locs_incl_data; eauto|eapply locs_incl_ptr; eauto]. }
          rewrite (B0 s2 HagD).
          assert (Hzz : eqb_bits z z = true) by (apply eqb_bits_eq; reflexivity). rewrite Hzz.
          destruct (B s2 Hag') as (vs' & E & Q). rewrite E. cbn [bind]. eexists; split; [reflexivity|].
          eapply VE_struct; [exact Hn|rewrite Hw; discriminate|].
          unfold has_which, eff_disc. rewrite Hd, Hw. exact Q.
    - (* no union *)
      destruct (n_which n) eqn:Hw; try discriminate. cbn [bind] in H.
      destruct (fields_rt false [] N (disc_loc n) _ _ _ _ Hfs H) as [A B].
      destruct (touched_incl false [] N (disc_loc n) _ Hfs) as [T1 T2].
      split.
      + eapply same_outside_mono; [| |exact A]; intros i Hi; [apply T1|apply T2]; assumption.
      + intros s2 Hag.
        assert (Hag' : agree_on (touched tbl false [] (n_fields n)) s1 s2).
        { eapply agree_on_mono; [| |exact Hag]; intros i Hi; [apply T1|apply T2]; assumption. }
        destruct (B s2 Hag') as (vs' & E & Q).
        rewrite E. cbn [bind]. eexists; split; [reflexivity|].
        eapply VE_struct; [exact Hn|rewrite Hw; discriminate|].
        unfold has_which, eff_disc. rewrite Hd, Hw. exact Q.
  Qed.
End RT.

Lemma find_node_ok tbl sch : table_ok tbl sch = true ->
  forall id n, find_node sch id = Some n -> node_ok tbl id n = true.
Proof.
  unfold table_ok. induction sch as [|[i m] sch IHs]; intros H id n Hf; cbn in *; [discriminate|].
  apply andb_true_iff in H as [H1 H2].
  destruct (i =? id) eqn:E.
  - inversion Hf; subst. assert (i = id) by lia. subst. exact H1.
  - apply IHs; assumption.
Qed.

(* the general form: insert changes nothing outside the node's footprint, and extract reads
   nothing outside it *)
Theorem roundtrip_frame : forall sch tbl, table_ok tbl sch = true ->
  forall fuel id s v s1,
  insert_struct fuel sch id s v = Ok s1 ->
  same_outside (fp_of tbl id) s s1 /\
  forall s2, agree_on (fp_of tbl id) s1 s2 ->
    exists v', extract_struct true fuel sch id s2 = Ok v' /\ veq sch (TStruct false id) v v'.
Proof.
  intros sch tbl Hok. induction fuel as [|f IHf]; intros id s v s1 H; [discriminate|].
  cbn [insert_struct extract_struct] in *.
  eapply body_rt; [exact IHf|apply find_node_ok; exact Hok|exact H].
Qed.

Theorem extract_insert : forall D sch, schema_ok D sch = true ->
  forall fuel id s v s1,
  insert_struct fuel sch id s v = Ok s1 ->
  exists v', extract_struct true fuel sch id s1 = Ok v' /\ veq sch (TStruct false id) v v'.
Proof.
  intros D sch Hok fuel id s v s1 H.
  destruct (roundtrip_frame sch _ Hok fuel id s v s1 H) as [_ B]. apply B. apply agree_on_refl.
Qed.
