(* Proofs about the model coq/Pogs/PogsM.v *)
From CV Require Import Pogs.PogsM.
From Coq Require Import ZifyBool ZifyNat.
Open Scope Z_scope.

(* ------------------------------------------------------------------ generic *)
Lemma mapM_ext {A B} (f g : A -> res B) l :
  (forall a, In a l -> f a = g a) -> mapM f l = mapM g l.
Proof.
  induction l as [|a l IH]; intros H; cbn [mapM]; [reflexivity|].
  rewrite (H a (or_introl eq_refl)). rewrite IH; [reflexivity|].
  intros; apply H; right; assumption.
Qed.

(* ------------------------------------------------------------------ T1: agreement with the generated accessors *)
Section Agree.
  Variable sch : schema.
  Variables (rec_ext rec_gen : Z -> strct -> res gval).
  Hypothesis rec_eq : forall id s, rec_ext id s = rec_gen id s.

  Lemma into_eq isptr id os :
    extract_struct_into rec_ext isptr id os = gen_struct_into rec_gen isptr id os.
  Proof. destruct os; cbn; [apply rec_eq|]. destruct isptr; [reflexivity|apply rec_eq]. Qed.

  Lemma list_eq e : forall l, extract_list rec_ext e l = gen_list rec_gen e l.
  Proof.
    induction e; intros l; cbn [extract_list gen_list]; try reflexivity.
    - destruct (ptrlist_elems l); cbn [bind]; try reflexivity.
      rewrite (mapM_ext _ (fun p => match ptr_list p with
                                    | None => Ok (GList None)
                                    | Some l' => gen_list rec_gen e l' end)); [reflexivity|].
      intros p _. destruct (ptr_list p); [apply IHe|reflexivity].
    - rewrite (mapM_ext _ (fun os => gen_struct_into rec_gen false id os)); [reflexivity|].
      intros; apply into_eq.
  Qed.

  Lemma field_eq n s dv off t d :
    gen_check_which n s dv = true ->
    extract_field true rec_ext s off t d = gen_field rec_gen n s dv off t d.
  Proof.
    intros Hw. unfold extract_field, extract_field_body, gen_field, gen_getter. rewrite Hw. cbn [negb].
    destruct d; try reflexivity; destruct t; cbn [bind]; try reflexivity.
    all: try (unfold text_of, go_text; destruct bytes; destruct (ptr_text (read_ptr s off)); reflexivity).
    all: try (unfold data_of; destruct (ptr_data (read_ptr s off)); reflexivity).
    all: try apply into_eq.
    all: try (destruct (read_ptr s off); reflexivity).
    all: match goal with
         | |- match ?x with Some _ => _ | None => _ end = _ => destruct x
         end; try reflexivity; apply list_eq.
  Qed.

  Lemma fields_eq n hasWhich disc s :
    (hasWhich = true -> exists doff, n_disc n = Some doff /\ disc = read_int s doff 16) ->
    forall fs, extract_fields true rec_ext hasWhich disc s fs = gen_fields rec_gen n hasWhich disc s fs.
  Proof.
    intros HW. induction fs as [|f fs IH]; [reflexivity|].
    cbn [extract_fields gen_fields]. rewrite IH.
    destruct (field_action hasWhich disc f) eqn:Ha; try reflexivity.
    destruct f as [p dv off t d|p dv gid]; [|rewrite rec_eq; reflexivity].
    rewrite (field_eq n s dv); [reflexivity|].
    unfold field_action in Ha. cbn [f_present f_dv] in Ha.
    destruct (negb p); [discriminate|]. unfold gen_check_which.
    destruct dv as [v|]; [|reflexivity].
    destruct hasWhich; [|discriminate].
    destruct (HW eq_refl) as (doff & Hd & He). rewrite Hd. subst disc.
    destruct (eqb_bits v (read_int s doff 16)); [reflexivity|discriminate].
  Qed.

  Lemma body_eq id s : extract_struct_body true sch rec_ext id s = gen_struct_body sch rec_gen id s.
  Proof.
    unfold extract_struct_body, gen_struct_body.
    destruct (find_node sch id) as [n|]; [|reflexivity].
    destruct (n_disc n) as [doff|] eqn:Hd.
    - destruct (n_which n).
      + rewrite (fields_eq n); [reflexivity|discriminate].
      + rewrite (fields_eq n); [reflexivity|]. intros _. exists doff; auto.
      + destruct (eqb_bits (read_int s doff 16) v); [|reflexivity].
        rewrite (fields_eq n); [reflexivity|]. intros _. exists doff; auto.
    - rewrite (fields_eq n); [reflexivity|discriminate].
  Qed.
End Agree.

Theorem extract_agrees_with_generated : forall fuel sch id s,
  extract_struct true fuel sch id s = gen_struct fuel sch id s.
Proof.
  induction fuel as [|f IH]; intros; [reflexivity|].
  cbn [extract_struct gen_struct]. apply body_eq. intros; apply IH.
Qed.

(* a generated getter of a union member other than Which() panics; pogs never calls it *)
Lemma gen_getter_inactive_panics n s dv off t d :
  gen_check_which n s dv = false -> gen_getter n s dv off t d = Panic.
Proof. intros H. unfold gen_getter. rewrite H. reflexivity. Qed.
