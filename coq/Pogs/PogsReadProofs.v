(* C01 for pogs.Extract over the reader model: [extract_r] never panics, on any segment bytes,
   for every mapped schema accepted by [rschema_ok], any limits, any fuel.  The invariant of the
   induction is that every struct / list the extraction touches is a well-formed pointer of the
   message (wf_struct / wf_list of Core/SafetyProofs.v): every read is a Core accessor on a
   well-formed receiver, so by C01_accessor_safe what it returns comes from inside the segments. *)
From CV Require Import Core.SafetyProofs Pogs.PogsRead.
From CV Require Pogs.PogsM.
From Coq Require Import ZifyBool.
Open Scope Z_scope.

(* x does not panic, and a value it produces satisfies P *)
Definition safeM {A} (x : M A) (P : A -> Prop) : Prop :=
  forall s, match fst (x s) with XOk a => P a | XPanic => False | _ => True end.

Definition top_ {A} : A -> Prop := fun _ => True.

Lemma safe_ret {A} (a : A) (P : A -> Prop) : P a -> safeM (ret a) P.
Proof. intros H s. exact H. Qed.

Lemma safe_fail {A} (r : xres A) (P : A -> Prop) :
  match r with XOk a => P a | XPanic => False | _ => True end -> safeM (fail r) P.
Proof. intros H s. exact H. Qed.

Lemma safe_bind {A B} (x : M A) (f : A -> M B) (Q : A -> Prop) (P : B -> Prop) :
  safeM x Q -> (forall a, Q a -> safeM (f a) P) -> safeM (bindM x f) P.
Proof.
  intros Hx Hf s. unfold bindM. specialize (Hx s).
  destruct (x s) as [r s']. cbn [fst] in Hx. destruct r; cbn [fst]; try exact I; try exact Hx.
  apply Hf. exact Hx.
Qed.

Lemma safe_weaken {A} (x : M A) (P Q : A -> Prop) : safeM x P -> (forall a, P a -> Q a) -> safeM x Q.
Proof. intros H HPQ s. specialize (H s). destruct (fst (x s)); auto. Qed.

Lemma safe_lift {A} (r : res A) (P : A -> Prop) : res_sat r P -> safeM (lift r) P.
Proof. intros H s. unfold lift. destruct r; cbn in *; auto. Qed.

Lemma safe_lift_np {A} (r : res A) : r <> Panic -> safeM (lift r) top_.
Proof. intros H s. unfold lift. destruct r; cbn; auto. exact I. Qed.

Lemma safe_lift_ptr (f : Z -> res Ptr * Z) (P : Ptr -> Prop) :
  (forall rl, res_sat (fst (f rl)) P) -> safeM (lift_ptr f) P.
Proof. intros H s. unfold lift_ptr. specialize (H (x_rl s)). destruct (fst (f (x_rl s))); cbn in *; auto. Qed.

Lemma safe_make_slice n : 0 <= n -> safeM (make_slice n) top_.
Proof. intros H s. unfold make_slice. destruct (n <? 0) eqn:E; [lia|]. exact I. Qed.

Lemma safe_iterM {A} (f : Z -> M A) : forall n lo,
  (forall i, lo <= i < lo + Z.of_nat n -> safeM (f i) top_) -> safeM (iterM n lo f) top_.
Proof.
  induction n as [|n IH]; intros lo H.
  - apply safe_ret. exact I.
  - cbn [iterM]. eapply safe_bind; [apply H; lia|]. intros a _.
    eapply safe_bind; [apply IH; intros i Hi; apply H; lia|]. intros r _. apply safe_ret. exact I.
Qed.

Section Safe.
  Variable c : config.
  Variable fx : fixes.
  Variable m : segs.
  Variable sch : PogsM.schema.
  Variable rec_ext : Z -> Ptr -> M rval.
  Hypothesis Hm : msg_ok m.
  Hypothesis Hstrict : cfg_strict c = true.
  Hypothesis Hbit : fx_bit fx = true.
  Hypothesis Hrec : forall id sp, wf_struct m sp -> safeM (rec_ext id sp) top_.

  Lemma sptr_safe sp off : wf_struct m sp -> safeM (sptr c m sp off) (wf_ptr m).
  Proof.
    intros Hw. apply safe_lift_ptr. intros rl.
    eapply res_sat_weaken; [apply struct_ptr_safe; try assumption|].
    - pose proof (Z.mod_pos_bound off 65536 ltac:(lia)). lia.
    - intros a H. apply H. assumption.
  Qed.

  Lemma plat_safe l i : wf_list m l -> 0 <= i < list_len l -> safeM (plat c fx m l i) (wf_ptr m).
  Proof.
    intros Hw Hi. apply safe_lift_ptr. intros rl.
    eapply res_sat_weaken; [apply ptrlist_at_safe; assumption|].
    intros a H. apply H. assumption.
  Qed.

  Lemma wf_struct_null : wf_struct m nullPtr.
  Proof. split; [apply wf_null|]. cbn. discriminate. Qed.

  Lemma extract_struct_into_safe isptr id sp : wf_struct m sp ->
    safeM (extract_struct_into rec_ext isptr id sp) top_.
  Proof.
    intros Hw. unfold extract_struct_into. destruct (isptr && negb (p_valid sp)).
    - apply safe_ret. exact I.
    - apply Hrec. assumption.
  Qed.

  Lemma list_len_nonneg l : wf_list m l -> p_valid l = true -> 0 <= list_len l.
  Proof.
    intros Hw V. destruct (wf_list_inv m l Hw V) as (_ & _ & Hl & _). unfold list_len. rewrite V. lia.
  Qed.

  Lemma extract_list_safe : forall e l, wf_list m l -> p_valid l = true ->
    safeM (extract_list c fx m rec_ext e l) top_.
  Proof.
    induction e as [| |w|bytes| |e IH|isptr id| |]; intros l Hw V;
      pose proof (list_len_nonneg l Hw V) as Hn; cbn [extract_list].
    - apply safe_fail. exact I.
    - eapply safe_bind; [apply safe_make_slice; assumption|]. intros _ _.
      eapply safe_bind; [|intros; apply safe_ret; exact I].
      apply safe_iterM. intros i Hi. rewrite Z2Nat.id in Hi by assumption.
      eapply safe_bind; [apply safe_lift_np|intros; apply safe_ret; exact I].
      rewrite Hbit. apply bitlist_at_safe; try assumption; try lia.
    - eapply safe_bind; [apply safe_make_slice; assumption|]. intros _ _.
      eapply safe_bind; [|intros; apply safe_ret; exact I].
      apply safe_iterM. intros i Hi. rewrite Z2Nat.id in Hi by assumption.
      eapply safe_bind; [apply safe_lift_np|intros; apply safe_ret; exact I].
      apply res_sat_nopanic with (P := fun v => v = 0 \/ exists a, 0 <= a /\ a + PogsM.wbytes w <= zlen (seg_of m l) /\
                                                 v = le_decode (sub (seg_of m l) a (PogsM.wbytes w))).
      apply list_uint_at_safe; try assumption; try lia.
      unfold PogsM.wbytes. apply Z.div_pos; lia.
    - eapply safe_bind; [apply safe_make_slice; assumption|]. intros _ _.
      eapply safe_bind; [|intros; apply safe_ret; exact I].
      apply safe_iterM. intros i Hi. rewrite Z2Nat.id in Hi by assumption.
      eapply safe_bind; [apply plat_safe; [assumption|lia]|]. intros p Hp.
      eapply safe_bind; [apply safe_lift_np; eapply res_sat_nopanic; apply ptr_text_safe; assumption|].
      intros; apply safe_ret; exact I.
    - eapply safe_bind; [apply safe_make_slice; assumption|]. intros _ _.
      eapply safe_bind; [|intros; apply safe_ret; exact I].
      apply safe_iterM. intros i Hi. rewrite Z2Nat.id in Hi by assumption.
      eapply safe_bind; [apply plat_safe; [assumption|lia]|]. intros p Hp.
      eapply safe_bind; [apply safe_lift_np; eapply res_sat_nopanic; apply ptr_data_safe; assumption|].
      intros; apply safe_ret; exact I.
    - eapply safe_bind; [apply safe_make_slice; assumption|]. intros _ _.
      eapply safe_bind; [|intros; apply safe_ret; exact I].
      apply safe_iterM. intros i Hi. rewrite Z2Nat.id in Hi by assumption.
      eapply safe_bind; [apply plat_safe; [assumption|lia]|]. intros p Hp. cbv zeta.
      destruct (p_valid (as_list p)) eqn:Vl; cbn [negb]; [|apply safe_ret; exact I].
      apply IH; [apply wf_list_as_list; assumption|assumption].
    - eapply safe_bind; [apply safe_make_slice; assumption|]. intros _ _.
      eapply safe_bind; [|intros; apply safe_ret; exact I].
      apply safe_iterM. intros i Hi. rewrite Z2Nat.id in Hi by assumption.
      eapply safe_bind; [apply safe_lift; apply list_struct_safe with (m := m); [assumption|assumption|lia]|].
      intros q Hq. apply Hrec. assumption.
    - eapply safe_bind; [apply safe_make_slice; assumption|]. intros _ _.
      eapply safe_bind; [|intros; apply safe_ret; exact I].
      apply safe_iterM. intros i Hi. rewrite Z2Nat.id in Hi by assumption.
      eapply safe_bind; [apply plat_safe; [assumption|lia]|]. intros; apply safe_ret; exact I.
    - eapply safe_bind; [apply safe_make_slice; assumption|]. intros _ _. apply safe_fail. exact I.
  Qed.

  Lemma extract_field_safe sp pr dv off t d : wf_struct m sp ->
    rslot_ok (PogsM.FSlot pr dv off t d) = true ->
    safeM (extract_field c fx m rec_ext sp off t d) top_.
  Proof.
    intros Hw Hok. unfold extract_field.
    assert (safeM (extract_field_body c fx m rec_ext sp off t d) top_) as Hb.
    { cbn [rslot_ok] in Hok. apply andb_prop in Hok. destruct Hok as [Ho Hok].
      unfold extract_field_body. destruct t as [| |w|bytes| |e|isptr id| |].
      - apply safe_fail. exact I.
      - eapply safe_bind; [apply safe_lift_np|intros; apply safe_ret; exact I].
        apply struct_bit_safe; try assumption. unfold u32. pose proof (Z.mod_pos_bound off 4294967296). lia.
      - apply andb_prop in Hok. destruct Hok as [Hwd Hlt].
        eapply safe_bind; [apply safe_lift_np|intros; apply safe_ret; exact I].
        assert (0 <= PogsM.wbytes w <= 8) as Hwb.
        { unfold PogsM.wbytes.
          assert (w = 8 \/ w = 16 \/ w = 32 \/ w = 64)%nat as Hc by lia.
          destruct Hc as [ -> | [ -> | [ -> | -> ] ] ]; cbn; lia. }
        assert (0 <= off * PogsM.wbytes w < 524288) as Hr by nia.
        unfold u32. rewrite Z.mod_small by lia.
        apply struct_uint_safe; assumption.
      - eapply safe_bind; [apply sptr_safe; assumption|]. intros p Hp.
        eapply safe_bind; [apply safe_lift_np; eapply res_sat_nopanic; apply ptr_text_safe; assumption|].
        intros; apply safe_ret; exact I.
      - eapply safe_bind; [apply sptr_safe; assumption|]. intros p Hp.
        eapply safe_bind; [apply safe_lift_np; eapply res_sat_nopanic; apply ptr_data_safe; assumption|].
        intros; apply safe_ret; exact I.
      - destruct (negb (PogsM.mappable e)); [apply safe_fail; exact I|].
        eapply safe_bind; [apply sptr_safe; assumption|]. intros p Hp. cbv zeta.
        destruct (p_valid (as_list p)) eqn:Vl.
        + apply extract_list_safe; [apply wf_list_as_list; assumption|assumption].
        + destruct (PogsM.ptr_list _); [apply safe_fail; exact I|apply safe_ret; exact I].
      - eapply safe_bind; [apply sptr_safe; assumption|]. intros p Hp. cbv zeta.
        destruct (p_valid (as_struct p)) eqn:Vs.
        + apply extract_struct_into_safe. apply wf_struct_as_struct. assumption.
        + destruct (PogsM.ptr_struct _); [apply safe_fail; exact I|].
          apply extract_struct_into_safe. apply wf_struct_null.
      - eapply safe_bind; [apply sptr_safe; assumption|]. intros; apply safe_ret; exact I.
      - eapply safe_bind; [apply sptr_safe; assumption|]. intros p Hp.
        destruct (p_valid p); [apply safe_ret; exact I|].
        destruct (PogsM.ptr_valid _); [apply safe_fail; exact I|apply safe_ret; exact I]. }
    destruct d; try exact Hb. apply safe_fail. exact I.
  Qed.

  Lemma extract_fields_safe hw disc sp : wf_struct m sp -> forall fs,
    forallb (fun f => if PogsM.f_present f then rslot_ok f else true) fs = true ->
    safeM (extract_fields c fx m rec_ext hw disc sp fs) top_.
  Proof.
    intros Hw. induction fs as [|f fs IH]; intros Hok; cbn [extract_fields].
    - apply safe_ret. exact I.
    - cbn [forallb] in Hok. apply andb_prop in Hok. destruct Hok as [Hf Hfs]. specialize (IH Hfs).
      unfold PogsM.field_action. destruct (PogsM.f_present f) eqn:Pf; cbn [negb].
      + assert (safeM (match f with
                       | PogsM.FSlot _ _ off t d => extract_field c fx m rec_ext sp off t d
                       | PogsM.FGroup _ _ gid => rec_ext gid sp
                       end) top_) as Hone.
        { destruct f as [pr dv off t d|pr dv gid].
          - eapply extract_field_safe; eassumption.
          - apply Hrec. assumption. }
        destruct (PogsM.f_dv f) as [dv|].
        * destruct hw; [|apply safe_fail; exact I].
          destruct (PogsM.eqb_bits dv disc).
          -- eapply safe_bind; [exact Hone|]. intros v0 _.
             eapply safe_bind; [exact IH|]. intros; apply safe_ret; exact I.
          -- eapply safe_bind; [exact IH|]. intros; apply safe_ret; exact I.
        * eapply safe_bind; [exact Hone|]. intros v0 _.
          eapply safe_bind; [exact IH|]. intros; apply safe_ret; exact I.
      + eapply safe_bind; [exact IH|]. intros; apply safe_ret; exact I.
  Qed.

  Hypothesis Hsch : forall id n, PogsM.find_node sch id = Some n -> rnode_ok n = true.

  Lemma extract_struct_body_safe id sp : wf_struct m sp ->
    safeM (extract_struct_body c fx m sch rec_ext id sp) top_.
  Proof.
    intros Hw. unfold extract_struct_body.
    destruct (PogsM.find_node sch id) as [n|] eqn:En; [|apply safe_fail; exact I].
    pose proof (Hsch id n En) as Hn. unfold rnode_ok in Hn. apply andb_prop in Hn. destruct Hn as [Hd Hfs].
    pose proof (fun hw disc => extract_fields_safe hw disc sp Hw (PogsM.n_fields n) Hfs) as HF.
    destruct (PogsM.n_disc n) as [doff|].
    - eapply safe_bind.
      { apply safe_lift_np. unfold u32. rewrite Z.mod_small by lia.
        apply struct_uint_safe; try assumption; lia. }
      intros dz _. cbv zeta. destruct (PogsM.n_which n).
      + eapply safe_bind; [apply HF|]. intros; apply safe_ret; exact I.
      + eapply safe_bind; [apply HF|]. intros; apply safe_ret; exact I.
      + destruct (PogsM.eqb_bits _ _); [|apply safe_fail; exact I].
        eapply safe_bind; [apply HF|]. intros; apply safe_ret; exact I.
    - eapply safe_bind; [apply HF|]. intros; apply safe_ret; exact I.
  Qed.
End Safe.

Lemma find_node_in sch : forall id n, PogsM.find_node sch id = Some n -> In (id, n) sch.
Proof.
  induction sch as [|[i n0] r IH]; intros id n H; cbn in H; [discriminate|].
  destruct (i =? id) eqn:E.
  - inversion H. subst. left. f_equal. lia.
  - right. apply IH. assumption.
Qed.

Lemma rschema_node_ok g sch id n : rschema_ok g sch = true -> PogsM.find_node sch id = Some n ->
  rnode_ok n = true /\ nest_ok g sch id = true.
Proof.
  intros Hs Hf. apply find_node_in in Hf. unfold rschema_ok in Hs. rewrite forallb_forall in Hs.
  specialize (Hs _ Hf). cbn [fst snd] in Hs. apply andb_prop in Hs. exact Hs.
Qed.

(* (a) + (c): pogs.Extract on any struct of any message never panics *)
Theorem extract_r_safe c fx m sch g : msg_ok m -> cfg_strict c = true -> fx_bit fx = true ->
  rschema_ok g sch = true ->
  forall fuel id sp, wf_struct m sp -> safeM (extract_r fuel c fx m sch id sp) top_.
Proof.
  intros Hm Hs Hb Hok. induction fuel as [|f IH]; intros id sp Hw; cbn [extract_r].
  - apply safe_fail. exact I.
  - apply extract_struct_body_safe; try assumption.
    intros id' n Hf. eapply rschema_node_ok; eassumption.
Qed.

Theorem extract_r_never_panics c fx m sch g fuel id sp s : msg_ok m -> cfg_strict c = true -> fx_bit fx = true ->
  rschema_ok g sch = true -> wf_struct m sp ->
  fst (extract_r fuel c fx m sch id sp s) <> XPanic.
Proof.
  intros Hm Hs Hb Hok Hw E. pose proof (extract_r_safe c fx m sch g Hm Hs Hb Hok fuel id sp Hw s) as H.
  rewrite E in H. exact H.
Qed.

(* from the raw bytes: msg.Root() then pogs.Extract(&v, id, root.Struct()) *)
Theorem extract_msg_never_panics c fx m sch g fuel id : msg_ok m -> cfg_strict c = true -> cfg_root c = true ->
  fx_bit fx = true -> rschema_ok g sch = true ->
  fst (extract_msg fuel c fx m sch id) <> TRootPanic /\ fst (extract_msg fuel c fx m sch id) <> TRes XPanic.
Proof.
  intros Hm Hs Hr Hb Hok. unfold extract_msg.
  pose proof (root_safe c m (init_rlimit c) Hm Hr) as Hroot.
  destruct (fst (root c m (init_rlimit c))) as [p| |]; cbn [res_sat] in Hroot; cbn [fst].
  - split; [discriminate|]. intros E. inversion E as [E'].
    eapply extract_r_never_panics; try eassumption.
    apply wf_struct_as_struct. apply Hroot. assumption.
  - split; discriminate.
  - contradiction.
Qed.
