(* Non-vacuity examples and the refuted pre-fix variant for C19 (vm_compute on concrete data). *)
From CV Require Import Pogs.PogsM Pogs.PogsSpec.
Open Scope Z_scope.

Definition b16 (z : Z) := bits_of_z 16 z.
Definition txt (l : list Z) := PBytes (l ++ [0]).

(* struct Ex { a @0 :UInt16 = 5; union { t @1 :Text = "foo"; n @2 :UInt32; g :group { x @3 :UInt16; l @4 :List(Ex) } } }
   mapped to a Go struct with a Which field and all fields. *)
Definition ex_schema : schema :=
  [ (1, MkNode 2 2 (Some 1) WField
        [ FSlot true None 0 (TInt 16) (DBits (b16 5));
          FSlot true (Some (b16 0)) 0 (TText false) (DPtr (txt [102; 111; 111]));
          FSlot true (Some (b16 1)) 1 (TInt 32) DAbsent;
          FGroup true (Some (b16 2)) 2 ]);
    (2, MkNode 2 2 None WNone
        [ FSlot true None 2 (TInt 16) DAbsent;
          FSlot true None 1 (TList (TStruct true 1)) (DPtr PNull) ]) ].

Example ex_schema_ok : schema_ok 4 ex_schema = true.
Proof. vm_compute. reflexivity. Qed.

Definition ex_inner : gval :=
  GStruct (Some (b16 0, [GBits (b16 7); GBytes (Some []); GBits (bits_of_z 32 99); GNone])).
Definition ex_value : gval :=
  GStruct (Some (b16 2, [GBits (b16 513); GBytes (Some [104; 105]); GBits (bits_of_z 32 1);
                         GStruct (Some ([], [GBits (b16 65535); GList (Some [ex_inner; ex_inner])]))])).

(* hypotheses of the round-trip theorem are satisfiable: insert succeeds on a conforming schema,
   and extract returns the value with the inactive members left untouched *)
Example ex_roundtrip :
  match insert_struct 8 ex_schema 1 (zero_struct 16 2) ex_value with
  | Ok s1 =>
    extract_struct true 8 ex_schema 1 s1 =
    Ok (GStruct (Some (b16 2, [GBits (b16 513); GNone; GNone;
          GStruct (Some ([], [GBits (b16 65535);
             GList (Some [GStruct (Some (b16 0, [GBits (b16 7); GBytes (Some []); GNone; GNone]));
                          GStruct (Some (b16 0, [GBits (b16 7); GBytes (Some []); GNone; GNone]))])]))])))
  | _ => False
  end.
Proof. vm_compute. reflexivity. Qed.

(* fields outside the allocated struct: Insert reports an error (isFieldInBounds), it does not panic *)
Example ex_short_struct : insert_struct 8 ex_schema 1 (zero_struct 8 1) ex_value = Err.
Proof. vm_compute. reflexivity. Qed.
Example ex_short_ok :
  (* ... and a short struct is fine as long as every live field fits *)
  match insert_struct 8 ex_schema 1 (zero_struct 8 1)
          (GStruct (Some (b16 0, [GBits (b16 1); GBytes (Some [120]); GNone; GNone]))) with
  | Ok _ => True | _ => False end.
Proof. vm_compute. exact I. Qed.

(* a layout with overlapping live fields is rejected by the check *)
Example ex_bad_schema : schema_ok 4
  [ (1, MkNode 1 0 None WNone [ FSlot true None 0 (TInt 16) DAbsent; FSlot true None 0 (TInt 8) DAbsent ]) ] = false.
Proof. vm_compute. reflexivity. Qed.

(* the code before the fix (extract_struct false): a Text field with default "foo" whose pointer slot
   holds a bit list reads "" through pogs but "foo" through the generated accessor *)
Definition ex_wrong_kind : strct :=
  Strct 16 (fun _ => false) 2 (fun j => if j =? 0 then PBits [true] else PNull).

Example extract_agrees_prefix_refuted :
  extract_struct false 8 ex_schema 1 ex_wrong_kind <> gen_struct 8 ex_schema 1 ex_wrong_kind.
Proof. vm_compute. discriminate. Qed.

Example extract_agrees_fixed_example :
  extract_struct true 8 ex_schema 1 ex_wrong_kind = gen_struct 8 ex_schema 1 ex_wrong_kind /\
  gen_struct 8 ex_schema 1 ex_wrong_kind =
    Ok (GStruct (Some (b16 0, [GBits (b16 5); GBytes (Some [102; 111; 111]); GNone; GNone]))).
Proof. vm_compute. split; reflexivity. Qed.

(* a nil *T in a field with a struct default does not round-trip (why schema_ok excludes such defaults) *)
Definition ex_sd_schema : schema :=
  [ (1, MkNode 0 1 None WNone [ FSlot true None 0 (TStruct true 2) (DPtr (PStruct (mk_struct [42;0;0;0;0;0;0;0] []))) ]);
    (2, MkNode 1 0 None WNone [ FSlot true None 0 (TInt 32) DAbsent ]) ].
Example struct_default_roundtrip_refuted :
  schema_ok 4 ex_sd_schema = false /\
  match insert_struct 8 ex_sd_schema 1 (zero_struct 0 1) (GStruct (Some ([], [GStruct None]))) with
  | Ok s1 => extract_struct true 8 ex_sd_schema 1 s1 =
             Ok (GStruct (Some ([], [GStruct (Some ([], [GBits (bits_of_z 32 42)]))])))
  | _ => False
  end.
Proof. vm_compute. split; reflexivity. Qed.
