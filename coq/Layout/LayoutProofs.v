(* C15: the generator's accessors ([gen_accessor]) refine the bit-range specification
   ([spec_get]/[spec_set]/[spec_has]) for every well-formed field descriptor and every struct,
   and the specification has the round-trip / frame / default / union properties. *)
From CV Require Import Layout.Layout.
From CV Require Import Layout.BytesProofs.
Open Scope Z_scope.

Lemma wrap32_small : forall z, 0 <= z < 2 ^ 32 -> wrap32 z = z.
Proof. intros. unfold wrap32. apply Z.mod_small. assumption. Qed.

Lemma bits_in_true : forall d lo len,
  bits_in d lo len = true <-> 0 <= lo /\ lo + len <= 8 * Z.of_nat (length d).
Proof. intros. unfold bits_in. rewrite andb_true_iff, Z.leb_le, Z.leb_le. tauto. Qed.

Lemma bits_in_false : forall d lo len,
  bits_in d lo len = false <-> ~ (0 <= lo /\ lo + len <= 8 * Z.of_nat (length d)).
Proof. intros. rewrite <- bits_in_true. destruct (bits_in d lo len); split; congruence. Qed.

Lemma wbytes_bits : forall w, Z.of_nat (wbytes w) = wbytesZ w /\ wbits w = 8 * wbytesZ w
  /\ (8 * wbytes w)%nat = Z.to_nat (wbits w) /\ 1 <= wbytesZ w <= 8.
Proof. destruct w; cbn; repeat split; lia. Qed.

(* ---------------------------------------------------------------- struct.go accessors vs bit ranges *)
Lemma s_uint_bits : forall w s o lo, strukt_ok s -> 0 <= o -> o + wbytesZ w < 2 ^ 32 -> lo = 8 * o ->
  s_uint w s o =
  Ok (if bits_in (sdata s) lo (wbits w) then bits_val (sdata s) lo (Z.to_nat (wbits w)) else 0).
Proof.
  intros w s o lo [Hb Hsz] Ho Hw ->. destruct (wbytes_bits w) as (E1 & E2 & E3 & E4).
  unfold s_uint, data_ok, dsz in *. rewrite wrap32_small by lia.
  destruct (Z.ltb_spec (Z.of_nat (length (sdata s))) (o + wbytesZ w)); cbn [negb].
  - destruct (bits_in (sdata s) (8 * o) (wbits w)) eqn:B; [|reflexivity].
    apply bits_in_true in B. lia.
  - destruct (Z.leb_spec (o + wbytesZ w) (Z.of_nat (length (sdata s)))); [|lia].
    assert (B : bits_in (sdata s) (8 * o) (wbits w) = true) by (apply bits_in_true; lia).
    rewrite B, <- E3. f_equal. apply rd_bits; [assumption|lia|lia].
Qed.

Lemma s_set_uint_bits : forall w s o lo v, strukt_ok s -> 0 <= o -> o + wbytesZ w < 2 ^ 32 -> lo = 8 * o ->
  s_set_uint w s o v =
  if bits_in (sdata s) lo (wbits w) then Ok (mkS (set_bits (sdata s) lo (wbits w) v) (sptrs s)) else Panic.
Proof.
  intros w s o lo v [Hb Hsz] Ho Hw ->. destruct (wbytes_bits w) as (E1 & E2 & E3 & E4).
  unfold s_set_uint, data_ok, dsz in *. rewrite wrap32_small by lia.
  destruct (Z.ltb_spec (Z.of_nat (length (sdata s))) (o + wbytesZ w)); cbn [negb].
  - destruct (bits_in (sdata s) (8 * o) (wbits w)) eqn:B; [|reflexivity].
    apply bits_in_true in B. lia.
  - destruct (Z.leb_spec (o + wbytesZ w) (Z.of_nat (length (sdata s)))); [|lia].
    assert (B : bits_in (sdata s) (8 * o) (wbits w) = true) by (apply bits_in_true; lia).
    rewrite B. do 2 f_equal. rewrite splice_set_bits by (assumption || lia).
    f_equal. lia.
Qed.

Lemma bits_val_1 : forall d n, bits_val d n 1 = Z.b2z (data_bit d n).
Proof. intros. cbn [bits_val]. lia. Qed.

Lemma s_bit_bits : forall s n, strukt_ok s -> 0 <= n ->
  s_bit s n = if bits_in (sdata s) n 1 then data_bit (sdata s) n else false.
Proof.
  intros s n [Hb Hsz] Hn. unfold s_bit, bit_ok, dsz in *. rewrite wrap32_small by lia.
  destruct (Z.ltb_spec n (Z.of_nat (length (sdata s)) * 8)).
  - assert (B : bits_in (sdata s) n 1 = true) by (apply bits_in_true; lia). rewrite B. reflexivity.
  - destruct (bits_in (sdata s) n 1) eqn:B; [|reflexivity]. apply bits_in_true in B. lia.
Qed.

Lemma s_set_bit_bits : forall s n v, strukt_ok s -> 0 <= n ->
  s_set_bit s n v =
  if bits_in (sdata s) n 1 then Ok (mkS (set_bits (sdata s) n 1 (Z.b2z v)) (sptrs s)) else Panic.
Proof.
  intros s n v [Hb Hsz] Hn. unfold s_set_bit, bit_ok, dsz in *. rewrite wrap32_small by lia.
  destruct (Z.ltb_spec n (Z.of_nat (length (sdata s)) * 8)).
  - assert (B : bits_in (sdata s) n 1 = true) by (apply bits_in_true; lia). rewrite B.
    do 2 f_equal. apply setbit_set_bits; [assumption|lia].
  - destruct (bits_in (sdata s) n 1) eqn:B; [|reflexivity]. apply bits_in_true in B. lia.
Qed.

Lemma set_bits_strukt_ok : forall s lo len raw, strukt_ok s ->
  strukt_ok (mkS (set_bits (sdata s) lo len raw) (sptrs s)).
Proof.
  intros s lo len raw [Hb Hsz]. split; cbn [sdata].
  - apply set_bits_ok. assumption.
  - unfold dsz in *. cbn [sdata]. rewrite set_bits_length. assumption.
Qed.

(* ---------------------------------------------------------------- arithmetic of masks and values *)
Lemma gen_int_mask_mod : forall w d, gen_int_mask w d = d mod 2 ^ wbits w.
Proof.
  intros. unfold gen_int_mask.
  assert (E : wrap64 (wrap64 (Z.shiftl 1 (wbits w)) - 1) = Z.ones (wbits w)) by (destruct w; reflexivity).
  rewrite E, Z.land_ones by (destruct w; cbn; lia). unfold wrap64.
  destruct w; cbn [wbits]; change (2 ^ 64) with 18446744073709551616;
  [change (2 ^ 8) with 256|change (2 ^ 16) with 65536|change (2 ^ 32) with 4294967296|
   change (2 ^ 64) with 18446744073709551616]; Z.div_mod_to_equations; lia.
Qed.

Lemma signed_mod : forall w v, - 2 ^ (wbits w - 1) <= v < 2 ^ (wbits w - 1) ->
  signed (wbits w) (v mod 2 ^ wbits w) = v.
Proof.
  intros w v H. unfold signed.
  destruct w; cbn [wbits] in *;
  [change (2 ^ (8 - 1)) with 128 in *; change (2 ^ 8) with 256 in *
  |change (2 ^ (16 - 1)) with 32768 in *; change (2 ^ 16) with 65536 in *
  |change (2 ^ (32 - 1)) with 2147483648 in *; change (2 ^ 32) with 4294967296 in *
  |change (2 ^ (64 - 1)) with 9223372036854775808 in *; change (2 ^ 64) with 18446744073709551616 in *];
  (match goal with |- context [?a <? ?b] => destruct (Z.ltb_spec a b) end; Z.div_mod_to_equations; lia).
Qed.

Lemma lxor_mod_pow2 : forall a b n, 0 <= n ->
  (Z.lxor (a mod 2 ^ n) (b mod 2 ^ n)) mod 2 ^ n = Z.lxor (a mod 2 ^ n) (b mod 2 ^ n).
Proof.
  intros a b n Hn. apply Z.bits_inj'. intros j Hj.
  rewrite Z.testbit_mod_pow2, !Z.lxor_spec, !Z.testbit_mod_pow2 by assumption.
  destruct (j <? n); reflexivity.
Qed.

Lemma lxor_cancel : forall a x, Z.lxor (Z.lxor a x) x = a.
Proof. intros. rewrite Z.lxor_assoc, Z.lxor_nilpotent, Z.lxor_0_r. reflexivity. Qed.

Lemma kind_bits_nonneg : forall k, 0 <= kind_bits k.
Proof. destruct k; cbn; try lia; destruct w; cbn; lia. Qed.

(* ---------------------------------------------------------------- the discriminant snippets *)
Lemma has_disc_false : forall f, has_disc f = false -> gen_tag f = None.
Proof. intros f H. unfold gen_tag. rewrite H. reflexivity. Qed.

Lemma check_tag_spec : forall f s, field_wf f -> strukt_ok s ->
  check_tag (gen_tag f) s = Ok (spec_active f s).
Proof.
  intros f s Hwf Hs. destruct Hwf as (_ & _ & _ & _ & Hd & Ho & Ho2 & _).
  unfold gen_tag, spec_active. destruct (has_disc f); cbn [negb orb check_tag]; [|reflexivity].
  unfold gen_discoff. rewrite wrap32_small by lia.
  rewrite (s_uint_bits W16 s (fd_discoff f * 2) (disc_lo f)) by (try assumption; unfold disc_lo; cbn [wbytesZ]; lia).
  cbn [bind wbits]. unfold spec_which. reflexivity.
Qed.

Lemma set_tag_spec : forall f s, field_wf f -> strukt_ok s ->
  set_tag (gen_tag f) s = spec_set_tag f s.
Proof.
  intros f s Hwf Hs. destruct Hwf as (_ & _ & _ & _ & Hd & Ho & Ho2 & _).
  unfold gen_tag, spec_set_tag. destruct (has_disc f); cbn [set_tag]; [|reflexivity].
  unfold gen_discoff. rewrite wrap32_small by lia.
  rewrite (s_set_uint_bits W16 s (fd_discoff f * 2) (disc_lo f)) by (try assumption; unfold disc_lo; cbn [wbytesZ]; lia).
  reflexivity.
Qed.

Lemma spec_set_tag_ok : forall f s s1, strukt_ok s -> spec_set_tag f s = Ok s1 ->
  strukt_ok s1 /\ length (sdata s1) = length (sdata s) /\ sptrs s1 = sptrs s.
Proof.
  intros f s s1 Hs H. unfold spec_set_tag in H. destruct (has_disc f).
  - destruct (bits_in (sdata s) (disc_lo f) 16); [|discriminate]. inversion H; subst.
    split; [apply set_bits_strukt_ok; assumption|]. cbn. rewrite set_bits_length. auto.
  - inversion H; subst. auto.
Qed.

(* ---------------------------------------------------------------- generated accessors = specification *)
Lemma gen_offset_bits : forall f w, 0 <= fd_off f -> (fd_off f + 1) * wbits w <= 2 ^ 32 - 1 ->
  gen_offset f w = fd_off f * wbytesZ w /\ 0 <= gen_offset f w /\ gen_offset f w + wbytesZ w < 2 ^ 32
  /\ fd_off f * wbits w = 8 * gen_offset f w.
Proof.
  intros f w H0 H. unfold gen_offset.
  assert (E : wrap32 (wbits w / 8) = wbytesZ w) by (destruct w; reflexivity). rewrite E.
  destruct (wbytes_bits w) as (_ & E2 & _ & E4). rewrite E2 in *.
  rewrite wrap32_small by nia. nia.
Qed.

(* the raw bits, default mask and conversion of each data kind *)
Definition data_shape (k : kind) : option (width * conv) :=
  match k with
  | KUint w => Some (w, CUint) | KInt w => Some (w, CInt) | KEnum => Some (W16, CEnum)
  | KFloat32 => Some (W32, CFloat) | KFloat64 => Some (W64, CFloat) | _ => None
  end.

Lemma gen_data_shape : forall f w c, data_shape (fd_kind f) = Some (w, c) -> field_wf f ->
  exists x, gen_accessor f = gen_uint f w x c /\ x = default_raw f /\ kind_bits (fd_kind f) = wbits w
  /\ (forall raw, conv_dec c w raw = decode (fd_kind f) raw).
Proof.
  intros f w c H Hwf. destruct Hwf as (_ & _ & _ & Hdef & _).
  unfold gen_accessor, gen_accessor_v, default_raw.
  destruct (fd_kind f) eqn:K; cbn in H; inversion H; subst; cbn [default_ok kind_bits] in *.
  - exists (gen_int_mask w (fd_default f)). repeat split. apply gen_int_mask_mod.
  - exists (fd_default f). repeat split. symmetry. apply Z.mod_small. assumption.
  - exists (fd_default f). repeat split. symmetry. apply Z.mod_small. assumption.
  - exists (fd_default f). repeat split. symmetry. apply Z.mod_small. assumption.
  - exists (fd_default f). repeat split. symmetry. apply Z.mod_small. assumption.
Qed.

Lemma field_range_data : forall f w c, data_shape (fd_kind f) = Some (w, c) ->
  field_range f = RBits (fd_off f * wbits w) (wbits w).
Proof.
  intros f w c H. unfold field_range. destruct (fd_kind f); cbn in H; inversion H; subst; reflexivity.
Qed.

Lemma not_group_data : forall f w c, data_shape (fd_kind f) = Some (w, c) -> kind_eqb_group (fd_kind f) = false.
Proof. intros f w c H. destruct (fd_kind f); cbn in H; try discriminate; reflexivity. Qed.

Theorem gen_getter_spec : forall f g s, field_wf f -> strukt_ok s ->
  a_get (gen_accessor f) = Some g -> run_getter g (fd_default f) s = spec_get f s.
Proof.
  intros f g s Hwf Hs Hg.
  pose proof (check_tag_spec f s Hwf Hs) as Hc.
  destruct (data_shape (fd_kind f)) as [[w c]|] eqn:Sh.
  - (* integer / enum / float fields *)
    destruct (gen_data_shape f w c Sh Hwf) as (x & Eg & Ex & Ekb & Edec).
    rewrite Eg in Hg. cbn in Hg. inversion Hg; subst g; clear Hg.
    unfold run_getter, spec_get. cbn [fst snd]. rewrite Hc. cbn [bind].
    rewrite (not_group_data f w c Sh).
    destruct (spec_active f s); [|reflexivity].
    rewrite (field_range_data f w c Sh). cbn [run_gbody].
    destruct Hwf as (H0 & H1 & _). rewrite Ekb in H1.
    destruct (gen_offset_bits f w H0 H1) as (_ & G1 & G2 & G3).
    rewrite (s_uint_bits w s (gen_offset f w) (fd_off f * wbits w)) by (assumption || lia).
    cbn [bind]. rewrite Edec, Ex. reflexivity.
  - (* the other kinds *)
    unfold gen_accessor, gen_accessor_v in Hg. unfold run_getter, spec_get, field_range.
    destruct Hwf as (H0 & H1 & H2 & Hdef & _).
    destruct (fd_kind f) eqn:K; cbn in Sh; try discriminate; cbn [kind_eqb_group].
    + (* void *) destruct (has_disc f); discriminate.
    + (* bool *)
      inversion Hg; subst g; clear Hg. cbn [fst snd]. rewrite Hc. cbn [bind].
      destruct (spec_active f s); [|reflexivity]. cbn [run_gbody kind_bits].
      rewrite s_bit_bits by assumption. rewrite Z.mul_1_r. change (Z.to_nat 1) with 1%nat.
      unfold default_raw, decode. rewrite K. cbn [kind_bits default_ok] in *. unfold nonzero.
      rewrite bits_val_1.
      destruct (bits_in (sdata s) (fd_off f) 1); f_equal;
      destruct Hdef as [-> | ->]; try destruct (data_bit (sdata s) (fd_off f)); reflexivity.
    + (* text *) inversion Hg; subst g; clear Hg. cbn [fst snd]. rewrite Hc. cbn [bind].
      destruct (spec_active f s); [|reflexivity]. cbn [run_gbody]. f_equal. f_equal.
      unfold nonzero. destruct (Z.eqb_spec (fd_default f) 0) as [->|]; reflexivity.
    + inversion Hg; subst g; clear Hg. cbn [fst snd]. rewrite Hc. cbn [bind].
      destruct (spec_active f s); [|reflexivity]. cbn [run_gbody]. f_equal. f_equal.
      unfold nonzero. destruct (Z.eqb_spec (fd_default f) 0) as [->|]; reflexivity.
    + inversion Hg; subst g; clear Hg. cbn [fst snd]. rewrite Hc. cbn [bind].
      destruct (spec_active f s); [|reflexivity]. cbn [run_gbody]. f_equal. f_equal.
      unfold nonzero. destruct (Z.eqb_spec (fd_default f) 0) as [->|]; reflexivity.
    + inversion Hg; subst g; clear Hg. cbn [fst snd]. rewrite Hc. cbn [bind].
      destruct (spec_active f s); [|reflexivity]. cbn [run_gbody]. f_equal. f_equal.
      unfold nonzero. destruct (Z.eqb_spec (fd_default f) 0) as [->|]; reflexivity.
    + (* interface *) inversion Hg; subst g; clear Hg. cbn [fst snd]. rewrite Hc. cbn [bind].
      destruct (spec_active f s); [|reflexivity]. cbn [run_gbody ptr_value]. reflexivity.
    + inversion Hg; subst g; clear Hg. cbn [fst snd]. rewrite Hc. cbn [bind].
      destruct (spec_active f s); [|reflexivity]. cbn [run_gbody]. f_equal. f_equal.
      unfold nonzero. destruct (Z.eqb_spec (fd_default f) 0) as [->|]; reflexivity.
    + (* group *) inversion Hg; subst g. reflexivity.
Qed.

Lemma bind_tag_eq : forall f s (k : strukt -> res strukt) (k' : strukt -> res strukt),
  field_wf f -> strukt_ok s ->
  (forall s1, strukt_ok s1 -> k s1 = k' s1) ->
  bind (set_tag (gen_tag f) s) k = bind (spec_set_tag f s) k'.
Proof.
  intros f s k k' Hwf Hs Hk. rewrite set_tag_spec by assumption.
  destruct (spec_set_tag f s) as [s1| |] eqn:E; cbn [bind]; try reflexivity.
  apply Hk. apply (spec_set_tag_ok f s s1 Hs E).
Qed.

Lemma bool_enc : forall d v, (d = 0 \/ d = 1) -> (v = 0 \/ v = 1) ->
  Z.b2z (xorb (nonzero d) (negb (v =? 0))) = Z.lxor (v mod 2 ^ 1) (d mod 2 ^ 1).
Proof. intros d v [-> | ->] [-> | ->]; reflexivity. Qed.

Theorem gen_setter_spec : forall f st v s, field_wf f -> strukt_ok s -> value_ok (fd_kind f) v ->
  a_set (gen_accessor f) = Some st -> run_setter st v s = spec_set f v s.
Proof.
  intros f st v s Hwf Hs Hv Hst.
  destruct (data_shape (fd_kind f)) as [[w c]|] eqn:Sh.
  - destruct (gen_data_shape f w c Sh Hwf) as (x & Eg & Ex & Ekb & Edec).
    rewrite Eg in Hst. cbn in Hst. inversion Hst; subst st; clear Hst.
    unfold run_setter, spec_set. cbn [fst snd]. apply bind_tag_eq; try assumption.
    intros s1 Hs1. rewrite (field_range_data f w c Sh). cbn [run_sbody].
    destruct Hwf as (H0 & H1 & _). rewrite Ekb in H1.
    destruct (gen_offset_bits f w H0 H1) as (_ & G1 & G2 & G3).
    rewrite (s_set_uint_bits w s1 (gen_offset f w) (fd_off f * wbits w)) by (assumption || lia).
    unfold conv_enc, encode. rewrite Ekb, Ex. reflexivity.
  - unfold gen_accessor, gen_accessor_v in Hst. unfold run_setter, spec_set, field_range.
    pose proof Hwf as Hwf'. destruct Hwf' as (H0 & H1 & H2 & Hdef & _).
    destruct (fd_kind f) eqn:K; cbn in Sh; try discriminate.
    + (* void *) destruct (has_disc f) eqn:D; [|discriminate].
      inversion Hst; subst st. cbn [fst snd]. apply bind_tag_eq; auto.
    + (* bool *) inversion Hst; subst st; clear Hst. cbn [fst snd]. apply bind_tag_eq; try assumption.
      intros s1 Hs1. cbn [run_sbody kind_bits]. rewrite s_set_bit_bits by assumption.
      rewrite Z.mul_1_r. unfold default_raw, encode. rewrite K. cbn [kind_bits default_ok value_ok] in *.
      rewrite bool_enc by assumption. reflexivity.
    + (* text *) inversion Hst; subst st; clear Hst. cbn [fst snd]. apply bind_tag_eq; try assumption.
      intros s1 Hs1. cbn [run_sbody ptr_token]. f_equal. unfold nonzero.
      destruct (Z.eqb_spec (fd_default f) 0); destruct (Z.eqb_spec v 0); reflexivity.
    + (* data *) inversion Hst; subst st; clear Hst. cbn [fst snd]. apply bind_tag_eq; try assumption.
      intros s1 Hs1. cbn [run_sbody ptr_token]. f_equal. unfold nonzero.
      destruct (Z.eqb_spec (fd_default f) 0); destruct (Z.eqb_spec v 0); reflexivity.
    + inversion Hst; subst st; clear Hst. cbn [fst snd]. apply bind_tag_eq; auto.
    + inversion Hst; subst st; clear Hst. cbn [fst snd]. apply bind_tag_eq; auto.
    + inversion Hst; subst st; clear Hst. cbn [fst snd]. apply bind_tag_eq; auto.
    + inversion Hst; subst st; clear Hst. cbn [fst snd]. apply bind_tag_eq; auto.
    + (* group *) destruct (has_disc f) eqn:D; [|discriminate].
      inversion Hst; subst st. cbn [fst snd]. apply bind_tag_eq; auto.
Qed.

Theorem gen_has_spec : forall f h s, field_wf f -> strukt_ok s ->
  a_has (gen_accessor f) = Some h -> run_has h s = Ok (spec_has f s).
Proof.
  intros f h s Hwf Hs Hh. pose proof (check_tag_spec f s Hwf Hs) as Hc.
  unfold gen_accessor, gen_accessor_v, gen_uint in Hh. unfold run_has, spec_has, field_range.
  destruct (fd_kind f) eqn:K; cbn in Hh; try discriminate;
  try (destruct (has_disc f); discriminate);
  inversion Hh; subst h; cbn [fst snd]; rewrite Hc; cbn [bind];
  destruct (spec_active f s); reflexivity.
Qed.

(* NewX() = setter with a freshly allocated object *)
Theorem gen_new_spec : forall f n t s, field_wf f -> strukt_ok s -> t <> 0 ->
  a_new (gen_accessor f) = Some n -> run_new n t s = spec_set f t s.
Proof.
  intros f n t s Hwf Hs Ht Hn.
  unfold gen_accessor, gen_accessor_v, gen_uint in Hn. unfold run_new, spec_set, field_range.
  destruct (fd_kind f) eqn:K; cbn in Hn; try discriminate;
  try (destruct (has_disc f); discriminate);
  inversion Hn; subst n; cbn [fst snd]; apply bind_tag_eq; auto.
Qed.

(* XBytes() of a text field = the getter *)
Theorem gen_getbytes_spec : forall f g s, field_wf f -> strukt_ok s ->
  a_getbytes (gen_accessor f) = Some g -> run_getbytes g (fd_default f) s = spec_get f s.
Proof.
  intros f g s Hwf Hs Hg. pose proof (check_tag_spec f s Hwf Hs) as Hc.
  unfold gen_accessor, gen_accessor_v, gen_uint in Hg. unfold run_getbytes, spec_get, field_range.
  destruct (fd_kind f) eqn:K; cbn in Hg; try discriminate;
  try (destruct (has_disc f); discriminate).
  inversion Hg; subst g; cbn [fst snd kind_eqb_group]. rewrite Hc. cbn [bind].
  destruct (spec_active f s); reflexivity.
Qed.

(* which accessors exist per kind *)
Theorem gen_accessor_shape : forall f,
  (a_get (gen_accessor f) = None <-> fd_kind f = KVoid) /\
  (a_set (gen_accessor f) = None <-> (fd_kind f = KVoid \/ fd_kind f = KGroup) /\ has_disc f = false) /\
  (a_has (gen_accessor f) <> None <-> is_ptr_kind (fd_kind f) = true).
Proof.
  intros f. unfold gen_accessor, gen_accessor_v, gen_uint.
  destruct (fd_kind f) eqn:K; destruct (has_disc f); cbn; repeat split; intros;
  try discriminate; try congruence; try tauto;
  try (match goal with H : _ /\ _ |- _ => destruct H as [[?|?] ?]; discriminate end);
  try (match goal with H : _ \/ _ |- _ => destruct H; discriminate end); auto.
Qed.

(* ================================================================ properties of the specification *)
Definition in_range (r : range) (i : Z) : Prop :=
  match r with RBits lo len => lo <= i < lo + len | _ => False end.
Definition in_disc (f : field_desc) (i : Z) : Prop :=
  has_disc f = true /\ disc_lo f <= i < disc_lo f + 16.

(* what a getter returns after the setter was given v: pointers with a default read back the
   default when set to null (encoding spec: a null pointer denotes the default) *)
Definition readback (f : field_desc) (v : Z) : Z :=
  match fd_kind f with
  | KStruct | KList | KAnyPtr => if v =? 0 then fd_default f else v
  | _ => v
  end.

Lemma nth_skipn_z : forall (l : list Z) k m, nth m (skipn k l) 0 = nth (k + m) l 0.
Proof.
  induction l as [|a l IH]; intros k m.
  - rewrite skipn_nil. destruct (k + m)%nat; destruct m; reflexivity.
  - destruct k; cbn [skipn plus nth]; [reflexivity|apply IH].
Qed.

Lemma s_set_ptr_inv : forall s i t s', s_set_ptr s i t = Ok s' ->
  0 <= i < pcount s /\ sdata s' = sdata s /\ length (sptrs s') = length (sptrs s)
  /\ s_ptr s' i = t
  /\ (forall j, Z.of_nat j <> i -> nth j (sptrs s') 0 = nth j (sptrs s) 0).
Proof.
  intros s i t s' H. unfold s_set_ptr in H.
  destruct (Z.leb_spec 0 i); [|discriminate]. destruct (Z.ltb_spec i (pcount s)); [|discriminate].
  cbn [andb] in H. inversion H; subst s'; clear H. unfold pcount in *.
  assert (L : length (firstn (Z.to_nat i) (sptrs s)) = Z.to_nat i) by (rewrite firstn_length; lia).
  split; [lia|]. split; [reflexivity|]. cbn [sptrs app].
  assert (L2 : length (firstn (Z.to_nat i) (sptrs s) ++ t :: skipn (Z.to_nat i + 1) (sptrs s)) = length (sptrs s)).
  { rewrite app_length, L. cbn [length]. rewrite skipn_length. lia. }
  split; [assumption|]. split.
  - unfold s_ptr, pcount. cbn [sptrs]. rewrite L2.
    destruct (Z.leb_spec 0 i); [|lia]. destruct (Z.ltb_spec i (Z.of_nat (length (sptrs s)))); [|lia].
    cbn [andb]. rewrite app_nth2 by lia. rewrite L, Nat.sub_diag. reflexivity.
  - intros j Hj. destruct (Nat.lt_ge_cases j (Z.to_nat i)) as [Lt|Ge].
    + rewrite app_nth1 by lia. rewrite <- (firstn_skipn (Z.to_nat i) (sptrs s)) at 2.
      rewrite app_nth1 by lia. reflexivity.
    + assert (j > Z.to_nat i)%nat by lia.
      rewrite app_nth2 by lia. rewrite L.
      destruct (j - Z.to_nat i)%nat as [|m] eqn:Em; [lia|]. cbn [nth].
      rewrite nth_skipn_z. f_equal. lia.
Qed.

Lemma spec_set_inv : forall f v s s', spec_set f v s = Ok s' ->
  exists s1, spec_set_tag f s = Ok s1 /\
    match field_range f with
    | RBits lo len => bits_in (sdata s1) lo len = true /\
        s' = mkS (set_bits (sdata s1) lo len (Z.lxor (encode (fd_kind f) v) (default_raw f))) (sptrs s1)
    | RPtr slot => s_set_ptr s1 slot (ptr_token (fd_kind f) (fd_default f) v) = Ok s'
    | RNone => s' = s1
    end.
Proof.
  intros f v s s' H. unfold spec_set in H. destruct (spec_set_tag f s) as [s1| |]; cbn [bind] in H; try discriminate.
  exists s1. split; [reflexivity|]. destruct (field_range f).
  - destruct (bits_in (sdata s1) lo len); [|discriminate]. inversion H. auto.
  - assumption.
  - inversion H. reflexivity.
Qed.

Lemma spec_set_tag_inv : forall f s s1, spec_set_tag f s = Ok s1 ->
  (has_disc f = false /\ s1 = s) \/
  (has_disc f = true /\ bits_in (sdata s) (disc_lo f) 16 = true /\
   s1 = mkS (set_bits (sdata s) (disc_lo f) 16 (fd_disc f)) (sptrs s)).
Proof.
  intros f s s1 H. unfold spec_set_tag in H. destruct (has_disc f).
  - right. destruct (bits_in (sdata s) (disc_lo f) 16); [|discriminate]. inversion H. auto.
  - left. inversion H. auto.
Qed.

(* the setter changes exactly field_range and the discriminant; needs no well-formedness *)
Theorem spec_set_frame : forall f v s s', strukt_ok s -> spec_set f v s = Ok s' ->
  strukt_ok s' /\ length (sdata s') = length (sdata s) /\ length (sptrs s') = length (sptrs s) /\
  (forall i, 0 <= i -> ~ in_range (field_range f) i -> ~ in_disc f i ->
     data_bit (sdata s') i = data_bit (sdata s) i) /\
  (forall j, field_range f <> RPtr (Z.of_nat j) -> nth j (sptrs s') 0 = nth j (sptrs s) 0).
Proof.
  intros f v s s' Hs H. destruct (spec_set_inv f v s s' H) as (s1 & Ht & Hf).
  destruct (spec_set_tag_ok f s s1 Hs Ht) as (Hs1 & Hl1 & Hp1).
  assert (Hd1 : forall i, 0 <= i -> ~ in_disc f i -> data_bit (sdata s1) i = data_bit (sdata s) i).
  { intros i Hi Hnd. destruct (spec_set_tag_inv f s s1 Ht) as [[_ ->]|(Hd & Hin & ->)]; [reflexivity|].
    cbn [sdata]. destruct (Z_lt_ge_dec i (8 * Z.of_nat (length (sdata s)))) as [L|G].
    - rewrite set_bits_bit by lia.
      destruct ((disc_lo f <=? i) && (i <? disc_lo f + 16)) eqn:E; [|reflexivity].
      apply andb_prop in E. destruct E as [P Q]. apply Z.leb_le in P. apply Z.ltb_lt in Q.
      exfalso. apply Hnd. split; [assumption|lia].
    - rewrite !data_bit_beyond by (try rewrite set_bits_length; lia). reflexivity. }
  destruct (field_range f) as [lo len|slot|] eqn:R.
  - destruct Hf as (Hin & ->). split; [apply set_bits_strukt_ok; assumption|]. cbn [sdata sptrs].
    rewrite set_bits_length. split; [assumption|]. split; [congruence|]. split; [|intros; congruence].
    intros i Hi Hnr Hnd. rewrite <- Hd1 by assumption.
    destruct (Z_lt_ge_dec i (8 * Z.of_nat (length (sdata s1)))) as [L|G].
    + rewrite set_bits_bit by lia.
      destruct ((lo <=? i) && (i <? lo + len)) eqn:E; [|reflexivity].
      apply andb_prop in E. destruct E as [P Q]. apply Z.leb_le in P. apply Z.ltb_lt in Q.
      exfalso. apply Hnr. cbn. lia.
    + rewrite !data_bit_beyond by (try rewrite set_bits_length; lia). reflexivity.
  - destruct (s_set_ptr_inv _ _ _ _ Hf) as (Hr & Hd & Hl & _ & Hn).
    split. { destruct Hs1 as [A B]. split; unfold dsz in *; rewrite Hd; assumption. }
    rewrite Hd. split; [assumption|]. split; [congruence|]. split.
    + intros. apply Hd1; assumption.
    + intros j Hj. rewrite Hn by congruence. rewrite Hp1. reflexivity.
  - subst s'. split; [assumption|]. split; [assumption|]. split; [congruence|]. split.
    + intros. apply Hd1; assumption.
    + intros. rewrite Hp1. reflexivity.
Qed.

Lemma bits_val_set_same_z : forall d lo len raw, 0 <= len -> 0 <= lo ->
  lo + len <= 8 * Z.of_nat (length d) ->
  bits_val (set_bits d lo len raw) lo (Z.to_nat len) = raw mod 2 ^ len.
Proof.
  intros d lo len raw Hl Hlo H. pose proof (bits_val_set_same d lo (Z.to_nat len) raw) as P.
  rewrite Z2Nat.id in P by assumption. apply P; assumption.
Qed.

Lemma disc_mod : forall f, 0 <= fd_disc f <= 65535 -> fd_disc f mod 2 ^ Z.of_nat 16 = fd_disc f.
Proof. intros. apply Z.mod_small. change (2 ^ Z.of_nat 16) with 65536. lia. Qed.

(* after the setter: the field's bit range holds encode v xor default, the discriminant holds the
   member's value *)
Theorem spec_set_exact : forall f v s s', field_wf f -> strukt_ok s -> spec_set f v s = Ok s' ->
  match field_range f with
  | RBits lo len => bits_in (sdata s') lo len = true /\
      bits_val (sdata s') lo (Z.to_nat len) = Z.lxor (encode (fd_kind f) v) (default_raw f)
  | RPtr slot => s_ptr s' slot = ptr_token (fd_kind f) (fd_default f) v
  | RNone => True
  end /\ spec_active f s' = true.
Proof.
  intros f v s s' Hwf Hs H. destruct (spec_set_inv f v s s' H) as (s1 & Ht & Hf).
  destruct (spec_set_tag_ok f s s1 Hs Ht) as (Hs1 & Hl1 & Hp1).
  destruct Hwf as (H0 & H1 & H2 & Hdef & Hdr & Ho & Ho2 & Hdis).
  assert (Ha1 : spec_active f s1 = true).
  { unfold spec_active. destruct (spec_set_tag_inv f s s1 Ht) as [[-> _]|(Hd & Hin & ->)]; [reflexivity|].
    rewrite Hd. cbn [negb orb]. unfold spec_which. cbn [sdata].
    assert (B : bits_in (set_bits (sdata s) (disc_lo f) 16 (fd_disc f)) (disc_lo f) 16 = true).
    { apply bits_in_true. rewrite set_bits_length. apply bits_in_true. assumption. }
    rewrite B. apply bits_in_true in Hin.
    rewrite (bits_val_set_same (sdata s) (disc_lo f) 16) by (change (Z.of_nat 16) with 16; lia).
    rewrite disc_mod by assumption. apply Z.eqb_refl. }
  pose proof (kind_bits_nonneg (fd_kind f)) as Hkb.
  destruct (field_range f) as [lo len|slot|] eqn:R.
  - destruct Hf as (Hin & ->). cbn [sdata].
    assert (Hlen : len = kind_bits (fd_kind f) /\ lo = fd_off f * kind_bits (fd_kind f)).
    { unfold field_range in R. destruct (fd_kind f); inversion R; auto. }
    destruct Hlen as [-> ->]. apply bits_in_true in Hin.
    split; [split|].
    + apply bits_in_true. rewrite set_bits_length. assumption.
    + rewrite bits_val_set_same_z by lia.
      unfold encode, default_raw. apply lxor_mod_pow2. assumption.
    + unfold spec_active in *. destruct (has_disc f) eqn:D; [|reflexivity]. cbn [negb orb] in *.
      unfold spec_which in *. cbn [sdata].
      assert (B1 : bits_in (sdata s1) (disc_lo f) 16 = true).
      { destruct (spec_set_tag_inv f s s1 Ht) as [[? _]|(_ & Hin' & ->)]; [congruence|].
        apply bits_in_true. cbn [sdata]. rewrite set_bits_length. apply bits_in_true. assumption. }
      rewrite B1 in Ha1.
      assert (B : bits_in (set_bits (sdata s1) (fd_off f * kind_bits (fd_kind f)) (kind_bits (fd_kind f))
                   (Z.lxor (encode (fd_kind f) v) (default_raw f))) (disc_lo f) 16 = true).
      { apply bits_in_true. rewrite set_bits_length. apply bits_in_true. assumption. }
      rewrite B. apply bits_in_true in B1.
      rewrite bits_val_set_other; [assumption|lia|change (Z.of_nat 16) with 16; lia|].
      specialize (Hdis eq_refl). unfold ranges_disjoint in Hdis. rewrite R in Hdis. change (Z.of_nat 16) with 16. lia.
  - destruct (s_set_ptr_inv _ _ _ _ Hf) as (Hr & Hd & Hl & Hp & Hn). split; [assumption|].
    unfold spec_active, spec_which in *. rewrite Hd. assumption.
  - subst s'. split; [trivial|assumption].
Qed.

Lemma decode_encode : forall f v lo len, field_range f = RBits lo len -> value_ok (fd_kind f) v ->
  decode (fd_kind f) (Z.lxor (Z.lxor (encode (fd_kind f) v) (default_raw f)) (default_raw f)) = v.
Proof.
  intros f v lo len R Hv. rewrite lxor_cancel. unfold decode, encode, field_range in *.
  destruct (fd_kind f); try discriminate; cbn [kind_bits value_ok] in *.
  - destruct Hv as [-> | ->]; reflexivity.
  - apply signed_mod; assumption.
  - apply Z.mod_small; assumption.
  - apply Z.mod_small; assumption.
  - apply Z.mod_small; assumption.
  - apply Z.mod_small; assumption.
Qed.

Lemma ptr_readback : forall f v, is_ptr_kind (fd_kind f) = true -> default_ok (fd_kind f) (fd_default f) ->
  0 <= v ->
  ptr_value (fd_kind f) (fd_default f) (ptr_token (fd_kind f) (fd_default f) v) = readback f v.
Proof.
  intros f v Hp Hd Hv. unfold ptr_value, ptr_token, readback, obj.
  destruct (fd_kind f); try discriminate; cbn [default_ok] in *; try reflexivity.
  - destruct (Z.eqb_spec v 0) as [->|]; destruct (Z.eqb_spec (fd_default f) 0) as [E|]; cbn [andb].
    + rewrite Z.eqb_refl. auto.
    + destruct (Z.eqb_spec (0 + 1) 0); [lia|]. lia.
    + destruct (Z.eqb_spec (v + 1) 0); lia.
    + destruct (Z.eqb_spec (v + 1) 0); lia.
  - destruct (Z.eqb_spec v 0) as [->|]; destruct (Z.eqb_spec (fd_default f) 0) as [E|]; cbn [andb].
    + rewrite Z.eqb_refl. auto.
    + destruct (Z.eqb_spec (0 + 1) 0); [lia|]. lia.
    + destruct (Z.eqb_spec (v + 1) 0); lia.
    + destruct (Z.eqb_spec (v + 1) 0); lia.
Qed.

(* getter (setter v s) = v *)
Theorem spec_roundtrip : forall f v s s', field_wf f -> strukt_ok s -> value_ok (fd_kind f) v ->
  spec_set f v s = Ok s' -> spec_get f s' = Ok (readback f v).
Proof.
  intros f v s s' Hwf Hs Hv H. destruct (spec_set_exact f v s s' Hwf Hs H) as (Hx & Ha).
  unfold spec_get. rewrite Ha. destruct Hwf as (_ & _ & _ & Hdef & _).
  destruct (field_range f) as [lo len|slot|] eqn:R.
  - assert (G : kind_eqb_group (fd_kind f) = false).
    { unfold field_range in R. destruct (fd_kind f); try discriminate; reflexivity. }
    rewrite G. destruct Hx as (Hin & Hb). rewrite Hin, Hb. rewrite (decode_encode f v lo len R Hv).
    unfold readback. unfold field_range in R. destruct (fd_kind f); try discriminate; reflexivity.
  - assert (G : kind_eqb_group (fd_kind f) = false /\ is_ptr_kind (fd_kind f) = true).
    { unfold field_range in R. destruct (fd_kind f); try discriminate; split; reflexivity. }
    destruct G as [G P]. rewrite G, Hx. rewrite ptr_readback; try assumption; [reflexivity|].
    destruct (fd_kind f); try discriminate; exact Hv.
  - unfold readback. unfold field_range in R.
    destruct (fd_kind f); try discriminate; cbn [kind_eqb_group value_ok] in *; subst v; reflexivity.
Qed.

(* the field reads as its default when its bits are zero / outside the struct *)
Definition field_zero (f : field_desc) (s : strukt) : Prop :=
  match field_range f with
  | RBits lo len => bits_in (sdata s) lo len = false \/ bits_val (sdata s) lo (Z.to_nat len) = 0
  | RPtr slot => s_ptr s slot = 0
  | RNone => True
  end.

Lemma decode_default : forall f lo len, field_range f = RBits lo len ->
  default_ok (fd_kind f) (fd_default f) -> decode (fd_kind f) (default_raw f) = fd_default f.
Proof.
  intros f lo len R Hd. unfold decode, default_raw, field_range in *.
  destruct (fd_kind f); try discriminate; cbn [kind_bits default_ok] in *.
  - destruct Hd as [-> | ->]; reflexivity.
  - apply signed_mod; assumption.
  - apply Z.mod_small; assumption.
  - apply Z.mod_small; assumption.
  - apply Z.mod_small; assumption.
  - apply Z.mod_small; assumption.
Qed.

Theorem spec_get_default : forall f s, field_wf f -> field_zero f s -> spec_active f s = true ->
  spec_get f s = Ok (fd_default f).
Proof.
  intros f s Hwf Hz Ha. unfold spec_get. rewrite Ha.
  destruct Hwf as (_ & _ & _ & Hdef & _). unfold field_zero in Hz.
  destruct (field_range f) as [lo len|slot|] eqn:R.
  - assert (G : kind_eqb_group (fd_kind f) = false).
    { unfold field_range in R. destruct (fd_kind f); try discriminate; reflexivity. }
    rewrite G.
    assert (Z0 : (if bits_in (sdata s) lo len then bits_val (sdata s) lo (Z.to_nat len) else 0) = 0).
    { destruct (bits_in (sdata s) lo len); [destruct Hz; [discriminate|assumption]|reflexivity]. }
    rewrite Z0, Z.lxor_0_l. f_equal. apply (decode_default f lo len R Hdef).
  - rewrite Hz. unfold field_range in R.
    destruct (fd_kind f); try discriminate; cbn [kind_eqb_group ptr_value default_ok] in *;
    rewrite ?Z.eqb_refl; try reflexivity. rewrite Hdef. reflexivity.
  - unfold field_range in R.
    destruct (fd_kind f); try discriminate; cbn [kind_eqb_group default_ok] in *; rewrite Hdef; reflexivity.
Qed.

Lemma bits_val_zeros : forall n m lo, bits_val (repeat 0 m) lo n = 0.
Proof.
  induction n as [|n IH]; intros m lo; cbn [bits_val]; [reflexivity|]. rewrite IH.
  assert (E : data_bit (repeat 0 m) lo = false).
  { unfold data_bit. set (k := Z.to_nat (lo / 8)).
    assert (N : nth k (repeat 0 m) 0 = 0).
    { apply nth_repeat. }
    rewrite N. apply Z.bits_0. }
  rewrite E. reflexivity.
Qed.

Lemma zero_struct_ok : forall n m, Z.of_nat n * 8 < 2 ^ 32 -> strukt_ok (mkS (repeat 0 n) (repeat 0 m)).
Proof.
  intros n m H. split; cbn [sdata].
  - apply Forall_forall. intros x Hx. apply repeat_spec in Hx. subst. unfold byte_ok. lia.
  - unfold dsz. cbn [sdata]. rewrite repeat_length. assumption.
Qed.

Lemma zero_struct_field_zero : forall f n m, field_zero f (mkS (repeat 0 n) (repeat 0 m)).
Proof.
  intros. unfold field_zero. destruct (field_range f).
  - right. apply bits_val_zeros.
  - unfold s_ptr. cbn [sptrs]. destruct ((0 <=? slot) && (slot <? pcount _)); [|reflexivity].
    set (k := Z.to_nat slot).
    apply nth_repeat.
  - trivial.
Qed.

(* union members *)
Theorem spec_get_inactive : forall f s, fd_kind f <> KGroup -> spec_active f s = false -> spec_get f s = Panic.
Proof.
  intros f s Hg Ha. unfold spec_get. rewrite Ha. destruct (fd_kind f); try reflexivity. congruence.
Qed.

Theorem spec_has_inactive : forall f s, spec_active f s = false -> spec_has f s = false.
Proof. intros f s Ha. unfold spec_has. rewrite Ha. destruct (field_range f); reflexivity. Qed.

Theorem spec_active_which : forall f s,
  spec_active f s = true <-> (has_disc f = false \/ spec_which f s = fd_disc f).
Proof.
  intros. unfold spec_active. destruct (has_disc f); cbn [negb orb].
  - rewrite Z.eqb_eq. split; [auto|intros [?|?]; [discriminate|assumption]].
  - split; auto.
Qed.

(* when the setter succeeds: exactly when the discriminant and the field lie inside the runtime
   struct (otherwise Go panics "set field outside struct boundaries") *)
Theorem spec_set_ok_iff : forall f v s, strukt_ok s ->
  (exists s', spec_set f v s = Ok s') <->
  ((has_disc f = true -> bits_in (sdata s) (disc_lo f) 16 = true) /\
   match field_range f with
   | RBits lo len => bits_in (sdata s) lo len = true
   | RPtr slot => 0 <= slot < pcount s
   | RNone => True
   end).
Proof.
  intros f v s Hs. unfold spec_set, spec_set_tag. destruct (has_disc f).
  - destruct (bits_in (sdata s) (disc_lo f) 16) eqn:B; cbn [bind].
    + destruct (field_range f) as [lo len|slot|]; cbn [sdata sptrs].
      * unfold bits_in. rewrite set_bits_length. fold (bits_in (sdata s) lo len).
        destruct (bits_in (sdata s) lo len); split.
        -- intros _. auto.
        -- intros _. eexists. reflexivity.
        -- intros [? ?]. discriminate.
        -- intros [_ ?]. discriminate.
      * unfold s_set_ptr, pcount. cbn [sptrs].
        destruct (Z.leb_spec 0 slot); destruct (Z.ltb_spec slot (Z.of_nat (length (sptrs s)))); cbn [andb]; split;
        try (intros [? ?]; discriminate); try (intros [_ ?]; lia); try (intros _; split; [auto|lia]);
        try (intros _; eexists; reflexivity).
      * split; [auto|intros _; eexists; reflexivity].
    + split; [intros [? ?]; discriminate|intros [H _]; specialize (H eq_refl); discriminate].
  - cbn [bind]. destruct (field_range f) as [lo len|slot|].
    + destruct (bits_in (sdata s) lo len); split.
      * intros _. split; [intros; discriminate|reflexivity].
      * intros _. eexists. reflexivity.
      * intros [? ?]. discriminate.
      * intros [_ ?]. discriminate.
    + unfold s_set_ptr, pcount.
      destruct (Z.leb_spec 0 slot); destruct (Z.ltb_spec slot (Z.of_nat (length (sptrs s)))); cbn [andb]; split;
      try (intros [? ?]; discriminate); try (intros [_ ?]; lia);
      try (intros _; split; [intros; discriminate|lia]); try (intros _; eexists; reflexivity).
    + split; [intros _; split; [intros; discriminate|trivial]|intros _; eexists; reflexivity].
Qed.

(* sizes *)
Theorem gen_node_size : forall n, nd_isgroup n = false ->
  0 <= nd_dwc n < 65536 -> 0 <= nd_pc n < 65536 ->
  ni_new (gen_node n) = Some (8 * nd_dwc n, nd_pc n) /\
  ni_newroot (gen_node n) = Some (8 * nd_dwc n, nd_pc n) /\
  ni_list (gen_node n) = Some (8 * nd_dwc n, nd_pc n) /\
  ni_typeid (gen_node n) = Some (nd_id n) /\
  (* the whole legal range, without reduction modulo 2^16: 8192 words and more give >= 65536 bytes *)
  0 <= 8 * nd_dwc n <= 524280 /\ (8192 <= nd_dwc n -> 65536 <= fst (gen_objsize n)).
Proof.
  intros n H Hd Hp. unfold gen_node, gen_objsize. rewrite H. cbn [ni_new ni_newroot ni_list ni_typeid fst].
  rewrite Z.mul_comm. repeat split; try reflexivity; lia.
Qed.

(* a field the schema places inside the node's sections can be set on a struct allocated with the
   generated size *)
Definition fits (f : field_desc) (n : node_desc) : Prop :=
  (has_disc f = true -> 0 <= disc_lo f /\ disc_lo f + 16 <= 64 * nd_dwc n) /\
  match field_range f with
  | RBits lo len => 0 <= lo /\ lo + len <= 64 * nd_dwc n
  | RPtr slot => 0 <= slot < nd_pc n
  | RNone => True
  end.

Theorem new_struct_fits : forall f n v, 0 <= nd_dwc n < 65536 -> 0 <= nd_pc n -> fits f n ->
  strukt_ok (new_struct n) /\ exists s', spec_set f v (new_struct n) = Ok s'.
Proof.
  intros f n v Hd Hp [F1 F2].
  assert (Hs : strukt_ok (new_struct n)).
  { unfold new_struct. apply zero_struct_ok. unfold gen_objsize. cbn [fst]. rewrite Z2Nat.id by lia.
    change (2 ^ 32) with 4294967296. lia. }
  split; [assumption|]. apply spec_set_ok_iff; [assumption|].
  unfold new_struct, gen_objsize, pcount. cbn [fst snd sdata sptrs]. split.
  - intros D. apply bits_in_true. rewrite repeat_length, Z2Nat.id by lia. specialize (F1 D). lia.
  - destruct (field_range f).
    + apply bits_in_true. rewrite repeat_length, Z2Nat.id by lia. lia.
    + rewrite repeat_length, Z2Nat.id by lia. assumption.
    + trivial.
Qed.
