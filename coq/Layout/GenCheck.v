(* C15, per-run obligations: every accessor / constructor that genir extracted from the Go code
   emitted by the CURRENT capnpc-go equals what the generator model computes from the schema's
   field / node descriptor, and every corpus descriptor is well formed.  Closed by vm_compute
   (kernel-checked); with the soundness lemmas of LayoutMain this transports the universally
   quantified theorems about gen_accessor to the emitted code. *)
From CV Require Import Layout.Layout.
From CV Require Import Layout.BytesProofs.
From CV Require Import Layout.LayoutProofs.
From CV Require Import Layout.LayoutMain.
From CV Require Import Gen.GenAccessors.
Open Scope Z_scope.

Lemma generated_fields_match : fields_match fields = true.
Proof. vm_compute. reflexivity. Qed.

Lemma generated_fields_wf : fields_wf fields = true.
Proof. vm_compute. reflexivity. Qed.

Lemma generated_nodes_match : nodes_match nodes = true.
Proof. vm_compute. reflexivity. Qed.

Lemma generated_typerefs_match : typerefs_match typerefs = true.
Proof. vm_compute. reflexivity. Qed.

Theorem emitted_typerefs : forall t ids x, In (t, ids) typerefs -> In x ids -> x = t.
Proof. intros t ids x. exact (typerefs_match_sound typerefs t ids x generated_typerefs_match). Qed.

Lemma generated_defrefs_match : defrefs_match defrefs = true.
Proof. vm_compute. reflexivity. Qed.

Theorem emitted_defrefs : forall k want got, In (k, (want, got)) defrefs -> got = want.
Proof. intros k want got. exact (defrefs_match_sound defrefs k want got generated_defrefs_match). Qed.

(* the emitted accessors of every corpus field: round trip, frame, default, union *)
Theorem emitted_roundtrip : forall f ir g st v s s', In (f, ir) fields ->
  strukt_ok s -> value_ok (fd_kind f) v -> a_get ir = Some g -> a_set ir = Some st ->
  run_setter st v s = Ok s' -> run_getter g (fd_default f) s' = Ok (readback f v).
Proof.
  intros f ir g st v s s' Hin Hs Hv Hg Hst H.
  pose proof (fields_match_sound _ _ _ generated_fields_match Hin) as E. subst ir.
  apply (gen_roundtrip f g st v s s' (fields_wf_sound _ _ _ generated_fields_wf Hin) Hs Hv Hg Hst H).
Qed.

Theorem emitted_setter_frame : forall f ir st v s s', In (f, ir) fields ->
  strukt_ok s -> value_ok (fd_kind f) v -> a_set ir = Some st -> run_setter st v s = Ok s' ->
  strukt_ok s' /\ length (sdata s') = length (sdata s) /\ length (sptrs s') = length (sptrs s) /\
  (forall i, 0 <= i -> ~ in_range (field_range f) i -> ~ in_disc f i ->
     data_bit (sdata s') i = data_bit (sdata s) i) /\
  (forall j, field_range f <> RPtr (Z.of_nat j) -> nth j (sptrs s') 0 = nth j (sptrs s) 0).
Proof.
  intros f ir st v s s' Hin Hs Hv Hst H.
  pose proof (fields_match_sound _ _ _ generated_fields_match Hin) as E. subst ir.
  apply (gen_setter_frame f st v s s' (fields_wf_sound _ _ _ generated_fields_wf Hin) Hs Hv Hst H).
Qed.

Theorem emitted_getter_spec : forall f ir g s, In (f, ir) fields -> strukt_ok s ->
  a_get ir = Some g -> run_getter g (fd_default f) s = spec_get f s.
Proof.
  intros f ir g s Hin Hs Hg.
  pose proof (fields_match_sound _ _ _ generated_fields_match Hin) as E. subst ir.
  apply (gen_getter_spec f g s (fields_wf_sound _ _ _ generated_fields_wf Hin) Hs Hg).
Qed.

(* boolean range check of the corpus nodes (uint16 counts) *)
Definition node_okb (n : node_desc) : bool :=
  (0 <=? nd_dwc n) && (nd_dwc n <? 65536) && (0 <=? nd_pc n) && (nd_pc n <? 65536).

Lemma generated_nodes_ok : forallb (fun p => node_okb (fst p)) nodes = true.
Proof. vm_compute. reflexivity. Qed.

Theorem emitted_sizes : forall n ir, In (n, ir) nodes -> nd_isgroup n = false ->
  ni_new ir = Some (8 * nd_dwc n, nd_pc n) /\ ni_newroot ir = Some (8 * nd_dwc n, nd_pc n) /\
  ni_list ir = Some (8 * nd_dwc n, nd_pc n) /\ ni_typeid ir = Some (nd_id n).
Proof.
  intros n ir Hin Hg. pose proof (nodes_match_sound _ _ _ generated_nodes_match Hin) as E. subst ir.
  pose proof generated_nodes_ok as K. rewrite forallb_forall in K. specialize (K _ Hin). cbn [fst] in K.
  unfold node_okb in K. rewrite !andb_true_iff, !Z.leb_le, !Z.ltb_lt in K.
  destruct (gen_sizes n Hg) as (A & B & C & D & _); [lia|lia|]. auto.
Qed.

(* the corpus contains structs beyond the uint16 byte range (>= 8192 words) *)
Example corpus_has_wide_structs :
  existsb (fun p => (8192 <=? nd_dwc (fst p)) && negb (nd_isgroup (fst p))) nodes = true.
Proof. vm_compute. reflexivity. Qed.

Example corpus_nonempty : (100 <=? length fields)%nat = true /\ (20 <=? length nodes)%nat = true.
Proof. vm_compute. auto. Qed.
