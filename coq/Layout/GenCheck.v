(* C15, per-run obligations: every accessor / constructor that genir extracted from the Go code
   emitted by the CURRENT capnpc-go equals what the generator model computes from the schema's
   field / node descriptor, and every corpus descriptor is well formed.  Closed by vm_compute
   (kernel-checked); with the soundness lemmas of LayoutMain this transports the universally
   quantified theorems about gen_accessor to the emitted code. *)
From CV Require Import Layout.Layout.
From CV Require Import Layout.BytesProofs.
From CV Require Import Layout.LayoutProofs.
From CV Require Import Layout.LayoutMain.
From CV Require Import Gen.GenAccessors.
Open Scope Z_scope.

Lemma generated_fields_match : fields_match fields = true.
Proof. vm_compute. reflexivity. Qed.

Lemma generated_fields_wf : fields_wf fields = true.
Proof. vm_compute. reflexivity. Qed.

Lemma generated_nodes_match : nodes_match nodes = true.
Proof. vm_compute. reflexivity. Qed.

(* the emitted accessors of every corpus field: round trip, frame, default, union *)
Theorem emitted_roundtrip : forall f ir g st v s s', In (f, ir) fields ->
  strukt_ok s -> value_ok (fd_kind f) v -> a_get ir = Some g -> a_set ir = Some st ->
  run_setter st v s = Ok s' -> run_getter g (fd_default f) s' = Ok (readback f v).
Proof.
  intros f ir g st v s s' Hin Hs Hv Hg Hst H.
  pose proof (fields_match_sound _ _ _ generated_fields_match Hin) as E. subst ir.
  apply (gen_roundtrip f g st v s s' (fields_wf_sound _ _ _ generated_fields_wf Hin) Hs Hv Hg Hst H).
Qed.

Theorem emitted_setter_frame : forall f ir st v s s', In (f, ir) fields ->
  strukt_ok s -> value_ok (fd_kind f) v -> a_set ir = Some st -> run_setter st v s = Ok s' ->
  strukt_ok s' /\ length (sdata s') = length (sdata s) /\ length (sptrs s') = length (sptrs s) /\
  (forall i, 0 <= i -> ~ in_range (field_range f) i -> ~ in_disc f i ->
     data_bit (sdata s') i = data_bit (sdata s) i) /\
  (forall j, field_range f <> RPtr (Z.of_nat j) -> nth j (sptrs s') 0 = nth j (sptrs s) 0).
Proof.
  intros f ir st v s s' Hin Hs Hv Hst H.
  pose proof (fields_match_sound _ _ _ generated_fields_match Hin) as E. subst ir.
  apply (gen_setter_frame f st v s s' (fields_wf_sound _ _ _ generated_fields_wf Hin) Hs Hv Hst H).
Qed.

Theorem emitted_getter_spec : forall f ir g s, In (f, ir) fields -> strukt_ok s ->
  a_get ir = Some g -> run_getter g (fd_default f) s = spec_get f s.
Proof.
  intros f ir g s Hin Hs Hg.
  pose proof (fields_match_sound _ _ _ generated_fields_match Hin) as E. subst ir.
  apply (gen_getter_spec f g s (fields_wf_sound _ _ _ generated_fields_wf Hin) Hs Hg).
Qed.

Theorem emitted_sizes : forall n ir, In (n, ir) nodes -> nd_isgroup n = false ->
  ni_new ir = Some (8 * nd_dwc n, nd_pc n) /\ ni_newroot ir = Some (8 * nd_dwc n, nd_pc n) /\
  ni_list ir = Some (8 * nd_dwc n, nd_pc n) /\ ni_typeid ir = Some (nd_id n).
Proof.
  intros n ir Hin Hg. pose proof (nodes_match_sound _ _ _ generated_nodes_match Hin) as E. subst ir.
  apply gen_sizes. assumption.
Qed.

Example corpus_nonempty : (100 <=? length fields)%nat = true /\ (20 <=? length nodes)%nat = true.
Proof. vm_compute. auto. Qed.
