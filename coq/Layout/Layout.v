(* C15 -- generated accessors implement the layout the schema declares.

   (a) struct model: data section = byte list, pointer section = list of slot tokens, with the
       semantics of struct.go's Uint8..64 / SetUint8..64 / Bit / SetBit / Ptr / HasPtr / SetPtr;
   (b) [field_desc]: what a schema Field (slot or group) says;
   (c) [field_range]: the bit range / pointer slot the schema assigns (encoding spec), and a
       specification-level getter/setter [spec_get]/[spec_set] defined on BIT RANGES only;
   (d) accessor IR (what an emitted accessor body does) and its semantics over the struct model;
   (e) [gen_accessor]: what capnpc-go computes (templateparams.go Offset(), defineField default
       masks, templates _settag/_checktag/_hasfield and struct*Field).
   No proofs in this file (it must extract when a proof breaks). *)
From Coq Require Export List ZArith Bool Lia.
Export ListNotations.
Open Scope Z_scope.

(* ------------------------------------------------------------------ results *)
(* [Panic]: Go panics ("capnp: set field outside struct boundaries", "Which() != x").
   [Escape]: the uint32 sum in Struct.dataAddress wrapped, the bounds check passed and the access
   lands outside the struct (struct.go:202 Size(off)+sz).  Excluded for well-formed fields. *)
Inductive res (A : Type) : Type :=
| Ok (a : A)
| Panic
| Escape.
Arguments Ok {A} a.
Arguments Panic {A}.
Arguments Escape {A}.

Definition bind {A B} (r : res A) (f : A -> res B) : res B :=
  match r with Ok a => f a | Panic => Panic | Escape => Escape end.

(* ------------------------------------------------------------------ (a) struct model *)
(* pointer slots hold tokens: 0 = null pointer, t > 0 = some object *)
Record strukt := mkS { sdata : list Z; sptrs : list Z }.

Definition byte_ok (b : Z) : Prop := 0 <= b < 256.
Definition bytes_ok (l : list Z) : Prop := Forall byte_ok l.
Definition dsz (s : strukt) : Z := Z.of_nat (length (sdata s)).
Definition pcount (s : strukt) : Z := Z.of_nat (length (sptrs s)).
(* DataSize is a uint32 byte count; real structs have at most 65535 words *)
Definition strukt_ok (s : strukt) : Prop := bytes_ok (sdata s) /\ dsz s * 8 < 2 ^ 32.

Definition wrap32 (z : Z) : Z := z mod 2 ^ 32.
Definition wrap64 (z : Z) : Z := z mod 2 ^ 64.

Inductive width := W8 | W16 | W32 | W64.
Definition wbytes (w : width) : nat := match w with W8 => 1 | W16 => 2 | W32 => 4 | W64 => 8 end%nat.
Definition wbytesZ (w : width) : Z := match w with W8 => 1 | W16 => 2 | W32 => 4 | W64 => 8 end.
Definition wbits (w : width) : Z := match w with W8 => 8 | W16 => 16 | W32 => 32 | W64 => 64 end.

(* little endian *)
Fixpoint le_dec (l : list Z) : Z :=
  match l with [] => 0 | b :: r => b + 256 * le_dec r end.
Fixpoint le_enc (n : nat) (v : Z) : list Z :=
  match n with O => [] | S k => v mod 256 :: le_enc k (v / 256) end.
Definition slice (d : list Z) (off : Z) (n : nat) : list Z := firstn n (skipn (Z.to_nat off) d).
Definition splice (d : list Z) (off : Z) (bs : list Z) : list Z :=
  firstn (Z.to_nat off) d ++ bs ++ skipn (Z.to_nat off + length bs) d.

(* Struct.dataAddress: p.seg == nil || Size(off)+sz > p.size.DataSize -> not ok   (uint32 sum) *)
Definition data_ok (s : strukt) (off sz : Z) : bool := negb (dsz s <? wrap32 (off + sz)).

(* Struct.UintN(off) *)
Definition s_uint (w : width) (s : strukt) (off : Z) : res Z :=
  if data_ok s off (wbytesZ w) then
    if off + wbytesZ w <=? dsz s then Ok (le_dec (slice (sdata s) off (wbytes w))) else Escape
  else Ok 0.

(* Struct.SetUintN(off, v) ; v already reduced to the width *)
Definition s_set_uint (w : width) (s : strukt) (off v : Z) : res strukt :=
  if data_ok s off (wbytesZ w) then
    if off + wbytesZ w <=? dsz s
    then Ok (mkS (splice (sdata s) off (le_enc (wbytes w) v)) (sptrs s)) else Escape
  else Panic.

(* Struct.bitInData: bit < BitOffset(DataSize*8) *)
Definition bit_ok (s : strukt) (n : Z) : bool := n <? wrap32 (dsz s * 8).

(* Struct.Bit(n): readUint8(off + n/8) & (1 << (n%8)) != 0 *)
Definition s_bit (s : strukt) (n : Z) : bool :=
  if bit_ok s n then Z.testbit (nth (Z.to_nat (n / 8)) (sdata s) 0) (n mod 8) else false.

(* Struct.SetBit(n, v): b |= mask / b &^= mask *)
Definition s_set_bit (s : strukt) (n : Z) (v : bool) : res strukt :=
  if bit_ok s n then
    let b := nth (Z.to_nat (n / 8)) (sdata s) 0 in
    let m := 2 ^ (n mod 8) in
    let b' := if v then Z.lor b m else Z.ldiff b m in
    Ok (mkS (splice (sdata s) (n / 8) [b']) (sptrs s))
  else Panic.

(* Struct.Ptr(i) / HasPtr(i): null beyond the pointer section *)
Definition s_ptr (s : strukt) (i : Z) : Z :=
  if (0 <=? i) && (i <? pcount s) then nth (Z.to_nat i) (sptrs s) 0 else 0.
Definition s_has_ptr (s : strukt) (i : Z) : bool := negb (s_ptr s i =? 0).
(* Struct.SetPtr(i, p): panics outside the pointer section *)
Definition s_set_ptr (s : strukt) (i : Z) (t : Z) : res strukt :=
  if (0 <=? i) && (i <? pcount s)
  then Ok (mkS (sdata s) (firstn (Z.to_nat i) (sptrs s) ++ [t] ++ skipn (Z.to_nat i + 1) (sptrs s)))
  else Panic.

(* ------------------------------------------------------------------ (b) field descriptors *)
Inductive kind :=
| KVoid | KBool
| KInt (w : width) | KUint (w : width)
| KFloat32 | KFloat64            (* values are the raw IEEE bits *)
| KEnum
| KText | KData | KList | KStruct | KInterface | KAnyPtr
| KGroup.

(* what schema.capnp's Field says (slot: offset in units of the field's size, type, default
   value; group: nothing but the discriminant), plus the containing node's discriminantOffset.
   fd_default: bool 0/1; intN: the signed value; uintN/enum: the value; floats: raw bits;
   text/data: content id of the default (0 = empty default); struct/list/anyPointer: token of the
   default object (0 = null default). fd_disc = 65535 (Field.noDiscriminant): not in a union. *)
Record field_desc := mkF {
  fd_kind : kind;
  fd_off : Z;
  fd_default : Z;
  fd_disc : Z;
  fd_discoff : Z;   (* in 16-bit units *)
}.

Definition has_disc (f : field_desc) : bool := negb (fd_disc f =? 65535).

Definition is_ptr_kind (k : kind) : bool :=
  match k with KText | KData | KList | KStruct | KInterface | KAnyPtr => true | _ => false end.

(* size in bits of a data-section field *)
Definition kind_bits (k : kind) : Z :=
  match k with
  | KBool => 1
  | KInt w | KUint w => wbits w
  | KFloat32 => 32 | KFloat64 => 64
  | KEnum => 16
  | _ => 0
  end.

(* ------------------------------------------------------------------ (c) the schema's layout *)
(* encoding spec: "offset, in units of the field's size, from the beginning of the section in
   which the field resides"; the data section is a little-endian bit string: bit i is bit i mod 8
   of byte i / 8. *)
Inductive range := RBits (lo len : Z) | RPtr (slot : Z) | RNone.

Definition field_range (f : field_desc) : range :=
  match fd_kind f with
  | KVoid | KGroup => RNone
  | KText | KData | KList | KStruct | KInterface | KAnyPtr => RPtr (fd_off f)
  | k => RBits (fd_off f * kind_bits k) (kind_bits k)
  end.

(* the union discriminant: 16 bits at discriminantOffset * 16 *)
Definition disc_lo (f : field_desc) : Z := fd_discoff f * 16.

Definition data_bit (d : list Z) (i : Z) : bool :=
  Z.testbit (nth (Z.to_nat (i / 8)) d 0) (i mod 8).


(* value of the bit range [lo, lo+n) *)
Fixpoint bits_val (d : list Z) (lo : Z) (n : nat) : Z :=
  match n with O => 0 | S k => Z.b2z (data_bit d lo) + 2 * bits_val d (lo + 1) k end.

Definition byte_from (f : Z -> bool) : Z :=
  Z.b2z (f 0) + 2 * Z.b2z (f 1) + 4 * Z.b2z (f 2) + 8 * Z.b2z (f 3) + 16 * Z.b2z (f 4) + 32 * Z.b2z (f 5)
  + 64 * Z.b2z (f 6) + 128 * Z.b2z (f 7).

(* the data section with the bit range [lo, lo+len) replaced by the low bits of raw and every
   other bit kept (k: index of the current byte; bytes wholly outside the range are kept as they
   are, which also keeps the extracted model linear on 512 KiB structs) *)
Fixpoint set_bits_go (k : Z) (d : list Z) (lo len raw : Z) : list Z :=
  match d with
  | [] => []
  | b :: r =>
    (if (8 * k + 8 <=? lo) || (lo + len <=? 8 * k) then b
     else byte_from (fun j =>
            let i := 8 * k + j in
            if (lo <=? i) && (i <? lo + len) then Z.testbit raw (i - lo) else Z.testbit b j))
    :: set_bits_go (k + 1) r lo len raw
  end.

Definition set_bits (d : list Z) (lo len raw : Z) : list Z := set_bits_go 0 d lo len raw.

Definition bits_in (d : list Z) (lo len : Z) : bool :=
  (0 <=? lo) && (lo + len <=? 8 * Z.of_nat (length d)).

(* two's complement *)
Definition signed (bits v : Z) : Z := if v <? 2 ^ (bits - 1) then v else v - 2 ^ bits.

(* the field's default as raw bits, its value decoding/encoding *)
Definition default_raw (f : field_desc) : Z := fd_default f mod 2 ^ kind_bits (fd_kind f).
Definition decode (k : kind) (raw : Z) : Z :=
  match k with KInt w => signed (wbits w) raw | _ => raw end.
Definition encode (k : kind) (v : Z) : Z := v mod 2 ^ kind_bits k.

(* tokens in pointer slots for text/data: object with content c is token c+1 *)
Definition obj (c : Z) : Z := c + 1.

(* the active-member test (Which() == discriminantValue); a struct too short to contain the
   discriminant reads 0 *)
Definition spec_which (f : field_desc) (s : strukt) : Z :=
  if bits_in (sdata s) (disc_lo f) 16 then bits_val (sdata s) (disc_lo f) 16 else 0.

Definition spec_active (f : field_desc) (s : strukt) : bool :=
  negb (has_disc f) || (spec_which f s =? fd_disc f).

(* value of a pointer field given the slot token *)
Definition ptr_value (k : kind) (dflt : Z) (t : Z) : Z :=
  match k with
  | KText | KData => if t =? 0 then dflt else t - 1
  | KInterface => t
  | _ => if t =? 0 then dflt else t
  end.

(* slot token written for value v *)
Definition ptr_token (k : kind) (dflt : Z) (v : Z) : Z :=
  match k with
  | KText | KData => if (v =? 0) && (dflt =? 0) then 0 else obj v   (* "" / nil without default -> null *)
  | _ => v
  end.

Definition kind_eqb_group (k : kind) : bool := match k with KGroup => true | _ => false end.

(* SPECIFICATION getter: inactive union member -> Panic (as the emitted code does);
   bits outside the runtime struct read as zero, i.e. the default *)
Definition spec_get (f : field_desc) (s : strukt) : res Z :=
  if kind_eqb_group (fd_kind f) then Ok 0   (* a group "getter" is a cast of the same struct *)
  else if spec_active f s then
    match field_range f with
    | RBits lo len =>
      let raw := if bits_in (sdata s) lo len then bits_val (sdata s) lo (Z.to_nat len) else 0 in
      Ok (decode (fd_kind f) (Z.lxor raw (default_raw f)))
    | RPtr slot => Ok (ptr_value (fd_kind f) (fd_default f) (s_ptr s slot))
    | RNone => Ok 0
    end
  else Panic.

(* SPECIFICATION setter: discriminant := value, field bits := encode v xor default, nothing else;
   a field or discriminant outside the runtime struct -> Panic *)
Definition spec_set_tag (f : field_desc) (s : strukt) : res strukt :=
  if has_disc f then
    if bits_in (sdata s) (disc_lo f) 16
    then Ok (mkS (set_bits (sdata s) (disc_lo f) 16 (fd_disc f)) (sptrs s))
    else Panic
  else Ok s.

Definition spec_set (f : field_desc) (v : Z) (s : strukt) : res strukt :=
  bind (spec_set_tag f s) (fun s1 =>
    match field_range f with
    | RBits lo len =>
      if bits_in (sdata s1) lo len
      then Ok (mkS (set_bits (sdata s1) lo len (Z.lxor (encode (fd_kind f) v) (default_raw f))) (sptrs s1))
      else Panic
    | RPtr slot => s_set_ptr s1 slot (ptr_token (fd_kind f) (fd_default f) v)
    | RNone => Ok s1
    end).

(* SPECIFICATION of the pipelined accessor X_Future.F() on a resolved answer: the object in the field's
   pointer slot, the field's default when the slot is null; no discriminant test (capnp.Future.Field) *)
Definition spec_future (f : field_desc) (s : strukt) : Z :=
  match fd_kind f with
  | KAnyPtr => s_ptr s (fd_off f)   (* promiseFieldAnyPointer passes no default (AnyPointer fields
                                        cannot declare one in the schema language) *)
  | k => ptr_value k (fd_default f) (s_ptr s (fd_off f))
  end.

Definition spec_has (f : field_desc) (s : strukt) : bool :=
  match field_range f with
  | RPtr slot => spec_active f s && negb (s_ptr s slot =? 0)
  | _ => false
  end.

(* ------------------------------------------------------------------ (d) accessor IR *)
(* tag = (byte offset, value) of a _checktag / _settag snippet, None when the snippet is absent *)
Definition tag := option (Z * Z).

(* conversion wrapped around the raw integer: none (uintN), intN(..), EnumType(..),
   math.FloatNfrombits(..) *)
Inductive conv := CUint | CInt | CEnum | CFloat.

Inductive gbody :=
| GBit (bitoff : Z) (neg : bool)                       (* [!]s.Struct.Bit(off) *)
| GUint (w : width) (off xor : Z) (c : conv)           (* conv(s.Struct.UintN(off) ^ xor) *)
| GPtr (slot : Z) (k : kind) (hasdef : bool)           (* s.Struct.Ptr(slot) then Text/TextDefault/.. *)
| GGroup.                                              (* return Group(s) *)

Inductive sbody :=
| SBit (bitoff : Z) (neg : bool)                       (* s.Struct.SetBit(off, [!]v) *)
| SUint (w : width) (off xor : Z) (c : conv)           (* s.Struct.SetUintN(off, conv'(v) ^ xor) *)
| SPtr (slot : Z) (k : kind) (hasdef : bool)           (* SetText/SetNewText/SetData/SetPtr *)
| SNone.                                               (* only the _settag snippet *)

Record accessor_ir := mkIR {
  a_get : option (tag * gbody);     (* X() *)
  a_getbytes : option (tag * Z);    (* XBytes() of text fields: Ptr(slot) *)
  a_set : option (tag * sbody);     (* SetX(v) *)
  a_has : option (tag * Z);         (* HasX(): tag test then HasPtr(slot) *)
  a_new : option (tag * Z);         (* NewX(): _settag, allocate, SetPtr(slot) *)
}.

Definition check_tag (t : tag) (s : strukt) : res bool :=
  match t with
  | None => Ok true
  | Some (o, v) => bind (s_uint W16 s o) (fun x => Ok (x =? v))
  end.

Definition set_tag (t : tag) (s : strukt) : res strukt :=
  match t with
  | None => Ok s
  | Some (o, v) => s_set_uint W16 s o v
  end.

Definition conv_dec (c : conv) (w : width) (raw : Z) : Z :=
  match c with CInt => signed (wbits w) raw | _ => raw end.
(* uintN(v) for a signed / enum / float-bits argument *)
Definition conv_enc (c : conv) (w : width) (v : Z) : Z := v mod 2 ^ wbits w.

Definition run_gbody (b : gbody) (dflt : Z) (s : strukt) : res Z :=
  match b with
  | GBit o neg => Ok (Z.b2z (xorb neg (s_bit s o)))
  | GUint w o x c => bind (s_uint w s o) (fun raw => Ok (conv_dec c w (Z.lxor raw x)))
  | GPtr slot k hasdef => Ok (ptr_value k (if hasdef then dflt else 0) (s_ptr s slot))
  | GGroup => Ok 0
  end.

(* dflt: the default content/token the emitted literal denotes (checked dynamically) *)
Definition run_getter (g : tag * gbody) (dflt : Z) (s : strukt) : res Z :=
  bind (check_tag (fst g) s) (fun ok => if ok then run_gbody (snd g) dflt s else Panic).

Definition run_sbody (b : sbody) (v : Z) (s : strukt) : res strukt :=
  match b with
  | SBit o neg => s_set_bit s o (xorb neg (negb (v =? 0)))
  | SUint w o x c => s_set_uint w s o (Z.lxor (conv_enc c w v) x)
  | SPtr slot k hasdef =>
    s_set_ptr s slot
      (match k with
       (* SetNewText / SetText ; SetData with / without the nil -> []byte{} guard *)
       | KText | KData => if hasdef then obj v else if v =? 0 then 0 else obj v
       | _ => v
       end)
  | SNone => Ok s
  end.

Definition run_setter (st : tag * sbody) (v : Z) (s : strukt) : res strukt :=
  bind (set_tag (fst st) s) (fun s1 => run_sbody (snd st) v s1).

Definition run_has (h : tag * Z) (s : strukt) : res bool :=
  bind (check_tag (fst h) s) (fun ok => if ok then Ok (s_has_ptr s (snd h)) else Ok false).

(* XBytes(): s.Struct.Ptr(slot) then TextBytes/TextBytesDefault *)
Definition run_getbytes (g : tag * Z) (dflt : Z) (s : strukt) : res Z :=
  bind (check_tag (fst g) s) (fun ok =>
    if ok then Ok (ptr_value KText dflt (s_ptr s (snd g))) else Panic).

(* NewX(): _settag then SetPtr(slot, fresh object t) *)
Definition run_new (n : tag * Z) (t : Z) (s : strukt) : res strukt :=
  bind (set_tag (fst n) s) (fun s1 => s_set_ptr s1 (snd n) t).

(* ------------------------------------------------------------------ (e) the generator *)
(* node.DiscriminantOffset(): n.StructNode().DiscriminantOffset() * 2   (uint32) *)
Definition gen_discoff (f : field_desc) : Z := wrap32 (fd_discoff f * 2).
(* _settag / _checktag / _hasfield: {{if .Field.HasDiscriminant}} *)
Definition gen_tag (f : field_desc) : tag :=
  if has_disc f then Some (gen_discoff f, fd_disc f) else None.
(* structUintFieldParams.Offset(): p.Field.Slot().Offset() * uint32(p.Bits/8) *)
Definition gen_offset (f : field_desc) (w : width) : Z := wrap32 (fd_off f * wrap32 (wbits w / 8)).
(* intFieldDefaultMask: mask := uint64(1)<<bits - 1; uint64(intValue(v)) & mask *)
Definition gen_int_mask (w : width) (d : Z) : Z :=
  Z.land (wrap64 d) (wrap64 (wrap64 (Z.shiftl 1 (wbits w)) - 1)).
(* {{with .Default}} / {{if .Default}} / .Default.IsValid *)
Definition nonzero (z : Z) : bool := negb (z =? 0).

Definition ir_none : accessor_ir := mkIR None None None None None.

Definition gen_uint (f : field_desc) (w : width) (x : Z) (c : conv) : accessor_ir :=
  let t := gen_tag f in
  mkIR (Some (t, GUint w (gen_offset f w) x c)) None (Some (t, SUint w (gen_offset f w) x c)) None None.

(* bytes_checks_tag: whether XBytes() carries the _checktag snippet (true = current generator) *)
Definition gen_accessor_v (bytes_checks_tag : bool) (f : field_desc) : accessor_ir :=
  let t := gen_tag f in
  let hd := nonzero (fd_default f) in
  match fd_kind f with
  | KVoid => if has_disc f then mkIR None None (Some (t, SNone)) None None else ir_none
  | KBool =>
    mkIR (Some (t, GBit (fd_off f) hd)) None (Some (t, SBit (fd_off f) hd)) None None
  | KUint w => gen_uint f w (fd_default f) CUint
  | KInt w => gen_uint f w (gen_int_mask w (fd_default f)) CInt
  | KEnum => gen_uint f W16 (fd_default f) CEnum
  | KFloat32 => gen_uint f W32 (fd_default f) CFloat
  | KFloat64 => gen_uint f W64 (fd_default f) CFloat
  | KText =>
    mkIR (Some (t, GPtr (fd_off f) KText hd))
         (Some (if bytes_checks_tag then t else None, fd_off f))
         (Some (t, SPtr (fd_off f) KText hd)) (Some (t, fd_off f)) None
  | KData =>
    mkIR (Some (t, GPtr (fd_off f) KData hd)) None
         (Some (t, SPtr (fd_off f) KData hd)) (Some (t, fd_off f)) None
  | KStruct =>
    mkIR (Some (t, GPtr (fd_off f) KStruct hd)) None
         (Some (t, SPtr (fd_off f) KStruct false)) (Some (t, fd_off f)) (Some (t, fd_off f))
  | KList =>
    mkIR (Some (t, GPtr (fd_off f) KList hd)) None
         (Some (t, SPtr (fd_off f) KList false)) (Some (t, fd_off f)) (Some (t, fd_off f))
  | KAnyPtr =>
    mkIR (Some (t, GPtr (fd_off f) KAnyPtr hd)) None
         (Some (t, SPtr (fd_off f) KAnyPtr false)) (Some (t, fd_off f)) None
  | KInterface =>
    mkIR (Some (t, GPtr (fd_off f) KInterface false)) None
         (Some (t, SPtr (fd_off f) KInterface false)) (Some (t, fd_off f)) None
  | KGroup =>
    mkIR (Some (None, GGroup)) None (if has_disc f then Some (t, SNone) else None) None None
  end.

Definition gen_accessor : field_desc -> accessor_ir := gen_accessor_v true.
(* the generator before the fix: XBytes() of a union member does not test the discriminant *)
Definition gen_accessor_prefix : field_desc -> accessor_ir := gen_accessor_v false.

(* ------------------------------------------------------------------ nodes (struct / group) *)
Record node_desc := mkN {
  nd_id : Z;
  nd_dwc : Z;          (* dataWordCount *)
  nd_pc : Z;           (* pointerCount *)
  nd_isgroup : bool;
  nd_disccount : Z;
  nd_discoff : Z;
  nd_members : list Z; (* discriminant values of the union members, in code order *)
}.

Record node_ir := mkNI {
  ni_typeid : option Z;          (* const X_TypeID *)
  ni_new : option (Z * Z);       (* NewX: ObjectSize{DataSize, PointerCount} *)
  ni_newroot : option (Z * Z);
  ni_list : option (Z * Z);      (* NewX_List: NewCompositeList size *)
  ni_which : option Z;           (* Which(): Uint16(off) *)
  ni_consts : list Z;            (* X_Which_* constants *)
}.

(* generator.ObjectSize: int(DataWordCount())*8, PointerCount() *)
Definition gen_objsize (n : node_desc) : Z * Z := (nd_dwc n * 8, nd_pc n).
(* variant: the product computed in uint16 (DataWordCount()*8 without the int() widening);
   it wraps from 8192 words on -- Examples.objsize_u16_refuted *)
Definition gen_objsize_u16 (n : node_desc) : Z * Z := ((nd_dwc n * 8) mod 2 ^ 16, nd_pc n).

Definition gen_node (n : node_desc) : node_ir :=
  let sz := if nd_isgroup n then None else Some (gen_objsize n) in
  mkNI (if nd_isgroup n then None else Some (nd_id n)) sz sz sz
       (if 0 <? nd_disccount n then Some (wrap32 (nd_discoff n * 2)) else None)
       (if 0 <? nd_disccount n then nd_members n else []).

(* a freshly allocated struct of the generated size *)
Definition new_struct (n : node_desc) : strukt :=
  mkS (repeat 0 (Z.to_nat (fst (gen_objsize n)))) (repeat 0 (Z.to_nat (snd (gen_objsize n)))).

(* ------------------------------------------------------------------ decidable equality of IR *)
Definition width_eqb (a b : width) : bool :=
  match a, b with W8, W8 | W16, W16 | W32, W32 | W64, W64 => true | _, _ => false end.
Definition conv_eqb (a b : conv) : bool :=
  match a, b with CUint, CUint | CInt, CInt | CEnum, CEnum | CFloat, CFloat => true | _, _ => false end.
Definition kind_eqb (a b : kind) : bool :=
  match a, b with
  | KVoid, KVoid | KBool, KBool | KFloat32, KFloat32 | KFloat64, KFloat64 | KEnum, KEnum
  | KText, KText | KData, KData | KList, KList | KStruct, KStruct | KInterface, KInterface
  | KAnyPtr, KAnyPtr | KGroup, KGroup => true
  | KInt x, KInt y | KUint x, KUint y => width_eqb x y
  | _, _ => false
  end.
Definition opt_eqb {A} (e : A -> A -> bool) (a b : option A) : bool :=
  match a, b with Some x, Some y => e x y | None, None => true | _, _ => false end.
Definition zz_eqb (a b : Z * Z) : bool := (fst a =? fst b) && (snd a =? snd b).
Definition tag_eqb : tag -> tag -> bool := opt_eqb zz_eqb.
Definition gbody_eqb (a b : gbody) : bool :=
  match a, b with
  | GBit o n, GBit o' n' => (o =? o') && eqb n n'
  | GUint w o x c, GUint w' o' x' c' => width_eqb w w' && (o =? o') && (x =? x') && conv_eqb c c'
  | GPtr s k h, GPtr s' k' h' => (s =? s') && kind_eqb k k' && eqb h h'
  | GGroup, GGroup => true
  | _, _ => false
  end.
Definition sbody_eqb (a b : sbody) : bool :=
  match a, b with
  | SBit o n, SBit o' n' => (o =? o') && eqb n n'
  | SUint w o x c, SUint w' o' x' c' => width_eqb w w' && (o =? o') && (x =? x') && conv_eqb c c'
  | SPtr s k h, SPtr s' k' h' => (s =? s') && kind_eqb k k' && eqb h h'
  | SNone, SNone => true
  | _, _ => false
  end.
Definition tg_eqb (a b : tag * gbody) := tag_eqb (fst a) (fst b) && gbody_eqb (snd a) (snd b).
Definition ts_eqb (a b : tag * sbody) := tag_eqb (fst a) (fst b) && sbody_eqb (snd a) (snd b).
Definition tz_eqb (a b : tag * Z) := tag_eqb (fst a) (fst b) && (snd a =? snd b).

Definition ir_eqb (a b : accessor_ir) : bool :=
  opt_eqb tg_eqb (a_get a) (a_get b) && opt_eqb tz_eqb (a_getbytes a) (a_getbytes b)
  && opt_eqb ts_eqb (a_set a) (a_set b) && opt_eqb tz_eqb (a_has a) (a_has b)
  && opt_eqb tz_eqb (a_new a) (a_new b).

Fixpoint zlist_eqb (a b : list Z) : bool :=
  match a, b with
  | [], [] => true
  | x :: r, y :: r' => (x =? y) && zlist_eqb r r'
  | _, _ => false
  end.

Definition nir_eqb (a b : node_ir) : bool :=
  opt_eqb Z.eqb (ni_typeid a) (ni_typeid b) && opt_eqb zz_eqb (ni_new a) (ni_new b)
  && opt_eqb zz_eqb (ni_newroot a) (ni_newroot b) && opt_eqb zz_eqb (ni_list a) (ni_list b)
  && opt_eqb Z.eqb (ni_which a) (ni_which b) && zlist_eqb (ni_consts a) (ni_consts b).

(* the per-run obligations over what genir extracted from the emitted Go *)
Definition fields_match (l : list (field_desc * accessor_ir)) : bool :=
  forallb (fun p => ir_eqb (snd p) (gen_accessor (fst p))) l.
Definition nodes_match (l : list (node_desc * node_ir)) : bool :=
  forallb (fun p => nir_eqb (snd p) (gen_node (fst p))) l.

(* type references: (type id the schema gives, node ids the emitted qualified Go names resolve to) *)
Definition typerefs_match (l : list (Z * list Z)) : bool :=
  forallb (fun p => match snd p with [] => false | _ => forallb (Z.eqb (fst p)) (snd p) end) l.

(* pointer defaults: (kind, ((slot, default bytes) of the schema, (slot, default bytes) emitted)) *)
Definition defrefs_match (l : list (Z * ((Z * list Z) * (Z * list Z)))) : bool :=
  forallb (fun p => (fst (fst (snd p)) =? fst (snd (snd p))) && zlist_eqb (snd (fst (snd p))) (snd (snd (snd p)))) l.

(* ------------------------------------------------------------------ well-formed descriptors *)
(* what every CodeGeneratorRequest produced by the schema compiler satisfies: uint32 offsets whose
   byte/bit position does not overflow 32 bits, typed defaults, a uint16 discriminant, and a
   discriminant that does not overlap the member *)
Definition default_ok (k : kind) (d : Z) : Prop :=
  match k with
  | KVoid | KGroup | KInterface => d = 0
  | KBool => d = 0 \/ d = 1
  | KInt w => - 2 ^ (wbits w - 1) <= d < 2 ^ (wbits w - 1)
  | KUint w => 0 <= d < 2 ^ wbits w
  | KFloat32 => 0 <= d < 2 ^ 32
  | KFloat64 => 0 <= d < 2 ^ 64
  | KEnum => 0 <= d < 2 ^ 16
  | _ => 0 <= d
  end.

Definition ranges_disjoint (f : field_desc) : Prop :=
  match field_range f with
  | RBits lo len => lo + len <= disc_lo f \/ disc_lo f + 16 <= lo
  | _ => True
  end.

Definition field_wf (f : field_desc) : Prop :=
  0 <= fd_off f /\ (fd_off f + 1) * kind_bits (fd_kind f) <= 2 ^ 32 - 1 /\ fd_off f < 2 ^ 32
  /\ default_ok (fd_kind f) (fd_default f)
  /\ 0 <= fd_disc f <= 65535
  /\ 0 <= fd_discoff f /\ (fd_discoff f + 1) * 16 <= 2 ^ 32 - 1
  /\ (has_disc f = true -> ranges_disjoint f).

(* values a Go caller can pass: the kind's range *)
Definition value_ok (k : kind) (v : Z) : Prop :=
  match k with
  | KVoid | KGroup => v = 0
  | KBool => v = 0 \/ v = 1
  | KInt w => - 2 ^ (wbits w - 1) <= v < 2 ^ (wbits w - 1)
  | KUint w => 0 <= v < 2 ^ wbits w
  | KFloat32 => 0 <= v < 2 ^ 32
  | KFloat64 => 0 <= v < 2 ^ 64
  | KEnum => 0 <= v < 2 ^ 16
  | _ => 0 <= v
  end.

(* executable forms for the driver *)
Definition get_of (f : field_desc) (s : strukt) : res Z :=
  match a_get (gen_accessor f) with Some g => run_getter g (fd_default f) s | None => Ok 0 end.
Definition set_of (f : field_desc) (v : Z) (s : strukt) : res strukt :=
  match a_set (gen_accessor f) with Some st => run_setter st v s | None => Ok s end.
Definition has_of (f : field_desc) (s : strukt) : res bool :=
  match a_has (gen_accessor f) with Some h => run_has h s | None => Ok false end.
Definition getbytes_of (bct : bool) (f : field_desc) (s : strukt) : res Z :=
  match a_getbytes (gen_accessor_v bct f) with Some g => run_getbytes g (fd_default f) s | None => Ok 0 end.
Definition new_of (f : field_desc) (t : Z) (s : strukt) : res strukt :=
  match a_new (gen_accessor f) with Some n => run_new n t s | None => Ok s end.
