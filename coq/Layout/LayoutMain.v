(* C15: the statements about the generator's accessors, obtained by composing
   "generated accessor = specification" with the properties of the specification, and the
   soundness of the boolean checks used for the per-run obligation over Gen/GenAccessors.v *)
From CV Require Import Layout.Layout.
From CV Require Import Layout.BytesProofs.
From CV Require Import Layout.LayoutProofs.
Open Scope Z_scope.

Lemma setter_ok_strukt : forall f v s s', strukt_ok s -> spec_set f v s = Ok s' -> strukt_ok s'.
Proof. intros f v s s' Hs H. apply (spec_set_frame f v s s' Hs H). Qed.

(* 1. getter (setter v s) = v *)
Theorem gen_roundtrip : forall f g st v s s', field_wf f -> strukt_ok s -> value_ok (fd_kind f) v ->
  a_get (gen_accessor f) = Some g -> a_set (gen_accessor f) = Some st ->
  run_setter st v s = Ok s' -> run_getter g (fd_default f) s' = Ok (readback f v).
Proof.
  intros f g st v s s' Hwf Hs Hv Hg Hst H.
  rewrite (gen_setter_spec f st v s Hwf Hs Hv Hst) in H.
  rewrite (gen_getter_spec f g s' Hwf (setter_ok_strukt f v s s' Hs H) Hg).
  apply (spec_roundtrip f v s s' Hwf Hs Hv H).
Qed.

(* 2. the setter changes exactly field_range and the discriminant's 16 bits; sizes and all other
      pointer slots are unchanged; the bits it writes are encode v xor default *)
Theorem gen_setter_frame : forall f st v s s', field_wf f -> strukt_ok s -> value_ok (fd_kind f) v ->
  a_set (gen_accessor f) = Some st -> run_setter st v s = Ok s' ->
  strukt_ok s' /\ length (sdata s') = length (sdata s) /\ length (sptrs s') = length (sptrs s) /\
  (forall i, 0 <= i -> ~ in_range (field_range f) i -> ~ in_disc f i ->
     data_bit (sdata s') i = data_bit (sdata s) i) /\
  (forall j, field_range f <> RPtr (Z.of_nat j) -> nth j (sptrs s') 0 = nth j (sptrs s) 0).
Proof.
  intros f st v s s' Hwf Hs Hv Hst H. rewrite (gen_setter_spec f st v s Hwf Hs Hv Hst) in H.
  apply (spec_set_frame f v s s' Hs H).
Qed.

Theorem gen_setter_exact : forall f st v s s', field_wf f -> strukt_ok s -> value_ok (fd_kind f) v ->
  a_set (gen_accessor f) = Some st -> run_setter st v s = Ok s' ->
  match field_range f with
  | RBits lo len => bits_in (sdata s') lo len = true /\
      bits_val (sdata s') lo (Z.to_nat len) = Z.lxor (encode (fd_kind f) v) (default_raw f)
  | RPtr slot => s_ptr s' slot = ptr_token (fd_kind f) (fd_default f) v
  | RNone => True
  end /\ spec_active f s' = true.
Proof.
  intros f st v s s' Hwf Hs Hv Hst H. rewrite (gen_setter_spec f st v s Hwf Hs Hv Hst) in H.
  apply (spec_set_exact f v s s' Hwf Hs H).
Qed.

(* the setter succeeds exactly when field and discriminant lie inside the runtime struct;
   otherwise it panics; it never escapes the struct *)
Theorem gen_setter_total : forall f st v s, field_wf f -> strukt_ok s -> value_ok (fd_kind f) v ->
  a_set (gen_accessor f) = Some st ->
  run_setter st v s <> Escape /\
  ((exists s', run_setter st v s = Ok s') <->
   ((has_disc f = true -> bits_in (sdata s) (disc_lo f) 16 = true) /\
    match field_range f with
    | RBits lo len => bits_in (sdata s) lo len = true
    | RPtr slot => 0 <= slot < pcount s
    | RNone => True
    end)).
Proof.
  intros f st v s Hwf Hs Hv Hst. rewrite (gen_setter_spec f st v s Hwf Hs Hv Hst). split.
  - unfold spec_set, spec_set_tag. destruct (has_disc f).
    + destruct (bits_in (sdata s) (disc_lo f) 16); cbn [bind]; [|discriminate].
      destruct (field_range f); try discriminate.
      * destruct (bits_in _ lo len); discriminate.
      * unfold s_set_ptr. destruct ((0 <=? slot) && _); discriminate.
    + cbn [bind]. destruct (field_range f); try discriminate.
      * destruct (bits_in _ lo len); discriminate.
      * unfold s_set_ptr. destruct ((0 <=? slot) && _); discriminate.
  - apply spec_set_ok_iff. assumption.
Qed.

(* 3. the getter on zero bits returns the default (XOR mask); also when the field lies outside a
      shorter runtime struct *)
Theorem gen_getter_default : forall f g s, field_wf f -> strukt_ok s ->
  a_get (gen_accessor f) = Some g -> field_zero f s -> spec_active f s = true ->
  run_getter g (fd_default f) s = Ok (fd_default f).
Proof.
  intros f g s Hwf Hs Hg Hz Ha. rewrite (gen_getter_spec f g s Hwf Hs Hg).
  apply spec_get_default; assumption.
Qed.

Theorem gen_getter_zero_struct : forall f g n m, field_wf f -> Z.of_nat n * 8 < 2 ^ 32 ->
  a_get (gen_accessor f) = Some g -> (has_disc f = false \/ fd_disc f = 0) ->
  run_getter g (fd_default f) (mkS (repeat 0 n) (repeat 0 m)) = Ok (fd_default f).
Proof.
  intros f g n m Hwf Hn Hg Hd. apply gen_getter_default; try assumption.
  - apply zero_struct_ok. assumption.
  - apply zero_struct_field_zero.
  - apply spec_active_which. destruct Hd as [Hd|Hd]; [left; assumption|right].
    unfold spec_which. cbn [sdata]. rewrite bits_val_zeros, Hd. destruct (bits_in _ _ _); reflexivity.
Qed.

(* the getter in general: the value of the field's bit range xor the default *)
Theorem gen_getter_value : forall f g s, field_wf f -> strukt_ok s ->
  a_get (gen_accessor f) = Some g -> run_getter g (fd_default f) s = spec_get f s.
Proof. intros. apply gen_getter_spec; assumption. Qed.

(* 4. union members: getter (and XBytes) panic unless the member is active, Has answers false,
      the setter makes the member active *)
Theorem gen_union : forall f s, field_wf f -> strukt_ok s -> spec_active f s = false ->
  (forall g, a_get (gen_accessor f) = Some g -> fd_kind f <> KGroup -> run_getter g (fd_default f) s = Panic) /\
  (forall g, a_getbytes (gen_accessor f) = Some g -> run_getbytes g (fd_default f) s = Panic) /\
  (forall h, a_has (gen_accessor f) = Some h -> run_has h s = Ok false).
Proof.
  intros f s Hwf Hs Ha. repeat split.
  - intros g Hg Hk. rewrite (gen_getter_spec f g s Hwf Hs Hg). apply spec_get_inactive; assumption.
  - intros g Hg. rewrite (gen_getbytes_spec f g s Hwf Hs Hg). apply spec_get_inactive; [|assumption].
    intro K. unfold gen_accessor, gen_accessor_v in Hg. rewrite K in Hg. discriminate.
  - intros h Hh. rewrite (gen_has_spec f h s Hwf Hs Hh). rewrite spec_has_inactive; auto.
Qed.

Theorem gen_has : forall f h s, field_wf f -> strukt_ok s -> a_has (gen_accessor f) = Some h ->
  run_has h s = Ok (spec_has f s).
Proof. intros. apply gen_has_spec; assumption. Qed.

Theorem gen_setter_activates : forall f st v s s', field_wf f -> strukt_ok s -> value_ok (fd_kind f) v ->
  a_set (gen_accessor f) = Some st -> run_setter st v s = Ok s' -> has_disc f = true ->
  spec_which f s' = fd_disc f.
Proof.
  intros f st v s s' Hwf Hs Hv Hst H Hd.
  destruct (gen_setter_exact f st v s s' Hwf Hs Hv Hst H) as [_ Ha].
  apply spec_active_which in Ha. destruct Ha as [Ha|Ha]; [congruence|assumption].
Qed.

(* NewX() behaves as the setter given the new object *)
Theorem gen_new : forall f n t s, field_wf f -> strukt_ok s -> t <> 0 ->
  a_new (gen_accessor f) = Some n -> run_new n t s = spec_set f t s.
Proof. intros. apply gen_new_spec; assumption. Qed.

(* 5. sizes *)
Theorem gen_sizes : forall n, nd_isgroup n = false ->
  0 <= nd_dwc n < 65536 -> 0 <= nd_pc n < 65536 ->
  ni_new (gen_node n) = Some (8 * nd_dwc n, nd_pc n) /\
  ni_newroot (gen_node n) = Some (8 * nd_dwc n, nd_pc n) /\
  ni_list (gen_node n) = Some (8 * nd_dwc n, nd_pc n) /\
  ni_typeid (gen_node n) = Some (nd_id n) /\
  0 <= 8 * nd_dwc n <= 524280 /\ (8192 <= nd_dwc n -> 65536 <= fst (gen_objsize n)).
Proof. exact gen_node_size. Qed.

Theorem gen_new_struct_fits : forall f st n v, field_wf f -> value_ok (fd_kind f) v ->
  0 <= nd_dwc n < 65536 -> 0 <= nd_pc n -> fits f n -> a_set (gen_accessor f) = Some st ->
  exists s', run_setter st v (new_struct n) = Ok s'.
Proof.
  intros f st n v Hwf Hv Hd Hp Hf Hst. destruct (new_struct_fits f n v Hd Hp Hf) as (Hs & s' & H).
  exists s'. rewrite (gen_setter_spec f st v _ Hwf Hs Hv Hst). assumption.
Qed.

(* ---------------------------------------------------------------- soundness of the boolean checks *)
Lemma width_eqb_eq : forall a b, width_eqb a b = true -> a = b.
Proof. destruct a, b; cbn; congruence. Qed.
Lemma conv_eqb_eq : forall a b, conv_eqb a b = true -> a = b.
Proof. destruct a, b; cbn; congruence. Qed.
Lemma kind_eqb_eq : forall a b, kind_eqb a b = true -> a = b.
Proof.
  destruct a, b; cbn; try congruence; intros H; apply width_eqb_eq in H; congruence.
Qed.
Lemma opt_eqb_eq : forall A (e : A -> A -> bool), (forall x y, e x y = true -> x = y) ->
  forall a b, opt_eqb e a b = true -> a = b.
Proof. intros A e He [x|] [y|]; cbn; try congruence. intros H. f_equal. auto. Qed.
Lemma zz_eqb_eq : forall a b, zz_eqb a b = true -> a = b.
Proof.
  intros [a1 a2] [b1 b2]. unfold zz_eqb. cbn [fst snd]. rewrite andb_true_iff, !Z.eqb_eq.
  intros [-> ->]. reflexivity.
Qed.
Lemma tag_eqb_eq : forall a b, tag_eqb a b = true -> a = b.
Proof. apply opt_eqb_eq. apply zz_eqb_eq. Qed.
Lemma bool_eqb_eq : forall a b, eqb a b = true -> a = b.
Proof. intros. apply eqb_prop. assumption. Qed.
Lemma gbody_eqb_eq : forall a b, gbody_eqb a b = true -> a = b.
Proof.
  destruct a, b; cbn; try congruence; rewrite ?andb_true_iff; intros H.
  - destruct H as [H1 H2]. apply Z.eqb_eq in H1. apply bool_eqb_eq in H2. congruence.
  - destruct H as [[[H1 H2] H3] H4]. apply width_eqb_eq in H1. apply Z.eqb_eq in H2, H3.
    apply conv_eqb_eq in H4. congruence.
  - destruct H as [[H1 H2] H3]. apply Z.eqb_eq in H1. apply kind_eqb_eq in H2. apply bool_eqb_eq in H3. congruence.
Qed.
Lemma sbody_eqb_eq : forall a b, sbody_eqb a b = true -> a = b.
Proof.
  destruct a, b; cbn; try congruence; rewrite ?andb_true_iff; intros H.
  - destruct H as [H1 H2]. apply Z.eqb_eq in H1. apply bool_eqb_eq in H2. congruence.
  - destruct H as [[[H1 H2] H3] H4]. apply width_eqb_eq in H1. apply Z.eqb_eq in H2, H3.
    apply conv_eqb_eq in H4. congruence.
  - destruct H as [[H1 H2] H3]. apply Z.eqb_eq in H1. apply kind_eqb_eq in H2. apply bool_eqb_eq in H3. congruence.
Qed.
Lemma pair_eqb_eq : forall A B (ea : A -> A -> bool) (eb : B -> B -> bool),
  (forall x y, ea x y = true -> x = y) -> (forall x y, eb x y = true -> x = y) ->
  forall a b : A * B, ea (fst a) (fst b) && eb (snd a) (snd b) = true -> a = b.
Proof.
  intros A B ea eb Ha Hb [a1 a2] [b1 b2]. cbn [fst snd]. rewrite andb_true_iff. intros [H1 H2].
  f_equal; auto.
Qed.

Theorem ir_eqb_eq : forall a b, ir_eqb a b = true -> a = b.
Proof.
  intros [g1 gb1 s1 h1 n1] [g2 gb2 s2 h2 n2]. unfold ir_eqb. cbn [a_get a_getbytes a_set a_has a_new].
  rewrite !andb_true_iff. intros [[[[H1 H2] H3] H4] H5].
  assert (Z : forall x y : Z, (x =? y) = true -> x = y) by (intros; apply Z.eqb_eq; assumption).
  apply (opt_eqb_eq _ tg_eqb (pair_eqb_eq _ _ _ _ tag_eqb_eq gbody_eqb_eq)) in H1.
  apply (opt_eqb_eq _ tz_eqb (pair_eqb_eq _ _ _ _ tag_eqb_eq Z)) in H2.
  apply (opt_eqb_eq _ ts_eqb (pair_eqb_eq _ _ _ _ tag_eqb_eq sbody_eqb_eq)) in H3.
  apply (opt_eqb_eq _ tz_eqb (pair_eqb_eq _ _ _ _ tag_eqb_eq Z)) in H4.
  apply (opt_eqb_eq _ tz_eqb (pair_eqb_eq _ _ _ _ tag_eqb_eq Z)) in H5.
  congruence.
Qed.

Lemma zlist_eqb_eq : forall a b, zlist_eqb a b = true -> a = b.
Proof.
  induction a as [|x a IH]; destruct b as [|y b]; cbn; try congruence.
  rewrite andb_true_iff, Z.eqb_eq. intros [-> H]. f_equal. auto.
Qed.

Theorem nir_eqb_eq : forall a b, nir_eqb a b = true -> a = b.
Proof.
  intros [a1 a2 a3 a4 a5 a6] [b1 b2 b3 b4 b5 b6]. unfold nir_eqb.
  cbn [ni_typeid ni_new ni_newroot ni_list ni_which ni_consts]. rewrite !andb_true_iff.
  intros [[[[[H1 H2] H3] H4] H5] H6].
  assert (Z : forall x y : Z, (x =? y) = true -> x = y) by (intros; apply Z.eqb_eq; assumption).
  apply (opt_eqb_eq _ _ Z) in H1. apply (opt_eqb_eq _ _ zz_eqb_eq) in H2, H3, H4.
  apply (opt_eqb_eq _ _ Z) in H5. apply zlist_eqb_eq in H6. congruence.
Qed.

(* boolean well-formedness *)
Definition default_okb (k : kind) (d : Z) : bool :=
  match k with
  | KVoid | KGroup | KInterface => d =? 0
  | KBool => (d =? 0) || (d =? 1)
  | KInt w => (- 2 ^ (wbits w - 1) <=? d) && (d <? 2 ^ (wbits w - 1))
  | KUint w => (0 <=? d) && (d <? 2 ^ wbits w)
  | KFloat32 => (0 <=? d) && (d <? 2 ^ 32)
  | KFloat64 => (0 <=? d) && (d <? 2 ^ 64)
  | KEnum => (0 <=? d) && (d <? 2 ^ 16)
  | _ => 0 <=? d
  end.

Definition ranges_disjointb (f : field_desc) : bool :=
  match field_range f with
  | RBits lo len => (lo + len <=? disc_lo f) || (disc_lo f + 16 <=? lo)
  | _ => true
  end.

Definition field_wfb (f : field_desc) : bool :=
  (0 <=? fd_off f) && ((fd_off f + 1) * kind_bits (fd_kind f) <=? 2 ^ 32 - 1) && (fd_off f <? 2 ^ 32)
  && default_okb (fd_kind f) (fd_default f)
  && (0 <=? fd_disc f) && (fd_disc f <=? 65535)
  && (0 <=? fd_discoff f) && ((fd_discoff f + 1) * 16 <=? 2 ^ 32 - 1)
  && (negb (has_disc f) || ranges_disjointb f).

Lemma default_okb_ok : forall k d, default_okb k d = true -> default_ok k d.
Proof.
  intros k d H. destruct k; cbn [default_okb default_ok] in *;
  rewrite ?andb_true_iff, ?orb_true_iff, ?Z.eqb_eq, ?Z.leb_le, ?Z.ltb_lt in H; try assumption; try tauto.
Qed.

Theorem field_wfb_ok : forall f, field_wfb f = true -> field_wf f.
Proof.
  intros f H. unfold field_wfb in H. rewrite !andb_true_iff in H.
  destruct H as [[[[[[[[H1 H2] H3] H4] H5] H6] H7] H8] H9].
  apply Z.leb_le in H1, H2, H5, H6, H7, H8. apply Z.ltb_lt in H3. apply default_okb_ok in H4.
  unfold field_wf. repeat split; try assumption.
  intros D. rewrite D in H9. cbn [negb orb] in H9. unfold ranges_disjointb, ranges_disjoint in *.
  destruct (field_range f); try trivial.
  apply orb_true_iff in H9. rewrite !Z.leb_le in H9. assumption.
Qed.

(* what the per-run obligation gives: every emitted accessor IS the generator model's *)
Theorem fields_match_sound : forall l f ir, fields_match l = true -> In (f, ir) l -> ir = gen_accessor f.
Proof.
  intros l f ir H Hin. unfold fields_match in H. rewrite forallb_forall in H.
  specialize (H (f, ir) Hin). cbn [fst snd] in H. apply ir_eqb_eq. assumption.
Qed.

Theorem nodes_match_sound : forall l n ir, nodes_match l = true -> In (n, ir) l -> ir = gen_node n.
Proof.
  intros l n ir H Hin. unfold nodes_match in H. rewrite forallb_forall in H.
  specialize (H (n, ir) Hin). cbn [fst snd] in H. apply nir_eqb_eq. assumption.
Qed.

Definition fields_wf (l : list (field_desc * accessor_ir)) : bool := forallb (fun p => field_wfb (fst p)) l.

Theorem fields_wf_sound : forall l f ir, fields_wf l = true -> In (f, ir) l -> field_wf f.
Proof.
  intros l f ir H Hin. unfold fields_wf in H. rewrite forallb_forall in H.
  apply field_wfb_ok. apply (H (f, ir) Hin).
Qed.


(* every generated type name used by an accessor / method signature denotes the schema's type *)
Theorem typerefs_match_sound : forall l t ids x, typerefs_match l = true -> In (t, ids) l -> In x ids -> x = t.
Proof.
  intros l t ids x H Hin Hx. unfold typerefs_match in H. rewrite forallb_forall in H.
  specialize (H (t, ids) Hin). cbn [fst snd] in H. destruct ids as [|a r]; [contradiction|].
  rewrite forallb_forall in H. specialize (H x Hx). apply Z.eqb_eq in H. congruence.
Qed.

(* every emitted pointer default (getter argument, pipelined accessor) is the field's slot and bytes *)
Theorem defrefs_match_sound : forall l k want got, defrefs_match l = true -> In (k, (want, got)) l -> got = want.
Proof.
  intros l k [s1 d1] [s2 d2] H Hin. unfold defrefs_match in H. rewrite forallb_forall in H.
  specialize (H _ Hin). cbn [fst snd] in H. apply andb_prop in H. destruct H as [A B].
  apply Z.eqb_eq in A. apply zlist_eqb_eq in B. congruence.
Qed.
