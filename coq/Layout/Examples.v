(* C15: non-vacuity examples and the pre-fix generator variant *)
From CV Require Import Layout.Layout.
From CV Require Import Layout.BytesProofs.
From CV Require Import Layout.LayoutProofs.
From CV Require Import Layout.LayoutMain.
Open Scope Z_scope.

(* an Int16 union member (discriminant value 3 at 16-bit offset 1) at offset 2 (= bytes 4..5),
   default -2 *)
Definition ex_f : field_desc := mkF (KInt W16) 2 (-2) 3 1.
Definition ex_s : strukt := mkS [1; 2; 3; 4; 5; 6; 7; 8] [0].

Example ex_wf : field_wf ex_f.
Proof. apply field_wfb_ok. vm_compute. reflexivity. Qed.

Example ex_strukt_ok : strukt_ok ex_s.
Proof. split; [repeat constructor; unfold byte_ok; lia|vm_compute; reflexivity]. Qed.

Example ex_gen : gen_accessor ex_f =
  mkIR (Some (Some (2, 3), GUint W16 4 65534 CInt)) None (Some (Some (2, 3), SUint W16 4 65534 CInt)) None None.
Proof. vm_compute. reflexivity. Qed.

(* setter: discriminant bytes 2..3 := 3, field bytes 4..5 := (-7 mod 2^16) xor 0xfffe = 0x0007 *)
Example ex_set : set_of ex_f (-7) ex_s = Ok (mkS [1; 2; 3; 0; 7; 0; 7; 8] [0]).
Proof. vm_compute. reflexivity. Qed.

Example ex_get_after_set : get_of ex_f (mkS [1; 2; 3; 0; 7; 0; 7; 8] [0]) = Ok (-7).
Proof. vm_compute. reflexivity. Qed.

(* inactive member: the getter panics *)
Example ex_get_inactive : get_of ex_f ex_s = Panic.
Proof. vm_compute. reflexivity. Qed.

(* zero bytes, discriminant 3: the default *)
Example ex_get_default : get_of ex_f (mkS [0; 0; 3; 0; 0; 0; 0; 0] []) = Ok (-2).
Proof. vm_compute. reflexivity. Qed.

(* a struct written by an older schema (4 data bytes): the setter panics, a non-union getter
   returns the default *)
Example ex_set_short : set_of ex_f 1 (mkS [0; 0; 3; 0] []) = Panic.
Proof. vm_compute. reflexivity. Qed.
Example ex_get_short : get_of (mkF (KUint W32) 1 77 65535 0) (mkS [9; 9; 9; 9] []) = Ok 77.
Proof. vm_compute. reflexivity. Qed.

(* bool with default true at bit 10 *)
Example ex_bool : set_of (mkF KBool 10 1 65535 0) 0 (mkS [0; 0] []) = Ok (mkS [0; 4] [])
  /\ get_of (mkF KBool 10 1 65535 0) (mkS [0; 4] []) = Ok 0
  /\ get_of (mkF KBool 10 1 65535 0) (mkS [0; 0] []) = Ok 1.
Proof. vm_compute. auto. Qed.

(* text union member in slot 0: Has tests the discriminant *)
Definition ex_t : field_desc := mkF KText 0 0 1 0.
Example ex_has : has_of ex_t (mkS [1; 0] [5]) = Ok true /\ has_of ex_t (mkS [2; 0] [5]) = Ok false.
Proof. vm_compute. auto. Qed.

(* the hypotheses of the round-trip theorem are satisfiable and its conclusion is the computed one *)
Example ex_roundtrip_instance :
  exists g st s', a_get (gen_accessor ex_f) = Some g /\ a_set (gen_accessor ex_f) = Some st /\
    run_setter st (-7) ex_s = Ok s' /\ run_getter g (fd_default ex_f) s' = Ok (-7).
Proof. do 3 eexists. repeat split; vm_compute; reflexivity. Qed.

(* well-formedness matters: a member overlapping its discriminant does not round-trip *)
Example overlap_refuted :
  let f := mkF (KUint W16) 0 0 1 0 in
  set_of f 7 (mkS [0; 0] []) = Ok (mkS [7; 0] []) /\ get_of f (mkS [7; 0] []) = Panic.
Proof. vm_compute. auto. Qed.

(* the uint32 product of Offset(): offset 2^29 of a 64-bit field wraps to byte offset 0 *)
Example offset_wrap_refuted : gen_offset (mkF (KUint W64) (2 ^ 29) 0 65535 0) W64 = 0.
Proof. vm_compute. reflexivity. Qed.

(* pre-fix generator: XBytes() of a text union member did not test the discriminant; on a struct
   whose active member is another one sharing the slot it returned that member's content (99)
   where the fixed generator (and X()) panic *)
Example getbytes_prefix_refuted :
  getbytes_of false ex_t (mkS [2; 0] [100]) = Ok 99 /\
  getbytes_of true ex_t (mkS [2; 0] [100]) = Panic /\
  get_of ex_t (mkS [2; 0] [100]) = Panic.
Proof. vm_compute. auto. Qed.

(* dataAddress' uint32 sum: an offset near 2^32 passes the bounds check of struct.go (Escape);
   no well-formed field reaches it (C15_setter_total) *)
Example data_address_wrap : s_uint W64 (mkS [1; 2; 3; 4; 5; 6; 7; 8] []) (2 ^ 32 - 4) = Escape.
Proof. vm_compute. reflexivity. Qed.


(* ObjectSize with the product taken in uint16: a struct of 8192 data words would be allocated
   with DataSize 0, one of 8200 words with 64 bytes *)
Example objsize_u16_refuted :
  gen_objsize_u16 (mkN 1 8192 1 false 0 0 []) = (0, 1) /\
  gen_objsize (mkN 1 8192 1 false 0 0 []) = (65536, 1) /\
  gen_objsize_u16 (mkN 1 8200 1 false 0 0 []) = (64, 1) /\
  gen_objsize_u16 (mkN 1 8191 1 false 0 0 []) = gen_objsize (mkN 1 8191 1 false 0 0 []).
Proof. vm_compute. auto. Qed.
