(* byte / bit level lemmas for the struct model of Layout.v *)
From CV Require Import Layout.Layout.
Open Scope Z_scope.

Ltac zcase := repeat match goal with
  | |- context [?a <? ?b] => destruct (Z.ltb_spec a b)
  | |- context [?a <=? ?b] => destruct (Z.leb_spec a b)
  | |- context [?a =? ?b] => destruct (Z.eqb_spec a b)
  end.

Lemma testbit_byte_split : forall b r j, 0 <= b < 256 -> 0 <= j ->
  Z.testbit (b + 256 * r) j = if j <? 8 then Z.testbit b j else Z.testbit r (j - 8).
Proof.
  intros b r j Hb Hj. destruct (j <? 8) eqn:E.
  - apply Z.ltb_lt in E. rewrite <- (Z.mod_pow2_bits_low (b + 256 * r) 8 j) by lia.
    change (2 ^ 8) with 256. replace (b + 256 * r) with (b + r * 256) by lia.
    rewrite Z.mod_add by lia. rewrite Z.mod_small by lia. reflexivity.
  - apply Z.ltb_ge in E. replace j with ((j - 8) + 8) at 1 by lia.
    rewrite <- Z.div_pow2_bits by lia. change (2 ^ 8) with 256.
    replace (b + 256 * r) with (b + r * 256) by lia.
    rewrite Z.div_add by lia. rewrite Z.div_small by lia. reflexivity.
Qed.

Lemma byte_high_bits : forall b j, 0 <= b < 256 -> 8 <= j -> Z.testbit b j = false.
Proof.
  intros b j Hb Hj. destruct (Z.eq_dec b 0) as [->|Hn]. { apply Z.bits_0. }
  apply Z.bits_above_log2; [lia|]. assert (Z.log2 b < 8); [|lia].
  apply Z.log2_lt_pow2; [lia|]. change (2 ^ 8) with 256. lia.
Qed.

Lemma data_bit_nil : forall i, data_bit [] i = false.
Proof. intros. unfold data_bit. destruct (Z.to_nat (i / 8)); apply Z.bits_0. Qed.

Lemma data_bit_cons : forall b r i, 0 <= i ->
  data_bit (b :: r) i = if i <? 8 then Z.testbit b i else data_bit r (i - 8).
Proof.
  intros b r i Hi. unfold data_bit. destruct (i <? 8) eqn:E.
  - apply Z.ltb_lt in E. rewrite Z.div_small, Z.mod_small by lia. reflexivity.
  - apply Z.ltb_ge in E.
    assert (H1 : i / 8 = (i - 8) / 8 + 1) by (Z.div_mod_to_equations; lia).
    assert (H2 : i mod 8 = (i - 8) mod 8) by (Z.div_mod_to_equations; lia).
    assert (H3 : 0 <= (i - 8) / 8) by (Z.div_mod_to_equations; lia).
    rewrite H1, H2. rewrite Z2Nat.inj_add by lia. rewrite Nat.add_comm. reflexivity.
Qed.

Lemma data_bit_app : forall a r i, 0 <= i ->
  data_bit (a ++ r) i =
  if i <? 8 * Z.of_nat (length a) then data_bit a i else data_bit r (i - 8 * Z.of_nat (length a)).
Proof.
  induction a as [|b a IH]; intros r i Hi.
  - cbn [app length]. change (8 * Z.of_nat 0) with 0. zcase; [lia|]. f_equal. lia.
  - cbn [app length]. rewrite data_bit_cons by lia. rewrite Nat2Z.inj_succ.
    destruct (Z.ltb_spec i 8).
    + destruct (Z.ltb_spec i (8 * Z.succ (Z.of_nat (length a)))); [|lia].
      rewrite data_bit_cons by lia. destruct (Z.ltb_spec i 8); [reflexivity|lia].
    + rewrite IH by lia.
      destruct (Z.ltb_spec (i - 8) (8 * Z.of_nat (length a)));
      destruct (Z.ltb_spec i (8 * Z.succ (Z.of_nat (length a)))); try lia.
      { rewrite data_bit_cons by lia. destruct (Z.ltb_spec i 8); [lia|reflexivity]. }
      f_equal. lia.
Qed.

Lemma data_bit_beyond : forall d i, 8 * Z.of_nat (length d) <= i -> data_bit d i = false.
Proof.
  intros d i H. unfold data_bit. rewrite nth_overflow; [apply Z.bits_0|].
  assert (Z.of_nat (length d) <= i / 8) by (Z.div_mod_to_equations; lia). lia.
Qed.

Lemma data_bit_nth : forall d n j, 0 <= j < 8 ->
  data_bit d (8 * Z.of_nat n + j) = Z.testbit (nth n d 0) j.
Proof.
  intros d n j Hj. unfold data_bit.
  assert (H1 : (8 * Z.of_nat n + j) / 8 = Z.of_nat n) by (Z.div_mod_to_equations; lia).
  assert (H2 : (8 * Z.of_nat n + j) mod 8 = j) by (Z.div_mod_to_equations; lia).
  rewrite H1, H2, Nat2Z.id. reflexivity.
Qed.

Lemma le_dec_bit : forall l j, bytes_ok l -> 0 <= j -> Z.testbit (le_dec l) j = data_bit l j.
Proof.
  induction l as [|b l IH]; intros j Hl Hj.
  - cbn [le_dec]. rewrite data_bit_nil. apply Z.bits_0.
  - inversion Hl; subst. cbn [le_dec]. rewrite testbit_byte_split, data_bit_cons by (auto; lia).
    destruct (j <? 8) eqn:E; [reflexivity|]. apply Z.ltb_ge in E. apply IH; [assumption|lia].
Qed.

Lemma bits_val_bit : forall n d lo j, 0 <= j ->
  Z.testbit (bits_val d lo n) j = if j <? Z.of_nat n then data_bit d (lo + j) else false.
Proof.
  induction n as [|n IH]; intros d lo j Hj.
  - cbn [bits_val]. rewrite Z.bits_0. zcase; [lia|reflexivity].
  - cbn [bits_val]. rewrite Z.add_comm. rewrite Nat2Z.inj_succ.
    destruct (Z.eq_dec j 0) as [->|Hn].
    + rewrite Z.testbit_0_r. rewrite Z.add_0_r. zcase; [reflexivity|lia].
    + replace j with (Z.succ (j - 1)) at 1 by lia. rewrite Z.testbit_succ_r by lia.
      rewrite IH by lia.
      destruct (Z.ltb_spec (j - 1) (Z.of_nat n)); destruct (Z.ltb_spec j (Z.succ (Z.of_nat n)));
        try lia; try reflexivity. f_equal. lia.
Qed.

Lemma bits_val_range : forall n d lo, 0 <= bits_val d lo n < 2 ^ Z.of_nat n.
Proof.
  induction n as [|n IH]; intros d lo.
  - cbn. lia.
  - cbn [bits_val]. rewrite Nat2Z.inj_succ, Z.pow_succ_r by lia.
    specialize (IH d (lo + 1)). destruct (data_bit d lo); cbn [Z.b2z]; lia.
Qed.

Lemma le_enc_length : forall n v, length (le_enc n v) = n.
Proof. induction n; intros; cbn [le_enc length]; [reflexivity|f_equal; apply IHn]. Qed.

Lemma le_enc_ok : forall n v, bytes_ok (le_enc n v).
Proof.
  induction n; intros; cbn [le_enc]; constructor; [|apply IHn].
  unfold byte_ok. apply Z.mod_pos_bound. lia.
Qed.

Lemma le_enc_bit : forall n v j, 0 <= j ->
  data_bit (le_enc n v) j = if j <? 8 * Z.of_nat n then Z.testbit v j else false.
Proof.
  induction n as [|n IH]; intros v j Hj.
  - cbn [le_enc]. rewrite data_bit_nil. change (8 * Z.of_nat 0) with 0. zcase; [lia|reflexivity].
  - cbn [le_enc]. rewrite data_bit_cons by lia. rewrite Nat2Z.inj_succ.
    destruct (Z.ltb_spec j 8).
    + destruct (Z.ltb_spec j (8 * Z.succ (Z.of_nat n))); [|lia].
      change 256 with (2 ^ 8). apply Z.mod_pow2_bits_low. lia.
    + rewrite IH by lia.
      destruct (Z.ltb_spec (j - 8) (8 * Z.of_nat n)); destruct (Z.ltb_spec j (8 * Z.succ (Z.of_nat n)));
        try lia; try reflexivity.
      change 256 with (2 ^ 8). rewrite Z.div_pow2_bits by lia. f_equal. lia.
Qed.

(* decomposition of a byte list around [o, o+n) *)
Lemma decompose : forall (d : list Z) o n, 0 <= o -> o + Z.of_nat n <= Z.of_nat (length d) ->
  exists a m c, d = a ++ m ++ c /\ Z.of_nat (length a) = o /\ length m = n.
Proof.
  intros d o n Ho H.
  exists (firstn (Z.to_nat o) d), (firstn n (skipn (Z.to_nat o) d)), (skipn n (skipn (Z.to_nat o) d)).
  rewrite !firstn_skipn. split; [reflexivity|]. split.
  - rewrite firstn_length. lia.
  - rewrite firstn_length, skipn_length. lia.
Qed.

Lemma slice_app : forall a m c, slice (a ++ m ++ c) (Z.of_nat (length a)) (length m) = m.
Proof.
  intros. unfold slice. rewrite Nat2Z.id.
  rewrite skipn_app, skipn_all, Nat.sub_diag. cbn [app skipn].
  rewrite firstn_app, firstn_all, Nat.sub_diag. cbn [firstn]. apply app_nil_r.
Qed.

Lemma splice_app : forall a m c bs, length bs = length m ->
  splice (a ++ m ++ c) (Z.of_nat (length a)) bs = a ++ bs ++ c.
Proof.
  intros a m c bs H. unfold splice. rewrite Nat2Z.id.
  rewrite firstn_app, firstn_all, Nat.sub_diag. cbn [firstn]. rewrite app_nil_r.
  f_equal. f_equal. rewrite H.
  rewrite skipn_app. rewrite skipn_all2 by lia. cbn [app].
  replace (length a + length m - length a)%nat with (length m) by lia.
  rewrite skipn_app, skipn_all, Nat.sub_diag. reflexivity.
Qed.

Lemma bytes_ok_app : forall a b, bytes_ok (a ++ b) <-> bytes_ok a /\ bytes_ok b.
Proof. intros. unfold bytes_ok. apply Forall_app. Qed.

(* Struct.UintN reads the bit range [8o, 8o+8n) *)
Lemma rd_bits : forall d o n, bytes_ok d -> 0 <= o -> o + Z.of_nat n <= Z.of_nat (length d) ->
  le_dec (slice d o n) = bits_val d (8 * o) (8 * n).
Proof.
  intros d o n Hd Ho H. destruct (decompose d o n Ho H) as (a & m & c & -> & Ha & Hm).
  subst o n. rewrite slice_app. apply bytes_ok_app in Hd. destruct Hd as [_ Hd].
  apply bytes_ok_app in Hd. destruct Hd as [Hm _].
  apply Z.bits_inj'. intros j Hj. rewrite le_dec_bit, bits_val_bit by assumption.
  rewrite Nat2Z.inj_mul. change (Z.of_nat 8) with 8.
  destruct (Z.ltb_spec j (8 * Z.of_nat (length m))).
  - rewrite data_bit_app by lia.
    destruct (Z.ltb_spec (8 * Z.of_nat (length a) + j) (8 * Z.of_nat (length a))); [lia|].
    rewrite data_bit_app by lia.
    replace (8 * Z.of_nat (length a) + j - 8 * Z.of_nat (length a)) with j by lia.
    destruct (Z.ltb_spec j (8 * Z.of_nat (length m))); [reflexivity|lia].
  - apply data_bit_beyond. assumption.
Qed.

(* ---------------------------------------------------------------- set_bits *)
Lemma byte_from_range : forall f, 0 <= byte_from f < 256.
Proof.
  intros. unfold byte_from.
  destruct (f 0), (f 1), (f 2), (f 3), (f 4), (f 5), (f 6), (f 7); cbn [Z.b2z]; lia.
Qed.

Lemma byte_from_bit : forall f j, 0 <= j < 8 -> Z.testbit (byte_from f) j = f j.
Proof.
  intros f j Hj. unfold byte_from.
  assert (C : j = 0 \/ j = 1 \/ j = 2 \/ j = 3 \/ j = 4 \/ j = 5 \/ j = 6 \/ j = 7) by lia.
  destruct C as [->|[->|[->|[->|[->|[->|[->| ->]]]]]]];
  destruct (f 0), (f 1), (f 2), (f 3), (f 4), (f 5), (f 6), (f 7); reflexivity.
Qed.

Lemma set_bits_go_length : forall d k lo len raw, length (set_bits_go k d lo len raw) = length d.
Proof. induction d; intros; cbn [set_bits_go length]; [reflexivity|f_equal; apply IHd]. Qed.

Lemma set_bits_length : forall d lo len raw, length (set_bits d lo len raw) = length d.
Proof. intros. apply set_bits_go_length. Qed.

Lemma set_bits_go_ok : forall d k lo len raw, bytes_ok d -> bytes_ok (set_bits_go k d lo len raw).
Proof.
  induction d as [|b d IH]; intros k lo len raw H; cbn [set_bits_go]; [constructor|].
  inversion H; subst. constructor; [|apply IH; assumption].
  destruct ((8 * k + 8 <=? lo) || (lo + len <=? 8 * k)); [assumption|apply byte_from_range].
Qed.

Lemma set_bits_ok : forall d lo len raw, bytes_ok d -> bytes_ok (set_bits d lo len raw).
Proof. intros. apply set_bits_go_ok. assumption. Qed.

Lemma set_bits_go_bit : forall d k lo len raw i, 0 <= k -> 0 <= i < 8 * Z.of_nat (length d) ->
  data_bit (set_bits_go k d lo len raw) i =
  if (lo <=? 8 * k + i) && (8 * k + i <? lo + len) then Z.testbit raw (8 * k + i - lo) else data_bit d i.
Proof.
  induction d as [|b d IH]; intros k lo len raw i Hk Hi.
  - cbn [length] in Hi. lia.
  - cbn [set_bits_go]. rewrite !data_bit_cons by lia. cbn [length] in Hi. rewrite Nat2Z.inj_succ in Hi.
    destruct (Z.ltb_spec i 8).
    + destruct ((8 * k + 8 <=? lo) || (lo + len <=? 8 * k)) eqn:F.
      * apply orb_true_iff in F. rewrite !Z.leb_le in F.
        destruct ((lo <=? 8 * k + i) && (8 * k + i <? lo + len)) eqn:E; [|reflexivity].
        apply andb_prop in E. destruct E as [P Q]. apply Z.leb_le in P. apply Z.ltb_lt in Q. lia.
      * rewrite byte_from_bit by lia. cbv zeta. reflexivity.
    + rewrite IH by lia. replace (8 * (k + 1) + (i - 8)) with (8 * k + i) by lia. reflexivity.
Qed.

Lemma set_bits_bit : forall d lo len raw i, 0 <= i < 8 * Z.of_nat (length d) ->
  data_bit (set_bits d lo len raw) i =
  if (lo <=? i) && (i <? lo + len) then Z.testbit raw (i - lo) else data_bit d i.
Proof.
  intros d lo len raw i Hi. unfold set_bits. rewrite set_bits_go_bit by lia.
  replace (8 * 0 + i) with i by lia. reflexivity.
Qed.

(* two data sections with the same bits are the same bytes *)
Lemma bytes_ext : forall a b, bytes_ok a -> bytes_ok b -> length a = length b ->
  (forall i, 0 <= i < 8 * Z.of_nat (length a) -> data_bit a i = data_bit b i) -> a = b.
Proof.
  intros a b Ha Hb Hl H. apply (nth_ext a b 0 0 Hl). intros n Hn.
  assert (Oa : byte_ok (nth n a 0)) by (apply Forall_nth; assumption).
  assert (Ob : byte_ok (nth n b 0)) by (apply Forall_nth; [assumption|lia]).
  apply Z.bits_inj'. intros j Hj. destruct (Z_lt_ge_dec j 8) as [L|G].
  - rewrite <- !data_bit_nth by lia. apply H. lia.
  - rewrite !byte_high_bits by (assumption || lia). reflexivity.
Qed.

(* Struct.SetUintN writes exactly the bit range [8o, 8o+8n) *)
Lemma splice_set_bits : forall d o n raw, bytes_ok d -> 0 <= o -> o + Z.of_nat n <= Z.of_nat (length d) ->
  splice d o (le_enc n raw) = set_bits d (8 * o) (8 * Z.of_nat n) raw.
Proof.
  intros d o n raw Hd Ho H. destruct (decompose d o n Ho H) as (a & m & c & E & Ha & Hm).
  assert (Hs : splice d o (le_enc n raw) = a ++ le_enc n raw ++ c).
  { subst d o. apply splice_app. rewrite le_enc_length. auto. }
  assert (Hl : length d = (length a + (n + length c))%nat) by (subst d; rewrite !app_length; lia).
  apply bytes_ext.
  - rewrite Hs. subst d. apply bytes_ok_app in Hd. destruct Hd as [H1 Hd]. apply bytes_ok_app in Hd.
    apply bytes_ok_app; split; [tauto|]. apply bytes_ok_app; split; [apply le_enc_ok|tauto].
  - apply set_bits_ok. assumption.
  - rewrite set_bits_length, Hs, Hl, !app_length, le_enc_length. reflexivity.
  - intros i Hi. rewrite Hs in *. rewrite !app_length, le_enc_length in Hi.
    rewrite set_bits_bit by (rewrite Hl; lia).
    rewrite data_bit_app by lia. subst o.
    destruct (i <? 8 * Z.of_nat (length a)) eqn:E1.
    + apply Z.ltb_lt in E1. destruct (8 * Z.of_nat (length a) <=? i) eqn:E2; [apply Z.leb_le in E2; lia|].
      cbn [andb]. subst d. rewrite data_bit_app, (proj2 (Z.ltb_lt _ _) E1) by lia. reflexivity.
    + apply Z.ltb_ge in E1. rewrite (proj2 (Z.leb_le _ _) E1). cbn [andb].
      rewrite data_bit_app by lia. rewrite le_enc_length, le_enc_bit by lia.
      destruct (i - 8 * Z.of_nat (length a) <? 8 * Z.of_nat n) eqn:E3;
      destruct (i <? 8 * Z.of_nat (length a) + 8 * Z.of_nat n) eqn:E4;
      try apply Z.ltb_lt in E3; try apply Z.ltb_ge in E3; try apply Z.ltb_lt in E4; try apply Z.ltb_ge in E4; try lia.
      * reflexivity.
      * subst d. rewrite data_bit_app by lia.
        destruct (i <? 8 * Z.of_nat (length a)) eqn:E5; [apply Z.ltb_lt in E5; lia|].
        rewrite data_bit_app by lia. rewrite Hm.
        destruct (i - 8 * Z.of_nat (length a) <? 8 * Z.of_nat n) eqn:E6; [apply Z.ltb_lt in E6; lia|].
        reflexivity.
Qed.

(* Struct.SetBit changes exactly bit n *)
Lemma setbit_set_bits : forall d n (v : bool), bytes_ok d -> 0 <= n < 8 * Z.of_nat (length d) ->
  splice d (n / 8)
    [if v then Z.lor (nth (Z.to_nat (n / 8)) d 0) (2 ^ (n mod 8))
     else Z.ldiff (nth (Z.to_nat (n / 8)) d 0) (2 ^ (n mod 8))]
  = set_bits d n 1 (Z.b2z v).
Proof.
  intros d n v Hd Hn.
  assert (Hk : 0 <= n / 8 < Z.of_nat (length d)) by (Z.div_mod_to_equations; lia).
  assert (Hj : 0 <= n mod 8 < 8) by (Z.div_mod_to_equations; lia).
  assert (He : 8 * (n / 8) + n mod 8 = n) by (Z.div_mod_to_equations; lia).
  destruct (decompose d (n / 8) 1 (proj1 Hk)) as (a & m & c & E & Ha & Hm); [lia|].
  destruct m as [|b [|? ?]]; try discriminate. clear Hm.
  assert (Hnth : nth (Z.to_nat (n / 8)) d 0 = b).
  { subst d. rewrite <- Ha, Nat2Z.id. rewrite app_nth2, Nat.sub_diag by lia. reflexivity. }
  rewrite Hnth. set (b' := if v then _ else _).
  assert (Hb : byte_ok b).
  { subst d. apply bytes_ok_app in Hd. destruct Hd as [_ Hd]. inversion Hd; assumption. }
  assert (Hbit : forall j, 0 <= j -> Z.testbit b' j = if j =? n mod 8 then v else Z.testbit b j).
  { intros j Hj0. unfold b'. destruct v.
    - rewrite Z.lor_spec, Z.pow2_bits_eqb by lia. rewrite (Z.eqb_sym (n mod 8) j).
      destruct (j =? n mod 8); [apply orb_true_r|apply orb_false_r].
    - rewrite Z.ldiff_spec, Z.pow2_bits_eqb by lia. rewrite (Z.eqb_sym (n mod 8) j).
      destruct (j =? n mod 8); cbn [negb]; [apply andb_false_r|apply andb_true_r]. }
  assert (Hb' : byte_ok b').
  { unfold byte_ok. assert (P : 0 <= b') .
    { unfold b'. unfold byte_ok in Hb. destruct v.
      - apply Z.lor_nonneg. split; [lia|]. apply Z.pow_nonneg; lia.
      - apply Z.ldiff_nonneg. left. lia. }
    split; [assumption|]. destruct (Z.eq_dec b' 0) as [->|Hnz]; [lia|].
    change 256 with (2 ^ 8). apply Z.log2_lt_pow2; [lia|].
    destruct (Z_lt_ge_dec (Z.log2 b') 8) as [L|G]; [assumption|exfalso].
    assert (T : Z.testbit b' (Z.log2 b') = true) by (apply Z.bit_log2; lia).
    rewrite Hbit in T by lia. destruct (Z.log2 b' =? n mod 8) eqn:E2; [apply Z.eqb_eq in E2; lia|].
    rewrite byte_high_bits in T by (assumption || lia). discriminate. }
  assert (Hs : splice d (n / 8) [b'] = a ++ [b'] ++ c).
  { subst d. rewrite <- Ha. apply splice_app. reflexivity. }
  assert (Hl : length d = (length a + (1 + length c))%nat) by (subst d; rewrite !app_length; reflexivity).
  apply bytes_ext.
  - rewrite Hs. subst d. apply bytes_ok_app in Hd. destruct Hd as [H1 Hd]. apply bytes_ok_app in Hd.
    apply bytes_ok_app; split; [tauto|]. apply bytes_ok_app; split; [|tauto]. constructor; [assumption|constructor].
  - apply set_bits_ok. assumption.
  - rewrite set_bits_length, Hs, Hl, !app_length. reflexivity.
  - intros i Hi. rewrite Hs in *. rewrite !app_length in Hi. cbn [length] in Hi.
    rewrite set_bits_bit by (rewrite Hl; lia).
    rewrite E. rewrite !(data_bit_app a) by lia. cbn [app].
    destruct (i <? 8 * Z.of_nat (length a)) eqn:E1.
    + apply Z.ltb_lt in E1. destruct (n <=? i) eqn:E2; [apply Z.leb_le in E2; lia|]. reflexivity.
    + apply Z.ltb_ge in E1. rewrite !data_bit_cons by lia.
      destruct (i - 8 * Z.of_nat (length a) <? 8) eqn:E3.
      * apply Z.ltb_lt in E3. rewrite Hbit by lia.
        destruct (i - 8 * Z.of_nat (length a) =? n mod 8) eqn:E4.
        -- apply Z.eqb_eq in E4. assert (i = n) by lia. subst i.
           rewrite Z.leb_refl. destruct (n <? n + 1) eqn:E5; [|apply Z.ltb_ge in E5; lia].
           cbn [andb]. rewrite Z.sub_diag. destruct v; reflexivity.
        -- apply Z.eqb_neq in E4.
           destruct ((n <=? i) && (i <? n + 1)) eqn:E5; [|reflexivity].
           apply andb_prop in E5. destruct E5 as [P Q]. apply Z.leb_le in P. apply Z.ltb_lt in Q. lia.
      * apply Z.ltb_ge in E3.
        destruct ((n <=? i) && (i <? n + 1)) eqn:E5; [|reflexivity].
        apply andb_prop in E5. destruct E5 as [P Q]. apply Z.leb_le in P. apply Z.ltb_lt in Q. lia.
Qed.

(* reading a bit range after writing bit ranges *)
Lemma bits_val_set_same : forall d lo n raw, 0 <= lo -> lo + Z.of_nat n <= 8 * Z.of_nat (length d) ->
  bits_val (set_bits d lo (Z.of_nat n) raw) lo n = raw mod 2 ^ Z.of_nat n.
Proof.
  intros d lo n raw Hlo H. apply Z.bits_inj'. intros j Hj. rewrite bits_val_bit by assumption.
  destruct (j <? Z.of_nat n) eqn:E.
  - apply Z.ltb_lt in E. rewrite set_bits_bit by lia.
    destruct (lo <=? lo + j) eqn:E1; [|apply Z.leb_gt in E1; lia].
    destruct (lo + j <? lo + Z.of_nat n) eqn:E2; [|apply Z.ltb_ge in E2; lia]. cbn [andb].
    rewrite Z.mod_pow2_bits_low by lia. f_equal. lia.
  - apply Z.ltb_ge in E. rewrite Z.mod_pow2_bits_high by lia. reflexivity.
Qed.

Lemma bits_val_set_other : forall d lo len raw lo' n,
  0 <= lo' -> lo' + Z.of_nat n <= 8 * Z.of_nat (length d) ->
  lo' + Z.of_nat n <= lo \/ lo + len <= lo' ->
  bits_val (set_bits d lo len raw) lo' n = bits_val d lo' n.
Proof.
  intros d lo len raw lo' n Hlo H Hdis. apply Z.bits_inj'. intros j Hj. rewrite !bits_val_bit by assumption.
  destruct (j <? Z.of_nat n) eqn:E; [|reflexivity].
  apply Z.ltb_lt in E. rewrite set_bits_bit by lia.
  destruct ((lo <=? lo' + j) && (lo' + j <? lo + len)) eqn:E5; [|reflexivity].
  apply andb_prop in E5. destruct E5 as [P Q]. apply Z.leb_le in P. apply Z.ltb_lt in Q. lia.
Qed.
