(* Generic bit-field lemmas over Z: the bitwise operations that occur in the Go pointer codec,
   expressed with / and mod so that [lia] (with Z.div_mod_to_equations) can finish the job.
     land with 2^k-1 is mod;  shiftr is /;  ldiff with 2^k-1 clears the low bits;
     ldiff with 2^n-2^m keeps the bits outside [m,n);  lor of disjoint fields is +. *)
From Coq Require Import ZArith Lia Bool.
Open Scope Z_scope.

Lemma land_ones_mod : forall a k, 0 <= k -> Z.land a (2 ^ k - 1) = a mod 2 ^ k.
Proof.
  intros a k Hk. rewrite <- Z.land_ones by assumption.
  rewrite Z.ones_equiv, Z.sub_1_r. reflexivity.
Qed.

Lemma shiftr_div : forall a k, 0 <= k -> Z.shiftr a k = a / 2 ^ k.
Proof. intros. apply Z.shiftr_div_pow2; assumption. Qed.

Lemma shiftl_mul : forall a k, 0 <= k -> Z.shiftl a k = a * 2 ^ k.
Proof. intros. apply Z.shiftl_mul_pow2; assumption. Qed.

Lemma ldiff_ones_div : forall a k, 0 <= k -> Z.ldiff a (2 ^ k - 1) = a / 2 ^ k * 2 ^ k.
Proof.
  intros a k Hk. replace (2 ^ k - 1) with (Z.ones k) by (rewrite Z.ones_equiv; lia).
  rewrite Z.ldiff_ones_r by assumption.
  rewrite Z.shiftl_mul_pow2, Z.shiftr_div_pow2 by assumption. reflexivity.
Qed.

Lemma testbit_mul_pow2 : forall a k i, 0 <= k -> 0 <= i ->
  Z.testbit (a * 2 ^ k) i = (k <=? i) && Z.testbit a (i - k).
Proof.
  intros a k i Hk Hi. rewrite <- Z.shiftl_mul_pow2 by assumption.
  destruct (k <=? i) eqn:E; cbn [andb].
  - apply Z.shiftl_spec_high; lia.
  - apply Z.shiftl_spec_low; lia.
Qed.

Lemma testbit_small : forall b k i, 0 <= b < 2 ^ k -> k <= i -> Z.testbit b i = false.
Proof.
  intros b k i Hb Hi.
  destruct (Z.eq_dec b 0) as [->|Hne]; [apply Z.bits_0|].
  apply Z.bits_above_log2; [lia|].
  assert (Z.log2 b < k); [|lia].
  apply Z.log2_lt_pow2; lia.
Qed.

(* fields that do not overlap: OR is addition *)
Lemma lor_disjoint_add : forall a b, Z.land a b = 0 -> Z.lor a b = a + b.
Proof.
  intros a b H. rewrite Z.add_nocarry_lxor by assumption.
  symmetry. apply Z.lxor_lor. assumption.
Qed.

Lemma land_shift_small : forall a b k, 0 <= k -> 0 <= b < 2 ^ k -> Z.land (a * 2 ^ k) b = 0.
Proof.
  intros a b k Hk Hb. apply Z.bits_inj'. intros i Hi.
  rewrite Z.land_spec, Z.bits_0, testbit_mul_pow2 by assumption.
  destruct (k <=? i) eqn:E; cbn [andb]; [|reflexivity].
  rewrite (testbit_small b k i) by lia. apply andb_false_r.
Qed.

Lemma lor_shift_add : forall a b k, 0 <= k -> 0 <= b < 2 ^ k -> Z.lor (a * 2 ^ k) b = a * 2 ^ k + b.
Proof. intros. apply lor_disjoint_add. apply land_shift_small; assumption. Qed.

Lemma lor_small_shift_add : forall a b k, 0 <= k -> 0 <= b < 2 ^ k -> Z.lor b (a * 2 ^ k) = a * 2 ^ k + b.
Proof. intros. rewrite Z.lor_comm. apply lor_shift_add; assumption. Qed.

(* a &^ (2^n - 2^m): clears bits m..n-1, keeps the bits from n upwards and the m low bits *)
Lemma ldiff_mid : forall a n m, 0 <= m <= n ->
  Z.ldiff a (2 ^ n - 2 ^ m) = a / 2 ^ n * 2 ^ n + a mod 2 ^ m.
Proof.
  intros a n m H.
  assert (Hm : 0 <= a mod 2 ^ m < 2 ^ m) by (apply Z.mod_pos_bound; apply Z.pow_pos_nonneg; lia).
  assert (Hmn : 2 ^ m <= 2 ^ n) by (apply Z.pow_le_mono_r; lia).
  rewrite <- lor_shift_add by lia.
  apply Z.bits_inj'. intros i Hi.
  rewrite Z.ldiff_spec, Z.lor_spec, testbit_mul_pow2 by lia.
  rewrite <- (land_ones_mod a m) by lia. rewrite Z.land_spec.
  replace (2 ^ n - 2 ^ m) with (Z.ones (n - m) * 2 ^ m).
  2:{ rewrite Z.ones_equiv, <- Z.sub_1_r, Z.mul_sub_distr_r, <- Z.pow_add_r by lia.
      replace (n - m + m) with n by lia. lia. }
  rewrite testbit_mul_pow2 by lia.
  replace (2 ^ m - 1) with (Z.ones m) by (rewrite Z.ones_equiv; lia).
  rewrite <- (Z.shiftr_div_pow2 a n) by lia.
  destruct (n <=? i) eqn:E1; destruct (m <=? i) eqn:E2; cbn [andb orb negb].
  - rewrite Z.shiftr_spec by lia. replace (i - n + n) with i by lia.
    rewrite Z.ones_spec_high by lia. rewrite (Z.ones_spec_high m i) by lia.
    cbn [negb]. rewrite andb_true_r, andb_false_r, orb_false_r. reflexivity.
  - lia.
  - rewrite Z.ones_spec_low by lia. rewrite (Z.ones_spec_high m i) by lia.
    cbn [negb]. rewrite !andb_false_r. reflexivity.
  - rewrite (Z.ones_spec_low m i) by lia. rewrite andb_true_r. reflexivity.
Qed.

(* literal instances used by the pointer codec *)
Lemma land_3 : forall a, Z.land a 3 = a mod 4.
Proof. intro a. exact (land_ones_mod a 2 ltac:(lia)). Qed.
Lemma land_7 : forall a, Z.land a 7 = a mod 8.
Proof. intro a. exact (land_ones_mod a 3 ltac:(lia)). Qed.
Lemma ldiff_3 : forall a, Z.ldiff a 3 = a / 4 * 4.
Proof. intro a. exact (ldiff_ones_div a 2 ltac:(lia)). Qed.
Lemma ldiff_7 : forall a, Z.ldiff a 7 = a / 8 * 8.
Proof. intro a. exact (ldiff_ones_div a 3 ltac:(lia)). Qed.
(* 0xfffffffc = 2^32 - 2^2 *)
Lemma ldiff_fffffffc : forall a, Z.ldiff a 4294967292 = a / 4294967296 * 4294967296 + a mod 4.
Proof. intro a. exact (ldiff_mid a 32 2 ltac:(lia)). Qed.
Lemma shiftr_1 : forall a, Z.shiftr a 1 = a / 2.
Proof. intro a. exact (shiftr_div a 1 ltac:(lia)). Qed.
Lemma shiftr_2 : forall a, Z.shiftr a 2 = a / 4.
Proof. intro a. exact (shiftr_div a 2 ltac:(lia)). Qed.
Lemma shiftr_32 : forall a, Z.shiftr a 32 = a / 4294967296.
Proof. intro a. exact (shiftr_div a 32 ltac:(lia)). Qed.
Lemma shiftr_35 : forall a, Z.shiftr a 35 = a / 34359738368.
Proof. intro a. exact (shiftr_div a 35 ltac:(lia)). Qed.
Lemma shiftr_48 : forall a, Z.shiftr a 48 = a / 281474976710656.
Proof. intro a. exact (shiftr_div a 48 ltac:(lia)). Qed.

(* truncated division/remainder on non-negative operands *)
Lemma quot_div_nonneg : forall a b, 0 <= a -> 0 < b -> Z.quot a b = a / b.
Proof. intros. apply Z.quot_div_nonneg; assumption. Qed.
Lemma rem_mod_nonneg : forall a b, 0 <= a -> 0 < b -> Z.rem a b = a mod b.
Proof. intros. apply Z.rem_mod_nonneg; assumption. Qed.

(* three fields: hi above bit n, mid between bits m and n, lo below bit m *)
Lemma lor_hi_lo_mid : forall hi lo mid n m, 0 <= m <= n ->
  0 <= lo < 2 ^ m -> 0 <= mid * 2 ^ m < 2 ^ n ->
  Z.lor (hi * 2 ^ n + lo) (mid * 2 ^ m) = hi * 2 ^ n + mid * 2 ^ m + lo.
Proof.
  intros hi lo mid n m Hmn Hlo Hmid.
  assert (Hm : 2 ^ m <= 2 ^ n) by (apply Z.pow_le_mono_r; lia).
  assert (Hmid0 : 0 <= mid) by nia.
  assert (Hsum : mid * 2 ^ m + lo < 2 ^ n).
  { replace n with ((n - m) + m) in * by lia. rewrite Z.pow_add_r in * by lia.
    assert (mid < 2 ^ (n - m)) by nia. nia. }
  rewrite <- (lor_shift_add hi lo n) by lia.
  rewrite <- Z.lor_assoc.
  rewrite (Z.lor_comm lo), (lor_shift_add mid lo m) by lia.
  rewrite lor_shift_add by lia. lia.
Qed.
