(* Semantics of Go's fixed-width integer types used by the generated file Gen/GoArith.v
   (trusted base of the translator gotrans, validated against the Go compiler by the L0
   translation validation). A value of a Go integer type is the mathematical integer it denotes
   (signed types: negative numbers are negative Z). [wrap_<u|s><bits> z] is the value of that
   type congruent to z modulo 2^bits: Go's result of + - * << unary - ^ and of conversions.
   int, uint and uintptr are 64 bits wide (64-bit platforms only). *)
From Coq Require Import ZArith List.
Open Scope Z_scope.

Definition wrap_u8 (z : Z) : Z := z mod 256.
Definition wrap_u16 (z : Z) : Z := z mod 65536.
Definition wrap_u32 (z : Z) : Z := z mod 4294967296.
Definition wrap_u64 (z : Z) : Z := z mod 18446744073709551616.
Definition wrap_s8 (z : Z) : Z := let m := z mod 256 in if m <? 128 then m else m - 256.
Definition wrap_s16 (z : Z) : Z := let m := z mod 65536 in if m <? 32768 then m else m - 65536.
Definition wrap_s32 (z : Z) : Z :=
  let m := z mod 4294967296 in if m <? 2147483648 then m else m - 4294967296.
Definition wrap_s64 (z : Z) : Z :=
  let m := z mod 18446744073709551616 in
  if m <? 9223372036854775808 then m else m - 18446744073709551616.

(* The other operations are those of the standard library on the denoted integer:
   x / y, x % y  (constant non-zero y)  : Z.quot, Z.rem (truncated division)
   x >> s                               : Z.shiftr x s (floor (x / 2^s): arithmetic shift for
                                          signed, logical shift for unsigned operands)
   x << s                               : wrap (x * 2^s)
   x & y, x | y, x ^ y, x &^ y          : Z.land, Z.lor, Z.lxor, Z.ldiff (two's complement on Z;
                                          closed on every type's range)
   ^x                                   : wrap (Z.lnot x)
   comparisons                          : Z.eqb, Z.ltb, ... on the denoted integers *)

(* Results of translated functions that contain a for loop: the loop is a Fixpoint over an
   explicit fuel parameter; running out of fuel is the distinct outcome OutOfFuel (the agreement
   theorems prove that it does not occur for the fuel they state). *)
Inductive loopres (A : Type) : Type := Done (a : A) | OutOfFuel.
Arguments Done {A} a.
Arguments OutOfFuel {A}.

(* s[i] for a constant string s (its bytes) : None = index out of range (Go panics) *)
Definition go_index_bytes (l : list Z) (i : Z) : option Z :=
  if andb (0 <=? i) (i <? Z.of_nat (length l)) then nth_error l (Z.to_nat i) else None.
