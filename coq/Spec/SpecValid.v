(* Strict validity of a whole message, as an executable predicate over the specification-level
   decoder of Spec.v (nothing of the Go-faithful model is used): every pointer reachable from
   the root resolves in STRICT mode (objects and landing pads inside their segments, pad
   shapes, composite tag = announced word count), the reachable objects, landing pads and the
   root pointer word are pairwise disjoint, and every segment is a whole number of words.
   No proofs in this file (see SpecValidProofs.v). *)
From Coq Require Import ZArith List Bool.
From CV Require Import Spec.Spec.
Import ListNotations.
Open Scope Z_scope.

(* the pointer words stored inside a target: (segment, word) *)
Definition ptr_slots (t : target) : list (Z * Z) :=
  match t with
  | TgtStruct seg a dw pc => map (fun i => (seg, a + dw + i)) (zseq 0 (Z.to_nat pc))
  | TgtList seg a e n dw pc =>
    if e =? 6 then map (fun i => (seg, a + i)) (zseq 0 (Z.to_nat n))
    else if (e =? 7) && (0 <? pc) then      (* elements without pointers hold no slots *)
      flat_map (fun i => map (fun j => (seg, a + i * (dw + pc) + dw + j)) (zseq 0 (Z.to_nat pc)))
               (zseq 0 (Z.to_nat n))
    else []
  | _ => []
  end.

(* a region: segment, first word, number of words *)
Definition region := (Z * Z * Z)%type.

(* the words a target occupies (a composite list includes its tag word) *)
Definition own_region (t : target) : list region :=
  match t with
  | TgtStruct seg a dw pc => [(seg, a, dw + pc)]
  | TgtList seg a e n dw pc =>
    if e =? 7 then [(seg, a - 1, 1 + n * (dw + pc))]
    else [(seg, a, (list_bytes e n + 7) / 8)]
  | _ => []
  end.

(* the landing pad used by the pointer stored at word wa of segment sid (if it is a far pointer) *)
Definition pad_region (m : list (list Z)) (sid wa : Z) : list region :=
  let w := word_at (seg_or_nil m sid) wa in
  if ptr_kind w =? 2 then [(far_seg w, far_off w, if far_two w =? 0 then 1 else 2)] else [].

Inductive rres :=
| RFuel                       (* the traversal ran out of fuel: no verdict *)
| RBad                        (* some reachable pointer does not resolve strictly *)
| ROk (l : list region).

Definition rjoin (a b : rres) : rres :=
  match a, b with
  | RBad, _ | _, RBad => RBad
  | RFuel, _ | _, RFuel => RFuel
  | ROk x, ROk y => ROk (x ++ y)
  end.

(* regions of everything reachable from the pointer at (sid, wa) *)
Fixpoint regions (fuel : nat) (m : list (list Z)) (sid wa : Z) : rres :=
  match spec_resolve true m sid wa with
  | None => RBad
  | Some t =>
    let here := ROk (pad_region m sid wa ++ own_region t) in
    match ptr_slots t with
    | [] => here
    | slots =>
      match fuel with
      | O => RFuel
      | S f => fold_left (fun acc sw => rjoin acc (regions f m (fst sw) (snd sw))) slots here
      end
    end
  end.

Definition overlap (a b : region) : bool :=
  let '(s1, a1, n1) := a in
  let '(s2, a2, n2) := b in
  (s1 =? s2) && (0 <? n1) && (0 <? n2) && (a1 <? a2 + n2) && (a2 <? a1 + n1).

Fixpoint pairwise_disjoint (l : list region) : bool :=
  match l with
  | [] => true
  | r :: rest => forallb (fun q => negb (overlap r q)) rest && pairwise_disjoint rest
  end.

Inductive verdict := VOk | VUnaligned | VInvalid | VOverlap | VFuel.

Definition strict_valid_message (fuel : nat) (m : list (list Z)) : verdict :=
  if negb (forallb (fun s => blen s mod 8 =? 0) m) then VUnaligned
  else match regions fuel m 0 0 with
       | RBad => VInvalid
       | RFuel => VFuel
       | ROk l => if pairwise_disjoint ((0, 0, 1) :: l) then VOk else VOverlap
       end.
