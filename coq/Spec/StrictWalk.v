(* Bridge between the strict decoder (C05) and the walker theorem (C03, lenient decoder):
   where strict and lenient resolution coincide on the pointer words the decoder visits, the
   two decoders give the same tree; a strictly valid message (strict_valid_message = VOk) has
   that property; hence on a strictly valid message the walker computes the STRICT tree. *)
From CV Require Import Core.Arith Core.Reader Core.ReadOps Spec.Spec Spec.SpecProofs Spec.WalkProofs
  Spec.SpecValid Spec.SpecValidProofs.
From Coq Require Import ZifyBool ZifyNat ZifyN Lia.
Ltac Zify.zify_post_hook ::= Z.div_mod_to_equations.
Open Scope Z_scope.

(* strict and lenient resolution coincide on every pointer word the decoder visits *)
Definition vview (rec : Z -> Z -> Prop) (pcap : Z) (v : sview) : Prop :=
  forall i, 0 <= i < Z.of_nat (count_cap (sv_pc v) pcap) -> rec (sv_seg v) (sv_ptr_word v i).

Fixpoint vagree (fuel : nat) (pcap : Z) (m : list (list Z)) (sid wa : Z) {struct fuel} : Prop :=
  spec_resolve true m sid wa = spec_resolve false m sid wa /\
  match spec_resolve false m sid wa with
  | None => True
  | Some t =>
    match fuel with
    | O => True
    | S f =>
      match t with
      | TgtStruct seg a dw pc => vview (vagree f pcap m) pcap (sv_of_struct seg a dw pc)
      | TgtList seg a e n dw pc =>
        if e =? 6 then forall i, 0 <= i < Z.of_nat (count_cap n pcap) -> vagree f pcap m seg (a + i)
        else if e =? 7 then
          match f with
          | O => True
          | S f' => forall i, 0 <= i < Z.of_nat (count_cap n pcap) ->
                    vview (vagree f' pcap m) pcap (mkSV seg (8 * (a + i * (dw + pc))) (8 * dw) pc)
          end
        else True
      | _ => True
      end
    end
  end.

Lemma sum_costs_ext : forall {A} (F G : Z -> A * Z) n i0,
  (forall i, i0 <= i < i0 + Z.of_nat n -> F i = G i) -> sum_costs F i0 n = sum_costs G i0 n.
Proof.
  intros A F G n. induction n as [|n IH]; intros i0 H; [reflexivity|].
  cbn [sum_costs]. rewrite (H i0) by lia. rewrite (IH (i0 + 1)) by (intros; apply H; lia). reflexivity.
Qed.

Lemma dec_struct_ext : forall (r1 r2 : Z -> Z -> tree * Z) m dcap pcap v,
  (forall i, 0 <= i < Z.of_nat (count_cap (sv_pc v) pcap) -> r1 (sv_seg v) (sv_ptr_word v i) = r2 (sv_seg v) (sv_ptr_word v i)) ->
  dec_struct r1 m dcap pcap v = dec_struct r2 m dcap pcap v.
Proof.
  intros r1 r2 m dcap pcap v H. rewrite !dec_struct_eq.
  rewrite (sum_costs_ext (fun i => r1 (sv_seg v) (sv_ptr_word v i)) (fun i => r2 (sv_seg v) (sv_ptr_word v i)))
    by (intros; apply H; lia). reflexivity.
Qed.

Lemma dec_agree_le : forall n fuel, (fuel <= n)%nat -> forall dcap pcap m sid wa,
  vagree fuel pcap m sid wa -> dec_ptr true fuel dcap pcap m sid wa = dec_ptr false fuel dcap pcap m sid wa.
Proof.
  induction n as [|n IH]; intros fuel Hle dcap pcap m sid wa H.
  - assert (fuel = O) by lia. subst fuel. cbn [vagree dec_ptr] in *. destruct H as [E _]. rewrite E. reflexivity.
  - destruct fuel as [|f]; [cbn [vagree dec_ptr] in *; destruct H as [E _]; rewrite E; reflexivity|].
    cbn [vagree dec_ptr] in *. destruct H as [E H]. rewrite E.
    destruct (spec_resolve false m sid wa) as [t|]; [|reflexivity].
    destruct t as [|i|sg a dw pc|sg a e k dw pc]; try reflexivity.
    + rewrite (dec_struct_ext (dec_ptr true f dcap pcap m) (dec_ptr false f dcap pcap m)); [reflexivity|].
      intros i Hi. apply IH; [lia|]. apply H. exact Hi.
    + unfold dec_list. destruct (e =? 1); [reflexivity|].
      destruct (e =? 7) eqn:E7.
      { destruct (e =? 6) eqn:E6; [lia|]. rewrite ?E6, ?E7 in H. cbv iota in H.
        rewrite (sum_costs_ext
          (fun i => match f with O => (TFuel, 0) | S f' => dec_struct (dec_ptr true f' dcap pcap m) m dcap pcap
                      (mkSV sg (8 * (a + i * (dw + pc))) (8 * dw) pc) end)
          (fun i => match f with O => (TFuel, 0) | S f' => dec_struct (dec_ptr false f' dcap pcap m) m dcap pcap
                      (mkSV sg (8 * (a + i * (dw + pc))) (8 * dw) pc) end)); [reflexivity|].
        intros i Hi. destruct f as [|f']; [reflexivity|].
        apply dec_struct_ext. intros j Hj. apply IH; [lia|]. apply (H i ltac:(lia)). exact Hj. }
      destruct (e =? 6) eqn:E6.
      { rewrite ?E6 in H. cbv iota in H. rewrite (sum_costs_ext (fun i => dec_ptr true f dcap pcap m sg (a + i))
                               (fun i => dec_ptr false f dcap pcap m sg (a + i))); [reflexivity|].
        intros i Hi. apply IH; [lia|]. apply H. lia. }
      reflexivity.
Qed.

Lemma dec_agree : forall fuel dcap pcap m sid wa,
  vagree fuel pcap m sid wa -> dec_ptr true fuel dcap pcap m sid wa = dec_ptr false fuel dcap pcap m sid wa.
Proof. intros fuel. apply (dec_agree_le fuel fuel (le_n _)). Qed.

(* ------------------------------------------------------------------ strictly valid messages *)
Lemma In_map_zseq : forall {A} (g : Z -> A) k i, 0 <= i < Z.of_nat k -> In (g i) (map g (zseq 0 k)).
Proof. intros A g k i H. apply in_map. apply zseq_In. lia. Qed.

Lemma count_cap_le : forall n cap, Z.of_nat (count_cap n cap) <= Z.of_nat (Z.to_nat n).
Proof. intros. unfold count_cap. lia. Qed.

Definition all_strict (m : list (list Z)) (x : Z * Z) : Prop :=
  forall z, reach m x z -> exists t, spec_resolve true m (fst z) (snd z) = Some t.

Lemma all_strict_child : forall m x y, all_strict m x -> child m x y -> all_strict m y.
Proof. intros m x y H C z R. apply H. eapply reach_step; eauto. Qed.

Lemma vagree_of_all_strict_le : forall n fuel, (fuel <= n)%nat -> forall pcap m sid wa,
  all_strict m (sid, wa) -> vagree fuel pcap m sid wa.
Proof.
  induction n as [|n IH]; intros fuel Hle pcap m sid wa H.
  - assert (fuel = O) by lia. subst fuel. cbn [vagree].
    destruct (H (sid, wa) (reach_refl m _)) as [t SR]. cbn [fst snd] in SR.
    rewrite (spec_resolve_strict_lenient _ _ _ _ SR), SR. split; [reflexivity|exact Logic.I].
  - destruct (H (sid, wa) (reach_refl m _)) as [t SR]. cbn [fst snd] in SR.
    pose proof (spec_resolve_strict_lenient _ _ _ _ SR) as SL.
    destruct fuel as [|f]; cbn [vagree]; rewrite SL, SR; (split; [reflexivity|]); [exact Logic.I|].
    assert (CH : forall y, In y (ptr_slots t) -> all_strict m y).
    { intros y Hy. eapply all_strict_child; [exact H|]. exists t. cbn [fst snd]. split; assumption. }
    destruct t as [|i|sg a dw pc|sg a e k dw pc]; try exact Logic.I.
    + intros i Hi. apply IH; [lia|]. apply CH. cbn [ptr_slots sv_seg sv_of_struct].
      replace (sv_ptr_word (sv_of_struct sg a dw pc) i) with (a + dw + i)
        by (unfold sv_ptr_word, sv_of_struct; cbn [sv_boff sv_db]; lia).
      apply (In_map_zseq (fun i => (sg, a + dw + i))). unfold sv_of_struct in Hi. cbn [sv_pc] in Hi.
      pose proof (count_cap_le pc pcap). lia.
    + destruct (e =? 6) eqn:E6.
      * intros i Hi. apply IH; [lia|]. apply CH. cbn [ptr_slots]. rewrite E6.
        apply (In_map_zseq (fun i => (sg, a + i))). pose proof (count_cap_le k pcap). lia.
      * destruct (e =? 7) eqn:E7; [|exact Logic.I]. destruct f as [|f']; [exact Logic.I|].
        intros i Hi j Hj. apply IH; [lia|]. apply CH. cbn [ptr_slots sv_seg]. rewrite E6, E7.
        assert (Hpc : (0 <? pc) = true) by (cbn [sv_pc] in Hj; unfold count_cap in Hj; lia).
        rewrite Hpc. cbn [andb]. apply in_flat_map. exists i. split.
        { apply zseq_In. pose proof (count_cap_le k pcap). lia. }
        replace (sv_ptr_word (mkSV sg (8 * (a + i * (dw + pc))) (8 * dw) pc) j) with (a + i * (dw + pc) + dw + j)
          by (unfold sv_ptr_word; cbn [sv_boff sv_db]; lia).
        apply (In_map_zseq (fun j => (sg, a + i * (dw + pc) + dw + j))).
        cbn [sv_pc] in Hj. pose proof (count_cap_le pc pcap). lia.
Qed.

(* on a strictly valid message the strict and the lenient decoder give the same tree and cost,
   for every fuel and caps *)
Theorem strict_valid_decoders_agree : forall fuel0 m, strict_valid_message fuel0 m = VOk ->
  forall fuel dcap pcap, dec_ptr true fuel dcap pcap m 0 0 = dec_ptr false fuel dcap pcap m 0 0.
Proof.
  intros fuel0 m V fuel dcap pcap. apply dec_agree.
  apply (vagree_of_all_strict_le fuel fuel (le_n _)).
  intros z R. destruct (strict_valid_sound fuel0 m V) as (_ & A & _).
  destruct (A z R) as (t & St & _). exists t. exact St.
Qed.

(* hence: on a strictly valid message, read from the root with sufficient limits, the generic
   walker over the Go-faithful accessors returns exactly the STRICT specification tree (same
   premises as walk_eq_spec; [vrepr] is still needed: a strictly valid composite list of
   zero-sized elements may announce 2^29 or more elements, which the reader refuses) *)
Theorem strict_valid_walk : forall (c : config) fuel0 (m : list (list Z)) (dcap pcap : Z),
  cfg_strict c = true -> bytes_ok m -> segs_small m -> strict_valid_message fuel0 m = VOk ->
  forall fuel rl s depth,
  seg_at m 0 = Some s -> in_words s 0 1 = true ->
  Z.of_nat fuel < depth < 18446744073709551616 -> 0 <= rl ->
  spec_cost true fuel dcap pcap m 0 0 <= rl ->
  vrepr fuel pcap m 0 0 ->
  (let '(r, rl1) := readPtr true m rl 0 s (8 * 0) depth in
   walk c (mkFix true true true) m dcap pcap fuel rl1 r)
  = (spec_decode true fuel dcap pcap m 0 0, rl - spec_cost true fuel dcap pcap m 0 0).
Proof.
  intros c fuel0 m dcap pcap Hc Hb Hs V fuel rl s depth Hseg Hin Hd Hrl HC HV.
  unfold spec_decode, spec_cost in *. rewrite (strict_valid_decoders_agree fuel0 m V fuel dcap pcap) in *.
  apply (walk_eq_spec c m dcap pcap Hc Hb Hs fuel rl 0 s 0 depth); assumption.
Qed.

(* non-vacuity: the three-segment message of SpecExamples meets every premise *)
From CV Require Import Spec.SpecExamples.
Example strict_valid_walk_applies :
  (let '(r, rl1) := readPtr true ex_msg 1000000 0 (nth 0 ex_msg []) (8 * 0) 64 in
   walk ex_cfg (mkFix true true true) ex_msg 64 8 6 rl1 r)
  = (spec_decode true 6 64 8 ex_msg 0 0, 1000000 - spec_cost true 6 64 8 ex_msg 0 0)
  /\ spec_decode true 6 64 8 ex_msg 0 0 = ex_tree.
Proof.
  split; [|vm_compute; reflexivity].
  apply (strict_valid_walk ex_cfg 8%nat ex_msg 64 8 eq_refl ex_bytes_ok ex_segs_small ex_msg_strictly_valid
                           6%nat 1000000 (nth 0 ex_msg []) 64).
  - reflexivity.
  - reflexivity.
  - cbn; lia.
  - lia.
  - vm_compute. discriminate.
  - apply vrepr_check_sound. vm_compute. reflexivity.
Qed.
