(* Proofs for property C03: the L0 extractors of Core/Arith.v are the specification's
   pointer fields; readPtr of Core/Reader.v refines spec_resolve of Spec/Spec.v (soundness on
   any input, completeness when limits suffice); the accessors return the specification's
   values; the walker computes spec_decode. *)
From CV Require Import Core.Arith Core.ArithFacts Core.Reader Core.ReadOps Spec.Spec.
From Coq Require Import ZifyBool ZifyNat ZifyN Lia.
Ltac Zify.zify_post_hook ::= Z.div_mod_to_equations.
Open Scope Z_scope.

Definition word64 (w : Z) : Prop := 0 <= w < 18446744073709551616.

(* ------------------------------------------------------------------ ptr_fields_spec *)
Lemma pointerType_spec : forall w, word64 w ->
  pointerType w = if ptr_kind w =? 2 then 2 + 4 * far_two w else ptr_kind w.
Proof.
  intros w H. unfold word64 in H. unfold pointerType, ptr_kind, far_two.
  destruct (w mod 4 =? 2) eqn:E; lia.
Qed.

Lemma ptr_offset_spec : forall w, word64 w -> ptr_offset w = off30 w.
Proof.
  intros w H. unfold word64 in H. unfold ptr_offset, off30, signed30, s32.
  destruct (w mod 4294967296 <? 2147483648) eqn:E1;
  destruct ((w / 4) mod 1073741824 <? 536870912) eqn:E2; lia.
Qed.

Lemma structSize_spec : forall w, word64 w -> structSize w = mkOS (8 * st_dwords w) (st_pcount w).
Proof.
  intros w H. unfold word64 in H. unfold structSize, st_dwords, st_pcount, timesUnchecked, u32.
  f_equal; lia.
Qed.

Lemma listType_spec : forall w, listType w = ls_esz w.
Proof. reflexivity. Qed.

Lemma numListElements_spec : forall w, word64 w -> numListElements w = ls_count w.
Proof.
  intros w H. unfold word64 in H. unfold numListElements, ls_count, s32.
  destruct ((w / 34359738368) mod 4294967296 <? 2147483648) eqn:E; lia.
Qed.

Lemma farAddress_spec : forall w, word64 w -> farAddress w = 8 * far_off w.
Proof. intros w H. unfold word64 in H. unfold farAddress, far_off, u32. lia. Qed.

Lemma farSegment_spec : forall w, farSegment w = far_seg w.
Proof. reflexivity. Qed.

Lemma capabilityIndex_spec : forall w, capabilityIndex w = cap_index w.
Proof. reflexivity. Qed.

Lemma otherPointerType_spec : forall w, word64 w -> otherPointerType w = cap_zero w.
Proof. intros w H. unfold word64 in H. unfold otherPointerType, cap_zero, u32. lia. Qed.

(* the near pointer synthesised from a double-far landing pad: the tag's kind and sizes,
   with the far pointer's word offset as offset (the tag's own offset field is dropped) *)
Lemma landingPadNearPointer_spec : forall far tag, word64 far -> word64 tag ->
  far mod 8 = 2 \/ tag mod 4 < 2 ->
  landingPadNearPointer far tag =
  (tag / 4294967296) * 4294967296 + 4 * far_off far + 2 * far_two far + tag mod 4.
Proof.
  intros far tag Hf Ht Hd. rewrite landingPadNearPointer_sum by exact Hd.
  unfold word64 in *. unfold far_off, far_two, u32. lia.
Qed.

Lemma landing_fields : forall far tag, word64 far -> word64 tag -> far_two far = 0 -> ptr_kind tag < 2 ->
  let v := landingPadNearPointer far tag in
  word64 v /\ ptr_kind v = ptr_kind tag /\ off30 v = far_off far /\
  st_dwords v = st_dwords tag /\ st_pcount v = st_pcount tag /\
  ls_esz v = ls_esz tag /\ ls_count v = ls_count tag.
Proof.
  intros far tag Hf Ht H2 Hk v. subst v. rewrite landingPadNearPointer_spec by (try assumption; right; exact Hk).
  rewrite H2. unfold word64 in *.
  unfold ptr_kind, off30, signed30, far_off, st_dwords, st_pcount, ls_esz, ls_count.
  repeat split; try lia.
  destruct (_ <? 536870912) eqn:E; lia.
Qed.

Theorem ptr_fields_spec : forall w, word64 w ->
  pointerType w = (if ptr_kind w =? 2 then 2 + 4 * far_two w else ptr_kind w) /\
  ptr_offset w = off30 w /\
  structSize w = mkOS (8 * st_dwords w) (st_pcount w) /\
  listType w = ls_esz w /\
  numListElements w = ls_count w /\
  farAddress w = 8 * far_off w /\
  farSegment w = far_seg w /\
  capabilityIndex w = cap_index w /\
  otherPointerType w = cap_zero w /\
  (forall tag, word64 tag -> w mod 8 = 2 \/ tag mod 4 < 2 ->
     landingPadNearPointer w tag =
     (tag / 4294967296) * 4294967296 + 4 * far_off w + 2 * far_two w + tag mod 4).
Proof.
  intros w H. repeat split.
  - apply pointerType_spec; assumption.
  - apply ptr_offset_spec; assumption.
  - apply structSize_spec; assumption.
  - apply numListElements_spec; assumption.
  - apply farAddress_spec; assumption.
  - apply otherPointerType_spec; assumption.
  - intros; apply landingPadNearPointer_spec; assumption.
Qed.

(* ------------------------------------------------------------------ field ranges *)
Lemma ptr_kind_range : forall w, 0 <= ptr_kind w < 4.
Proof. intros; unfold ptr_kind; lia. Qed.
Lemma off30_range : forall w, -536870912 <= off30 w < 536870912.
Proof. intros; unfold off30, signed30. destruct (_ <? _) eqn:E; lia. Qed.
Lemma st_dwords_range : forall w, 0 <= st_dwords w < 65536.
Proof. intros; unfold st_dwords; lia. Qed.
Lemma st_pcount_range : forall w, 0 <= st_pcount w < 65536.
Proof. intros; unfold st_pcount; lia. Qed.
Lemma ls_esz_range : forall w, 0 <= ls_esz w < 8.
Proof. intros; unfold ls_esz; lia. Qed.
Lemma ls_count_range : forall w, 0 <= ls_count w < 536870912.
Proof. intros; unfold ls_count; lia. Qed.
Lemma tag_count_range : forall w, 0 <= tag_count w < 1073741824.
Proof. intros; unfold tag_count; lia. Qed.
Lemma far_off_range : forall w, 0 <= far_off w < 536870912.
Proof. intros; unfold far_off; lia. Qed.
Lemma far_seg_range : forall w, 0 <= far_seg w < 4294967296.
Proof. intros; unfold far_seg; lia. Qed.
Lemma far_two_range : forall w, 0 <= far_two w < 2.
Proof. intros; unfold far_two; lia. Qed.
Lemma off30_tag_count : forall w, off30 w = signed30 (tag_count w).
Proof. reflexivity. Qed.

(* ------------------------------------------------------------------ bytes *)
Definition seg_ok (s : list Z) : Prop := Forall (fun b => 0 <= b < 256) s.
Definition bytes_ok (m : list (list Z)) : Prop := Forall seg_ok m.

Lemma byte_at_range : forall s i, seg_ok s -> 0 <= byte_at s i < 256.
Proof.
  intros s i H. unfold byte_at. destruct (i <? 0); [lia|].
  destruct (Nat.lt_ge_cases (Z.to_nat i) (length s)) as [L|L].
  - unfold seg_ok in H. rewrite Forall_forall in H. apply H. apply nth_In. exact L.
  - rewrite nth_overflow by exact L. lia.
Qed.

Lemma le_num_range : forall s n a, seg_ok s -> 0 <= le_num s a n < 256 ^ Z.of_nat n.
Proof.
  intros s n. induction n as [|n IH]; intros a H.
  - cbn. lia.
  - cbn [le_num]. specialize (IH (a + 1) H). pose proof (byte_at_range s a H).
    rewrite Nat2Z.inj_succ, Z.pow_succ_r by lia. lia.
Qed.

Lemma word_at_range : forall s w, seg_ok s -> word64 (word_at s w).
Proof.
  intros s w H. unfold word_at, word64. pose proof (le_num_range s 8 (8 * w) H) as R.
  change (256 ^ Z.of_nat 8) with 18446744073709551616 in R. exact R.
Qed.

Lemma skipn_S_cons : forall {A} k (s : list A) b r, skipn k s = b :: r -> skipn (S k) s = r.
Proof.
  induction k as [|k IH]; intros s b r H.
  - cbn in H. subst s. reflexivity.
  - destruct s as [|x s]; [discriminate|]. cbn [skipn] in H. apply IH in H. exact H.
Qed.

(* le_decode of a slice is le_num *)
Lemma le_decode_firstn_skipn : forall n s a, 0 <= a ->
  le_decode (firstn n (skipn (Z.to_nat a) s)) = le_num s a n.
Proof.
  induction n as [|n IH]; intros s a Ha.
  - reflexivity.
  - cbn [le_num]. unfold byte_at. destruct (a <? 0) eqn:E; [lia|].
    destruct (skipn (Z.to_nat a) s) as [|b r] eqn:Es.
    + cbn. assert (L : (length s <= Z.to_nat a)%nat).
      { apply Nat.nlt_ge. intro L. assert (length (skipn (Z.to_nat a) s) = O) by (rewrite Es; reflexivity).
        rewrite skipn_length in H. lia. }
      rewrite nth_overflow by exact L.
      rewrite <- (IH s (a + 1)) by lia.
      rewrite skipn_all2 by lia. destruct n; reflexivity.
    + cbn [firstn le_decode].
      assert (Hn : nth (Z.to_nat a) s 0 = b).
      { rewrite <- (firstn_skipn (Z.to_nat a) s) at 1. rewrite Es.
        assert (L : (Z.to_nat a <= length s)%nat).
        { apply Nat.nlt_ge. intro L. rewrite skipn_all2 in Es by lia. discriminate. }
        rewrite app_nth2; rewrite firstn_length_le by exact L; [|lia].
        rewrite Nat.sub_diag. reflexivity. }
      rewrite Hn. f_equal. f_equal.
      rewrite <- (IH s (a + 1)) by lia.
      replace (Z.to_nat (a + 1)) with (S (Z.to_nat a)) by lia.
      assert (Hs : skipn (S (Z.to_nat a)) s = r).
      { eapply skipn_S_cons. exact Es. }
      rewrite Hs. reflexivity.
Qed.

(* ------------------------------------------------------------------ memory access *)
Lemma zlen_blen : forall s : list Z, zlen s = blen s.
Proof. reflexivity. Qed.

Lemma lookup_seg_at : forall m id,
  lookup_segment m id = match seg_at m id with Some s => Ok s | None => Err end.
Proof.
  intros m id. unfold lookup_segment, seg_at, zlen. unfold segs, seg in *.
  destruct (id <? 0) eqn:E1; destruct (Z.of_nat (length m) <=? id) eqn:E2;
  destruct (0 <=? id) eqn:E3; destruct (id <? Z.of_nat (length m)) eqn:E4; cbn; try reflexivity; lia.
Qed.

(* a successful n-byte read: the address range is inside the segment, no wrap-around, and
   the value is the little-endian number the specification reads there *)
Lemma readUintN_inv : forall s a n v, 0 <= n < 4294967296 ->
  readUintN s a n = Ok v -> 0 <= a /\ a + n <= blen s /\ a + n < 4294967296 /\ v = le_num s a (Z.to_nat n).
Proof.
  intros s a n v Hn H. unfold readUintN, slice, addSizeUnchecked, u32 in H.
  destruct ((0 <=? a) && (a <=? (a + n) mod 4294967296) && ((a + n) mod 4294967296 <=? zlen s)) eqn:E;
    cbn in H; [|discriminate].
  unfold zlen in E. unfold blen.
  assert (He : (a + n) mod 4294967296 = a + n) by lia.
  rewrite He in *. inversion H; subst v.
  replace (a + n - a) with n by lia.
  rewrite le_decode_firstn_skipn by lia. repeat split; lia.
Qed.

Lemma readUintN_ok : forall s a n, 0 <= a -> 0 <= n -> a + n <= blen s -> a + n < 4294967296 ->
  readUintN s a n = Ok (le_num s a (Z.to_nat n)).
Proof.
  intros s a n Ha Hn Hb Hs. unfold readUintN, slice, addSizeUnchecked, u32. unfold blen in Hb.
  assert (He : (a + n) mod 4294967296 = a + n) by lia. rewrite He.
  destruct ((0 <=? a) && (a <=? a + n) && (a + n <=? zlen s)) eqn:E; [|unfold zlen in E; lia].
  cbn. replace (a + n - a) with n by lia. rewrite le_decode_firstn_skipn by lia. reflexivity.
Qed.

Lemma readRawPointer_inv : forall s wa v,
  readRawPointer s (8 * wa) = Ok v -> 0 <= wa /\ 8 * wa + 8 <= blen s /\ 8 * wa + 8 < 4294967296 /\ v = word_at s wa.
Proof.
  intros s wa v H. unfold readRawPointer in H. apply readUintN_inv in H; [|lia].
  unfold word_at. change (Z.to_nat 8) with 8%nat in H. lia.
Qed.

Lemma readRawPointer_ok : forall s wa, 0 <= wa -> 8 * wa + 8 <= blen s -> 8 * wa + 8 < 4294967296 ->
  readRawPointer s (8 * wa) = Ok (word_at s wa).
Proof.
  intros s wa H1 H2 H3. unfold readRawPointer. rewrite readUintN_ok by lia. reflexivity.
Qed.

(* ------------------------------------------------------------------ agreement of a Go result with the spec *)
(* [Ok]/[Some] related by R; both reject; the code may reject what the specification accepts
   only outside [good] (segments beyond the 32-bit address space, counts beyond 2^29);
   a panic never agrees. *)
Definition agrees {A B} (good : B -> Prop) (R : A -> B -> Prop) (r : res A) (o : option B) : Prop :=
  match r, o with
  | Ok a, Some b => R a b
  | Err, None => True
  | Err, Some b => ~ good b
  | _, _ => False
  end.

Definition seg_small (s : list Z) : Prop := blen s <= maxSegmentSize.

(* the Ptr that readStructPtr/readListPtr build for a target (depth and flags of the raw result) *)
Definition esz_size (e dw pc : Z) : ObjectSize :=
  if e =? 7 then mkOS (8 * dw) pc else if e =? 6 then mkOS 0 1 else mkOS (esz_bytes e) 0.

Definition ptr_of_target (depth capseg : Z) (t : target) : Ptr :=
  match t with
  | TgtNull => nullPtr
  | TgtCap i => mkPtr true capseg 0 i (mkOS 0 0) 0 KIface false false false
  | TgtStruct seg a dw pc => mkPtr true seg (8 * a) 0 (mkOS (8 * dw) pc) depth KStruct false false false
  | TgtList seg a e n dw pc => mkPtr true seg (8 * a) n (esz_size e dw pc) depth KList (e =? 7) (e =? 1) false
  end.

Definition list_repr (t : target) : Prop :=
  match t with TgtList _ _ _ n _ _ => n < 536870912 | _ => True end.

Lemma totalSize_words : forall dw pc, 0 <= dw < 65536 -> 0 <= pc < 65536 ->
  totalSize (mkOS (8 * dw) pc) = 8 * (dw + pc).
Proof. intros. unfold totalSize, pointerSize, u32. cbn [DataSize PointerCount]. lia. Qed.

Lemma struct_agrees : forall m dsid dst bw val,
  seg_at m dsid = Some dst -> word64 val -> ptr_kind val = 0 ->
  agrees (fun _ => seg_small dst) (fun p t => p = ptr_of_target 0 dsid t)
         (readStructPtr dsid dst (8 * bw) val) (spec_obj false m dsid (bw + off30 val) val).
Proof.
  intros m dsid dst bw val Hs Hw Hk.
  unfold readStructPtr, spec_obj. rewrite Hs, Hk. cbn [Z.eqb].
  rewrite ptr_offset_spec, structSize_spec by assumption.
  pose proof (st_dwords_range val) as R1. pose proof (st_pcount_range val) as R2.
  pose proof (off30_range val) as R3.
  rewrite totalSize_words by assumption.
  generalize dependent (st_dwords val). generalize dependent (st_pcount val). generalize dependent (off30 val).
  intros o Ro pc Rpc dw Rdw.
  unfold element, regionInBounds, addSize, in_words, seg_small, maxSegmentSize, zlen. unfold blen.
  destruct ((8 * bw + o * 8 >? 4294967288) || (8 * bw + o * 8 <? 0)) eqn:E1;
  [|destruct (8 * bw + o * 8 + 8 * (dw + pc) >? 4294967288) eqn:E3;
    [|destruct (8 * bw + o * 8 + 8 * (dw + pc) <=? Z.of_nat (length dst)) eqn:E4]];
  destruct ((0 <=? bw + o) && (8 * (bw + o + (dw + pc)) <=? Z.of_nat (length dst))) eqn:E2;
  unfold agrees; cbn [negb]; cbv beta iota; try lia; try exact I.
  unfold ptr_of_target. f_equal; lia.
Qed.

(* ------------------------------------------------------------------ readListPtr *)
Lemma totalListSize_spec : forall val, word64 val ->
  totalListSize val =
  if ls_esz val =? 7 then Some (times 8 (ls_count val + 1)) else Some (Some (list_bytes (ls_esz val) (ls_count val))).
Proof.
  intros val Hw. unfold totalListSize, elementSize. change (listType val) with (ls_esz val).
  rewrite numListElements_spec by assumption.
  pose proof (ls_count_range val) as Rn. pose proof (ls_esz_range val) as Re.
  generalize dependent (ls_count val). generalize dependent (ls_esz val). intros e Re n Rn.
  assert (He : e = 0 \/ e = 1 \/ e = 2 \/ e = 3 \/ e = 4 \/ e = 5 \/ e = 6 \/ e = 7) by lia.
  unfold list_bytes, bitListSize, timesUnchecked, totalSize, pointerSize, u32, s32.
  destruct He as [He|[He|[He|[He|[He|[He|[He|He]]]]]]]; subst e; cbn [Z.eqb Pos.eqb DataSize PointerCount];
    try (do 2 f_equal; lia).
  destruct ((n + 1) mod 4294967296 <? 2147483648) eqn:E; do 2 f_equal; lia.
Qed.

Lemma elementSize_spec : forall val, ls_esz val <> 7 ->
  elementSize val = Some (esz_size (ls_esz val) 0 0).
Proof.
  intros val H. unfold elementSize. change (listType val) with (ls_esz val).
  pose proof (ls_esz_range val) as Re. generalize dependent (ls_esz val). intros e H Re.
  assert (He : e = 0 \/ e = 1 \/ e = 2 \/ e = 3 \/ e = 4 \/ e = 5 \/ e = 6) by lia.
  unfold esz_size, esz_bytes.
  destruct He as [He|[He|[He|[He|[He|[He|He]]]]]]; subst e; reflexivity.
Qed.

Lemma list_bytes_range : forall e n, 0 <= n -> 0 <= list_bytes e n <= 8 * n.
Proof.
  intros e n Hn. unfold list_bytes.
  destruct (e =? 0); [lia|]. destruct (e =? 1); [lia|]. destruct (e =? 2); [lia|].
  destruct (e =? 3); [lia|]. destruct (e =? 4); lia.
Qed.

Lemma pointerType_struct : forall w, word64 w -> (pointerType w =? structPointer) = (ptr_kind w =? 0).
Proof.
  intros w H. rewrite pointerType_spec by assumption. unfold structPointer.
  pose proof (far_two_range w). destruct (ptr_kind w =? 2) eqn:E; lia.
Qed.

Lemma s32_small : forall x, -2147483648 <= x < 2147483648 -> s32 x = x.
Proof. intros x H. unfold s32. destruct (x mod 4294967296 <? 2147483648) eqn:E; lia. Qed.

Lemma list_agrees : forall m dsid dst bw val,
  seg_at m dsid = Some dst -> seg_ok dst -> word64 val -> ptr_kind val = 1 ->
  agrees (fun t => seg_small dst /\ list_repr t)
         (fun p t => p = ptr_of_target 0 dsid t /\ list_repr t /\ tgt_cost t <= maxSegmentSize)
         (readListPtr true dsid dst (8 * bw) val) (spec_obj false m dsid (bw + off30 val) val).
Proof.
  intros m dsid dst bw val Hs Hok Hw Hk.
  unfold readListPtr, spec_obj. rewrite Hs, Hk. cbn [Z.eqb Pos.eqb].
  rewrite ptr_offset_spec, totalListSize_spec by assumption.
  change (listType val) with (ls_esz val). rewrite numListElements_spec by assumption.
  pose proof (off30_range val) as Ro. pose proof (ls_count_range val) as Rn.
  pose proof (ls_esz_range val) as Re.
  assert (Ea : forall o, 8 * bw + o * 8 = 8 * (bw + o)) by (intros; lia).
  unfold element. rewrite Ea.
  set (a := bw + off30 val). set (n0 := ls_count val) in *.
  destruct (ls_esz val =? 7) eqn:E7.
  - (* composite *)
    set (n := n0) in *.
    pose proof (word_at_range dst a Hok) as Wt.
    set (tag := word_at dst a) in *.
    pose proof (st_dwords_range tag) as Rdw. pose proof (st_pcount_range tag) as Rpc.
    pose proof (tag_count_range tag) as Rc.
    cbn [negb orb]. rewrite Bool.andb_true_r.
    unfold times, regionInBounds, addSize, in_words, maxSegmentSize, zlen, blen. cbv zeta.
    destruct ((0 <=? a) && (8 * (a + (1 + n)) <=? Z.of_nat (length dst))) eqn:S1.
    2:{ destruct ((8 * a >? 4294967288) || (8 * a <? 0)) eqn:G1; [exact I|].
        destruct ((8 * (n + 1) >? 4294967288) || (8 * (n + 1) <? 0)) eqn:T1; [exact I|].
        destruct (8 * a + 8 * (n + 1) >? 4294967288) eqn:G2; [exact I|].
        destruct (8 * a + 8 * (n + 1) <=? Z.of_nat (length dst)) eqn:G3; [lia|exact I]. }
    destruct ((8 * a >? 4294967288) || (8 * a <? 0)) eqn:G1.
    { assert (NS : ~ seg_small dst) by (unfold seg_small, maxSegmentSize, blen; lia).
      destruct (ptr_kind tag =? 0); [|exact I]. destruct ((0 <=? a + 1) && _); unfold agrees; cbn [negb]; cbv beta iota; tauto. }
    destruct ((8 * (n + 1) >? 4294967288) || (8 * (n + 1) <? 0)) eqn:T1.
    { assert (NS : ~ seg_small dst) by (unfold seg_small, maxSegmentSize, blen; lia).
      destruct (ptr_kind tag =? 0); [|exact I]. destruct ((0 <=? a + 1) && _); unfold agrees; cbn [negb]; cbv beta iota; tauto. }
    destruct (8 * a + 8 * (n + 1) >? 4294967288) eqn:G2.
    { assert (NS : ~ seg_small dst) by (unfold seg_small, maxSegmentSize, blen; lia).
      destruct (ptr_kind tag =? 0); [|exact I]. destruct ((0 <=? a + 1) && _); unfold agrees; cbn [negb]; cbv beta iota; tauto. }
    destruct (8 * a + 8 * (n + 1) <=? Z.of_nat (length dst)) eqn:G3; [|lia].
    cbn [negb]. cbv beta iota.
    rewrite readRawPointer_ok by (unfold blen; lia). fold tag. cbn [bind].
    destruct (8 * a + 8 >? 4294967288) eqn:G4; [lia|].
    rewrite pointerType_struct by assumption.
    destruct (ptr_kind tag =? 0) eqn:S2; cbn [negb]; cbv beta iota; [|exact I].
    rewrite structSize_spec, ptr_offset_spec by assumption.
    rewrite totalSize_words by assumption.
    pose proof (off30_range tag) as Rot.
    rewrite s32_small by lia. rewrite off30_tag_count. unfold signed30. cbn [andb].
    set (cnt := tag_count tag) in *. set (dw := st_dwords tag) in *. set (pc := st_pcount tag) in *.
    destruct (cnt <? 536870912) eqn:C.
    2:{ destruct (cnt - 1073741824 <? 0) eqn:C2; [|lia].
        destruct ((0 <=? a + 1) && _); unfold agrees; cbv beta iota; [|exact I]. unfold list_repr. lia. }
    destruct (cnt <? 0) eqn:C2; [lia|].
    assert (HP : 0 <= cnt * (dw + pc)) by (apply Z.mul_nonneg_nonneg; lia).
    replace (8 * (dw + pc) * cnt) with (8 * (cnt * (dw + pc))) by ring.
    set (P := cnt * (dw + pc)) in *.
    destruct ((0 <=? a + 1) && (8 * (a + 1 + P) <=? Z.of_nat (length dst))) eqn:S3;
    (destruct ((8 * P >? 4294967288) || (8 * P <? 0)) eqn:G5;
     [|destruct (8 * a + 8 + 8 * P >? 4294967288) eqn:G6;
       [|destruct (8 * a + 8 + 8 * P <=? Z.of_nat (length dst)) eqn:G7]]);
    unfold agrees; cbn [negb]; cbv beta iota; try (unfold seg_small, maxSegmentSize, blen; lia); try exact I.
    split; [|split].
    + unfold ptr_of_target, esz_size. cbn [Z.eqb Pos.eqb]. f_equal. lia.
    + unfold list_repr. lia.
    + unfold tgt_cost, elem_charge, maxSegmentSize. cbn [Z.eqb Pos.eqb].
      destruct (dw + pc =? 0) eqn:Z0; [lia|].
      replace (cnt * (8 * (dw + pc))) with (8 * P) by (unfold P; ring). lia.
  - rewrite elementSize_spec by lia.
    pose proof (list_bytes_range (ls_esz val) n0 (proj1 Rn)) as RL.
    set (L := list_bytes (ls_esz val) n0) in *.
    unfold regionInBounds, addSize, in_bytes, maxSegmentSize, zlen, blen.
    destruct ((0 <=? a) && (8 * a + L <=? Z.of_nat (length dst))) eqn:E4;
    (destruct ((8 * a >? 4294967288) || (8 * a <? 0)) eqn:E1;
    [|destruct (8 * a + L >? 4294967288) eqn:E2; [|destruct (8 * a + L <=? Z.of_nat (length dst)) eqn:E3]]);
    unfold agrees; cbn [negb]; cbv beta iota; try (unfold seg_small, maxSegmentSize, blen; lia); try exact I.
    assert (G : forall q, q = ptr_of_target 0 dsid (TgtList dsid a (ls_esz val) n0 0 0) ->
                match Ok q with
                | Ok a0 => a0 = ptr_of_target 0 dsid (TgtList dsid a (ls_esz val) n0 0 0) /\
                           list_repr (TgtList dsid a (ls_esz val) n0 0 0) /\
                           tgt_cost (TgtList dsid a (ls_esz val) n0 0 0) <= maxSegmentSize
                | Err => ~ (seg_small dst /\ list_repr (TgtList dsid a (ls_esz val) n0 0 0))
                | Panic => False
                end); [|destruct (ls_esz val =? 1) eqn:E1b; apply G; unfold ptr_of_target; rewrite E7, ?E1b; f_equal;
                        unfold esz_size; rewrite E7; assert (H1 : ls_esz val = 1) by lia; rewrite H1; reflexivity].
    intros q Hq. cbv beta iota. split; [exact Hq|split].
    + unfold list_repr. lia.
    + unfold tgt_cost, maxSegmentSize.
      assert (Hc : 1 <= elem_charge (ls_esz val) 0 0 <= 8).
      { unfold elem_charge, esz_bytes. rewrite E7.
        destruct (ls_esz val =? 6); [lia|]. destruct (ls_esz val =? 2); [cbn; lia|].
        destruct (ls_esz val =? 3); [cbn; lia|]. destruct (ls_esz val =? 4); [cbn; lia|].
        destruct (ls_esz val =? 5); cbn; lia. }
      nia.
Qed.

(* ------------------------------------------------------------------ facts about spec targets *)
Definition tgt_wf (t : target) : Prop :=
  match t with
  | TgtStruct _ a dw pc => 0 <= a /\ 0 <= dw < 65536 /\ 0 <= pc < 65536
  | TgtList _ a e n dw pc =>
    0 <= a /\ 0 <= e < 8 /\ 0 <= n < 1073741824 /\ 0 <= dw < 65536 /\ 0 <= pc < 65536 /\
    (e <> 7 -> dw = 0 /\ pc = 0 /\ n < 536870912)
  | TgtCap i => 0 <= i < 4294967296
  | TgtNull => True
  end.

(* the bytes a target designates lie inside its segment (for a composite list also the tag) *)
Definition tgt_inside (m : list (list Z)) (t : target) : Prop :=
  match t with
  | TgtStruct seg a dw pc => exists s, seg_at m seg = Some s /\ 0 <= a /\ 8 * (a + dw + pc) <= blen s
  | TgtList seg a e n dw pc =>
    exists s, seg_at m seg = Some s /\ 0 <= a /\
              (if e =? 7 then 1 <= a /\ 8 * (a + n * (dw + pc)) <= blen s
               else 8 * a + list_bytes e n <= blen s)
  | _ => True
  end.

Lemma spec_obj_facts : forall strict m sid a w t, ptr_kind w = 0 \/ ptr_kind w = 1 ->
  spec_obj strict m sid a w = Some t ->
  tgt_wf t /\ tgt_inside m t /\
  match t with TgtStruct s _ _ _ => s = sid /\ ptr_kind w = 0 | TgtList s _ _ _ _ _ => s = sid /\ ptr_kind w = 1 | _ => False end.
Proof.
  intros strict m sid a w t Hk H. unfold spec_obj in H.
  destruct (seg_at m sid) as [s|] eqn:Hs; [|discriminate].
  pose proof (st_dwords_range w). pose proof (st_pcount_range w).
  pose proof (ls_esz_range w). pose proof (ls_count_range w).
  destruct (ptr_kind w =? 0) eqn:K.
  - destruct (in_words s a (st_dwords w + st_pcount w)) eqn:B; [|discriminate].
    inversion H; subst t. unfold in_words in B. cbn [tgt_wf tgt_inside].
    repeat split; try lia. exists s. repeat split; try assumption; lia.
  - destruct (ls_esz w =? 7) eqn:E7.
    + destruct (in_words s a (1 + ls_count w)) eqn:B1; [|discriminate].
      destruct (ptr_kind (word_at s a) =? 0) eqn:K2; [|discriminate].
      destruct (in_words s (a + 1) (tag_count (word_at s a) * (st_dwords (word_at s a) + st_pcount (word_at s a))) && _) eqn:B2;
        [|discriminate].
      inversion H; subst t. unfold in_words in *.
      pose proof (st_dwords_range (word_at s a)). pose proof (st_pcount_range (word_at s a)).
      pose proof (tag_count_range (word_at s a)).
      cbn [tgt_wf tgt_inside]. repeat split; try lia.
      exists s. cbn [Z.eqb Pos.eqb]. repeat split; try assumption; lia.
    + destruct (in_bytes s a (list_bytes (ls_esz w) (ls_count w))) eqn:B; [|discriminate].
      inversion H; subst t. unfold in_bytes in B. cbn [tgt_wf tgt_inside].
      repeat split; try lia. exists s. rewrite E7. repeat split; try assumption; lia.
Qed.

(* ------------------------------------------------------------------ readPtr after far resolution *)
Definition readPtr_tail (m : segs) (rl dsid : Z) (dst : seg) (base val depth : Z) : res Ptr * Z :=
  if val =? 0 then (Ok nullPtr, rl)
  else if depth =? 0 then (Err, rl)
  else
    let pt := pointerType val in
    if pt =? structPointer then
      match readStructPtr dsid dst base val with
      | Ok sp =>
        let '(ok, rl') := canRead rl (struct_readSize sp) in
        if ok then (Ok (mkPtr true (p_seg sp) (p_off sp) 0 (p_size sp) (uint_dec depth) KStruct false false false), rl')
        else (Err, rl')
      | Err => (Err, rl)
      | Panic => (Panic, rl)
      end
    else if pt =? listPointer then
      match readListPtr true dsid dst base val with
      | Ok lp =>
        let '(ok, rl') := canRead rl (list_readSize lp) in
        if ok then (Ok (mkPtr true (p_seg lp) (p_off lp) (p_len lp) (p_size lp) (uint_dec depth) KList
                               (p_comp lp) (p_bit lp) false), rl')
        else (Err, rl')
      | Err => (Err, rl)
      | Panic => (Panic, rl)
      end
    else if pt =? otherPointer then
      if negb (otherPointerType val =? 0) then (Err, rl)
      else (Ok (mkPtr true dsid 0 (capabilityIndex val) (mkOS 0 0) 0 KIface false false false), rl)
    else (Err, rl).

Lemma readPtr_unfold : forall m rl sid s paddr depth,
  readPtr true m rl sid s paddr depth =
  match resolveFarPointer true m sid s paddr with
  | Err => (Err, rl)
  | Panic => (Panic, rl)
  | Ok (dsid, dst, base, val) => readPtr_tail m rl dsid dst base val depth
  end.
Proof. reflexivity. Qed.

Lemma struct_readSize_target : forall d cs seg a dw pc, tgt_wf (TgtStruct seg a dw pc) ->
  struct_readSize (ptr_of_target d cs (TgtStruct seg a dw pc)) = tgt_cost (TgtStruct seg a dw pc).
Proof.
  intros d cs seg a dw pc W. cbn [tgt_wf] in W. unfold struct_readSize, ptr_of_target. cbn [p_valid p_size tgt_cost].
  apply totalSize_words; lia.
Qed.

Lemma list_readSize_target : forall d cs seg a e n dw pc,
  tgt_wf (TgtList seg a e n dw pc) -> tgt_cost (TgtList seg a e n dw pc) <= maxSegmentSize ->
  list_readSize (ptr_of_target d cs (TgtList seg a e n dw pc)) = tgt_cost (TgtList seg a e n dw pc).
Proof.
  intros d cs seg a e n dw pc W C. cbn [tgt_wf] in W. destruct W as (Ha & He & Hn & Hdw & Hpc & Hz).
  unfold list_readSize, ptr_of_target. cbn [p_valid p_size p_len tgt_cost] in *.
  assert (Hc : 1 <= elem_charge e dw pc).
  { unfold elem_charge, esz_bytes. destruct (e =? 7); [destruct (dw + pc =? 0) eqn:Z0; lia|].
    destruct (e =? 6); [lia|]. destruct (e =? 2); [cbn; lia|]. destruct (e =? 3); [cbn; lia|].
    destruct (e =? 4); [cbn; lia|]. destruct (e =? 5); cbn; lia. }
  assert (Ht : (if totalSize (esz_size e dw pc) =? 0 then wordSize else totalSize (esz_size e dw pc)) = elem_charge e dw pc).
  { unfold esz_size, elem_charge, wordSize. destruct (e =? 7) eqn:E7.
    - rewrite totalSize_words by lia. destruct (dw + pc =? 0) eqn:Z0; destruct (8 * (dw + pc) =? 0) eqn:Z1; lia.
    - destruct (e =? 6) eqn:E6; [reflexivity|].
      unfold esz_bytes. destruct (e =? 2); [reflexivity|]. destruct (e =? 3); [reflexivity|].
      destruct (e =? 4); [reflexivity|]. destruct (e =? 5); reflexivity. }
  cbv zeta. rewrite Ht. unfold times. cbv zeta.
  assert (0 <= elem_charge e dw pc * n) by nia.
  replace (n * elem_charge e dw pc) with (elem_charge e dw pc * n) in * by ring.
  unfold maxSegmentSize in *.
  destruct ((elem_charge e dw pc * n >? 4294967288) || (elem_charge e dw pc * n <? 0)) eqn:E; [lia|reflexivity].
Qed.

Definition tail_expect (rl depth dsid : Z) (t : target) : res Ptr * Z :=
  match t with
  | TgtNull => (Ok nullPtr, rl)
  | TgtCap _ => if depth =? 0 then (Err, rl) else (Ok (ptr_of_target (uint_dec depth) dsid t), rl)
  | _ => if depth =? 0 then (Err, rl)
         else if rl >=? tgt_cost t then (Ok (ptr_of_target (uint_dec depth) dsid t), rl - tgt_cost t)
         else (Err, 0)
  end.

Lemma tail_spec : forall m rl dsid dst wa val depth,
  seg_at m dsid = Some dst -> seg_ok dst -> word64 val ->
  match spec_near false m dsid wa val with
  | None => readPtr_tail m rl dsid dst (8 * (wa + 1)) val depth = (Err, rl)
  | Some t =>
    tgt_wf t /\ tgt_inside m t /\
    ((readPtr_tail m rl dsid dst (8 * (wa + 1)) val depth = tail_expect rl depth dsid t /\ list_repr t) \/
     (readPtr_tail m rl dsid dst (8 * (wa + 1)) val depth = (Err, rl) /\ ~ (seg_small dst /\ list_repr t)))
  end.
Proof.
  intros m rl dsid dst wa val depth Hs Hok Hw.
  unfold spec_near, readPtr_tail.
  destruct (val =? 0) eqn:V0.
  { cbn [tgt_wf tgt_inside tail_expect list_repr]. auto. }
  rewrite pointerType_spec by assumption. cbv zeta.
  pose proof (ptr_kind_range val) as Rk. pose proof (far_two_range val) as R2.
  unfold structPointer, listPointer, otherPointer.
  destruct (ptr_kind val =? 3) eqn:K3.
  { assert (K : ptr_kind val = 3) by lia. rewrite K. cbn [Z.eqb Pos.eqb].
    rewrite otherPointerType_spec by assumption. change (capabilityIndex val) with (cap_index val).
    destruct (cap_zero val =? 0) eqn:CZ.
    - cbn [negb tgt_wf tgt_inside tail_expect ptr_of_target].
      split; [unfold cap_index; lia|]. split; [exact I|]. left. split; [|exact I].
      destruct (depth =? 0); reflexivity.
    - cbn [negb]. destruct (depth =? 0); reflexivity. }
  destruct (ptr_kind val =? 2) eqn:K2.
  { destruct (depth =? 0); [reflexivity|].
    destruct (2 + 4 * far_two val =? 0) eqn:A; [lia|].
    destruct (2 + 4 * far_two val =? 1) eqn:B; [lia|].
    destruct (2 + 4 * far_two val =? 3) eqn:C; [lia|]. reflexivity. }
  destruct (ptr_kind val =? 0) eqn:K0.
  - assert (K : ptr_kind val = 0) by lia.
    pose proof (struct_agrees m dsid dst (wa + 1) val Hs Hw K) as A.
    destruct (spec_obj false m dsid (wa + 1 + off30 val) val) as [t|] eqn:So.
    + destruct (spec_obj_facts _ _ _ _ _ _ (or_introl K) So) as (W & I & T).
      destruct t as [| |seg a dw pc|]; try contradiction; try (exfalso; destruct T; lia). destruct T as [-> _].
      split; [exact W|]. split; [exact I|].
      destruct (readStructPtr dsid dst (8 * (wa + 1)) val) as [sp| |]; unfold agrees in A.
      * left. split; [|exact Logic.I]. subst sp. rewrite struct_readSize_target by exact W.
        unfold tail_expect. destruct (depth =? 0); [reflexivity|].
        unfold canRead. destruct (rl >=? tgt_cost (TgtStruct dsid a dw pc)); reflexivity.
      * right. split; [destruct (depth =? 0); reflexivity|]. tauto.
      * contradiction.
    + destruct (readStructPtr dsid dst (8 * (wa + 1)) val) as [sp| |]; unfold agrees in A; try contradiction.
      destruct (depth =? 0); reflexivity.
  - assert (K : ptr_kind val = 1) by lia. rewrite K. cbn [Z.eqb Pos.eqb].
    pose proof (list_agrees m dsid dst (wa + 1) val Hs Hok Hw K) as A.
    destruct (spec_obj false m dsid (wa + 1 + off30 val) val) as [t|] eqn:So.
    + destruct (spec_obj_facts _ _ _ _ _ _ (or_intror K) So) as (W & I & T).
      destruct t as [| | |seg a e n dw pc]; try contradiction; try (exfalso; destruct T; lia). destruct T as [-> _].
      split; [exact W|]. split; [exact I|].
      destruct (readListPtr true dsid dst (8 * (wa + 1)) val) as [lp| |]; unfold agrees in A.
      * left. destruct A as (-> & Hr & Hc). split; [|exact Hr]. rewrite list_readSize_target by assumption.
        unfold tail_expect. destruct (depth =? 0); [reflexivity|].
        unfold canRead. destruct (rl >=? tgt_cost (TgtList dsid a e n dw pc)); reflexivity.
      * right. split; [destruct (depth =? 0); reflexivity|]. exact A.
      * contradiction.
    + destruct (readListPtr true dsid dst (8 * (wa + 1)) val) as [lp| |]; unfold agrees in A; try contradiction.
      destruct (depth =? 0); reflexivity.
Qed.

(* ------------------------------------------------------------------ far pointers *)
Definition segs_small (m : list (list Z)) : Prop := Forall seg_small m.

Lemma seg_at_In : forall m d x, seg_at m d = Some x -> In x m.
Proof.
  intros m d x H. unfold seg_at in H.
  destruct ((d <? 0) || (Z.of_nat (length m) <=? d)) eqn:E; [discriminate|].
  inversion H. apply nth_In. lia.
Qed.

Lemma seg_at_ok : forall m d x, bytes_ok m -> seg_at m d = Some x -> seg_ok x.
Proof. intros m d x B H. unfold bytes_ok in B. rewrite Forall_forall in B. apply B. eapply seg_at_In; eauto. Qed.

Lemma seg_at_small : forall m d x, segs_small m -> seg_at m d = Some x -> seg_small x.
Proof. intros m d x B H. unfold segs_small in B. rewrite Forall_forall in B. apply B. eapply seg_at_In; eauto. Qed.

Lemma lookup_or_self : forall (m : segs) sid (s : seg) d, seg_at m sid = Some s ->
  (if d =? sid then Ok s else lookup_segment m d) = match seg_at m d with Some x => Ok x | None => Err end.
Proof.
  intros m sid s d H. destruct (d =? sid) eqn:E.
  - assert (d = sid) by lia. subst d. rewrite H. reflexivity.
  - apply lookup_seg_at.
Qed.

Lemma spec_obj_same_fields : forall strict m d a v t,
  ptr_kind v = ptr_kind t -> st_dwords v = st_dwords t -> st_pcount v = st_pcount t ->
  ls_esz v = ls_esz t -> ls_count v = ls_count t ->
  spec_obj strict m d a v = spec_obj strict m d a t.
Proof.
  intros strict m d a v t H1 H2 H3 H4 H5. unfold spec_obj. rewrite H1, H2, H3, H4, H5. reflexivity.
Qed.

(* the deviation of the code AS FOUND (repaired in ../repo, switch [strict] of
   resolveFarPointer): a double-far pointer whose landing pad says "zero-sized struct at
   word 0 of the target segment" (far offset 0, tag word 0) was read as null *)
Definition dfar_zero_pad (m : list (list Z)) (sid wa : Z) : bool :=
  match seg_at m sid with
  | None => false
  | Some s =>
    let w := word_at s wa in
    (ptr_kind w =? 2) && (far_two w =? 1) &&
    match seg_at m (far_seg w) with
    | None => false
    | Some ps => (word_at ps (far_off w + 1) =? 0) && (far_off (word_at ps (far_off w)) =? 0)
    end
  end.

Lemma spec_near_facts : forall strict m sid wa w t,
  spec_near strict m sid wa w = Some t -> tgt_wf t /\ tgt_inside m t.
Proof.
  intros strict m sid wa w t H. unfold spec_near in H.
  destruct (w =? 0); [inversion H; cbn [tgt_wf tgt_inside]; auto|].
  pose proof (ptr_kind_range w).
  destruct (ptr_kind w =? 3) eqn:K3.
  { destruct (cap_zero w =? 0); [|discriminate]. inversion H. cbn [tgt_wf tgt_inside]. unfold cap_index. split; [lia|exact I]. }
  destruct (ptr_kind w =? 2) eqn:K2; [discriminate|].
  apply spec_obj_facts in H; [tauto|lia].
Qed.

Lemma spec_resolve_facts : forall strict m sid wa t,
  spec_resolve strict m sid wa = Some t -> tgt_wf t /\ tgt_inside m t.
Proof.
  intros strict m sid wa t H. unfold spec_resolve in H.
  destruct (seg_at m sid) as [s|]; [|discriminate].
  destruct (negb (in_words s wa 1)); [discriminate|].
  destruct (ptr_kind (word_at s wa) =? 2).
  - destruct (seg_at m (far_seg (word_at s wa))) as [ps|]; [|discriminate].
    destruct (far_two (word_at s wa) =? 0).
    + destruct (in_words ps (far_off (word_at s wa)) 1); [|discriminate].
      eapply spec_near_facts; eauto.
    + destruct (in_words ps (far_off (word_at s wa)) 2); [|discriminate].
      destruct (_ && _) eqn:C in H; [|discriminate].
      apply spec_obj_facts in H; [tauto|].
      destruct (ptr_kind (word_at ps (far_off (word_at s wa) + 1)) =? 0) eqn:K0;
      destruct (ptr_kind (word_at ps (far_off (word_at s wa) + 1)) =? 1) eqn:K1;
      try (left; lia); try (right; lia).
  - eapply spec_near_facts; eauto.
Qed.

Lemma pointerType_far : forall f, word64 f ->
  (pointerType f =? farPointer) = (ptr_kind f =? 2) && (far_two f =? 0).
Proof.
  intros f H. rewrite pointerType_spec by assumption. unfold farPointer.
  pose proof (far_two_range f). pose proof (ptr_kind_range f).
  destruct (ptr_kind f =? 2) eqn:E; lia.
Qed.

Lemma tag_cond : forall t, word64 t ->
  ((negb (pointerType t =? structPointer) && negb (pointerType t =? listPointer)) || negb (ptr_offset t =? 0))
  = negb (((ptr_kind t =? 0) || (ptr_kind t =? 1)) && (off30 t =? 0)).
Proof.
  intros t H. rewrite pointerType_spec, ptr_offset_spec by assumption.
  unfold structPointer, listPointer.
  pose proof (far_two_range t). pose proof (ptr_kind_range t).
  destruct (ptr_kind t =? 2) eqn:E; lia.
Qed.

Lemma landing_zero_iff : forall f t, word64 f -> word64 t -> far_two f = 0 -> ptr_kind t < 2 -> off30 t = 0 ->
  (landingPadNearPointer f t =? 0) = (t =? 0) && (far_off f =? 0).
Proof.
  intros f t Hf Ht H2 Hk Ho. rewrite landingPadNearPointer_spec by (try assumption; right; exact Hk). rewrite H2.
  pose proof (far_off_range f). unfold word64 in *.
  unfold off30, signed30 in Ho. destruct ((t / 4) mod 1073741824 <? 536870912) eqn:E; lia.
Qed.

Lemma spec_obj_zero : forall strict m d ds, seg_at m d = Some ds ->
  spec_obj strict m d 0 0 = Some (TgtStruct d 0 0 0).
Proof.
  intros strict m d ds H. unfold spec_obj. rewrite H.
  change (ptr_kind 0 =? 0) with true. cbv iota.
  change (st_dwords 0) with 0. change (st_pcount 0) with 0.
  unfold in_words, blen. destruct ((0 <=? 0) && (8 * (0 + (0 + 0)) <=? Z.of_nat (length ds))) eqn:E; [reflexivity|lia].
Qed.

Definition never_ok (r : res Ptr * Z) : Prop := forall p rl', r <> (Ok p, rl').

Lemma never_ok_err : forall rl, never_ok (Err, rl).
Proof. intros rl p rl' H. discriminate. Qed.
Lemma never_ok_panic : forall rl, never_ok (Panic, rl).
Proof. intros rl p rl' H. discriminate. Qed.

Lemma not_small_seg : forall m d x, seg_at m d = Some x -> ~ seg_small x -> ~ segs_small m.
Proof. intros m d x H N S. apply N. eapply seg_at_small; eauto. Qed.

(* what the code does where the specification rejects: never a value; an error (not a panic)
   when the pointer word itself is inside its segment and segments fit the address space *)
Definition none_case (inb : Prop) (rl : Z) (r : res Ptr * Z) : Prop :=
  never_ok r /\ (inb -> r = (Err, rl)).

Lemma none_err : forall inb rl, none_case inb rl (Err, rl).
Proof. intros inb rl. split; [apply never_ok_err|reflexivity]. Qed.

Ltac close_ns NO NS :=
  match goal with
  | |- match ?X with _ => _ end =>
    destruct X; [right; split; [exact NO|tauto]|split; [exact NO|intros [_ SS]; exfalso; exact (NS SS)]]
  end.

Lemma readPtr_spec : forall m rl sid s wa depth,
  bytes_ok m -> seg_at m sid = Some s ->
  match spec_resolve false m sid wa with
  | None => none_case (in_words s wa 1 = true /\ segs_small m) rl (readPtr true m rl sid s (8 * wa) depth)
  | Some t =>
    (exists dsid, readPtr true m rl sid s (8 * wa) depth =
                  tail_expect rl depth dsid t /\ list_repr t)
    \/ (never_ok (readPtr true m rl sid s (8 * wa) depth) /\ ~ (segs_small m /\ list_repr t))
  end.
Proof.
  intros m rl sid s wa depth Hb Hs.
  pose proof (seg_at_ok _ _ _ Hb Hs) as Hok.
  rewrite readPtr_unfold. unfold spec_resolve. rewrite Hs. cbv zeta.
  destruct (in_words s wa 1) eqn:IW; cbn [negb].
  2:{ unfold resolveFarPointer. destruct (readRawPointer s (8 * wa)) as [v| |] eqn:RR; cbn [bind].
      - apply readRawPointer_inv in RR. unfold in_words in IW. lia.
      - split; [apply never_ok_err|intros [Q _]; discriminate].
      - split; [apply never_ok_panic|intros [Q _]; discriminate]. }
  unfold in_words in IW.
  destruct (8 * wa + 8 <? 4294967296) eqn:SM.
  2:{ assert (NO : never_ok match resolveFarPointer true m sid s (8 * wa) with
                            | Ok (dsid, dst, base, val) => readPtr_tail m rl dsid dst base val depth
                            | Err => (Err, rl) | Panic => (Panic, rl) end).
      { unfold resolveFarPointer. destruct (readRawPointer s (8 * wa)) as [v| |] eqn:RR; cbn [bind].
        - apply readRawPointer_inv in RR. lia.
        - apply never_ok_err.
        - apply never_ok_panic. }
      assert (NS : ~ segs_small m).
      { eapply not_small_seg; [exact Hs|]. unfold seg_small, maxSegmentSize. lia. }
      close_ns NO NS. }
  assert (RR : readRawPointer s (8 * wa) = Ok (word_at s wa)) by (apply readRawPointer_ok; lia).
  pose proof (word_at_range s wa Hok) as Hw.
  set (w := word_at s wa) in *.
  unfold resolveFarPointer. rewrite RR. cbn [bind]. cbv zeta.
  rewrite pointerType_spec by exact Hw.
  pose proof (ptr_kind_range w) as Rk. pose proof (far_two_range w) as R2.
  unfold doubleFarPointer, farPointer.
  destruct (ptr_kind w =? 2) eqn:K2.
  2:{ (* near pointer *)
      cbn [andb]. cbv iota. rewrite ?K2.
      destruct (ptr_kind w =? 6) eqn:K6; [lia|]. 
      unfold addSize, maxSegmentSize. cbv zeta.
      destruct (8 * wa + 8 >? 4294967288) eqn:A1.
      { assert (NS : ~ segs_small m).
        { eapply not_small_seg; [exact Hs|]. unfold seg_small, maxSegmentSize. lia. }
        pose proof (never_ok_err rl) as NO. close_ns NO NS. }
      replace (8 * wa + 8) with (8 * (wa + 1)) by lia.
      pose proof (tail_spec m rl sid s wa w depth Hs Hok Hw) as T.
      destruct (spec_near false m sid wa w) as [t|].
      - destruct T as (W & I & [E|[E NG]]).
        + left. exists sid. exact E.
        + right. split; [rewrite E; apply never_ok_err|].
          intros [S L]. apply NG. split; [eapply seg_at_small; eauto|exact L].
      - rewrite T. apply none_err. }
  (* far pointers *)
  cbv iota. rewrite ?K2. cbn [andb].
  change (farSegment w) with (far_seg w). rewrite (lookup_or_self m sid s (far_seg w) Hs).
  rewrite farAddress_spec by exact Hw.
  pose proof (far_off_range w) as Rpa. set (pa := far_off w) in *.
  destruct (seg_at m (far_seg w)) as [ps|] eqn:Hps.
  2:{ destruct (2 + 4 * far_two w =? 6) eqn:Q6; cbn [bind]; [apply none_err|].
      destruct (2 + 4 * far_two w =? 2) eqn:Q2; cbn [bind]; [apply none_err|]. lia. }
  pose proof (seg_at_ok _ _ _ Hb Hps) as Hokps.
  destruct (far_two w =? 0) eqn:F2.
  - (* single far *)
    replace (2 + 4 * far_two w) with 2 by lia. cbn [Z.eqb Pos.eqb bind].
    unfold regionInBounds, addSize, in_words, maxSegmentSize, zlen. cbv zeta.
    destruct ((0 <=? pa) && (8 * (pa + 1) <=? blen ps)) eqn:IP.
    2:{ destruct (8 * pa + 8 >? 4294967288) eqn:A1; cbn [negb]; [apply none_err|].
        destruct (8 * pa + 8 <=? Z.of_nat (length ps)) eqn:A2; cbn [negb]; [unfold blen in IP; lia|apply none_err]. }
    destruct (8 * pa + 8 >? 4294967288) eqn:A1; cbn [negb].
    { assert (NS : ~ segs_small m).
      { eapply not_small_seg; [exact Hps|]. unfold seg_small, maxSegmentSize. lia. }
      pose proof (never_ok_err rl) as NO. close_ns NO NS. }
    destruct (8 * pa + 8 <=? Z.of_nat (length ps)) eqn:A2; cbn [negb]; [|unfold blen in IP; lia].
    rewrite readRawPointer_ok by (unfold blen; lia). cbn [bind].
    replace (8 * pa + 8) with (8 * (pa + 1)) by lia.
    pose proof (word_at_range ps pa Hokps) as Hwp.
    pose proof (tail_spec m rl (far_seg w) ps pa (word_at ps pa) depth Hps Hokps Hwp) as T.
    destruct (spec_near false m (far_seg w) pa (word_at ps pa)) as [t|].
    + destruct T as (W & I & [E|[E NG]]).
      * left. exists (far_seg w). exact E.
      * right. split; [rewrite E; apply never_ok_err|].
        intros [S L]. apply NG. split; [eapply seg_at_small; eauto|exact L].
    + rewrite T. apply none_err.
  - (* double far *)
    replace (2 + 4 * far_two w) with 6 by lia. cbn [Z.eqb Pos.eqb bind].
    unfold regionInBounds, addSize, in_words, maxSegmentSize, zlen. cbv zeta.
    destruct ((0 <=? pa) && (8 * (pa + 2) <=? blen ps)) eqn:IP.
    2:{ destruct (8 * pa + 16 >? 4294967288) eqn:A1; cbn [negb]; [apply none_err|].
        destruct (8 * pa + 16 <=? Z.of_nat (length ps)) eqn:A2; cbn [negb]; [unfold blen in IP; lia|apply none_err]. }
    destruct (8 * pa + 16 >? 4294967288) eqn:A1; cbn [negb].
    { assert (NS : ~ segs_small m).
      { eapply not_small_seg; [exact Hps|]. unfold seg_small, maxSegmentSize. lia. }
      pose proof (never_ok_err rl) as NO. close_ns NO NS. }
    destruct (8 * pa + 16 <=? Z.of_nat (length ps)) eqn:A2; cbn [negb]; [|unfold blen in IP; lia].
    rewrite readRawPointer_ok by (unfold blen; lia). cbn [bind].
    pose proof (word_at_range ps pa Hokps) as Hf. set (f := word_at ps pa) in *.
    rewrite pointerType_far by exact Hf.
    destruct (8 * pa + 8 >? 4294967288) eqn:A3; [lia|].
    replace (8 * pa + 8) with (8 * (pa + 1)) by lia.
    pose proof (word_at_range ps (pa + 1) Hokps) as Ht. set (t := word_at ps (pa + 1)) in *.
    destruct ((ptr_kind f =? 2) && (far_two f =? 0)) eqn:C1; cbn [negb andb]; [|apply none_err].
    rewrite readRawPointer_ok by (unfold blen; lia). fold t. cbn [bind].
    rewrite tag_cond by exact Ht.
    destruct (((ptr_kind t =? 0) || (ptr_kind t =? 1)) && (off30 t =? 0)) eqn:C2; cbn [negb]; [|apply none_err].
    change (farSegment f) with (far_seg f). rewrite (lookup_or_self m sid s (far_seg f) Hs).
    destruct (seg_at m (far_seg f)) as [ds|] eqn:Hds; cbn [bind].
    2:{ unfold spec_obj. rewrite Hds. apply none_err. }
    pose proof (seg_at_ok _ _ _ Hb Hds) as Hokds.
    assert (F20 : far_two f = 0) by lia. assert (O0 : off30 t = 0) by lia.
    assert (KT : ptr_kind t < 2) by lia.
    destruct (landing_fields f t Hf Ht F20 KT) as (Hwl & L1 & L2 & L3 & L4 & L5 & L6).
    pose proof (landing_zero_iff f t Hf Ht F20 KT O0) as LZ.
    set (v := landingPadNearPointer f t) in *.
    cbv zeta. cbn [andb].
    destruct (v =? 0) eqn:V0.
    + (* the pad says "empty struct at word 0": the repaired code passes on the equivalent
         non-zero encoding (base 8, struct pointer with offset -1 and empty sections) *)
      assert (Et : t = 0) by lia. assert (Ef : far_off f = 0) by lia.
      rewrite Et, Ef. rewrite (spec_obj_zero false m (far_seg f) ds Hds).
      change (rawStructPointer (-1) (mkOS 0 0)) with (Some 4294967292). cbv iota.
      change (readPtr_tail m rl (far_seg f) ds wordSize 4294967292 depth)
        with (readPtr_tail m rl (far_seg f) ds (8 * (0 + 1)) 4294967292 depth).
      assert (Hw4 : word64 4294967292) by (unfold word64; lia).
      pose proof (tail_spec m rl (far_seg f) ds 0 4294967292 depth Hds Hokds Hw4) as T.
      unfold spec_near in T.
      change (4294967292 =? 0) with false in T. change (ptr_kind 4294967292 =? 3) with false in T.
      change (ptr_kind 4294967292 =? 2) with false in T. cbv iota in T.
      change (0 + 1 + off30 4294967292) with 0 in T.
      rewrite (spec_obj_same_fields false m (far_seg f) 0 4294967292 0) in T by reflexivity.
      rewrite (spec_obj_zero false m (far_seg f) ds Hds) in T.
      destruct T as (W & I & [E|[E NG]]).
      * left. exists (far_seg f). exact E.
      * right. split; [rewrite E; apply never_ok_err|].
        intros [S L]. apply NG. split; [eapply seg_at_small; eauto|exact L].
    + change (readPtr_tail m rl (far_seg f) ds 0 v depth) with (readPtr_tail m rl (far_seg f) ds (8 * (-1 + 1)) v depth).
      pose proof (tail_spec m rl (far_seg f) ds (-1) v depth Hds Hokds Hwl) as T.
      unfold spec_near in T. rewrite V0 in T.
      assert (K3 : (ptr_kind v =? 3) = false) by lia. assert (K2' : (ptr_kind v =? 2) = false) by lia.
      rewrite K3, K2' in T.
      replace (-1 + 1 + off30 v) with (far_off f) in T by lia.
      rewrite (spec_obj_same_fields false m (far_seg f) (far_off f) v t L1 L3 L4 L5 L6) in T.
      destruct (spec_obj false m (far_seg f) (far_off f) t) as [tg|].
      * destruct T as (W & I & [E|[E NG]]).
        -- left. exists (far_seg f). exact E.
        -- right. split; [rewrite E; apply never_ok_err|].
           intros [S L]. apply NG. split; [eapply seg_at_small; eauto|exact L].
      * rewrite T. apply none_err.
Qed.

(* ------------------------------------------------------------------ read_ptr_refines_spec *)
(* Soundness, on ANY message and any limits: whenever readPtr returns a pointer, the
   specification resolves the same word to a target, the returned Ptr describes exactly that
   target (segment, byte offset, kind, sizes, length), the target's bytes lie inside the
   segments, and the budget was charged the target's size -- with one exception, the
   landing pad of [dfar_zero_pad], where the code answers null (see dfar_zero_struct_refuted). *)
Lemma pair_ok_inv : forall {A} (a b : A) (x y : Z), (Ok a, x) = (Ok b, y) -> a = b /\ x = y.
Proof. intros A a b x y H. inversion H. auto. Qed.

Theorem read_ptr_sound : forall m rl sid s wa depth p rl',
  bytes_ok m -> lookup_segment m sid = Ok s -> 0 <= rl ->
  readPtr true m rl sid s (8 * wa) depth = (Ok p, rl') ->
  exists t, spec_resolve false m sid wa = Some t /\ tgt_wf t /\ tgt_inside m t /\
    p = ptr_of_target (uint_dec depth) (p_seg p) t /\ rl' = rl - tgt_cost t /\ tgt_cost t <= rl /\
    list_repr t /\ (t = TgtNull \/ depth <> 0).
Proof.
  intros m rl sid s wa depth p rl' Hb Hl Hrl H.
  assert (Hs : seg_at m sid = Some s).
  { rewrite lookup_seg_at in Hl. destruct (seg_at m sid); [inversion Hl; reflexivity|discriminate]. }
  pose proof (readPtr_spec m rl sid s wa depth Hb Hs) as M.
  destruct (spec_resolve false m sid wa) as [t|] eqn:SR.
  2:{ exfalso. exact (proj1 M p rl' H). }
  destruct (spec_resolve_facts _ _ _ _ _ SR) as [W I].
  exists t. split; [reflexivity|]. split; [exact W|]. split; [exact I|].
  destruct M as [[dsid [E LR]]|[NO _]]; [|exfalso; exact (NO p rl' H)].
  rewrite H in E.
  { unfold tail_expect in E. destruct t as [|i|seg a dw pc|seg a e n dw pc].
    + apply pair_ok_inv in E. destruct E as [E1 E2]. cbn [ptr_of_target tgt_cost].
      split; [exact E1|]. split; [lia|]. split; [lia|]. split; [exact LR|]. left; reflexivity.
    + destruct (depth =? 0) eqn:D; [discriminate|]. apply pair_ok_inv in E. destruct E as [E1 E2].
      subst p. cbn [ptr_of_target tgt_cost p_seg].
      split; [reflexivity|]. split; [lia|]. split; [lia|]. split; [exact LR|]. right; lia.
    + destruct (depth =? 0) eqn:D; [discriminate|].
      destruct (rl >=? tgt_cost (TgtStruct seg a dw pc)) eqn:C; [|discriminate].
      apply pair_ok_inv in E. destruct E as [E1 E2]. subst p. cbn [ptr_of_target p_seg].
      split; [reflexivity|]. split; [lia|]. split; [lia|]. split; [exact LR|]. right; lia.
    + destruct (depth =? 0) eqn:D; [discriminate|].
      destruct (rl >=? tgt_cost (TgtList seg a e n dw pc)) eqn:C; [|discriminate].
      apply pair_ok_inv in E. destruct E as [E1 E2]. subst p. cbn [ptr_of_target p_seg].
      split; [reflexivity|]. split; [lia|]. split; [lia|]. split; [exact LR|]. right; lia. }
Qed.

(* Completeness: whatever the specification resolves -- in a message whose segments fit the
   32-bit address space, with a representable element count, with
   depth and budget left -- readPtr returns, as exactly that Ptr, charging exactly its size. *)
Theorem read_ptr_complete : forall m rl sid s wa depth t,
  bytes_ok m -> segs_small m -> lookup_segment m sid = Ok s ->
  spec_resolve false m sid wa = Some t -> list_repr t ->
  (t = TgtNull \/ depth <> 0) -> tgt_cost t <= rl ->
  exists cs, readPtr true m rl sid s (8 * wa) depth =
             (Ok (ptr_of_target (uint_dec depth) cs t), rl - tgt_cost t).
Proof.
  intros m rl sid s wa depth t Hb Hsm Hl SR LR HD HC.
  assert (Hs : seg_at m sid = Some s).
  { rewrite lookup_seg_at in Hl. destruct (seg_at m sid); [inversion Hl; reflexivity|discriminate]. }
  pose proof (readPtr_spec m rl sid s wa depth Hb Hs) as M. rewrite SR in M.
  destruct M as [[dsid [E _]]|[_ N]]; [|exfalso; apply N; split; assumption].
  exists dsid. rewrite E. unfold tail_expect.
  destruct t as [|i|seg a dw pc|seg a e n dw pc].
  - cbn [tgt_cost ptr_of_target]. rewrite Z.sub_0_r. reflexivity.
  - destruct HD as [HD|HD]; [discriminate|]. destruct (depth =? 0) eqn:D; [lia|].
    cbn [tgt_cost]. rewrite Z.sub_0_r. reflexivity.
  - destruct HD as [HD|HD]; [discriminate|]. destruct (depth =? 0) eqn:D; [lia|].
    destruct (rl >=? tgt_cost (TgtStruct seg a dw pc)) eqn:C; [reflexivity|lia].
  - destruct HD as [HD|HD]; [discriminate|]. destruct (depth =? 0) eqn:D; [lia|].
    destruct (rl >=? tgt_cost (TgtList seg a e n dw pc)) eqn:C; [reflexivity|lia].
Qed.

(* the bytes a returned Ptr designates lie inside the segment it names (follows from
   soundness: restated on the Ptr itself) *)
Definition ptr_inside (m : segs) (p : Ptr) : Prop :=
  p_valid p = true ->
  match p_kind p with
  | KIface => True
  | KStruct => 0 <= p_off p /\ p_off p + totalSize (p_size p) <= zlen (seg_of m p) /\ 0 <= p_seg p < zlen m
  | KList => 0 <= p_off p /\ 0 <= p_seg p < zlen m /\
             if p_comp p then 8 <= p_off p /\ p_off p + totalSize (p_size p) * p_len p <= zlen (seg_of m p)
             else if p_bit p then p_off p + (p_len p + 7) / 8 <= zlen (seg_of m p)
             else p_off p + totalSize (p_size p) * p_len p <= zlen (seg_of m p)
  end.

Lemma seg_at_nth : forall m d x, seg_at m d = Some x ->
  x = nth (Z.to_nat d) m [] /\ 0 <= d < Z.of_nat (length m).
Proof.
  intros m d x H. unfold seg_at in H.
  destruct ((d <? 0) || (Z.of_nat (length m) <=? d)) eqn:E; [discriminate|].
  inversion H. split; [reflexivity|lia].
Qed.

Lemma target_ptr_inside : forall m d cs t, tgt_wf t -> tgt_inside m t -> ptr_inside m (ptr_of_target d cs t).
Proof.
  intros m d cs t W I V. destruct t as [|i|sg a dw pc|sg a e n dw pc].
  - discriminate.
  - exact Logic.I.
  - cbn [tgt_wf tgt_inside] in *. destruct I as (s & Hs & Ha & Hb).
    apply seg_at_nth in Hs. destruct Hs as [-> Hr].
    unfold ptr_of_target, seg_of, zlen. unfold segs, Reader.seg in *. cbn [p_kind p_off p_size p_seg].
    rewrite totalSize_words by lia. unfold blen in Hb. lia.
  - cbn [tgt_wf tgt_inside] in *. destruct I as (s & Hs & Ha & Hb).
    destruct W as (_ & He & Hn & Hdw & Hpc & Hz).
    apply seg_at_nth in Hs. destruct Hs as [-> Hr].
    unfold ptr_of_target, seg_of, zlen. unfold segs, Reader.seg in *. cbn [p_kind p_off p_size p_seg p_comp p_bit p_len].
    unfold blen in Hb. split; [lia|]. split; [lia|].
    destruct (e =? 7) eqn:E7; rewrite ?E7 in Hb.
    + unfold esz_size. rewrite E7. rewrite totalSize_words by lia.
      replace (8 * (dw + pc) * n) with (8 * (n * (dw + pc))) by ring. lia.
    + destruct (Hz ltac:(lia)) as (-> & -> & Hn').
      destruct (e =? 1) eqn:E1.
      * unfold list_bytes in Hb. destruct (e =? 0) eqn:E0; [lia|]. rewrite E1 in Hb. lia.
      * assert (He' : e = 0 \/ e = 2 \/ e = 3 \/ e = 4 \/ e = 5 \/ e = 6) by lia.
        clear V. unfold esz_size, esz_bytes, list_bytes in *.
        destruct He' as [?|[?|[?|[?|[?|?]]]]]; subst e; cbn [Z.eqb Pos.eqb] in *;
        match goal with |- context [totalSize ?x] =>
          let v := eval vm_compute in (totalSize x) in change (totalSize x) with v end; lia.
Qed.

(* soundness restated on the returned Ptr: the bytes it designates lie inside the segments *)
Theorem read_ptr_inside : forall m rl sid s wa depth p rl',
  bytes_ok m -> lookup_segment m sid = Ok s -> 0 <= rl ->
  readPtr true m rl sid s (8 * wa) depth = (Ok p, rl') -> ptr_inside m p.
Proof.
  intros m rl sid s wa depth p rl' Hb Hl Hrl H.
  destruct (read_ptr_sound _ _ _ _ _ _ _ _ Hb Hl Hrl H) as (t & SR & W & I & C).
  destruct C as (-> & _). apply target_ptr_inside; assumption.
Qed.

(* ------------------------------------------------------------------ accessors_spec: structs *)
(* a struct as the accessors hold it, and the view the specification gives of it *)
Definition ptr_of_sview (d : Z) (member : bool) (v : sview) : Ptr :=
  mkPtr true (sv_seg v) (sv_boff v) 0 (mkOS (sv_db v) (sv_pc v)) d KStruct false false member.

Definition sview_ok (m : list (list Z)) (v : sview) : Prop :=
  exists s, seg_at m (sv_seg v) = Some s /\ seg_small s /\ 0 <= sv_boff v /\
            0 <= sv_db v <= 524280 /\ 0 <= sv_pc v < 65536 /\
            sv_boff v + sv_db v + 8 * sv_pc v <= blen s /\
            (sv_pc v = 0 \/ (sv_boff v + sv_db v) mod 8 = 0).

Lemma seg_of_sview : forall (m : segs) d mem v s, seg_at m (sv_seg v) = Some s ->
  seg_of m (ptr_of_sview d mem v) = s /\ seg_or_nil m (sv_seg v) = s.
Proof.
  intros m d mem v s H. unfold seg_or_nil. rewrite H. split; [|reflexivity].
  apply seg_at_nth in H. destruct H as [-> _]. reflexivity.
Qed.

(* Uint8/16/32/64 at any byte offset: the little-endian value of the field if it lies inside
   the data section, else the default 0 *)
Theorem struct_uint_spec : forall m d mem v off n,
  sview_ok m v -> 0 <= off -> (n = 1 \/ n = 2 \/ n = 4 \/ n = 8) -> off + n < 4294967296 ->
  struct_uint m (ptr_of_sview d mem v) off n = Ok (sv_uint m v off n).
Proof.
  intros m d mem v off n (s & Hs & Hsm & Hb & Hdb & Hpc & Hin & _) Hoff Hn Hlt.
  destruct (seg_of_sview m d mem v s Hs) as [E1 E2].
  unfold struct_uint, sv_uint. rewrite E1, E2. unfold dataAddress, ptr_of_sview.
  cbn [p_valid p_size DataSize negb orb p_off].
  unfold seg_small, maxSegmentSize in Hsm.
  assert (Hu : u32 (off + n) = off + n) by (unfold u32; lia). rewrite Hu.
  destruct (off + n >? sv_db v) eqn:G; cbn [bind].
  - destruct ((0 <=? off) && (off + n <=? sv_db v)) eqn:S; [lia|reflexivity].
  - destruct ((0 <=? off) && (off + n <=? sv_db v)) eqn:S; [|lia].
    unfold addOffset. destruct (off >=? 524288) eqn:O; [lia|]. cbn [bind].
    assert (Hu2 : u32 (sv_boff v + off) = sv_boff v + off) by (unfold u32; lia). rewrite Hu2.
    apply readUintN_ok; lia.
Qed.

Lemma testbit_div : forall b k, 0 <= k -> Z.testbit b k = ((b / 2 ^ k) mod 2 =? 1).
Proof.
  intros b k Hk. rewrite Z.testbit_odd, Z.shiftr_div_pow2 by exact Hk.
  rewrite (Zmod_odd (b / 2 ^ k)). destruct (Z.odd (b / 2 ^ k)); reflexivity.
Qed.

(* Bit(n): bit n of the data section counting from the least significant bit of byte 0,
   false beyond the section *)
Theorem struct_bit_spec : forall m d mem v n,
  sview_ok m v -> 0 <= n < 4294967296 ->
  struct_bit m (ptr_of_sview d mem v) n = Ok (sv_bit m v n).
Proof.
  intros m d mem v n (s & Hs & Hsm & Hb & Hdb & Hpc & Hin & _) Hn.
  destruct (seg_of_sview m d mem v s Hs) as [E1 E2].
  unfold struct_bit, sv_bit. rewrite E1, E2. unfold ptr_of_sview.
  cbn [p_valid p_size DataSize p_off andb].
  unfold seg_small, maxSegmentSize in Hsm.
  assert (Hu : u32 (sv_db v * 8) = 8 * sv_db v) by (unfold u32; lia). rewrite Hu.
  destruct (n <? 8 * sv_db v) eqn:G; cbn [negb].
  2:{ rewrite Bool.andb_false_r. reflexivity. }
  rewrite Bool.andb_true_r. destruct (0 <=? n) eqn:S; [|lia].
  unfold addOffset, bitOffset_offset. destruct (n / 8 >=? 524288) eqn:O; [lia|].
  assert (Hu2 : u32 (sv_boff v + n / 8) = sv_boff v + n / 8) by (unfold u32; lia). rewrite Hu2.
  rewrite readUintN_ok by lia. cbn [bind]. change (Z.to_nat 1) with 1%nat. cbn [le_num].
  rewrite testbit_div by lia. rewrite Z.mul_0_r, Z.add_0_r. reflexivity.
Qed.

(* Ptr(i): null beyond the pointer section, else the pointer stored in word sv_ptr_word v i,
   which is where the specification's sv_ptr resolves *)
Theorem struct_ptr_spec : forall c m rl d mem v i,
  sview_ok m v -> 0 <= i ->
  struct_ptr c m rl (ptr_of_sview d mem v) i =
    (if i <? sv_pc v
     then readPtr (cfg_strict c) m rl (sv_seg v) (seg_or_nil m (sv_seg v)) (8 * sv_ptr_word v i) d
     else (Ok nullPtr, rl))
  /\ sv_ptr false m v i = (if i <? sv_pc v then spec_resolve false m (sv_seg v) (sv_ptr_word v i) else Some TgtNull).
Proof.
  intros c m rl d mem v i (s & Hs & Hsm & Hb & Hdb & Hpc & Hin & Hal) Hi.
  destruct (seg_of_sview m d mem v s Hs) as [E1 E2].
  split.
  2:{ unfold sv_ptr. destruct (0 <=? i) eqn:G; [reflexivity|lia]. }
  unfold struct_ptr. rewrite E1, E2. unfold ptr_of_sview. cbn [p_valid p_size PointerCount negb orb].
  destruct (i >=? sv_pc v) eqn:G; destruct (i <? sv_pc v) eqn:G2; try lia; [reflexivity|].
  unfold pointerAddress, ptr_of_sview. cbn [p_off p_size DataSize p_seg p_depth].
  unfold seg_small, maxSegmentSize in Hsm. unfold addSize, element, maxSegmentSize. cbv zeta.
  destruct (sv_boff v + sv_db v >? 4294967288) eqn:A1; [lia|].
  destruct ((sv_boff v + sv_db v + i * 8 >? 4294967288) || (sv_boff v + sv_db v + i * 8 <? 0)) eqn:A2; [lia|].
  unfold sv_ptr_word. f_equal. lia.
Qed.

Theorem struct_hasptr_spec : forall m d mem v i,
  sview_ok m v -> 0 <= i ->
  struct_hasptr m (ptr_of_sview d mem v) i = Ok (sv_hasptr m v i).
Proof.
  intros m d mem v i (s & Hs & Hsm & Hb & Hdb & Hpc & Hin & Hal) Hi.
  destruct (seg_of_sview m d mem v s Hs) as [E1 E2].
  unfold struct_hasptr, sv_hasptr. rewrite E1, E2. unfold ptr_of_sview. cbn [p_valid p_size PointerCount negb orb].
  destruct (i >=? sv_pc v) eqn:G.
  { destruct ((0 <=? i) && (i <? sv_pc v)) eqn:S; [lia|reflexivity]. }
  destruct ((0 <=? i) && (i <? sv_pc v)) eqn:S; [|lia]. cbn [andb].
  unfold pointerAddress, ptr_of_sview. cbn [p_off p_size DataSize].
  unfold seg_small, maxSegmentSize in Hsm. unfold addSize, element, maxSegmentSize. cbv zeta.
  destruct (sv_boff v + sv_db v >? 4294967288) eqn:A1; [lia|].
  destruct ((sv_boff v + sv_db v + i * 8 >? 4294967288) || (sv_boff v + sv_db v + i * 8 <? 0)) eqn:A2; [lia|].
  replace (sv_boff v + sv_db v + i * 8) with (8 * sv_ptr_word v i) by (unfold sv_ptr_word; lia).
  rewrite readRawPointer_ok; [reflexivity| | |]; unfold sv_ptr_word; lia.
Qed.

(* ------------------------------------------------------------------ accessors_spec: lists *)
Definition list_ok (m : list (list Z)) (l : target) : Prop :=
  match l with
  | TgtList sg a e n dw pc =>
    tgt_wf l /\ list_repr l /\
    exists s, seg_at m sg = Some s /\ seg_small s /\
              (if e =? 7 then 1 <= a /\ 8 * (a + n * (dw + pc)) <= blen s
               else 8 * a + list_bytes e n <= blen s)
  | _ => False
  end.

Lemma seg_of_list : forall (m : segs) d cs sg a e n dw pc s, seg_at m sg = Some s ->
  seg_of m (ptr_of_target d cs (TgtList sg a e n dw pc)) = s /\ seg_or_nil m sg = s.
Proof.
  intros m d cs sg a e n dw pc s H. unfold seg_or_nil. rewrite H. split; [|reflexivity].
  apply seg_at_nth in H. destruct H as [-> _]. reflexivity.
Qed.

Lemma elem_index_bound : forall i n k, 0 <= i < n -> 0 <= k -> i * k + k <= n * k.
Proof. intros. nia. Qed.

(* UInt8/16/32/64 List.At(i): a list of that element size is read directly; a struct list
   is read through its elements' first data field (upgrade); anything else reads as 0 *)
Theorem list_uint_at_spec : forall m d cs l i w,
  list_ok m l -> (w = 1 \/ w = 2 \/ w = 4 \/ w = 8) ->
  match l with TgtList _ _ _ n _ _ => 0 <= i < n | _ => False end ->
  list_uint_at true m (ptr_of_target d cs l) i w = Ok (l_uint m l i w).
Proof.
  intros m d cs l i w OK Hw Hi. destruct l as [| | |sg a e n dw pc]; try contradiction.
  destruct OK as (W & LR & s & Hs & Hsm & Hin). cbn [tgt_wf list_repr] in W, LR.
  destruct W as (Ha & He & Hn & Hdw & Hpc & Hz).
  destruct (seg_of_list m d cs sg a e n dw pc s Hs) as [E1 E2].
  unfold list_uint_at, l_uint. rewrite E1, E2.
  unfold primitiveElem, ptr_of_target. cbn [p_valid p_len p_bit p_comp p_size p_off negb orb].
  unfold seg_small, maxSegmentSize in Hsm.
  destruct ((i <? 0) || (i >=? n)) eqn:R; [lia|].
  destruct ((0 <=? i) && (i <? n)) eqn:R2; [|lia].
  destruct (e =? 7) eqn:E7.
  - (* struct list read as a primitive list *)
    destruct (e =? 1) eqn:E1b; [lia|]. cbn [negb andb orb].
    unfold esz_size. rewrite E7. cbn [DataSize PointerCount].
    rewrite totalSize_words by lia.
    assert (P0 : (pc <? 0) = false) by lia. rewrite P0, Bool.orb_false_r.
    pose proof (elem_index_bound i n (dw + pc) Hi ltac:(lia)) as B.
    destruct Hin as [Ha1 Hin].
    destruct (8 * dw <? w) eqn:D.
    + destruct (w <=? 8 * dw) eqn:D2; [lia|reflexivity].
    + destruct (w <=? 8 * dw) eqn:D2; [|lia].
      unfold element, maxSegmentSize. cbv zeta.
      replace (8 * a + i * (8 * (dw + pc))) with (8 * (a + i * (dw + pc))) by ring.
      set (Q := i * (dw + pc)) in *. set (N := n * (dw + pc)) in *.
      destruct ((8 * (a + Q) >? 4294967288) || (8 * (a + Q) <? 0)) eqn:X; [lia|].
      change (0 <? 0) with false. cbv iota.
      apply readUintN_ok; lia.
  - destruct (Hz ltac:(lia)) as (-> & -> & _).
    assert (He' : e = 0 \/ e = 1 \/ e = 2 \/ e = 3 \/ e = 4 \/ e = 5 \/ e = 6) by lia.
    unfold esz_size, esz_bytes, list_bytes in *. unfold os_eqb, element, maxSegmentSize.
    destruct He' as [?|[?|[?|[?|[?|[?|?]]]]]]; subst e;
    destruct Hw as [?|[?|[?|?]]]; subst w;
    cbn [Z.eqb Pos.eqb negb andb orb DataSize PointerCount] in *; try reflexivity;
    match goal with |- context [totalSize ?x] =>
      let v := eval vm_compute in (totalSize x) in change (totalSize x) with v end;
    cbv zeta;
    match goal with |- context [(?x >? 4294967288) || (?x <? 0)] =>
      destruct ((x >? 4294967288) || (x <? 0)) eqn:X; [lia|] end;
    apply readUintN_ok; lia.
Qed.

(* PointerList.At(i): the pointer stored in element i of a pointer list; for a struct list
   (upgrade) the FIRST POINTER of element i, i.e. the word after its data section; any other
   list is an error.  [l_ptr] of the specification resolves the same word. *)
Theorem ptrlist_at_spec : forall c m rl d cs l i,
  list_ok m l ->
  match l with TgtList _ _ _ n _ _ => 0 <= i < n | _ => False end ->
  match l with
  | TgtList sg a e n dw pc =>
    if e =? 6 then
      ptrlist_at c true m rl (ptr_of_target d cs l) i = readPtr (cfg_strict c) m rl sg (seg_or_nil m sg) (8 * (a + i)) d
      /\ l_ptr false m l i = spec_resolve false m sg (a + i)
    else if (e =? 7) && (1 <=? pc) then
      ptrlist_at c true m rl (ptr_of_target d cs l) i =
        readPtr (cfg_strict c) m rl sg (seg_or_nil m sg) (8 * (a + i * (dw + pc) + dw)) d
      /\ l_ptr false m l i = spec_resolve false m sg (a + i * (dw + pc) + dw)
    else ptrlist_at c true m rl (ptr_of_target d cs l) i = (Err, rl) /\ l_ptr false m l i = None
  | _ => False
  end.
Proof.
  intros c m rl d cs l i OK Hi. destruct l as [| | |sg a e n dw pc]; try contradiction.
  destruct OK as (W & LR & s & Hs & Hsm & Hin). cbn [tgt_wf list_repr] in W, LR.
  destruct W as (Ha & He & Hn & Hdw & Hpc & Hz).
  destruct (seg_of_list m d cs sg a e n dw pc s Hs) as [E1 E2].
  unfold ptrlist_at, l_ptr. rewrite E1, E2.
  unfold primitiveElem, ptr_of_target. cbn [p_valid p_len p_bit p_comp p_size p_off p_seg p_depth negb orb].
  unfold seg_small, maxSegmentSize in Hsm.
  destruct ((i <? 0) || (i >=? n)) eqn:R; [lia|].
  destruct ((0 <=? i) && (i <? n)) eqn:R2; [|lia].
  destruct (e =? 6) eqn:E6.
  - assert (e = 6) by lia. subst e. destruct (Hz ltac:(lia)) as (-> & -> & _).
    unfold esz_size, list_bytes in *. cbn [Z.eqb Pos.eqb negb andb orb] in *.
    change (os_eqb (mkOS 0 1) (mkOS 0 1)) with true. cbn [negb].
    change (totalSize (mkOS 0 1)) with 8. unfold element, maxSegmentSize. cbv zeta.
    destruct ((8 * a + i * 8 >? 4294967288) || (8 * a + i * 8 <? 0)) eqn:X; [lia|].
    replace (8 * a + i * 8) with (8 * (a + i)) by lia. split; reflexivity.
  - destruct (e =? 7) eqn:E7; cbn [andb].
    + destruct (e =? 1) eqn:E1b; [lia|]. cbn [negb andb orb].
      unfold esz_size. rewrite E7. cbn [DataSize PointerCount].
      rewrite totalSize_words by lia.
      assert (D0 : (8 * dw <? 0) = false) by lia. rewrite D0. cbn [orb].
      destruct (1 <=? pc) eqn:P1.
      * destruct (pc <? 1) eqn:P2; [lia|].
        pose proof (elem_index_bound i n (dw + pc) Hi ltac:(lia)) as B.
        destruct Hin as [Ha1 Hin].
        unfold element, addSize, maxSegmentSize. cbv zeta.
        replace (8 * a + i * (8 * (dw + pc))) with (8 * (a + i * (dw + pc))) by ring.
        set (Q := i * (dw + pc)) in *. set (N := n * (dw + pc)) in *.
        destruct ((8 * (a + Q) >? 4294967288) || (8 * (a + Q) <? 0)) eqn:X; [lia|].
        change (0 <? 1) with true. cbv iota.
        destruct (8 * (a + Q) + 8 * dw >? 4294967288) eqn:X2; [lia|].
        replace (8 * (a + Q) + 8 * dw) with (8 * (a + Q + dw)) by lia. split; reflexivity.
      * destruct (pc <? 1) eqn:P2; [|lia]. split; reflexivity.
    + destruct (Hz ltac:(lia)) as (-> & -> & _).
      destruct (e =? 1) eqn:E1b; [split; reflexivity|]. cbn [negb andb orb].
      assert (He' : e = 0 \/ e = 2 \/ e = 3 \/ e = 4 \/ e = 5) by lia.
      unfold esz_size, esz_bytes, os_eqb.
      destruct He' as [?|[?|[?|[?|?]]]]; subst e; cbn [Z.eqb Pos.eqb negb andb orb DataSize PointerCount];
      split; reflexivity.
Qed.

(* BitList.At(i) *)
Theorem bitlist_at_spec : forall m d cs l i,
  list_ok m l ->
  match l with TgtList _ _ _ n _ _ => 0 <= i < n | _ => False end ->
  bitlist_at true m (ptr_of_target d cs l) i = Ok (l_bit m l i).
Proof.
  intros m d cs l i OK Hi. destruct l as [| | |sg a e n dw pc]; try contradiction.
  destruct OK as (W & LR & s & Hs & Hsm & Hin). cbn [tgt_wf list_repr] in W, LR.
  destruct W as (Ha & He & Hn & Hdw & Hpc & Hz).
  destruct (seg_of_list m d cs sg a e n dw pc s Hs) as [E1 E2].
  unfold bitlist_at, l_bit. rewrite E1, E2.
  unfold ptr_of_target. cbn [p_valid p_len p_bit p_off negb orb].
  unfold seg_small, maxSegmentSize in Hsm.
  destruct ((i <? 0) || (i >=? n)) eqn:R; [lia|].
  destruct ((0 <=? i) && (i <? n)) eqn:R2; [|lia]. cbn [andb].
  destruct (e =? 1) eqn:E1b; cbn [negb]; [|reflexivity].
  assert (e = 1) by lia. subst e. unfold list_bytes in Hin. cbn [Z.eqb Pos.eqb] in Hin.
  unfold bitOffset_offset.
  assert (Hu : u32 (8 * a + i / 8) = 8 * a + i / 8) by (unfold u32; lia). rewrite Hu.
  rewrite readUintN_ok by lia. cbn [bind]. change (Z.to_nat 1) with 1%nat. cbn [le_num].
  rewrite testbit_div by lia. rewrite Z.mul_0_r, Z.add_0_r. reflexivity.
Qed.

(* List.Struct(i): a struct list directly; a list of primitives or pointers is read as a list
   of structs with that single field (upgrade the other way); not a bit list *)
Theorem list_struct_spec : forall m d cs l i,
  list_ok m l ->
  match l with TgtList _ _ _ n _ _ => 0 <= i < n | _ => False end ->
  list_struct true (ptr_of_target d cs l) i =
  Ok (match l_struct l i with
      | Some v => ptr_of_sview (if d =? 0 then 0 else uint_dec d) true v
      | None => nullPtr
      end).
Proof.
  intros m d cs l i OK Hi. destruct l as [| | |sg a e n dw pc]; try contradiction.
  destruct OK as (W & LR & s & Hs & Hsm & Hin). cbn [tgt_wf list_repr] in W, LR.
  destruct W as (Ha & He & Hn & Hdw & Hpc & Hz).
  unfold list_struct, l_struct.
  unfold ptr_of_target. cbn [p_valid p_len p_bit p_off p_size p_seg p_depth negb orb andb].
  unfold seg_small, maxSegmentSize in Hsm.
  destruct ((i <? 0) || (i >=? n)) eqn:R; [lia|].
  destruct ((0 <=? i) && (i <? n)) eqn:R2; [|lia].
  destruct (e =? 7) eqn:E7.
  - destruct (e =? 1) eqn:E1b; [lia|].
    unfold esz_size. rewrite E7. rewrite totalSize_words by lia.
    pose proof (elem_index_bound i n (dw + pc) Hi ltac:(lia)) as B. destruct Hin as [Ha1 Hin].
    unfold element, maxSegmentSize. cbv zeta.
    replace (8 * a + i * (8 * (dw + pc))) with (8 * (a + i * (dw + pc))) by ring.
    set (Q := i * (dw + pc)) in *. set (N := n * (dw + pc)) in *.
    destruct ((8 * (a + Q) >? 4294967288) || (8 * (a + Q) <? 0)) eqn:X; [lia|]. reflexivity.
  - destruct (Hz ltac:(lia)) as (-> & -> & _).
    destruct (e =? 1) eqn:E1b; [reflexivity|].
    assert (He' : e = 0 \/ e = 2 \/ e = 3 \/ e = 4 \/ e = 5 \/ e = 6) by lia.
    unfold esz_size, esz_bytes, list_bytes in *. unfold element, maxSegmentSize.
    destruct He' as [?|[?|[?|[?|[?|?]]]]]; subst e;
    cbn [Z.eqb Pos.eqb] in *;
    match goal with |- context [totalSize ?x] =>
      let v := eval vm_compute in (totalSize x) in change (totalSize x) with v end;
    cbv zeta;
    match goal with |- context [(?x >? 4294967288) || (?x <? 0)] =>
      destruct ((x >? 4294967288) || (x <? 0)) eqn:X; [lia|] end;
    unfold ptr_of_sview; cbn [sv_seg sv_boff sv_db sv_pc]; do 2 f_equal; lia.
Qed.

(* ------------------------------------------------------------------ text and data *)
Lemma skipn_nth_cons : forall (s : list Z) k, (k < length s)%nat -> skipn k s = nth k s 0 :: skipn (S k) s.
Proof.
  induction s as [|x s IH]; intros k H; [cbn in H; lia|].
  destruct k; [reflexivity|]. cbn [skipn nth]. apply IH. cbn in H. lia.
Qed.

Lemma firstn_skipn_bytes : forall (s : list Z) k a, 0 <= a -> a + Z.of_nat k <= blen s ->
  firstn k (skipn (Z.to_nat a) s) = map (byte_at s) (zseq a k).
Proof.
  intros s k. induction k as [|k IH]; intros a Ha Hb; [reflexivity|].
  unfold blen in Hb. rewrite skipn_nth_cons by lia. cbn [firstn zseq map]. f_equal.
  - unfold byte_at. destruct (a <? 0) eqn:E; [lia|reflexivity].
  - replace (S (Z.to_nat a)) with (Z.to_nat (a + 1)) by lia. apply IH; unfold blen; lia.
Qed.

Lemma map_zseq_shift : forall (f : Z -> Z) a k j, map (fun i => f (a + i)) (zseq j k) = map f (zseq (a + j) k).
Proof.
  intros f a k. induction k as [|k IH]; intros j; [reflexivity|].
  cbn [zseq map]. f_equal. rewrite IH. f_equal. f_equal. lia.
Qed.

Lemma zseq_snoc : forall k a, zseq a (S k) = zseq a k ++ [a + Z.of_nat k].
Proof.
  induction k as [|k IH]; intros a.
  - cbn. f_equal. lia.
  - change (zseq a (S (S k))) with (a :: zseq (a + 1) (S k)). rewrite IH. cbn [zseq app]. f_equal. f_equal. f_equal. lia.
Qed.

Lemma slice_bytes : forall s a n, 0 <= a -> 0 <= n -> a + n <= blen s -> a + n < 4294967296 ->
  slice s a n = Ok (map (byte_at s) (zseq a (Z.to_nat n))).
Proof.
  intros s a n Ha Hn Hb Hs. unfold slice, addSizeUnchecked, u32. unfold blen in Hb.
  assert (He : (a + n) mod 4294967296 = a + n) by lia. rewrite He.
  destruct ((0 <=? a) && (a <=? a + n) && (a + n <=? zlen s)) eqn:E; [|unfold zlen in E; lia].
  replace (a + n - a) with n by lia. rewrite firstn_skipn_bytes; [reflexivity|lia|unfold blen; lia].
Qed.

(* Data: the bytes of a byte list (nil for anything else) *)
Theorem ptr_data_spec : forall m d cs l, list_ok m l ->
  ptr_data m (ptr_of_target d cs l) = Ok (l_data m l).
Proof.
  intros m d cs l OK. destruct l as [| | |sg a e n dw pc]; try contradiction.
  destruct OK as (W & LR & s & Hs & Hsm & Hin). cbn [tgt_wf list_repr] in W, LR.
  destruct W as (Ha & He & Hn & Hdw & Hpc & Hz).
  destruct (seg_of_list m d cs sg a e n dw pc s Hs) as [E1 E2].
  unfold ptr_data, l_data. rewrite E1, E2.
  unfold isOneByteList, is_list, ptr_of_target. cbn [p_valid p_kind p_size p_comp p_off p_len andb].
  unfold seg_small, maxSegmentSize in Hsm.
  destruct (e =? 2) eqn:E2b.
  - assert (e = 2) by lia. subst e. destruct (Hz ltac:(lia)) as (-> & -> & _).
    unfold list_bytes in Hin. cbn [Z.eqb Pos.eqb] in *.
    change (os_isOneByte (esz_size 2 0 0)) with true. cbn [negb andb].
    assert (Hu : u32 n = n) by (unfold u32; lia). rewrite Hu.
    rewrite slice_bytes by lia. cbn [bind]. rewrite map_zseq_shift. rewrite Z.add_0_r. reflexivity.
  - destruct (e =? 7) eqn:E7; [rewrite Bool.andb_false_r; reflexivity|].
    destruct (Hz ltac:(lia)) as (-> & -> & _).
    assert (He' : e = 0 \/ e = 1 \/ e = 3 \/ e = 4 \/ e = 5 \/ e = 6) by lia.
    destruct He' as [?|[?|[?|[?|[?|?]]]]]; subst e; reflexivity.
Qed.

(* Text: the bytes before the terminating NUL; rejected when the list is empty or does not end
   with NUL *)
Theorem ptr_text_spec : forall m d cs l, list_ok m l ->
  ptr_text m (ptr_of_target d cs l) = Ok (l_text m l).
Proof.
  intros m d cs l OK. destruct l as [| | |sg a e n dw pc]; try contradiction.
  destruct OK as (W & LR & s & Hs & Hsm & Hin). cbn [tgt_wf list_repr] in W, LR.
  destruct W as (Ha & He & Hn & Hdw & Hpc & Hz).
  destruct (seg_of_list m d cs sg a e n dw pc s Hs) as [E1 E2].
  unfold ptr_text, l_text. rewrite E1, E2.
  unfold isOneByteList, is_list, ptr_of_target. cbn [p_valid p_kind p_size p_comp p_off p_len andb].
  unfold seg_small, maxSegmentSize in Hsm.
  destruct (e =? 2) eqn:E2b.
  - assert (e = 2) by lia. subst e. destruct (Hz ltac:(lia)) as (-> & -> & _).
    unfold list_bytes in Hin. cbn [Z.eqb Pos.eqb] in *.
    change (os_isOneByte (esz_size 2 0 0)) with true. cbn [negb andb].
    assert (Hu : u32 n = n) by (unfold u32; lia). rewrite Hu.
    rewrite slice_bytes by lia. cbn [bind].
    destruct (Z.to_nat n) as [|k] eqn:Ek.
    + cbn [zseq map rev]. destruct (1 <=? n) eqn:N1; [lia|reflexivity].
    + rewrite zseq_snoc, map_app, rev_app_distr. cbn [map rev app].
      destruct (1 <=? n) eqn:N1; [|lia].
      replace (8 * a + n - 1) with (8 * a + Z.of_nat k) by lia.
      destruct (byte_at s (8 * a + Z.of_nat k) =? 0) eqn:Z0; [|reflexivity].
      rewrite rev_involutive. rewrite map_zseq_shift, Z.add_0_r.
      replace (Z.to_nat (n - 1)) with k by lia. reflexivity.
  - destruct (e =? 7) eqn:E7; [rewrite Bool.andb_false_r; reflexivity|].
    destruct (Hz ltac:(lia)) as (-> & -> & _).
    assert (He' : e = 0 \/ e = 1 \/ e = 3 \/ e = 4 \/ e = 5 \/ e = 6) by lia.
    destruct He' as [?|[?|[?|[?|[?|?]]]]]; subst e; reflexivity.
Qed.

