(* Interface of the specification-level decoder for the properties that build on C03
   (C05 produced messages are valid, C17 Equal, C18 canonical form).  Everything here is a
   re-export under a stable name; definitions live in Spec/Spec.v, proofs in
   Spec/SpecProofs.v and Spec/WalkProofs.v. *)
From CV Require Export Core.Arith Core.Reader Core.ReadOps Spec.Spec Spec.SpecProofs Spec.WalkProofs.
Open Scope Z_scope.

(* [strict_decode fuel dcap pcap m sid wa]: the value tree (type [ReadOps.tree]) that the
   encoding specification assigns to the pointer stored at word [wa] of segment [sid] of the
   message [m] (a list of segments, each a list of bytes), decoded in STRICT mode: besides
   the bounds and landing-pad conditions every composite-list tag must account for exactly
   the words announced by its list pointer.  Invalid pointers decode to [TErr].  [fuel] is the
   number of levels, [dcap]/[pcap] cap the data bytes per struct and the pointers/elements
   per struct/list (the caps of ReadOps.walk, so trees are comparable); use large caps for
   whole values.  [strict_decode_root] starts at the root pointer (segment 0, word 0).
   The lenient variant (what the Go reader accepts) is [spec_decode false]. *)
Definition strict_decode (fuel : nat) (dcap pcap : Z) (m : list (list Z)) (sid wa : Z) : tree :=
  spec_decode true fuel dcap pcap m sid wa.
Definition strict_decode_root (fuel : nat) (dcap pcap : Z) (m : list (list Z)) : tree :=
  spec_decode_root true fuel dcap pcap m.
Definition strict_valid_ptr (m : list (list Z)) (sid wa : Z) : bool :=
  match spec_resolve true m sid wa with Some _ => true | None => false end.

(* [tgt_inside m t]: the bytes the target [t] (result of [spec_resolve]) designates lie inside
   the segment it names: a struct's data and pointer sections; a list's content (for a
   composite list also the tag word, one word before element 0).  Together with [tgt_wf]
   (field ranges: section sizes < 2^16 words, size code 0..7, count < 2^30, capability index
   < 2^32) this is what "the pointer resolves inside its target segment" means in C05's
   heap invariant. *)
Definition target_inside := tgt_inside.
Definition target_wf := tgt_wf.

(* Every target the specification resolves, in either mode, is well-formed and inside the
   message.  (Strict resolution implies lenient resolution of the same target only for
   messages whose composite tags agree; use this lemma with the mode you resolved in.) *)
Theorem resolve_facts : forall strict m sid wa t,
  spec_resolve strict m sid wa = Some t -> tgt_wf t /\ tgt_inside m t.
Proof. exact spec_resolve_facts. Qed.

(* One pointer: whatever the specification (lenient mode) resolves is what Segment.readPtr
   returns, as exactly that Ptr ([ptr_of_target]), charging exactly [tgt_cost t] -- for
   messages whose segments fit the 32-bit address space, element counts < 2^29, depth > 0 and
   enough budget.  The converse direction (any input) is [read_ptr_sound]. *)
Theorem read_ptr_is_spec : forall m rl sid s wa depth t,
  bytes_ok m -> segs_small m -> lookup_segment m sid = Ok s ->
  spec_resolve false m sid wa = Some t -> list_repr t ->
  (t = TgtNull \/ depth <> 0) -> tgt_cost t <= rl ->
  exists cs, readPtr true m rl sid s (8 * wa) depth =
             (Ok (ptr_of_target (uint_dec depth) cs t), rl - tgt_cost t).
Proof. exact read_ptr_complete. Qed.

(* Whole trees: the generic walker over the Go-faithful accessors (the shape of every
   recursive consumer: Equal, Canonicalize, copy, text) computes exactly the lenient
   specification tree and consumes exactly [spec_cost], for every message, caps and fuel,
   when the depth limit exceeds the fuel, the budget covers the cost and every list met by the
   decoder has fewer than 2^29 elements ([vrepr], checkable with [vrepr_check]; it constrains only
   the words the decoder reads as pointers).  So a property of
   [spec_decode false] (layout independence, value equality) transfers to what the library
   reads, and [denote p := spec_decode false ...] is a function of the bytes alone. *)
Theorem walk_is_spec_decode : forall (c : config) (m : list (list Z)) (dcap pcap : Z),
  cfg_strict c = true -> bytes_ok m -> segs_small m ->
  forall fuel rl sid s wa depth,
  seg_at m sid = Some s -> in_words s wa 1 = true ->
  Z.of_nat fuel < depth < 18446744073709551616 -> 0 <= rl ->
  spec_cost false fuel dcap pcap m sid wa <= rl ->
  vrepr fuel pcap m sid wa ->
  (let '(r, rl1) := readPtr true m rl sid s (8 * wa) depth in
   walk c (mkFix true true true) m dcap pcap fuel rl1 r)
  = (spec_decode false fuel dcap pcap m sid wa, rl - spec_cost false fuel dcap pcap m sid wa).
Proof. exact walk_eq_spec. Qed.
