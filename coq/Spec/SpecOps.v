(* Specification-level reading of accessor call sequences: the same op lists the harness
   replays against the Go accessors, interpreted over the denotations of Spec.v (targets and
   struct views instead of Ptr values; no traversal budget, no depth limit).
   This is the executable "independent reference decoder" of property C03. No proofs here. *)
From Coq Require Import ZArith List Bool.
From CV Require Import Spec.Spec.
Import ListNotations.
Open Scope Z_scope.

(* what a handle denotes *)
Inductive sval :=
| SNone                      (* null pointer, or the result of a failed access *)
| SCapV (idx : Z)
| SStructV (v : sview)
| SListV (l : target).       (* always a TgtList *)

Definition sval_of_target (t : target) : sval :=
  match t with
  | TgtNull => SNone
  | TgtCap i => SCapV i
  | TgtStruct seg a dw pc => SStructV (sv_of_struct seg a dw pc)
  | TgtList _ _ _ _ _ _ => SListV t
  end.

Inductive sop :=
| SORoot
| SOSPtr (h i : Z) | SOHasPtr (h i : Z) | SOUint (h off n : Z) | SOBit (h n : Z)
| SOLStruct (h i : Z) | SOPLAt (h i : Z) | SOUintAt (h i n : Z) | SOBitAt (h i : Z)
| SOText (h : Z) | SOData (h : Z) | SOInfo (h : Z)
| SOWalk (h dcap pcap fuel : Z)
| SOUSweep (h w : Z)         (* every w-byte field at byte offsets 0 .. DataSize+8 *)
| SOBSweep (h : Z).          (* every bit 0 .. 8*DataSize+8 *)

Inductive sobs :=
| OVal (v : sval)            (* a pointer-valued access succeeded *)
| OErr                       (* the access is an error (the bytes are not a valid encoding) *)
| ORange                     (* index outside the list: outside the accessors' contract *)
| ONum (z : Z)
| OBool (b : bool)
| OBytes (b : option (list Z))
| OTree (t : tree)
| ONums (l : list Z)
| OBools (l : list bool).

Definition as_sview (v : sval) : option sview := match v with SStructV s => Some s | _ => None end.
Definition as_slist (v : sval) : option target := match v with SListV l => Some l | _ => None end.

Definition list_len (l : target) : Z := match l with TgtList _ _ _ n _ _ => n | _ => 0 end.

Definition of_res (r : option target) : sobs :=
  match r with Some t => OVal (sval_of_target t) | None => OErr end.

Definition sstep (strict : bool) (m : list (list Z)) (hs : list sval) (o : sop) : sobs :=
  let hd h := nth (Z.to_nat h) hs SNone in
  match o with
  | SORoot => of_res (spec_root strict m)
  | SOSPtr h i =>
    match as_sview (hd h) with
    | Some v => of_res (sv_ptr strict m v i)
    | None => OVal SNone              (* every field of a null struct is its default *)
    end
  | SOHasPtr h i =>
    match as_sview (hd h) with Some v => OBool (sv_hasptr m v i) | None => OBool false end
  | SOUint h off n =>
    match as_sview (hd h) with Some v => ONum (sv_uint m v off n) | None => ONum 0 end
  | SOBit h n =>
    match as_sview (hd h) with Some v => OBool (sv_bit m v n) | None => OBool false end
  | SOLStruct h i =>
    match as_slist (hd h) with
    | Some l => if (0 <=? i) && (i <? list_len l)
                then match l_struct l i with Some v => OVal (SStructV v) | None => OVal SNone end
                else ORange
    | None => ORange
    end
  | SOPLAt h i =>
    match as_slist (hd h) with
    | Some l => if (0 <=? i) && (i <? list_len l) then of_res (l_ptr strict m l i) else ORange
    | None => ORange
    end
  | SOUintAt h i n =>
    match as_slist (hd h) with
    | Some l => if (0 <=? i) && (i <? list_len l) then ONum (l_uint m l i n) else ORange
    | None => ORange
    end
  | SOBitAt h i =>
    match as_slist (hd h) with
    | Some l => if (0 <=? i) && (i <? list_len l) then OBool (l_bit m l i) else ORange
    | None => ORange
    end
  | SOText h => match as_slist (hd h) with Some l => OBytes (l_text m l) | None => OBytes None end
  | SOData h => match as_slist (hd h) with Some l => OBytes (l_data m l) | None => OBytes None end
  | SOInfo h => OVal (hd h)
  | SOWalk h dcap pcap fuel =>
    match hd h with
    | SNone => OTree TNull
    | SCapV i => OTree (fst (dec_tgt strict (Z.to_nat fuel) dcap pcap m (TgtCap i)))
    | SStructV v => OTree (fst (dec_view strict (Z.to_nat fuel) dcap pcap m v))
    | SListV l => OTree (fst (dec_tgt strict (Z.to_nat fuel) dcap pcap m l))
    end
  | SOUSweep h w =>
    match as_sview (hd h) with
    | Some v => ONums (map (fun off => sv_uint m v off w) (zseq 0 (Z.to_nat (sv_db v + 9))))
    | None => ONums (map (fun _ => 0) (zseq 0 9))
    end
  | SOBSweep h =>
    match as_sview (hd h) with
    | Some v => OBools (map (fun n => sv_bit m v n) (zseq 0 (Z.to_nat (8 * sv_db v + 9))))
    | None => OBools (map (fun _ => false) (zseq 0 9))
    end
  end.

Definition pushes (o : sop) : bool :=
  match o with SORoot | SOSPtr _ _ | SOLStruct _ _ | SOPLAt _ _ => true | _ => false end.

Fixpoint srun (strict : bool) (m : list (list Z)) (hs : list sval) (ops : list sop) : list sobs :=
  match ops with
  | [] => []
  | o :: r =>
    let ob := sstep strict m hs o in
    let hs' := if pushes o then hs ++ [match ob with OVal v => v | _ => SNone end] else hs in
    ob :: srun strict m hs' r
  end.

Definition spec_run_ops (strict : bool) (m : list (list Z)) (ops : list sop) : list sobs :=
  srun strict m [] ops.
