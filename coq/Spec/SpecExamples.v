(* Non-vacuity examples and as-found (refuted) variants for property C03. *)
From CV Require Import Core.Arith Core.Reader Core.ReadOps Spec.Spec Spec.SpecProofs.
From Coq Require Import Lia.
Open Scope Z_scope.

(* A three-segment message:
     seg 0: word 0 root = FAR pointer to the pad at seg 1 word 0;
            words 1..5: composite list content: tag (2 elements, 1 data word, 1 pointer),
            element 0 = (7, null), element 1 = (9, capability 5)
     seg 1: word 0 landing pad = struct pointer (offset 0, 1 data word, 2 pointers);
            word 1 data 0x1122334455667788; word 2 = DOUBLE-FAR pointer to the pad at seg 2
            word 0; word 3 = byte list pointer (3 bytes); word 4 = "hi\0"
     seg 2: words 0,1 double-far pad: far pointer to seg 0 word 1, tag = composite list, 4 words *)
Definition ex_msg : list (list Z) :=
  [[2; 0; 0; 0; 1; 0; 0; 0; 8; 0; 0; 0; 1; 0; 1; 0; 7; 0; 0; 0; 0; 0; 0; 0; 0; 0; 0; 0; 0; 0; 0; 0; 9; 0; 0; 0; 0; 0; 0; 0; 3; 0; 0; 0; 5; 0; 0; 0];
   [0; 0; 0; 0; 1; 0; 2; 0; 136; 119; 102; 85; 68; 51; 34; 17; 6; 0; 0; 0; 2; 0; 0; 0; 1; 0; 0; 0; 26; 0; 0; 0; 104; 105; 0; 0; 0; 0; 0; 0];
   [10; 0; 0; 0; 0; 0; 0; 0; 1; 0; 0; 0; 39; 0; 0; 0]].

Definition ex_cfg := mkCfg 1000000 64 true true.
Definition ex_fx := mkFix true true true.
Definition ex_tree : tree :=
  TStruct [136; 119; 102; 85; 68; 51; 34; 17]
    [TComp 2 (mkOS 8 1) [TStruct [7; 0; 0; 0; 0; 0; 0; 0] [TNull]; TStruct [9; 0; 0; 0; 0; 0; 0; 0] [TCap 5]];
     TPrim 1 3 [104; 105; 0]].

Example ex_bytes_ok : bytes_ok ex_msg.
Proof. unfold bytes_ok, seg_ok, ex_msg. repeat (constructor; [repeat (constructor; [lia|])|]); constructor. Qed.

Example ex_segs_small : segs_small ex_msg.
Proof. unfold segs_small, seg_small, ex_msg, blen, maxSegmentSize. repeat constructor; cbn; lia. Qed.

(* the root is a far pointer to a struct, its first field a double-far pointer to a composite list *)
Example ex_root_far : spec_resolve false ex_msg 0 0 = Some (TgtStruct 1 1 1 2).
Proof. vm_compute. reflexivity. Qed.
Example ex_double_far : spec_resolve false ex_msg 1 2 = Some (TgtList 0 2 7 2 1 1)
                        /\ spec_resolve true ex_msg 1 2 = Some (TgtList 0 2 7 2 1 1).
Proof. vm_compute. split; reflexivity. Qed.

(* the specification's tree, and the walker's through the model of the Go accessors *)
Example ex_spec_tree : spec_decode_root false 6 64 8 ex_msg = ex_tree /\ spec_cost false 6 64 8 ex_msg 0 0 = 59.
Proof. vm_compute. split; reflexivity. Qed.
Example ex_walk_tree :
  (let '(r, rl) := root ex_cfg ex_msg 1000000 in walk ex_cfg ex_fx ex_msg 64 8 6 rl r) = (ex_tree, 1000000 - 59).
Proof. vm_compute. reflexivity. Qed.

(* the hypotheses of the accessor theorems are satisfiable *)
Example ex_sview_ok : sview_ok ex_msg (sv_of_struct 1 1 1 2).
Proof.
  exists (nth 1 ex_msg []). unfold seg_small, maxSegmentSize, blen. cbn.
  repeat split; lia.
Qed.
Example ex_list_ok : list_ok ex_msg (TgtList 0 2 7 2 1 1).
Proof.
  cbn [list_ok tgt_wf list_repr]. repeat split; try lia.
  exists (nth 0 ex_msg []). unfold seg_small, maxSegmentSize, blen. cbn. repeat split; lia.
Qed.
(* reading the struct list as UInt16s / as pointers (upgrade): first data field / first pointer *)
Example ex_upgrade_reads :
  l_uint ex_msg (TgtList 0 2 7 2 1 1) 1 2 = 9 /\
  l_ptr false ex_msg (TgtList 0 2 7 2 1 1) 1 = Some (TgtCap 5) /\
  list_uint_at true ex_msg (ptr_of_target 63 0 (TgtList 0 2 7 2 1 1)) 1 2 = Ok 9 /\
  l_text ex_msg (TgtList 1 4 2 3 0 0) = Some [104; 105] /\
  sv_uint ex_msg (sv_of_struct 1 1 1 2) 6 2 = 4386 /\ sv_uint ex_msg (sv_of_struct 1 1 1 2) 7 2 = 0.
Proof. vm_compute. repeat split; reflexivity. Qed.

(* ------------------------------------------------------------------ as found: F05 *)
(* root = composite list, 2 elements of (1 data word, 1 pointer); element 0 has a data word
   that looks like a struct pointer and a NULL pointer.  Reading the list as a pointer list:
   the specification (and the repaired code) give null; the code as found ([fx_upgrade] =
   false) decodes the DATA word and returns a struct. *)
Definition ex_upgrade : list (list Z) :=
  [[1; 0; 0; 0; 39; 0; 0; 0;   8; 0; 0; 0; 1; 0; 1; 0;   4; 0; 0; 0; 1; 0; 0; 0;   0; 0; 0; 0; 0; 0; 0; 0;
    34; 34; 0; 0; 0; 0; 0; 0;   0; 0; 0; 0; 0; 0; 0; 0]].

Example upgrade_prefix_refuted :
  spec_resolve false ex_upgrade 0 0 = Some (TgtList 0 2 7 2 1 1) /\
  l_ptr false ex_upgrade (TgtList 0 2 7 2 1 1) 0 = Some TgtNull /\
  fst (ptrlist_at ex_cfg true ex_upgrade 1000 (ptr_of_target 63 0 (TgtList 0 2 7 2 1 1)) 0) = Ok nullPtr /\
  fst (ptrlist_at ex_cfg false ex_upgrade 1000 (ptr_of_target 63 0 (TgtList 0 2 7 2 1 1)) 0)
    = Ok (ptr_of_target 62 0 (TgtStruct 0 4 1 0)).
Proof. vm_compute. repeat split; reflexivity. Qed.

(* ------------------------------------------------------------------ as found: double-far to an empty struct *)
(* seg 0: double-far pointer to the pad at seg 1 word 0; seg 1: far pointer to seg 0 word 0,
   tag word 0 (= a struct with no data and no pointers).  The specification: an empty struct
   at word 0 of segment 0.  The code as found ([strict] = false): the null pointer; the
   repaired code: the empty struct. *)
Definition ex_dfar0 : list (list Z) :=
  [[6; 0; 0; 0; 1; 0; 0; 0];
   [2; 0; 0; 0; 0; 0; 0; 0; 0; 0; 0; 0; 0; 0; 0; 0]].

Example dfar_zero_struct_refuted :
  spec_resolve false ex_dfar0 0 0 = Some (TgtStruct 0 0 0 0) /\
  dfar_zero_pad ex_dfar0 0 0 = true /\
  root (mkCfg 1000000 64 false true) ex_dfar0 1000 = (Ok nullPtr, 1000) /\
  root ex_cfg ex_dfar0 1000 = (Ok (ptr_of_target 63 0 (TgtStruct 0 0 0 0)), 1000).
Proof. vm_compute. repeat split; reflexivity. Qed.
