(* What the verdict of SpecValid.strict_valid_message means. *)
From CV Require Import Core.Arith Core.Reader Core.ReadOps Spec.Spec Spec.SpecProofs Spec.SpecValid.
From Coq Require Import ZifyBool ZifyNat ZifyN Lia.
Ltac Zify.zify_post_hook ::= Z.div_mod_to_equations.
Open Scope Z_scope.

(* pointer words reachable from a pointer word: follow strict resolution into the target's slots *)
Definition child (m : list (list Z)) (x y : Z * Z) : Prop :=
  exists t, spec_resolve true m (fst x) (snd x) = Some t /\ In y (ptr_slots t).

Inductive reach (m : list (list Z)) : Z * Z -> Z * Z -> Prop :=
| reach_refl : forall x, reach m x x
| reach_step : forall x y z, child m x y -> reach m y z -> reach m x z.

Lemma rjoin_ok_l : forall a b l, rjoin a b = ROk l -> exists x, a = ROk x.
Proof. intros a b l H. destruct a, b; cbn in H; try discriminate. eauto. Qed.

Lemma fold_rjoin_ok : forall (f : Z * Z -> rres) slots acc l,
  fold_left (fun a sw => rjoin a (f sw)) slots acc = ROk l ->
  (exists x, acc = ROk x) /\ forall sw, In sw slots -> exists x, f sw = ROk x.
Proof.
  intros f slots. induction slots as [|s slots IH]; intros acc l H; cbn [fold_left] in H.
  - split; [eauto|]. intros sw [].
  - apply IH in H. destruct H as [[x Hx] Hall].
    split.
    + eapply rjoin_ok_l; eauto.
    + intros sw [->|Hin]; [|apply Hall; exact Hin].
      destruct acc, (f sw); cbn in Hx; try discriminate; eauto.
Qed.

(* a completed traversal: every pointer word reachable from (sid, wa) resolves strictly *)
Lemma regions_sound : forall fuel m sid wa l,
  regions fuel m sid wa = ROk l ->
  forall z, reach m (sid, wa) z -> exists t, spec_resolve true m (fst z) (snd z) = Some t.
Proof.
  induction fuel as [|f IH]; intros m sid wa l H z R.
  - cbn [regions] in H. destruct (spec_resolve true m sid wa) as [t|] eqn:SR; [|discriminate].
    inversion R as [|x y z' C R']; subst.
    + cbn [fst snd]. eauto.
    + destruct C as (t' & SR' & Hin). cbn [fst snd] in SR'. rewrite SR in SR'. inversion SR'; subst t'.
      destruct (ptr_slots t); [destruct Hin|discriminate].
  - cbn [regions] in H. destruct (spec_resolve true m sid wa) as [t|] eqn:SR; [|discriminate].
    inversion R as [|x y z' C R']; subst.
    + cbn [fst snd]. eauto.
    + destruct C as (t' & SR' & Hin). cbn [fst snd] in SR'. rewrite SR in SR'. inversion SR'; subst t'.
      destruct (ptr_slots t) as [|s0 slots] eqn:PS; [destruct Hin|].
      apply fold_rjoin_ok in H. destruct H as [_ Hall].
      destruct (Hall y Hin) as [ly Hy]. destruct y as [ys yw]. cbn [fst snd] in Hy.
      eapply IH; eauto.
Qed.

(* strict resolution implies lenient resolution of the same target (strict only adds the
   composite tag / word count agreement) *)
Lemma spec_obj_strict_lenient : forall m sid a w t,
  spec_obj true m sid a w = Some t -> spec_obj false m sid a w = Some t.
Proof.
  intros m sid a w t H. unfold spec_obj in *.
  destruct (seg_at m sid) as [s|]; [|discriminate].
  destruct (ptr_kind w =? 0); [exact H|].
  destruct (ls_esz w =? 7); [|exact H].
  destruct (in_words s a (1 + ls_count w)); [|discriminate].
  destruct (ptr_kind (word_at s a) =? 0); [|discriminate].
  cbn [negb orb] in *. rewrite Bool.andb_true_r.
  destruct (in_words s (a + 1) _) eqn:B; cbn [andb] in H; [|discriminate].
  destruct (_ =? ls_count w); [exact H|discriminate].
Qed.

Lemma spec_near_strict_lenient : forall m sid wa w t,
  spec_near true m sid wa w = Some t -> spec_near false m sid wa w = Some t.
Proof.
  intros m sid wa w t H. unfold spec_near in *.
  destruct (w =? 0); [exact H|]. destruct (ptr_kind w =? 3); [exact H|].
  destruct (ptr_kind w =? 2); [exact H|]. apply spec_obj_strict_lenient. exact H.
Qed.

Lemma spec_resolve_strict_lenient : forall m sid wa t,
  spec_resolve true m sid wa = Some t -> spec_resolve false m sid wa = Some t.
Proof.
  intros m sid wa t H. unfold spec_resolve in *.
  destruct (seg_at m sid) as [s|]; [|discriminate].
  destruct (negb (in_words s wa 1)); [discriminate|].
  destruct (ptr_kind (word_at s wa) =? 2).
  - destruct (seg_at m (far_seg (word_at s wa))) as [ps|]; [|discriminate].
    destruct (far_two (word_at s wa) =? 0).
    + destruct (in_words ps _ 1); [|discriminate]. apply spec_near_strict_lenient. exact H.
    + destruct (in_words ps _ 2); [|discriminate].
      destruct (_ && _); [|discriminate]. apply spec_obj_strict_lenient. exact H.
  - apply spec_near_strict_lenient. exact H.
Qed.

(* consistent list sizes: a strictly resolved composite list's elements account for exactly
   the words its list pointer (or double-far tag) announces *)
Lemma spec_obj_strict_composite : forall m sid a w sg a' n dw pc,
  spec_obj true m sid a w = Some (TgtList sg a' 7 n dw pc) -> ptr_kind w <> 0 ->
  n * (dw + pc) = ls_count w /\ a' = a + 1.
Proof.
  intros m sid a w sg a' n dw pc H K. unfold spec_obj in H.
  destruct (seg_at m sid) as [s|]; [|discriminate].
  destruct (ptr_kind w =? 0) eqn:K0; [lia|].
  destruct (ls_esz w =? 7) eqn:E7.
  - destruct (in_words s a (1 + ls_count w)); [|discriminate].
    destruct (ptr_kind (word_at s a) =? 0); [|discriminate].
    destruct (in_words s (a + 1) _); cbn [andb negb orb] in H; [|discriminate].
    destruct (_ =? ls_count w) eqn:Q; [|discriminate]. inversion H; subst. split; lia.
  - destruct (in_bytes s a _); [|discriminate]. inversion H; subst. lia.
Qed.

(* disjointness is what the boolean check says *)
Lemma pairwise_disjoint_spec : forall l, pairwise_disjoint l = true ->
  forall i j, (i < j < length l)%nat -> overlap (nth i l (0, 0, 0)) (nth j l (0, 0, 0)) = false.
Proof.
  induction l as [|r rest IH]; intros H i j Hij; [cbn in Hij; lia|].
  cbn [pairwise_disjoint] in H. apply andb_prop in H. destruct H as [H1 H2].
  destruct i as [|i].
  - destruct j as [|j]; [lia|]. cbn [nth].
    rewrite forallb_forall in H1. specialize (H1 (nth j rest (0, 0, 0))).
    assert (In (nth j rest (0, 0, 0)) rest) by (apply nth_In; cbn in Hij; lia).
    apply H1 in H. destruct (overlap r _); [discriminate|reflexivity].
  - destruct j as [|j]; [lia|]. cbn [nth]. apply IH; [exact H2|cbn in Hij; lia].
Qed.

(* THE soundness statement: when strict_valid_message answers VOk,
   - every segment is a whole number of words,
   - every pointer word reachable from the root resolves in strict mode (hence: landing pads
     well-formed and inside their segments, composite tags consistent with the announced word
     count), to a target that is well-formed and lies inside its segment, and the lenient
     decoder (the one related to the Go reader by C03) resolves it to the same target,
   - the traversal was complete (fuel did not run out), and
   - the root pointer word, the landing pads and the objects met are pairwise disjoint. *)
Theorem strict_valid_sound : forall fuel m,
  strict_valid_message fuel m = VOk ->
  (forall s, In s m -> blen s mod 8 = 0) /\
  (forall z, reach m (0, 0) z ->
     exists t, spec_resolve true m (fst z) (snd z) = Some t /\ spec_resolve false m (fst z) (snd z) = Some t /\
               tgt_wf t /\ tgt_inside m t) /\
  exists l, regions fuel m 0 0 = ROk l /\
            let all : list region := (0, 0, 1) :: l in
            forall i j, (i < j < length all)%nat ->
                        overlap (nth i all (0, 0, 0)) (nth j all (0, 0, 0)) = false.
Proof.
  intros fuel m H. unfold strict_valid_message in H.
  destruct (forallb (fun s => blen s mod 8 =? 0) m) eqn:A; cbn [negb] in H; [|discriminate].
  destruct (regions fuel m 0 0) as [| |l] eqn:R; try discriminate.
  destruct (pairwise_disjoint ((0, 0, 1) :: l)) eqn:D; [|discriminate].
  split; [|split].
  - intros s Hs. rewrite forallb_forall in A. specialize (A s Hs). lia.
  - intros z Hz. destruct (regions_sound fuel m 0 0 l R z Hz) as [t SR].
    exists t. split; [exact SR|]. split; [apply spec_resolve_strict_lenient; exact SR|].
    apply (spec_resolve_facts true m (fst z) (snd z) t SR).
  - exists l. split; [reflexivity|]. cbv zeta. apply pairwise_disjoint_spec. exact D.
Qed.

(* non-vacuity: the three-segment example message of SpecExamples is strictly valid *)
From CV Require Import Spec.SpecExamples.

(* the slots followed by [reach] are the pointer words the tree decoder visits *)
Lemma slots_are_decoder_slots : forall seg a dw pc i j,
  sv_ptr_word (sv_of_struct seg a dw pc) i = a + dw + i /\
  sv_ptr_word (mkSV seg (8 * (a + i * (dw + pc))) (8 * dw) pc) j = a + i * (dw + pc) + dw + j.
Proof. intros. unfold sv_ptr_word, sv_of_struct. cbn [sv_boff sv_db]. split; lia. Qed.

Example ex_msg_strictly_valid : strict_valid_message 8 ex_msg = VOk.
Proof. vm_compute. reflexivity. Qed.

(* the double-far landing pad of ex_msg made to point at the first element instead of the tag
   word (what the seeded change C05-1 produces): not valid *)
Definition ex_msg_bad_pad : list (list Z) :=
  [nth 0 ex_msg []; nth 1 ex_msg []; [18; 0; 0; 0; 0; 0; 0; 0; 1; 0; 0; 0; 39; 0; 0; 0]].
Example ex_bad_pad_rejected : strict_valid_message 8 ex_msg_bad_pad = VInvalid.
Proof. vm_compute. reflexivity. Qed.

(* two pointers to the same object: resolves, but the objects are not disjoint *)
Definition ex_msg_alias : list (list Z) :=
  [[0; 0; 0; 0; 0; 0; 2; 0;   4; 0; 0; 0; 1; 0; 0; 0;   0; 0; 0; 0; 1; 0; 0; 0;   7; 0; 0; 0; 0; 0; 0; 0]].
Example ex_alias_rejected : strict_valid_message 8 ex_msg_alias = VOverlap.
Proof. vm_compute. reflexivity. Qed.
