(* walk_eq_spec: the generic walker over the Go-faithful accessors computes exactly the
   specification's tree (and consumes exactly the specification's traversal cost), for every
   message, caps and fuel, when limits suffice. *)
From CV Require Import Core.Arith Core.Reader Core.ReadOps Spec.Spec Spec.SpecProofs.
From Coq Require Import ZifyBool ZifyNat ZifyN Lia.
Ltac Zify.zify_post_hook ::= Z.div_mod_to_equations.
Open Scope Z_scope.

Lemma collect_ok : forall {A} (f : Z -> res A) (g : Z -> A) (d : A) k,
  (forall i, 0 <= i < Z.of_nat k -> f i = Ok (g i)) ->
  collect k f d = Ok (map g (zseq 0 k)).
Proof.
  intros A f g d k H. unfold collect.
  assert (G : forall n i0, (forall i, i0 <= i < i0 + Z.of_nat n -> f i = Ok (g i)) ->
              (fix go (k : nat) (i : Z) {struct k} : res (list A) :=
                 match k with
                 | O => Ok []
                 | S k' => do a <- f i; do r <- go k' (i + 1); Ok (a :: r)
                 end) n i0 = Ok (map g (zseq i0 n))).
  { induction n as [|n IH]; intros i0 Hi; [reflexivity|].
    rewrite Hi by lia. cbn [bind]. rewrite IH by (intros; apply Hi; lia). reflexivity. }
  apply G. intros i Hi. apply H. lia.
Qed.

Lemma sum_costs_nonneg : forall {A} (G : Z -> A * Z) n i0,
  (forall i, 0 <= snd (G i)) -> 0 <= snd (sum_costs G i0 n).
Proof.
  intros A G n. induction n as [|n IH]; intros i0 H; cbn [sum_costs]; [cbn; lia|].
  specialize (IH (i0 + 1) H). specialize (H i0).
  destruct (G i0) as [a c]. destruct (sum_costs G (i0 + 1) n) as [r c']. cbn [snd] in *. lia.
Qed.

(* threading the budget through n steps = summing the specification's costs *)
Lemma iter_sum : forall {A} (F : Z -> Z -> A * Z) (G : Z -> A * Z) n i0 rl,
  (forall i, 0 <= snd (G i)) ->
  (forall i rl0, i0 <= i < i0 + Z.of_nat n -> 0 <= rl0 -> snd (G i) <= rl0 ->
                 F i rl0 = (fst (G i), rl0 - snd (G i))) ->
  0 <= rl -> snd (sum_costs G i0 n) <= rl ->
  iter_rl n i0 rl F = (fst (sum_costs G i0 n), rl - snd (sum_costs G i0 n)).
Proof.
  intros A F G n. induction n as [|n IH]; intros i0 rl Hnn HF Hrl Hc.
  - cbn. f_equal. lia.
  - cbn [iter_rl sum_costs] in *.
    pose proof (Hnn i0) as N0. pose proof (sum_costs_nonneg G n (i0 + 1) Hnn) as N1.
    destruct (G i0) as [a c] eqn:EG. destruct (sum_costs G (i0 + 1) n) as [r c'] eqn:ES.
    cbn [fst snd] in *.
    rewrite (HF i0 rl) by (rewrite ?EG; cbn [snd]; lia). rewrite EG. cbn [fst snd].
    rewrite (IH (i0 + 1) (rl - c)); [|exact Hnn| |lia|rewrite ES; cbn [snd]; lia].
    + rewrite ES. cbn [fst snd]. f_equal. lia.
    + intros i rl0 Hi H0 H1. apply HF; lia.
Qed.

Lemma elem_charge_pos : forall e dw pc, 0 <= dw -> 0 <= pc -> 1 <= elem_charge e dw pc.
Proof.
  intros e dw pc H1 H2. unfold elem_charge, esz_bytes.
  destruct (e =? 7); [destruct (dw + pc =? 0) eqn:Z0; lia|].
  destruct (e =? 6); [lia|]. destruct (e =? 2); [cbn; lia|]. destruct (e =? 3); [cbn; lia|].
  destruct (e =? 4); [cbn; lia|]. destruct (e =? 5); cbn; lia.
Qed.

Lemma tgt_cost_nonneg : forall t, tgt_wf t -> 0 <= tgt_cost t.
Proof.
  intros t W. destruct t as [|i|sg a dw pc|sg a e n dw pc]; cbn [tgt_cost tgt_wf] in *; try lia.
  destruct W as (_ & _ & Hn & Hdw & Hpc & _). pose proof (elem_charge_pos e dw pc ltac:(lia) ltac:(lia)). nia.
Qed.

Lemma dec_struct_eq : forall rec m dcap pcap v,
  dec_struct rec m dcap pcap v =
  (TStruct (map (fun o => sv_uint m v o 1) (zseq 0 (count_cap (sv_db v) dcap)))
           (fst (sum_costs (fun i => rec (sv_seg v) (sv_ptr_word v i)) 0 (count_cap (sv_pc v) pcap))),
   snd (sum_costs (fun i => rec (sv_seg v) (sv_ptr_word v i)) 0 (count_cap (sv_pc v) pcap))).
Proof.
  intros. unfold dec_struct. destruct (sum_costs _ 0 _) as [ps c]. reflexivity.
Qed.

Lemma dec_struct_nonneg : forall (rec : Z -> Z -> tree * Z) m dcap pcap v,
  (forall sid wa, 0 <= snd (rec sid wa)) -> 0 <= snd (dec_struct rec m dcap pcap v).
Proof.
  intros rec m dcap pcap v H. rewrite dec_struct_eq. cbn [snd]. apply sum_costs_nonneg. intros i. apply H.
Qed.

Lemma dec_list_nonneg : forall recp rece m pcap t, tgt_wf t ->
  (forall sid wa, 0 <= snd (recp sid wa)) -> (forall v, 0 <= snd (rece v)) ->
  0 <= snd (dec_list recp rece m pcap t).
Proof.
  intros recp rece m pcap t W Hp He. pose proof (tgt_cost_nonneg t W) as C.
  destruct t as [|i|sg a dw pc|sg a e n dw pc]; cbn [dec_list snd]; try lia.
  destruct (e =? 1); [cbn [snd]; exact C|].
  destruct (e =? 7).
  { pose proof (sum_costs_nonneg (fun i => rece (mkSV sg (8 * (a + i * (dw + pc))) (8 * dw) pc)) (count_cap n pcap) 0
                  (fun i => He _)) as S.
    destruct (sum_costs _ 0 _) as [es c]. cbn [snd] in *. lia. }
  destruct (e =? 6).
  { pose proof (sum_costs_nonneg (fun i => recp sg (a + i)) (count_cap n pcap) 0 (fun i => Hp _ _)) as S.
    destruct (sum_costs _ 0 _) as [es c]. cbn [snd] in *. lia. }
  destruct (e =? 0); cbn [snd]; exact C.
Qed.

Lemma dec_ptr_nonneg_le : forall strict n fuel, (fuel <= n)%nat -> forall dcap pcap m sid wa,
  0 <= snd (dec_ptr strict fuel dcap pcap m sid wa).
Proof.
  intros strict n. induction n as [|n IH]; intros fuel Hle dcap pcap m sid wa.
  - assert (fuel = O) by lia. subst fuel.
    cbn [dec_ptr]. destruct (spec_resolve strict m sid wa) as [t|] eqn:SR; [|cbn; lia].
    destruct (spec_resolve_facts _ _ _ _ _ SR) as [W _]. pose proof (tgt_cost_nonneg t W).
    destruct t; cbn [snd]; lia.
  - destruct fuel as [|f].
    { cbn [dec_ptr]. destruct (spec_resolve strict m sid wa) as [t|] eqn:SR; [|cbn; lia].
      destruct (spec_resolve_facts _ _ _ _ _ SR) as [W _]. pose proof (tgt_cost_nonneg t W).
      destruct t; cbn [snd]; lia. }
    cbn [dec_ptr]. destruct (spec_resolve strict m sid wa) as [t|] eqn:SR; [|cbn; lia].
    destruct (spec_resolve_facts _ _ _ _ _ SR) as [W _]. pose proof (tgt_cost_nonneg t W) as C.
    destruct t as [|i|sg a dw pc|sg a e n0 dw pc]; try (cbn [snd]; lia).
    + pose proof (dec_struct_nonneg (dec_ptr strict f dcap pcap m) m dcap pcap (sv_of_struct sg a dw pc)
                    (fun s w => IH f ltac:(lia) dcap pcap m s w)) as S.
      destruct (dec_struct _ m dcap pcap _) as [tr c]. cbn [snd] in *. lia.
    + apply dec_list_nonneg; [exact W|intros; apply IH; lia|].
      intros v. destruct f as [|f']; [cbn; lia|].
      apply dec_struct_nonneg. intros s w. apply IH. lia.
Qed.

Lemma dec_ptr_nonneg : forall strict fuel dcap pcap m sid wa,
  0 <= snd (dec_ptr strict fuel dcap pcap m sid wa).
Proof. intros. eapply dec_ptr_nonneg_le. apply le_n. Qed.

(* ------------------------------------------------------------------ the side condition of walk_eq_spec *)
(* "every list MET BY THE DECODER has fewer than 2^29 elements" (the reader rejects larger
   composite tag counts: known finding).  The condition follows the decoder: it concerns only
   the words the decoder reads as pointers, under the same caps -- the pointer at (sid, wa),
   the pointer slots of the struct / the elements of the list it resolves to, and so on for
   [fuel] levels.  Data words, padding and unreachable garbage are not constrained. *)
Definition vrepr_view (rec : Z -> Z -> Prop) (pcap : Z) (v : sview) : Prop :=
  forall i, 0 <= i < Z.of_nat (count_cap (sv_pc v) pcap) -> rec (sv_seg v) (sv_ptr_word v i).

Fixpoint vrepr (fuel : nat) (pcap : Z) (m : list (list Z)) (sid wa : Z) {struct fuel} : Prop :=
  match spec_resolve false m sid wa with
  | None => True
  | Some t =>
    list_repr t /\
    match fuel with
    | O => True
    | S f =>
      match t with
      | TgtStruct seg a dw pc => vrepr_view (vrepr f pcap m) pcap (sv_of_struct seg a dw pc)
      | TgtList seg a e n dw pc =>
        if e =? 6 then forall i, 0 <= i < Z.of_nat (count_cap n pcap) -> vrepr f pcap m seg (a + i)
        else if e =? 7 then
          match f with
          | O => True
          | S f' => forall i, 0 <= i < Z.of_nat (count_cap n pcap) ->
                    vrepr_view (vrepr f' pcap m) pcap (mkSV seg (8 * (a + i * (dw + pc))) (8 * dw) pc)
          end
        else True
      | _ => True
      end
    end
  end.

(* executable form, for concrete messages *)
Definition list_repr_b (t : target) : bool :=
  match t with TgtList _ _ _ n _ _ => n <? 536870912 | _ => true end.

Definition vcheck_view (rec : Z -> Z -> bool) (pcap : Z) (v : sview) : bool :=
  forallb (fun i => rec (sv_seg v) (sv_ptr_word v i)) (zseq 0 (count_cap (sv_pc v) pcap)).

Fixpoint vrepr_check (fuel : nat) (pcap : Z) (m : list (list Z)) (sid wa : Z) {struct fuel} : bool :=
  match spec_resolve false m sid wa with
  | None => true
  | Some t =>
    list_repr_b t &&
    match fuel with
    | O => true
    | S f =>
      match t with
      | TgtStruct seg a dw pc => vcheck_view (vrepr_check f pcap m) pcap (sv_of_struct seg a dw pc)
      | TgtList seg a e n dw pc =>
        if e =? 6 then forallb (fun i => vrepr_check f pcap m seg (a + i)) (zseq 0 (count_cap n pcap))
        else if e =? 7 then
          match f with
          | O => true
          | S f' => forallb (fun i => vcheck_view (vrepr_check f' pcap m) pcap
                                        (mkSV seg (8 * (a + i * (dw + pc))) (8 * dw) pc))
                            (zseq 0 (count_cap n pcap))
          end
        else true
      | _ => true
      end
    end
  end.

Lemma zseq_In : forall k a i, a <= i < a + Z.of_nat k -> In i (zseq a k).
Proof.
  induction k as [|k IH]; intros a i H; [lia|]. cbn [zseq].
  destruct (Z.eq_dec i a) as [->|N]; [left; reflexivity|right; apply IH; lia].
Qed.

Lemma list_repr_b_sound : forall t, list_repr_b t = true -> list_repr t.
Proof. intros t H. destruct t; cbn in *; try exact Logic.I. lia. Qed.

Lemma vcheck_view_sound : forall (rb : Z -> Z -> bool) (rp : Z -> Z -> Prop) pcap v,
  (forall s w, rb s w = true -> rp s w) -> vcheck_view rb pcap v = true -> vrepr_view rp pcap v.
Proof.
  intros rb rp pcap v H C i Hi. unfold vcheck_view in C. rewrite forallb_forall in C.
  apply H. apply C. apply zseq_In. lia.
Qed.

Lemma vrepr_check_sound_le : forall n fuel, (fuel <= n)%nat -> forall pcap m sid wa,
  vrepr_check fuel pcap m sid wa = true -> vrepr fuel pcap m sid wa.
Proof.
  induction n as [|n IH]; intros fuel Hle pcap m sid wa H.
  - assert (fuel = O) by lia. subst fuel. cbn [vrepr_check vrepr] in *.
    destruct (spec_resolve false m sid wa) as [t|]; [|exact Logic.I].
    apply andb_prop in H. split; [apply list_repr_b_sound; tauto|exact Logic.I].
  - destruct fuel as [|f].
    { cbn [vrepr_check vrepr] in *. destruct (spec_resolve false m sid wa) as [t|]; [|exact Logic.I].
      apply andb_prop in H. split; [apply list_repr_b_sound; tauto|exact Logic.I]. }
    cbn [vrepr_check vrepr] in *. destruct (spec_resolve false m sid wa) as [t|]; [|exact Logic.I].
    apply andb_prop in H. destruct H as [H1 H2]. split; [apply list_repr_b_sound; exact H1|].
    destruct t as [|i|sg a dw pc|sg a e k dw pc]; try exact Logic.I.
    + eapply vcheck_view_sound; [|exact H2]. intros s w. apply IH. lia.
    + destruct (e =? 6).
      * intros i Hi. rewrite forallb_forall in H2. apply IH; [lia|]. apply H2. apply zseq_In. lia.
      * destruct (e =? 7); [|exact Logic.I]. destruct f as [|f']; [exact Logic.I|].
        intros i Hi. rewrite forallb_forall in H2.
        eapply vcheck_view_sound; [|apply H2; apply zseq_In; lia]. intros s w. apply IH. lia.
Qed.

Lemma vrepr_check_sound : forall fuel pcap m sid wa,
  vrepr_check fuel pcap m sid wa = true -> vrepr fuel pcap m sid wa.
Proof. intros fuel. apply (vrepr_check_sound_le fuel fuel (le_n _)). Qed.

Section Walk.
Variable c : config.
Variable m : list (list Z).
Variables dcap pcap : Z.
Hypothesis Hstrict : cfg_strict c = true.
Hypothesis Hb : bytes_ok m.
Hypothesis Hsm : segs_small m.
Let fx := mkFix true true true.

Definition P (fuel : nat) : Prop := forall rl sid s wa depth,
  seg_at m sid = Some s -> in_words s wa 1 = true ->
  Z.of_nat fuel < depth < 18446744073709551616 -> 0 <= rl ->
  snd (dec_ptr false fuel dcap pcap m sid wa) <= rl ->
  vrepr fuel pcap m sid wa ->
  (let '(r, rl1) := readPtr true m rl sid s (8 * wa) depth in walk c fx m dcap pcap fuel rl1 r)
  = (fst (dec_ptr false fuel dcap pcap m sid wa), rl - snd (dec_ptr false fuel dcap pcap m sid wa)).

Lemma readPtr_of_spec : forall rl sid s wa depth,
  seg_at m sid = Some s -> in_words s wa 1 = true -> 0 < depth ->
  match spec_resolve false m sid wa with
  | None => readPtr true m rl sid s (8 * wa) depth = (Err, rl)
  | Some t => list_repr t -> tgt_cost t <= rl ->
              exists cs, readPtr true m rl sid s (8 * wa) depth =
                         (Ok (ptr_of_target (uint_dec depth) cs t), rl - tgt_cost t)
  end.
Proof.
  intros rl sid s wa depth Hs Hin Hd.
  assert (Hl : lookup_segment m sid = Ok s) by (rewrite lookup_seg_at, Hs; reflexivity).
  destruct (spec_resolve false m sid wa) as [t|] eqn:SR.
  - intros LR HC. eapply read_ptr_complete; eauto. right. lia.
  - pose proof (readPtr_spec m rl sid s wa depth Hb Hs) as M. rewrite SR in M.
    apply (proj2 M). split; assumption.
Qed.

Lemma walk_struct : forall f, P f -> forall v d mem rl,
  sview_ok m v -> Z.of_nat f < d < 18446744073709551616 -> 0 <= rl ->
  snd (dec_struct (dec_ptr false f dcap pcap m) m dcap pcap v) <= rl ->
  vrepr_view (vrepr f pcap m) pcap v ->
  walk c fx m dcap pcap (S f) rl (Ok (ptr_of_sview d mem v)) =
  (fst (dec_struct (dec_ptr false f dcap pcap m) m dcap pcap v),
   rl - snd (dec_struct (dec_ptr false f dcap pcap m) m dcap pcap v)).
Proof.
  intros f PF v d mem rl OK Hd Hrl HC HV.
  rewrite dec_struct_eq in *. cbn [fst snd] in *.
  cbn [walk].
  change (p_valid (ptr_of_sview d mem v)) with true.
  change (p_kind (ptr_of_sview d mem v)) with KStruct.
  change (DataSize (p_size (ptr_of_sview d mem v))) with (sv_db v).
  change (PointerCount (p_size (ptr_of_sview d mem v))) with (sv_pc v).
  cbn [negb]. cbv iota.
  pose proof OK as OK'. destruct OK' as (s & Hs & Hss & Hbo & Hdb & Hpc & Hin & Hal).
  rewrite (collect_ok _ (fun o => sv_uint m v o 1)).
  2:{ intros i Hi. apply struct_uint_spec; [exact OK|lia|left; reflexivity|].
      unfold cap_count in Hi. lia. }
  change (cap_count (sv_db v) dcap) with (count_cap (sv_db v) dcap).
  change (cap_count (sv_pc v) pcap) with (count_cap (sv_pc v) pcap).
  rewrite (iter_sum _ (fun i => dec_ptr false f dcap pcap m (sv_seg v) (sv_ptr_word v i))).
  - reflexivity.
  - intros i. apply dec_ptr_nonneg.
  - intros i rl0 Hi H0 H1.
    assert (Hip : i < sv_pc v) by (unfold count_cap in Hi; lia).
    destruct (struct_ptr_spec c m rl0 d mem v i OK ltac:(lia)) as [E _]. rewrite E.
    destruct (i <? sv_pc v) eqn:G; [|lia].
    rewrite Hstrict. unfold seg_or_nil. rewrite Hs.
    apply PF; try assumption; [|apply HV; lia].
    unfold in_words, sv_ptr_word, seg_small, maxSegmentSize in *.
    destruct Hal as [Hal|Hal]; [lia|]. lia.
  - exact Hrl.
  - exact HC.
Qed.

Lemma sview_ok_of_struct : forall sg a dw pc,
  tgt_wf (TgtStruct sg a dw pc) -> tgt_inside m (TgtStruct sg a dw pc) -> sview_ok m (sv_of_struct sg a dw pc).
Proof.
  intros sg a dw pc W I. cbn [tgt_wf tgt_inside] in *. destruct I as (s & Hs & Ha & Hin).
  exists s. unfold sv_of_struct. cbn [sv_seg sv_boff sv_db sv_pc].
  split; [exact Hs|]. split; [eapply seg_at_small; eauto|]. repeat split; lia.
Qed.

Lemma list_ok_of_target : forall sg a e n dw pc,
  tgt_wf (TgtList sg a e n dw pc) -> tgt_inside m (TgtList sg a e n dw pc) -> list_repr (TgtList sg a e n dw pc) ->
  list_ok m (TgtList sg a e n dw pc).
Proof.
  intros sg a e n dw pc W I L. cbn [list_ok]. split; [exact W|]. split; [exact L|].
  cbn [tgt_inside] in I. destruct I as (s & Hs & Ha & Hin). exists s.
  split; [exact Hs|]. split; [eapply seg_at_small; eauto|exact Hin].
Qed.

Lemma walk_list : forall f, P f -> (forall f', f = S f' -> P f') ->
  forall sg a e n dw pc d cs rl,
  list_ok m (TgtList sg a e n dw pc) -> Z.of_nat f < d < 18446744073709551616 -> 0 <= rl ->
  let D := dec_list (dec_ptr false f dcap pcap m)
                    (fun v => match f with
                              | O => (TFuel, 0)
                              | S f' => dec_struct (dec_ptr false f' dcap pcap m) m dcap pcap v
                              end) m pcap (TgtList sg a e n dw pc) in
  snd D - tgt_cost (TgtList sg a e n dw pc) <= rl ->
  (if e =? 6 then forall i, 0 <= i < Z.of_nat (count_cap n pcap) -> vrepr f pcap m sg (a + i)
   else if e =? 7 then
     match f with
     | O => True
     | S f' => forall i, 0 <= i < Z.of_nat (count_cap n pcap) ->
               vrepr_view (vrepr f' pcap m) pcap (mkSV sg (8 * (a + i * (dw + pc))) (8 * dw) pc)
     end
   else True) ->
  walk c fx m dcap pcap (S f) rl (Ok (ptr_of_target d cs (TgtList sg a e n dw pc))) =
  (fst D, rl - (snd D - tgt_cost (TgtList sg a e n dw pc))).
Proof.
  intros f PF PF' sg a e n dw pc d cs rl OK Hd Hrl D HC HV. subst D.
  pose proof OK as OK'. cbn [list_ok] in OK'. destruct OK' as (W & LR & s & Hs & Hss & Hin).
  cbn [tgt_wf list_repr] in W, LR. destruct W as (Ha & He & Hn & Hdw & Hpc & Hz).
  cbn [walk].
  change (p_valid (ptr_of_target d cs (TgtList sg a e n dw pc))) with true.
  change (p_kind (ptr_of_target d cs (TgtList sg a e n dw pc))) with KList.
  change (p_bit (ptr_of_target d cs (TgtList sg a e n dw pc))) with (e =? 1).
  change (p_comp (ptr_of_target d cs (TgtList sg a e n dw pc))) with (e =? 7).
  change (p_len (ptr_of_target d cs (TgtList sg a e n dw pc))) with n.
  change (p_size (ptr_of_target d cs (TgtList sg a e n dw pc))) with (esz_size e dw pc).
  cbn [negb fx_bit fx_depth fx_upgrade fx]. cbv iota.
  change (cap_count n pcap) with (count_cap n pcap).
  assert (Hk : Z.of_nat (count_cap n pcap) <= n) by (unfold count_cap; lia).
  unfold dec_list in *.
  destruct (e =? 1) eqn:E1.
  { rewrite (collect_ok _ (l_bit m (TgtList sg a e n dw pc))).
    - cbn [fst snd]. f_equal.  lia.
    - intros i Hi. apply bitlist_at_spec; [exact OK|]. lia. }
  destruct (e =? 7) eqn:E7.
  { rewrite (iter_sum _ (fun i => match f with
                                  | O => (TFuel, 0)
                                  | S f' => dec_struct (dec_ptr false f' dcap pcap m) m dcap pcap
                                              (mkSV sg (8 * (a + i * (dw + pc))) (8 * dw) pc)
                                  end)).
    - destruct (sum_costs _ 0 _) as [es cc]. cbn [fst snd] in *.
      unfold esz_size. rewrite E7. f_equal.  lia.
    - intros i. destruct f; [cbn; lia|]. apply dec_struct_nonneg. intros; apply dec_ptr_nonneg.
    - intros i rl0 Hi H0 H1.
      rewrite (list_struct_spec m d cs (TgtList sg a e n dw pc) i OK) by lia.
      unfold l_struct. destruct ((0 <=? i) && (i <? n)) eqn:R; [|lia]. rewrite E7.
      destruct f as [|f'].
      + cbn [walk ptr_of_sview p_valid negb fst snd]. f_equal.  lia.
      + assert (Dd : (if d =? 0 then 0 else uint_dec d) = d - 1).
        { destruct (d =? 0) eqn:D0; [lia|]. unfold uint_dec, u64. lia. }
        rewrite Dd. apply walk_struct; [apply PF'; reflexivity| |lia|exact H0|exact H1|].
        2:{ assert (E6f : (e =? 6) = false) by lia. rewrite E6f in HV. apply HV. lia. }
        (* the element is a well-formed struct view *)
        pose proof (elem_index_bound i n (dw + pc) ltac:(lia) ltac:(lia)) as B.
        destruct Hin as [Ha1 Hin].
        exists s. cbn [sv_seg sv_boff sv_db sv_pc].
        split; [exact Hs|]. split; [exact Hss|].
        set (Q := i * (dw + pc)) in *. set (N := n * (dw + pc)) in *.
        repeat split; lia.
    - exact Hrl.
    - destruct (sum_costs _ 0 _) as [es cc]. cbn [fst snd] in *.  lia. }
  destruct (Hz ltac:(lia)) as (Edw & Epc & Hn').
  destruct (e =? 6) eqn:E6.
  { assert (He6 : e = 6) by lia. unfold esz_size. rewrite E7, E6. cbn [PointerCount]. change (0 <? 1) with true. cbv iota.
    rewrite (iter_sum _ (fun i => dec_ptr false f dcap pcap m sg (a + i))).
    - destruct (sum_costs _ 0 _) as [es cc]. cbn [fst snd] in *. f_equal. lia.
    - intros i. apply dec_ptr_nonneg.
    - intros i rl0 Hi H0 H1.
      pose proof (ptrlist_at_spec c m rl0 d cs (TgtList sg a e n dw pc) i OK ltac:(cbv iota; lia)) as PS.
      cbv beta iota in PS. rewrite E6 in PS. destruct PS as [PS _]. rewrite PS.
      rewrite Hstrict. unfold seg_or_nil. rewrite Hs.
      apply PF; try assumption; [|apply HV; lia].
      rewrite He6 in Hin. unfold in_words, list_bytes in *. cbn [Z.eqb Pos.eqb] in Hin. lia.
    - exact Hrl.
    - destruct (sum_costs _ 0 _) as [es cc]. cbn [fst snd] in *. lia. }
  assert (He' : e = 0 \/ e = 2 \/ e = 3 \/ e = 4 \/ e = 5) by lia.
  destruct (e =? 0) eqn:E0.
  { unfold esz_size, esz_bytes. rewrite E7, E6. assert (He0 : e = 0) by lia. rewrite He0. cbn [Z.eqb Pos.eqb PointerCount DataSize].
    change (0 <? 0) with false. cbv iota. cbn [fst snd]. f_equal. lia. }
  assert (Hsz : esz_size e dw pc = mkOS (esz_bytes e) 0).
  { unfold esz_size. rewrite E7, E6. reflexivity. }
  rewrite Hsz. cbn [PointerCount DataSize]. change (0 <? 0) with false. cbv iota.
  assert (Hw : esz_bytes e = 1 \/ esz_bytes e = 2 \/ esz_bytes e = 4 \/ esz_bytes e = 8).
  { unfold esz_bytes. destruct He' as [?|[?|[?|[?|?]]]]; subst e; cbn; lia. }
  destruct (esz_bytes e =? 0) eqn:W0; [lia|].
  rewrite (collect_ok _ (fun i => l_uint m (TgtList sg a e n dw pc) i (esz_bytes e))).
  - cbn [fst snd]. f_equal.  lia.
  - intros i Hi. apply list_uint_at_spec; [exact OK|exact Hw|]. lia.
Qed.

Lemma P_all : forall n fuel, (fuel <= n)%nat -> P fuel.
Proof.
  induction n as [|n IH]; intros fuel Hle.
  - assert (fuel = O) by lia. subst fuel.
    intros rl sid s wa depth Hs Hin Hd Hrl HC HV.
    pose proof (readPtr_of_spec rl sid s wa depth Hs Hin ltac:(lia)) as R.
    cbn [dec_ptr vrepr] in *.
    destruct (spec_resolve false m sid wa) as [t|] eqn:SR.
    2:{ rewrite R. cbn [walk fst snd]. f_equal. lia. }
    destruct (spec_resolve_facts _ _ _ _ _ SR) as [W I]. pose proof (tgt_cost_nonneg t W) as C.
    destruct HV as [LR _]. specialize (R LR).
    destruct t as [|i|sg a dw pc|sg a e n0 dw pc]; cbn [fst snd tgt_cost] in *;
      (destruct (R ltac:(lia)) as [cs E]; rewrite E; cbn [walk ptr_of_target p_valid nullPtr negb]; f_equal; lia).
  - destruct fuel as [|f].
    { apply IH. lia. }
    assert (PF : P f) by (apply IH; lia).
    assert (PF' : forall f', f = S f' -> P f') by (intros f' ->; apply IH; lia).
    intros rl sid s wa depth Hs Hin Hd Hrl HC HV.
    pose proof (readPtr_of_spec rl sid s wa depth Hs Hin ltac:(lia)) as R.
    assert (Hud : uint_dec depth = depth - 1) by (unfold uint_dec, u64; lia).
    cbn [dec_ptr vrepr] in *.
    destruct (spec_resolve false m sid wa) as [t|] eqn:SR.
    2:{ rewrite R. cbn [walk fst snd]. f_equal. lia. }
    destruct (spec_resolve_facts _ _ _ _ _ SR) as [W I]. pose proof (tgt_cost_nonneg t W) as C.
    destruct HV as [LR HV]. specialize (R LR).
    destruct t as [|i|sg a dw pc|sg a e n0 dw pc].
    + cbn [fst snd] in *. destruct (R ltac:(cbn [tgt_cost]; lia)) as [cs E]. rewrite E.
      cbn [walk ptr_of_target p_valid nullPtr negb tgt_cost]. f_equal; lia.
    + cbn [fst snd] in *. destruct (R ltac:(cbn [tgt_cost]; lia)) as [cs E]. rewrite E.
      cbn [walk ptr_of_target p_valid p_kind p_len negb tgt_cost]. f_equal; lia.
    + pose proof (dec_struct_nonneg (dec_ptr false f dcap pcap m) m dcap pcap (sv_of_struct sg a dw pc)
                    (fun s0 w0 => dec_ptr_nonneg false f dcap pcap m s0 w0)) as SN.
      destruct (dec_struct (dec_ptr false f dcap pcap m) m dcap pcap (sv_of_struct sg a dw pc)) as [tr cc] eqn:ED.
      cbn [fst snd] in *.
      destruct (R ltac:(lia)) as [cs E]. rewrite E. rewrite Hud.
      change (ptr_of_target (depth - 1) cs (TgtStruct sg a dw pc))
        with (ptr_of_sview (depth - 1) false (sv_of_struct sg a dw pc)).
      rewrite (walk_struct f PF); [rewrite ED; cbn [fst snd]; f_equal; lia| |lia|lia|rewrite ED; cbn [snd]; lia|exact HV].
      apply sview_ok_of_struct; assumption.
    + set (D := dec_list (dec_ptr false f dcap pcap m)
                  (fun v => match f with
                            | O => (TFuel, 0)
                            | S f' => dec_struct (dec_ptr false f' dcap pcap m) m dcap pcap v
                            end) m pcap (TgtList sg a e n0 dw pc)) in *.
      assert (DN : tgt_cost (TgtList sg a e n0 dw pc) <= snd D).
      { subst D. unfold dec_list.
        destruct (e =? 1); [cbn [snd]; lia|].
        destruct (e =? 7).
        { match goal with |- context [sum_costs ?G 0 ?k] =>
            pose proof (sum_costs_nonneg G k 0) as SN; destruct (sum_costs G 0 k) as [es cc] end.
          cbn [snd] in *. 
          assert (0 <= cc); [|lia]. apply SN. intros i0.
          destruct f; [cbn; lia|]. apply dec_struct_nonneg. intros; apply dec_ptr_nonneg. }
        destruct (e =? 6).
        { match goal with |- context [sum_costs ?G 0 ?k] =>
            pose proof (sum_costs_nonneg G k 0) as SN; destruct (sum_costs G 0 k) as [es cc] end.
          cbn [snd] in *. assert (0 <= cc); [|lia]. apply SN. intros i0. apply dec_ptr_nonneg. }
        destruct (e =? 0); cbn [snd]; lia. }
      destruct (R ltac:(lia)) as [cs E]. rewrite E. rewrite Hud.
      rewrite (walk_list f PF PF'); [fold D; f_equal; lia| |lia|lia|fold D; lia|exact HV].
      apply list_ok_of_target; assumption.
Qed.

(* walk_eq_spec: for every message, every caps and every fuel: when the segments fit the
   address space, every list MET BY THE DECODER under these caps has a representable element
   count ([vrepr]: only words the decoder reads as pointers are constrained, not data words),
   the depth limit exceeds the fuel and the budget covers the specification's traversal cost,
   walking from any in-bounds pointer word gives exactly the (lenient) specification tree and
   consumes exactly the specification's cost. *)
Theorem walk_eq_spec : forall fuel rl sid s wa depth,
  seg_at m sid = Some s -> in_words s wa 1 = true ->
  Z.of_nat fuel < depth < 18446744073709551616 -> 0 <= rl ->
  spec_cost false fuel dcap pcap m sid wa <= rl ->
  vrepr fuel pcap m sid wa ->
  (let '(r, rl1) := readPtr true m rl sid s (8 * wa) depth in
   walk c fx m dcap pcap fuel rl1 r)
  = (spec_decode false fuel dcap pcap m sid wa, rl - spec_cost false fuel dcap pcap m sid wa).
Proof. intros fuel. exact (P_all fuel fuel (le_n _)). Qed.


End Walk.

(* ------------------------------------------------------------------ non-vacuity *)
From CV Require Import Spec.SpecExamples.

(* A three-segment message like SpecExamples.ex_msg (root = FAR pointer to a struct; its first
   pointer a DOUBLE-FAR pointer to a composite list; a capability; a text) whose DATA words look
   like hostile pointers: the struct's data words are 0x0000000700000001 (a composite list
   pointer, offset 0) followed by 0x80000000 (read as a tag: 2^29 elements of size 0), and the
   second list element's data word is 0x80000000 again.  Reading word 1 of segment 1 as a
   pointer gives a list of 2^29 elements, so a condition over ALL words fails on this
   message; the decoder never reads these words as pointers, [vrepr] holds, and walk_eq_spec
   applies. *)
Definition ex_msg2 : list (list Z) :=
  [[2; 0; 0; 0; 1; 0; 0; 0; 8; 0; 0; 0; 1; 0; 1; 0; 7; 0; 0; 0; 0; 0; 0; 0; 0; 0; 0; 0; 0; 0; 0; 0; 0; 0; 0; 128; 0; 0; 0; 0; 3; 0; 0; 0; 5; 0; 0; 0];
   [0; 0; 0; 0; 2; 0; 2; 0; 1; 0; 0; 0; 7; 0; 0; 0; 0; 0; 0; 128; 0; 0; 0; 0; 6; 0; 0; 0; 2; 0; 0; 0; 1; 0; 0; 0; 26; 0; 0; 0; 104; 105; 0; 0; 0; 0; 0; 0];
   [10; 0; 0; 0; 0; 0; 0; 0; 1; 0; 0; 0; 39; 0; 0; 0]].

Definition ex_tree2 : tree :=
  TStruct [1; 0; 0; 0; 7; 0; 0; 0; 0; 0; 0; 128; 0; 0; 0; 0]
    [TComp 2 (mkOS 8 1) [TStruct [7; 0; 0; 0; 0; 0; 0; 0] [TNull]; TStruct [0; 0; 0; 128; 0; 0; 0; 0] [TCap 5]];
     TPrim 1 3 [104; 105; 0]].

Example ex2_bytes_ok : bytes_ok ex_msg2.
Proof. unfold bytes_ok, seg_ok, ex_msg2. repeat (constructor; [repeat (constructor; [lia|])|]); constructor. Qed.

Example ex2_segs_small : segs_small ex_msg2.
Proof. unfold segs_small, seg_small, ex_msg2, blen, maxSegmentSize. repeat constructor; cbn; lia. Qed.

Example ex2_vrepr : vrepr 6 8 ex_msg2 0 0.
Proof. apply vrepr_check_sound. vm_compute. reflexivity. Qed.

(* the condition quantified over every word (the earlier formulation) is false here *)
Example ex2_all_words_condition_fails :
  ~ (forall sid wa t, spec_resolve false ex_msg2 sid wa = Some t -> list_repr t).
Proof.
  intro H. specialize (H 1 1 (TgtList 1 3 7 536870912 0 0)).
  assert (E : spec_resolve false ex_msg2 1 1 = Some (TgtList 1 3 7 536870912 0 0)) by (vm_compute; reflexivity).
  specialize (H E). cbn in H. lia.
Qed.

(* all hypotheses of walk_eq_spec hold for this message; its conclusion, instantiated *)
Example ex2_walk_eq_spec_applies :
  (let '(r, rl1) := readPtr true ex_msg2 1000000 0 (nth 0 ex_msg2 []) (8 * 0) 64 in
   walk ex_cfg (mkFix true true true) ex_msg2 64 8 6 rl1 r)
  = (spec_decode false 6 64 8 ex_msg2 0 0, 1000000 - spec_cost false 6 64 8 ex_msg2 0 0)
  /\ spec_decode false 6 64 8 ex_msg2 0 0 = ex_tree2.
Proof.
  split; [|vm_compute; reflexivity].
  apply (walk_eq_spec ex_cfg ex_msg2 64 8 eq_refl ex2_bytes_ok ex2_segs_small 6 1000000 0 (nth 0 ex_msg2 []) 0 64).
  - reflexivity.
  - reflexivity.
  - cbn; lia.
  - lia.
  - vm_compute. discriminate.
  - exact ex2_vrepr.
Qed.
