(* Glue between the list and struct accessor theorems of SpecProofs.v (contributed by the
   independent review, /verif/docs/audit): an element of a well-formed list, read as a struct
   (composite lists directly, primitive / pointer lists by upgrade), is a well-formed struct
   view, so the struct accessor theorems (struct_uint_spec, struct_bit_spec, struct_ptr_spec)
   apply to the result of list_struct_spec. *)
From CV Require Import Core.Arith Core.Reader Core.ReadOps Spec.Spec Spec.SpecProofs.
From Coq Require Import ZArith List Lia Bool.
Open Scope Z_scope.

Local Opaque Z.mul Z.add.
Lemma list_elem_sview_ok : forall m l i v, list_ok m l -> l_struct l i = Some v -> sview_ok m v.
Proof.
  intros m l i v H E. destruct l as [| |?|sg a e n dw pc]; cbn [list_ok] in H; try contradiction.
  destruct H as (W & R & s & Hs & Sm & In).
  unfold l_struct in E. destruct ((0 <=? i) && (i <? n)) eqn:B; [|discriminate].
  apply andb_true_iff in B. destruct B as [B1 B2]. apply Z.leb_le in B1. apply Z.ltb_lt in B2.
  cbn [tgt_wf] in W. destruct W as (Wa & We & Wn & Wd & Wp & Wx).
  destruct (e =? 7) eqn:E7.
  - apply Z.eqb_eq in E7. injection E as <-. exists s; cbn [sv_seg sv_boff sv_db sv_pc]. split; auto. split; auto.
    assert (i * (dw+pc) + (dw+pc) <= n * (dw+pc)) by nia.
    assert ((8 * (a + i * (dw + pc)) + 8 * dw) mod 8 = 0).
    { rewrite <- Z.mul_add_distr_l. rewrite Z.mul_comm. apply Z_mod_mult. }
    change (7 =? 7) with true in In; cbv iota in In. repeat split; try lia.
  - apply Z.eqb_neq in E7. destruct (Wx E7) as (-> & -> & Hn).
    destruct (e =? 1) eqn:E1; [discriminate|]. apply Z.eqb_neq in E1.
    destruct (e =? 6) eqn:E6.
    + apply Z.eqb_eq in E6. subst e. injection E as <-. exists s; cbn [sv_seg sv_boff sv_db sv_pc]. split; auto. split; auto.
      unfold list_bytes in In. change (6 =? 0) with false in In. change (6 =? 1) with false in In.
      change (6 =? 2) with false in In. change (6 =? 3) with false in In. change (6 =? 4) with false in In. cbv iota in In.
      assert ((8 * (a + i) + 0) mod 8 = 0). { rewrite Z.add_0_r, Z.mul_comm. apply Z_mod_mult. }
      repeat split; try lia.
    + apply Z.eqb_neq in E6. injection E as <-. exists s; cbn [sv_seg sv_boff sv_db sv_pc]. split; auto. split; auto.
      assert (e = 0 \/ e = 2 \/ e = 3 \/ e = 4 \/ e = 5) as [X|[X|[X|[X|X]]]] by lia; subst e;
      unfold list_bytes, esz_bytes in *;
      repeat match goal with H : context [?x =? ?y] |- _ => let b := eval vm_compute in (x =? y) in change (x =? y) with b in H end;
      repeat match goal with |- context [?x =? ?y] => let b := eval vm_compute in (x =? y) in change (x =? y) with b end;
      cbv iota in *; repeat split; try lia.
Qed.
