(* L2: what the Cap'n Proto encoding specification (capnproto.org/encoding.html) says a
   message denotes.  Written from the specification text, NOT from the Go code:

     - a message is a list of segments, a segment a sequence of 8-byte little-endian words;
     - bits of a word are numbered from the least significant bit;
     - struct pointer   A(2)=0  B(30)=signed offset, in words, from the end of the pointer
                        C(16)=data section words   D(16)=pointer section words
     - list pointer     A(2)=1  B(30)=signed offset  C(3)=element size code
                        D(29)=element count (code 7: word count, not counting the tag word;
                        the list content is then prefixed by a tag word laid out like a
                        struct pointer whose B field is the element count)
                        codes: 0 void, 1 bit, 2..5 = 1,2,4,8 bytes, 6 pointer, 7 composite
     - far pointer      A(2)=2  B(1)=landing pad is two words  C(29)=word offset of the pad
                        from the start of the target segment  D(32)=segment id
                        B=0: the pad is an ordinary (non-far) pointer whose offset is
                             relative to the pad; B=1: the pad is a far pointer with B=0
                             locating the object, followed by a tag word describing it
                             (a struct/list pointer with offset 0)
     - capability       A(2)=3  B(30)=0  C(32)=index in the capability table
     - null             the all-zero word.

   Only [/], [mod], comparisons and list indexing are used; nothing of Core/Arith.v or
   Core/Reader.v is used, except the TYPE [tree] of Core/ReadOps.v (and [ObjectSize], which
   occurs inside [TComp]) so that the decoder's result can be compared with the walker's.
   No proofs in this file. *)
From Coq Require Import ZArith List Bool.
From CV Require Core.ReadOps.      (* Require only, not Import: the type [tree] *)
Import ListNotations.
Open Scope Z_scope.

Notation tree := CV.Core.ReadOps.tree.
Notation TNull := CV.Core.ReadOps.TNull.
Notation TErr := CV.Core.ReadOps.TErr.
Notation TFuel := CV.Core.ReadOps.TFuel.
Notation TCap := CV.Core.ReadOps.TCap.
Notation TStruct := CV.Core.ReadOps.TStruct.
Notation TPtrs := CV.Core.ReadOps.TPtrs.
Notation TComp := CV.Core.ReadOps.TComp.
Notation TPrim := CV.Core.ReadOps.TPrim.
Notation TBits := CV.Core.ReadOps.TBits.
Notation mkSize := CV.Core.Arith.mkOS.     (* ObjectSize: data bytes, pointer count *)

(* ------------------------------------------------------------------ bytes and words *)
Definition blen (s : list Z) : Z := Z.of_nat (length s).

Definition byte_at (s : list Z) (i : Z) : Z :=
  if i <? 0 then 0 else nth (Z.to_nat i) s 0.

(* the little-endian number stored in bytes a, a+1, .., a+n-1 *)
Fixpoint le_num (s : list Z) (a : Z) (n : nat) : Z :=
  match n with
  | O => 0
  | S k => byte_at s a + 256 * le_num s (a + 1) k
  end.

Definition word_at (s : list Z) (w : Z) : Z := le_num s (8 * w) 8.

Definition seg_at (m : list (list Z)) (id : Z) : option (list Z) :=
  if (id <? 0) || (Z.of_nat (length m) <=? id) then None else Some (nth (Z.to_nat id) m []).

Definition seg_or_nil (m : list (list Z)) (id : Z) : list Z :=
  match seg_at m id with Some s => s | None => [] end.

(* words a .. a+nw-1 exist in s *)
Definition in_words (s : list Z) (a nw : Z) : bool := (0 <=? a) && (8 * (a + nw) <=? blen s).
(* nb bytes starting at word a exist in s *)
Definition in_bytes (s : list Z) (a nb : Z) : bool := (0 <=? a) && (8 * a + nb <=? blen s).

(* ------------------------------------------------------------------ pointer word fields *)
Definition ptr_kind (w : Z) : Z := w mod 4.                                   (* A *)
Definition signed30 (v : Z) : Z := if v <? 536870912 then v else v - 1073741824.
Definition off30 (w : Z) : Z := signed30 ((w / 4) mod 1073741824).            (* B, signed *)
Definition st_dwords (w : Z) : Z := (w / 4294967296) mod 65536.               (* C of a struct pointer *)
Definition st_pcount (w : Z) : Z := (w / 281474976710656) mod 65536.          (* D of a struct pointer *)
Definition ls_esz (w : Z) : Z := (w / 4294967296) mod 8.                      (* C of a list pointer *)
Definition ls_count (w : Z) : Z := (w / 34359738368) mod 536870912.           (* D of a list pointer *)
Definition tag_count (w : Z) : Z := (w / 4) mod 1073741824.                   (* B of a tag word: element count *)
Definition far_two (w : Z) : Z := (w / 4) mod 2.                              (* B of a far pointer *)
Definition far_off (w : Z) : Z := (w / 8) mod 536870912.                      (* C of a far pointer *)
Definition far_seg (w : Z) : Z := (w / 4294967296) mod 4294967296.            (* D of a far pointer *)
Definition cap_zero (w : Z) : Z := (w / 4) mod 1073741824.                    (* B of a capability pointer *)
Definition cap_index (w : Z) : Z := (w / 4294967296) mod 4294967296.          (* C of a capability pointer *)

(* ------------------------------------------------------------------ targets *)
(* What a pointer designates.  Addresses are WORD addresses inside segment [seg];
   section sizes are in words. *)
Inductive target :=
| TgtNull
| TgtCap (idx : Z)
| TgtStruct (seg addr dw pc : Z)
| TgtList (seg addr esz n dw pc : Z).
  (* addr: word address of element 0 (after the tag word for esz = 7);
     n: number of elements; dw, pc: sections of each element (esz = 7 only, else 0) *)

(* bytes occupied by the content of a list with size code e and D field n *)
Definition list_bytes (e n : Z) : Z :=
  if e =? 0 then 0
  else if e =? 1 then (n + 7) / 8
  else if e =? 2 then n
  else if e =? 3 then 2 * n
  else if e =? 4 then 4 * n
  else 8 * n.                       (* 5: 8-byte values, 6: pointers, 7: words *)

(* the object described by a struct/list pointer word (or tag word) [w] when the object
   starts at word [addr] of segment [sid].  [strict]: the tag of a composite list must
   account for exactly the words announced by the list pointer. *)
Definition spec_obj (strict : bool) (m : list (list Z)) (sid addr w : Z) : option target :=
  match seg_at m sid with
  | None => None
  | Some s =>
    if ptr_kind w =? 0 then
      let dw := st_dwords w in
      let pc := st_pcount w in
      if in_words s addr (dw + pc) then Some (TgtStruct sid addr dw pc) else None
    else
      let e := ls_esz w in
      let n := ls_count w in
      if e =? 7 then
        if in_words s addr (1 + n) then
          let tag := word_at s addr in
          if ptr_kind tag =? 0 then
            let cnt := tag_count tag in
            let dw := st_dwords tag in
            let pc := st_pcount tag in
            if in_words s (addr + 1) (cnt * (dw + pc)) && (negb strict || (cnt * (dw + pc) =? n))
            then Some (TgtList sid (addr + 1) 7 cnt dw pc)
            else None
          else None
        else None
      else
        if in_bytes s addr (list_bytes e n) then Some (TgtList sid addr e n 0 0) else None
  end.

(* a non-far pointer word [w] stored at word [wa] of segment [sid] *)
Definition spec_near (strict : bool) (m : list (list Z)) (sid wa w : Z) : option target :=
  if w =? 0 then Some TgtNull
  else
    let k := ptr_kind w in
    if k =? 3 then (if cap_zero w =? 0 then Some (TgtCap (cap_index w)) else None)
    else if k =? 2 then None                     (* a landing pad is never itself a far pointer *)
    else spec_obj strict m sid (wa + 1 + off30 w) w.

(* the pointer stored at word [wa] of segment [sid] *)
Definition spec_resolve (strict : bool) (m : list (list Z)) (sid wa : Z) : option target :=
  match seg_at m sid with
  | None => None
  | Some s =>
    if negb (in_words s wa 1) then None else
    let w := word_at s wa in
    if ptr_kind w =? 2 then
      let psid := far_seg w in
      let pa := far_off w in
      match seg_at m psid with
      | None => None
      | Some ps =>
        if far_two w =? 0 then
          if in_words ps pa 1 then spec_near strict m psid pa (word_at ps pa) else None
        else
          if in_words ps pa 2 then
            let f := word_at ps pa in
            let t := word_at ps (pa + 1) in
            if (ptr_kind f =? 2) && (far_two f =? 0)
               && ((ptr_kind t =? 0) || (ptr_kind t =? 1)) && (off30 t =? 0)
            then spec_obj strict m (far_seg f) (far_off f) t
            else None
          else None
      end
    else spec_near strict m sid wa w
  end.

(* ------------------------------------------------------------------ struct contents *)
(* A struct as a reader sees it: data section = [sv_db] bytes at byte [sv_boff], followed by
   [sv_pc] pointers.  (Byte granularity because an element of a primitive list can be read
   as a struct whose only field is that primitive.) *)
Record sview := mkSV { sv_seg : Z; sv_boff : Z; sv_db : Z; sv_pc : Z }.

Definition sv_of_struct (seg addr dw pc : Z) : sview := mkSV seg (8 * addr) (8 * dw) pc.

(* an n-byte unsigned field at byte offset [off] of the data section: the stored value when
   the field lies inside the section, else the default 0 *)
Definition sv_uint (m : list (list Z)) (v : sview) (off n : Z) : Z :=
  if (0 <=? off) && (off + n <=? sv_db v)
  then le_num (seg_or_nil m (sv_seg v)) (sv_boff v + off) (Z.to_nat n)
  else 0.

(* bit [n] of the data section (bits numbered from the least significant bit of byte 0) *)
Definition sv_bit (m : list (list Z)) (v : sview) (n : Z) : bool :=
  if (0 <=? n) && (n <? 8 * sv_db v)
  then (byte_at (seg_or_nil m (sv_seg v)) (sv_boff v + n / 8) / 2 ^ (n mod 8)) mod 2 =? 1
  else false.

(* word address of pointer field i *)
Definition sv_ptr_word (v : sview) (i : Z) : Z := (sv_boff v + sv_db v) / 8 + i.

(* pointer field i: null beyond the pointer section *)
Definition sv_ptr (strict : bool) (m : list (list Z)) (v : sview) (i : Z) : option target :=
  if (0 <=? i) && (i <? sv_pc v) then spec_resolve strict m (sv_seg v) (sv_ptr_word v i)
  else Some TgtNull.

Definition sv_hasptr (m : list (list Z)) (v : sview) (i : Z) : bool :=
  (0 <=? i) && (i <? sv_pc v) && negb (word_at (seg_or_nil m (sv_seg v)) (sv_ptr_word v i) =? 0).

(* ------------------------------------------------------------------ list contents *)
Definition esz_bytes (e : Z) : Z :=
  if e =? 2 then 1 else if e =? 3 then 2 else if e =? 4 then 4 else if e =? 5 then 8 else 0.

(* element i of a list read as an unsigned integer of w bytes.  A list encoded as a struct
   list (code 7) may be read as a primitive list: the value is the first data field of each
   element (the elements must have at least w bytes of data).  Otherwise the encoded element
   size must be the requested one; anything else denotes the default 0. *)
Definition l_uint (m : list (list Z)) (l : target) (i w : Z) : Z :=
  match l with
  | TgtList seg a e n dw pc =>
    if (0 <=? i) && (i <? n) then
      if e =? 7 then
        if w <=? 8 * dw then le_num (seg_or_nil m seg) (8 * (a + i * (dw + pc))) (Z.to_nat w) else 0
      else if esz_bytes e =? w then le_num (seg_or_nil m seg) (8 * a + i * w) (Z.to_nat w)
      else 0
    else 0
  | _ => 0
  end.

(* element i of a list read as a pointer: pointer lists directly; a struct list may be read
   as a pointer list: the FIRST POINTER of each element.  None = not readable that way. *)
Definition l_ptr (strict : bool) (m : list (list Z)) (l : target) (i : Z) : option target :=
  match l with
  | TgtList seg a e n dw pc =>
    if (0 <=? i) && (i <? n) then
      if e =? 6 then spec_resolve strict m seg (a + i)
      else if (e =? 7) && (1 <=? pc) then spec_resolve strict m seg (a + i * (dw + pc) + dw)
      else None
    else None
  | _ => None
  end.

(* element i of a bit list (bits numbered from the least significant bit of byte 0) *)
Definition l_bit (m : list (list Z)) (l : target) (i : Z) : bool :=
  match l with
  | TgtList seg a e n dw pc =>
    if (0 <=? i) && (i <? n) && (e =? 1)
    then (byte_at (seg_or_nil m seg) (8 * a + i / 8) / 2 ^ (i mod 8)) mod 2 =? 1
    else false
  | _ => false
  end.

(* element i of a list read as a struct: composite lists directly; a list of primitives or
   pointers may be read as a list of structs whose only field is that primitive / pointer;
   bit lists cannot be read that way. *)
Definition l_struct (l : target) (i : Z) : option sview :=
  match l with
  | TgtList seg a e n dw pc =>
    if (0 <=? i) && (i <? n) then
      if e =? 7 then Some (mkSV seg (8 * (a + i * (dw + pc))) (8 * dw) pc)
      else if e =? 1 then None
      else if e =? 6 then Some (mkSV seg (8 * (a + i)) 0 1)
      else Some (mkSV seg (8 * a + i * esz_bytes e) (esz_bytes e) 0)
    else None
  | _ => None
  end.

Fixpoint zseq (i : Z) (n : nat) : list Z :=
  match n with O => [] | S k => i :: zseq (i + 1) k end.

(* Data: the bytes of a byte list *)
Definition l_data (m : list (list Z)) (l : target) : option (list Z) :=
  match l with
  | TgtList seg a e n dw pc =>
    if e =? 2 then Some (map (fun i => byte_at (seg_or_nil m seg) (8 * a + i)) (zseq 0 (Z.to_nat n)))
    else None
  | _ => None
  end.

(* Text: a byte list whose last byte is NUL; the text is the bytes before it *)
Definition l_text (m : list (list Z)) (l : target) : option (list Z) :=
  match l with
  | TgtList seg a e n dw pc =>
    if (e =? 2) && (1 <=? n) && (byte_at (seg_or_nil m seg) (8 * a + n - 1) =? 0)
    then Some (map (fun i => byte_at (seg_or_nil m seg) (8 * a + i)) (zseq 0 (Z.to_nat (n - 1))))
    else None
  | _ => None
  end.

(* ------------------------------------------------------------------ whole-tree decoder *)
(* The decoder mirrors the observation caps of the generic walker so that trees are
   comparable: at most [dcap] data bytes per struct, at most [pcap] pointers / elements per
   struct / list, [fuel] levels.  It also returns the amount of message data visited in the
   convention of the traversal limit (every struct and list is counted each time a pointer
   to it is followed; an element of fewer than 8 bytes... see [elem_charge]). *)
Definition count_cap (n cap : Z) : nat := Z.to_nat (Z.min (Z.max n 0) cap).

(* traversal-limit convention: lists are charged per element, elements of size zero
   (void, bit, empty struct) are charged as one word *)
Definition elem_charge (e dw pc : Z) : Z :=
  if e =? 7 then (if dw + pc =? 0 then 8 else 8 * (dw + pc))
  else if e =? 6 then 8
  else if esz_bytes e =? 0 then 8 else esz_bytes e.

Definition tgt_cost (t : target) : Z :=
  match t with
  | TgtStruct _ _ dw pc => 8 * (dw + pc)
  | TgtList _ _ e n dw pc => n * elem_charge e dw pc
  | _ => 0
  end.

Fixpoint sum_costs {A} (f : Z -> A * Z) (i : Z) (n : nat) : list A * Z :=
  match n with
  | O => ([], 0)
  | S k => let '(a, c) := f i in
           let '(r, c') := sum_costs f (i + 1) k in (a :: r, c + c')
  end.

Definition dec_struct (rec : Z -> Z -> tree * Z) (m : list (list Z)) (dcap pcap : Z) (v : sview) : tree * Z :=
  let data := map (fun o => sv_uint m v o 1) (zseq 0 (count_cap (sv_db v) dcap)) in
  let '(ps, c) := sum_costs (fun i => rec (sv_seg v) (sv_ptr_word v i)) 0 (count_cap (sv_pc v) pcap) in
  (TStruct data ps, c).

(* a list target: [recp] decodes the pointer at (segment, word), [rece] a struct element *)
Definition dec_list (recp : Z -> Z -> tree * Z) (rece : sview -> tree * Z) (m : list (list Z)) (pcap : Z)
  (t : target) : tree * Z :=
  match t with
  | TgtList seg a e n dw pc =>
    let k := count_cap n pcap in
    if e =? 1 then (TBits n (map (l_bit m t) (zseq 0 k)), tgt_cost t)
    else if e =? 7 then
      let '(es, c) := sum_costs (fun i => rece (mkSV seg (8 * (a + i * (dw + pc))) (8 * dw) pc)) 0 k in
      (TComp n (mkSize (8 * dw) pc) es, tgt_cost t + c)
    else if e =? 6 then
      let '(es, c) := sum_costs (fun i => recp seg (a + i)) 0 k in
      (TPtrs n es, tgt_cost t + c)
    else if e =? 0 then (TPrim 0 n [], tgt_cost t)
    else (TPrim (esz_bytes e) n (map (fun i => l_uint m t i (esz_bytes e)) (zseq 0 k)), tgt_cost t)
  | _ => (TErr, 0)
  end.

Fixpoint dec_ptr (strict : bool) (fuel : nat) (dcap pcap : Z) (m : list (list Z)) (sid wa : Z) {struct fuel}
  : tree * Z :=
  match spec_resolve strict m sid wa with
  | None => (TErr, 0)
  | Some TgtNull => (TNull, 0)
  | Some t =>
    match fuel with
    | O => (TFuel, tgt_cost t)
    | S f =>
      match t with
      | TgtNull => (TNull, 0)
      | TgtCap i => (TCap i, 0)
      | TgtStruct seg a dw pc =>
        let '(tr, c) := dec_struct (dec_ptr strict f dcap pcap m) m dcap pcap (sv_of_struct seg a dw pc) in
        (tr, tgt_cost t + c)
      | TgtList _ _ _ _ _ _ =>
        dec_list (dec_ptr strict f dcap pcap m)
                 (fun v => match f with
                           | O => (TFuel, 0)
                           | S f' => dec_struct (dec_ptr strict f' dcap pcap m) m dcap pcap v
                           end) m pcap t
      end
    end
  end.

(* the tree below an already resolved target (same caps); the cost of the target itself is
   not included *)
Definition dec_view (strict : bool) (fuel : nat) (dcap pcap : Z) (m : list (list Z)) (v : sview) : tree * Z :=
  match fuel with
  | O => (TFuel, 0)
  | S f => dec_struct (dec_ptr strict f dcap pcap m) m dcap pcap v
  end.

Definition dec_tgt (strict : bool) (fuel : nat) (dcap pcap : Z) (m : list (list Z)) (t : target) : tree * Z :=
  match t with
  | TgtNull => (TNull, 0)
  | _ =>
    match fuel with
    | O => (TFuel, 0)
    | S f =>
      match t with
      | TgtNull => (TNull, 0)
      | TgtCap i => (TCap i, 0)
      | TgtStruct seg a dw pc => dec_view strict fuel dcap pcap m (sv_of_struct seg a dw pc)
      | TgtList _ _ _ _ _ _ =>
        let '(tr, c) := dec_list (dec_ptr strict f dcap pcap m) (dec_view strict f dcap pcap m) m pcap t in
        (tr, c - tgt_cost t)
      end
    end
  end.

(* the value tree below the pointer stored at word [wa] of segment [sid] *)
Definition spec_decode (strict : bool) (fuel : nat) (dcap pcap : Z) (m : list (list Z)) (sid wa : Z) : tree :=
  fst (dec_ptr strict fuel dcap pcap m sid wa).
Definition spec_cost (strict : bool) (fuel : nat) (dcap pcap : Z) (m : list (list Z)) (sid wa : Z) : Z :=
  snd (dec_ptr strict fuel dcap pcap m sid wa).

(* the root pointer is the first word of the first segment *)
Definition spec_root (strict : bool) (m : list (list Z)) : option target := spec_resolve strict m 0 0.
Definition spec_decode_root (strict : bool) (fuel : nat) (dcap pcap : Z) (m : list (list Z)) : tree :=
  spec_decode strict fuel dcap pcap m 0 0.
