(* A promise whose resolved channel is closed reaches, along next, a settled promise (signals handed out, no next
   edge); a settled promise's table only holds proxies whose target is set; ReleaseClients therefore never waits
   for a proxy hook, and every proxy in a settled promise's table has that promise's result at its path. *)
From CV Require Import Promise.Promise Promise.PromiseProofs Promise.PromiseJoin Promise.PromiseJoinThms
  Promise.PromiseJoinInv Promise.PromiseJoinRefs Promise.PromiseJoinDest Promise.PromiseJoinChain
  Promise.PromiseJoinForest Promise.PromiseJoinLive Promise.PromiseJoinStuck Promise.PromiseJoinHook
  Promise.PromiseJoinPath Promise.PromiseJoinHookStuck.
Open Scope Z_scope.

(* the resolved state: signals closed and cleared, not joined *)
Definition settled (c : jconfig) (r : nat) : Prop := p_signals (getp c r) = [] /\ p_next (getp c r) = None.

Lemma settled_step : forall v c t c', JS c -> jstep v c t = Some c' -> forall r, settled c r -> settled c' r.
Proof.
  intros v c t c' HS Hs.
  unfold jstep in Hs. destruct (nth_error (jthreads c) t) as [th|] eqn:Hth; [|discriminate].
  assert (Hsig : forall k, jphase k th = true -> p_signals (getp c k) <> []).
  { intros k Hp. apply (S_thr c HS t th k Hth). unfold jphase in Hp. apply orb_true_iff in Hp. exact Hp. }
  pose proof (S_unres c HS) as Hun. unfold has_sig in Hun.
  junfold Hs. jexplode Hs; inversion Hs; subst; clear Hs.
  all: unfold resolve_entry, do_known, do_final; goal_matches.
  all: unfold jphase, jpre, jpost in Hsig; repeat match goal with H : j_pc _ = _ |- _ => rewrite H in Hsig end; simpl in Hsig.
  all: intros r0 [Hs0 Hn0]; unfold settled.
  all: repeat progress (autorewrite with getp_simp; rewrite ?next_close_sigs, ?signals_close_sigs).
  all: eqb_all; simpl; rewrite ?next_close_joined, ?signals_close_joined; simpl; try (split; assumption).
  all: try (split; [reflexivity|assumption]).
  all: try (exfalso; match goal with H : nth_error _ _ = Some ?tt |- _ => apply (Hsig (j_cur tt)) end; [rewrite ?Nat.eqb_refl; reflexivity|assumption]).
  all: try (exfalso; match goal with H : p_caller (getp _ ?k) = true |- _ => apply (Hun k H); assumption end).
Qed.

(* a signal moved along Join edges: it sits in the signals of a promise its owner reaches *)
Definition SGR (c : jconfig) : Prop := forall r s, In s (p_signals (getp c r)) -> nreach c s r.

Lemma SGR_step : forall v c t c', JE4 c -> SGR c -> jstep v c t = Some c' -> SGR c'.
Proof.
  intros v c t c' HE HG Hs.
  pose proof (next_mono_step v c t c' HE Hs) as Hmono.
  unfold jstep in Hs. destruct (nth_error (jthreads c) t) as [th|] eqn:Hth; [|discriminate].
  junfold Hs. jexplode Hs; inversion Hs; subst; clear Hs.
  all: unfold resolve_entry, do_known, do_final in *; goal_matches.
  all: intros r0 s0 Hin;
       repeat progress (autorewrite with getp_simp in Hin; rewrite ?signals_close_sigs in Hin);
       revert Hin; eqb_all; simpl; rewrite ?signals_close_joined; simpl; intros Hin; try contradiction.
  all: try (apply (nreach_mono c); [exact Hmono|apply HG; exact Hin]).
  all: apply in_app_or in Hin; destruct Hin as [Hin|Hin]; [apply (nreach_mono c); [exact Hmono|apply HG; exact Hin]|].
  all: eapply nreach_snoc; [apply (nreach_mono c); [exact Hmono|apply HG; exact Hin]|].
  all: repeat progress (autorewrite with getp_simp); eqb_all; simpl; rewrite ?next_close_joined; simpl; try congruence.
Qed.

(* k's next-chain ends in a settled promise *)
Inductive lands (c : jconfig) : nat -> Prop :=
| ld_here : forall k, settled c k -> lands c k
| ld_next : forall k q, p_next (getp c k) = Some q -> lands c q -> lands c k.

Lemma lands_mono : forall c c' k,
  (forall k q, p_next (getp c k) = Some q -> p_next (getp c' k) = Some q) ->
  (forall r, settled c r -> settled c' r) -> lands c k -> lands c' k.
Proof. intros c c' k Hm Hs H. induction H; [apply ld_here; auto|eapply ld_next; eauto]. Qed.

Lemma lands_nreach : forall c s r, nreach c s r -> settled c r -> lands c s.
Proof. intros c s r H Hs. induction H; [apply ld_here; exact Hs|eapply ld_next; eauto]. Qed.

Lemma lands_end : forall c k, lands c k -> p_next (getp c k) = None -> settled c k.
Proof. intros c k H Hn. inversion H; subst; [assumption|congruence]. Qed.

Lemma lands_next : forall c k q, lands c k -> p_next (getp c k) = Some q -> lands c q.
Proof.
  intros c k q H Hn. inversion H as [k' [_ Hs]|k' q' Hn' Hl]; subst; [congruence|].
  assert (q' = q) by congruence. subst. exact Hl.
Qed.

(* a closed resolved channel: the chain below ends in a settled promise *)
Definition RC (c : jconfig) : Prop := forall k, p_resclosed (getp c k) = true -> lands c k.

Lemma RC_step : forall v c t c', JS c -> JZ c -> JE4 c -> SGR c -> RC c -> jstep v c t = Some c' -> RC c'.
Proof.
  intros v c t c' HS HZ HE HG HC Hs.
  pose proof (next_mono_step v c t c' HE Hs) as Hmono.
  pose proof (settled_step v c t c' HS Hs) as Hset.
  unfold jstep in Hs. destruct (nth_error (jthreads c) t) as [th|] eqn:Hth; [|discriminate].
  assert (Hact : jphase (j_cur th) th = true -> p_next (getp c (j_cur th)) = None).
  { intros Hp. pose proof (jcount_mem _ _ _ _ Hth Hp) as Hpos. rewrite (HE (j_cur th)) in Hpos.
    apply act_next. destruct (act (getp c (j_cur th))); [reflexivity|lia]. }
  pose proof (fun k => proj1 (HZ k)) as Hcn.
  junfold Hs. jexplode Hs; inversion Hs; subst; clear Hs.
  all: unfold resolve_entry, do_known, do_final in *; goal_matches.
  all: unfold jphase, jpre, jpost in Hact;
       repeat match goal with H : j_pc _ = _ |- _ => rewrite H in Hact end; rewrite ?Nat.eqb_refl in Hact; simpl in Hact.
  all: intros k0 Hrc;
       repeat progress (autorewrite with getp_simp in Hrc; rewrite ?resclosed_close_sigs in Hrc);
       revert Hrc; eqb_all; simpl; rewrite ?resclosed_close_joined; simpl; intros Hrc.
  all: try (apply (lands_mono c); [exact Hmono|exact Hset|apply HC; exact Hrc]).
  all: norm_negb.
  all: match type of Hrc with (if mem_nat ?a ?l then _ else _) = true =>
         destruct (mem_nat a l) eqn:Hm; [|eapply lands_mono; [exact Hmono|exact Hset|apply HC; exact Hrc]] end.
  all: apply jmem_in in Hm.
  all: match type of Hm with In ?a (p_signals (getp ?cc ?k)) =>
         apply (lands_nreach _ a k); [apply (nreach_mono cc); [exact Hmono|apply HG; exact Hm]|] end.
  all: unfold settled; repeat progress (autorewrite with getp_simp; rewrite ?signals_close_sigs, ?next_close_sigs);
       eqb_all; simpl; rewrite ?next_close_joined; simpl; split; [reflexivity|].
  all: first [apply Hact; reflexivity|apply Hcn; assumption].
Qed.

(* ---- targets: once set, a proxy's target stays set *)
Definition tgt (c : jconfig) (x : nat) : Prop := jx_target (getx c x) <> None.

Lemma tgt_step : forall v c t c', jstep v c t = Some c' -> forall x, tgt c x -> tgt c' x.
Proof.
  intros v c t c' Hs x Hx.
  assert (Hlt : (x < length (jproxies c))%nat).
  { destruct (lt_dec x (length (jproxies c))); auto. exfalso. apply Hx. unfold getx. rewrite nth_overflow by lia. reflexivity. }
  revert Hx. jleaves v Hs Hth; goal_matches.
  all: unfold tgt, getx; repeat progress (autorewrite with prx_simp); intros Hx; try exact Hx.
  all: try (rewrite app_nth1 by exact Hlt; exact Hx).
  all: match goal with |- context [nth ?y (upd ?x0 ?p ?l) ?d] =>
         destruct (Nat.eq_dec x0 y) as [->|Hne];
         [rewrite nth_upd_same by exact Hlt; simpl; first [exact Hx|discriminate]|rewrite nth_upd_other by exact Hne; exact Hx] end.
Qed.

(* ---- a table only grows while its promise is unresolved (Client() adds a row, Join merges into the parent) *)
Lemma rows_step : forall v c t c', jstep v c t = Some c' ->
  forall r x, in_rows c' r x -> in_rows c r x \/ p_caller (getp c r) = true.
Proof.
  intros v c t c' Hs.
  jleaves v Hs Hth; goal_matches.
  all: norm_negb.
  all: intros r0 x0 Hin; unfold in_rows, rows_of in *;
       repeat progress (autorewrite with getp_simp in Hin; rewrite ?clients_close_sigs_h in Hin);
       revert Hin; eqb_all; simpl; rewrite ?clients_close_joined; simpl; intros Hin; try contradiction; auto.
Qed.

(* ---- loop progress: the resolver's loop list covers every row not yet targeted; settled tables are targeted *)
Definition lpost (c : jconfig) (th : jthread) : Prop :=
  match j_pc th with
  | QFul | QFulWait => forall x, in_rows c (j_cur th) x -> In x (j_rest th) \/ tgt c x
  | QClose => forall x, in_rows c (j_cur th) x -> tgt c x
  | _ => True
  end.

Record JL (c : jconfig) : Prop := {
  L_post : forall t th, nth_error (jthreads c) t = Some th -> lpost c th;
  L_set : forall r x, settled c r -> in_rows c r x -> tgt c x
}.

Lemma JL_step : forall v c t c', JV c -> JR c -> JS c -> JL c -> jstep v c t = Some c' -> JL c'.
Proof.
  intros v c t c' HV HR HS HL Hs.
  pose proof (tgt_step v c t c' Hs) as Htg.
  pose proof (rows_step v c t c' Hs) as Hrows.
  pose proof (S_unres c HS) as Hun. unfold has_sig in Hun.
  unfold jstep in Hs. destruct (nth_error (jthreads c) t) as [th|] eqn:Hth; [|discriminate].
  pose proof (L_post c HL t th Hth) as Hown. unfold lpost in Hown.
  destruct (V_thr c HV t th Hth) as [Hvrest _].
  junfold Hs. jexplode Hs; inversion Hs; subst; clear Hs.
  all: unfold resolve_entry, do_known, do_final in *; goal_matches.
  all: norm_negb.
  all: repeat match goal with H : j_pc _ = _ |- _ => rewrite H in Hown end.
  all: constructor;
    [ intros t0 th0 H0; simpl in H0; rewrite ?close_sigs_threads in H0; simpl in H0;
      destruct (jupd_nth_cases _ _ _ _ _ _ Hth H0) as [[-> ->]|[Hne H0']]; clear H0;
      [ idtac
      | pose proof (L_post c HL _ _ H0') as A; unfold lpost in *; destruct (j_pc th0) eqn:Hp0; try exact I;
        (intros y Hx;
         assert (Hcf : p_caller (getp c (j_cur th0)) = false)
           by (destruct (R_post c HR _ th0 (j_cur th0) H0' ltac:(unfold jpost; rewrite Hp0, Nat.eqb_refl; reflexivity)) as [Hb _];
               exact (begin_not_caller c _ _ HR Hb));
         destruct (Hrows _ _ Hx) as [Hx'|Hc]; [|congruence];
         first [ destruct (A y Hx') as [A1|A1]; [left; exact A1|right; apply Htg; exact A1] | apply Htg; exact (A y Hx') ]) ]
    | intros r0 x0 [Hs0 Hn0] Hin; destruct (Hrows _ _ Hin) as [Hin'|Hc];
      unfold in_rows, rows_of in Hin;
      repeat progress (autorewrite with getp_simp in Hin; rewrite ?clients_close_sigs_h in Hin);
      repeat progress (autorewrite with getp_simp in Hs0; rewrite ?signals_close_sigs in Hs0);
      repeat progress (autorewrite with getp_simp in Hn0; rewrite ?next_close_sigs in Hn0);
      revert Hs0 Hn0; eqb_all; simpl; rewrite ?signals_close_joined, ?next_close_joined; simpl; intros Hs0 Hn0;
      try discriminate Hn0;
      try (exfalso; exact (Hun _ Hc Hs0));
      try (apply Htg; exact (L_set c HL _ _ (conj Hs0 Hn0) Hin')) ].
  all: try (unfold lpost, jcall_done;
            repeat match goal with |- context [match j_via ?th with _ => _ end] => destruct (j_via th) eqn:? end;
            cbn [j_pc j_op j_via j_cur j_rest j_waitx jgoto jfinish sj_pc sj_cur sj_par sj_path sj_via sj_rest sj_waitx sj_res sj_out];
            repeat match goal with H : j_pc _ = _ |- _ => rewrite H end;
            exact I).
  all: try (simpl in Hin; rewrite ?clients_close_joined in Hin; simpl in Hin; apply Htg; apply Hown; exact Hin).
  all: try (exfalso; match goal with E : rows_of _ = [] |- _ =>
              unfold rows_of in E; repeat progress (autorewrite with getp_simp in E); rewrite ?Nat.eqb_refl in E; simpl in E;
              simpl in Hin; rewrite ?clients_close_joined in Hin; simpl in Hin; rewrite E in Hin; exact Hin end).
  all: try (exfalso; apply app_eq_nil in Hs0; destruct Hs0 as [Hs0 _];
            match goal with H : p_caller (getp _ ?k) = true |- _ => exact (Hun k H Hs0) end).
  all: unfold lpost;
       cbn [j_pc j_op j_via j_cur j_rest j_waitx jgoto jfinish sj_pc sj_cur sj_par sj_path sj_via sj_rest sj_waitx sj_res sj_out];
       intros y Hy.
  (* QFulWait -> QFul, and the end of the loop *)
  all: try (exact (Hown y Hy)).
  all: try (destruct (Hown y Hy) as [A|A]; [match goal with E : j_rest _ = [] |- _ => rewrite ?E in A; destruct A end|exact A]).
  (* one proxy fulfilled *)
  all: try (match goal with E : j_rest _ = ?n :: _ |- _ =>
              pose proof (Hvrest n ltac:(rewrite ?E; left; reflexivity)) as Hlt;
              destruct (Hown y Hy) as [A|A]; [rewrite ?E in A; destruct A as [<-|A]; [right|left; exact A]|right; apply Htg; exact A];
              unfold tgt, getx; repeat progress (autorewrite with prx_simp); rewrite nth_upd_same by exact Hlt; simpl; discriminate end).
  (* the loop list is the table *)
  all: left; unfold in_rows, rows_of in *;
       repeat progress (autorewrite with getp_simp in Hy; rewrite ?clients_close_sigs_h, ?Nat.eqb_refl in Hy; simpl in Hy);
       repeat progress (autorewrite with getp_simp; rewrite ?Nat.eqb_refl; simpl);
       rewrite ?clients_close_joined in *; simpl in *; exact Hy.
Qed.

(* ---- ReleaseClients walks to a settled promise; the table it takes is fully targeted; it never waits for a hook *)
Definition wrel (c : jconfig) (th : jthread) : Prop :=
  match j_pc th with
  | QRelWalk => lands c (j_cur th)
  | QRel => forall x, In x (j_rest th) -> tgt c x
  | QRelWait => False
  | _ => True
  end.

Definition JW (c : jconfig) : Prop := forall t th, nth_error (jthreads c) t = Some th -> wrel c th.

Lemma JW_step : forall v c t c', JS c -> JE4 c -> RC c -> JL c -> JW c -> jstep v c t = Some c' -> JW c'.
Proof.
  intros v c t c' HS HE HC HL HW Hs.
  pose proof (next_mono_step v c t c' HE Hs) as Hmono.
  pose proof (settled_step v c t c' HS Hs) as Hset.
  pose proof (tgt_step v c t c' Hs) as Htg.
  assert (Hld : forall k, lands c k -> lands c' k) by (intros k H; exact (lands_mono c c' k Hmono Hset H)).
  clear Hmono Hset.
  unfold jstep in Hs. destruct (nth_error (jthreads c) t) as [th|] eqn:Hth; [|discriminate].
  pose proof (HW t th Hth) as Hown. unfold wrel in Hown.
  junfold Hs. jexplode Hs; inversion Hs; subst; clear Hs.
  all: unfold resolve_entry, do_known, do_final in *; goal_matches.
  all: repeat match goal with H : j_pc _ = _ |- _ => rewrite H in Hown end.
  all: intros t0 th0 H0; simpl in H0; rewrite ?close_sigs_threads in H0; simpl in H0;
       destruct (jupd_nth_cases _ _ _ _ _ _ Hth H0) as [[-> ->]|[Hne H0']]; clear H0;
       [ idtac
       | pose proof (HW _ _ H0') as A; unfold wrel in *; destruct (j_pc th0); try exact I;
         first [exact (Hld _ A)|(intros y Hy; apply Htg; exact (A y Hy))|exact A] ].
  all: try contradiction.
  all: try (unfold wrel, jcall_done;
            repeat match goal with |- context [match j_via ?th with _ => _ end] => destruct (j_via th) eqn:? end;
            cbn [j_pc j_op j_via j_cur j_rest j_waitx jgoto jfinish sj_pc sj_cur sj_par sj_path sj_via sj_rest sj_waitx sj_res sj_out];
            repeat match goal with H : j_pc _ = _ |- _ => rewrite H end;
            exact I).
  all: unfold wrel;
       cbn [j_pc j_op j_via j_cur j_rest j_waitx jgoto jfinish sj_pc sj_cur sj_par sj_path sj_via sj_rest sj_waitx sj_res sj_out];
       repeat match goal with H : j_pc _ = _ |- _ => rewrite H end.
  all: try (apply Hld; apply HC; assumption).
  all: try (apply Hld; eapply lands_next; [exact Hown|simpl in *; eassumption]).
  all: try (exfalso; match goal with H : jx_target (getx _ ?n) = None |- _ => apply (Hown n); [left; reflexivity|exact H] end).
  all: try (intros y Hy; apply Htg; apply Hown; right; exact Hy).
  all: intros y Hy; apply Htg; apply (L_set c HL (j_cur th)); [apply lands_end; [exact Hown|simpl in *; assumption]|exact Hy].
Qed.

Lemma SGR_reach : forall v np ops c, jv_alloc_table v = true -> jreach v np ops c -> SGR c.
Proof.
  intros v np ops c Hv H. induction H as [|c t c' Hr IH Hs].
  - intros r s Hin. destruct (getp_init np ops r) as [E|E]; rewrite E in Hin; simpl in Hin; [destruct Hin|].
    destruct Hin as [<-|[]]. apply nr_refl.
  - exact (SGR_step v c t c' (JE4_reach v np ops c Hv Hr) IH Hs).
Qed.

Lemma RC_reach : forall v np ops c, jv_alloc_table v = true -> jreach v np ops c -> RC c.
Proof.
  intros v np ops c Hv H. induction H as [|c t c' Hr IH Hs].
  - intros k Hrc. apply ld_here. unfold settled.
    destruct (getp_init np ops k) as [E|E]; rewrite E in *; simpl in *; [split; reflexivity|discriminate].
  - exact (RC_step v c t c' (JS_reach v np ops c Hr) (JZ_reach v np ops c Hv Hr) (JE4_reach v np ops c Hv Hr)
             (SGR_reach v np ops c Hv Hr) IH Hs).
Qed.

Lemma JL_reach : forall v np ops c, jreach v np ops c -> JL c.
Proof.
  intros v np ops c H. induction H as [|c t c' Hr IH Hs].
  - constructor.
    + intros t th Hth. simpl in Hth. rewrite nth_error_map in Hth. destruct (nth_error ops t); inversion Hth; subst. exact I.
    + intros r x _ Hin. unfold in_rows, rows_of in Hin. destruct (getp_init np ops r) as [E|E]; rewrite E in Hin; destruct Hin.
  - exact (JL_step v c t c' (JV_reach v np ops c Hr) (JR_reach v np ops c Hr) (JS_reach v np ops c Hr) IH Hs).
Qed.

Lemma JW_reach : forall v np ops c, jv_alloc_table v = true -> jreach v np ops c -> JW c.
Proof.
  intros v np ops c Hv H. induction H as [|c t c' Hr IH Hs].
  - intros t th Hth. simpl in Hth. rewrite nth_error_map in Hth. destruct (nth_error ops t); inversion Hth; subst. exact I.
  - exact (JW_step v c t c' (JS_reach v np ops c Hr) (JE4_reach v np ops c Hv Hr) (RC_reach v np ops c Hv Hr)
             (JL_reach v np ops c Hr) IH Hs).
Qed.

(* ReleaseClients / Client.Release never waits for the calls of a proxy hook *)
Theorem join_release_never_waits_for_hook : forall v np ops c,
  jv_alloc_table v = true -> jreach v np ops c ->
  forall t th, nth_error (jthreads c) t = Some th -> j_pc th <> QRelWait.
Proof.
  intros v np ops c Hv Hr t th Hth Hpc. pose proof (JW_reach v np ops c Hv Hr t th Hth) as W.
  unfold wrel in W. rewrite Hpc in W. exact W.
Qed.

(* no_stuck on chains, same shape as the single-promise C11_no_stuck: if nothing can move then the application holds a
   call inside a PipelineCaller, or every unfinished operation waits - directly or through Join threads - for a
   promise nobody has asked to resolve *)
Theorem join_no_stuck : forall v np ops c,
  jv_close_joined v = true -> jv_alloc_table v = true -> join_ordered ops -> jreach v np ops c ->
  (forall t, jenabled v c t = false) ->
  (exists t th, nth_error (jthreads c) t = Some th /\ j_pc th = QInCaller /\
                jop_gated (j_op th) = true /\ mem_nat t (jgates c) = false) \/
  (forall t th, nth_error (jthreads c) t = Some th -> j_pc th <> QDone ->
                exists r, p_caller (getp c r) = true).
Proof.
  intros v np ops c Hv1 Hv2 Ho Hr Hdis.
  destruct (join_no_stuck_chain_partial v np ops c Hv1 Hv2 Ho Hr Hdis) as [H|[[t [th [Hth Hpc]]]|H]]; auto.
  exfalso. exact (join_release_never_waits_for_hook v np ops c Hv2 Hr t th Hth Hpc).
Qed.

(* waiters_released on chains: at rest, no call held by the application, every promise asked to resolve or joined
   => every operation (Done/Struct waiters, ReleaseClients, Client(), pipelined calls, Joins) has finished *)
Theorem join_waiters_released : forall v np ops c,
  jv_close_joined v = true -> jv_alloc_table v = true -> join_ordered ops -> jreach v np ops c ->
  (forall t, jenabled v c t = false) ->
  (forall t th, nth_error (jthreads c) t = Some th -> j_pc th = QInCaller ->
                jop_gated (j_op th) = true -> mem_nat t (jgates c) = true) ->
  (forall k, p_caller (getp c k) = false) ->
  forall t th, nth_error (jthreads c) t = Some th -> j_pc th = QDone.
Proof.
  intros v np ops c Hv1 Hv2 Ho Hr Hdis Hgate Hall t th Hth.
  destruct (join_no_stuck v np ops c Hv1 Hv2 Ho Hr Hdis) as [[t1 [th1 [H1 [P1 [G1 M1]]]]]|H].
  - rewrite (Hgate t1 th1 H1 P1 G1) in M1. discriminate.
  - destruct (j_pc th) eqn:Hpc; auto;
      (destruct (H t th Hth ltac:(congruence)) as [r Hc]; rewrite Hall in Hc; discriminate).
Qed.

(* ================================================================ proxy targets on chains *)

(* the destination "result at the end of k's next-chain, at path q" *)
Inductive endd (c : jconfig) : nat -> path -> dest -> Prop :=
| ed_here : forall k q res, p_next (getp c k) = None -> p_result (getp c k) = Some res -> endd c k q (res_dest res q)
| ed_next : forall k k' q d, p_next (getp c k) = Some k' -> endd c k' q d -> endd c k q d.

Lemma endd_mono : forall c c' k q d,
  (forall k q, p_next (getp c k) = Some q -> p_next (getp c' k) = Some q) ->
  (forall k res, p_next (getp c k) = None -> p_result (getp c k) = Some res ->
                 p_next (getp c' k) = None /\ p_result (getp c' k) = Some res) ->
  endd c k q d -> endd c' k q d.
Proof.
  intros c c' k q d Hm He H. induction H as [k q res Hn Hr|k k' q d Hn H IH].
  - destruct (He k res Hn Hr) as [A B]. apply ed_here; assumption.
  - eapply ed_next; eauto.
Qed.

Lemma endd_nreach : forall c a r q res, nreach c a r -> p_next (getp c r) = None -> p_result (getp c r) = Some res ->
  endd c a q (res_dest res q).
Proof. intros c a r q res H Hn Hr. induction H; [apply ed_here; assumption|eapply ed_next; eauto]. Qed.

Lemma endd_det : forall c a q d r res, endd c a q d -> nreach c a r ->
  p_next (getp c r) = None -> p_result (getp c r) = Some res -> d = res_dest res q.
Proof.
  intros c a q d r res H. revert r res. induction H as [k q res0 Hn Hr|k k' q d Hn H IH]; intros r res Hnr Hrn Hrr.
  - inversion Hnr; subst; [congruence|congruence].
  - inversion Hnr as [|a b e Hn' Hnr']; subst; [congruence|]. assert (b = k') by congruence. subst. eauto.
Qed.

(* a promise that has a result and no next edge keeps both *)
Lemma resend_step : forall v c t c', JR c -> jstep v c t = Some c' ->
  forall k res, p_next (getp c k) = None -> p_result (getp c k) = Some res ->
                p_next (getp c' k) = None /\ p_result (getp c' k) = Some res.
Proof.
  intros v c t c' HR Hs.
  unfold jstep in Hs. destruct (nth_error (jthreads c) t) as [th|] eqn:Hth; [|discriminate].
  pose proof (fun k H => proj2 (proj2 (R_begin c HR k) H)) as Hcr.
  junfold Hs. jexplode Hs; inversion Hs; subst; clear Hs.
  all: unfold resolve_entry, do_known, do_final; goal_matches.
  all: own_phase HR Hth.
  all: norm_negb.
  all: intros k0 res0 Hn0 Hr0.
  all: repeat progress (autorewrite with getp_simp; rewrite ?next_close_sigs, ?result_close_sigs).
  all: eqb_all; simpl; rewrite ?next_close_joined, ?result_close_joined; simpl; try (split; assumption).
  all: try (exfalso; specialize (Hpre eq_refl); destruct Hpre as [_ Hrn]; congruence).
  all: try (specialize (Hpost eq_refl); destruct Hpost as [_ Hrs]; split; [assumption|congruence]).
  all: exfalso; match goal with H : p_caller (getp _ ?k) = true |- _ => pose proof (Hcr k H) end; congruence.
Qed.

(* a proxy's target is the result at the end of its owner's chain, at its path *)
Definition TG (c : jconfig) : Prop :=
  forall x px, nth_error (jproxies c) x = Some px ->
    forall d, jx_target px = Some d -> endd c (jx_owner px) (jx_path px) d.

Lemma TG_step : forall v c t c', JR c -> JE4 c -> JX c -> TG c -> jstep v c t = Some c' -> TG c'.
Proof.
  intros v c t c' HR HE HX HT Hs.
  pose proof (next_mono_step v c t c' HE Hs) as Hmono.
  pose proof (resend_step v c t c' HR Hs) as Hend.
  assert (Hed : forall k q d, endd c k q d -> endd c' k q d) by (intros; eapply endd_mono; eauto).
  clear Hmono Hend.
  unfold jstep in Hs. destruct (nth_error (jthreads c) t) as [th|] eqn:Hth; [|discriminate].
  destruct (X_thr c HX t th Hth) as [_ Hxpc].
  assert (Hact : jphase (j_cur th) th = true -> p_next (getp c (j_cur th)) = None).
  { intros Hp. pose proof (jcount_mem _ _ _ _ Hth Hp) as Hpos. rewrite (HE (j_cur th)) in Hpos.
    apply act_next. destruct (act (getp c (j_cur th))); [reflexivity|lia]. }
  junfold Hs. jexplode Hs; inversion Hs; subst; clear Hs.
  all: unfold resolve_entry, do_known, do_final in *; goal_matches.
  all: own_phase HR Hth.
  all: unfold jphase, jpre, jpost in Hact;
       repeat match goal with H : j_pc _ = _ |- _ => rewrite H in Hact end;
       repeat match goal with H : j_pc _ = _ |- _ => rewrite H in Hxpc end; rewrite ?Nat.eqb_refl in Hact; simpl in Hact.
  all: intros x0 px0 Hx0 d0 Hd0; simpl in Hx0; jpx_cases Hx0.
  all: try (apply Hed; exact (HT _ _ Hx0 _ Hd0)); try (apply Hed; exact (HT _ _ Hx0' _ Hd0)).
  all: try discriminate Hd0.
  all: simpl in Hd0 |- *; try (apply Hed; exact (HT _ _ Hb0 _ Hd0)).
  all: inversion Hd0; subst d0; apply Hed.
  all: specialize (Hpost eq_refl); destruct Hpost as [_ Hrs].
  all: pose proof (Hxpc n ltac:(left; reflexivity)) as Hn; unfold own in Hn; rewrite (getx_nth _ _ _ Hb0) in Hn.
  all: exact (endd_nreach c _ _ _ _ Hn (Hact eq_refl) Hrs).
Qed.

Lemma TG_reach : forall v np ops c, jv_alloc_table v = true -> jreach v np ops c -> TG c.
Proof.
  intros v np ops c Hv H. induction H as [|c t c' Hr IH Hs].
  - intros x px Hx. destruct x; discriminate.
  - exact (TG_step v c t c' (JR_reach v np ops c Hr) (JE4_reach v np ops c Hv Hr) (JX_reach v np ops c Hv Hr) IH Hs).
Qed.

(* proxy targets on chains: in a settled (resolved) promise's client table every proxy has been given that promise's
   result at the proxy's path *)
Theorem join_proxy_targets : forall v np ops c,
  jv_alloc_table v = true -> jreach v np ops c ->
  forall r x res, settled c r -> p_result (getp c r) = Some res -> in_rows c r x ->
    jx_target (getx c x) = Some (res_dest res (jx_path (getx c x))).
Proof.
  intros v np ops c Hv Hr r x res Hst Hres Hin.
  pose proof (L_set c (JL_reach v np ops c Hr) r x Hst Hin) as Ht. unfold tgt in Ht.
  destruct (jx_target (getx c x)) as [d|] eqn:Ed; [|congruence]. f_equal.
  pose proof (V_rows c (JV_reach v np ops c Hr) r x Hin) as Hlt.
  destruct (nth_error (jproxies c) x) as [px|] eqn:Ex; [|apply nth_error_None in Ex; lia].
  pose proof (getx_nth _ _ _ Ex) as Eg. rewrite Eg in *.
  pose proof (TG_reach v np ops c Hv Hr x px Ex d Ed) as He.
  pose proof (X_rows c (JX_reach v np ops c Hv Hr) r x Hin) as Hn. unfold own in Hn. rewrite Eg in Hn.
  exact (endd_det c _ _ _ r res He Hn (proj2 Hst) Hres).
Qed.

(* the invariant in one statement *)
Lemma lands_exists : forall c k, lands c k -> exists r, nreach c k r /\ settled c r.
Proof.
  intros c k H. induction H as [k Hs|k q Hn H [r [Hr Hs]]].
  - exists k. split; [apply nr_refl|exact Hs].
  - exists r. split; [eapply nr_step; eauto|exact Hs].
Qed.

Theorem join_resclosed_lands : forall v np ops c,
  jv_alloc_table v = true -> jreach v np ops c ->
  forall k, p_resclosed (getp c k) = true ->
    exists r, nreach c k r /\ settled c r /\ (forall x, in_rows c r x -> jx_target (getx c x) <> None).
Proof.
  intros v np ops c Hv Hr k Hrc.
  destruct (lands_exists c k (RC_reach v np ops c Hv Hr k Hrc)) as [r [Hn Hs]].
  exists r. split; [exact Hn|]. split; [exact Hs|]. intros x Hin. exact (L_set c (JL_reach v np ops c Hr) r x Hs Hin).
Qed.

(* ---- the premises of the chain theorems can be met together *)
Definition premises_history : list jop :=
  [JClient 2 [] 0; JJoin 2 1; JJoin 1 0; JFulfill 0 []; JCall 0 false; JRelease 2; JRelease 1; JRelease 0; JWait 2].

Lemma jquiesce_reach : forall v np ops fuel c n c',
  jreach v np ops c -> jquiesce v fuel c n = Some c' -> jreach v np ops c'.
Proof.
  induction fuel as [|f IH]; simpl; intros c n c' Hr Hq; [discriminate|].
  destruct (jfirst_enabled v c n) as [t|]; [|inversion Hq; subst; exact Hr].
  destruct (jstep v c t) as [c1|] eqn:E; [|inversion Hq; subst; exact Hr].
  exact (IH c1 n c' (jreach_step v np ops c t c1 Hr E) Hq).
Qed.

Definition premises_final : jconfig :=
  Eval vm_compute in
  match jquiesce jfixed 1000 (jinit 3 premises_history) 9 with Some c => c | None => jinit 3 premises_history end.

Theorem join_premises_satisfiable :
  jv_close_joined jfixed = true /\ jv_alloc_table jfixed = true /\ jv_refs_sum jfixed = true /\
  join_ordered premises_history /\
  exists c, jreach jfixed 3 premises_history c /\ (forall t, jenabled jfixed c t = false) /\
            (forall t th, nth_error (jthreads c) t = Some th -> j_pc th = QDone).
Proof.
  split; [reflexivity|]. split; [reflexivity|]. split; [reflexivity|]. split.
  { unfold join_ordered, premises_history. repeat constructor. }
  exists premises_final.
  assert (Hq : jquiesce jfixed 1000 (jinit 3 premises_history) 9 = Some premises_final) by (vm_compute; reflexivity).
  split; [exact (jquiesce_reach jfixed 3 premises_history 1000 _ 9 _ (jreach_init jfixed 3 premises_history) Hq)|].
  assert (Hlen : length (jthreads premises_final) = 9%nat) by (vm_compute; reflexivity).
  assert (Hall : forallb (fun th => match j_pc th with QDone => true | _ => false end) (jthreads premises_final) = true)
    by (vm_compute; reflexivity).
  assert (Hdone : forall t th, nth_error (jthreads premises_final) t = Some th -> j_pc th = QDone).
  { intros t th Hth. rewrite forallb_forall in Hall. specialize (Hall th (nth_error_In _ _ Hth)).
    destruct (j_pc th); try discriminate Hall; reflexivity. }
  split; [|exact Hdone].
  intros t. unfold jenabled, jstep. destruct (nth_error (jthreads premises_final) t) as [th|] eqn:Hth; [|reflexivity].
  unfold jstep_thread. rewrite (Hdone t th Hth). reflexivity.
Qed.
