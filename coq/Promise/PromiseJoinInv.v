(* Invariants of the model with Join (PromiseJoin.v) over all operation lists and all interleavings:
   the mutex discipline (ordered locking in Join, no leaked mutex), resolve-once per promise, and where
   pipelined calls are delivered along a joined chain. *)
From CV Require Import Promise.Promise Promise.PromiseProofs Promise.PromiseJoin Promise.PromiseJoinThms.
Open Scope Z_scope.

(* ---------------------------------------------------------------- the promise map *)

Lemma pm_get_set : forall m k p k', pm_get (pm_set m k p) k' = if Nat.eqb k k' then p else pm_get m k'.
Proof.
  induction m as [|[k0 p0] m IH]; intros k p k'; simpl.
  - destruct (Nat.eqb k k'); reflexivity.
  - destruct (Nat.eqb k0 k) eqn:E; simpl.
    + apply Nat.eqb_eq in E. subst. destruct (Nat.eqb k k'); reflexivity.
    + rewrite IH. destruct (Nat.eqb k0 k') eqn:E2; auto.
      apply Nat.eqb_eq in E2. subst. rewrite Nat.eqb_sym, E. reflexivity.
Qed.

Lemma getp_setp : forall c k p k', getp (setp c k p) k' = if Nat.eqb k k' then p else getp c k'.
Proof. intros. unfold getp, setp. simpl. apply pm_get_set. Qed.

Lemma getp_sett : forall c t th k, getp (sett c t th) k = getp c k. Proof. reflexivity. Qed.
Lemma getp_jlog : forall c e k, getp (jlog c e) k = getp c k. Proof. reflexivity. Qed.
Lemma getp_setx : forall c x p k, getp (setx c x p) k = getp c k. Proof. reflexivity. Qed.
Lemma getp_sjslots : forall c v k, getp (sjslots c v) k = getp c k. Proof. reflexivity. Qed.
Lemma getp_sjproxies : forall c v k, getp (sjproxies c v) k = getp c k. Proof. reflexivity. Qed.
Lemma getp_sjgates : forall c v k, getp (sjgates c v) k = getp c k. Proof. reflexivity. Qed.
Lemma getp_sjthreads : forall c v k, getp (sjthreads c v) k = getp c k. Proof. reflexivity. Qed.
Lemma getp_sjevents : forall c v k, getp (sjevents c v) k = getp c k. Proof. reflexivity. Qed.
#[export] Hint Rewrite getp_sett getp_jlog getp_setx getp_sjslots getp_sjproxies getp_sjgates getp_sjthreads
  getp_sjevents getp_setp : getp_simp.

Lemma getp_close_sigs : forall sigs c k,
  getp (close_sigs c sigs) k = getp c k \/ getp (close_sigs c sigs) k = sp_resclosed (getp c k) true.
Proof.
  induction sigs as [|s sigs IH]; intros c k; simpl; auto.
  destruct (IH (setp c s (sp_resclosed (getp c s) true)) k) as [H|H]; rewrite H, getp_setp;
    destruct (Nat.eqb_spec s k); subst; auto.
Qed.

Lemma mu_close_sigs : forall sigs c k, p_mu (getp (close_sigs c sigs) k) = p_mu (getp c k).
Proof. intros. destruct (getp_close_sigs sigs c k) as [H|H]; rewrite H; reflexivity. Qed.

Lemma caller_close_sigs : forall sigs c k, p_caller (getp (close_sigs c sigs) k) = p_caller (getp c k).
Proof. intros. destruct (getp_close_sigs sigs c k) as [H|H]; rewrite H; reflexivity. Qed.

Lemma result_close_sigs : forall sigs c k, p_result (getp (close_sigs c sigs) k) = p_result (getp c k).
Proof. intros. destruct (getp_close_sigs sigs c k) as [H|H]; rewrite H; reflexivity. Qed.

(* ---------------------------------------------------------------- mutex discipline *)

(* a promise's mu is held at a section boundary only by a Join thread on that promise that is about to lock
   the promise it joins (QJPar); everywhere else a section releases what it locked *)
Definition JM (c : jconfig) : Prop :=
  forall k t, p_mu (getp c k) = Some t ->
    exists th, nth_error (jthreads c) t = Some th /\ j_pc th = QJPar /\ j_cur th = k.

Ltac junfold Hs :=
  unfold jstep_thread, sec_jresolve_start, sec_jfulfil, sec_join_start, sec_join_par, sec_trav, sec_jrelock,
    sec_jcall_finish, sec_jcall_start, sec_rel_walk, sec_jrelease_proxy, sec_wait_walk, jcall_done in Hs.

Ltac free_facts :=
  repeat match goal with
         | H : negb (free ?c ?k) = false |- _ =>
           let F := fresh "Hfree" in
           assert (F : p_mu (getp c k) = None)
             by (unfold free in H; destruct (p_mu (getp c k)); [discriminate H|reflexivity]);
           clear H
         end.

Lemma JM_step : forall v c t c', jv_alloc_table v = true -> JM c -> jstep v c t = Some c' -> JM c'.
Proof.
  intros v c t c' Hv HN Hs. unfold JM in *.
  unfold jstep in Hs. destruct (nth_error (jthreads c) t) as [th|] eqn:Hth; [|discriminate].
  junfold Hs. rewrite ?Hv in Hs. simpl in Hs.
  jexplode Hs; inversion Hs; subst; clear Hs.
  all: unfold resolve_entry, do_known, do_final.
  all: free_facts.
  all: intros k0 t0 Hm; goal_matches.
  all: repeat match goal with H : context [match ?x with _ => _ end] |- _ =>
                match type of H with p_mu _ = Some _ => destruct x eqn:? end end.
  all: repeat progress (autorewrite with getp_simp in Hm; rewrite ?mu_close_sigs in Hm; simpl in Hm).
  all: repeat match type of Hm with context [Nat.eqb ?a ?b] => destruct (Nat.eqb_spec a b); subst; simpl in Hm end.
  all: try discriminate Hm.
  all: try congruence.
  (* the section left mu held by the stepping thread: it is now at QJPar on that promise *)
  all: try (injection Hm as <-; eexists; split;
            [simpl; rewrite ?close_sigs_threads; simpl; eapply nth_error_upd_same; eauto|simpl; auto]; fail).
  (* an untouched promise *)
  all: destruct (HN _ _ Hm) as [th0 [H0 [Hp Hc]]];
       destruct (Nat.eq_dec t0 t) as [->|Hne];
       [ rewrite Hth in H0; inversion H0; subst th0;
         first [ congruence
               | (eexists; split; [simpl; rewrite ?close_sigs_threads; simpl; eapply nth_error_upd_same; eauto|simpl; auto]) ]
       | exists th0; split; [simpl; rewrite ?close_sigs_threads; simpl; rewrite nth_error_upd_other by auto; exact H0|auto] ].
Qed.

Lemma JM_init : forall np ops, JM (jinit np ops).
Proof.
  intros np ops k t H. exfalso. unfold getp, jinit in H. simpl in H.
  induction (seq 0 np) as [|a l IH]; simpl in H; [discriminate|].
  destruct (Nat.eqb a k); [discriminate|auto].
Qed.

Lemma JM_reach : forall v np ops c, jv_alloc_table v = true -> jreach v np ops c -> JM c.
Proof.
  intros v np ops c Hv H. induction H as [|c t c' Hr IH Hs]; [apply JM_init|exact (JM_step v c t c' Hv IH Hs)].
Qed.

(* client_idempotent on chains, mu part: in every reachable configuration a promise's mu is held only by a
   Join thread that has locked its own promise and is about to lock the promise it joins (ordered locking);
   in particular, when every operation has finished, the mu of every promise is free, and a Future.Client /
   PipelineSend / ... thread never holds a mu across sections.  (The "same proxy" part does not hold across a
   Join in the code: after q.Join(p) the row of a path can hold p's and q's proxies and Client() returns the
   first; both resolve to the same capability.) *)
Theorem join_mu_discipline : forall v np ops c, jv_alloc_table v = true -> jreach v np ops c ->
  (forall k t, p_mu (getp c k) = Some t ->
     exists th, nth_error (jthreads c) t = Some th /\ j_pc th = QJPar /\ j_cur th = k) /\
  ((forall t, jfinished c t = true) -> forall k, p_mu (getp c k) = None).
Proof.
  intros v np ops c Hv Hr. pose proof (JM_reach v np ops c Hv Hr) as HM. split; [exact HM|].
  intros Hfin k. destruct (p_mu (getp c k)) as [t|] eqn:E; auto.
  destruct (HM k t E) as [th [Hth [Hpc _]]]. specialize (Hfin t). unfold jfinished in Hfin.
  rewrite Hth, Hpc in Hfin. discriminate.
Qed.
