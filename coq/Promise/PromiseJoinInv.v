(* Invariants of the model with Join (PromiseJoin.v) over all operation lists and all interleavings:
   the mutex discipline (ordered locking in Join, no leaked mutex), resolve-once per promise, and where
   pipelined calls are delivered along a joined chain. *)
From CV Require Import Promise.Promise Promise.PromiseProofs Promise.PromiseJoin Promise.PromiseJoinThms.
Open Scope Z_scope.

(* ---------------------------------------------------------------- the promise map *)

Lemma pm_get_set : forall m k p k', pm_get (pm_set m k p) k' = if Nat.eqb k k' then p else pm_get m k'.
Proof.
  induction m as [|[k0 p0] m IH]; intros k p k'; simpl.
  - destruct (Nat.eqb k k'); reflexivity.
  - destruct (Nat.eqb k0 k) eqn:E; simpl.
    + apply Nat.eqb_eq in E. subst. destruct (Nat.eqb k k'); reflexivity.
    + rewrite IH. destruct (Nat.eqb k0 k') eqn:E2; auto.
      apply Nat.eqb_eq in E2. subst. rewrite Nat.eqb_sym, E. reflexivity.
Qed.

Lemma getp_setp : forall c k p k', getp (setp c k p) k' = if Nat.eqb k k' then p else getp c k'.
Proof. intros. unfold getp, setp. simpl. apply pm_get_set. Qed.

Lemma getp_sett : forall c t th k, getp (sett c t th) k = getp c k. Proof. reflexivity. Qed.
Lemma getp_jlog : forall c e k, getp (jlog c e) k = getp c k. Proof. reflexivity. Qed.
Lemma getp_setx : forall c x p k, getp (setx c x p) k = getp c k. Proof. reflexivity. Qed.
Lemma getp_sjslots : forall c v k, getp (sjslots c v) k = getp c k. Proof. reflexivity. Qed.
Lemma getp_sjproxies : forall c v k, getp (sjproxies c v) k = getp c k. Proof. reflexivity. Qed.
Lemma getp_sjgates : forall c v k, getp (sjgates c v) k = getp c k. Proof. reflexivity. Qed.
Lemma getp_sjthreads : forall c v k, getp (sjthreads c v) k = getp c k. Proof. reflexivity. Qed.
Lemma getp_sjevents : forall c v k, getp (sjevents c v) k = getp c k. Proof. reflexivity. Qed.
#[export] Hint Rewrite getp_sett getp_jlog getp_setx getp_sjslots getp_sjproxies getp_sjgates getp_sjthreads
  getp_sjevents getp_setp : getp_simp.

Lemma getp_close_sigs : forall sigs c k,
  getp (close_sigs c sigs) k = getp c k \/ getp (close_sigs c sigs) k = sp_resclosed (getp c k) true.
Proof.
  induction sigs as [|s sigs IH]; intros c k; simpl; auto.
  destruct (IH (setp c s (sp_resclosed (getp c s) true)) k) as [H|H]; rewrite H, getp_setp;
    destruct (Nat.eqb_spec s k); subst; auto.
Qed.

Lemma mu_close_sigs : forall sigs c k, p_mu (getp (close_sigs c sigs) k) = p_mu (getp c k).
Proof. intros. destruct (getp_close_sigs sigs c k) as [H|H]; rewrite H; reflexivity. Qed.

Lemma caller_close_sigs : forall sigs c k, p_caller (getp (close_sigs c sigs) k) = p_caller (getp c k).
Proof. intros. destruct (getp_close_sigs sigs c k) as [H|H]; rewrite H; reflexivity. Qed.

Lemma result_close_sigs : forall sigs c k, p_result (getp (close_sigs c sigs) k) = p_result (getp c k).
Proof. intros. destruct (getp_close_sigs sigs c k) as [H|H]; rewrite H; reflexivity. Qed.

(* ---------------------------------------------------------------- mutex discipline *)

(* a promise's mu is held at a section boundary only by a Join thread on that promise that is about to lock
   the promise it joins (QJPar); everywhere else a section releases what it locked *)
Definition JM (c : jconfig) : Prop :=
  forall k t, p_mu (getp c k) = Some t ->
    exists th, nth_error (jthreads c) t = Some th /\ j_pc th = QJPar /\ j_cur th = k.

Ltac junfold Hs :=
  unfold jstep_thread, sec_jresolve_start, sec_jfulfil, sec_join_start, sec_join_par, sec_trav, sec_jrelock,
    sec_jcall_finish, sec_jcall_start, sec_rel_walk, sec_jrelease_proxy, sec_wait_walk, jcall_done in Hs.

Ltac free_facts :=
  repeat match goal with
         | H : negb (free ?c ?k) = false |- _ =>
           let F := fresh "Hfree" in
           assert (F : p_mu (getp c k) = None)
             by (unfold free in H; destruct (p_mu (getp c k)); [discriminate H|reflexivity]);
           clear H
         end.

Lemma JM_step : forall v c t c', jv_alloc_table v = true -> JM c -> jstep v c t = Some c' -> JM c'.
Proof.
  intros v c t c' Hv HN Hs. unfold JM in *.
  unfold jstep in Hs. destruct (nth_error (jthreads c) t) as [th|] eqn:Hth; [|discriminate].
  junfold Hs. rewrite ?Hv in Hs. simpl in Hs.
  jexplode Hs; inversion Hs; subst; clear Hs.
  all: unfold resolve_entry, do_known, do_final.
  all: free_facts.
  all: intros k0 t0 Hm; goal_matches.
  all: repeat match goal with H : context [match ?x with _ => _ end] |- _ =>
                match type of H with p_mu _ = Some _ => destruct x eqn:? end end.
  all: repeat progress (autorewrite with getp_simp in Hm; rewrite ?mu_close_sigs in Hm; simpl in Hm).
  all: repeat match type of Hm with context [Nat.eqb ?a ?b] => destruct (Nat.eqb_spec a b); subst; simpl in Hm end.
  all: try discriminate Hm.
  all: try congruence.
  (* the section left mu held by the stepping thread: it is now at QJPar on that promise *)
  all: try (injection Hm as <-; eexists; split;
            [simpl; rewrite ?close_sigs_threads; simpl; eapply nth_error_upd_same; eauto|simpl; auto]; fail).
  (* an untouched promise *)
  all: destruct (HN _ _ Hm) as [th0 [H0 [Hp Hc]]];
       destruct (Nat.eq_dec t0 t) as [->|Hne];
       [ rewrite Hth in H0; inversion H0; subst th0;
         first [ congruence
               | (eexists; split; [simpl; rewrite ?close_sigs_threads; simpl; eapply nth_error_upd_same; eauto|simpl; auto]) ]
       | exists th0; split; [simpl; rewrite ?close_sigs_threads; simpl; rewrite nth_error_upd_other by auto; exact H0|auto] ].
Qed.

Lemma JM_init : forall np ops, JM (jinit np ops).
Proof.
  intros np ops k t H. exfalso. unfold getp, jinit in H. simpl in H.
  induction (seq 0 np) as [|a l IH]; simpl in H; [discriminate|].
  destruct (Nat.eqb a k); [discriminate|auto].
Qed.

Lemma JM_reach : forall v np ops c, jv_alloc_table v = true -> jreach v np ops c -> JM c.
Proof.
  intros v np ops c Hv H. induction H as [|c t c' Hr IH Hs]; [apply JM_init|exact (JM_step v c t c' Hv IH Hs)].
Qed.

(* client_idempotent on chains, mu part: in every reachable configuration a promise's mu is held only by a
   Join thread that has locked its own promise and is about to lock the promise it joins (ordered locking);
   in particular, when every operation has finished, the mu of every promise is free, and a Future.Client /
   PipelineSend / ... thread never holds a mu across sections.  (The "same proxy" part does not hold across a
   Join in the code: after q.Join(p) the row of a path can hold p's and q's proxies and Client() returns the
   first; both resolve to the same capability.) *)
Theorem join_mu_discipline : forall v np ops c, jv_alloc_table v = true -> jreach v np ops c ->
  (forall k t, p_mu (getp c k) = Some t ->
     exists th, nth_error (jthreads c) t = Some th /\ j_pc th = QJPar /\ j_cur th = k) /\
  ((forall t, jfinished c t = true) -> forall k, p_mu (getp c k) = None).
Proof.
  intros v np ops c Hv Hr. pose proof (JM_reach v np ops c Hv Hr) as HM. split; [exact HM|].
  intros Hfin k. destruct (p_mu (getp c k)) as [t|] eqn:E; auto.
  destruct (HM k t E) as [th [Hth [Hpc _]]]. specialize (Hfin t). unfold jfinished in Hfin.
  rewrite Hth, Hpc in Hfin. discriminate.
Qed.

(* ---------------------------------------------------------------- resolve once, per promise *)

Definition jis_begin (k : nat) (e : jevent) : bool := match e with JEBegin _ k' => Nat.eqb k k' | _ => false end.
Definition jis_resolved (k : nat) (e : jevent) : bool := match e with JEResolved _ k' => Nat.eqb k k' | _ => false end.

(* the thread is between "caller := nil" on promise k and setting k's result *)
Definition jpre (th : jthread) (k : nat) : bool :=
  match j_pc th with
  | QStopWait | QKnown | QJStopWait | QJRelock | QJPar | QJWaitRes | QJWaitJ | QJLockP => Nat.eqb (j_cur th) k
  | _ => false
  end.

(* the thread has set k's result and is fulfilling the proxies / about to close the signals *)
Definition jpost (th : jthread) (k : nat) : bool :=
  match j_pc th with QFul | QFulWait | QClose => Nat.eqb (j_cur th) k | _ => false end.

Record JR (c : jconfig) : Prop := {
  R_begin : forall k, (jcnt (jis_begin k) (jevents c) <= 1)%nat /\
                      (p_caller (getp c k) = true -> jcnt (jis_begin k) (jevents c) = 0%nat /\ p_result (getp c k) = None);
  R_res : forall k, jcnt (jis_resolved k) (jevents c) = match p_result (getp c k) with Some _ => 1%nat | None => 0%nat end;
  R_pre : forall t th k, nth_error (jthreads c) t = Some th -> jpre th k = true ->
                         In (JEBegin t k) (jevents c) /\ p_result (getp c k) = None;
  R_post : forall t th k, nth_error (jthreads c) t = Some th -> jpost th k = true ->
                          In (JEBegin t k) (jevents c) /\ p_result (getp c k) = Some (j_res th)
}.

Lemma two_begin : forall l k t1 t2, In (JEBegin t1 k) l -> In (JEBegin t2 k) l -> t1 <> t2 ->
  (2 <= jcnt (jis_begin k) l)%nat.
Proof.
  assert (one : forall l k t, In (JEBegin t k) l -> (1 <= jcnt (jis_begin k) l)%nat).
  { induction l as [|e l IH]; intros k t H; [destruct H|]. rewrite jcnt_cons. destruct H as [->|H].
    - simpl. rewrite Nat.eqb_refl. simpl. lia.
    - specialize (IH k t H). lia. }
  induction l as [|e l IH]; intros k t1 t2 H1 H2 Hne; [destruct H1|].
  rewrite jcnt_cons. destruct H1 as [->|H1]; destruct H2 as [E|H2].
  - inversion E. congruence.
  - simpl. rewrite Nat.eqb_refl. pose proof (one l k t2 H2). simpl. lia.
  - subst e. simpl. rewrite Nat.eqb_refl. pose proof (one l k t1 H1). simpl. lia.
  - specialize (IH k t1 t2 H1 H2 Hne). lia.
Qed.

Lemma begin_unique : forall c k t1 t2, JR c -> In (JEBegin t1 k) (jevents c) -> In (JEBegin t2 k) (jevents c) -> t1 = t2.
Proof.
  intros c k t1 t2 HR H1 H2. destruct (Nat.eq_dec t1 t2); auto. exfalso.
  pose proof (two_begin _ _ _ _ H1 H2 n). destruct (R_begin c HR k). lia.
Qed.

Lemma begin_not_caller : forall c k t, JR c -> In (JEBegin t k) (jevents c) -> p_caller (getp c k) = false.
Proof.
  intros c k t HR H. destruct (p_caller (getp c k)) eqn:E; auto. exfalso.
  destruct (R_begin c HR k) as [_ H0]. destruct (H0 E) as [H1 _].
  assert (1 <= jcnt (jis_begin k) (jevents c))%nat; [|lia].
  clear - H. induction (jevents c) as [|e l IH]; [destruct H|]. rewrite jcnt_cons. destruct H as [->|H].
  - simpl. rewrite Nat.eqb_refl. simpl. lia.
  - specialize (IH H). lia.
Qed.

Lemma caller_close_joined : forall p, p_caller (close_joined p) = p_caller p.
Proof. intros. unfold close_joined. destruct (p_joined p); reflexivity. Qed.
Lemma result_close_joined : forall p, p_result (close_joined p) = p_result p.
Proof. intros. unfold close_joined. destruct (p_joined p); reflexivity. Qed.
Lemma mu_close_joined : forall p, p_mu (close_joined p) = p_mu p.
Proof. intros. unfold close_joined. destruct (p_joined p); reflexivity. Qed.

Ltac norm_negb :=
  repeat match goal with
         | H : negb _ = false |- _ => apply negb_false_iff in H
         | H : negb _ = true |- _ => apply negb_true_iff in H
         end.

Ltac jleaves v Hs Hth :=
  unfold jstep in Hs;
  match type of Hs with match nth_error ?l ?t with _ => _ end = _ =>
    destruct (nth_error l t) as [th|] eqn:Hth; [|discriminate Hs] end;
  junfold Hs; jexplode Hs; inversion Hs; subst; clear Hs;
  unfold resolve_entry, do_known, do_final; free_facts.

Ltac simp_getp :=
  repeat progress (autorewrite with getp_simp; rewrite ?mu_close_sigs, ?caller_close_sigs, ?result_close_sigs; simpl).

Ltac eqb_all :=
  repeat match goal with
         | |- context [Nat.eqb ?a ?a] => rewrite Nat.eqb_refl
         | H : context [Nat.eqb ?a ?a] |- _ => rewrite Nat.eqb_refl in H
         | |- context [Nat.eqb ?a ?b] => destruct (Nat.eqb_spec a b); subst; simpl
         | H : context [Nat.eqb ?a ?b] |- _ => destruct (Nat.eqb_spec a b); subst; simpl in H
         end;
  try match goal with H : ?x <> ?x |- _ => exfalso; apply H; reflexivity end.

(* facts about the stepping thread's own resolve phase *)
Ltac own_phase HR Hth :=
  let P1 := fresh "Hpre" in let P2 := fresh "Hpost" in
  match type of Hth with nth_error _ ?t = Some ?th =>
    pose proof (R_pre _ HR t th (j_cur th) Hth) as P1;
    pose proof (R_post _ HR t th (j_cur th) Hth) as P2;
    unfold jpre in P1; unfold jpost in P2;
    repeat match goal with H : j_pc th = _ |- _ => rewrite H in P1 end;
    repeat match goal with H : j_pc th = _ |- _ => rewrite H in P2 end;
    rewrite ?Nat.eqb_refl in P1; rewrite ?Nat.eqb_refl in P2
  end.

Lemma JR_begin_step : forall v c t c', JR c -> jstep v c t = Some c' ->
  forall k, (jcnt (jis_begin k) (jevents c') <= 1)%nat /\
            (p_caller (getp c' k) = true -> jcnt (jis_begin k) (jevents c') = 0%nat /\ p_result (getp c' k) = None).
Proof.
  intros v c t c' HR Hs k0.
  jleaves v Hs Hth.
  all: own_phase HR Hth.
  all: goal_matches; simpl; rewrite ?close_sigs_events; simpl; rewrite ?jcnt_cons; simpl.
  all: simp_getp.
  all: rewrite ?caller_close_joined, ?result_close_joined; simpl.
  all: norm_negb.
  all: pose proof (R_begin c HR k0) as [Hle Hc0].
  all: try (specialize (Hpre eq_refl); destruct Hpre as [Hin Hrn]; pose proof (begin_not_caller c _ _ HR Hin) as Hcf).
  all: try (specialize (Hpost eq_refl); destruct Hpost as [Hin Hrs]; pose proof (begin_not_caller c _ _ HR Hin) as Hcf).
  all: eqb_all; simpl; rewrite ?caller_close_joined, ?result_close_joined; simpl.
  all: try (split; [lia|intros Hc; first [discriminate Hc | congruence | (destruct (Hc0 Hc) as [Ha Hb]; split; [lia|exact Hb])]]; fail).
  all: try (match goal with H : p_caller (getp ?cc ?k) = true |- _ => destruct (proj2 (R_begin cc HR k) H) as [Hz Hn] end;
            split; [lia|intros Hc; first [discriminate Hc | congruence]]; fail).
Qed.

Definition rescnt (p : prom) : nat := match p_result p with Some _ => 1%nat | None => 0%nat end.

Lemma JR_res_step : forall v c t c', JR c -> jstep v c t = Some c' ->
  forall k, jcnt (jis_resolved k) (jevents c') = rescnt (getp c' k).
Proof.
  intros v c t c' HR Hs k0.
  jleaves v Hs Hth.
  all: own_phase HR Hth.
  all: goal_matches; simpl; rewrite ?close_sigs_events; simpl; rewrite ?jcnt_cons; simpl.
  all: simp_getp.
  all: rewrite ?caller_close_joined, ?result_close_joined; simpl.
  all: norm_negb.
  all: pose proof (R_res c HR k0) as Hr0.
  all: try (specialize (Hpre eq_refl); destruct Hpre as [Hin Hrn]).
  all: try (specialize (Hpost eq_refl); destruct Hpost as [Hin Hrs]).
  all: unfold rescnt; simp_getp; eqb_all; simpl; rewrite ?caller_close_joined, ?result_close_joined; simpl.
  all: try exact Hr0.
  all: try (rewrite Hr0; try rewrite Hrn; try rewrite Hrs; reflexivity).
  all: try (match goal with H : p_caller (getp ?cc ?k) = true |- _ => destruct (proj2 (R_begin cc HR k) H) as [Hz Hn] end;
            rewrite Hr0, Hn; reflexivity).
Qed.

Lemma JR_thr_step : forall v c t c', JR c -> jstep v c t = Some c' ->
  forall t0 th0 k0, nth_error (jthreads c') t0 = Some th0 ->
    (jpre th0 k0 = true -> In (JEBegin t0 k0) (jevents c') /\ p_result (getp c' k0) = None) /\
    (jpost th0 k0 = true -> In (JEBegin t0 k0) (jevents c') /\ p_result (getp c' k0) = Some (j_res th0)).
Proof.
  intros v c t c' HR Hs.
  jleaves v Hs Hth.
  all: own_phase HR Hth.
  all: goal_matches.
  all: intros t0 th0 k0 H0.
  all: simpl in H0; rewrite ?close_sigs_threads in H0; simpl in H0.
  all: destruct (jupd_nth_cases _ _ _ _ _ _ Hth H0) as [[-> ->]|[Hne H0']]; clear H0.
  all: norm_negb.
  all: try (specialize (Hpre eq_refl); destruct Hpre as [Hin Hrn]).
  all: try (specialize (Hpost eq_refl); destruct Hpost as [Hin Hrs]).
  (* another thread *)
  all: try (assert (Hne' : t0 <> t) by exact Hne;
            split; intros Hp;
            [destruct (R_pre c HR t0 th0 k0 H0' Hp) as [Hin0 Hr0]|destruct (R_post c HR t0 th0 k0 H0' Hp) as [Hin0 Hr0]];
            pose proof (begin_not_caller c _ _ HR Hin0) as Hcf0;
            (split; [simpl; rewrite ?close_sigs_events; simpl; auto 6|]);
            simp_getp; eqb_all; simpl; rewrite ?result_close_joined; simpl;
            first [ exact Hr0 | congruence
                  | (exfalso; apply Hne'; symmetry; eapply (begin_unique c); eauto) ]).
  (* the stepping thread *)
  all: unfold jpre, jpost; simpl;
       repeat match goal with H : j_pc _ = _ |- _ => rewrite H end; simpl.
  all: try (split; intros Hp; discriminate Hp).
  all: split; intros Hp; try discriminate Hp; apply Nat.eqb_eq in Hp; subst; simpl in *.
  all: (split; [simpl; rewrite ?close_sigs_events; simpl; auto 6|]).
  all: simp_getp; eqb_all; simpl; rewrite ?result_close_joined; simpl.
  all: try reflexivity; try assumption; try congruence.
  all: try (match goal with H : p_caller (getp ?cc ?k) = true |- _ => exact (proj2 (proj2 (R_begin cc HR k) H)) end).
Qed.

Lemma JR_step : forall v c t c', JR c -> jstep v c t = Some c' -> JR c'.
Proof.
  intros v c t c' HR Hs. constructor.
  - exact (JR_begin_step v c t c' HR Hs).
  - intros k. rewrite (JR_res_step v c t c' HR Hs k). reflexivity.
  - intros t0 th0 k0 H0 Hp. exact (proj1 (JR_thr_step v c t c' HR Hs t0 th0 k0 H0) Hp).
  - intros t0 th0 k0 H0 Hp. exact (proj2 (JR_thr_step v c t c' HR Hs t0 th0 k0 H0) Hp).
Qed.

Lemma getp_init : forall np ops k, getp (jinit np ops) k = dfl_prom \/ getp (jinit np ops) k = new_prom k.
Proof.
  intros np ops k. unfold getp, jinit. simpl. induction (seq 0 np) as [|a l IH]; simpl; auto.
  destruct (Nat.eqb_spec a k); subst; auto.
Qed.

Lemma JR_init : forall np ops, JR (jinit np ops).
Proof.
  intros np ops. constructor.
  - intros k. simpl. split; [unfold jcnt; simpl; lia|]. intros _. split; [reflexivity|].
    destruct (getp_init np ops k) as [H|H]; rewrite H; reflexivity.
  - intros k. simpl. destruct (getp_init np ops k) as [H|H]; rewrite H; reflexivity.
  - intros t th k H Hp. simpl in H. rewrite nth_error_map in H. destruct (nth_error ops t); inversion H; subst. discriminate.
  - intros t th k H Hp. simpl in H. rewrite nth_error_map in H. destruct (nth_error ops t); inversion H; subst. discriminate.
Qed.

Lemma JR_reach : forall v np ops c, jreach v np ops c -> JR c.
Proof.
  intros v np ops c H. induction H as [|c t c' Hr IH Hs]; [apply JR_init|exact (JR_step v c t c' IH Hs)].
Qed.

(* resolve_once on chains: every promise leaves the unresolved state at most once (one Fulfill, Reject or
   Join passes its isUnresolved check; the others panic, by the definition of their first section) and its
   result is set at most once; the result is set iff JEResolved was logged for it *)
Theorem join_resolve_once : forall v np ops c, jreach v np ops c -> forall k,
  (jcnt (jis_begin k) (jevents c) <= 1)%nat /\ (jcnt (jis_resolved k) (jevents c) <= 1)%nat /\
  (p_caller (getp c k) = true -> jcnt (jis_begin k) (jevents c) = 0%nat /\ p_result (getp c k) = None) /\
  (jcnt (jis_resolved k) (jevents c) = 1%nat <-> exists r, p_result (getp c k) = Some r).
Proof.
  intros v np ops c Hr k. pose proof (JR_reach v np ops c Hr) as HR.
  destruct (R_begin c HR k) as [H1 H2]. pose proof (R_res c HR k) as H3.
  split; [exact H1|]. split; [rewrite H3; destruct (p_result (getp c k)); lia|]. split; [exact H2|].
  rewrite H3. destruct (p_result (getp c k)) as [r|]; split; intros H; eauto; try discriminate.
  destruct H as [r H]. discriminate.
Qed.

(* ---------------------------------------------------------------- where calls go (first half) *)

(* newest event first: a call is handed to the PipelineCaller of promise k (the end of the traversal of the
   chain at that moment) only while no Fulfill / Reject / Join has taken k out of the unresolved state *)
Fixpoint wf_jcaller (l : list jevent) : Prop :=
  match l with
  | [] => True
  | e :: r => wf_jcaller r /\
              match e with
              | JEDeliver _ k DCaller => jcnt (jis_begin k) r = 0%nat
              | _ => True
              end
  end.

Lemma wf_jcaller_step : forall v c t c', JR c -> wf_jcaller (jevents c) -> jstep v c t = Some c' ->
  wf_jcaller (jevents c').
Proof.
  intros v c t c' HR HW Hs.
  jleaves v Hs Hth.
  all: goal_matches; simpl; rewrite ?close_sigs_events; simpl.
  all: norm_negb.
  all: repeat split; auto.
  all: try (match goal with H : p_caller (getp ?cc ?k) = true |- _ => exact (proj1 (proj2 (R_begin cc HR k) H)) end).
  all: try (destruct (res_dest _ _) eqn:Ed; auto; exfalso; eapply res_dest_not_caller; eauto).
Qed.

Theorem join_caller_before_resolution : forall v np ops c, jreach v np ops c -> wf_jcaller (jevents c).
Proof.
  intros v np ops c H. induction H as [|c t c' Hr IH Hs]; [exact I|].
  exact (wf_jcaller_step v c t c' (JR_reach v np ops c Hr) IH Hs).
Qed.
