(* Per-chain form of the client-table reference law: a joined promise holds no references, clients or signals
   (they live at the promise it was joined onto), so when all promises other than k have been joined, k's
   clientsRefs is exactly the number of promises that have not called ReleaseClients (plus calls under way). *)
From CV Require Import Promise.Promise Promise.PromiseProofs Promise.PromiseJoin Promise.PromiseJoinThms
  Promise.PromiseJoinInv Promise.PromiseJoinRefs Promise.PromiseJoinDest.
Open Scope Z_scope.

Lemma crefs_close_sigs : forall sigs c k, p_crefs (getp (close_sigs c sigs) k) = p_crefs (getp c k).
Proof. intros. destruct (getp_close_sigs sigs c k) as [H|H]; rewrite H; reflexivity. Qed.
Lemma clients_close_sigs : forall sigs c k, p_clients (getp (close_sigs c sigs) k) = p_clients (getp c k).
Proof. intros. destruct (getp_close_sigs sigs c k) as [H|H]; rewrite H; reflexivity. Qed.
Lemma next_close_sigs' : forall sigs c k, p_next (getp (close_sigs c sigs) k) = p_next (getp c k).
Proof. intros. destruct (getp_close_sigs sigs c k) as [H|H]; rewrite H; reflexivity. Qed.
Lemma next_close_joined' : forall p, p_next (close_joined p) = p_next p.
Proof. intros. unfold close_joined. destruct (p_joined p); reflexivity. Qed.
Lemma clients_close_joined : forall p, p_clients (close_joined p) = p_clients p.
Proof. intros. unfold close_joined. destruct (p_joined p); reflexivity. Qed.

Definition joined_empty (p : prom) : Prop :=
  (p_caller p = true -> p_next p = None) /\
  (p_next p <> None -> p_crefs p = 0 /\ p_clients p = [] /\ p_signals p = []).

Definition JZ (c : jconfig) : Prop := forall k, joined_empty (getp c k).

Lemma JZ_step : forall v c t c', jv_alloc_table v = true -> JR c -> JZ c -> jstep v c t = Some c' -> JZ c'.
Proof.
  intros v c t c' Hv HR HZ Hs.
  unfold jstep in Hs. destruct (nth_error (jthreads c) t) as [th|] eqn:Hth; [|discriminate].
  junfold Hs. rewrite ?Hv in Hs. simpl in Hs. jexplode Hs; inversion Hs; subst; clear Hs.
  all: unfold resolve_entry, do_known, do_final; free_facts.
  all: own_phase HR Hth.
  all: goal_matches.
  all: norm_negb.
  all: try (specialize (Hpre eq_refl); destruct Hpre as [Hinb Hrn]; pose proof (begin_not_caller c _ _ HR Hinb) as Hcf).
  all: try (specialize (Hpost eq_refl); destruct Hpost as [Hinb Hrs]; pose proof (begin_not_caller c _ _ HR Hinb) as Hcf).
  all: intros k0; pose proof (HZ k0) as [Z1 Z2]; unfold joined_empty.
  all: repeat progress (autorewrite with getp_simp;
                        rewrite ?caller_close_sigs, ?crefs_close_sigs, ?clients_close_sigs, ?signals_close_sigs, ?next_close_sigs').
  all: eqb_all; simpl;
       rewrite ?caller_close_joined, ?crefs_close_joined, ?clients_close_joined, ?signals_close_joined, ?next_close_joined'; simpl.
  all: try (split; [exact Z1|exact Z2]).
  all: try (split; [intros Hc; first [discriminate Hc | exact (Z1 Hc) | reflexivity | congruence]
                   |intros Hn; first [ (exfalso; apply Hn; reflexivity)
                                     | (destruct (Z2 Hn) as [A [B C]]; repeat split; auto; congruence)
                                     | (repeat split; reflexivity) ]]; fail).
  all: try (split; [intros Hc; first [congruence | exact (Z1 Hc)]
                   |intros Hn; exfalso; apply Hn; first [assumption | (apply Z1; assumption)]]; fail).
Qed.

Lemma JZ_reach : forall v np ops c, jv_alloc_table v = true -> jreach v np ops c -> JZ c.
Proof.
  intros v np ops c Hv H. induction H as [|c t c' Hr IH Hs].
  - intros k. unfold joined_empty. destruct (getp_init np ops k) as [E|E]; rewrite E; simpl; split; intros; congruence.
  - exact (JZ_step v c t c' Hv (JR_reach v np ops c Hr) IH Hs).
Qed.

(* ---- the promise map has one entry per index *)
Definition keys (c : jconfig) : list nat := map fst (proms c).

Lemma pm_set_keys : forall m k p, NoDup (map fst m) -> NoDup (map fst (pm_set m k p)).
Proof.
  induction m as [|[k0 p0] m IH]; intros k p H; simpl.
  - constructor; [intros []|constructor].
  - destruct (Nat.eqb k0 k) eqn:E; simpl; [exact H|].
    inversion H; subst. constructor; [|apply IH; auto].
    intros Hin. apply H2. clear - Hin E.
    induction m as [|[k1 p1] m IHm]; simpl in *.
    + destruct Hin as [->|[]]. rewrite Nat.eqb_refl in E. discriminate.
    + destruct (Nat.eqb k1 k); simpl in *; auto. destruct Hin; auto.
Qed.

Lemma keys_setp : forall c k p, NoDup (keys c) -> NoDup (keys (setp c k p)).
Proof. intros. unfold keys, setp. simpl. apply pm_set_keys. exact H. Qed.

Lemma keys_close_sigs : forall sigs c, NoDup (keys c) -> NoDup (keys (close_sigs c sigs)).
Proof. induction sigs; intros c H; simpl; auto. apply IHsigs. apply keys_setp. exact H. Qed.

Lemma keys_step : forall v c t c', NoDup (keys c) -> jstep v c t = Some c' -> NoDup (keys c').
Proof.
  intros v c t c' HN Hs.
  unfold jstep in Hs. destruct (nth_error (jthreads c) t) as [th|] eqn:Hth; [|discriminate].
  junfold Hs. jexplode Hs; inversion Hs; subst; clear Hs.
  all: unfold resolve_entry, do_known, do_final; goal_matches.
  all: unfold keys in *; repeat progress (autorewrite with jc_simp); fold (keys c).
  all: repeat first [ exact HN | apply keys_close_sigs | apply keys_setp | (unfold keys; autorewrite with jc_simp; fold (keys c)) ].
Qed.

Lemma keys_init : forall np ops, NoDup (keys (jinit np ops)).
Proof.
  intros. unfold keys, jinit. simpl. rewrite map_map. simpl. rewrite map_id. apply seq_NoDup.
Qed.

Lemma keys_reach : forall v np ops c, jreach v np ops c -> NoDup (keys c).
Proof.
  intros v np ops c H. induction H as [|c t c' Hr IH Hs]; [apply keys_init|exact (keys_step v c t c' IH Hs)].
Qed.

Lemma pm_get_in : forall m k p, NoDup (map fst m) -> In (k, p) m -> pm_get m k = p.
Proof.
  induction m as [|[k0 p0] m IH]; intros k p Hn Hin; [destruct Hin|]. simpl. inversion Hn; subst.
  destruct Hin as [E|Hin].
  - inversion E; subst. rewrite Nat.eqb_refl. reflexivity.
  - destruct (Nat.eqb_spec k0 k); [subst; exfalso; apply H1; apply in_map_iff; exists (k, p); auto|].
    apply IH; auto.
Qed.

Lemma pm_get_absent : forall m k, ~ In k (map fst m) -> pm_get m k = dfl_prom.
Proof.
  induction m as [|[k1 p1] m IH]; intros k H; [reflexivity|]. cbn [pm_get].
  destruct (Nat.eqb_spec k1 k); [subst; exfalso; apply H; left; reflexivity|].
  apply IH. intros Hin. apply H. right. exact Hin.
Qed.

Lemma pm_refs_single : forall m k, NoDup (map fst m) ->
  (forall k', k' <> k -> p_crefs (pm_get m k') = 0) -> pm_refs m = p_crefs (pm_get m k).
Proof.
  induction m as [|[k0 p0] m IH]; intros k Hn Hz; [reflexivity|].
  inversion Hn; subst. cbn [pm_refs pm_get].
  assert (Hz' : forall k', k' <> k -> k' <> k0 -> p_crefs (pm_get m k') = 0).
  { intros k' H1' H2'. specialize (Hz k' H1'). cbn [pm_get] in Hz.
    destruct (Nat.eqb_spec k0 k'); [congruence|exact Hz]. }
  destruct (Nat.eqb_spec k0 k).
  - subst. assert (pm_refs m = 0); [|lia].
    clear IH Hn Hz. induction m as [|[k1 p1] m IHm]; [reflexivity|]. cbn [pm_refs].
    assert (k1 <> k) by (intros ->; apply H1; left; reflexivity).
    assert (E : p_crefs p1 = 0).
    { specialize (Hz' k1 H H). cbn [pm_get] in Hz'. rewrite Nat.eqb_refl in Hz'. exact Hz'. }
    rewrite E. rewrite IHm; [reflexivity| | |].
    + intros Hin. apply H1. right. exact Hin.
    + inversion H2; auto.
    + intros k' A B. destruct (Nat.eq_dec k' k1) as [->|Hne].
      * inversion H2; subst. rewrite pm_get_absent by assumption. reflexivity.
      * specialize (Hz' k' A B). cbn [pm_get] in Hz'. destruct (Nat.eqb_spec k1 k'); [congruence|exact Hz'].
  - assert (E : p_crefs p0 = 0).
    { specialize (Hz k0 n). cbn [pm_get] in Hz. rewrite Nat.eqb_refl in Hz. exact Hz. }
    rewrite E, (IH k H2); [lia|].
    intros k' A. destruct (Nat.eq_dec k' k0) as [->|Hne]; [|apply Hz'; auto].
    rewrite pm_get_absent by assumption. reflexivity.
Qed.

(* A joined promise holds no references, clients or signals; an unresolved promise is not joined. *)
Theorem join_joined_empty : forall v np ops c, jv_alloc_table v = true -> jreach v np ops c -> forall k,
  (p_caller (getp c k) = true -> p_next (getp c k) = None) /\
  (p_next (getp c k) <> None ->
   p_crefs (getp c k) = 0 /\ p_clients (getp c k) = [] /\ p_signals (getp c k) = []).
Proof. intros v np ops c Hv H k. exact (JZ_reach v np ops c Hv H k). Qed.

(* Per chain: when every promise other than k has been joined (one tree, k at its end), k's clientsRefs is exactly
   the number of promises that have not called ReleaseClients yet plus the ReleaseClients calls still walking to k.
   So k's client table is given up, and the proxy clients released, by the last ReleaseClients among the joined
   promises and k — not before (what the seeded change C11-r2-1 broke) and not later. *)
Theorem join_chain_release : forall v np ops c,
  jv_alloc_table v = true -> jv_refs_sum v = true -> jreach v np ops c ->
  forall k, (forall k', k' <> k -> p_next (getp c k') <> None \/ p_crefs (getp c k') = 0) ->
    p_crefs (getp c k) = pm_unreleased (proms c) + jcount owes (jthreads c).
Proof.
  intros v np ops c Hv Hs Hr k Hall.
  rewrite <- (join_refs_count v np ops c Hs Hr).
  symmetry. apply pm_refs_single; [exact (keys_reach v np ops c Hr)|].
  intros k' Hne. destruct (Hall k' Hne) as [Hn|Hz]; [|exact Hz].
  exact (proj1 (proj2 (JZ_reach v np ops c Hv Hr k') Hn)).
Qed.
