(* proxy_clients_resolved_and_released for the model of answer.go as it is: every proxy client handed out
   refers to what the result holds at its path once Fulfill/Reject has returned, and is released once the
   ReleaseClients call that took the table has returned.  All op lists, all interleavings. *)
From CV Require Import Promise.Promise Promise.PromiseProofs Promise.PromiseStepProofs Promise.PromiseTheorems
  Promise.PromiseLive.
Open Scope Z_scope.

(* ---- T1: until ReleaseClients takes it, the table lists every proxy; it is taken only after the resolution *)
Definition T1 (c : config) : Prop :=
  (relflag c = false -> map snd (clients c) = seq 0 (length (proxies c))) /\
  (sig_open c = true -> relflag c = false).

Lemma T1_step : forall c t c', Inv c -> T1 c -> step fixed c t = Some c' -> T1 c'.
Proof.
  intros c t c' HI [HA HB] Hs. unfold T1.
  step_cases HI Hs Hth.
  all: pose proof (I_threads c HI t th Hth) as HT; unfold tinv in HT.
  all: repeat match goal with H : t_pc _ = _ |- _ => rewrite H in HT end.
  all: repeat match goal with H : t_op _ = _ |- _ => rewrite H in HT end.
  all: split_via; simpl; rewrite ?length_upd; (split; [|intros; try congruence; auto]).
  all: try exact HA.
  all: try (intros; congruence).
  all: try (apply HB; auto; congruence).
  all: try (intros; apply HA; auto; congruence).
  all: try (exfalso; destruct HT; congruence).
  all: try (exfalso; congruence).
  (* Future.Client creates a proxy *)
  intros Hr. rewrite map_app, app_length, (HA Hr). simpl. rewrite Nat.add_1_r, seq_S. reflexivity.
Qed.

(* ---- GT: a proxy's target is what the result holds at its path *)
Definition GT (c : config) : Prop :=
  forall x px d, nth_error (proxies c) x = Some px -> px_target px = Some d ->
                 exists r, result c = Some r /\ d = res_dest r (px_path px).

Lemma GT_step : forall c t c', Inv c -> GT c -> step fixed c t = Some c' -> GT c'.
Proof.
  intros c t c' HI HN Hs. unfold GT in *.
  pose proof (I_px_late c HI) as Hlate. pose proof (I_res_none c HI) as Hrn.
  step_cases HI Hs Hth.
  all: pose proof (I_threads c HI t th Hth) as HT; unfold tinv in HT.
  all: repeat match goal with H : t_pc _ = _ |- _ => rewrite H in HT end.
  all: split_via; intros x0 px0 d0 Hx0 Htg; px_cases Hx0; simpl in *.
  (* unchanged proxies and result *)
  all: try (eapply HN; eauto; fail).
  all: try discriminate.
  all: repeat match goal with
              | H : negb _ = false |- _ => apply negb_false_iff in H
              | H : negb _ = true |- _ => apply negb_true_iff in H
              end.
  (* the result is being set: no proxy has a target yet *)
  all: try (exfalso;
            first [ assert (Hso : sig_open c = false) by (eapply Hlate; [exact Hx0|right; congruence])
                  | assert (Hso : sig_open c = false) by (eapply Hlate; [exact Hx0'|right; congruence]) ];
            destruct (t_op th); try (exfalso; tauto);
            first [ destruct HT as [_ [Hs1 _]]; congruence
                  | match goal with H : caller ?cc = true |- _ => pose proof (I_caller_sig cc HI H); congruence end ]).
  (* a target is set by resolve: it is computed from the result *)
  all: try (injection Htg as <-; destruct (t_op th); try (exfalso; tauto);
            destruct HT as [_ [_ [Hres _]]]; eexists; split; [exact Hres|reflexivity]).
  all: try (rewrite ?(get_px_nth _ _ _ Hb0) in *; eapply HN; eauto; fail).
  all: try (eapply (HN _ _ _ Hb0); congruence).
  all: injection Htg as <-; destruct (t_op th); try (exfalso; tauto); destruct HT as [_ [_ [Hres _]]];
       (eexists; split; [exact Hres|reflexivity]).
Qed.

(* ---- thread clauses: what the fulfil loop / the release loop have done so far *)
Definition has_target (px : proxy) : Prop := px_target px <> None.
Definition is_rel (px : proxy) : Prop := px_rel px = true.

Definition all_px (c : config) (P : proxy -> Prop) (rest : list nat) : Prop :=
  forall y px, nth_error (proxies c) y = Some px -> In y rest \/ P px.

Definition tinv3 (c : config) (th : thread) : Prop :=
  match t_op th with
  | OFulfill _ _ | OReject _ =>
    match t_pc th with
    | PFul rest | PFulWait _ rest => sig_open c = false /\ all_px c has_target rest
    | PClose => sig_open c = false /\ all_px c has_target []
    | PDone => t_out th = ORet -> sig_open c = false /\ all_px c has_target []
    | _ => True
    end
  | ORelease =>
    match t_pc th with
    | PRel rest | PRelWait _ rest => sig_open c = false /\ all_px c is_rel rest
    | PDone => t_out th = ORet -> sig_open c = false /\ all_px c is_rel []
    | _ => True
    end
  | _ => True
  end.

Definition NP (c : config) : Prop := forall t th, nth_error (threads c) t = Some th -> tinv3 c th.

Definition mono3 (c c' : config) : Prop :=
  (sig_open c = false -> sig_open c' = false) /\
  forall y px', nth_error (proxies c') y = Some px' ->
    caller c = true \/
    exists px, nth_error (proxies c) y = Some px /\ (has_target px -> has_target px') /\ (is_rel px -> is_rel px').

Lemma all_px_mono : forall c c' (P : proxy -> Prop) (rest : list nat), Inv c -> sig_open c = false ->
  (forall y px', nth_error (proxies c') y = Some px' ->
     caller c = true \/ exists px, nth_error (proxies c) y = Some px /\ (P px -> P px')) ->
  all_px c P rest -> all_px c' P rest.
Proof.
  intros c c' P rest HI Hs Hm Ha y px' Hy.
  destruct (Hm y px' Hy) as [Hc|[px [H1 H2]]].
  - pose proof (I_caller_sig c HI Hc). congruence.
  - destruct (Ha y px H1); auto.
Qed.

Lemma tinv3_mono : forall c c' th, Inv c -> mono3 c c' -> tinv3 c th -> tinv3 c' th.
Proof.
  intros c c' th HI [Hs Hm] HT. unfold tinv3 in *.
  assert (HT1 : forall rest, sig_open c = false /\ all_px c has_target rest -> sig_open c' = false /\ all_px c' has_target rest).
  { intros rest [H1 H2]. split; auto. apply (all_px_mono c c' has_target rest HI H1); auto.
    intros y px' Hy. destruct (Hm y px' Hy) as [|[px [A [B _]]]]; eauto. }
  assert (HT2 : forall rest, sig_open c = false /\ all_px c is_rel rest -> sig_open c' = false /\ all_px c' is_rel rest).
  { intros rest [H1 H2]. split; auto. apply (all_px_mono c c' is_rel rest HI H1); auto.
    intros y px' Hy. destruct (Hm y px' Hy) as [|[px [A [_ B]]]]; eauto. }
  destruct (t_op th); auto; destruct (t_pc th); auto.
Qed.

Lemma mono3_upd : forall c (l' : list proxy) x p',
  l' = upd x p' (proxies c) ->
  (has_target (get_px c x) -> has_target p') -> (is_rel (get_px c x) -> is_rel p') ->
  forall y px', nth_error l' y = Some px' ->
    caller c = true \/
    exists px, nth_error (proxies c) y = Some px /\ (has_target px -> has_target px') /\ (is_rel px -> is_rel px').
Proof.
  intros c l' x p' -> H1 H2 y px' Hy. right.
  destruct (nth_error_upd_cases _ _ _ _ _ _ Hy) as [[-> [-> [b0 Hb0]]]|[Hne Hy']].
  - exists b0. rewrite (get_px_nth c x b0 Hb0) in *. auto.
  - exists px'. auto.
Qed.

Lemma mono3_step : forall c t c', Inv c -> step fixed c t = Some c' -> mono3 c c'.
Proof.
  intros c t c' HI Hs.
  step_cases HI Hs Hth; split_via; (split; [simpl; intros; try congruence; auto|]).
  all: simpl.
  all: try (intros y px' Hy; right; exists px'; auto; fail).
  all: try (eapply mono3_upd; [reflexivity| |]; unfold has_target, is_rel; simpl; intros; try congruence; auto; fail).
  (* a new proxy: only while caller is set *)
  all: intros y px' Hy; left; assumption.
Qed.

Lemma mem_nat_in : forall x l, mem_nat x l = true <-> In x l.
Proof.
  induction l as [|a l IH]; simpl; [split; [discriminate|tauto]|].
  rewrite orb_true_iff, IH, Nat.eqb_eq. split; intros [H|H]; auto.
Qed.

Lemma iter_order_complete : forall ord cl y, In y (map snd cl) -> In y (iter_order ord cl).
Proof.
  intros ord cl y H. unfold iter_order. apply in_or_app.
  destruct (mem_nat y (pick_ord ord cl)) eqn:E.
  - left. apply mem_nat_in. exact E.
  - right. apply filter_In. split; auto. rewrite E. reflexivity.
Qed.

Lemma table_covers : forall c y px, map snd (clients c) = seq 0 (length (proxies c)) ->
  nth_error (proxies c) y = Some px -> In y (map snd (clients c)).
Proof.
  intros c y px H Hy. rewrite H. apply in_seq. split; [lia|]. simpl. apply nth_error_Some. congruence.
Qed.

Lemma all_px_start : forall c P ord, T1 c -> sig_open c = true -> all_px c P (iter_order ord (clients c)).
Proof.
  intros c P ord [HA HB] Hs y px Hy. left. apply iter_order_complete.
  apply (table_covers c y px); auto.
Qed.

Lemma all_px_upd : forall c (P : proxy -> Prop) x rest p' c',
  proxies c' = upd x p' (proxies c) -> P p' -> (forall b0, nth_error (proxies c) x = Some b0 -> P b0 -> P p') ->
  all_px c P (x :: rest) -> all_px c' P rest.
Proof.
  intros c P x rest p' c' Hp HP _ Ha y px' Hy. rewrite Hp in Hy.
  destruct (nth_error_upd_cases _ _ _ _ _ _ Hy) as [[-> [-> _]]|[Hne Hy']]; [right; exact HP|].
  destruct (Ha y px' Hy') as [[E|Hin]|HPx]; auto. congruence.
Qed.

Lemma all_px_skip : forall c (P : proxy -> Prop) x rest, P (get_px c x) -> all_px c P (x :: rest) -> all_px c P rest.
Proof.
  intros c P x rest HP Ha y px Hy. destruct (Ha y px Hy) as [[E|Hin]|HPx]; auto.
  subst. rewrite (get_px_nth c y px Hy) in HP. auto.
Qed.

Lemma NP_step : forall c t c', Inv c -> T1 c -> NP c -> step fixed c t = Some c' -> NP c'.
Proof.
  intros c t c' HI HT1 HN Hs.
  pose proof (mono3_step c t c' HI Hs) as Hm.
  intros t0 th0 H0.
  unfold step in Hs. destruct (nth_error (threads c) t) as [th|] eqn:Hth; [|discriminate].
  assert (Hup : exists th', threads c' = upd t th' (threads c) /\ (tinv3 c th -> tinv3 c' th')).
  2:{ destruct Hup as [th' [Hup Hown]]. rewrite Hup in H0.
      destruct (upd_nth_cases _ _ _ _ _ _ Hth H0) as [[-> ->]|[Hne H0']].
      - apply Hown. exact (HN _ _ Hth).
      - exact (tinv3_mono c c' th0 HI Hm (HN _ _ H0')). }
  clear H0 t0 th0 Hm.
  pose proof (I_mu _ HI) as Hmu. pose proof (I_threads c HI t th Hth) as HT. unfold tinv in HT.
  unfold step_thread, sec_resolve_start, sec_fulfil_proxy, sec_commit, sec_close, sec_call_lock, sec_call_relock,
    sec_call_finish, sec_after_res, sec_client, sec_call_start, sec_release_proxy, mu_free, call_done,
    commit, close_done, commit_k in Hs.
  rewrite Hmu in Hs. cbn [negb v_late_fulfil v_unlock_on_hit v_known_first fixed] in Hs.
  explode Hs; inversion Hs; subst; clear Hs; split_via.
  all: repeat match goal with H : t_pc _ = _ |- _ => rewrite H in HT end.
  all: eexists; split; [simpl; reflexivity|].
  all: unfold tinv3; cbn [t_pc t_op t_out goto finish enter_call];
       repeat match goal with H : t_pc _ = _ |- _ => rewrite H end;
       repeat match goal with H : t_op _ = _ |- _ => rewrite H in * end.
  all: destruct (t_op th) eqn:Hop; try (exfalso; tauto); try (intros; exact I).
  all: repeat match goal with
              | H : negb _ = false |- _ => apply negb_false_iff in H
              | H : negb _ = true |- _ => apply negb_true_iff in H
              end.
  all: try (intros _ Hd; discriminate Hd).
  all: try (intros _ _; discriminate).
  all: intros Hold; try intros _.
  all: try (destruct Hold as [Hsf Hall]).
  all: try (split; [simpl; try reflexivity; try assumption; try tauto|]).
  all: unfold all_px in *; simpl.
  (* the loops are entered with the whole table *)
  all: try (assert (Hs1 : sig_open c = true) by (first [ apply (I_caller_sig c HI); assumption | tauto ]);
            intros y px Hy;
            match goal with H : iter_order ?o (clients ?cc) = _ |- _ =>
              destruct (all_px_start cc has_target o HT1 Hs1 y px Hy) as [Hin|Hp];
              [rewrite H in Hin; simpl in Hin; tauto | auto] end; fail).
  all: try (intros y px Hy; left; apply (table_covers c y px); [apply (proj1 HT1); assumption|exact Hy]; fail).
  (* steps that leave the proxies alone *)
  all: try (exact Hall).
  all: try (intros y px Hy; destruct (Hall y px Hy) as [[]|]; auto; fail).
  (* one more proxy fulfilled / released *)
  all: try (intros y px Hy; destruct (nth_error_upd_cases _ _ _ _ _ _ Hy) as [[-> [-> _]]|[Hne Hy']];
            [right; unfold has_target, is_rel; simpl; congruence
            |destruct (Hall y px Hy') as [[E|Hin]|HP]; [congruence|auto|auto]]; fail).
  all: try (intros y px Hy; destruct (Hall y px Hy) as [[E|Hin]|HP]; auto; subst; right;
            unfold is_rel; rewrite <- (get_px_nth c _ _ Hy); assumption).
Qed.

Lemma reach_inv3 : forall ops c, reach fixed ops c -> Inv c /\ T1 c /\ GT c /\ NP c.
Proof.
  intros ops c H. induction H as [|c t c' Hr [IH1 [IH2 [IH3 IH4]]] Hs].
  - split; [apply init_inv|]. split; [|split].
    + split; simpl; auto.
    + intros x px d Hx. destruct x; discriminate.
    + intros t th Hth. simpl in Hth. rewrite nth_error_map in Hth. destruct (nth_error ops t); inversion Hth; subst.
      unfold tinv3, mk_thread. simpl. destruct o; exact I.
  - split; [exact (step_inv c t c' IH1 Hs)|]. split; [exact (T1_step c t c' IH1 IH2 Hs)|].
    split; [exact (GT_step c t c' IH1 IH3 Hs)|exact (NP_step c t c' IH1 IH2 IH4 Hs)].
Qed.

(* Once Fulfill/Reject has returned, every proxy client handed out refers to what the result holds at its
   path (the capability, or the failure / rejection); once the ReleaseClients call that took the table has
   returned (outcome ORet, the others return ONoop), every proxy client has been released. *)
Theorem proxy_clients_resolved_and_released : forall ops c, reach fixed ops c ->
  (forall t th, nth_error (threads c) t = Some th -> is_res_op (t_op th) = true -> t_pc th = PDone ->
     t_out th = ORet ->
     forall x px, nth_error (proxies c) x = Some px ->
       px_target px = Some (res_dest (op_res (t_op th)) (px_path px))) /\
  (forall t th, nth_error (threads c) t = Some th -> t_op th = ORelease -> t_pc th = PDone -> t_out th = ORet ->
     forall x px, nth_error (proxies c) x = Some px -> px_rel px = true).
Proof.
  intros ops c Hr. destruct (reach_inv3 ops c Hr) as [HI [H1 [HG HN]]]. split.
  - intros t th Hth Hop Hpc Hout x px Hx.
    pose proof (HN t th Hth) as T3. unfold tinv3 in T3. rewrite Hpc in T3.
    pose proof (I_threads c HI t th Hth) as T. unfold tinv in T. rewrite Hpc in T.
    assert (Hres : result c = Some (op_res (t_op th))).
    { destruct (t_op th); try discriminate; destruct T as [[E _]|[_ [_ [_ E]]]]; congruence. }
    assert (Htg : has_target px).
    { destruct (t_op th); try discriminate; destruct (T3 Hout) as [_ Ha]; destruct (Ha x px Hx) as [[]|]; auto. }
    unfold has_target in Htg. destruct (px_target px) as [d|] eqn:Ed; [|congruence].
    destruct (HG x px d Hx Ed) as [r [Hr1 Hr2]]. congruence.
  - intros t th Hth Hop Hpc Hout x px Hx.
    pose proof (HN t th Hth) as T3. unfold tinv3 in T3. rewrite Hop, Hpc in T3.
    destruct (T3 Hout) as [_ Ha]. destruct (Ha x px Hx) as [[]|]; auto.
Qed.
