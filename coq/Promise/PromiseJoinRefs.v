(* The client table of a joined chain is reference counted (clientsRefs).  Over all operation lists and all
   interleavings of the model with Join: the references are conserved by Join and each ReleaseClients call
   consumes exactly one, so the table is given up (and the proxy clients released) only by the last
   ReleaseClients of the promises that share it.  This is what the seeded change C11-r2-1 violates. *)
From CV Require Import Promise.Promise Promise.PromiseProofs Promise.PromiseJoin Promise.PromiseJoinThms
  Promise.PromiseJoinInv.
Open Scope Z_scope.

(* clientsRefs minus 1 if the promise has not called ReleaseClients yet *)
Definition pot (p : prom) : Z := p_crefs p - (if p_relflag p then 0 else 1).

Fixpoint pm_sum (m : list (nat * prom)) : Z :=
  match m with [] => 0 | (_, p) :: r => pot p + pm_sum r end.

Lemma pm_sum_set : forall m k p, pm_sum (pm_set m k p) = pm_sum m - pot (pm_get m k) + pot p.
Proof.
  induction m as [|[k0 p0] m IH]; intros k p; cbn [pm_set pm_get pm_sum].
  - assert (pot dfl_prom = 0) by reflexivity. lia.
  - destruct (Nat.eqb k0 k); cbn [pm_sum]; [lia|]. rewrite IH. lia.
Qed.

Lemma sum_setp : forall c k p, pm_sum (proms (setp c k p)) = pm_sum (proms c) - pot (getp c k) + pot p.
Proof. intros. unfold setp, getp. simpl. apply pm_sum_set. Qed.

Lemma sum_close_sigs : forall sigs c, pm_sum (proms (close_sigs c sigs)) = pm_sum (proms c).
Proof.
  induction sigs as [|s sigs IH]; intros c; simpl; auto.
  rewrite IH, sum_setp. unfold pot. simpl. lia.
Qed.

Lemma pot_close_joined : forall p, pot (close_joined p) = pot p.
Proof. intros. unfold close_joined. destruct (p_joined p); reflexivity. Qed.

Lemma crefs_close_joined : forall p, p_crefs (close_joined p) = p_crefs p.
Proof. intros. unfold close_joined. destruct (p_joined p); reflexivity. Qed.
Lemma relflag_close_joined : forall p, p_relflag (close_joined p) = p_relflag p.
Proof. intros. unfold close_joined. destruct (p_joined p); reflexivity. Qed.

(* a ReleaseClients call that has set its flag and has not yet reached the end of the chain *)
Definition owes (th : jthread) : bool :=
  match j_pc th with QRelWalk => negb (Nat.eqb (j_waitx th) 0) | _ => false end.

Fixpoint jcount (f : jthread -> bool) (l : list jthread) : Z :=
  match l with [] => 0 | a :: r => (if f a then 1 else 0) + jcount f r end.

Lemma jcount_upd : forall f l t th th', nth_error l t = Some th ->
  jcount f (upd t th' l) = jcount f l - (if f th then 1 else 0) + (if f th' then 1 else 0).
Proof.
  induction l as [|a l IH]; intros t th th' H; destruct t; cbn [jcount upd nth_error] in *; try discriminate.
  - inversion H; subst. lia.
  - rewrite (IH t th th' H). lia.
Qed.

Lemma thr_sett : forall c t th, jthreads (sett c t th) = upd t th (jthreads c). Proof. reflexivity. Qed.
Lemma thr_setp : forall c k p, jthreads (setp c k p) = jthreads c. Proof. reflexivity. Qed.
Lemma thr_jlog : forall c e, jthreads (jlog c e) = jthreads c. Proof. reflexivity. Qed.
Lemma thr_setx : forall c x p, jthreads (setx c x p) = jthreads c. Proof. reflexivity. Qed.
Lemma thr_sjslots : forall c v, jthreads (sjslots c v) = jthreads c. Proof. reflexivity. Qed.
Lemma thr_sjproxies : forall c v, jthreads (sjproxies c v) = jthreads c. Proof. reflexivity. Qed.
Lemma thr_sjgates : forall c v, jthreads (sjgates c v) = jthreads c. Proof. reflexivity. Qed.
Lemma prm_sett : forall c t th, proms (sett c t th) = proms c. Proof. reflexivity. Qed.
Lemma prm_jlog : forall c e, proms (jlog c e) = proms c. Proof. reflexivity. Qed.
Lemma prm_setx : forall c x p, proms (setx c x p) = proms c. Proof. reflexivity. Qed.
Lemma prm_sjslots : forall c v, proms (sjslots c v) = proms c. Proof. reflexivity. Qed.
Lemma prm_sjproxies : forall c v, proms (sjproxies c v) = proms c. Proof. reflexivity. Qed.
Lemma prm_sjgates : forall c v, proms (sjgates c v) = proms c. Proof. reflexivity. Qed.
#[export] Hint Rewrite thr_sett thr_setp thr_jlog thr_setx thr_sjslots thr_sjproxies thr_sjgates close_sigs_threads
  prm_sett prm_jlog prm_setx prm_sjslots prm_sjproxies prm_sjgates sum_close_sigs sum_setp : jc_simp.

Definition JC (c : jconfig) : Prop := pm_sum (proms c) = jcount owes (jthreads c).

Lemma JC_step : forall v c t c', jv_refs_sum v = true -> JC c -> jstep v c t = Some c' -> JC c'.
Proof.
  intros v c t c' Hv HN Hs. unfold JC in *.
  unfold jstep in Hs. destruct (nth_error (jthreads c) t) as [th|] eqn:Hth; [|discriminate].
  junfold Hs. rewrite ?Hv in Hs. jexplode Hs; inversion Hs; subst; clear Hs.
  all: unfold resolve_entry, do_known, do_final.
  all: goal_matches.
  all: repeat progress (autorewrite with jc_simp; autorewrite with getp_simp).
  all: rewrite (jcount_upd _ _ _ _ _ Hth).
  all: rewrite ?Nat.eqb_refl.
  all: rewrite HN; unfold owes; simpl;
       repeat match goal with H : j_pc _ = _ |- _ => rewrite H end; simpl.
  all: unfold pot; simpl.
  all: rewrite ?crefs_close_joined, ?relflag_close_joined; simpl.
  all: eqb_all; rewrite ?crefs_close_joined, ?relflag_close_joined; simpl.
  all: repeat match goal with
              | H : _ && _ = true |- _ => apply andb_true_iff in H; destruct H
              | H : _ && _ = false |- _ => apply andb_false_iff in H; destruct H
              end.
  all: repeat match goal with H : p_relflag _ = _ |- _ => rewrite H end.
  all: repeat match goal with H : (j_waitx _ =? 0)%nat = _ |- _ => rewrite H end; simpl.
  all: repeat match goal with |- context [p_relflag ?p] => destruct (p_relflag p) eqn:? end.
  all: repeat match goal with |- context [(j_waitx ?th =? 0)%nat] => destruct (j_waitx th =? 0)%nat eqn:? end; simpl.
  all: try lia.
  all: try discriminate.
Qed.

Lemma JC_init : forall np ops, JC (jinit np ops).
Proof.
  intros np ops. unfold JC, jinit. simpl.
  assert (H1 : forall l, pm_sum (map (fun k => (k, new_prom k)) l) = 0).
  { induction l; simpl; auto. }
  assert (H2 : forall l, jcount owes (map mk_jthread l) = 0).
  { induction l; simpl; auto. }
  rewrite H1, H2. reflexivity.
Qed.

(* Over all op lists and interleavings (code as it is: Join adds all of p's references to the promise joined
   onto): the sum over all promises of clientsRefs equals the number of promises that have not called
   ReleaseClients plus the number of ReleaseClients calls that have set their flag and not yet reached the end of
   their chain.  Join conserves the references; a ReleaseClients call consumes exactly one, at the end of the chain. *)
Theorem join_refs_conserved : forall v np ops c, jv_refs_sum v = true -> jreach v np ops c ->
  pm_sum (proms c) = jcount owes (jthreads c).
Proof.
  intros v np ops c Hv H. induction H as [|c t c' Hr IH Hs]; [apply JC_init|exact (JC_step v c t c' Hv IH Hs)].
Qed.

(* Consequence for a chain: if every promise other than k holds no reference (as joined promises do) and no
   ReleaseClients call is under way, then k's clientsRefs is exactly the number of promises that have not called
   ReleaseClients yet: the table is taken (clientsRefs reaches 0) by the last of them and not before. *)
Fixpoint pm_unreleased (m : list (nat * prom)) : Z :=
  match m with [] => 0 | (_, p) :: r => (if p_relflag p then 0 else 1) + pm_unreleased r end.

Fixpoint pm_refs (m : list (nat * prom)) : Z :=
  match m with [] => 0 | (_, p) :: r => p_crefs p + pm_refs r end.

Lemma pm_sum_split : forall m, pm_sum m = pm_refs m - pm_unreleased m.
Proof. induction m as [|[k p] m IH]; simpl; [reflexivity|]. unfold pot. rewrite IH. lia. Qed.

Theorem join_refs_count : forall v np ops c, jv_refs_sum v = true -> jreach v np ops c ->
  pm_refs (proms c) = pm_unreleased (proms c) + jcount owes (jthreads c).
Proof.
  intros v np ops c Hv H. pose proof (join_refs_conserved v np ops c Hv H) as E. rewrite pm_sum_split in E. lia.
Qed.

(* the seeded change C11-r2-1 (parent.clientsRefs++) loses references: on the child-first chain of
   [refs_history] the count no longer matches after the second Join *)
Example join_refs_conservation_refuted :
  let c := jrun jrefs1 (jinit 3 [JJoin 2 1; JJoin 1 0]) [0%nat; 0%nat; 1%nat; 1%nat] in
  pm_refs (proms c) = 2 /\ pm_unreleased (proms c) = 3 /\ jcount owes (jthreads c) = 0.
Proof. vm_compute. repeat split; reflexivity. Qed.

(* ---- generic facts about jcount *)
Lemma jcount_nonneg : forall f l, 0 <= jcount f l.
Proof. induction l; cbn [jcount]; [lia|]. destruct (f a); lia. Qed.

Lemma jcount_pos : forall f l, 0 < jcount f l -> exists t th, nth_error l t = Some th /\ f th = true.
Proof.
  induction l as [|a l IH]; cbn [jcount]; intros H; [lia|].
  destruct (f a) eqn:E.
  - exists 0%nat, a. auto.
  - destruct (IH ltac:(lia)) as [t [th [H1 H2]]]. exists (S t), th. auto.
Qed.

Lemma jcount_mem : forall f l t th, nth_error l t = Some th -> f th = true -> 0 < jcount f l.
Proof.
  induction l as [|a l IH]; intros t th H Hf; destruct t; cbn [jcount nth_error] in *; try discriminate.
  - inversion H; subst. rewrite Hf. pose proof (jcount_nonneg f l). lia.
  - pose proof (IH t th H Hf). destruct (f a); lia.
Qed.

Lemma jcount_init : forall f ops, (forall o, f (mk_jthread o) = false) -> jcount f (map mk_jthread ops) = 0.
Proof. induction ops; cbn [jcount map]; intros H; auto. rewrite H, IHops; auto. Qed.

Ltac thr_simp Hth :=
  repeat progress (autorewrite with jc_simp); rewrite ?(jcount_upd _ _ _ _ _ Hth).
