(* mu is free at every section boundary, in every configuration reachable under any schedule
   from any operation list, for the model of answer.go after the F11 fix (both orders of
   resolve).  On the model of the code as found this fails: client_idempotent_refuted. *)
From CV Require Import Promise.Promise.
Open Scope Z_scope.

Lemma step_thread_mu : forall v c t th c',
  v_unlock_on_hit v = true -> mu c = None -> step_thread v c t th = Some c' -> mu c' = None.
Proof.
  intros v c t th c' Hv Hmu Hs. unfold step_thread in Hs.
  destruct (t_pc th).
  - destruct (t_op th).
    + unfold sec_resolve_start in Hs.
      repeat match type of Hs with
             | (if ?b then _ else _) = _ => destruct b
             | match ?x with _ => _ end = _ => destruct x
             end; try discriminate; inversion Hs; subst; simpl; auto.
    + unfold sec_resolve_start in Hs.
      repeat match type of Hs with
             | (if ?b then _ else _) = _ => destruct b
             | match ?x with _ => _ end = _ => destruct x
             end; try discriminate; inversion Hs; subst; simpl; auto.
    + inversion Hs; subst; simpl; auto.
    + unfold sec_client in Hs. rewrite Hv in Hs.
      repeat match type of Hs with
             | (if ?b then _ else _) = _ => destruct b
             | match ?x with _ => _ end = _ => destruct x
             end; try discriminate; inversion Hs; subst; simpl; auto.
    + unfold sec_call_start in Hs.
      repeat match type of Hs with
             | (if ?b then _ else _) = _ => destruct b
             | match ?x with _ => _ end = _ => destruct x
             end; try discriminate; inversion Hs; subst; simpl; auto.
    + destruct (sig_open c); try discriminate; inversion Hs; subst; simpl; auto.
    + destruct (sig_open c); try discriminate; inversion Hs; subst; simpl; auto.
    + inversion Hs; subst; simpl; auto.
  - unfold sec_call_lock in Hs.
    repeat match type of Hs with
           | (if ?b then _ else _) = _ => destruct b
           end; try discriminate; inversion Hs; subst; simpl; auto.
  - destruct (negb (op_gated (t_op th)) || mem_nat t (gates c)); try discriminate; inversion Hs; subst; simpl; auto.
  - unfold sec_call_relock in Hs. destruct (negb (mu_free c)); try discriminate; inversion Hs; subst; simpl; auto.
  - destruct (sig_open c); try discriminate; inversion Hs; subst; simpl; auto.
  - unfold sec_after_res in Hs.
    repeat match type of Hs with
           | (if ?b then _ else _) = _ => destruct b
           | match ?x with _ => _ end = _ => destruct x
           end; try discriminate; inversion Hs; subst; simpl; auto.
  - unfold sec_call_finish in Hs. destruct (t_via th); inversion Hs; subst; simpl; auto.
  - unfold sec_fulfil_proxy in Hs.
    repeat match type of Hs with
           | (if ?b then _ else _) = _ => destruct b
           | match ?x with _ => _ end = _ => destruct x
           end; try discriminate; inversion Hs; subst; simpl; auto.
  - destruct (px_done (get_px c x)); try discriminate; inversion Hs; subst; simpl; auto.
  - destruct (stopped c); try discriminate; inversion Hs; subst; simpl; auto.
  - unfold sec_commit in Hs.
    repeat match type of Hs with
           | (if ?b then _ else _) = _ => destruct b
           | match ?x with _ => _ end = _ => destruct x
           end; try discriminate; inversion Hs; subst; simpl; auto.
  - unfold sec_release_proxy in Hs.
    repeat match type of Hs with
           | (if ?b then _ else _) = _ => destruct b
           | match ?x with _ => _ end = _ => destruct x
           end; try discriminate; inversion Hs; subst; simpl; auto.
  - destruct (px_done (get_px c x)); try discriminate; inversion Hs; subst; simpl; auto.
  - discriminate.
Qed.

Lemma mu_always_free : forall v ops c, v_unlock_on_hit v = true -> reach v ops c -> mu c = None.
Proof.
  intros v ops c Hv H. induction H as [|c t c' Hr IH Hs]; [reflexivity|].
  unfold step in Hs. destruct (nth_error (threads c) t) as [th|]; [|discriminate].
  exact (step_thread_mu v c t th c' Hv IH Hs).
Qed.
