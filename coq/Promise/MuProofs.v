(* mu is free at every section boundary, in every configuration reachable under any schedule
   from any operation list, for the model of answer.go after the F11 fix (both orders of
   resolve).  On the model of the code as found this fails: client_idempotent_refuted. *)
From CV Require Import Promise.Promise.
Open Scope Z_scope.

Lemma step_thread_mu : forall v c t th c',
  v_unlock_on_hit v = true -> mu c = None -> step_thread v c t th = Some c' -> mu c' = None.
Proof.
  intros v c t th c' Hv Hmu Hs.
  unfold step_thread, sec_resolve_start, sec_fulfil_proxy, sec_commit, sec_close, sec_call_lock, sec_call_relock,
    sec_call_finish, sec_after_res, sec_client, sec_call_start, sec_release_proxy, commit, mu_free in Hs.
  rewrite Hv, Hmu in Hs. destruct (v_known_first v); destruct (v_late_fulfil v).
  all: repeat match type of Hs with
         | (if ?b then _ else _) = _ => destruct b
         | match ?x with _ => _ end = _ => destruct x
         end; try discriminate; inversion Hs; subst; simpl; auto.
Qed.

Lemma mu_always_free : forall v ops c, v_unlock_on_hit v = true -> reach v ops c -> mu c = None.
Proof.
  intros v ops c Hv H. induction H as [|c t c' Hr IH Hs]; [reflexivity|].
  unfold step in Hs. destruct (nth_error (threads c) t) as [th|]; [|discriminate].
  exact (step_thread_mu v c t th c' Hv IH Hs).
Qed.
