(* Facts about the model with Join (coq/Promise/PromiseJoin.v).  The theorems over all interleavings
   are proved for the single-promise model (Promise.v); here: the concrete histories that refute the
   seeded change C11-3 and the code as found (F11c), and that complete on the model of the code as it is. *)
From CV Require Import Promise.Promise Promise.PromiseJoin.
Open Scope Z_scope.

(* S@0 gated; F@0; J@1:0; U:0; then PipelineSend, Client, Struct on promise 1 *)
Definition seed3_history : list jop :=
  [JSend 0 [0] true; JFulfill 0 [([0], 1)]; JJoin 1 0; JUngate 0; JSend 1 [0] false; JClient 1 [0] 0; JWait 1].

Definition jall_tids (c : jconfig) : list nat := seq 0 (length (jthreads c)).

(* resolve's final block without "close(p.joined)": promise 1 is resolved (its waiter returns) but stays
   in the pending-join state: the pipelined call and Client() on it can never run, nothing is enabled *)
Example join_resolve_refuted :
  match jquiesce jseed3 1000 (jinit 2 seed3_history) 7 with
  | Some c => forallb (fun t => negb (jenabled jseed3 c t)) (jall_tids c) = true /\
              jfinished c 4 = false /\ jfinished c 5 = false /\ jfinished c 6 = true /\ all_mu_free c = true
  | None => False
  end.
Proof. vm_compute. repeat split; reflexivity. Qed.

Example seed3_history_fixed :
  match jquiesce jfixed 1000 (jinit 2 seed3_history) 7 with
  | Some c => forallb (jfinished c) (jall_tids c) = true /\ all_mu_free c = true
  | None => False
  end.
Proof. vm_compute. repeat split; reflexivity. Qed.

(* F11c: Client() on promise 1, then 1.Join(0) with promise 0 having no client table: panic with
   promise 0's mu left locked; Fulfill on 0 can never start *)
Definition f11c_history : list jop := [JClient 1 [0] 0; JJoin 1 0; JFulfill 0 [([0], 1)]].

Example join_nil_table_refuted :
  match jquiesce jf11c 1000 (jinit 2 f11c_history) 3 with
  | Some c => match nth_error (jthreads c) 1 with
              | Some th => j_out th = OPanic | None => False end /\
              jmutex_blocked c 2 = true /\ all_mu_free c = false
  | None => False
  end.
Proof. vm_compute. repeat split; reflexivity. Qed.

Example f11c_history_fixed :
  match jquiesce jfixed 1000 (jinit 2 f11c_history) 3 with
  | Some c => forallb (jfinished c) (jall_tids c) = true /\ all_mu_free c = true
  | None => False
  end.
Proof. vm_compute. repeat split; reflexivity. Qed.

(* seeded C11-r2-1: Join hands the promise joined onto ONE reference to the client table instead of all of p's
   (parent.clientsRefs++): chain 2 -> 1 -> 0 joined child first, client requested on promise 2; after
   ReleaseClients on 2 and on 1 (the leaf's owner has not released) the call through the client fails *)
Definition refs_history : list jop :=
  [JClient 2 [0] 0; JJoin 2 1; JJoin 1 0; JFulfill 0 [([0], 1)]; JRelease 2; JRelease 1; JCall 0 false].

Example join_refs_refuted :
  match jquiesce jrefs1 1000 (jinit 3 refs_history) 7 with
  | Some c => In (JEDirect 6 DFail) (jevents c) /\ p_relflag (getp c 0) = false
  | None => False
  end.
Proof. vm_compute. split; [left; reflexivity|reflexivity]. Qed.

Example refs_history_fixed :
  match jquiesce jfixed 1000 (jinit 3 refs_history) 7 with
  | Some c => In (JEDirect 6 (DCap 1)) (jevents c) /\ p_relflag (getp c 0) = false
  | None => False
  end.
Proof. vm_compute. split; [left; reflexivity|reflexivity]. Qed.
