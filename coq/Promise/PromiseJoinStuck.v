(* Deadlock freedom on joined chains (channel part), from the invariants of PromiseJoinLive.v, the forest
   invariant and the mutex discipline. *)
From CV Require Import Promise.Promise Promise.PromiseProofs Promise.PromiseJoin Promise.PromiseJoinThms
  Promise.PromiseJoinInv Promise.PromiseJoinRefs Promise.PromiseJoinDest Promise.PromiseJoinChain
  Promise.PromiseJoinForest Promise.PromiseJoinLive.
Open Scope Z_scope.

(* ---- which program counters an operation goes through *)
Definition pc_ok (o : jop) (p : jpc) : bool :=
  match p with
  | QStart | QDone => true
  | _ =>
    match o with
    | JFulfill _ _ | JReject _ => match p with QStopWait | QKnown | QFul | QFulWait | QClose => true | _ => false end
    | JJoin _ _ => match p with
                   | QStopWait | QKnown | QFul | QFulWait | QClose
                   | QJStopWait | QJRelock | QJPar | QJWaitRes | QJWaitJ | QJLockP => true
                   | _ => false end
    | JSend _ _ _ | JCall _ _ =>
      match p with QTrav | QWaitJ | QInCaller | QRelock | QWaitKnown | QAfterKnown | QCallFinish => true | _ => false end
    | JClient _ _ _ => match p with QTrav | QWaitJ | QWaitRes | QAfterRes => true | _ => false end
    | JRelease _ => match p with QRelWalk | QRel | QRelWait => true | _ => false end
    | JWait _ => match p with QWaitWalk => true | _ => false end
    | JUngate _ => false
    end
  end.

Definition JOP (c : jconfig) : Prop := forall t th, nth_error (jthreads c) t = Some th -> pc_ok (j_op th) (j_pc th) = true.

Lemma JOP_step : forall v c t c', JOP c -> jstep v c t = Some c' -> JOP c'.
Proof.
  intros v c t c' HO Hs.
  unfold jstep in Hs. destruct (nth_error (jthreads c) t) as [th|] eqn:Hth; [|discriminate].
  pose proof (HO t th Hth) as Hown.
  junfold Hs. jexplode Hs; inversion Hs; subst; clear Hs.
  all: unfold resolve_entry, do_known, do_final; goal_matches.
  all: intros t0 th0 H0; simpl in H0; rewrite ?close_sigs_threads in H0; simpl in H0;
       destruct (jupd_nth_cases _ _ _ _ _ _ Hth H0) as [[-> ->]|[Hne H0']]; [|exact (HO _ _ H0')].
  all: simpl; repeat match goal with H : j_pc _ = _ |- _ => rewrite H in * end;
       repeat match goal with H : j_op _ = _ |- _ => rewrite H in * end; simpl in *; try reflexivity; try exact Hown.
  all: destruct (j_op th); simpl in *; try discriminate; try reflexivity.
Qed.

Lemma JOP_reach : forall v np ops c, jreach v np ops c -> JOP c.
Proof.
  intros v np ops c H. induction H as [|c t c' Hr IH Hs]; [|exact (JOP_step v c t c' IH Hs)].
  intros t th H. simpl in H. rewrite nth_error_map in H. destruct (nth_error ops t); inversion H; subst. reflexivity.
Qed.

(* ---- why a thread cannot move when every mutex is free *)
Ltac jexplode_none Hs :=
  repeat (match type of Hs with
          | (if ?b then _ else _) = None => destruct b eqn:?
          | match ?x with _ => _ end = None => destruct x eqn:?
          end); try discriminate Hs.

Definition wait_kind (c : jconfig) (th : jthread) : Prop :=
  (j_pc th = QStart /\ exists k, (j_op th = JRelease k \/ j_op th = JWait k) /\ p_resclosed (getp c k) = false) \/
  (j_pc th = QWaitJ /\ p_joined (getp c (j_cur th)) = COpen) \/
  (j_pc th = QWaitKnown /\ p_known (getp c (j_cur th)) = COpen) \/
  (j_pc th = QWaitRes /\ p_resclosed (getp c (j_cur th)) = false) \/
  ((j_pc th = QStopWait \/ j_pc th = QJStopWait) /\ p_stopped (getp c (j_cur th)) <> CClosed) \/
  (j_pc th = QJWaitRes /\ p_resclosed (getp c (j_par th)) = false) \/
  (j_pc th = QJWaitJ /\ p_joined (getp c (j_par th)) = COpen).

Lemma jdisabled_cases : forall v c t th,
  (forall k, free c k = true) -> pc_ok (j_op th) (j_pc th) = true ->
  (j_pc th = QJPar -> j_par th <> j_cur th) ->
  jstep_thread v c t th = None ->
  j_pc th = QDone \/
  (j_pc th = QInCaller /\ jop_gated (j_op th) = true /\ mem_nat t (jgates c) = false) \/
  (j_pc th = QFulWait \/ j_pc th = QRelWait) \/
  wait_kind c th.
Proof.
  intros v c t th HM Hok Hself Hs. unfold wait_kind.
  unfold jstep_thread in Hs.
  destruct (j_pc th) eqn:Hpc; simpl in Hok.
  all: try (left; reflexivity).
  all: try (right; right; left; auto; fail).
  all: try unfold sec_jresolve_start in Hs; try unfold sec_join_start in Hs; try unfold sec_trav in Hs;
       try unfold sec_jrelock in Hs; try unfold sec_jcall_finish in Hs; try unfold sec_jcall_start in Hs;
       try unfold sec_rel_walk in Hs; try unfold sec_jrelease_proxy in Hs; try unfold sec_wait_walk in Hs;
       try unfold sec_jfulfil in Hs; try unfold jcall_done in Hs;
       repeat rewrite HM in Hs; simpl in Hs.
  all: try (exfalso; exact (join_par_enabled v c t th (Hself eq_refl) (HM _) Hs)).
  all: jexplode_none Hs.
  all: try discriminate Hok.
  all: try (right; left; apply orb_false_iff in Heqb; destruct Heqb as [Hg Hm]; apply negb_false_iff in Hg; auto; fail).
  all: right; right; right.
  all: try (left; split; [reflexivity|]; eexists; split; [eauto|]; assumption).
  all: try (right; left; split; auto; fail).
  all: try (right; right; left; split; auto; fail).
  all: try (right; right; right; left; split; auto; fail).
  all: try (right; right; right; right; left; split; [auto|congruence]; fail).
  all: try (right; right; right; right; right; left; split; auto; fail).
  all: try (right; right; right; right; right; right; split; auto; fail).
  all: exfalso; rewrite HM in Heqb; discriminate Heqb.
Qed.

Lemma JE3_reach : forall v np ops c, join_ordered ops -> jreach v np ops c -> JE3 c.
Proof.
  intros v np ops c Ho H. induction H as [|c t c' Hr IH Hs].
  - intros k Hrc. destruct (getp_init np ops k) as [E|E]; rewrite E in Hrc; [discriminate|].
    exists k. split; [lia|]. rewrite E. left. reflexivity.
  - apply (JE3_step v c t c'); auto.
    intros t0 th0 H0 Hpc. destruct (join_forest v np ops c Ho Hr) as [_ Hf].
    apply (Hf t0 th0 H0). rewrite Hpc. reflexivity.
Qed.

(* ---------------------------------------------------------------- the argument *)
Section Stuck.
  Variable v : jvariant.
  Variable np : nat.
  Variable ops : list jop.
  Variable c : jconfig.
  Hypothesis Hv1 : jv_close_joined v = true.
  Hypothesis Hv2 : jv_alloc_table v = true.
  Hypothesis Hord : join_ordered ops.
  Hypothesis Hr : jreach v np ops c.
  Hypothesis Hdis : forall t, jenabled v c t = false.
  Hypothesis Hnogate : forall t th, nth_error (jthreads c) t = Some th -> j_pc th <> QInCaller.
  Hypothesis Hnohook : forall t th, nth_error (jthreads c) t = Some th -> j_pc th <> QFulWait /\ j_pc th <> QRelWait.

  Lemma all_free : forall k, free c k = true.
  Proof.
    intros k. unfold free. destruct (p_mu (getp c k)) as [t|] eqn:E; [|reflexivity]. exfalso.
    destruct (join_no_mutex_deadlock v np ops c Hv2 Hord Hr k t E) as [t' Ht']. rewrite Hdis in Ht'. discriminate.
  Qed.

  Lemma classify : forall t th, nth_error (jthreads c) t = Some th -> j_pc th = QDone \/ wait_kind c th.
  Proof.
    intros t th Hth.
    assert (Hs : jstep_thread v c t th = None).
    { specialize (Hdis t). unfold jenabled, jstep in Hdis. rewrite Hth in Hdis.
      destruct (jstep_thread v c t th); [discriminate|reflexivity]. }
    destruct (jdisabled_cases v c t th all_free (JOP_reach v np ops c Hr t th Hth)) as [H|[H|[H|H]]]; auto.
    - intros Hpc. destruct (join_forest v np ops c Hord Hr) as [_ Hf].
      pose proof (Hf t th Hth ltac:(rewrite Hpc; reflexivity)). lia.
    - exfalso. exact (Hnogate t th Hth (proj1 H)).
    - exfalso. destruct (Hnohook t th Hth). destruct H; contradiction.
  Qed.

  (* program counters whose section can always run when every mutex is free *)
  Lemma not_runnable : forall t th, nth_error (jthreads c) t = Some th ->
    match j_pc th with
    | QKnown | QFul | QClose | QJRelock | QJLockP | QRelock | QJPar | QTrav | QAfterKnown | QAfterRes
    | QCallFinish | QRel | QRelWalk | QWaitWalk | QInCaller | QFulWait | QRelWait => False
    | _ => True
    end.
  Proof.
    intros t th Hth. destruct (classify t th Hth) as [H|H]; [rewrite H; exact I|].
    unfold wait_kind in H.
    destruct H as [[H _]|[[H _]|[[H _]|[[H _]|[[[H|H] _]|[[H _]|[H _]]]]]]]; rewrite H; exact I.
  Qed.

  Lemma no_stopwait : forall t th, nth_error (jthreads c) t = Some th ->
    j_pc th <> QStopWait /\ j_pc th <> QJStopWait.
  Proof.
    intros t th Hth.
    assert (G : (j_pc th = QStopWait \/ j_pc th = QJStopWait) -> False).
    { intros Hpc.
      pose proof (JC1_reach v np ops c Hr) as HC. pose proof (JT_reach v np ops c Hv1 Hv2 Hr) as HT.
      assert (Hst : p_stopped (getp c (j_cur th)) = COpen).
      { pose proof (T_thr c HT t th Hth) as T. unfold tchan in T.
        destruct (classify t th Hth) as [H|H]; [destruct Hpc; congruence|].
        unfold wait_kind in H.
        destruct H as [[H _]|[[H _]|[[H _]|[[H _]|[[_ H]|[[H _]|[H _]]]]]]]; try (destruct Hpc; congruence).
        destruct (p_stopped (getp c (j_cur th))) eqn:E; auto; [|congruence].
        destruct Hpc as [Hp|Hp]; rewrite Hp in T; destruct T; congruence. }
      destruct (C_stopped c HC _ Hst) as [Hpos _]. rewrite (C_ongoing c HC) in Hpos.
      destruct (jcount_pos _ _ Hpos) as [t2 [th2 [H2 Hf]]].
      pose proof (not_runnable t2 th2 H2) as N. unfold jin_caller in Hf.
      destruct (j_pc th2); try discriminate; exact N. }
    split; intros H; apply G; auto.
  Qed.

  Definition unresolved_exists : Prop := exists r, p_caller (getp c r) = true.

  Lemma phase_thread : forall k, act (getp c k) = true ->
    exists t th, nth_error (jthreads c) t = Some th /\ jphase k th = true.
  Proof.
    intros k Ha. pose proof (JE4_reach v np ops c Hv2 Hr k) as E. rewrite Ha in E.
    apply jcount_pos. lia.
  Qed.

  (* a thread of promise k' in Join's waiting states waits on a lower promise *)
  Lemma join_thread_waits : forall t th k',
    nth_error (jthreads c) t = Some th -> jpre th k' = true ->
    (forall m, (m < k')%nat -> (p_joined (getp c m) = COpen -> unresolved_exists) /\
                               (p_resclosed (getp c m) = false -> unresolved_exists)) ->
    unresolved_exists.
  Proof.
    intros t th k' Hth Hp IH.
    pose proof (not_runnable t th Hth) as N. destruct (no_stopwait t th Hth) as [S1 S2].
    destruct (join_forest v np ops c Hord Hr) as [_ Hf].
    unfold jpre in Hp.
    destruct (j_pc th) eqn:Hpc; try discriminate Hp; try contradiction; try congruence;
      apply Nat.eqb_eq in Hp;
      assert (Hlt : (j_par th < k')%nat) by (rewrite <- Hp; apply (Hf t th Hth); rewrite Hpc; reflexivity);
      destruct (classify t th Hth) as [H|H]; try congruence; unfold wait_kind in H;
      destruct H as [[H _]|[[H _]|[[H _]|[[H _]|[[[H|H] _]|[[H H']|[H H']]]]]]]; try congruence.
    - exact (proj2 (IH _ Hlt) H').
    - exact (proj1 (IH _ Hlt) H').
  Qed.

  Lemma waits_lead_to_unresolved : forall k,
    (p_joined (getp c k) = COpen -> unresolved_exists) /\
    (p_resclosed (getp c k) = false -> unresolved_exists).
  Proof.
    induction k as [k IH] using lt_wf_ind.
    pose proof (JT_reach v np ops c Hv1 Hv2 Hr) as HT.
    split.
    - (* pending join *)
      intros Hj. destruct (phase_thread k (T_joined c HT k Hj)) as [t [th [Hth Hp]]].
      unfold jphase in Hp. apply orb_true_iff in Hp. destruct Hp as [Hp|Hp].
      + exact (join_thread_waits t th k Hth Hp IH).
      + exfalso. pose proof (T_thr c HT t th Hth) as T. unfold tchan in T. unfold jpost in Hp.
        destruct (j_pc th); try discriminate Hp; apply Nat.eqb_eq in Hp; rewrite Hp in T; destruct T; congruence.
    - (* resolved channel still open *)
      intros Hrc. pose proof (JE3_reach v np ops c Hord Hr) as HE3.
      destruct (HE3 k Hrc) as [r [Hle Hin]].
      destruct (p_caller (getp c r)) eqn:Ec; [exists r; exact Ec|].
      pose proof (JZ_reach v np ops c Hv2 Hr r) as [_ Z2].
      assert (Hn : p_next (getp c r) = None).
      { destruct (p_next (getp c r)) eqn:En; auto. destruct (Z2 ltac:(congruence)) as [_ [_ Hs]]. rewrite Hs in Hin. destruct Hin. }
      assert (Ha : act (getp c r) = true).
      { unfold act, p_is_joined, no_signals. rewrite Ec, Hn. destruct (p_signals (getp c r)); [destruct Hin|reflexivity]. }
      destruct (phase_thread r Ha) as [t [th [Hth Hp]]].
      unfold jphase in Hp. apply orb_true_iff in Hp. destruct Hp as [Hp|Hp].
      + apply (join_thread_waits t th r Hth Hp). intros m Hm. apply IH. lia.
      + exfalso. pose proof (not_runnable t th Hth) as N. unfold jpost in Hp.
        destruct (j_pc th); try discriminate Hp; exact N.
  Qed.

  (* every operation that has not finished waits, directly or through Join threads, for a promise nobody has
     asked to resolve *)
  Lemma unfinished_waits_for_unresolved : forall t th,
    nth_error (jthreads c) t = Some th -> j_pc th <> QDone -> unresolved_exists.
  Proof.
    intros t th Hth Hnd.
    pose proof (JT_reach v np ops c Hv1 Hv2 Hr) as HT.
    destruct (classify t th Hth) as [H|H]; [contradiction|]. unfold wait_kind in H.
    destruct H as [[_ [k [_ H]]]|[[_ H]|[[_ H]|[[_ H]|[[H _]|[[_ H]|[_ H]]]]]]].
    - exact (proj2 (waits_lead_to_unresolved k) H).
    - exact (proj1 (waits_lead_to_unresolved _) H).
    - (* pendingDone open: its closer is waiting for callsStopped or about to run *)
      exfalso. destruct (phase_thread _ (T_known c HT _ H)) as [t1 [th1 [Hth1 Hp]]].
      pose proof (T_thr c HT t1 th1 Hth1) as T. unfold tchan in T.
      pose proof (not_runnable t1 th1 Hth1) as N. destruct (no_stopwait t1 th1 Hth1) as [S1 S2].
      unfold jphase, jpre, jpost in Hp.
      destruct (j_pc th1); simpl in Hp; try discriminate Hp; try contradiction; try congruence;
        rewrite orb_false_r in Hp || rewrite orb_false_l in Hp || idtac;
        try (apply Nat.eqb_eq in Hp; rewrite Hp in T; first [destruct T; congruence | congruence]).
    - exact (proj2 (waits_lead_to_unresolved _) H).
    - exfalso. destruct (no_stopwait t th Hth). destruct H; contradiction.
    - exact (proj2 (waits_lead_to_unresolved _) H).
    - exact (proj1 (waits_lead_to_unresolved _) H).
  Qed.
End Stuck.

(* no_stuck on joined chains.  Preconditions: the code as it is (resolve closes p.joined, Join allocates the table)
   and the precondition of Join (join_ordered).  If no thread can take a step, then
   (1) the application is holding a call inside a PipelineCaller (gated, not released), or
   (2) some ClientPromise.Fulfill / Client.Release is waiting for the calls of a proxy hook to drain (these waits are
       analysed for a single promise by C11_no_stuck; on chains this alternative is left open: PARTIAL), or
   (3) every unfinished operation waits - on its own promise's resolved / joined channel, or through Join threads -
       for a promise that nobody has asked to resolve (p.caller still set for some promise). *)
Theorem join_no_stuck_partial : forall v np ops c,
  jv_close_joined v = true -> jv_alloc_table v = true -> join_ordered ops -> jreach v np ops c ->
  (forall t, jenabled v c t = false) ->
  (exists t th, nth_error (jthreads c) t = Some th /\ j_pc th = QInCaller /\
                jop_gated (j_op th) = true /\ mem_nat t (jgates c) = false) \/
  (exists t th, nth_error (jthreads c) t = Some th /\ (j_pc th = QFulWait \/ j_pc th = QRelWait)) \/
  (forall t th, nth_error (jthreads c) t = Some th -> j_pc th <> QDone ->
                exists r, p_caller (getp c r) = true).
Proof.
  intros v np ops c Hv1 Hv2 Ho Hr Hdis.
  (* is some thread inside a PipelineCaller / waiting for a hook? (decidable: search the thread list) *)
  assert (Hdec : forall (f : jthread -> bool),
            (exists t th, nth_error (jthreads c) t = Some th /\ f th = true) \/
            (forall t th, nth_error (jthreads c) t = Some th -> f th = false)).
  { intros f. destruct (Z_lt_dec 0 (jcount f (jthreads c))) as [Hp|Hz].
    - left. exact (jcount_pos _ _ Hp).
    - right. intros t th Hth. destruct (f th) eqn:E; auto. exfalso. apply Hz. exact (jcount_mem _ _ _ _ Hth E). }
  destruct (Hdec (fun th => match j_pc th with QInCaller => true | _ => false end)) as [[t [th [Hth Hf]]]|Hng].
  { left. exists t, th. destruct (j_pc th) eqn:Hpc; try discriminate Hf.
    assert (Hs : jstep_thread v c t th = None).
    { specialize (Hdis t). unfold jenabled, jstep in Hdis. rewrite Hth in Hdis.
      destruct (jstep_thread v c t th); [discriminate|reflexivity]. }
    unfold jstep_thread in Hs. rewrite Hpc in Hs.
    destruct (negb (jop_gated (j_op th)) || mem_nat t (jgates c)) eqn:E; [discriminate|].
    apply orb_false_iff in E. destruct E as [E1 E2]. apply negb_false_iff in E1. auto. }
  destruct (Hdec (fun th => match j_pc th with QFulWait | QRelWait => true | _ => false end)) as [[t [th [Hth Hf]]]|Hnh].
  { right. left. exists t, th. split; [exact Hth|]. destruct (j_pc th); try discriminate Hf; auto. }
  right. right. intros t th Hth Hnd.
  apply (unfinished_waits_for_unresolved v np ops c Hv1 Hv2 Ho Hr Hdis) with (t := t) (th := th); auto.
  - intros t0 th0 H0 Hpc. specialize (Hng t0 th0 H0). simpl in Hng. rewrite Hpc in Hng. discriminate.
  - intros t0 th0 H0. specialize (Hnh t0 th0 H0). simpl in Hnh. split; intros Hpc; rewrite Hpc in Hnh; discriminate.
Qed.

(* waiters_released on chains (same preconditions): at rest, with no call held by the application, no hook wait,
   and every promise asked to resolve or joined (no promise with its caller still set), every operation has
   finished: every Done/Struct waiter, ReleaseClients call, Client() and pipelined call on the chain was released *)
Theorem join_waiters_released_partial : forall v np ops c,
  jv_close_joined v = true -> jv_alloc_table v = true -> join_ordered ops -> jreach v np ops c ->
  (forall t, jenabled v c t = false) ->
  (forall t th, nth_error (jthreads c) t = Some th -> j_pc th = QInCaller ->
                jop_gated (j_op th) = true -> mem_nat t (jgates c) = true) ->
  (forall t th, nth_error (jthreads c) t = Some th -> j_pc th <> QFulWait /\ j_pc th <> QRelWait) ->
  (forall k, p_caller (getp c k) = false) ->
  forall t th, nth_error (jthreads c) t = Some th -> j_pc th = QDone.
Proof.
  intros v np ops c Hv1 Hv2 Ho Hr Hdis Hgate Hhook Hall t th Hth.
  destruct (join_no_stuck_partial v np ops c Hv1 Hv2 Ho Hr Hdis) as [[t1 [th1 [H1 [P1 [G1 M1]]]]]|[[t1 [th1 [H1 P1]]]|H]].
  - rewrite (Hgate t1 th1 H1 P1 G1) in M1. discriminate.
  - destruct (Hhook t1 th1 H1). destruct P1; contradiction.
  - destruct (j_pc th) eqn:Hpc; auto;
      (destruct (H t th Hth ltac:(congruence)) as [r Hc]; rewrite Hall in Hc; discriminate).
Qed.
