(* Liveness invariants of the model with Join, per promise (the clauses N1-N6 of PromiseLive.v indexed by the
   promise), over all operation lists and interleavings. *)
From CV Require Import Promise.Promise Promise.PromiseProofs Promise.PromiseJoin Promise.PromiseJoinThms
  Promise.PromiseJoinInv Promise.PromiseJoinRefs Promise.PromiseJoinDest Promise.PromiseJoinChain.
Open Scope Z_scope.

Lemma ongoing_close_sigs : forall sigs c k, p_ongoing (getp (close_sigs c sigs) k) = p_ongoing (getp c k).
Proof. intros. destruct (getp_close_sigs sigs c k) as [H|H]; rewrite H; reflexivity. Qed.
Lemma stopped_close_sigs : forall sigs c k, p_stopped (getp (close_sigs c sigs) k) = p_stopped (getp c k).
Proof. intros. destruct (getp_close_sigs sigs c k) as [H|H]; rewrite H; reflexivity. Qed.
Lemma ongoing_close_joined : forall p, p_ongoing (close_joined p) = p_ongoing p.
Proof. intros. unfold close_joined. destruct (p_joined p); reflexivity. Qed.
Lemma stopped_close_joined : forall p, p_stopped (close_joined p) = p_stopped p.
Proof. intros. unfold close_joined. destruct (p_joined p); reflexivity. Qed.

(* threads inside the PipelineCaller of promise k *)
Definition jin_caller (k : nat) (th : jthread) : bool :=
  match j_pc th with QInCaller | QRelock => Nat.eqb (j_cur th) k | _ => false end.

(* C1: ongoingCalls of every promise counts the threads inside its PipelineCaller;
   C2: callsStopped is open only while there are such threads and caller is nil *)
Record JC1 (c : jconfig) : Prop := {
  C_ongoing : forall k, p_ongoing (getp c k) = jcount (jin_caller k) (jthreads c);
  C_stopped : forall k, p_stopped (getp c k) = COpen -> 0 < p_ongoing (getp c k) /\ p_caller (getp c k) = false
}.


Lemma JC1_step : forall v c t c', JR c -> JC1 c -> jstep v c t = Some c' -> JC1 c'.
Proof.
  intros v c t c' HR HC Hs.
  jleaves v Hs Hth.
  all: own_phase HR Hth.
  all: goal_matches.
  all: norm_negb.
  all: constructor; intros k0; pose proof (C_ongoing c HC k0) as Ho; pose proof (C_stopped c HC k0) as Hst.
  (* ongoing *)
  all: try (thr_simp Hth; rewrite <- Ho;
            repeat progress (autorewrite with getp_simp; rewrite ?ongoing_close_sigs);
            unfold jin_caller; cbn [j_pc j_cur jgoto jfinish sj_pc sj_cur sj_par sj_path sj_via sj_rest sj_waitx sj_res sj_out];
            repeat match goal with H : j_pc _ = _ |- _ => rewrite H end;
            eqb_all; simpl; rewrite ?ongoing_close_joined; simpl; try lia;
            repeat match goal with |- context [match j_via ?th with _ => _ end] => destruct (j_via th) end;
            simpl; repeat match goal with H : j_pc _ = _ |- _ => rewrite H end; eqb_all; simpl; lia).
  (* callsStopped *)
  all: repeat progress (autorewrite with getp_simp; rewrite ?stopped_close_sigs, ?ongoing_close_sigs, ?caller_close_sigs).
  all: eqb_all; simpl; rewrite ?stopped_close_joined, ?ongoing_close_joined, ?caller_close_joined; simpl.
  all: try exact Hst.
  all: intros Hs'; try discriminate Hs'.
  all: repeat match goal with
              | H : context [match p_stopped ?p with _ => _ end] |- _ => destruct (p_stopped p) eqn:?
              | H : context [if ?b then _ else _] |- _ => destruct b eqn:?
              end; try discriminate.
  all: repeat match goal with
              | H : (_ <? _) = true |- _ => apply Z.ltb_lt in H
              | H : (_ <? _) = false |- _ => apply Z.ltb_ge in H
              | H : (_ =? _) = true |- _ => apply Z.eqb_eq in H
              | H : (_ =? _) = false |- _ => apply Z.eqb_neq in H
              end.
  all: try (destruct (Hst ltac:(first [assumption|reflexivity])) as [Hp Hcf]; split; [lia|first [exact Hcf|reflexivity|congruence]]; fail).
  all: repeat match goal with H : context [getp (jlog _ _) _] |- _ =>
                autorewrite with getp_simp in H; rewrite ?Nat.eqb_refl in H; simpl in H end.
  all: try (split; [lia|first [reflexivity|assumption]]).
  all: try (exfalso; destruct (Hst ltac:(first [assumption|reflexivity])) as [Hp Hcf]; congruence).
  all: specialize (Hpre eq_refl); destruct Hpre as [Hinb _]; pose proof (begin_not_caller c _ _ HR Hinb); split; [lia|assumption].
Qed.

Lemma JC1_reach : forall v np ops c, jreach v np ops c -> JC1 c.
Proof.
  intros v np ops c H. induction H as [|c t c' Hr IH Hs].
  - constructor; intros k.
    + simpl. rewrite jcount_init by reflexivity. destruct (getp_init np ops k) as [E|E]; rewrite E; reflexivity.
    + destruct (getp_init np ops k) as [E|E]; rewrite E; discriminate.
  - exact (JC1_step v c t c' (JR_reach v np ops c Hr) IH Hs).
Qed.

(* ---- E4: while a promise is neither unresolved, nor joined, nor resolved, exactly one thread is working on it
   (between "caller := nil" and the final block of resolve / the end of Join) *)
Definition jphase (k : nat) (th : jthread) : bool := jpre th k || jpost th k.

Definition act (p : prom) : bool :=
  negb (p_caller p) && negb (p_is_joined p) && negb (no_signals p).

Definition JE4 (c : jconfig) : Prop := forall k, jcount (jphase k) (jthreads c) = (if act (getp c k) then 1 else 0).

Lemma act_close_sigs : forall sigs c k, act (getp (close_sigs c sigs) k) = act (getp c k).
Proof. intros. destruct (getp_close_sigs sigs c k) as [H|H]; rewrite H; reflexivity. Qed.

Lemma JE4_step : forall v c t c', JR c -> JS c -> JZ c -> JE4 c -> jstep v c t = Some c' -> JE4 c'.
Proof.
  intros v c t c' HR HS HZ HE Hs.
  jleaves v Hs Hth.
  all: assert (Hact : jphase (j_cur th) th = true -> act (getp c (j_cur th)) = true)
         by (intros Hp; pose proof (jcount_mem _ _ _ _ Hth Hp) as Hpos; rewrite (HE (j_cur th)) in Hpos;
             destruct (act (getp c (j_cur th))); [reflexivity|lia]);
       unfold jphase, jpre, jpost in Hact;
       repeat match goal with H : j_pc _ = _ |- _ => rewrite H in Hact end; rewrite ?Nat.eqb_refl in Hact; simpl in Hact.
  all: own_phase HR Hth.
  all: pose proof (S_thr c HS t th (j_cur th) Hth) as Hsig; unfold jpre, jpost in Hsig;
       repeat match goal with H : j_pc _ = _ |- _ => rewrite H in Hsig end; rewrite ?Nat.eqb_refl in Hsig.
  all: goal_matches.
  all: norm_negb.
  all: try (specialize (Hpre eq_refl); destruct Hpre as [Hinb Hrn]; pose proof (begin_not_caller c _ _ HR Hinb) as Hcf).
  all: try (specialize (Hpost eq_refl); destruct Hpost as [Hinb Hrs]; pose proof (begin_not_caller c _ _ HR Hinb) as Hcf).
  all: intros k0; pose proof (HE k0) as H0.
  all: thr_simp Hth; rewrite H0.
  all: repeat progress (autorewrite with getp_simp; rewrite ?act_close_sigs).
  all: unfold jphase, jpre, jpost;
       cbn [j_pc j_cur jgoto jfinish sj_pc sj_cur sj_par sj_path sj_via sj_rest sj_waitx sj_res sj_out];
       repeat match goal with H : j_pc _ = _ |- _ => rewrite H end; simpl.
  all: repeat match goal with |- context [match j_via ?th with _ => _ end] => destruct (j_via th) end; simpl;
       repeat match goal with H : j_pc _ = _ |- _ => rewrite H end; simpl.
  all: eqb_all; simpl; try lia.
  all: try (specialize (Hact eq_refl)).
  all: repeat match goal with
              | H : p_caller (getp ?cc ?k) = true |- _ =>
                lazymatch goal with
                | _ : p_next (getp cc k) = None |- _ => fail
                | _ => pose proof (proj1 (HZ k) H); pose proof (S_unres cc HS k H)
                end
              end.
  all: unfold has_sig in *.
  all: unfold act, p_is_joined, no_signals in *; simpl;
       rewrite ?caller_close_joined, ?next_close_joined', ?signals_close_joined; simpl.
  all: repeat match goal with
              | H : p_caller _ = _ |- _ => rewrite H in *
              | H : p_next _ = _ |- _ => rewrite H in *
              end; simpl in *.
  all: repeat match goal with
              | |- context [p_caller ?p] => destruct (p_caller p) eqn:?
              | |- context [p_next ?p] => destruct (p_next p) eqn:?
              | |- context [match p_signals ?p with _ => _ end] => destruct (p_signals p) eqn:?
              end; simpl in *; try lia; try congruence.
Qed.

Lemma JE4_reach : forall v np ops c, jv_alloc_table v = true -> jreach v np ops c -> JE4 c.
Proof.
  intros v np ops c Hv H. induction H as [|c t c' Hr IH Hs].
  - intros k. simpl. rewrite jcount_init by reflexivity.
    destruct (getp_init np ops k) as [E|E]; rewrite E; reflexivity.
  - exact (JE4_step v c t c' (JR_reach v np ops c Hr) (JS_reach v np ops c Hr) (JZ_reach v np ops c Hv Hr) IH Hs).
Qed.

(* ---- the channels of a promise and the thread working on it *)
Definition tchan (c : jconfig) (th : jthread) : Prop :=
  let p := getp c (j_cur th) in
  match j_pc th with
  | QStopWait => p_stopped p <> CNil /\ p_known p = COpen
  | QKnown => p_known p = COpen
  | QJStopWait => p_stopped p <> CNil /\ p_known p <> COpen
  | QFul | QFulWait | QClose => p_known p <> COpen /\ p_joined p <> COpen
  | QJRelock | QJPar | QJWaitRes | QJWaitJ | QJLockP => p_known p <> COpen
  | _ => True
  end.

Record JT (c : jconfig) : Prop := {
  T_thr : forall t th, nth_error (jthreads c) t = Some th -> tchan c th;
  T_known : forall k, p_known (getp c k) = COpen -> act (getp c k) = true;
  T_joined : forall k, p_joined (getp c k) = COpen -> act (getp c k) = true
}.

Lemma tchan_close : forall sigs c th, tchan c th -> tchan (close_sigs c sigs) th.
Proof.
  intros sigs c th H. unfold tchan in *.
  destruct (getp_close_sigs sigs c (j_cur th)) as [E|E]; rewrite E; destruct (j_pc th); exact H.
Qed.

Lemma joined_close_joined : forall p, p_joined (close_joined p) <> COpen.
Proof. intros. unfold close_joined. destruct (p_joined p) eqn:E; simpl; congruence. Qed.

Lemma JT_step : forall v c t c', jv_close_joined v = true -> JR c -> JS c -> JZ c -> JE4 c -> JT c ->
  jstep v c t = Some c' -> JT c'.
Proof.
  intros v c t c' Hv HR HS HZ HE HT Hs.
  unfold jstep in Hs. destruct (nth_error (jthreads c) t) as [th|] eqn:Hth; [|discriminate].
  assert (Hact : jphase (j_cur th) th = true -> act (getp c (j_cur th)) = true)
    by (intros Hp; pose proof (jcount_mem _ _ _ _ Hth Hp) as Hpos; rewrite (HE (j_cur th)) in Hpos;
        destruct (act (getp c (j_cur th))); [reflexivity|lia]).
  junfold Hs. jexplode Hs; inversion Hs; subst; clear Hs.
  all: unfold resolve_entry, do_known, do_final; rewrite ?Hv; free_facts.
  all: own_phase HR Hth.
  all: unfold jphase, jpre, jpost in Hact;
       repeat match goal with H : j_pc _ = _ |- _ => rewrite H in Hact end; rewrite ?Nat.eqb_refl in Hact; simpl in Hact.
  all: pose proof (T_thr c HT t th Hth) as Hown; unfold tchan in Hown;
       repeat match goal with H : j_pc _ = _ |- _ => rewrite H in Hown end.
  all: goal_matches.
  all: norm_negb.
  all: try (specialize (Hpre eq_refl); destruct Hpre as [Hinb Hrn]; pose proof (begin_not_caller c _ _ HR Hinb) as Hcf).
  all: try (specialize (Hpost eq_refl); destruct Hpost as [Hinb Hrs]; pose proof (begin_not_caller c _ _ HR Hinb) as Hcf).
  all: constructor.
  (* threads *)
  all: try (intros t0 th0 H0; simpl in H0; rewrite ?close_sigs_threads in H0; simpl in H0;
            destruct (jupd_nth_cases _ _ _ _ _ _ Hth H0) as [[-> ->]|[Hne H0']]; clear H0;
            [ idtac
            | pose proof (T_thr c HT t0 th0 H0') as Hold;
              repeat progress (autorewrite with getp_simp); try apply tchan_close; repeat progress (autorewrite with getp_simp);
              unfold tchan in *; repeat progress (autorewrite with getp_simp); eqb_all; try exact Hold ]).
  (* another thread on the promise the stepping thread works on: impossible (one worker per promise) *)
  all: try (destruct (j_pc th0) eqn:Hp0; simpl; try exact I; try tauto;
            exfalso;
            assert (Hin0 : In (JEBegin t0 (j_cur th0)) (jevents c)) by
              (first [ apply (proj1 (R_pre c HR t0 th0 (j_cur th0) H0' ltac:(unfold jpre; rewrite Hp0, Nat.eqb_refl; reflexivity)))
                     | apply (proj1 (R_post c HR t0 th0 (j_cur th0) H0' ltac:(unfold jpost; rewrite Hp0, Nat.eqb_refl; reflexivity))) ]);
            first [ (pose proof (begin_not_caller c _ _ HR Hin0); congruence)
                  | (apply Hne; symmetry; eapply (begin_unique c); eauto; congruence)
                  | (replace (j_cur th0) with (j_cur th) in Hin0 by congruence;
                     apply Hne; symmetry; eapply (begin_unique c); eauto) ]; fail).
  (* the stepping thread's own clause *)
  all: try (unfold tchan;
            cbn [j_pc j_cur jgoto jfinish sj_pc sj_cur sj_par sj_path sj_via sj_rest sj_waitx sj_res sj_out];
            repeat match goal with H : j_pc _ = _ |- _ => rewrite H end;
            repeat match goal with |- context [match j_via ?th with _ => _ end] => destruct (j_via th) end; simpl;
            repeat match goal with H : j_pc _ = _ |- _ => rewrite H end;
            repeat progress (autorewrite with getp_simp; rewrite ?known_close_sigs, ?stopped_close_sigs, ?joined_close_sigs);
            rewrite ?Nat.eqb_refl; eqb_all; simpl;
            rewrite ?known_close_joined, ?stopped_close_joined; simpl;
            first [ exact I | tauto
                  | (repeat split; try discriminate; try reflexivity; try tauto; try apply joined_close_joined; congruence) ]; fail).
  (* Join's first section: the promise was unresolved, so its pendingDone is not open *)
  all: try (unfold tchan; simpl; repeat progress (autorewrite with getp_simp); rewrite ?Nat.eqb_refl; simpl;
            repeat split; try discriminate;
            intros Hk; match goal with H : p_caller (getp ?cc ?k) = true |- _ =>
              pose proof (T_known cc HT k Hk) as A; unfold act in A; rewrite H in A; discriminate A end; fail).
  (* pendingDone / joined open => the promise is being worked on *)
  all: try (intros k0 Hk; revert Hk;
            repeat progress (autorewrite with getp_simp; rewrite ?known_close_sigs, ?joined_close_sigs, ?act_close_sigs);
            eqb_all; simpl; rewrite ?known_close_joined; simpl; intros Hk; try discriminate Hk;
            try (exfalso; exact (joined_close_joined _ Hk));
            first [ exact (T_known c HT _ Hk) | exact (T_joined c HT _ Hk) | idtac ]).
  (* callsStopped changed by a call that returned from the PipelineCaller *)
  all: try (destruct (j_pc th0) eqn:Hp0; simpl in *;
            repeat match goal with H : p_stopped _ = _ |- _ => rewrite H in * end;
            intuition (try congruence; try discriminate); fail).
  (* act of the record just written *)
  all: try (specialize (Hact eq_refl)).
  all: repeat match goal with
              | H : p_caller (getp ?cc ?k) = true |- _ =>
                lazymatch goal with
                | _ : p_next (getp cc k) = None |- _ => fail
                | _ => pose proof (proj1 (HZ k) H); pose proof (S_unres cc HS k H)
                end
              end.
  all: unfold has_sig in *.
  all: unfold act, p_is_joined, no_signals in *; simpl;
       rewrite ?caller_close_joined, ?next_close_joined', ?signals_close_joined; simpl.
  all: repeat match goal with
              | H : p_caller _ = _ |- _ => rewrite H in *
              | H : p_next _ = _ |- _ => rewrite H in *
              end; simpl in *.
  all: repeat match goal with
              | |- context [p_caller ?p] => destruct (p_caller p) eqn:?
              | |- context [p_next ?p] => destruct (p_next p) eqn:?
              | |- context [match p_signals ?p with _ => _ end] => destruct (p_signals p) eqn:?
              end; simpl in *; try reflexivity; try congruence.
  all: exfalso;
       first [ pose proof (T_known c HT _ Hk) as A | pose proof (T_joined c HT _ Hk) as A ];
       unfold act in A;
       repeat match goal with H : p_caller _ = _ |- _ => rewrite H in A end; simpl in A; discriminate A.
Qed.

Lemma JT_reach : forall v np ops c, jv_close_joined v = true -> jv_alloc_table v = true -> jreach v np ops c -> JT c.
Proof.
  intros v np ops c Hv1 Hv2 H. induction H as [|c t c' Hr IH Hs].
  - constructor.
    + intros t th H. simpl in H. rewrite nth_error_map in H. destruct (nth_error ops t); inversion H; subst. exact I.
    + intros k Hk. destruct (getp_init np ops k) as [E|E]; rewrite E in Hk; discriminate.
    + intros k Hk. destruct (getp_init np ops k) as [E|E]; rewrite E in Hk; discriminate.
  - exact (JT_step v c t c' Hv1 (JR_reach v np ops c Hr) (JS_reach v np ops c Hr) (JZ_reach v np ops c Hv2 Hr)
                   (JE4_reach v np ops c Hv2 Hr) IH Hs).
Qed.

(* ---- E3: an unclosed resolved channel is in the signals of a promise of lower or equal index *)
Lemma jmem_in : forall x l, mem_nat x l = true <-> In x l.
Proof.
  induction l as [|a l IH]; simpl; [split; [discriminate|tauto]|].
  rewrite orb_true_iff, IH, Nat.eqb_eq. split; intros [H|H]; auto.
Qed.

Lemma resclosed_close_sigs : forall sigs c k,
  p_resclosed (getp (close_sigs c sigs) k) = if mem_nat k sigs then true else p_resclosed (getp c k).
Proof.
  induction sigs as [|s sigs IH]; intros c k; simpl; [reflexivity|].
  rewrite IH, getp_setp. destruct (Nat.eqb_spec k s); subst.
  - rewrite Nat.eqb_refl. simpl. destruct (mem_nat s sigs); reflexivity.
  - destruct (Nat.eqb_spec s k); [congruence|]. simpl. reflexivity.
Qed.

Lemma resclosed_close_joined : forall p, p_resclosed (close_joined p) = p_resclosed p.
Proof. intros. unfold close_joined. destruct (p_joined p); reflexivity. Qed.

Definition JE3 (c : jconfig) : Prop :=
  forall k, p_resclosed (getp c k) = false -> exists r, (r <= k)%nat /\ In k (p_signals (getp c r)).

Lemma JE3_step : forall v c t c',
  (forall t th, nth_error (jthreads c) t = Some th -> j_pc th = QJPar -> (j_par th < j_cur th)%nat) ->
  JE3 c -> jstep v c t = Some c' -> JE3 c'.
Proof.
  intros v c t c' HF HE Hs.
  jleaves v Hs Hth.
  all: pose proof (HF t th Hth) as Hlt.
  all: goal_matches.
  all: norm_negb.
  all: intros k0 Hrc; revert Hrc.
  all: repeat progress (autorewrite with getp_simp; rewrite ?resclosed_close_sigs).
  all: eqb_all; simpl; rewrite ?resclosed_close_joined; simpl.
  all: repeat match goal with |- context [mem_nat ?a ?b] => destruct (mem_nat a b) eqn:? end; intros Hrc; try discriminate Hrc.
  all: destruct (HE _ Hrc) as [r [Hle Hin]].
  (* same holder *)
  all: try (exists r; split; [exact Hle|];
            repeat progress (autorewrite with getp_simp; rewrite ?signals_close_sigs);
            eqb_all; simpl; rewrite ?signals_close_joined; simpl;
            first [ exact Hin | (apply in_or_app; left; exact Hin)
                  | (exfalso; apply jmem_in in Hin;
                     repeat match goal with H : mem_nat _ _ = false |- _ =>
                       autorewrite with getp_simp in H; rewrite ?Nat.eqb_refl in H; simpl in H;
                       rewrite ?signals_close_joined in H; simpl in H end; congruence) ]; fail).
  (* the holder was joined: its signals moved to the promise it joined *)
  all: try (exists (j_par th); specialize (Hlt ltac:(assumption)); split;
            [ repeat progress (autorewrite with getp_simp in Hin);
              match type of Hin with In _ (p_signals (getp _ ?r0)) => assert (r0 = j_cur th) by congruence end; lia
            | repeat progress (autorewrite with getp_simp; rewrite ?signals_close_sigs);
              eqb_all; simpl; rewrite ?signals_close_joined; simpl; apply in_or_app; right; congruence ]; fail).
  all: specialize (Hlt Heqj);
       destruct (Nat.eq_dec r (j_cur th)) as [->|Hr1];
       [ exists (j_par th); split; [lia|];
         repeat progress (autorewrite with getp_simp; rewrite ?signals_close_sigs);
         eqb_all; simpl; rewrite ?signals_close_joined; simpl; apply in_or_app; right; exact Hin
       | exists r; split; [exact Hle|];
         repeat progress (autorewrite with getp_simp; rewrite ?signals_close_sigs);
         eqb_all; simpl; rewrite ?signals_close_joined; simpl;
         first [ exact Hin | (apply in_or_app; left; exact Hin) | congruence ] ].
Qed.
