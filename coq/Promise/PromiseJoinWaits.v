(* no_stuck / waiters_released on chains with the unresolved promise TIED to the blocked thread: an unfinished
   operation at rest waits on a channel of a promise k, and k depends (along next edges and Joins in progress) on a
   promise r that nobody has asked to resolve. *)
From CV Require Import Promise.Promise Promise.PromiseProofs Promise.PromiseJoin Promise.PromiseJoinThms
  Promise.PromiseJoinInv Promise.PromiseJoinRefs Promise.PromiseJoinDest Promise.PromiseJoinChain
  Promise.PromiseJoinForest Promise.PromiseJoinLive Promise.PromiseJoinStuck Promise.PromiseJoinHook
  Promise.PromiseJoinPath Promise.PromiseJoinHookStuck Promise.PromiseJoinLands.
Open Scope Z_scope.

(* the promise whose channel a thread is blocked on: resolved_k (Struct / ReleaseClients / Client() / Join),
   joined_k (a traversal or a Join that found k pending join), pendingDone_k (a call that found k pending) *)
Definition waited (th : jthread) : option nat :=
  match j_pc th with
  | QStart => match j_op th with JRelease k | JWait k => Some k | _ => None end
  | QWaitJ | QWaitKnown | QWaitRes => Some (j_cur th)
  | QJWaitRes | QJWaitJ => Some (j_par th)
  | _ => None
  end.

(* k's outcome depends on r: r is k, or k was joined onto a promise that depends on r, or a Join of k is in progress
   onto a promise that depends on r *)
Inductive waits_on (c : jconfig) : nat -> nat -> Prop :=
| wo_here : forall k, waits_on c k k
| wo_next : forall k q r, p_next (getp c k) = Some q -> waits_on c q r -> waits_on c k r
| wo_join : forall k t th r, nth_error (jthreads c) t = Some th -> jjoin_pc (j_pc th) = true -> j_cur th = k ->
              waits_on c (j_par th) r -> waits_on c k r.

Lemma waits_on_nreach : forall c k q r, nreach c k q -> waits_on c q r -> waits_on c k r.
Proof. intros c k q r H W. induction H; [exact W|eapply wo_next; eauto]. Qed.

Definition dep (c : jconfig) (k : nat) : Prop := exists r, waits_on c k r /\ p_caller (getp c r) = true.

Section Stuck2.
  Variable v : jvariant.
  Variable np : nat.
  Variable ops : list jop.
  Variable c : jconfig.
  Hypothesis Hv1 : jv_close_joined v = true.
  Hypothesis Hv2 : jv_alloc_table v = true.
  Hypothesis Hord : join_ordered ops.
  Hypothesis Hr : jreach v np ops c.
  Hypothesis Hdis : forall t, jenabled v c t = false.
  Hypothesis Hnogate : forall t th, nth_error (jthreads c) t = Some th -> j_pc th <> QInCaller.

  Lemma nohook : forall t th, nth_error (jthreads c) t = Some th -> j_pc th <> QFulWait /\ j_pc th <> QRelWait.
  Proof.
    intros t th Hth. split.
    - exact (join_fulfil_never_waits_for_hook v np ops c Hv1 Hv2 Hord Hr Hdis Hnogate t th Hth).
    - exact (join_release_never_waits_for_hook v np ops c Hv2 Hr t th Hth).
  Qed.

  Let cls := classify v np ops c Hv2 Hord Hr Hdis Hnogate nohook.
  Let nrun := not_runnable v np ops c Hv2 Hord Hr Hdis Hnogate nohook.
  Let nstop := no_stopwait v np ops c Hv1 Hv2 Hord Hr Hdis Hnogate nohook.

  Lemma join_thread_dep : forall t th k',
    nth_error (jthreads c) t = Some th -> jpre th k' = true ->
    (forall m, (m < k')%nat -> (p_joined (getp c m) = COpen -> dep c m) /\ (p_resclosed (getp c m) = false -> dep c m)) ->
    dep c k'.
  Proof.
    intros t th k' Hth Hp IH.
    pose proof (nrun t th Hth) as N. destruct (nstop t th Hth) as [S1 S2].
    destruct (join_forest v np ops c Hord Hr) as [_ Hf].
    assert (Hj : forall m, dep c m -> j_par th = m -> jjoin_pc (j_pc th) = true -> j_cur th = k' -> dep c k').
    { intros m [r [W Hc]] Em Hjp Hcur. subst m. exists r. split; [|exact Hc]. exact (wo_join c k' t th r Hth Hjp Hcur W). }
    unfold jpre in Hp.
    destruct (j_pc th) eqn:Hpc; try discriminate Hp; try contradiction; try congruence;
      apply Nat.eqb_eq in Hp;
      assert (Hlt : (j_par th < k')%nat) by (rewrite <- Hp; apply (Hf t th Hth); rewrite Hpc; reflexivity);
      destruct (cls t th Hth) as [H|H]; try congruence; unfold wait_kind in H;
      destruct H as [[H _]|[[H _]|[[H _]|[[H _]|[[[H|H] _]|[[H H']|[H H']]]]]]]; try congruence.
    - exact (Hj _ (proj2 (IH _ Hlt) H') eq_refl eq_refl Hp).
    - exact (Hj _ (proj1 (IH _ Hlt) H') eq_refl eq_refl Hp).
  Qed.

  Lemma waits_dep : forall k,
    (p_joined (getp c k) = COpen -> dep c k) /\ (p_resclosed (getp c k) = false -> dep c k).
  Proof.
    induction k as [k IH] using lt_wf_ind.
    pose proof (JT_reach v np ops c Hv1 Hv2 Hr) as HT.
    split.
    - intros Hj. destruct (phase_thread v np ops c Hv2 Hr k (T_joined c HT k Hj)) as [t [th [Hth Hp]]].
      unfold jphase in Hp. apply orb_true_iff in Hp. destruct Hp as [Hp|Hp].
      + exact (join_thread_dep t th k Hth Hp IH).
      + exfalso. pose proof (T_thr c HT t th Hth) as T. unfold tchan in T. unfold jpost in Hp.
        destruct (j_pc th); try discriminate Hp; apply Nat.eqb_eq in Hp; rewrite Hp in T; destruct T; congruence.
    - intros Hrc. pose proof (JE3_reach v np ops c Hord Hr) as HE3.
      destruct (HE3 k Hrc) as [r [Hle Hin]].
      pose proof (SGR_reach v np ops c Hv2 Hr r k Hin) as Hnr.
      destruct (p_caller (getp c r)) eqn:Ec.
      { exists r. split; [exact (waits_on_nreach c k r r Hnr (wo_here c r))|exact Ec]. }
      pose proof (JZ_reach v np ops c Hv2 Hr r) as [_ Z2].
      assert (Hn : p_next (getp c r) = None).
      { destruct (p_next (getp c r)) eqn:En; auto. destruct (Z2 ltac:(congruence)) as [_ [_ Hs]]. rewrite Hs in Hin. destruct Hin. }
      assert (Ha : act (getp c r) = true).
      { unfold act, p_is_joined, no_signals. rewrite Ec, Hn. destruct (p_signals (getp c r)); [destruct Hin|reflexivity]. }
      destruct (phase_thread v np ops c Hv2 Hr r Ha) as [t [th [Hth Hp]]].
      unfold jphase in Hp. apply orb_true_iff in Hp. destruct Hp as [Hp|Hp].
      + assert (D : dep c r) by (apply (join_thread_dep t th r Hth Hp); intros m Hm; apply IH; lia).
        destruct D as [x [W Hc]]. exists x. split; [exact (waits_on_nreach c k r x Hnr W)|exact Hc].
      + exfalso. pose proof (nrun t th Hth) as N. unfold jpost in Hp.
        destruct (j_pc th); try discriminate Hp; exact N.
  Qed.

  Lemma unfinished_waits : forall t th,
    nth_error (jthreads c) t = Some th -> j_pc th <> QDone ->
    exists k, waited th = Some k /\ dep c k.
  Proof.
    intros t th Hth Hnd.
    pose proof (JT_reach v np ops c Hv1 Hv2 Hr) as HT.
    destruct (cls t th Hth) as [H|H]; [contradiction|]. unfold wait_kind in H. unfold waited.
    destruct H as [[P [k [O H]]]|[[P H]|[[P H]|[[P H]|[[H _]|[[P H]|[P H]]]]]]]; try rewrite P.
    - exists k. split; [destruct O as [O|O]; rewrite O; reflexivity|exact (proj2 (waits_dep k) H)].
    - eexists. split; [reflexivity|exact (proj1 (waits_dep _) H)].
    - exfalso. destruct (phase_thread v np ops c Hv2 Hr _ (T_known c HT _ H)) as [t1 [th1 [Hth1 Hp]]].
      pose proof (T_thr c HT t1 th1 Hth1) as T. unfold tchan in T.
      pose proof (nrun t1 th1 Hth1) as N. destruct (nstop t1 th1 Hth1) as [S1 S2].
      unfold jphase, jpre, jpost in Hp.
      destruct (j_pc th1); simpl in Hp; try discriminate Hp; try contradiction; try congruence;
        rewrite orb_false_r in Hp || rewrite orb_false_l in Hp || idtac;
        try (apply Nat.eqb_eq in Hp; rewrite Hp in T; first [destruct T; congruence | congruence]).
    - eexists. split; [reflexivity|exact (proj2 (waits_dep _) H)].
    - exfalso. destruct (nstop t th Hth). destruct H; contradiction.
    - eexists. split; [reflexivity|exact (proj2 (waits_dep _) H)].
    - eexists. split; [reflexivity|exact (proj1 (waits_dep _) H)].
  Qed.
End Stuck2.

(* no_stuck on chains.  If no thread can take a step then the application holds a call inside a PipelineCaller (gated,
   not released), or every unfinished operation is blocked on a channel of a promise k (waited) and k depends - along
   next edges and Joins in progress - on a promise r that nobody has asked to resolve (its caller is still set) *)
Theorem join_no_stuck_tied : forall v np ops c,
  jv_close_joined v = true -> jv_alloc_table v = true -> join_ordered ops -> jreach v np ops c ->
  (forall t, jenabled v c t = false) ->
  (exists t th, nth_error (jthreads c) t = Some th /\ j_pc th = QInCaller /\
                jop_gated (j_op th) = true /\ mem_nat t (jgates c) = false) \/
  (forall t th, nth_error (jthreads c) t = Some th -> j_pc th <> QDone ->
     exists k r, waited th = Some k /\ waits_on c k r /\ p_caller (getp c r) = true).
Proof.
  intros v np ops c Hv1 Hv2 Ho Hr Hdis.
  set (f := fun th => match j_pc th with QInCaller => true | _ => false end).
  destruct (Z_lt_dec 0 (jcount f (jthreads c))) as [Hp|Hz].
  - left. destruct (jcount_pos _ _ Hp) as [t1 [th1 [Hth1 Hf]]]. exists t1, th1. unfold f in Hf.
    destruct (j_pc th1) eqn:Hpc1; try discriminate Hf.
    assert (Hs : jstep_thread v c t1 th1 = None).
    { specialize (Hdis t1). unfold jenabled, jstep in Hdis. rewrite Hth1 in Hdis.
      destruct (jstep_thread v c t1 th1); [discriminate|reflexivity]. }
    unfold jstep_thread in Hs. rewrite Hpc1 in Hs.
    destruct (negb (jop_gated (j_op th1)) || mem_nat t1 (jgates c)) eqn:E; [discriminate|].
    apply orb_false_iff in E. destruct E as [E1 E2]. apply negb_false_iff in E1. auto.
  - right. intros t th Hth Hnd.
    assert (Hng : forall t0 th0, nth_error (jthreads c) t0 = Some th0 -> j_pc th0 <> QInCaller).
    { intros t0 th0 H0 Hpc0. apply Hz. apply (jcount_mem _ _ _ _ H0). unfold f. rewrite Hpc0. reflexivity. }
    destruct (unfinished_waits v np ops c Hv1 Hv2 Ho Hr Hdis Hng t th Hth Hnd) as [k [Hw [r [W Hc]]]].
    exists k, r. auto.
Qed.

(* waiters_released on chains, per chain: at rest, with no call held by the application, an operation whose promise
   depends only on promises that were asked to resolve (or joined) has finished *)
Theorem join_waiters_released_tied : forall v np ops c,
  jv_close_joined v = true -> jv_alloc_table v = true -> join_ordered ops -> jreach v np ops c ->
  (forall t, jenabled v c t = false) ->
  (forall t th, nth_error (jthreads c) t = Some th -> j_pc th = QInCaller ->
                jop_gated (j_op th) = true -> mem_nat t (jgates c) = true) ->
  forall t th, nth_error (jthreads c) t = Some th ->
    (forall k r, waited th = Some k -> waits_on c k r -> p_caller (getp c r) = false) ->
    j_pc th = QDone.
Proof.
  intros v np ops c Hv1 Hv2 Ho Hr Hdis Hgate t th Hth Hall.
  destruct (join_no_stuck_tied v np ops c Hv1 Hv2 Ho Hr Hdis) as [[t1 [th1 [H1 [P1 [G1 M1]]]]]|H].
  - rewrite (Hgate t1 th1 H1 P1 G1) in M1. discriminate.
  - destruct (j_pc th) eqn:Hpc; auto;
      (destruct (H t th Hth ltac:(congruence)) as [k [r [Hw [W Hc]]]]; rewrite (Hall k r Hw W) in Hc; discriminate).
Qed.

(* waiters_enabled on chains: once resolved_k is closed, an unfinished Struct / ReleaseClients on k can take a step,
   unless the mutex of the promise it is at is held (then some thread can: join_no_mutex_deadlock) *)
Theorem join_waiters_enabled : forall v np ops c,
  jv_alloc_table v = true -> jreach v np ops c ->
  forall t th k, nth_error (jthreads c) t = Some th -> j_op th = JWait k \/ j_op th = JRelease k ->
    j_pc th <> QDone -> p_resclosed (getp c k) = true ->
    jenabled v c t = true \/ p_mu (getp c (j_cur th)) <> None.
Proof.
  intros v np ops c Hv Hr t th k Hth Hop Hnd Hrc.
  pose proof (JOP_reach v np ops c Hr t th Hth) as Hok.
  pose proof (join_release_never_waits_for_hook v np ops c Hv Hr t th Hth) as Hnw.
  destruct (p_mu (getp c (j_cur th))) eqn:Hmu; [right; discriminate|left].
  assert (Hfree : free c (j_cur th) = true) by (unfold free; rewrite Hmu; reflexivity).
  unfold jenabled, jstep. rewrite Hth. unfold jstep_thread.
  destruct Hop as [Hop|Hop]; rewrite Hop in *; destruct (j_pc th) eqn:Hpc; simpl in Hok; try discriminate Hok;
    try contradiction; try (rewrite Hrc; reflexivity).
  - unfold sec_wait_walk. rewrite Hfree. simpl. destruct (p_next _); reflexivity.
  - unfold sec_rel_walk. rewrite Hfree. simpl.
    destruct ((j_waitx th =? 0)%nat && p_relflag (getp c (j_cur th))); [reflexivity|].
    destruct (p_next (if (j_waitx th =? 0)%nat then sp_relflag (getp c (j_cur th)) true else getp c (j_cur th)));
      [reflexivity|].
    destruct (0 <? _); reflexivity.
  - unfold sec_jrelease_proxy. destruct (j_rest th) as [|x rest]; [reflexivity|].
    destruct (jx_rel (getx c x)); [reflexivity|]. destruct (jx_target (getx c x)); [reflexivity|].
    destruct (0 <? _); reflexivity.
Qed.
