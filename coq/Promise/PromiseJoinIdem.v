(* client_idempotent on chains: Future.Client calls for the same path that ended at the same promise, while that
   promise is still unresolved, returned the same proxy.  (Across a Join the code itself returns the proxy of the
   promise joined onto - the row of a path then holds both promises' proxies and Client() takes the first.) *)
From CV Require Import Promise.Promise Promise.PromiseProofs Promise.PromiseJoin Promise.PromiseJoinThms
  Promise.PromiseJoinInv Promise.PromiseJoinRefs Promise.PromiseJoinDest Promise.PromiseJoinChain
  Promise.PromiseJoinForest Promise.PromiseJoinLive Promise.PromiseJoinStuck Promise.PromiseJoinHook
  Promise.PromiseJoinPath Promise.PromiseJoinHookStuck Promise.PromiseJoinLands.
Open Scope Z_scope.

Lemma path_eqb_refl : forall a, path_eqb a a = true.
Proof. intros a. apply path_eqb_eq. reflexivity. Qed.

Lemma find_row_add_row : forall cl q' row q,
  find_row (add_row cl q' row) q = if path_eqb q' q then find_row cl q ++ row else find_row cl q.
Proof.
  induction cl as [|[q0 row0] cl IH]; intros q' row q; simpl.
  - destruct (path_eqb q' q); reflexivity.
  - destruct (path_eqb q0 q') eqn:E0; simpl.
    + apply path_eqb_eq in E0. subst q0. destruct (path_eqb q' q); reflexivity.
    + rewrite IH. destruct (path_eqb q0 q) eqn:E1; [|reflexivity].
      apply path_eqb_eq in E1. subst q0. destruct (path_eqb q' q) eqn:E2; [|reflexivity].
      apply path_eqb_eq in E2. subst q'. rewrite path_eqb_refl in E0. discriminate.
Qed.

Lemma find_row_merge : forall src dst q, exists extra, find_row (merge_tab dst src) q = find_row dst q ++ extra.
Proof.
  induction src as [|[q' row] src IH]; intros dst q; simpl.
  - exists []. rewrite app_nil_r. reflexivity.
  - destruct (IH (add_row dst q' row) q) as [extra E]. rewrite E, find_row_add_row.
    destruct (path_eqb q' q); [exists (row ++ extra); rewrite app_assoc; reflexivity|exists extra; reflexivity].
Qed.

Definition headed (l : list nat) (x : nat) : Prop := exists rest, l = x :: rest.

Lemma headed_app : forall l x extra, headed l x -> headed (l ++ extra) x.
Proof. intros l x extra [rest ->]. exists (rest ++ extra). reflexivity. Qed.

(* the first proxy of a row stays the first while the promise is unresolved *)
Lemma head_step : forall v c t c', JR c -> JS c -> JW c -> jstep v c t = Some c' ->
  forall r q x, p_caller (getp c r) = true -> headed (find_row (p_clients (getp c r)) q) x ->
    p_caller (getp c' r) = true -> headed (find_row (p_clients (getp c' r)) q) x.
Proof.
  intros v c t c' HR HS HW Hs.
  unfold jstep in Hs. destruct (nth_error (jthreads c) t) as [th|] eqn:Hth; [|discriminate].
  pose proof (HW t th Hth) as Hw. unfold wrel in Hw.
  pose proof (S_unres c HS) as Hun. unfold has_sig in Hun.
  junfold Hs. jexplode Hs; inversion Hs; subst; clear Hs.
  all: unfold resolve_entry, do_known, do_final; goal_matches.
  all: own_phase HR Hth.
  all: repeat match goal with H : j_pc _ = _ |- _ => rewrite H in Hw end.
  all: norm_negb.
  all: intros r0 q0 x0 Hc Hh.
  all: repeat progress (autorewrite with getp_simp; rewrite ?clients_close_sigs_h, ?caller_close_sigs).
  all: eqb_all; simpl; rewrite ?clients_close_joined, ?caller_close_joined; simpl; intros Hc'; try exact Hh; try discriminate Hc'.
  all: try (rewrite find_row_add_row; destruct (path_eqb _ _); [apply headed_app|]; exact Hh).
  all: try (destruct p as [q row];
            match goal with |- headed (find_row (merge_tab ?d ?l0) ?q1) _ =>
              destruct (find_row_merge l0 d q1) as [extra E]; rewrite E, find_row_add_row end;
            destruct (path_eqb _ _); repeat apply headed_app; exact Hh).
  all: try (exfalso; specialize (Hpre eq_refl); destruct Hpre as [Hb _];
            pose proof (begin_not_caller c _ _ HR Hb); congruence).
  all: exfalso; apply (Hun _ Hc); apply (lands_end c _ Hw); simpl in *; assumption.
Qed.

Definition cidem (c : jconfig) (th : jthread) : Prop :=
  match j_op th, j_pc th, j_out th with
  | JClient _ q _, QDone, OHandle (HProxy x) =>
      p_caller (getp c (j_cur th)) = true -> headed (find_row (p_clients (getp c (j_cur th))) q) x
  | _, _, _ => True
  end.

Definition CI (c : jconfig) : Prop := forall t th, nth_error (jthreads c) t = Some th -> cidem c th.

Lemma caller_step : forall v c t c', jstep v c t = Some c' ->
  forall r, p_caller (getp c' r) = true -> p_caller (getp c r) = true.
Proof.
  intros v c t c' Hs.
  jleaves v Hs Hth; goal_matches.
  all: intros r0; repeat progress (autorewrite with getp_simp; rewrite ?caller_close_sigs).
  all: eqb_all; simpl; rewrite ?caller_close_joined; simpl; auto; try discriminate.
Qed.

Lemma CI_step : forall v c t c', JR c -> JS c -> JW c -> CI c -> jstep v c t = Some c' -> CI c'.
Proof.
  intros v c t c' HR HS HW HI Hs.
  pose proof (head_step v c t c' HR HS HW Hs) as Hhd.
  pose proof (caller_step v c t c' Hs) as Hcs.
  unfold jstep in Hs. destruct (nth_error (jthreads c) t) as [th|] eqn:Hth; [|discriminate].
  pose proof (HI t th Hth) as Hown. unfold cidem in Hown.
  junfold Hs. jexplode Hs; inversion Hs; subst; clear Hs.
  all: unfold resolve_entry, do_known, do_final in *; goal_matches.
  all: intros t0 th0 H0; simpl in H0; rewrite ?close_sigs_threads in H0; simpl in H0;
       destruct (jupd_nth_cases _ _ _ _ _ _ Hth H0) as [[-> ->]|[Hne H0']]; clear H0;
       [ idtac
       | pose proof (HI _ _ H0') as A; unfold cidem in *;
         destruct (j_op th0); try exact I; destruct (j_pc th0); try exact I; destruct (j_out th0) as [| | |h| | |]; try exact I;
         destruct h; try exact I; intros Hc'; exact (Hhd _ _ _ (Hcs _ Hc') (A (Hcs _ Hc')) Hc') ].
  all: unfold cidem, jcall_done;
       repeat match goal with |- context [match j_via ?th with _ => _ end] => destruct (j_via th) eqn:? end;
       cbn [j_pc j_op j_via j_cur j_rest j_waitx j_res j_out jgoto jfinish sj_pc sj_cur sj_par sj_path sj_via sj_rest sj_waitx sj_res sj_out].
  all: repeat match goal with H : j_pc _ = _ |- _ => rewrite H end.
  all: repeat match goal with H : j_op _ = _ |- _ => rewrite H end.
  all: try (destruct (j_op th); exact I).
  all: intros _; repeat progress (autorewrite with getp_simp); rewrite ?Nat.eqb_refl; simpl;
       rewrite ?find_row_add_row, ?path_eqb_refl;
       match goal with E : find_row _ _ = _ |- _ => rewrite E end; eexists; reflexivity.
Qed.

Lemma CI_reach : forall v np ops c, jv_alloc_table v = true -> jreach v np ops c -> CI c.
Proof.
  intros v np ops c Hv H. induction H as [|c t c' Hr IH Hs].
  - intros t th Hth. simpl in Hth. rewrite nth_error_map in Hth. destruct (nth_error ops t) as [o|]; inversion Hth; subst.
    unfold cidem. destruct o; exact I.
  - exact (CI_step v c t c' (JR_reach v np ops c Hr) (JS_reach v np ops c Hr) (JW_reach v np ops c Hv Hr) IH Hs).
Qed.

(* client_idempotent on chains *)
Theorem join_client_idempotent : forall v np ops c,
  jv_alloc_table v = true -> jreach v np ops c ->
  forall t1 t2 th1 th2 k1 k2 q s1 s2 x1 x2,
    nth_error (jthreads c) t1 = Some th1 -> nth_error (jthreads c) t2 = Some th2 ->
    j_op th1 = JClient k1 q s1 -> j_op th2 = JClient k2 q s2 ->
    j_pc th1 = QDone -> j_pc th2 = QDone ->
    j_out th1 = OHandle (HProxy x1) -> j_out th2 = OHandle (HProxy x2) ->
    j_cur th1 = j_cur th2 -> p_caller (getp c (j_cur th1)) = true ->
    x1 = x2.
Proof.
  intros v np ops c Hv Hr t1 t2 th1 th2 k1 k2 q s1 s2 x1 x2 H1 H2 O1 O2 P1 P2 U1 U2 Hcur Hc.
  pose proof (CI_reach v np ops c Hv Hr t1 th1 H1) as A1. pose proof (CI_reach v np ops c Hv Hr t2 th2 H2) as A2.
  unfold cidem in A1, A2. rewrite O1, P1, U1 in A1. rewrite O2, P2, U2 in A2. rewrite <- Hcur in A2.
  destruct (A1 Hc) as [r1 E1]. destruct (A2 Hc) as [r2 E2]. congruence.
Qed.
