(* Every step of the model of answer.go after both fixes preserves the invariant Inv. *)
From CV Require Import Promise.Promise Promise.PromiseProofs.
Open Scope Z_scope.

Ltac noprec Hop :=
  unfold in_precommit; simpl; rewrite ?Hop; simpl; intros; try discriminate; auto.

Ltac inv_some Hs := inversion Hs; subst; clear Hs.

Ltac useHI HI := first [exact (I_paths _ HI) | exact (I_px_late _ HI) | exact (I_px_target _ HI) | exact (I_slots _ HI)].

Ltac noprec0 := unfold in_precommit; simpl; rewrite ?andb_false_r; intros; try discriminate; auto.

Lemma cnt_deliver_new : forall t d l, cnt (is_deliver t) (EDeliver t d :: l) = S (cnt (is_deliver t) l).
Proof. intros. rewrite cnt_cons. simpl. rewrite Nat.eqb_refl. reflexivity. Qed.


Lemma inv_deliver0 : forall c c' t th th' d,
  Inv c -> nth_error (threads c) t = Some th ->
  threads c' = upd t th' (threads c) ->
  mu c' = None -> caller c' = caller c -> sig_open c' = sig_open c -> result c' = result c ->
  events c' = EDeliver t d :: events c ->
  clients c' = clients c -> slots c' = slots c -> proxies c' = proxies c ->
  (d = DCaller -> caller c = true) -> (d <> DCaller -> sig_open c = false) ->
  tinv c' t th' -> (in_precommit th' = true -> in_precommit th = true) ->
  Inv c'.
Proof.
  intros c c' t th th' d HI Hth Hup Hmu Hcal Hsig Hres Hev Hcl Hsl Hpx Hd1 Hd2 HT Hpre.
  apply (inv_deliver c c' t th th' d); auto; try rewrite Hpx; try apply HI.
  - apply px_preserved_refl. exact Hpx.
  - reflexivity.
Qed.

Lemma resolve_start_inv : forall c t th c',
  Inv c -> nth_error (threads c) t = Some th -> t_pc th = PStart -> is_res_op (t_op th) = true ->
  sec_resolve_start fixed c t th = Some c' -> Inv c'.
Proof.
  intros c t th c' HI Hth Hpc Hop Hs.
  pose proof (I_mu c HI) as Hmu.
  unfold sec_resolve_start in Hs. unfold mu_free in Hs. rewrite Hmu in Hs. simpl in Hs.
  assert (Hnp : forall o, in_precommit (finish th o) = true -> in_precommit th = true).
  { intros o. unfold in_precommit; simpl. rewrite andb_false_r. discriminate. }
  destruct (caller c) eqn:Hc; simpl in Hs.
  2:{ inv_some Hs. apply (inv_frame0 c _ t th (finish th OPanic)); simpl; auto; try solve [noprec0].
      unfold tinv; simpl. destruct (t_op th); try discriminate; auto. }
  pose proof (I_caller_sig c HI Hc) as Hso.
  destruct (0 <? ongoing c).
  - inv_some Hs.
    apply (inv_resolve c _ t th (goto th PStopWait) [EBegin t] (op_res (t_op th))); simpl; auto.
    + intros t0 d [H|[]]. discriminate.
    + split; [apply HI|exact I].
    + rewrite Hc. reflexivity.
    + unfold tinv; simpl. destruct (t_op th); try discriminate; auto.
  - destruct (iter_order (op_ord (t_op th)) (clients c)) eqn:Hord; inv_some Hs.
    + apply (inv_resolve c _ t th (finish th ORet) [EResolved t; EBegin t] (op_res (t_op th))); simpl; auto.
      * intros t0 d [H|[H|[]]]; discriminate.
      * repeat split; try apply HI; exact I.
      * rewrite Hc. reflexivity.
      * right. repeat split; auto. unfold in_precommit; simpl. apply andb_false_r.
      * unfold tinv; simpl. destruct (t_op th); try discriminate; right; auto 10.
    + apply (inv_resolve c _ t th (goto th (PFul (n :: l))) [EResolved t; EBegin t] (op_res (t_op th))); simpl; auto.
      * intros t0 d [H|[H|[]]]; discriminate.
      * repeat split; try apply HI; exact I.
      * rewrite Hc. reflexivity.
      * right. repeat split; auto. unfold in_precommit; simpl. apply andb_false_r.
      * unfold tinv; simpl. destruct (t_op th); try discriminate; auto 10.
Qed.

Lemma commit_inv : forall c t th c',
  Inv c -> nth_error (threads c) t = Some th -> t_pc th = PCommit ->
  sec_commit fixed c t th = Some c' -> Inv c'.
Proof.
  intros c t th c' HI Hth Hpc Hs.
  pose proof (I_mu c HI) as Hmu. pose proof (I_threads c HI t th Hth) as HT.
  unfold sec_commit in Hs. unfold mu_free in Hs. rewrite Hmu in Hs. simpl in Hs.
  unfold tinv in HT. rewrite Hpc in HT.
  assert (Hop : is_res_op (t_op th) = true) by (destruct (t_op th); try tauto; reflexivity).
  assert (HT' : caller c = false /\ sig_open c = true /\ In (EBegin t) (events c))
    by (destruct (t_op th); try tauto; exact HT).
  destruct HT' as [Hc [Hso Hb]].
  assert (Hpre : in_precommit th = true) by (unfold in_precommit; rewrite Hop, Hpc; reflexivity).
  destruct (iter_order (op_ord (t_op th)) (clients c)) eqn:Hord; inv_some Hs.
  - apply (inv_resolve c _ t th (finish th ORet) [EResolved t] (op_res (t_op th))); simpl; auto.
    + intros t0 d [H|[]]; discriminate.
    + repeat split; try apply HI; exact I.
    + rewrite Hc. reflexivity.
    + right. repeat split; auto. unfold in_precommit; simpl. apply andb_false_r.
    + unfold tinv; simpl. destruct (t_op th); try discriminate; right; auto 10.
  - apply (inv_resolve c _ t th (goto th (PFul (n :: l))) [EResolved t] (op_res (t_op th))); simpl; auto.
    + intros t0 d [H|[]]; discriminate.
    + repeat split; try apply HI; exact I.
    + rewrite Hc. reflexivity.
    + right. repeat split; auto. unfold in_precommit; simpl. apply andb_false_r.
    + unfold tinv; simpl. destruct (t_op th); try discriminate; auto 10.
Qed.

Lemma call_done_noprec : forall th, in_precommit (call_done th) = true -> in_precommit th = true.
Proof. intros th. unfold call_done. destruct (t_via th); noprec0. Qed.

(* the stepping thread's own invariant after its call was delivered to d (not the caller) *)
Lemma tinv_delivered : forall c c' t th d,
  tinv c t th -> (t_pc th = PCallLock \/ t_pc th = PAfterRes) ->
  (match t_op th with OSend _ _ | OCall _ _ => True | _ => False end) ->
  events c' = EDeliver t d :: events c -> cur_res c' = cur_res c ->
  d = res_dest (cur_res c) (t_path th) ->
  tinv c' t (call_done th).
Proof.
  intros c c' t th d HT Hpc Hop Hev Hcur Hd. unfold tinv in *. unfold call_done.
  destruct (t_op th) eqn:Eop; try contradiction.
  - destruct HT as [H1 [H2 [H3 H4]]]. rewrite H3. simpl. rewrite Eop, Hev, cnt_deliver_new, H1, Hcur.
    assert (Hp : t_path th = p) by (destruct Hpc as [E|E]; rewrite E in H4; tauto).
    assert (H0 : delivered_pc (t_pc th) = false) by (destruct Hpc as [E|E]; rewrite E; reflexivity).
    rewrite H0. simpl. rewrite Hp in Hd. repeat split; auto.
    intros d0 [He|Hin]; [inversion He; right; congruence|auto].
  - assert (H0 : cnt (is_deliver t) (events c) = 0%nat) by (destruct Hpc as [E|E]; rewrite E in HT; tauto).
    destruct (t_via th); simpl; rewrite Eop, Hev, cnt_deliver_new, H0; auto.
Qed.

Lemma call_lock_inv : forall c t th c',
  Inv c -> nth_error (threads c) t = Some th -> t_pc th = PCallLock ->
  sec_call_lock c t th = Some c' -> Inv c'.
Proof.
  intros c t th c' HI Hth Hpc Hs.
  pose proof (I_mu c HI) as Hmu. pose proof (I_threads c HI t th Hth) as HT.
  unfold sec_call_lock in Hs. unfold mu_free in Hs. rewrite Hmu in Hs. simpl in Hs.
  assert (Hop : match t_op th with OSend _ _ | OCall _ _ => True | _ => False end).
  { unfold tinv in HT. rewrite Hpc in HT. destruct (t_op th); tauto. }
  destruct (caller c) eqn:Hc.
  - inv_some Hs.
    apply (inv_deliver0 c _ t th (goto th PInCaller) DCaller); simpl; auto; try solve [noprec0]; try congruence.
    unfold tinv in *. simpl. rewrite Hpc in HT. destruct (t_op th); try contradiction.
    + destruct HT as [H1 [H2 [H3 H4]]]. rewrite cnt_deliver_new, H1. simpl. repeat split; auto.
      intros d [He|Hin]; [inversion He; auto|auto].
    + rewrite cnt_deliver_new, HT. reflexivity.
  - destruct (sig_open c) eqn:Hso.
    + inv_some Hs. apply (inv_frame0 c _ t th (goto th PWaitRes)); simpl; auto; try solve [noprec0].
      unfold tinv in *. simpl. rewrite Hpc in HT. destruct (t_op th); try contradiction; auto.
    + inv_some Hs.
      apply (inv_deliver0 c _ t th (call_done th) (res_dest (cur_res c) (t_path th))); simpl; auto.
      * intros E. exfalso. exact (res_dest_not_caller _ _ E).
      * apply (tinv_delivered c _ t th (res_dest (cur_res c) (t_path th))); auto.
      * apply call_done_noprec.
Qed.

Lemma after_res_inv : forall c t th c',
  Inv c -> nth_error (threads c) t = Some th -> t_pc th = PAfterRes ->
  sec_after_res c t th = Some c' -> Inv c'.
Proof.
  intros c t th c' HI Hth Hpc Hs.
  pose proof (I_mu c HI) as Hmu. pose proof (I_threads c HI t th Hth) as HT.
  unfold sec_after_res in Hs. unfold mu_free in Hs. rewrite Hmu in Hs. simpl in Hs.
  assert (Hso : sig_open c = false).
  { unfold tinv in HT. rewrite Hpc in HT. destruct (t_op th); tauto. }
  assert (Hcf : caller c = false).
  { destruct (caller c) eqn:E; auto. pose proof (I_caller_sig c HI E). congruence. }
  destruct (t_op th) eqn:Hop; try discriminate.
  - (* OSend *) inv_some Hs.
    apply (inv_deliver0 c _ t th (call_done th) (res_dest (cur_res c) (t_path th))); simpl; auto.
    + intros E. exfalso. exact (res_dest_not_caller _ _ E).
    + apply (tinv_delivered c _ t th (res_dest (cur_res c) (t_path th))); auto. rewrite Hop. exact I.
    + apply call_done_noprec.
  - (* OClient *) inv_some Hs.
    apply (inv_frame c _ t th (finish th (OHandle (HDirect (res_dest (cur_res c) p))))); simpl; auto;
      try solve [noprec0]; try useHI HI.
    + intros Hc. congruence.
    + intros s0 d [He|Hin]; [inversion He; subst; split; [auto|apply res_dest_not_caller]|exact (I_slots c HI s0 d Hin)].
    + apply px_preserved_refl. reflexivity.
    + unfold tinv. simpl. rewrite Hop. eexists. split; [reflexivity|]. simpl. auto.
  - (* OCall *) inv_some Hs.
    apply (inv_deliver0 c _ t th (call_done th) (res_dest (cur_res c) (t_path th))); simpl; auto.
    + intros E. exfalso. exact (res_dest_not_caller _ _ E).
    + apply (tinv_delivered c _ t th (res_dest (cur_res c) (t_path th))); auto. rewrite Hop. exact I.
    + apply call_done_noprec.
  - (* ORelease *)
    destruct (relflag c).
    + inv_some Hs. apply (inv_frame0 c _ t th (finish th ORet)); simpl; auto; try solve [noprec0].
      unfold tinv. simpl. rewrite Hop. exact I.
    + destruct (0 <? crefs c - 1); inv_some Hs.
      * apply (inv_frame c _ t th (finish th ORet)); simpl; auto; try solve [noprec0]; try useHI HI.
        -- intros Hc. congruence.
        -- apply px_preserved_refl. reflexivity.
        -- unfold tinv. simpl. rewrite Hop. exact I.
      * apply (inv_frame c _ t th (goto th (PRel (map snd (clients c))))); simpl; auto; try solve [noprec0]; try useHI HI.
        -- intros Hc. congruence.
        -- apply px_preserved_refl. reflexivity.
        -- unfold tinv. simpl. rewrite Hop. exact Hso.
  - (* OWait *) inv_some Hs.
    apply (inv_frame0 c _ t th (finish th (OStruct (match cur_res c with RRej => false | _ => true end))));
      simpl; auto; try solve [noprec0].
    unfold tinv. simpl. rewrite Hop. auto.
Qed.

Lemma NoDup_snoc : forall A (l : list A) a, NoDup l -> ~ In a l -> NoDup (l ++ [a]).
Proof.
  induction l as [|b l IH]; intros a Hn Hin; simpl.
  - constructor; [intros []|constructor].
  - inversion Hn; subst. constructor.
    + intros H. apply in_app_or in H. destruct H as [H|[H|[]]]; [auto|subst; apply Hin; left; reflexivity].
    + apply IH; auto. intros H. apply Hin. right. exact H.
Qed.

Lemma client_inv : forall c t th c' p s,
  Inv c -> nth_error (threads c) t = Some th -> t_pc th = PStart -> t_op th = OClient p s ->
  sec_client fixed c t th p s = Some c' -> Inv c'.
Proof.
  intros c t th c' p s HI Hth Hpc Hop Hs.
  pose proof (I_mu c HI) as Hmu.
  unfold sec_client in Hs. unfold mu_free in Hs. rewrite Hmu in Hs. simpl in Hs.
  destruct (caller c) eqn:Hc.
  - destruct (I_table c HI Hc) as [Ht1 Ht2].
    destruct (find_client (clients c) p) as [x|] eqn:Hf; inv_some Hs.
    + destruct (table_lookup (clients c) (proxies c) 0 p x Ht1 Ht2 (find_client_some _ _ _ Hf)) as [px [Ha [Hb _]]].
      rewrite Nat.sub_0_r in Ha.
      apply (inv_frame c _ t th (finish th (OHandle (HProxy x)))); simpl; auto; try solve [noprec0]; try useHI HI.
      * intros s0 d [He|Hin]; [discriminate|exact (I_slots c HI s0 d Hin)].
      * apply px_preserved_refl. reflexivity.
      * unfold tinv. simpl. rewrite Hop. eexists. split; [reflexivity|]. simpl. eauto.
    + set (np := {| px_path := p; px_refs := 1; px_calls := 0; px_target := None; px_done := false; px_rel := false |}).
      apply (inv_frame c _ t th (finish th (OHandle (HProxy (length (proxies c)))))); simpl; auto; try solve [noprec0].
      * intros _. rewrite !map_app, app_length, Ht1, Ht2. simpl. split; [reflexivity|].
        rewrite Nat.add_1_r, seq_S. reflexivity.
      * rewrite map_app. simpl. apply NoDup_snoc; [apply HI|]. rewrite <- Ht1. apply find_client_none. exact Hf.
      * intros x px Hx Hfl. destruct (nth_error_app_new _ _ _ _ _ Hx) as [Hx'|[_ ->]].
        -- exact (I_px_late c HI x px Hx' Hfl).
        -- simpl in Hfl. destruct Hfl as [Hfl|Hfl]; [discriminate|congruence].
      * intros x px Hx. destruct (nth_error_app_new _ _ _ _ _ Hx) as [Hx'|[_ ->]].
        -- exact (I_px_target c HI x px Hx').
        -- discriminate.
      * intros s0 d [He|Hin]; [discriminate|exact (I_slots c HI s0 d Hin)].
      * intros x px Hx. exists px. simpl. split; auto. rewrite nth_error_app1; auto. apply nth_error_Some. congruence.
      * unfold tinv. simpl. rewrite Hop. eexists. split; [reflexivity|]. simpl. exists np. split; auto.
        rewrite nth_error_app2, Nat.sub_diag by auto. reflexivity.
  - destruct (sig_open c) eqn:Hso; inv_some Hs.
    + apply (inv_frame0 c _ t th (goto th PWaitRes)); simpl; auto; try solve [noprec0].
      unfold tinv. simpl. rewrite Hop. exact I.
    + apply (inv_frame c _ t th (finish th (OHandle (HDirect (res_dest (cur_res c) p))))); simpl; auto;
        try solve [noprec0]; try useHI HI.
      * intros Hc'. congruence.
      * intros s0 d [He|Hin]; [inversion He; subst; split; [auto|apply res_dest_not_caller]|exact (I_slots c HI s0 d Hin)].
      * apply px_preserved_refl. reflexivity.
      * unfold tinv. simpl. rewrite Hop. eexists. split; [reflexivity|]. simpl. auto.
Qed.

Lemma get_px_target_ok : forall c x, Inv c -> px_target (get_px c x) <> Some DCaller.
Proof.
  intros c x HI. destruct (nth_error (proxies c) x) as [px|] eqn:E.
  - rewrite (get_px_nth c x px E). exact (I_px_target c HI x px E).
  - unfold get_px. rewrite nth_overflow by (apply nth_error_None; exact E). discriminate.
Qed.

Lemma get_px_late : forall c x, Inv c -> (px_rel (get_px c x) = true \/ px_target (get_px c x) <> None) -> sig_open c = false.
Proof.
  intros c x HI H. destruct (nth_error (proxies c) x) as [px|] eqn:E.
  - rewrite (get_px_nth c x px E) in H. exact (I_px_late c HI x px E H).
  - unfold get_px in H. rewrite nth_overflow in H by (apply nth_error_None; exact E). simpl in H.
    destruct H as [H|H]; [discriminate|congruence].
Qed.

Lemma call_start_inv : forall c t th c' s g,
  Inv c -> nth_error (threads c) t = Some th -> t_pc th = PStart -> t_op th = OCall s g ->
  sec_call_start c t th s = Some c' -> Inv c'.
Proof.
  intros c t th c' s g HI Hth Hpc Hop Hs.
  pose proof (I_mu c HI) as Hmu.
  pose proof (I_threads c HI t th Hth) as HT. unfold tinv in HT. rewrite Hop, Hpc in HT.
  unfold sec_call_start in Hs.
  assert (Hdel : forall c0 d, events c0 = EDeliver t d :: events c -> tinv c0 t (finish th ORet)).
  { intros c0 d He. unfold tinv. simpl. rewrite Hop, He, cnt_deliver_new, HT. auto. }
  destruct (lookup_slot (slots c) s) as [[x|d]|] eqn:Hl.
  - remember (get_px c x) as p eqn:Hp.
    destruct (px_rel p) eqn:Hrel.
    + inv_some Hs.
      assert (Hso : sig_open c = false) by (apply (get_px_late c x HI); auto).
      apply (inv_deliver0 c _ t th (finish th ORet) DFail); simpl; auto; try solve [noprec0]; try discriminate.
      apply (Hdel _ DFail). reflexivity.
    + destruct (px_target p) as [d|] eqn:Htg.
      * inv_some Hs.
        assert (Hso : sig_open c = false) by (apply (get_px_late c x HI); right; congruence).
        apply (inv_deliver0 c _ t th (finish th ORet) d); simpl; auto; try solve [noprec0].
        -- intros ->. exfalso. exact (get_px_target_ok c x HI Htg).
        -- apply (Hdel _ d). reflexivity.
      * inv_some Hs.
        eapply (inv_frame_px c _ t th (enter_call th (px_path (get_px c x)) (Some x)) x); simpl; eauto; try solve [noprec0].
        unfold tinv. simpl. rewrite Hop. exact HT.
  - inv_some Hs. destruct (lookup_slot_in _ _ _ Hl) as [s' Hin]. destruct (I_slots c HI s' d Hin) as [Hso Hd].
    apply (inv_deliver0 c _ t th (finish th ORet) d); simpl; auto; try solve [noprec0]; try contradiction.
    apply (Hdel _ d). reflexivity.
  - inv_some Hs. apply (inv_frame0 c _ t th (finish th ONoSlot)); simpl; auto; try solve [noprec0].
    unfold tinv. simpl. rewrite Hop. auto.
Qed.

Lemma fulfil_proxy_inv : forall c t th c' rest,
  Inv c -> nth_error (threads c) t = Some th -> t_pc th = PFul rest ->
  sec_fulfil_proxy fixed c t th rest = Some c' -> Inv c'.
Proof.
  intros c t th c' rest HI Hth Hpc Hs.
  pose proof (I_mu c HI) as Hmu.
  pose proof (I_threads c HI t th Hth) as HT. unfold tinv in HT. rewrite Hpc in HT.
  assert (HT' : is_res_op (t_op th) = true /\ In (EBegin t) (events c) /\ In (EResolved t) (events c) /\
                result c = Some (op_res (t_op th)) /\ sig_open c = false).
  { destruct (t_op th); try tauto; simpl; tauto. }
  destruct HT' as [Hop [Hb [Hr [Hres Hso]]]].
  unfold sec_fulfil_proxy in Hs. simpl in Hs.
  destruct rest as [|x rest'].
  - inv_some Hs. apply (inv_frame0 c _ t th (finish th ORet)); simpl; auto; try solve [noprec0].
    unfold tinv. simpl. destruct (t_op th); try discriminate; right; auto 10.
  - assert (Hnd : forall r, res_dest r (px_path (get_px c x)) <> DCaller) by (intros; apply res_dest_not_caller).
    destruct (px_refs (get_px c x) =? 0); inv_some Hs.
    + eapply (inv_frame_px c _ t th (goto th (PFul rest')) x); simpl; eauto; try solve [noprec0];
        try solve [intros E; inversion E as [E']; exact (Hnd _ E')];
        try solve [unfold tinv; simpl; destruct (t_op th); try discriminate; auto 10].
    + eapply (inv_frame_px c _ t th (goto th (PFulWait x rest')) x); simpl; eauto; try solve [noprec0];
        try solve [intros E; inversion E as [E']; exact (Hnd _ E')];
        try solve [unfold tinv; simpl; destruct (t_op th); try discriminate; auto 10].
Qed.

Lemma release_proxy_inv : forall c t th c' rest,
  Inv c -> nth_error (threads c) t = Some th -> t_pc th = PRel rest ->
  sec_release_proxy c t th rest = Some c' -> Inv c'.
Proof.
  intros c t th c' rest HI Hth Hpc Hs.
  pose proof (I_mu c HI) as Hmu.
  pose proof (I_threads c HI t th Hth) as HT. unfold tinv in HT. rewrite Hpc in HT.
  assert (HT' : t_op th = ORelease /\ sig_open c = false).
  { destruct (t_op th); try tauto; simpl; tauto. }
  destruct HT' as [Hop Hso].
  unfold sec_release_proxy in Hs.
  destruct rest as [|x rest'].
  - inv_some Hs. apply (inv_frame0 c _ t th (finish th ORet)); simpl; auto; try solve [noprec0].
    unfold tinv. simpl. rewrite Hop. exact I.
  - destruct (px_rel (get_px c x)).
    + inv_some Hs. apply (inv_frame0 c _ t th (goto th (PRel rest'))); simpl; auto; try solve [noprec0];
        try solve [unfold tinv; simpl; rewrite Hop; exact Hso].
    + destruct (px_target (get_px c x)) as [d|] eqn:Htg.
      * inv_some Hs. eapply (inv_frame_px c _ t th (goto th (PRel rest')) x); simpl; eauto; try solve [noprec0];
          try solve [rewrite <- Htg; apply get_px_target_ok; exact HI];
          try solve [unfold tinv; simpl; rewrite Hop; exact Hso].
      * destruct (0 <? px_refs (get_px c x) - 1); inv_some Hs.
        -- eapply (inv_frame_px c _ t th (goto th (PRel rest')) x); simpl; eauto; try solve [noprec0]; try discriminate;
             try solve [unfold tinv; simpl; rewrite Hop; exact Hso].
        -- eapply (inv_frame_px c _ t th (goto th (PRelWait x rest')) x); simpl; eauto; try solve [noprec0]; try discriminate;
             try solve [unfold tinv; simpl; rewrite Hop; exact Hso].
Qed.

Lemma step_inv : forall c t c', Inv c -> step fixed c t = Some c' -> Inv c'.
Proof.
  intros c t c' HI Hs. unfold step in Hs.
  destruct (nth_error (threads c) t) as [th|] eqn:Hth; [|discriminate].
  pose proof (I_threads c HI t th Hth) as HT.
  pose proof (I_mu c HI) as Hmu.
  assert (Hfree : mu_free c = true) by (unfold mu_free; rewrite Hmu; reflexivity).
  unfold step_thread in Hs. unfold tinv in HT.
  destruct (t_pc th) eqn:Hpc.
  - (* PStart *)
    destruct (t_op th) eqn:Hop.
    + (* OFulfill *) eapply resolve_start_inv; eauto. rewrite Hop. reflexivity.
    + (* OReject *) eapply resolve_start_inv; eauto. rewrite Hop. reflexivity.
    + (* OSend *)
      inv_some Hs. destruct HT as [H1 [H2 [H3 _]]].
      apply (inv_frame0 c _ t th (enter_call th p None)); simpl; auto; [|noprec Hop].
      unfold tinv; simpl. rewrite Hop. simpl. auto.
    + (* OClient *) eapply client_inv; eauto.
    + (* OCall *) eapply call_start_inv; eauto.
    + (* ORelease *)
      destruct (sig_open c) eqn:Hso; [discriminate|]. inv_some Hs.
      apply (inv_frame0 c _ t th (goto th PAfterRes)); simpl; auto; [|noprec Hop].
      unfold tinv; simpl. rewrite Hop. simpl. auto.
    + (* OWait *)
      destruct (sig_open c) eqn:Hso; [discriminate|]. inv_some Hs.
      apply (inv_frame0 c _ t th (goto th PAfterRes)); simpl; auto; [|noprec Hop].
      unfold tinv; simpl. rewrite Hop. simpl. auto.
    + (* OUngate *)
      inv_some Hs.
      apply (inv_frame0 c _ t th (finish th ORet)); simpl; auto; [|noprec Hop].
      unfold tinv; simpl. rewrite Hop. exact I.
  - (* PCallLock *) eapply call_lock_inv; eauto.
  - (* PInCaller *)
    destruct (negb (op_gated (t_op th)) || mem_nat t (gates c)); [|discriminate]. inv_some Hs.
    apply (inv_frame0 c _ t th (goto th PCallRelock)); simpl; auto; try solve [noprec0];
      try solve [unfold tinv; simpl; destruct (t_op th); auto; try contradiction; simpl in *; tauto].
  - (* PCallRelock *)
    unfold sec_call_relock in Hs. rewrite Hfree in Hs. simpl in Hs. inv_some Hs.
    apply (inv_frame0 c _ t th (call_done th)); simpl; auto; [|apply call_done_noprec].
    + unfold tinv, call_done. destruct (t_op th) eqn:Hop; try contradiction.
      * destruct HT as [H1 [H2 [H3 H4]]]. rewrite H3. simpl. rewrite Hop. simpl in *. tauto.
      * destruct (t_via th); simpl; rewrite Hop; auto.
  - (* PWaitRes *)
    destruct (sig_open c) eqn:Hso; [discriminate|]. inv_some Hs.
    apply (inv_frame0 c _ t th (goto th PAfterRes)); simpl; auto; try solve [noprec0];
      try solve [unfold tinv; simpl; destruct (t_op th); auto; try contradiction; simpl in *; tauto].
  - (* PAfterRes *) eapply after_res_inv; eauto.
  - (* PCallFinish *)
    unfold sec_call_finish in Hs.
    assert (Hprec : forall o, in_precommit (finish th o) = true -> in_precommit th = true).
    { intros o. unfold in_precommit; simpl. rewrite andb_false_r. discriminate. }
    assert (HT' : forall c0, events c0 = events c -> tinv c0 t (finish th ORet)).
    { intros c0 He. unfold tinv; simpl. rewrite He. destruct (t_op th); try contradiction.
      - destruct HT as [_ [_ [_ []]]].
      - auto. }
    destruct (t_via th) as [x|]; inv_some Hs.
    + eapply (inv_frame_px c _ t th (finish th ORet) x); simpl; eauto;
        try solve [right; auto]; try solve [apply get_px_target_ok; exact HI]; try solve [apply HT'; reflexivity];
        try solve [noprec0].
    + apply (inv_frame0 c _ t th (finish th ORet)); simpl; auto; try solve [apply HT'; reflexivity]; try solve [noprec0].
  - (* PFul *) eapply fulfil_proxy_inv; eauto.
  - (* PFulWait *)
    destruct (px_done (get_px c x)); [|discriminate]. inv_some Hs.
    apply (inv_frame0 c _ t th (goto th (PFul rest))); simpl; auto; try solve [noprec0];
      try solve [unfold tinv; simpl; destruct (t_op th); auto; try contradiction; simpl in *; tauto].
  - (* PStopWait *)
    destruct (stopped c); try discriminate. inv_some Hs.
    apply (inv_frame0 c _ t th (goto th PCommit)); simpl; auto;
      try solve [unfold in_precommit; simpl; rewrite Hpc; simpl; auto];
      try solve [unfold tinv; simpl; destruct (t_op th); auto; try contradiction; simpl in *; tauto].
  - (* PCommit *) eapply commit_inv; eauto.
  - (* PRel *) eapply release_proxy_inv; eauto.
  - (* PRelWait *)
    destruct (px_done (get_px c x)); [|discriminate]. inv_some Hs.
    apply (inv_frame0 c _ t th (goto th (PRel rest))); simpl; auto; try solve [noprec0];
      try solve [unfold tinv; simpl; destruct (t_op th); auto; try contradiction; simpl in *; tauto].
  - discriminate.
Qed.
