(* Proofs about the small-step model of Promise (coq/Promise/Promise.v): invariants of every
   configuration reachable under ANY schedule from ANY operation list. *)
From CV Require Import Promise.Promise.
Open Scope Z_scope.

(* ---------------------------------------------------------------- refuted: answer.go as found *)

(* F11 on the model of answer.go as found: ask for the client of path [0] twice; the second call
   returns the same proxy and leaves mu held by a thread that has finished, so the third
   operation can never start *)
Definition f11_history : list op := [OClient [0] 0; OClient [0] 1; OSend [1] false].

Example client_idempotent_refuted :
  let c := run as_found (init f11_history) [0%nat; 1%nat; 2%nat] in
  finished c 1 = true /\ mu c = Some 1%nat /\ finished c 2 = false /\ enabled as_found c 2 = false.
Proof. vm_compute. repeat split; reflexivity. Qed.

(* ---------------------------------------------------------------- lists *)

Lemma nth_error_upd_same : forall A (l : list A) n x y,
  nth_error l n = Some y -> nth_error (upd n x l) n = Some x.
Proof. induction l; destruct n; simpl; intros; try discriminate; eauto. Qed.

Lemma nth_error_upd_other : forall A (l : list A) n m x,
  n <> m -> nth_error (upd n x l) m = nth_error l m.
Proof. induction l; destruct n, m; simpl; intros; try congruence; eauto. Qed.

Lemma length_upd : forall A (l : list A) n x, length (upd n x l) = length l.
Proof. induction l; destruct n; simpl; intros; auto. Qed.

Lemma nth_upd_same : forall A (l : list A) n x d, (n < length l)%nat -> nth n (upd n x l) d = x.
Proof. induction l; destruct n; simpl; intros; try lia; auto. apply IHl. lia. Qed.

Lemma nth_upd_other : forall A (l : list A) n m x d, n <> m -> nth m (upd n x l) d = nth m l d.
Proof. induction l; destruct n, m; simpl; intros; try congruence; auto. Qed.

(* ---------------------------------------------------------------- counting events *)

Definition is_begin (e : event) : bool := match e with EBegin _ => true | _ => false end.
Definition is_resolved (e : event) : bool := match e with EResolved _ => true | _ => false end.
Definition is_deliver (t : nat) (e : event) : bool :=
  match e with EDeliver t' _ => Nat.eqb t t' | _ => false end.

Definition cnt (f : event -> bool) (l : list event) : nat := length (filter f l).

Definition b2n (b : bool) : nat := if b then 1%nat else 0%nat.

Lemma cnt_cons : forall f e l, cnt f (e :: l) = (b2n (f e) + cnt f l)%nat.
Proof. intros. unfold cnt. simpl. destruct (f e); reflexivity. Qed.

(* ---------------------------------------------------------------- the invariant *)

Definition is_res_op (o : op) : bool :=
  match o with OFulfill _ _ | OReject _ => true | _ => false end.

(* a call has been delivered (its EDeliver event is in the log) at these points *)
Definition delivered_pc (p : pc) : bool :=
  match p with PInCaller | PCallRelock | PCallFinish | PDone => true | _ => false end.

Definition precommit_pc (p : pc) : bool :=
  match p with PStopWait | PCommit => true | _ => false end.

(* what holds of thread number t in configuration c *)
Definition tinv (c : config) (t : nat) (th : thread) : Prop :=
  let ev := events c in
  match t_op th with
  | OFulfill _ _ | OReject _ =>
    match t_pc th with
    | PStart => True
    | PStopWait | PCommit => caller c = false /\ sig_open c = true /\ In (EBegin t) ev
    | PFul _ | PFulWait _ _ => In (EBegin t) ev /\ In (EResolved t) ev /\ result c = Some (op_res (t_op th))
    | PDone => t_out th = OPanic \/
               (t_out th = ORet /\ In (EBegin t) ev /\ In (EResolved t) ev /\ result c = Some (op_res (t_op th)))
    | _ => False
    end
  | OSend p _ =>
    cnt (is_deliver t) ev = b2n (delivered_pc (t_pc th)) /\
    (forall d, In (EDeliver t d) ev -> d = DCaller \/ d = res_dest (cur_res c) p) /\
    t_via th = None /\
    match t_pc th with
    | PStart => True
    | PCallLock | PWaitRes => t_path th = p
    | PAfterRes => t_path th = p /\ sig_open c = false
    | PInCaller | PCallRelock => t_path th = p /\ In (EDeliver t DCaller) ev
    | PDone => t_out th = ORet
    | _ => False
    end
  | OCall _ _ =>
    match t_pc th with
    | PStart | PCallLock | PWaitRes => cnt (is_deliver t) ev = 0%nat
    | PAfterRes => cnt (is_deliver t) ev = 0%nat /\ sig_open c = false
    | PInCaller | PCallRelock | PCallFinish => cnt (is_deliver t) ev = 1%nat
    | PDone => (t_out th = ONoSlot /\ cnt (is_deliver t) ev = 0%nat) \/
               (t_out th = ORet /\ cnt (is_deliver t) ev = 1%nat)
    | _ => False
    end
  | OClient p _ =>
    match t_pc th with
    | PStart | PWaitRes => True
    | PAfterRes => sig_open c = false
    | PDone => exists h, t_out th = OHandle h /\
                 match h with
                 | HProxy x => exists px, nth_error (proxies c) x = Some px /\ px_path px = p
                 | HDirect d => d = res_dest (cur_res c) p /\ sig_open c = false
                 end
    | _ => False
    end
  | ORelease =>
    match t_pc th with
    | PStart | PRel _ | PRelWait _ _ | PDone => True
    | PAfterRes => sig_open c = false
    | _ => False
    end
  | OWait =>
    match t_pc th with
    | PStart => True
    | PAfterRes => sig_open c = false
    | PDone => t_out th = OStruct (match cur_res c with RRej => false | _ => true end) /\ sig_open c = false
    | _ => False
    end
  | OUngate _ => True
  end.

Definition in_precommit (th : thread) : bool := is_res_op (t_op th) && precommit_pc (t_pc th).

Record Inv (c : config) : Prop := {
  I_mu : mu c = None;
  I_caller_sig : caller c = true -> sig_open c = true /\ result c = None;
  I_begin : cnt is_begin (events c) = b2n (negb (caller c));
  I_resolved : cnt is_resolved (events c) = b2n (negb (sig_open c));
  I_result : sig_open c = false -> exists r, result c = Some r;
  (* before resolution every delivery went to the PipelineCaller *)
  I_early : sig_open c = true -> forall t d, In (EDeliver t d) (events c) -> d = DCaller;
  (* deliveries to the PipelineCaller happen only before Fulfill/Reject passed its check:
     the log (newest first) never has an EBegin below... stated as: when caller is still set,
     nothing else than caller deliveries; and a caller delivery is never logged after EBegin *)
  I_order : forall l1 l2 t, events c = l1 ++ EDeliver t DCaller :: l2 -> cnt is_begin l2 = 0%nat;
  I_late : forall l1 l2 t d, events c = l1 ++ EDeliver t d :: l2 -> d <> DCaller -> cnt is_resolved l2 = 1%nat;
  (* proxies: one per path, all in the table while the promise is unresolved *)
  I_table : caller c = true -> map fst (clients c) = map px_path (proxies c) /\
                               map snd (clients c) = seq 0 (length (proxies c));
  I_paths : forall x y px py, nth_error (proxies c) x = Some px -> nth_error (proxies c) y = Some py ->
                              px_path px = px_path py -> x = y;
  I_px_late : forall x px, nth_error (proxies c) x = Some px ->
                           (px_rel px = true \/ px_target px <> None) -> sig_open c = false;
  I_slots : forall s d, In (s, HDirect d) (slots c) -> sig_open c = false;
  I_threads : forall t th, nth_error (threads c) t = Some th -> tinv c t th;
  I_unique : forall t1 t2 th1 th2, nth_error (threads c) t1 = Some th1 -> nth_error (threads c) t2 = Some th2 ->
                                   in_precommit th1 = true -> in_precommit th2 = true -> t1 = t2
}.
