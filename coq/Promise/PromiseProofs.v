(* Proofs about the small-step model of Promise (coq/Promise/Promise.v): invariants of every
   configuration reachable under ANY schedule from ANY operation list. *)
From CV Require Import Promise.Promise.
Open Scope Z_scope.

(* ---------------------------------------------------------------- refuted: answer.go as found *)

(* F11 on the model of answer.go as found: ask for the client of path [0] twice; the second call
   returns the same proxy and leaves mu held by a thread that has finished, so the third
   operation can never start *)
Definition f11_history : list op := [OClient [0] 0; OClient [0] 1; OSend [1] false].

Example client_idempotent_refuted :
  let c := run as_found (init f11_history) [0%nat; 1%nat; 2%nat] in
  finished c 1 = true /\ mu c = Some 1%nat /\ finished c 2 = false /\ enabled as_found c 2 = false.
Proof. vm_compute. repeat split; reflexivity. Qed.

(* ---------------------------------------------------------------- lists *)

Lemma nth_error_upd_same : forall A (l : list A) n x y,
  nth_error l n = Some y -> nth_error (upd n x l) n = Some x.
Proof. induction l; destruct n; simpl; intros; try discriminate; eauto. Qed.

Lemma nth_error_upd_other : forall A (l : list A) n m x,
  n <> m -> nth_error (upd n x l) m = nth_error l m.
Proof. induction l; destruct n, m; simpl; intros; try congruence; eauto. Qed.

Lemma length_upd : forall A (l : list A) n x, length (upd n x l) = length l.
Proof. induction l; destruct n; simpl; intros; auto. Qed.

Lemma nth_upd_same : forall A (l : list A) n x d, (n < length l)%nat -> nth n (upd n x l) d = x.
Proof. induction l; destruct n; simpl; intros; try lia; auto. apply IHl. lia. Qed.

Lemma nth_upd_other : forall A (l : list A) n m x d, n <> m -> nth m (upd n x l) d = nth m l d.
Proof. induction l; destruct n, m; simpl; intros; try congruence; auto. Qed.

(* ---------------------------------------------------------------- counting events *)

Definition is_begin (e : event) : bool := match e with EBegin _ => true | _ => false end.
Definition is_resolved (e : event) : bool := match e with EResolved _ => true | _ => false end.
Definition is_deliver (t : nat) (e : event) : bool :=
  match e with EDeliver t' _ => Nat.eqb t t' | _ => false end.

Definition cnt (f : event -> bool) (l : list event) : nat := length (filter f l).

Definition b2n (b : bool) : nat := if b then 1%nat else 0%nat.

Lemma cnt_cons : forall f e l, cnt f (e :: l) = (b2n (f e) + cnt f l)%nat.
Proof. intros. unfold cnt. simpl. destruct (f e); reflexivity. Qed.

(* ---------------------------------------------------------------- the invariant *)

Definition is_res_op (o : op) : bool :=
  match o with OFulfill _ _ | OReject _ => true | _ => false end.

(* a call has been delivered (its EDeliver event is in the log) at these points *)
Definition delivered_pc (p : pc) : bool :=
  match p with PInCaller | PCallRelock | PCallFinish | PDone => true | _ => false end.

Definition precommit_pc (p : pc) : bool :=
  match p with PStopWait | PCommit => true | _ => false end.

(* what holds of thread number t in configuration c *)
Definition tinv (c : config) (t : nat) (th : thread) : Prop :=
  let ev := events c in
  match t_op th with
  | OFulfill _ _ | OReject _ =>
    match t_pc th with
    | PStart => True
    | PStopWait | PCommit => caller c = false /\ sig_open c = true /\ In (EBegin t) ev
    | PFul _ | PFulWait _ _ => In (EBegin t) ev /\ In (EResolved t) ev /\ result c = Some (op_res (t_op th)) /\
                               sig_open c = false
    | PDone => t_out th = OPanic \/
               (t_out th = ORet /\ In (EBegin t) ev /\ In (EResolved t) ev /\ result c = Some (op_res (t_op th)))
    | _ => False
    end
  | OSend p _ =>
    cnt (is_deliver t) ev = b2n (delivered_pc (t_pc th)) /\
    (forall d, In (EDeliver t d) ev -> d = DCaller \/ d = res_dest (cur_res c) p) /\
    t_via th = None /\
    match t_pc th with
    | PStart => True
    | PCallLock | PWaitRes => t_path th = p
    | PAfterRes => t_path th = p /\ sig_open c = false
    | PInCaller | PCallRelock => t_path th = p /\ In (EDeliver t DCaller) ev
    | PDone => t_out th = ORet
    | _ => False
    end
  | OCall _ _ =>
    match t_pc th with
    | PStart | PCallLock | PWaitRes => cnt (is_deliver t) ev = 0%nat
    | PAfterRes => cnt (is_deliver t) ev = 0%nat /\ sig_open c = false
    | PInCaller | PCallRelock | PCallFinish => cnt (is_deliver t) ev = 1%nat
    | PDone => (t_out th = ONoSlot /\ cnt (is_deliver t) ev = 0%nat) \/
               (t_out th = ORet /\ cnt (is_deliver t) ev = 1%nat)
    | _ => False
    end
  | OClient p _ =>
    match t_pc th with
    | PStart | PWaitRes => True
    | PAfterRes => sig_open c = false
    | PDone => exists h, t_out th = OHandle h /\
                 match h with
                 | HProxy x => exists px, nth_error (proxies c) x = Some px /\ px_path px = p
                 | HDirect d => d = res_dest (cur_res c) p /\ sig_open c = false
                 end
    | _ => False
    end
  | ORelease =>
    match t_pc th with
    | PStart | PDone => True
    | PAfterRes | PRel _ | PRelWait _ _ => sig_open c = false
    | _ => False
    end
  | OWait =>
    match t_pc th with
    | PStart => True
    | PAfterRes => sig_open c = false
    | PDone => t_out th = OStruct (match cur_res c with RRej => false | _ => true end) /\ sig_open c = false
    | _ => False
    end
  | OUngate _ => match t_pc th with PStart | PDone => True | _ => False end
  end.

Definition in_precommit (th : thread) : bool := is_res_op (t_op th) && precommit_pc (t_pc th).

(* the log, newest event first: a delivery to the PipelineCaller is logged only while no
   Fulfill/Reject has passed its check (no EBegin is older), any other delivery only after the
   resolution (an EResolved is older) *)
Fixpoint wf_log (l : list event) : Prop :=
  match l with
  | [] => True
  | e :: r => wf_log r /\
              match e with
              | EDeliver _ DCaller => cnt is_begin r = 0%nat
              | EDeliver _ _ => cnt is_resolved r = 1%nat
              | _ => True
              end
  end.

Record Inv (c : config) : Prop := {
  I_mu : mu c = None;
  I_caller_sig : caller c = true -> sig_open c = true;
  I_res_none : sig_open c = true -> result c = None;
  I_begin : cnt is_begin (events c) = b2n (negb (caller c));
  I_resolved : cnt is_resolved (events c) = b2n (negb (sig_open c));
  I_result : sig_open c = false -> exists r, result c = Some r;
  (* before resolution every delivery went to the PipelineCaller *)
  I_early : sig_open c = true -> forall t d, In (EDeliver t d) (events c) -> d = DCaller;
  I_log : wf_log (events c);
  (* proxies: one per path, all in the table while the promise is unresolved *)
  I_table : caller c = true -> map fst (clients c) = map px_path (proxies c) /\
                               map snd (clients c) = seq 0 (length (proxies c));
  I_paths : NoDup (map px_path (proxies c));
  I_px_late : forall x px, nth_error (proxies c) x = Some px ->
                           (px_rel px = true \/ px_target px <> None) -> sig_open c = false;
  I_px_target : forall x px, nth_error (proxies c) x = Some px -> px_target px <> Some DCaller;
  I_slots : forall s d, In (s, HDirect d) (slots c) -> sig_open c = false /\ d <> DCaller;
  I_threads : forall t th, nth_error (threads c) t = Some th -> tinv c t th;
  I_unique : forall t1 t2 th1 th2, nth_error (threads c) t1 = Some th1 -> nth_error (threads c) t2 = Some th2 ->
                                   in_precommit th1 = true -> in_precommit th2 = true -> t1 = t2
}.

(* ---------------------------------------------------------------- basic facts *)

Lemma path_eqb_eq : forall a b, path_eqb a b = true <-> a = b.
Proof.
  induction a as [|x a IH]; destruct b as [|y b]; simpl; split; intro H; try discriminate; auto.
  - apply andb_true_iff in H. destruct H as [H1 H2]. apply Z.eqb_eq in H1. apply IH in H2. congruence.
  - inversion H; subst. rewrite Z.eqb_refl. simpl. apply IH. reflexivity.
Qed.

Lemma cnt_app : forall f a b, cnt f (a ++ b) = (cnt f a + cnt f b)%nat.
Proof. intros. unfold cnt. rewrite filter_app, app_length. reflexivity. Qed.

Lemma cnt_none : forall t l, (forall d, ~ In (EDeliver t d) l) -> cnt (is_deliver t) l = 0%nat.
Proof.
  induction l as [|e l IH]; intros H; [reflexivity|].
  rewrite cnt_cons, IH by (intros d Hd; apply (H d); right; exact Hd).
  destruct e as [t'|t'|t' d]; simpl; auto.
  destruct (Nat.eqb t t') eqn:E; auto. apply Nat.eqb_eq in E. subst. exfalso. apply (H d). left. reflexivity.
Qed.

Lemma find_client_none : forall cl p, find_client cl p = None -> ~ In p (map fst cl).
Proof.
  induction cl as [|[q x] cl IH]; simpl; intros p H; auto.
  destruct (path_eqb q p) eqn:E; [discriminate|].
  intros [Hq|Hin]; [subst; assert (path_eqb p p = true) by (apply path_eqb_eq; reflexivity); congruence|].
  exact (IH p H Hin).
Qed.

Lemma find_client_some : forall cl p x, find_client cl p = Some x -> In (p, x) cl.
Proof.
  induction cl as [|[q y] cl IH]; simpl; intros p x H; [discriminate|].
  destruct (path_eqb q p) eqn:E.
  - apply path_eqb_eq in E. inversion H; subst. left. reflexivity.
  - right. apply IH. exact H.
Qed.

Lemma table_lookup : forall (cl : list (path * nat)) (pxs : list proxy) k p x,
  map fst cl = map px_path pxs -> map snd cl = seq k (length pxs) -> In (p, x) cl ->
  exists px, nth_error pxs (x - k) = Some px /\ px_path px = p /\ (k <= x)%nat.
Proof.
  induction cl as [|[q y] cl IH]; intros pxs k p x H1 H2 Hin; [destruct Hin|].
  destruct pxs as [|px pxs]; [discriminate|]. simpl in H1, H2. inversion H1; inversion H2; subst.
  destruct Hin as [Heq|Hin].
  - inversion Heq; subst. exists px. rewrite Nat.sub_diag. simpl. auto.
  - destruct (IH pxs (S k) p x H3 H5 Hin) as [px' [Ha [Hb Hc]]].
    exists px'. replace (x - k)%nat with (S (x - S k)) by lia. simpl. repeat split; auto. lia.
Qed.

Lemma nth_error_app_new : forall A (l : list A) x a b,
  nth_error (l ++ [a]) x = Some b -> nth_error l x = Some b \/ (x = length l /\ b = a).
Proof.
  intros. destruct (Nat.lt_ge_cases x (length l)).
  - rewrite nth_error_app1 in H by auto. auto.
  - rewrite nth_error_app2 in H by auto. destruct (x - length l)%nat eqn:E; simpl in H.
    + inversion H. right. split; [lia|auto].
    + destruct n; discriminate.
Qed.

Lemma get_px_nth : forall c x px, nth_error (proxies c) x = Some px -> get_px c x = px.
Proof. intros. unfold get_px. apply nth_error_nth. exact H. Qed.

(* ---------------------------------------------------------------- a thread that does not move *)

Lemma tinv_other : forall c c' t th new,
  Inv c -> tinv c t th ->
  events c' = new ++ events c ->
  (forall d, ~ In (EDeliver t d) new) ->
  (caller c = false -> caller c' = false) ->
  (sig_open c = false -> sig_open c' = false) ->
  (forall r, result c = Some r -> result c' = Some r) ->
  (in_precommit th = true -> sig_open c' = true) ->
  (forall x px, nth_error (proxies c) x = Some px ->
                exists px', nth_error (proxies c') x = Some px' /\ px_path px' = px_path px) ->
  tinv c' t th.
Proof.
  intros c c' t th new HI HT Hev Hnew Hcal Hsig Hres Hpre Hpx.
  assert (Hcnt : cnt (is_deliver t) (events c') = cnt (is_deliver t) (events c)).
  { rewrite Hev, cnt_app, (cnt_none t new Hnew). reflexivity. }
  assert (Hin : forall e, In e (events c) -> In e (events c')).
  { intros e He. rewrite Hev. apply in_or_app. right. exact He. }
  assert (Hback : forall d, In (EDeliver t d) (events c') -> In (EDeliver t d) (events c)).
  { intros d Hd. rewrite Hev in Hd. apply in_app_or in Hd. destruct Hd as [Hd|Hd]; [exfalso; exact (Hnew d Hd)|exact Hd]. }
  assert (Hcur : sig_open c = false -> cur_res c' = cur_res c).
  { intros Hs. destruct (I_result c HI Hs) as [r Hr]. unfold cur_res. rewrite Hr, (Hres r Hr). reflexivity. }
  assert (Hdest : forall p d, (In (EDeliver t d) (events c) -> d = DCaller \/ d = res_dest (cur_res c) p) ->
                              In (EDeliver t d) (events c') -> d = DCaller \/ d = res_dest (cur_res c') p).
  { intros p d H Hd. apply Hback in Hd. destruct (sig_open c) eqn:Hs.
    - left. exact (I_early c HI Hs t d Hd).
    - rewrite (Hcur eq_refl). auto. }
  unfold tinv in *. unfold in_precommit in Hpre.
  destruct (t_op th) eqn:Hop; simpl in Hpre.
  - (* OFulfill *) destruct (t_pc th); simpl in Hpre; intuition auto.
  - (* OReject *) destruct (t_pc th); simpl in Hpre; intuition auto.
  - (* OSend *) rewrite Hcnt. destruct HT as [H1 [H2 [H3 H4]]].
    split; [exact H1|]. split; [intros d; apply Hdest; apply H2|]. split; [exact H3|].
    destruct (t_pc th); intuition auto.
  - (* OClient *) destruct (t_pc th); auto.
    destruct HT as [h [Ho Hh]]. exists h. split; auto. destruct h as [x|d].
    + destruct Hh as [px [Ha Hb]]. destruct (Hpx x px Ha) as [px' [Hc Hd]]. exists px'. split; congruence.
    + destruct Hh as [Ha Hb]. rewrite (Hcur Hb). auto.
  - (* OCall *) rewrite Hcnt. destruct (t_pc th); intuition auto.
  - (* ORelease *) destruct (t_pc th); auto.
  - (* OWait *) destruct (t_pc th); auto. destruct HT as [Ha Hb]. rewrite (Hcur Hb). auto.
  - destruct (t_pc th); auto.
Qed.

(* ---------------------------------------------------------------- frame lemmas *)

Lemma threads_after_upd : forall c c' t th th',
  nth_error (threads c) t = Some th -> threads c' = upd t th' (threads c) ->
  forall t0 th0, nth_error (threads c') t0 = Some th0 ->
  (t0 = t /\ th0 = th') \/ (t0 <> t /\ nth_error (threads c) t0 = Some th0).
Proof.
  intros c c' t th th' Hth Hup t0 th0 H0. rewrite Hup in H0.
  destruct (Nat.eq_dec t0 t) as [->|Hne].
  - rewrite (nth_error_upd_same _ _ _ _ _ Hth) in H0. inversion H0. auto.
  - rewrite nth_error_upd_other in H0 by auto. auto.
Qed.

Lemma unique_after_upd : forall c c' t th th',
  Inv c -> nth_error (threads c) t = Some th -> threads c' = upd t th' (threads c) ->
  (in_precommit th' = true -> in_precommit th = true) ->
  forall t1 t2 th1 th2, nth_error (threads c') t1 = Some th1 -> nth_error (threads c') t2 = Some th2 ->
                        in_precommit th1 = true -> in_precommit th2 = true -> t1 = t2.
Proof.
  intros c c' t th th' HI Hth Hup Hpre t1 t2 th1 th2 H1 H2 P1 P2.
  destruct (threads_after_upd c c' t th th' Hth Hup t1 th1 H1) as [[-> ->]|[N1 E1]];
  destruct (threads_after_upd c c' t th th' Hth Hup t2 th2 H2) as [[-> ->]|[N2 E2]]; auto.
  - exact (I_unique c HI t t2 th th2 Hth E2 (Hpre P1) P2).
  - exact (I_unique c HI t1 t th1 th E1 Hth P1 (Hpre P2)).
  - exact (I_unique c HI t1 t2 th1 th2 E1 E2 P1 P2).
Qed.

Definition px_preserved (c c' : config) : Prop :=
  forall x px, nth_error (proxies c) x = Some px ->
               exists px', nth_error (proxies c') x = Some px' /\ px_path px' = px_path px.

Lemma px_preserved_refl : forall c c', proxies c' = proxies c -> px_preserved c c'.
Proof. intros c c' H x px Hx. exists px. rewrite H. auto. Qed.

(* a step that leaves caller / sig_open / result / events alone *)
Lemma inv_frame : forall c c' t th th',
  Inv c -> nth_error (threads c) t = Some th ->
  threads c' = upd t th' (threads c) ->
  mu c' = None -> caller c' = caller c -> sig_open c' = sig_open c -> result c' = result c ->
  events c' = events c ->
  (caller c = true -> map fst (clients c') = map px_path (proxies c') /\
                      map snd (clients c') = seq 0 (length (proxies c'))) ->
  NoDup (map px_path (proxies c')) ->
  (forall x px, nth_error (proxies c') x = Some px -> (px_rel px = true \/ px_target px <> None) ->
                sig_open c = false) ->
  (forall x px, nth_error (proxies c') x = Some px -> px_target px <> Some DCaller) ->
  (forall s d, In (s, HDirect d) (slots c') -> sig_open c = false /\ d <> DCaller) ->
  px_preserved c c' ->
  tinv c' t th' -> (in_precommit th' = true -> in_precommit th = true) ->
  Inv c'.
Proof.
  intros c c' t th th' HI Hth Hup Hmu Hcal Hsig Hres Hev Htab Hpaths Hlate Htgt Hslots Hpx HT Hpre.
  constructor; try rewrite Hcal; try rewrite Hsig; try rewrite Hres; try rewrite Hev; try apply HI; auto.
  - intros t0 th0 H0.
    destruct (threads_after_upd c c' t th th' Hth Hup t0 th0 H0) as [[-> ->]|[N E]]; [exact HT|].
    apply (tinv_other c c' t0 th0 []); auto.
    + exact (I_threads c HI t0 th0 E).
    + congruence.
    + congruence.
    + intros r Hr. congruence.
    + intros P. rewrite Hsig.
      pose proof (I_threads c HI t0 th0 E) as T. unfold in_precommit in P. unfold tinv in T.
      destruct (t_op th0); simpl in P; try discriminate; destruct (t_pc th0); simpl in P; try discriminate; tauto.
  - exact (unique_after_upd c c' t th th' HI Hth Hup Hpre).
Qed.

(* same with the tables untouched *)
Lemma inv_frame0 : forall c c' t th th',
  Inv c -> nth_error (threads c) t = Some th ->
  threads c' = upd t th' (threads c) ->
  mu c' = None -> caller c' = caller c -> sig_open c' = sig_open c -> result c' = result c ->
  events c' = events c -> clients c' = clients c -> proxies c' = proxies c -> slots c' = slots c ->
  tinv c' t th' -> (in_precommit th' = true -> in_precommit th = true) ->
  Inv c'.
Proof.
  intros c c' t th th' HI Hth Hup Hmu Hcal Hsig Hres Hev Hcl Hpx Hsl HT Hpre.
  apply (inv_frame c c' t th th'); auto; try rewrite Hcl; try rewrite Hpx; try rewrite Hsl; try apply HI.
  apply px_preserved_refl. exact Hpx.
Qed.

(* a step that logs the delivery of the stepping thread's call *)
Lemma inv_deliver : forall c c' t th th' d,
  Inv c -> nth_error (threads c) t = Some th ->
  threads c' = upd t th' (threads c) ->
  mu c' = None -> caller c' = caller c -> sig_open c' = sig_open c -> result c' = result c ->
  events c' = EDeliver t d :: events c ->
  clients c' = clients c -> slots c' = slots c ->
  NoDup (map px_path (proxies c')) ->
  (forall x px, nth_error (proxies c') x = Some px -> (px_rel px = true \/ px_target px <> None) ->
                sig_open c = false) ->
  (forall x px, nth_error (proxies c') x = Some px -> px_target px <> Some DCaller) ->
  px_preserved c c' -> map px_path (proxies c') = map px_path (proxies c) ->
  (d = DCaller -> caller c = true) -> (d <> DCaller -> sig_open c = false) ->
  tinv c' t th' -> (in_precommit th' = true -> in_precommit th = true) ->
  Inv c'.
Proof.
  intros c c' t th th' d HI Hth Hup Hmu Hcal Hsig Hres Hev Hcl Hsl Hpaths Hlate Htgt Hpx Hmap Hd1 Hd2 HT Hpre.
  constructor; try rewrite Hcal; try rewrite Hsig; try rewrite Hres; try rewrite Hev; try rewrite Hcl;
    try rewrite Hsl; try apply HI; auto.
  - intros Hs t0 d0 [He|Hin].
    + inversion He; subst. destruct d0; auto; exfalso;
        (assert (sig_open c = false) by (apply Hd2; discriminate)); congruence.
    + exact (I_early c HI Hs t0 d0 Hin).
  - simpl. split; [apply HI|]. destruct d; auto.
    + rewrite (I_begin c HI), (Hd1 eq_refl). reflexivity.
    + rewrite (I_resolved c HI), Hd2 by discriminate. reflexivity.
    + rewrite (I_resolved c HI), Hd2 by discriminate. reflexivity.
    + rewrite (I_resolved c HI), Hd2 by discriminate. reflexivity.
  - intros Hc. rewrite Hmap. replace (length (proxies c')) with (length (proxies c)).
    + apply (I_table c HI Hc).
    + rewrite <- (map_length px_path (proxies c)), <- Hmap, map_length. reflexivity.
  - intros t0 th0 H0.
    destruct (threads_after_upd c c' t th th' Hth Hup t0 th0 H0) as [[-> ->]|[N E]]; [exact HT|].
    apply (tinv_other c c' t0 th0 [EDeliver t d]); auto.
    + exact (I_threads c HI t0 th0 E).
    + intros d0 [He|[]]. inversion He. congruence.
    + congruence.
    + congruence.
    + intros r Hr. congruence.
    + intros P. rewrite Hsig.
      pose proof (I_threads c HI t0 th0 E) as T. unfold in_precommit in P. unfold tinv in T.
      destruct (t_op th0); simpl in P; try discriminate; destruct (t_pc th0); simpl in P; try discriminate; tauto.
  - exact (unique_after_upd c c' t th th' HI Hth Hup Hpre).
Qed.

(* ---------------------------------------------------------------- proxy updates *)

Lemma map_upd_path : forall (l : list proxy) x p',
  (forall p, nth_error l x = Some p -> px_path p' = px_path p) ->
  map px_path (upd x p' l) = map px_path l.
Proof.
  induction l as [|a l IH]; intros x p' H; destruct x; simpl; auto.
  - rewrite (H a eq_refl). reflexivity.
  - rewrite IH; auto.
Qed.

Lemma px_preserved_map : forall c c', map px_path (proxies c') = map px_path (proxies c) -> px_preserved c c'.
Proof.
  intros c c' H x px Hx.
  pose proof (map_nth_error px_path x (proxies c) Hx) as H1. rewrite <- H in H1.
  destruct (nth_error (proxies c') x) as [px'|] eqn:E.
  - rewrite (map_nth_error px_path x (proxies c') E) in H1. inversion H1. eauto.
  - apply nth_error_None in E. assert (nth_error (map px_path (proxies c')) x = None).
    { apply nth_error_None. rewrite map_length. exact E. } congruence.
Qed.

Lemma nth_error_upd_cases : forall A (l : list A) x a y b,
  nth_error (upd x a l) y = Some b -> (y = x /\ b = a /\ exists b0, nth_error l x = Some b0) \/ (y <> x /\ nth_error l y = Some b).
Proof.
  intros A l x a y b H. destruct (Nat.eq_dec y x) as [->|N].
  - left. destruct (nth_error l x) as [b0|] eqn:E.
    + rewrite (nth_error_upd_same _ _ _ _ _ E) in H. inversion H. eauto.
    + exfalso. apply nth_error_None in E. assert (nth_error (upd x a l) x = None).
      { apply nth_error_None. rewrite length_upd. exact E. } congruence.
  - right. rewrite nth_error_upd_other in H by auto. auto.
Qed.

(* a step that rewrites one proxy (same path), leaving caller / sig_open / result / events alone *)
Lemma inv_frame_px : forall c c' t th th' x p',
  Inv c -> nth_error (threads c) t = Some th ->
  threads c' = upd t th' (threads c) ->
  mu c' = None -> caller c' = caller c -> sig_open c' = sig_open c -> result c' = result c ->
  events c' = events c -> clients c' = clients c -> slots c' = slots c ->
  proxies c' = upd x p' (proxies c) ->
  px_path p' = px_path (get_px c x) ->
  (sig_open c = false \/ (px_rel p' = px_rel (get_px c x) /\ px_target p' = px_target (get_px c x))) ->
  px_target p' <> Some DCaller ->
  tinv c' t th' -> (in_precommit th' = true -> in_precommit th = true) ->
  Inv c'.
Proof.
  intros c c' t th th' x p' HI Hth Hup Hmu Hcal Hsig Hres Hev Hcl Hsl Hpx Hpath Hflags Htg HT Hpre.
  assert (Hmap : map px_path (proxies c') = map px_path (proxies c)).
  { rewrite Hpx. apply map_upd_path. intros p Hp. rewrite Hpath, (get_px_nth c x p Hp). reflexivity. }
  apply (inv_frame c c' t th th'); auto.
  - intros Hc. rewrite Hcl, Hmap. replace (length (proxies c')) with (length (proxies c)).
    + apply (I_table c HI Hc).
    + rewrite Hpx, length_upd. reflexivity.
  - rewrite Hmap. apply HI.
  - intros y py Hy Hf. rewrite Hpx in Hy.
    destruct (nth_error_upd_cases _ _ _ _ _ _ Hy) as [[-> [-> [b0 Hb0]]]|[N Hy']].
    + destruct Hflags as [Hs|[Hr Ht]]; auto.
      apply (I_px_late c HI x b0 Hb0). rewrite (get_px_nth c x b0 Hb0) in Hr, Ht. rewrite <- Hr, <- Ht. exact Hf.
    + exact (I_px_late c HI y py Hy' Hf).
  - intros y py Hy. rewrite Hpx in Hy.
    destruct (nth_error_upd_cases _ _ _ _ _ _ Hy) as [[-> [-> _]]|[N Hy']]; auto.
    exact (I_px_target c HI y py Hy').
  - rewrite Hsl. apply HI.
  - apply px_preserved_map. exact Hmap.
Qed.

(* ---------------------------------------------------------------- Fulfill / Reject events *)

Lemma precommit_facts : forall c t th, Inv c -> nth_error (threads c) t = Some th -> in_precommit th = true ->
  caller c = false /\ sig_open c = true.
Proof.
  intros c t th HI Hth P. pose proof (I_threads c HI t th Hth) as T. unfold in_precommit in P. unfold tinv in T.
  destruct (t_op th); simpl in P; try discriminate; destruct (t_pc th); simpl in P; try discriminate; tauto.
Qed.

Lemma inv_resolve : forall c c' t th th' new r,
  Inv c -> nth_error (threads c) t = Some th -> threads c' = upd t th' (threads c) ->
  mu c' = None -> clients c' = clients c -> proxies c' = proxies c -> slots c' = slots c ->
  events c' = new ++ events c ->
  (forall t0 d, ~ In (EDeliver t0 d) new) ->
  wf_log (new ++ events c) ->
  caller c' = false ->
  cnt is_begin new = b2n (caller c) ->
  (caller c = true \/ in_precommit th = true) ->
  ((sig_open c' = sig_open c /\ result c' = result c /\ cnt is_resolved new = 0%nat) \/
   (sig_open c' = false /\ result c' = Some r /\ cnt is_resolved new = 1%nat /\ in_precommit th' = false)) ->
  tinv c' t th' -> Inv c'.
Proof.
  intros c c' t th th' new r HI Hth Hup Hmu Hcl Hpx Hsl Hev Hnew Hwf Hcal Hb Hwho Hkind HT.
  assert (Hso : sig_open c = true).
  { destruct Hwho as [Hc|P]; [exact (I_caller_sig c HI Hc)|exact (proj2 (precommit_facts c t th HI Hth P))]. }
  assert (Hother : forall t0 th0, t0 <> t -> nth_error (threads c) t0 = Some th0 -> in_precommit th0 = true -> False).
  { intros t0 th0 N E P. destruct (precommit_facts c t0 th0 HI E P) as [Hc _].
    destruct Hwho as [Hc'|P']; [congruence|]. apply N. exact (I_unique c HI t0 t th0 th E Hth P P'). }
  constructor; auto.
  - rewrite Hcal. discriminate.
  - intros Hs. destruct Hkind as [[H1 [H2 _]]|[H1 _]]; [|congruence]. rewrite H2. apply (I_res_none c HI). congruence.
  - rewrite Hev, cnt_app, Hb, (I_begin c HI), Hcal. destruct (caller c); reflexivity.
  - rewrite Hev, cnt_app, (I_resolved c HI), Hso. destruct Hkind as [[H1 [_ H3]]|[H1 [_ [H3 _]]]]; rewrite H1, H3; try rewrite Hso; reflexivity.
  - intros Hs. destruct Hkind as [[H1 [H2 _]]|[_ [H2 _]]]; [congruence|eauto].
  - intros Hs t0 d Hin. rewrite Hev in Hin. apply in_app_or in Hin. destruct Hin as [Hin|Hin]; [exfalso; exact (Hnew t0 d Hin)|].
    exact (I_early c HI Hso t0 d Hin).
  - rewrite Hev. exact Hwf.
  - rewrite Hcal. discriminate.
  - rewrite Hpx. apply HI.
  - rewrite Hpx. intros x px Hx Hf. pose proof (I_px_late c HI x px Hx Hf). congruence.
  - rewrite Hpx. apply HI.
  - rewrite Hsl. intros s d Hin. destruct (I_slots c HI s d Hin). congruence.
  - intros t0 th0 H0.
    destruct (threads_after_upd c c' t th th' Hth Hup t0 th0 H0) as [[-> ->]|[N E]]; [exact HT|].
    apply (tinv_other c c' t0 th0 new); auto.
    + exact (I_threads c HI t0 th0 E).
    + intros; congruence.
    + intros r0 Hr0. pose proof (I_res_none c HI Hso). congruence.
    + intros P. exfalso. exact (Hother t0 th0 N E P).
    + apply px_preserved_refl. exact Hpx.
  - intros t1 t2 th1 th2 H1 H2 P1 P2.
    destruct (threads_after_upd c c' t th th' Hth Hup t1 th1 H1) as [[-> ->]|[N1 E1]];
    destruct (threads_after_upd c c' t th th' Hth Hup t2 th2 H2) as [[-> ->]|[N2 E2]]; auto.
    + exfalso. exact (Hother t2 th2 N2 E2 P2).
    + exfalso. exact (Hother t1 th1 N1 E1 P1).
    + exfalso. exact (Hother t2 th2 N2 E2 P2).
Qed.

Lemma res_dest_not_caller : forall r p, res_dest r p <> DCaller.
Proof. intros r p. unfold res_dest. destruct r; [destruct (lookup_cap caps p)|]; discriminate. Qed.

Lemma lookup_slot_in : forall sl s h, lookup_slot sl s = Some h -> exists s', In (s', h) sl.
Proof.
  induction sl as [|[k h0] sl IH]; simpl; intros s h H; [discriminate|].
  destruct (k =? s); [inversion H; subst; eauto|]. destruct (IH s h H) as [s' Hs]. eauto.
Qed.

(* ---------------------------------------------------------------- the initial configuration *)

Lemma init_inv : forall ops, Inv (init ops).
Proof.
  intros ops. constructor; simpl; auto; try discriminate.
  - intros _ t d [].
  - constructor.
  - intros x px Hx. destruct x; discriminate.
  - intros x px Hx. destruct x; discriminate.
  - intros s d [].
  - intros t th H. rewrite nth_error_map in H. destruct (nth_error ops t) as [o|]; [|discriminate].
    inversion H; subst. unfold tinv, mk_thread; simpl. destruct o; simpl; auto.
    repeat split; auto. intros d [].
  - intros t1 t2 th1 th2 H1 _ P1. rewrite nth_error_map in H1. destruct (nth_error ops t1) as [o|]; [|discriminate].
    inversion H1; subst. unfold in_precommit, mk_thread in P1. simpl in P1. rewrite andb_false_r in P1. discriminate.
Qed.
