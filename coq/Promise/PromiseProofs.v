(* Proofs about the small-step model of Promise (coq/Promise/Promise.v). *)
From CV Require Import Promise.Promise.
Open Scope Z_scope.

(* the history that shows F11 on the model of answer.go as found: ask for the client of
   path [0] twice; the second call returns the same proxy and leaves mu held by a thread that
   has finished, so the third operation can never start *)
Definition f11_history : list op := [OClient [0] 0; OClient [0] 1; OSend [1] false].

Example client_idempotent_refuted :
  let c := run as_found (init f11_history) [0%nat; 1%nat; 2%nat] in
  finished c 1 = true /\ mu c = Some 1%nat /\ finished c 2 = false /\ enabled as_found c 2 = false.
Proof. vm_compute. repeat split; reflexivity. Qed.
