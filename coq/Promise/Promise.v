(* L1 small-step model of /repo/answer.go : Promise (single promise; the joined chain is in
   PromiseJoin.v), Fulfill / Reject / resolve, Answer.PipelineSend / PipelineRecv,
   Future.Client, Future.Struct, ReleaseClients, and of the part of capability.go the promise
   drives: the promised clientHook of a proxy client (refs, calls, resolved target, done),
   Client.startCall / finish, ClientPromise.Fulfill, Client.Release.

   Every API call is a thread with a program counter over its atomic sections.  An atomic
   section that starts with p.mu.Lock() is enabled only when [mu = None]; it runs to the next
   Unlock / blocking point.  If the code returns without unlocking, the section leaves
   [mu = Some tid] (this is how F11 shows).  Merging "acquire" with the critical section is the
   usual reduction (an acquire is a right mover; all shared fields are protected by mu); what
   is kept is every state at a section boundary and every blocked state.
   Channel waits (<-p.resolved, <-p.callsStopped, <-h.done, the harness gate inside the
   instrumented PipelineCaller) are separate sections enabled when the channel is closed.

   Two switches select the code variant that is modelled:
     v_unlock_on_hit : Future.Client unlocks mu when the proxy already exists
                       (false = answer.go as found: F11)
     v_late_fulfil   : resolve moves to the resolved state first and fulfils the proxy clients
                       afterwards (false = answer.go as found: proxies are fulfilled in the
                       pending-resolution state, which can deadlock: F11b)
   No proofs in this file. *)
From Coq Require Export List ZArith Bool Lia.
Export ListNotations.
Open Scope Z_scope.

Record variant := { v_unlock_on_hit : bool; v_late_fulfil : bool }.
Definition as_found : variant := {| v_unlock_on_hit := false; v_late_fulfil := false |}.
Definition f11_fixed : variant := {| v_unlock_on_hit := true; v_late_fulfil := false |}.
Definition fixed : variant := {| v_unlock_on_hit := true; v_late_fulfil := true |}.

(* ---------------------------------------------------------------- data *)

Definition path := list Z.            (* the Field numbers of a transform (clientPath) *)

Fixpoint path_eqb (a b : path) : bool :=
  match a, b with
  | [], [] => true
  | x :: a', y :: b' => (x =? y) && path_eqb a' b'
  | _, _ => false
  end.

(* where a call ends up *)
Inductive dest :=
| DCaller            (* handed to the PipelineCaller *)
| DCap (k : Z)       (* delivered to capability k of the result *)
| DRej               (* fails with the rejection error *)
| DFail.             (* fails: null / non-capability pointer at the path, released client *)

Inductive resolution :=
| RFul (caps : list (path * Z))   (* Fulfill with a result holding capability k at the given paths *)
| RRej.                           (* Reject *)

Fixpoint lookup_cap (caps : list (path * Z)) (p : path) : option Z :=
  match caps with
  | [] => None
  | (q, k) :: r => if path_eqb q p then Some k else lookup_cap r p
  end.

(* resolution.client(transform) followed by a call on it *)
Definition res_dest (r : resolution) (p : path) : dest :=
  match r with
  | RRej => DRej
  | RFul caps => match lookup_cap caps p with Some k => DCap k | None => DFail end
  end.

Inductive chan := CNil | COpen | CClosed.

(* the promised clientHook + the *Client stored in the promise's table *)
Record proxy := {
  px_path : path;
  px_refs : Z;                (* clientHook.refs *)
  px_calls : Z;               (* clientHook.calls *)
  px_target : option dest;    (* Some = resolved (resolvedHook set, resolved closed) *)
  px_done : bool;             (* clientHook.done closed *)
  px_rel : bool               (* Client.released of the table's client *)
}.

Inductive handle := HProxy (x : nat) | HDirect (d : dest).

Inductive op :=
| OFulfill (caps : list (path * Z)) (ord : list path)  (* ord: map iteration order of resolve *)
| OReject (ord : list path)
| OSend (p : path) (gated : bool)      (* Answer.PipelineSend / PipelineRecv *)
| OClient (p : path) (slot : Z)        (* Future.Client(); result stored in slot *)
| OCall (slot : Z) (gated : bool)      (* Client.SendCall / RecvCall on the client in slot *)
| ORelease                             (* ReleaseClients *)
| OWait                                (* Future.Struct / <-Done() *)
| OUngate (n : nat).                   (* the application lets call n leave the PipelineCaller *)

Inductive pc :=
| PStart
| PCallLock                 (* PipelineSend entry: Lock, look at the state *)
| PInCaller                 (* inside caller.PipelineSend (ongoingCalls counted) *)
| PCallRelock               (* caller returned: Lock, ongoingCalls-- *)
| PWaitRes                  (* blocked on <-p.resolved *)
| PAfterRes                 (* Lock, read the resolution *)
| PCallFinish               (* finish() of Client.startCall on the proxy hook *)
| PFul (rest : list nat)    (* resolve: next ClientPromise.Fulfill *)
| PFulWait (x : nat) (rest : list nat)   (* ClientPromise.Fulfill: <-cp.h.done *)
| PStopWait                 (* resolve: <-p.callsStopped *)
| PCommit                   (* resolve: Lock, move to the resolved state *)
| PRel (rest : list nat)    (* ReleaseClients: next Client.Release *)
| PRelWait (x : nat) (rest : list nat)   (* Client.Release: <-h.done *)
| PDone.

Inductive outcome := ONone | ORet | OPanic | OHandle (h : handle) | ONoSlot | OStruct (ok : bool).

Record thread := {
  t_op : op;
  t_pc : pc;
  t_path : path;            (* transform of the pipelined call in progress *)
  t_via : option nat;       (* the proxy hook the call came through *)
  t_out : outcome
}.

Inductive event :=
| EBegin (t : nat)                 (* Fulfill/Reject passed the isUnresolved check: caller := nil *)
| EResolved (t : nat)              (* signals closed *)
| EDeliver (t : nat) (d : dest).   (* call of thread t delivered to / failed with d *)

Record config := {
  mu : option nat;                   (* holder of Promise.mu at a section boundary *)
  caller : bool;                     (* p.caller != nil *)
  sig_open : bool;                   (* len(p.signals) > 0, i.e. p.resolved not closed *)
  ongoing : Z;                       (* p.ongoingCalls *)
  stopped : chan;                    (* p.callsStopped *)
  clients : list (path * nat);       (* p.clients: path -> proxy (one per path, single promise) *)
  crefs : Z;                         (* p.clientsRefs *)
  relflag : bool;                    (* p.releasedClients *)
  result : option resolution;        (* p.result / p.err *)
  proxies : list proxy;
  threads : list thread;
  slots : list (Z * handle);
  gates : list nat;                  (* calls the application has let go *)
  events : list event                (* newest first *)
}.

(* ---------------------------------------------------------------- helpers *)

Fixpoint upd {A} (n : nat) (x : A) (l : list A) : list A :=
  match l, n with
  | [], _ => []
  | _ :: r, O => x :: r
  | y :: r, S n' => y :: upd n' x r
  end.

Fixpoint find_client (cl : list (path * nat)) (p : path) : option nat :=
  match cl with
  | [] => None
  | (q, x) :: r => if path_eqb q p then Some x else find_client r p
  end.

Fixpoint lookup_slot (sl : list (Z * handle)) (s : Z) : option handle :=
  match sl with
  | [] => None
  | (k, h) :: r => if k =? s then Some h else lookup_slot r s
  end.

Fixpoint mem_nat (n : nat) (l : list nat) : bool :=
  match l with [] => false | m :: r => Nat.eqb n m || mem_nat n r end.

Fixpoint mem_path (p : path) (l : list path) : bool :=
  match l with [] => false | q :: r => path_eqb p q || mem_path p r end.

(* the order in which resolve's "for path, row := range p.clients" visits the table: the paths
   listed in ord first (in that order), then the others in table order *)
Fixpoint pick_ord (ord : list path) (cl : list (path * nat)) : list nat :=
  match ord with
  | [] => []
  | q :: r => match find_client cl q with
              | Some x => if mem_nat x (pick_ord r cl) then pick_ord r cl else x :: pick_ord r cl
              | None => pick_ord r cl
              end
  end.

Definition iter_order (ord : list path) (cl : list (path * nat)) : list nat :=
  let first := pick_ord ord cl in
  first ++ filter (fun x => negb (mem_nat x first)) (map snd cl).

Definition cur_res (c : config) : resolution :=
  match result c with Some r => r | None => RFul [] end.

Definition op_res (o : op) : resolution :=
  match o with OFulfill caps _ => RFul caps | _ => RRej end.

Definition op_ord (o : op) : list path :=
  match o with OFulfill _ ord => ord | OReject ord => ord | _ => [] end.

Definition op_gated (o : op) : bool :=
  match o with OSend _ g => g | OCall _ g => g | _ => false end.

Definition dflt_proxy : proxy :=
  {| px_path := []; px_refs := 0; px_calls := 0; px_target := None; px_done := false; px_rel := false |}.

Definition get_px (c : config) (x : nat) : proxy := nth x (proxies c) dflt_proxy.

(* ---- functional record update *)
Definition set_thread (c : config) (t : nat) (th : thread) : config :=
  {| mu := mu c; caller := caller c; sig_open := sig_open c; ongoing := ongoing c; stopped := stopped c;
     clients := clients c; crefs := crefs c; relflag := relflag c; result := result c;
     proxies := proxies c; threads := upd t th (threads c); slots := slots c; gates := gates c;
     events := events c |}.

Definition set_px (c : config) (x : nat) (p : proxy) : config :=
  {| mu := mu c; caller := caller c; sig_open := sig_open c; ongoing := ongoing c; stopped := stopped c;
     clients := clients c; crefs := crefs c; relflag := relflag c; result := result c;
     proxies := upd x p (proxies c); threads := threads c; slots := slots c; gates := gates c;
     events := events c |}.

Definition log (c : config) (e : event) : config :=
  {| mu := mu c; caller := caller c; sig_open := sig_open c; ongoing := ongoing c; stopped := stopped c;
     clients := clients c; crefs := crefs c; relflag := relflag c; result := result c;
     proxies := proxies c; threads := threads c; slots := slots c; gates := gates c;
     events := e :: events c |}.

Definition set_slot (c : config) (s : Z) (h : handle) : config :=
  {| mu := mu c; caller := caller c; sig_open := sig_open c; ongoing := ongoing c; stopped := stopped c;
     clients := clients c; crefs := crefs c; relflag := relflag c; result := result c;
     proxies := proxies c; threads := threads c; slots := (s, h) :: slots c; gates := gates c;
     events := events c |}.

Definition set_mu (c : config) (m : option nat) : config :=
  {| mu := m; caller := caller c; sig_open := sig_open c; ongoing := ongoing c; stopped := stopped c;
     clients := clients c; crefs := crefs c; relflag := relflag c; result := result c;
     proxies := proxies c; threads := threads c; slots := slots c; gates := gates c;
     events := events c |}.

(* promise fields written by the sections *)
Definition set_core (c : config) (cal sg : bool) (og : Z) (st : chan) (rs : option resolution) : config :=
  {| mu := mu c; caller := cal; sig_open := sg; ongoing := og; stopped := st;
     clients := clients c; crefs := crefs c; relflag := relflag c; result := rs;
     proxies := proxies c; threads := threads c; slots := slots c; gates := gates c;
     events := events c |}.

Definition set_table (c : config) (cl : list (path * nat)) (rf : Z) (fl : bool) (pxs : list proxy) : config :=
  {| mu := mu c; caller := caller c; sig_open := sig_open c; ongoing := ongoing c; stopped := stopped c;
     clients := cl; crefs := rf; relflag := fl; result := result c;
     proxies := pxs; threads := threads c; slots := slots c; gates := gates c;
     events := events c |}.

Definition add_gate (c : config) (n : nat) : config :=
  {| mu := mu c; caller := caller c; sig_open := sig_open c; ongoing := ongoing c; stopped := stopped c;
     clients := clients c; crefs := crefs c; relflag := relflag c; result := result c;
     proxies := proxies c; threads := threads c; slots := slots c; gates := n :: gates c;
     events := events c |}.

Definition goto (th : thread) (p : pc) : thread :=
  {| t_op := t_op th; t_pc := p; t_path := t_path th; t_via := t_via th; t_out := t_out th |}.

Definition finish (th : thread) (o : outcome) : thread :=
  {| t_op := t_op th; t_pc := PDone; t_path := t_path th; t_via := t_via th; t_out := o |}.

Definition enter_call (th : thread) (p : path) (via : option nat) : thread :=
  {| t_op := t_op th; t_pc := PCallLock; t_path := p; t_via := via; t_out := t_out th |}.

(* a pipelined call has its answer: a call that came through a proxy hook still runs finish() *)
Definition call_done (th : thread) : thread :=
  match t_via th with
  | Some _ => goto th PCallFinish
  | None => finish th ORet
  end.

Definition mu_free (c : config) : bool := match mu c with None => true | Some _ => false end.

(* the "move p into resolved state" block of resolve *)
Definition commit (c : config) (t : nat) (r : resolution) : config :=
  log (set_core c false false (ongoing c) CNil (Some r)) (EResolved t).

(* ---------------------------------------------------------------- sections *)

(* Fulfill / Reject entry:  Lock; isUnresolved check; resolve up to its first Unlock *)
Definition sec_resolve_start (v : variant) (c : config) (t : nat) (th : thread) : option config :=
  if negb (mu_free c) then None else
  if negb (caller c) then Some (set_thread c t (finish th OPanic))   (* panic; deferred Unlock *)
  else
    let r := op_res (t_op th) in
    let c1 := log (set_core c false (sig_open c) (ongoing c) (stopped c) (result c)) (EBegin t) in
    let order := iter_order (op_ord (t_op th)) (clients c) in
    if v_late_fulfil v then
      if 0 <? ongoing c then
        Some (set_thread (set_core c1 false (sig_open c) (ongoing c) COpen (result c)) t (goto th PStopWait))
      else
        let c2 := commit c1 t r in
        match order with
        | [] => Some (set_thread c2 t (finish th ORet))
        | _ => Some (set_thread c2 t (goto th (PFul order)))
        end
    else
      match order with
      | [] =>
        if 0 <? ongoing c then
          Some (set_thread (set_core c1 false (sig_open c) (ongoing c) COpen (result c)) t (goto th (PFul [])))
        else Some (set_thread (commit c1 t r) t (finish th ORet))
      | _ =>
        let st := if 0 <? ongoing c then COpen else stopped c in
        Some (set_thread (set_core c1 false (sig_open c) (ongoing c) st (result c)) t (goto th (PFul order)))
      end.

(* ClientPromise.Fulfill(res.client(path)) up to <-cp.h.done *)
Definition sec_fulfil_proxy (v : variant) (c : config) (t : nat) (th : thread) (rest : list nat) : option config :=
  match rest with
  | [] =>
    if v_late_fulfil v then Some (set_thread c t (finish th ORet))
    else match stopped c with
         | CNil => Some (set_thread c t (goto th PCommit))
         | _ => Some (set_thread c t (goto th PStopWait))
         end
  | x :: rest' =>
    let p := get_px c x in
    let d := res_dest (op_res (t_op th)) (px_path p) in
    let refs := px_refs p in
    if refs =? 0 then
      Some (set_thread (set_px c x {| px_path := px_path p; px_refs := 0; px_calls := px_calls p;
                                      px_target := Some d; px_done := px_done p; px_rel := px_rel p |})
                       t (goto th (PFul rest')))
    else
      Some (set_thread (set_px c x {| px_path := px_path p; px_refs := 0; px_calls := px_calls p;
                                      px_target := Some d;
                                      px_done := if px_calls p =? 0 then true else px_done p;
                                      px_rel := px_rel p |})
                       t (goto th (PFulWait x rest')))
  end.

Definition sec_commit (v : variant) (c : config) (t : nat) (th : thread) : option config :=
  if negb (mu_free c) then None else
  let c2 := commit c t (op_res (t_op th)) in
  if v_late_fulfil v then
    match iter_order (op_ord (t_op th)) (clients c) with
    | [] => Some (set_thread c2 t (finish th ORet))
    | order => Some (set_thread c2 t (goto th (PFul order)))
    end
  else Some (set_thread c2 t (finish th ORet)).

(* PipelineSend / PipelineRecv after the (trivial, single promise) traversal *)
Definition sec_call_lock (c : config) (t : nat) (th : thread) : option config :=
  if negb (mu_free c) then None else
  if caller c then
    Some (set_thread (log (set_core c (caller c) (sig_open c) (ongoing c + 1) (stopped c) (result c))
                          (EDeliver t DCaller)) t (goto th PInCaller))
  else if sig_open c then Some (set_thread c t (goto th PWaitRes))
  else Some (set_thread (log c (EDeliver t (res_dest (cur_res c) (t_path th)))) t (call_done th)).

Definition sec_call_relock (c : config) (t : nat) (th : thread) : option config :=
  if negb (mu_free c) then None else
  let og := ongoing c - 1 in
  let st := match stopped c with COpen => if og =? 0 then CClosed else COpen | s => s end in
  Some (set_thread (set_core c (caller c) (sig_open c) og st (result c)) t (call_done th)).

Definition sec_call_finish (c : config) (t : nat) (th : thread) : option config :=
  match t_via th with
  | None => Some (set_thread c t (finish th ORet))
  | Some x =>
    let p := get_px c x in
    let calls := px_calls p - 1 in
    Some (set_thread (set_px c x {| px_path := px_path p; px_refs := px_refs p; px_calls := calls;
                                    px_target := px_target p;
                                    px_done := if (px_refs p =? 0) && (calls =? 0) then true else px_done p;
                                    px_rel := px_rel p |})
                     t (finish th ORet))
  end.

(* after <-p.resolved: Lock, read the resolution, Unlock *)
Definition sec_after_res (c : config) (t : nat) (th : thread) : option config :=
  if negb (mu_free c) then None else
  match t_op th with
  | OSend _ _ | OCall _ _ =>
    Some (set_thread (log c (EDeliver t (res_dest (cur_res c) (t_path th)))) t (call_done th))
  | OClient p s =>
    let h := HDirect (res_dest (cur_res c) p) in
    Some (set_thread (set_slot c s h) t (finish th (OHandle h)))
  | OWait =>
    Some (set_thread c t (finish th (OStruct (match cur_res c with RRej => false | _ => true end))))
  | ORelease =>
    if relflag c then Some (set_thread c t (finish th ORet))
    else
      let rf := crefs c - 1 in
      if 0 <? rf then Some (set_thread (set_table c (clients c) rf true (proxies c)) t (finish th ORet))
      else Some (set_thread (set_table c [] rf true (proxies c)) t (goto th (PRel (map snd (clients c)))))
  | _ => None
  end.

(* Future.Client *)
Definition sec_client (v : variant) (c : config) (t : nat) (th : thread) (p : path) (s : Z) : option config :=
  if negb (mu_free c) then None else
  if caller c then
    match find_client (clients c) p with
    | Some x =>
      let h := HProxy x in
      let c1 := set_thread (set_slot c s h) t (finish th (OHandle h)) in
      (* answer.go as found: "return row[0].client" with mu still held *)
      Some (if v_unlock_on_hit v then c1 else set_mu c1 (Some t))
    | None =>
      let x := length (proxies c) in
      let np := {| px_path := p; px_refs := 1; px_calls := 0; px_target := None; px_done := false; px_rel := false |} in
      let h := HProxy x in
      Some (set_thread (set_slot (set_table c (clients c ++ [(p, x)]) (crefs c) (relflag c) (proxies c ++ [np])) s h)
                       t (finish th (OHandle h)))
    end
  else if sig_open c then Some (set_thread c t (goto th PWaitRes))
  else
    let h := HDirect (res_dest (cur_res c) p) in
    Some (set_thread (set_slot c s h) t (finish th (OHandle h))).

(* Client.SendCall on the client in the slot: startCall *)
Definition sec_call_start (c : config) (t : nat) (th : thread) (s : Z) : option config :=
  match lookup_slot (slots c) s with
  | None => Some (set_thread c t (finish th ONoSlot))
  | Some (HDirect d) => Some (set_thread (log c (EDeliver t d)) t (finish th ORet))
  | Some (HProxy x) =>
    let p := get_px c x in
    if px_rel p then Some (set_thread (log c (EDeliver t DFail)) t (finish th ORet))
    else match px_target p with
         | Some d => Some (set_thread (log c (EDeliver t d)) t (finish th ORet))
         | None =>
           Some (set_thread (set_px c x {| px_path := px_path p; px_refs := px_refs p; px_calls := px_calls p + 1;
                                           px_target := None; px_done := px_done p; px_rel := px_rel p |})
                            t (enter_call th (px_path p) (Some x)))
         end
  end.

(* Client.Release of a table client up to <-h.done *)
Definition sec_release_proxy (c : config) (t : nat) (th : thread) (rest : list nat) : option config :=
  match rest with
  | [] => Some (set_thread c t (finish th ORet))
  | x :: rest' =>
    let p := get_px c x in
    if px_rel p then Some (set_thread c t (goto th (PRel rest')))
    else match px_target p with
         | Some d =>   (* resolved: the reference is dropped on the target hook (C10's business) *)
           Some (set_thread (set_px c x {| px_path := px_path p; px_refs := px_refs p; px_calls := px_calls p;
                                           px_target := Some d; px_done := px_done p; px_rel := true |})
                            t (goto th (PRel rest')))
         | None =>
           let refs := px_refs p - 1 in
           if 0 <? refs then
             Some (set_thread (set_px c x {| px_path := px_path p; px_refs := refs; px_calls := px_calls p;
                                             px_target := None; px_done := px_done p; px_rel := true |})
                              t (goto th (PRel rest')))
           else
             Some (set_thread (set_px c x {| px_path := px_path p; px_refs := refs; px_calls := px_calls p;
                                             px_target := None;
                                             px_done := if px_calls p =? 0 then true else px_done p;
                                             px_rel := true |})
                              t (goto th (PRelWait x rest')))
         end
  end.

(* ---------------------------------------------------------------- step *)

Definition step_thread (v : variant) (c : config) (t : nat) (th : thread) : option config :=
  match t_pc th with
  | PDone => None
  | PStart =>
    match t_op th with
    | OFulfill _ _ | OReject _ => sec_resolve_start v c t th
    | OSend p _ => Some (set_thread c t (enter_call th p None))
    | OClient p s => sec_client v c t th p s
    | OCall s _ => sec_call_start c t th s
    | ORelease | OWait => if sig_open c then None else Some (set_thread c t (goto th PAfterRes))
    | OUngate n => Some (set_thread (add_gate c n) t (finish th ORet))
    end
  | PCallLock => sec_call_lock c t th
  | PInCaller =>
    if negb (op_gated (t_op th)) || mem_nat t (gates c) then Some (set_thread c t (goto th PCallRelock)) else None
  | PCallRelock => sec_call_relock c t th
  | PWaitRes => if sig_open c then None else Some (set_thread c t (goto th PAfterRes))
  | PAfterRes => sec_after_res c t th
  | PCallFinish => sec_call_finish c t th
  | PFul rest => sec_fulfil_proxy v c t th rest
  | PFulWait x rest => if px_done (get_px c x) then Some (set_thread c t (goto th (PFul rest))) else None
  | PStopWait => match stopped c with CClosed => Some (set_thread c t (goto th PCommit)) | _ => None end
  | PCommit => sec_commit v c t th
  | PRel rest => sec_release_proxy c t th rest
  | PRelWait x rest => if px_done (get_px c x) then Some (set_thread c t (goto th (PRel rest))) else None
  end.

Definition step (v : variant) (c : config) (t : nat) : option config :=
  match nth_error (threads c) t with
  | Some th => step_thread v c t th
  | None => None
  end.

Definition mk_thread (o : op) : thread :=
  {| t_op := o; t_pc := PStart; t_path := []; t_via := None; t_out := ONone |}.

(* NewPromise: unresolved, one signal, clientsRefs = 1, no table *)
Definition init (ops : list op) : config :=
  {| mu := None; caller := true; sig_open := true; ongoing := 0; stopped := CNil; clients := [];
     crefs := 1; relflag := false; result := None; proxies := []; threads := map mk_thread ops;
     slots := []; gates := []; events := [] |}.

(* reachability under any schedule *)
Inductive reach (v : variant) (ops : list op) : config -> Prop :=
| reach_init : reach v ops (init ops)
| reach_step : forall c t c', reach v ops c -> step v c t = Some c' -> reach v ops c'.

(* executable schedules *)
Fixpoint run (v : variant) (c : config) (sched : list nat) : config :=
  match sched with
  | [] => c
  | t :: r => match step v c t with Some c' => run v c' r | None => run v c r end
  end.

Definition enabled (v : variant) (c : config) (t : nat) : bool :=
  match step v c t with Some _ => true | None => false end.

Definition finished (c : config) (t : nat) : bool :=
  match nth_error (threads c) t with
  | Some th => match t_pc th with PDone => true | _ => false end
  | None => true
  end.

(* a thread that is blocked only because it needs mu *)
Definition wants_mu (c : config) (t : nat) : bool :=
  match nth_error (threads c) t with
  | Some th =>
    match t_pc th with
    | PCallLock | PCallRelock | PAfterRes | PCommit => true
    | PStart => match t_op th with OFulfill _ _ | OReject _ | OClient _ _ => true | _ => false end
    | _ => false
    end
  | None => false
  end.

(* run-to-quiescence of threads 0..n-1 (lowest enabled first), as the correspondence harness does
   after launching each operation; fuel exhaustion is reported (None) *)
Fixpoint first_enabled (v : variant) (c : config) (n : nat) : option nat :=
  match n with
  | O => None
  | S k => match first_enabled v c k with
           | Some t => Some t
           | None => if enabled v c k then Some k else None
           end
  end.

Fixpoint quiesce (v : variant) (fuel : nat) (c : config) (n : nat) : option config :=
  match fuel with
  | O => None
  | S f => match first_enabled v c n with
           | None => Some c
           | Some t => match step v c t with
                       | Some c' => quiesce v f c' n
                       | None => Some c
                       end
           end
  end.
