(* L1 small-step model of answer.go's Promise WITH Join: several promises, each with its own mu,
   the five states (unresolved / pending resolution / resolved / pending join / joined), signals and
   proxy clients moved to the promise joined onto, traversal through joined promises without lock
   overlap, and Join's ordered locking (p, then the promise it joins).  Same conventions as Promise.v
   (a section that starts with Lock is enabled only when that mu is free; it runs to the next Unlock
   or blocking point); Promise.v is the special case of one promise and no Join, where the full set
   of theorems is proved.  Switches:
     jv_close_joined  : resolve's final block closes p.joined (false = seeded change C11-3)
     jv_alloc_table   : Join allocates the other promise's client table (false = as found: F11c)
     jv_refs_sum      : Join adds all of p's clientsRefs to the promise joined onto (false = seeded C11-r2-1: ++)
   No proofs in this file. *)
From CV Require Import Promise.Promise.
Open Scope Z_scope.

Record jvariant := { jv_close_joined : bool; jv_alloc_table : bool; jv_refs_sum : bool }.
Definition jfixed : jvariant := {| jv_close_joined := true; jv_alloc_table := true; jv_refs_sum := true |}.
Definition jseed3 : jvariant := {| jv_close_joined := false; jv_alloc_table := true; jv_refs_sum := true |}.
Definition jf11c : jvariant := {| jv_close_joined := true; jv_alloc_table := false; jv_refs_sum := true |}.
(* seeded change C11-r2-1: Join hands the promise joined onto one reference instead of all of p's *)
Definition jrefs1 : jvariant := {| jv_close_joined := true; jv_alloc_table := true; jv_refs_sum := false |}.

Inductive jop :=
| JFulfill (k : nat) (caps : list (path * Z))
| JReject (k : nat)
| JJoin (k : nat) (parent : nat)          (* promise k .Join(promise parent .Answer()) *)
| JSend (k : nat) (p : path) (gated : bool)
| JClient (k : nat) (p : path) (slot : Z)
| JCall (slot : Z) (gated : bool)
| JRelease (k : nat)
| JWait (k : nat)
| JUngate (n : nat).

Inductive jpc :=
| QStart
| QTrav          (* Lock j_cur; pending join -> wait; joined -> next; else the operation's switch *)
| QWaitJ         (* <-j of j_cur *)
| QInCaller | QRelock
| QWaitKnown     (* <-pendingDone of j_cur *)
| QAfterKnown    (* Lock j_cur; call on the result *)
| QCallFinish
| QWaitRes       (* <-p.resolved of j_cur (Future.Client) *)
| QAfterRes
| QStopWait | QKnown | QFul | QFulWait | QClose      (* resolve of promise j_cur *)
| QJStopWait | QJRelock     (* Join: wait for own ongoing calls *)
| QJPar          (* Join: holding p.mu; Lock j_par; look at its state *)
| QJWaitRes | QJWaitJ | QJLockP
| QRelWalk | QRel | QRelWait
| QWaitWalk
| QDone.

Record prom := {
  p_mu : option nat;
  p_caller : bool;
  p_signals : list nat;
  p_resclosed : bool;
  p_ongoing : Z;
  p_stopped : chan;
  p_known : chan;
  p_joined : chan;
  p_next : option nat;
  p_clients : list (path * list nat);
  p_hastable : bool;
  p_crefs : Z;
  p_relflag : bool;
  p_result : option resolution
}.

Record jproxy := {
  jx_owner : nat;
  jx_path : path;
  jx_refs : Z;
  jx_calls : Z;
  jx_target : option dest;
  jx_done : bool;
  jx_rel : bool
}.

Record jthread := {
  j_op : jop;
  j_pc : jpc;
  j_cur : nat;
  j_par : nat;
  j_path : path;
  j_via : option nat;
  j_rest : list nat;
  j_waitx : nat;
  j_res : resolution;
  j_out : outcome
}.

(* events of the Join model carry the promise they concern *)
Inductive jevent :=
| JEBegin (t k : nat)                 (* thread t: promise k leaves the unresolved state (caller := nil) *)
| JEResolved (t k : nat)              (* thread t: result of promise k set; pipelined calls are made on it *)
| JEDeliver (t k : nat) (d : dest)    (* call of thread t delivered at promise k (end of the traversal) *)
| JEDirect (t : nat) (d : dest).      (* call of thread t through an already resolved / released client *)

Record jconfig := {
  proms : list (nat * prom);   (* finite map promise index -> state *)
  jproxies : list jproxy;
  jthreads : list jthread;
  jslots : list (Z * handle);
  jgates : list nat;
  jevents : list jevent
}.

Definition sp_mu (r : prom) v : prom := {| p_mu := v; p_caller := p_caller r; p_signals := p_signals r; p_resclosed := p_resclosed r; p_ongoing := p_ongoing r; p_stopped := p_stopped r; p_known := p_known r; p_joined := p_joined r; p_next := p_next r; p_clients := p_clients r; p_hastable := p_hastable r; p_crefs := p_crefs r; p_relflag := p_relflag r; p_result := p_result r |}.
Definition sp_caller (r : prom) v : prom := {| p_mu := p_mu r; p_caller := v; p_signals := p_signals r; p_resclosed := p_resclosed r; p_ongoing := p_ongoing r; p_stopped := p_stopped r; p_known := p_known r; p_joined := p_joined r; p_next := p_next r; p_clients := p_clients r; p_hastable := p_hastable r; p_crefs := p_crefs r; p_relflag := p_relflag r; p_result := p_result r |}.
Definition sp_signals (r : prom) v : prom := {| p_mu := p_mu r; p_caller := p_caller r; p_signals := v; p_resclosed := p_resclosed r; p_ongoing := p_ongoing r; p_stopped := p_stopped r; p_known := p_known r; p_joined := p_joined r; p_next := p_next r; p_clients := p_clients r; p_hastable := p_hastable r; p_crefs := p_crefs r; p_relflag := p_relflag r; p_result := p_result r |}.
Definition sp_resclosed (r : prom) v : prom := {| p_mu := p_mu r; p_caller := p_caller r; p_signals := p_signals r; p_resclosed := v; p_ongoing := p_ongoing r; p_stopped := p_stopped r; p_known := p_known r; p_joined := p_joined r; p_next := p_next r; p_clients := p_clients r; p_hastable := p_hastable r; p_crefs := p_crefs r; p_relflag := p_relflag r; p_result := p_result r |}.
Definition sp_ongoing (r : prom) v : prom := {| p_mu := p_mu r; p_caller := p_caller r; p_signals := p_signals r; p_resclosed := p_resclosed r; p_ongoing := v; p_stopped := p_stopped r; p_known := p_known r; p_joined := p_joined r; p_next := p_next r; p_clients := p_clients r; p_hastable := p_hastable r; p_crefs := p_crefs r; p_relflag := p_relflag r; p_result := p_result r |}.
Definition sp_stopped (r : prom) v : prom := {| p_mu := p_mu r; p_caller := p_caller r; p_signals := p_signals r; p_resclosed := p_resclosed r; p_ongoing := p_ongoing r; p_stopped := v; p_known := p_known r; p_joined := p_joined r; p_next := p_next r; p_clients := p_clients r; p_hastable := p_hastable r; p_crefs := p_crefs r; p_relflag := p_relflag r; p_result := p_result r |}.
Definition sp_known (r : prom) v : prom := {| p_mu := p_mu r; p_caller := p_caller r; p_signals := p_signals r; p_resclosed := p_resclosed r; p_ongoing := p_ongoing r; p_stopped := p_stopped r; p_known := v; p_joined := p_joined r; p_next := p_next r; p_clients := p_clients r; p_hastable := p_hastable r; p_crefs := p_crefs r; p_relflag := p_relflag r; p_result := p_result r |}.
Definition sp_joined (r : prom) v : prom := {| p_mu := p_mu r; p_caller := p_caller r; p_signals := p_signals r; p_resclosed := p_resclosed r; p_ongoing := p_ongoing r; p_stopped := p_stopped r; p_known := p_known r; p_joined := v; p_next := p_next r; p_clients := p_clients r; p_hastable := p_hastable r; p_crefs := p_crefs r; p_relflag := p_relflag r; p_result := p_result r |}.
Definition sp_next (r : prom) v : prom := {| p_mu := p_mu r; p_caller := p_caller r; p_signals := p_signals r; p_resclosed := p_resclosed r; p_ongoing := p_ongoing r; p_stopped := p_stopped r; p_known := p_known r; p_joined := p_joined r; p_next := v; p_clients := p_clients r; p_hastable := p_hastable r; p_crefs := p_crefs r; p_relflag := p_relflag r; p_result := p_result r |}.
Definition sp_clients (r : prom) v : prom := {| p_mu := p_mu r; p_caller := p_caller r; p_signals := p_signals r; p_resclosed := p_resclosed r; p_ongoing := p_ongoing r; p_stopped := p_stopped r; p_known := p_known r; p_joined := p_joined r; p_next := p_next r; p_clients := v; p_hastable := p_hastable r; p_crefs := p_crefs r; p_relflag := p_relflag r; p_result := p_result r |}.
Definition sp_hastable (r : prom) v : prom := {| p_mu := p_mu r; p_caller := p_caller r; p_signals := p_signals r; p_resclosed := p_resclosed r; p_ongoing := p_ongoing r; p_stopped := p_stopped r; p_known := p_known r; p_joined := p_joined r; p_next := p_next r; p_clients := p_clients r; p_hastable := v; p_crefs := p_crefs r; p_relflag := p_relflag r; p_result := p_result r |}.
Definition sp_crefs (r : prom) v : prom := {| p_mu := p_mu r; p_caller := p_caller r; p_signals := p_signals r; p_resclosed := p_resclosed r; p_ongoing := p_ongoing r; p_stopped := p_stopped r; p_known := p_known r; p_joined := p_joined r; p_next := p_next r; p_clients := p_clients r; p_hastable := p_hastable r; p_crefs := v; p_relflag := p_relflag r; p_result := p_result r |}.
Definition sp_relflag (r : prom) v : prom := {| p_mu := p_mu r; p_caller := p_caller r; p_signals := p_signals r; p_resclosed := p_resclosed r; p_ongoing := p_ongoing r; p_stopped := p_stopped r; p_known := p_known r; p_joined := p_joined r; p_next := p_next r; p_clients := p_clients r; p_hastable := p_hastable r; p_crefs := p_crefs r; p_relflag := v; p_result := p_result r |}.
Definition sp_result (r : prom) v : prom := {| p_mu := p_mu r; p_caller := p_caller r; p_signals := p_signals r; p_resclosed := p_resclosed r; p_ongoing := p_ongoing r; p_stopped := p_stopped r; p_known := p_known r; p_joined := p_joined r; p_next := p_next r; p_clients := p_clients r; p_hastable := p_hastable r; p_crefs := p_crefs r; p_relflag := p_relflag r; p_result := v |}.

Definition sjx_owner (r : jproxy) v : jproxy := {| jx_owner := v; jx_path := jx_path r; jx_refs := jx_refs r; jx_calls := jx_calls r; jx_target := jx_target r; jx_done := jx_done r; jx_rel := jx_rel r |}.
Definition sjx_path (r : jproxy) v : jproxy := {| jx_owner := jx_owner r; jx_path := v; jx_refs := jx_refs r; jx_calls := jx_calls r; jx_target := jx_target r; jx_done := jx_done r; jx_rel := jx_rel r |}.
Definition sjx_refs (r : jproxy) v : jproxy := {| jx_owner := jx_owner r; jx_path := jx_path r; jx_refs := v; jx_calls := jx_calls r; jx_target := jx_target r; jx_done := jx_done r; jx_rel := jx_rel r |}.
Definition sjx_calls (r : jproxy) v : jproxy := {| jx_owner := jx_owner r; jx_path := jx_path r; jx_refs := jx_refs r; jx_calls := v; jx_target := jx_target r; jx_done := jx_done r; jx_rel := jx_rel r |}.
Definition sjx_target (r : jproxy) v : jproxy := {| jx_owner := jx_owner r; jx_path := jx_path r; jx_refs := jx_refs r; jx_calls := jx_calls r; jx_target := v; jx_done := jx_done r; jx_rel := jx_rel r |}.
Definition sjx_done (r : jproxy) v : jproxy := {| jx_owner := jx_owner r; jx_path := jx_path r; jx_refs := jx_refs r; jx_calls := jx_calls r; jx_target := jx_target r; jx_done := v; jx_rel := jx_rel r |}.
Definition sjx_rel (r : jproxy) v : jproxy := {| jx_owner := jx_owner r; jx_path := jx_path r; jx_refs := jx_refs r; jx_calls := jx_calls r; jx_target := jx_target r; jx_done := jx_done r; jx_rel := v |}.

Definition sj_op (r : jthread) v : jthread := {| j_op := v; j_pc := j_pc r; j_cur := j_cur r; j_par := j_par r; j_path := j_path r; j_via := j_via r; j_rest := j_rest r; j_waitx := j_waitx r; j_res := j_res r; j_out := j_out r |}.
Definition sj_pc (r : jthread) v : jthread := {| j_op := j_op r; j_pc := v; j_cur := j_cur r; j_par := j_par r; j_path := j_path r; j_via := j_via r; j_rest := j_rest r; j_waitx := j_waitx r; j_res := j_res r; j_out := j_out r |}.
Definition sj_cur (r : jthread) v : jthread := {| j_op := j_op r; j_pc := j_pc r; j_cur := v; j_par := j_par r; j_path := j_path r; j_via := j_via r; j_rest := j_rest r; j_waitx := j_waitx r; j_res := j_res r; j_out := j_out r |}.
Definition sj_par (r : jthread) v : jthread := {| j_op := j_op r; j_pc := j_pc r; j_cur := j_cur r; j_par := v; j_path := j_path r; j_via := j_via r; j_rest := j_rest r; j_waitx := j_waitx r; j_res := j_res r; j_out := j_out r |}.
Definition sj_path (r : jthread) v : jthread := {| j_op := j_op r; j_pc := j_pc r; j_cur := j_cur r; j_par := j_par r; j_path := v; j_via := j_via r; j_rest := j_rest r; j_waitx := j_waitx r; j_res := j_res r; j_out := j_out r |}.
Definition sj_via (r : jthread) v : jthread := {| j_op := j_op r; j_pc := j_pc r; j_cur := j_cur r; j_par := j_par r; j_path := j_path r; j_via := v; j_rest := j_rest r; j_waitx := j_waitx r; j_res := j_res r; j_out := j_out r |}.
Definition sj_rest (r : jthread) v : jthread := {| j_op := j_op r; j_pc := j_pc r; j_cur := j_cur r; j_par := j_par r; j_path := j_path r; j_via := j_via r; j_rest := v; j_waitx := j_waitx r; j_res := j_res r; j_out := j_out r |}.
Definition sj_waitx (r : jthread) v : jthread := {| j_op := j_op r; j_pc := j_pc r; j_cur := j_cur r; j_par := j_par r; j_path := j_path r; j_via := j_via r; j_rest := j_rest r; j_waitx := v; j_res := j_res r; j_out := j_out r |}.
Definition sj_res (r : jthread) v : jthread := {| j_op := j_op r; j_pc := j_pc r; j_cur := j_cur r; j_par := j_par r; j_path := j_path r; j_via := j_via r; j_rest := j_rest r; j_waitx := j_waitx r; j_res := v; j_out := j_out r |}.
Definition sj_out (r : jthread) v : jthread := {| j_op := j_op r; j_pc := j_pc r; j_cur := j_cur r; j_par := j_par r; j_path := j_path r; j_via := j_via r; j_rest := j_rest r; j_waitx := j_waitx r; j_res := j_res r; j_out := v |}.

Definition sproms (r : jconfig) v : jconfig := {| proms := v; jproxies := jproxies r; jthreads := jthreads r; jslots := jslots r; jgates := jgates r; jevents := jevents r |}.
Definition sjproxies (r : jconfig) v : jconfig := {| proms := proms r; jproxies := v; jthreads := jthreads r; jslots := jslots r; jgates := jgates r; jevents := jevents r |}.
Definition sjthreads (r : jconfig) v : jconfig := {| proms := proms r; jproxies := jproxies r; jthreads := v; jslots := jslots r; jgates := jgates r; jevents := jevents r |}.
Definition sjslots (r : jconfig) v : jconfig := {| proms := proms r; jproxies := jproxies r; jthreads := jthreads r; jslots := v; jgates := jgates r; jevents := jevents r |}.
Definition sjgates (r : jconfig) v : jconfig := {| proms := proms r; jproxies := jproxies r; jthreads := jthreads r; jslots := jslots r; jgates := v; jevents := jevents r |}.
Definition sjevents (r : jconfig) v : jconfig := {| proms := proms r; jproxies := jproxies r; jthreads := jthreads r; jslots := jslots r; jgates := jgates r; jevents := v |}.

(* ---------------------------------------------------------------- helpers *)

Definition dfl_prom : prom :=
  {| p_mu := None; p_caller := false; p_signals := []; p_resclosed := true; p_ongoing := 0; p_stopped := CNil;
     p_known := CNil; p_joined := CNil; p_next := None; p_clients := []; p_hastable := false; p_crefs := 0;
     p_relflag := true; p_result := None |}.

Definition new_prom (k : nat) : prom :=
  {| p_mu := None; p_caller := true; p_signals := [k]; p_resclosed := false; p_ongoing := 0; p_stopped := CNil;
     p_known := CNil; p_joined := CNil; p_next := None; p_clients := []; p_hastable := false; p_crefs := 1;
     p_relflag := false; p_result := None |}.

Definition dfl_jpx : jproxy :=
  {| jx_owner := 0; jx_path := []; jx_refs := 0; jx_calls := 0; jx_target := None; jx_done := false; jx_rel := false |}.

Fixpoint pm_get (m : list (nat * prom)) (k : nat) : prom :=
  match m with
  | [] => dfl_prom
  | (k', p) :: r => if Nat.eqb k' k then p else pm_get r k
  end.

Fixpoint pm_set (m : list (nat * prom)) (k : nat) (p : prom) : list (nat * prom) :=
  match m with
  | [] => [(k, p)]
  | (k', p') :: r => if Nat.eqb k' k then (k', p) :: r else (k', p') :: pm_set r k p
  end.

Definition getp (c : jconfig) (k : nat) : prom := pm_get (proms c) k.
Definition setp (c : jconfig) (k : nat) (p : prom) : jconfig := sproms c (pm_set (proms c) k p).
Definition getx (c : jconfig) (x : nat) : jproxy := nth x (jproxies c) dfl_jpx.
Definition setx (c : jconfig) (x : nat) (p : jproxy) : jconfig := sjproxies c (upd x p (jproxies c)).
Definition sett (c : jconfig) (t : nat) (th : jthread) : jconfig := sjthreads c (upd t th (jthreads c)).
Definition jlog (c : jconfig) (e : jevent) : jconfig := sjevents c (e :: jevents c).

Definition free (c : jconfig) (k : nat) : bool := match p_mu (getp c k) with None => true | Some _ => false end.
Definition held_by (c : jconfig) (k t : nat) : bool :=
  match p_mu (getp c k) with Some t' => Nat.eqb t t' | None => false end.

Definition is_pjoin (p : prom) : bool := match p_joined p with COpen => true | _ => false end.
Definition p_is_joined (p : prom) : bool := match p_next p with Some _ => true | None => false end.
Definition no_signals (p : prom) : bool := match p_signals p with [] => true | _ => false end.
(* isPendingResolution: caller == nil && next == nil && joined == nil && len(signals) > 0 *)
Definition is_pres (p : prom) : bool :=
  negb (p_caller p) && negb (p_is_joined p) && negb (is_pjoin p) && negb (no_signals p).
Definition p_is_resolved (p : prom) : bool := no_signals p && negb (p_is_joined p).

Definition jcur_res (p : prom) : resolution := match p_result p with Some r => r | None => RFul [] end.

Fixpoint close_sigs (c : jconfig) (sigs : list nat) : jconfig :=
  match sigs with
  | [] => c
  | k :: r => close_sigs (setp c k (sp_resclosed (getp c k) true)) r
  end.

Definition close_joined (p : prom) : prom :=
  match p_joined p with COpen => sp_joined p CClosed | _ => p end.

Definition rows_of (p : prom) : list nat := concat (map snd (p_clients p)).

Fixpoint find_row (cl : list (path * list nat)) (q : path) : list nat :=
  match cl with
  | [] => []
  | (q', row) :: r => if path_eqb q' q then row else find_row r q
  end.

Fixpoint add_row (cl : list (path * list nat)) (q : path) (row : list nat) : list (path * list nat) :=
  match cl with
  | [] => [(q, row)]
  | (q', row') :: r => if path_eqb q' q then (q', row' ++ row) :: r else (q', row') :: add_row r q row
  end.

Fixpoint merge_tab (dst src : list (path * list nat)) : list (path * list nat) :=
  match src with
  | [] => dst
  | (q, row) :: r => merge_tab (add_row dst q row) r
  end.

Definition jgoto (th : jthread) (p : jpc) : jthread := sj_pc th p.
Definition jfinish (th : jthread) (o : outcome) : jthread := sj_out (sj_pc th QDone) o.
Definition jcall_done (th : jthread) : jthread :=
  match j_via th with Some _ => jgoto th QCallFinish | None => jfinish th ORet end.

(* ---------------------------------------------------------------- resolve *)

(* the "move p into resolved state" block; ends with the (deferred) Unlock *)
Definition do_final (v : jvariant) (c : jconfig) (t : nat) (th : jthread) (k : nat) (r : resolution) : jconfig :=
  let p := getp c k in
  let p1 := if jv_close_joined v then close_joined p else p in
  let p2 := sp_mu (sp_result (sp_known (sp_stopped (sp_signals p1 []) CNil) CNil) (Some r)) None in
  sett (close_sigs (setp c k p2) (p_signals p)) t (jfinish th ORet).

(* result and err set, p.joined closed, pendingDone closed, Unlock; then the proxies *)
Definition do_known (c : jconfig) (t : nat) (th : jthread) (k : nat) (r : resolution) : jconfig :=
  let p := getp c k in
  let p1 := sp_mu (sp_known (close_joined (sp_result p (Some r))) CClosed) None in
  sett (jlog (setp c k p1) (JEResolved t k)) t (sj_rest (sj_res (sj_cur (jgoto th QFul) k) r) (rows_of p)).

(* resolve(r, e) entered with p.mu held and p.caller = nil *)
Definition resolve_entry (v : jvariant) (c : jconfig) (t : nat) (th : jthread) (k : nat) (r : resolution) : jconfig :=
  let p := getp c k in
  match rows_of p, 0 <? p_ongoing p with
  | [], false => do_final v (jlog c (JEResolved t k)) t th k r
  | _, true =>
    sett (setp c k (sp_mu (sp_stopped (sp_known p COpen) COpen) None)) t (sj_res (sj_cur (jgoto th QStopWait) k) r)
  | _, false => do_known (setp c k (sp_known p COpen)) t th k r
  end.

(* ---------------------------------------------------------------- sections *)

Definition jop_res (o : jop) : resolution := match o with JFulfill _ caps => RFul caps | _ => RRej end.
Definition jop_gated (o : jop) : bool := match o with JSend _ _ g => g | JCall _ g => g | _ => false end.

Definition sec_jresolve_start (v : jvariant) (c : jconfig) (t : nat) (th : jthread) (k : nat) : option jconfig :=
  if negb (free c k) then None else
  let p := getp c k in
  if negb (p_caller p) then Some (sett c t (jfinish th OPanic)) else
  let c1 := jlog (setp c k (sp_caller p false)) (JEBegin t k) in
  Some (resolve_entry v c1 t th k (jop_res (j_op th))).

Definition sec_jfulfil (c : jconfig) (t : nat) (th : jthread) : option jconfig :=
  match j_rest th with
  | [] => Some (sett c t (jgoto th QClose))
  | x :: rest =>
    let p := getx c x in
    let d := res_dest (j_res th) (jx_path p) in
    if jx_refs p =? 0 then
      Some (sett (setx c x (sjx_target p (Some d))) t (sj_rest (jgoto th QFul) rest))
    else
      let p1 := sjx_done (sjx_refs (sjx_target p (Some d)) 0) (if jx_calls p =? 0 then true else jx_done p) in
      Some (sett (setx c x p1) t (sj_waitx (sj_rest (jgoto th QFulWait) rest) x))
  end.

(* Join, first section *)
Definition sec_join_start (c : jconfig) (t : nat) (th : jthread) (k par : nat) : option jconfig :=
  if negb (free c k) then None else
  let p := getp c k in
  if negb (p_caller p) then Some (sett c t (jfinish th OPanic)) else
  let c1 := jlog c (JEBegin t k) in
  if 0 <? p_ongoing p then
    Some (sett (setp c1 k (sp_joined (sp_stopped (sp_caller p false) COpen) COpen)) t (sj_par (sj_cur (jgoto th QJStopWait) k) par))
  else
    Some (sett (setp c1 k (sp_mu (sp_caller p false) (Some t))) t (sj_par (sj_cur (jgoto th QJPar) k) par)).

(* Join holding p.mu: parent.mu.Lock() and one round of the traversal switch *)
Definition sec_join_par (v : jvariant) (c : jconfig) (t : nat) (th : jthread) : option jconfig :=
  let k := j_cur th in
  let par := j_par th in
  (* p.Join(p.Answer()): parent.mu.Lock() on the mutex this thread holds never returns *)
  if Nat.eqb par k then None else
  if negb (free c par) then None else
  let p := getp c k in
  let q := getp c par in
  if p_caller q then
    (* the other promise is unresolved: p becomes joined *)
    if negb (jv_alloc_table v) && negb (p_hastable q) && negb (match p_clients p with [] => true | _ => false end) then
      (* assignment to entry in nil map: panic; the deferred Unlock releases p.mu, parent.mu stays locked *)
      let p1 := sp_mu (sp_signals (sp_next (close_joined p) (Some par)) []) None in
      let q1 := sp_mu (sp_signals q (p_signals q ++ p_signals p)) (Some t) in
      Some (sett (setp (setp c k p1) par q1) t (jfinish th OPanic))
    else
      let p1 := sp_mu (sp_crefs (sp_hastable (sp_clients (sp_signals (sp_next (close_joined p) (Some par)) []) []) false) 0) None in
      let q1 := sp_crefs (sp_hastable (sp_clients (sp_signals q (p_signals q ++ p_signals p))
                                                  (merge_tab (p_clients q) (p_clients p)))
                                      (p_hastable q || negb (match p_clients p with [] => true | _ => false end)))
                         (if jv_refs_sum v then p_crefs q + p_crefs p else p_crefs q + 1) in
      Some (sett (setp (setp c k p1) par q1) t (jfinish th ORet))
  else if is_pres q then
    Some (sett (setp c k (sp_mu (sp_joined p COpen) None)) t (jgoto th QJWaitRes))
  else if is_pjoin q then
    Some (sett (setp c k (sp_mu (sp_joined p COpen) None)) t (jgoto th QJWaitJ))
  else if p_is_resolved q then
    Some (resolve_entry v c t th k (jcur_res q))
  else match p_next q with
       | Some nx => Some (sett c t (sj_par th nx))
       | None => None
       end.

(* the traversal of PipelineSend / PipelineRecv / Future.Client and then the operation's switch *)
Definition sec_trav (c : jconfig) (t : nat) (th : jthread) : option jconfig :=
  let k := j_cur th in
  if negb (free c k) then None else
  let p := getp c k in
  if is_pjoin p then Some (sett c t (jgoto th QWaitJ)) else
  match p_next p with
  | Some q => Some (sett c t (sj_cur th q))
  | None =>
    match j_op th with
    | JSend _ _ _ | JCall _ _ =>
      if p_caller p then
        Some (sett (jlog (setp c k (sp_ongoing p (p_ongoing p + 1))) (JEDeliver t k DCaller)) t (jgoto th QInCaller))
      else if is_pres p then Some (sett c t (jgoto th QWaitKnown))
      else Some (sett (jlog c (JEDeliver t k (res_dest (jcur_res p) (j_path th)))) t (jcall_done th))
    | JClient _ path s =>
      if p_caller p then
        match find_row (p_clients p) path with
        | x :: _ =>
          let h := HProxy x in
          Some (sett (sjslots c ((s, h) :: jslots c)) t (jfinish th (OHandle h)))
        | [] =>
          let x := length (jproxies c) in
          let np := {| jx_owner := k; jx_path := path; jx_refs := 1; jx_calls := 0; jx_target := None;
                       jx_done := false; jx_rel := false |} in
          let h := HProxy x in
          let c1 := setp (sjproxies c (jproxies c ++ [np])) k (sp_hastable (sp_clients p (add_row (p_clients p) path [x])) true) in
          Some (sett (sjslots c1 ((s, h) :: jslots c1)) t (jfinish th (OHandle h)))
        end
      else if is_pres p then Some (sett c t (jgoto th QWaitRes))
      else
        let h := HDirect (res_dest (jcur_res p) path) in
        Some (sett (sjslots c ((s, h) :: jslots c)) t (jfinish th (OHandle h)))
    | _ => None
    end
  end.

Definition sec_jrelock (c : jconfig) (t : nat) (th : jthread) : option jconfig :=
  let k := j_cur th in
  if negb (free c k) then None else
  let p := getp c k in
  let og := p_ongoing p - 1 in
  let st := match p_stopped p with COpen => if og =? 0 then CClosed else COpen | s => s end in
  Some (sett (setp c k (sp_stopped (sp_ongoing p og) st)) t (jcall_done th)).

Definition sec_jcall_finish (c : jconfig) (t : nat) (th : jthread) : option jconfig :=
  match j_via th with
  | None => Some (sett c t (jfinish th ORet))
  | Some x =>
    let p := getx c x in
    let calls := jx_calls p - 1 in
    Some (sett (setx c x (sjx_done (sjx_calls p calls) (if (jx_refs p =? 0) && (calls =? 0) then true else jx_done p)))
               t (jfinish th ORet))
  end.

Definition sec_jcall_start (c : jconfig) (t : nat) (th : jthread) (s : Z) : option jconfig :=
  match lookup_slot (jslots c) s with
  | None => Some (sett c t (jfinish th ONoSlot))
  | Some (HDirect d) => Some (sett (jlog c (JEDirect t d)) t (jfinish th ORet))
  | Some (HProxy x) =>
    let p := getx c x in
    if jx_rel p then Some (sett (jlog c (JEDirect t DFail)) t (jfinish th ORet))
    else match jx_target p with
         | Some d => Some (sett (jlog c (JEDirect t d)) t (jfinish th ORet))
         | None =>
           Some (sett (setx c x (sjx_calls p (jx_calls p + 1))) t
                      (sj_via (sj_path (sj_cur (jgoto th QTrav) (jx_owner p)) (jx_path p)) (Some x)))
         end
  end.

(* ReleaseClients: flag on the receiver (first section only: j_waitx = 0), then walk to the end of the chain;
   j_waitx = 1 afterwards: this call owes the chain's last promise one decrement of clientsRefs *)
Definition sec_rel_walk (c : jconfig) (t : nat) (th : jthread) : option jconfig :=
  let k := j_cur th in
  if negb (free c k) then None else
  let p := getp c k in
  let first := Nat.eqb (j_waitx th) 0 in
  if first && p_relflag p then Some (sett c t (jfinish th ONoop)) else
  let p := if first then sp_relflag p true else p in
  match p_next p with
  | Some q => Some (sett (setp c k p) t (sj_waitx (sj_cur th q) 1))
  | None =>
    let rf := p_crefs p - 1 in
    if 0 <? rf then Some (sett (setp c k (sp_crefs p rf)) t (sj_waitx (jfinish th ONoop) 2))
    else Some (sett (setp c k (sp_hastable (sp_clients (sp_crefs p rf) []) false)) t
                    (sj_waitx (sj_rest (jgoto th QRel) (rows_of p)) 2))
  end.

Definition sec_jrelease_proxy (c : jconfig) (t : nat) (th : jthread) : option jconfig :=
  match j_rest th with
  | [] => Some (sett c t (jfinish th ORet))
  | x :: rest =>
    let p := getx c x in
    if jx_rel p then Some (sett c t (sj_rest th rest))
    else match jx_target p with
         | Some _ => Some (sett (setx c x (sjx_rel p true)) t (sj_rest th rest))
         | None =>
           let refs := jx_refs p - 1 in
           if 0 <? refs then Some (sett (setx c x (sjx_rel (sjx_refs p refs) true)) t (sj_rest th rest))
           else Some (sett (setx c x (sjx_done (sjx_rel (sjx_refs p refs) true) (if jx_calls p =? 0 then true else jx_done p)))
                           t (sj_waitx (sj_rest (jgoto th QRelWait) rest) x))
         end
  end.

Definition sec_wait_walk (c : jconfig) (t : nat) (th : jthread) : option jconfig :=
  let k := j_cur th in
  if negb (free c k) then None else
  let p := getp c k in
  match p_next p with
  | Some q => Some (sett c t (sj_cur th q))
  | None => Some (sett c t (jfinish th (OStruct (match jcur_res p with RRej => false | _ => true end))))
  end.

(* ---------------------------------------------------------------- step *)

Definition jstep_thread (v : jvariant) (c : jconfig) (t : nat) (th : jthread) : option jconfig :=
  match j_pc th with
  | QDone => None
  | QStart =>
    match j_op th with
    | JFulfill k _ | JReject k => sec_jresolve_start v c t th k
    | JJoin k par => sec_join_start c t th k par
    | JSend k p _ => Some (sett c t (sj_path (sj_cur (jgoto th QTrav) k) p))
    | JClient k _ _ => Some (sett c t (sj_cur (jgoto th QTrav) k))
    | JCall s _ => sec_jcall_start c t th s
    | JRelease k => if p_resclosed (getp c k) then Some (sett c t (sj_waitx (sj_cur (jgoto th QRelWalk) k) 0)) else None
    | JWait k => if p_resclosed (getp c k) then Some (sett c t (sj_cur (jgoto th QWaitWalk) k)) else None
    | JUngate n => Some (sett (sjgates c (n :: jgates c)) t (jfinish th ORet))
    end
  | QTrav => sec_trav c t th
  | QWaitJ => match p_joined (getp c (j_cur th)) with COpen => None | _ => Some (sett c t (jgoto th QTrav)) end
  | QInCaller =>
    if negb (jop_gated (j_op th)) || mem_nat t (jgates c) then Some (sett c t (jgoto th QRelock)) else None
  | QRelock => sec_jrelock c t th
  | QWaitKnown => match p_known (getp c (j_cur th)) with COpen => None | _ => Some (sett c t (jgoto th QAfterKnown)) end
  | QAfterKnown =>
    if negb (free c (j_cur th)) then None
    else Some (sett (jlog c (JEDeliver t (j_cur th) (res_dest (jcur_res (getp c (j_cur th))) (j_path th)))) t (jcall_done th))
  | QCallFinish => sec_jcall_finish c t th
  | QWaitRes => if p_resclosed (getp c (j_cur th)) then Some (sett c t (jgoto th QAfterRes)) else None
  | QAfterRes =>
    if negb (free c (j_cur th)) then None
    else match j_op th with
         | JClient _ path s =>
           let h := HDirect (res_dest (jcur_res (getp c (j_cur th))) path) in
           Some (sett (sjslots c ((s, h) :: jslots c)) t (jfinish th (OHandle h)))
         | _ => None
         end
  | QStopWait => match p_stopped (getp c (j_cur th)) with CClosed => Some (sett c t (jgoto th QKnown)) | _ => None end
  | QKnown => if negb (free c (j_cur th)) then None else Some (do_known c t th (j_cur th) (j_res th))
  | QFul => sec_jfulfil c t th
  | QFulWait => if jx_done (getx c (j_waitx th)) then Some (sett c t (jgoto th QFul)) else None
  | QClose => if negb (free c (j_cur th)) then None else Some (do_final v c t th (j_cur th) (j_res th))
  | QJStopWait => match p_stopped (getp c (j_cur th)) with CClosed => Some (sett c t (jgoto th QJRelock)) | _ => None end
  | QJRelock =>
    let k := j_cur th in
    if negb (free c k) then None
    else Some (sett (setp c k (sp_mu (sp_stopped (getp c k) CNil) (Some t))) t (jgoto th QJPar))
  | QJPar => sec_join_par v c t th
  | QJWaitRes => if p_resclosed (getp c (j_par th)) then Some (sett c t (jgoto th QJLockP)) else None
  | QJWaitJ => match p_joined (getp c (j_par th)) with COpen => None | _ => Some (sett c t (jgoto th QJLockP)) end
  | QJLockP =>
    let k := j_cur th in
    if negb (free c k) then None
    else Some (sett (setp c k (sp_mu (getp c k) (Some t))) t (jgoto th QJPar))
  | QRelWalk => sec_rel_walk c t th
  | QRel => sec_jrelease_proxy c t th
  | QRelWait => if jx_done (getx c (j_waitx th)) then Some (sett c t (jgoto th QRel)) else None
  | QWaitWalk => sec_wait_walk c t th
  end.

Definition jstep (v : jvariant) (c : jconfig) (t : nat) : option jconfig :=
  match nth_error (jthreads c) t with
  | Some th => jstep_thread v c t th
  | None => None
  end.

Definition mk_jthread (o : jop) : jthread :=
  {| j_op := o; j_pc := QStart; j_cur := 0; j_par := 0; j_path := []; j_via := None; j_rest := []; j_waitx := 0;
     j_res := RRej; j_out := ONone |}.

Definition jinit (np : nat) (ops : list jop) : jconfig :=
  {| proms := map (fun k => (k, new_prom k)) (seq 0 np); jproxies := []; jthreads := map mk_jthread ops; jslots := []; jgates := [];
     jevents := [] |}.

Inductive jreach (v : jvariant) (np : nat) (ops : list jop) : jconfig -> Prop :=
| jreach_init : jreach v np ops (jinit np ops)
| jreach_step : forall c t c', jreach v np ops c -> jstep v c t = Some c' -> jreach v np ops c'.

Definition jenabled (v : jvariant) (c : jconfig) (t : nat) : bool :=
  match jstep v c t with Some _ => true | None => false end.

Definition jfinished (c : jconfig) (t : nat) : bool :=
  match nth_error (jthreads c) t with
  | Some th => match j_pc th with QDone => true | _ => false end
  | None => true
  end.

(* the mutex a thread's next section starts by locking (None: it does not start with a Lock) *)
Definition jwants (c : jconfig) (t : nat) : option nat :=
  match nth_error (jthreads c) t with
  | Some th =>
    match j_pc th with
    | QTrav | QRelock | QAfterKnown | QAfterRes | QKnown | QClose | QJRelock | QJLockP | QRelWalk | QWaitWalk =>
      Some (j_cur th)
    | QJPar => Some (j_par th)
    | QStart => match j_op th with JFulfill k _ | JReject k | JJoin k _ => Some k | _ => None end
    | _ => None
    end
  | None => None
  end.

(* a launched thread is blocked on a mutex that is held: synctest never reaches quiescence *)
Definition jmutex_blocked (c : jconfig) (t : nat) : bool :=
  negb (jfinished c t) &&
  match jwants c t with Some k => negb (free c k) | None => false end.

Fixpoint jfirst_enabled (v : jvariant) (c : jconfig) (n : nat) : option nat :=
  match n with
  | O => None
  | S k => match jfirst_enabled v c k with
           | Some t => Some t
           | None => if jenabled v c k then Some k else None
           end
  end.

Fixpoint jquiesce (v : jvariant) (fuel : nat) (c : jconfig) (n : nat) : option jconfig :=
  match fuel with
  | O => None
  | S f => match jfirst_enabled v c n with
           | None => Some c
           | Some t => match jstep v c t with
                       | Some c' => jquiesce v f c' n
                       | None => Some c
                       end
           end
  end.

Fixpoint jrun (v : jvariant) (c : jconfig) (sched : list nat) : jconfig :=
  match sched with
  | [] => c
  | t :: r => match jstep v c t with Some c' => jrun v c' r | None => jrun v c r end
  end.

Definition all_mu_free (c : jconfig) : bool :=
  forallb (fun kp => match p_mu (snd kp) with None => true | _ => false end) (proms c).
